import Nsq.Model.DiskQueue
import Nsq.Model.Restart
/-
C05 / C07 on top of engine E9: the disk queue of `Model.Restart` (an association list
`Persist.dq`, read back by `lookupDQ`) and the "file I/O" of `C07.dq_roundtrip` replaced by the
go-diskqueue model `Model.DiskQueue` (files, metadata, positions).

* `Codec` — how a message becomes a disk-queue record (`writeMessageToBackend` = `Message.WriteTo`
  into `backend.Put`; `decodeMessage` on what `ReadChan()` hands out).  `Life.Msg` has an abstract
  `id : Nat`, so the encoding is a parameter; `ok` is the domain on which it is exact (a codec into
  byte strings of bounded length cannot be exact on all of an infinite message type).
* `flushTo` — `Channel.flush` / `Topic.flush` + `backend.Close()`: every message that is not yet on
  disk is `Put`, then `Close` (= final `sync`); what is left of the object is its file set.
* `readBack` — `diskqueue.New` on that file set in the new process, then everything it hands out,
  decoded; a record that does not decode is logged and skipped (`Topic.messagePump`,
  `Channel` consumers: `decodeMessage` error → `continue`), hence `filterMap`.
* `reloadW` — `Restart.reload` with the disk-queue read as a parameter `look`:
  `reloadW (lookupDQ p.dq)` is `Restart.reload` (list model), `reloadW (readAll …)` reads E9 files.
Core Lean only.
-/
namespace Nsq.Model.RestartDQ
open Nsq.Model.Wire Nsq.Model.DiskQueue

/-- a record codec for messages of type `μ` whose records have `minSz ≤ length ≤ maxSz` -/
structure Codec (μ : Type) (minSz maxSz : Nat) where
  /-- the messages the codec is exact on (16-byte id, body within `--max-msg-size`, …) -/
  ok : μ → Prop
  enc : μ → Bytes
  dec : Bytes → Option μ
  dec_enc : ∀ m, ok m → dec (enc m) = some m
  valid : ∀ m, ok m → minSz ≤ (enc m).length ∧ (enc m).length ≤ maxSz

/-- `Put` every record, in order (results ignored here; `Proofs.DQGlue` shows they are all `.ok`) -/
def writeAll (s0 : St) (l : List Bytes) : St := l.foldl (fun s d => (put s d).2) s0

/-- flush `ms` behind whatever the live queue `s0` already holds, `Close`: the files left behind -/
def flushTo {μ : Type} {a b : Nat} (K : Codec μ a b) (s0 : St) (ms : List μ) : FS :=
  (close (writeAll s0 (ms.map K.enc))).fs

/-- receive until nothing is offered (at most `n` records) -/
def drainQ : Nat → St → List Bytes
  | 0, _ => []
  | n + 1, s =>
    match (recv s).1 with
    | some d => d :: drainQ n (recv s).2
    | none => []

/-- all-or-nothing decoding of a list of records -/
def decAll {μ : Type} (dec : Bytes → Option μ) : List Bytes → Option (List μ)
  | [] => some []
  | b :: bs =>
    match dec b, decAll dec bs with
    | some m, some ms => some (m :: ms)
    | _, _ => none

/-- `New` on the file set `fs` with the new process's configuration, up to `n` receives, decoded -/
def readBack {μ : Type} {a b : Nat} (K : Codec μ a b) (cfg : Cfg) (fs : FS) (n : Nat) : List μ :=
  (drainQ n (openQ cfg fs)).filterMap K.dec

/-- … as many receives as `Depth()` of the re-opened queue says -/
def readAll {μ : Type} {a b : Nat} (K : Codec μ a b) (cfg : Cfg) (fs : FS) : List μ :=
  readBack K cfg fs (openQ cfg fs).depth.toNat

/-! ### `Restart.reload` with the disk-queue read as a parameter -/

def reloadChanW (look : Life.BName → List Life.Msg) (t : String) (c : String × Bool) : Life.Chan :=
  { name := c.1, eph := false, paused := c.2, queue := look (t, some c.1), memLen := 0 }

def reloadTopicW (look : Life.BName → List Life.Msg) (e : String × Bool × List (String × Bool)) : Life.Topic :=
  { name := e.1, eph := false, paused := e.2.1, queue := look (e.1, none), memLen := 0,
    chans := e.2.2.map (reloadChanW look e.1) }

/-- the topics `LoadMetadata` creates from the metadata `md`, each queue read by `look` -/
def reloadW (look : Life.BName → List Life.Msg) (md : List (String × Bool × List (String × Bool))) : List Life.Topic :=
  md.map (reloadTopicW look)

/-! ### a concrete codec for `Life.Msg`: the real wire format with the id rendered on 16 bytes -/

def toWire (m : Life.Msg) : Wire.Msg :=
  { ts := BitVec.ofInt 64 m.ts, attempts := BitVec.ofNat 16 m.attempts, id := beBytes 16 m.id, body := m.body }

def ofWire (w : Wire.Msg) : Life.Msg :=
  { id := beVal w.id, ts := w.ts.toInt, attempts := w.attempts.toNat, body := w.body }

/-- the `Life.Msg`s that fit the wire format: int64 timestamp, uint16 attempts, 16-byte id, bounded body -/
def LifeOk (maxBody : Nat) (m : Life.Msg) : Prop :=
  m.id < 256 ^ 16 ∧ -(2 ^ 63 : Int) ≤ m.ts ∧ m.ts < (2 ^ 63 : Int) ∧ m.attempts < 65536 ∧ m.body.length ≤ maxBody

instance (maxBody : Nat) (m : Life.Msg) : Decidable (LifeOk maxBody m) := by unfold LifeOk; infer_instance

end Nsq.Model.RestartDQ
