/-
Implementation-shaped model of nsqlookupd's registration database and its handlers
(nsqlookupd/registration_db.go, lookup_protocol_v1.go handlers, http.go handlers).
Core Lean only (linked into the driver `drv_e4`).

Shape kept from the code:
* `RegistrationDB.registrationMap : map[Registration]ProducerMap` is an association list
  `Key ↦ (peer id ↦ Tomb)`; Go map semantics (`mget/mset/mdel`) are the three functions of
  `AMap`. Iteration order of Go maps is not modelled: every answer that iterates a map is
  compared as a sorted list / mset.
* `*PeerInfo` pointers shared by all `Producer`s of one connection are peer ids (`Nat`) into
  `peers` (`client.peerInfo` of every identified, still-open connection).
* time is an input (`now`), never read.
* names are byte strings (`List UInt8`), exactly what arrives on the wire / in the URL.
-/
namespace Nsq.Model.Registry

abbrev Name := List UInt8

/-! ## Go map as association list -/
namespace AMap
variable {α : Type} {β : Type} [DecidableEq α]

def mget : List (α × β) → α → Option β
  | [], _ => none
  | e :: m, k => if e.1 = k then some e.2 else mget m k

def mset : List (α × β) → α → β → List (α × β)
  | [], k, v => [(k, v)]
  | e :: m, k, v => if e.1 = k then (k, v) :: m else e :: mset m k v

def mdel : List (α × β) → α → List (α × β)
  | [], _ => []
  | e :: m, k => if e.1 = k then mdel m k else e :: mdel m k

def mkeys (m : List (α × β)) : List α := m.map (·.1)

end AMap
open AMap

/-! ## Names (internal/protocol/names.go) -/

/-- `[.a-zA-Z0-9_-]` -/
def nameChar (c : UInt8) : Bool :=
  c = 46 || (97 ≤ c && c ≤ 122) || (65 ≤ c && c ≤ 90) || (48 ≤ c && c ≤ 57) || c = 95 || c = 45

/-- the bytes of `#ephemeral` -/
def ephSuffix : Name := [35, 101, 112, 104, 101, 109, 101, 114, 97, 108]

/-- `strings.HasSuffix(name, "#ephemeral")` -/
def isEphemeral (n : Name) : Bool := ephSuffix.isSuffixOf n

def stripEph (n : Name) : Name := if isEphemeral n then n.take (n.length - 10) else n

/-- `isValidName`: `1 ≤ len ≤ 64` and `^[.a-zA-Z0-9_-]+(#ephemeral)?$`. -/
def validName (n : Name) : Bool :=
  1 ≤ n.length && n.length ≤ 64 && !(stripEph n).isEmpty && (stripEph n).all nameChar

def star : Name := [42]

/-! ## State -/

inductive Cat
  | client | topic | channel
deriving DecidableEq, Repr

/-- `Registration{Category, Key, SubKey}` -/
structure Key where
  cat : Cat
  key : Name
  sub : Name
deriving DecidableEq, Repr

/-- The per-registration part of a `Producer` (`tombstoned`, `tombstonedAt`); the `peerInfo`
pointer is the peer id it is stored under. -/
structure Tomb where
  tombstoned : Bool
  tombAt : Int
deriving DecidableEq, Repr

def fresh : Tomb := ⟨false, 0⟩

/-- The fields of `PeerInfo` supplied by the IDENTIFY body. -/
structure Info where
  bcast : Name
  host : Name
  ver : Name
  tcp : Int
  http : Int
deriving DecidableEq, Repr

structure PeerRec where
  lastUpdate : Int
  info : Info
deriving DecidableEq, Repr

abbrev PMap := List (Nat × Tomb)
abbrev DB := List (Key × PMap)

structure Registry where
  db : DB
  peers : List (Nat × PeerRec)
deriving DecidableEq, Repr

def init : Registry := ⟨[], []⟩

/-- `InactiveProducerTimeout`, `TombstoneLifetime` -/
structure Conf where
  inactive : Int
  tombLife : Int
deriving Repr

def clientKey : Key := ⟨.client, [], []⟩
def topicKey (t : Name) : Key := ⟨.topic, t, []⟩
def chanKey (t c : Name) : Key := ⟨.channel, t, c⟩

/-! ## RegistrationDB methods -/

def addRegistration (db : DB) (k : Key) : DB :=
  match mget db k with
  | some _ => db
  | none => mset db k []

/-- `AddProducer(k, &Producer{peerInfo: p})` -/
def addProducer (db : DB) (k : Key) (id : Nat) : DB :=
  match mget db k with
  | none => mset db k [(id, fresh)]
  | some pm =>
    match mget pm id with
    | some _ => db
    | none => mset db k (mset pm id fresh)

/-- `RemoveProducer` (state part) -/
def removeProducer (db : DB) (k : Key) (id : Nat) : DB :=
  match mget db k with
  | none => db
  | some pm => mset db k (mdel pm id)

/-- `RemoveProducer` (second result: producers left; 0 when the key does not exist) -/
def leftAfterRemove (db : DB) (k : Key) (id : Nat) : Nat :=
  match mget db k with
  | none => 0
  | some pm => (mdel pm id).length

def removeRegistration (db : DB) (k : Key) : DB := mdel db k

def isMatch (k : Key) (cat : Cat) (key sub : Name) : Bool :=
  cat = k.cat && (key = star || k.key = key) && (sub = star || k.sub = sub)

def needFilter (key sub : Name) : Bool := key = star || sub = star

def findRegistrations (db : DB) (cat : Cat) (key sub : Name) : List Key :=
  if needFilter key sub then (mkeys db).filter (fun k => isMatch k cat key sub)
  else
    match mget db ⟨cat, key, sub⟩ with
    | some _ => [⟨cat, key, sub⟩]
    | none => []

/-- `FindProducers` on the exact-key path (`key ≠ "*"`, `subkey ≠ "*"`). -/
def producersOf (db : DB) (k : Key) : PMap :=
  match mget db k with
  | some pm => pm
  | none => []

/-- `LookupRegistrations(id)` -/
def lookupRegistrations (db : DB) (id : Nat) : List Key :=
  (db.filter (fun e => (mget e.2 id).isSome)).map (·.1)

def removeProducerAll (db : DB) (ks : List Key) (id : Nat) : DB :=
  ks.foldl (fun d k => removeProducer d k id) db

def removeRegistrations (db : DB) (ks : List Key) : DB :=
  ks.foldl removeRegistration db

/-! ## TCP handlers (lookup_protocol_v1.go) -/

inductive Code
  | invalid | badTopic | badChannel | badBody | badProtocol
deriving DecidableEq, Repr

/-- what a handler returns; every error of this protocol is a `FatalClientErr`
(the connection is closed after the reply). -/
inductive TcpOut
  | ok
  | identified
  | err (code : Code) (msg : List UInt8)
deriving DecidableEq, Repr

def TcpOut.isErr : TcpOut → Bool
  | .err _ _ => true
  | _ => false

def identifiedB (r : Registry) (p : Nat) : Bool := (mget r.peers p).isSome

/-- exit path of `IOLoop`: all of the peer's registrations are removed and the client object
(with its `peerInfo`) is gone. -/
def disconnect (r : Registry) (p : Nat) : Registry :=
  if identifiedB r p then
    { db := removeProducerAll r.db (lookupRegistrations r.db p) p, peers := mdel r.peers p }
  else r

def ascii (s : String) : List UInt8 := s.toUTF8.toList

structure TopicChan where
  topic : Name
  chan : Name
deriving DecidableEq, Repr

def chanParam : List Name → Name
  | _ :: c :: _ => c
  | _ => []

/-- `getTopicChan(command, params)` -/
def getTopicChan (cmd : String) (params : List Name) : Except TcpOut TopicChan :=
  match params with
  | [] => .error (.err .invalid (ascii (cmd ++ " insufficient number of params")))
  | t :: _ =>
    if !validName t then
      .error (.err .badTopic (ascii (cmd ++ " topic name '") ++ t ++ ascii "' is not valid"))
    else if chanParam params ≠ [] && !validName (chanParam params) then
      .error (.err .badChannel (ascii (cmd ++ " channel name '") ++ chanParam params ++ ascii "' is not valid"))
    else .ok ⟨t, chanParam params⟩

def missingFields (i : Info) : Bool :=
  i.bcast = [] || i.tcp = 0 || i.http = 0 || i.ver = []

/-- `IDENTIFY` after the body was read and decoded into `info`. -/
def identify (r : Registry) (p : Nat) (info : Info) (now : Int) : Registry × TcpOut :=
  if identifiedB r p then (disconnect r p, .err .invalid (ascii "cannot IDENTIFY again"))
  else if missingFields info then (r, .err .badBody (ascii "IDENTIFY missing fields"))
  else ({ db := addProducer r.db clientKey p, peers := mset r.peers p ⟨now, info⟩ }, .identified)

def registerDB (db : DB) (p : Nat) (tc : TopicChan) : DB :=
  addProducer (if tc.chan ≠ [] then addProducer db (chanKey tc.topic tc.chan) p else db)
    (topicKey tc.topic) p

def register (r : Registry) (p : Nat) (params : List Name) : Registry × TcpOut :=
  if !identifiedB r p then (r, .err .invalid (ascii "client must IDENTIFY"))
  else
    match getTopicChan "REGISTER" params with
    | .error e => (disconnect r p, e)
    | .ok tc => ({ r with db := registerDB r.db p tc }, .ok)

/-- remove `p` from key `k`; if nobody is left and `eph`, drop the key as well -/
def removeAndGC (db : DB) (k : Key) (p : Nat) (eph : Bool) : DB :=
  if leftAfterRemove db k p = 0 && eph then removeRegistration (removeProducer db k p) k
  else removeProducer db k p

def unregisterDB (db : DB) (p : Nat) (tc : TopicChan) : DB :=
  if tc.chan ≠ [] then
    removeAndGC db (chanKey tc.topic tc.chan) p (isEphemeral tc.chan)
  else
    removeAndGC (removeProducerAll db (findRegistrations db .channel tc.topic star) p)
      (topicKey tc.topic) p (isEphemeral tc.topic)

def unregister (r : Registry) (p : Nat) (params : List Name) : Registry × TcpOut :=
  if !identifiedB r p then (r, .err .invalid (ascii "client must IDENTIFY"))
  else
    match getTopicChan "UNREGISTER" params with
    | .error e => (disconnect r p, e)
    | .ok tc => ({ r with db := unregisterDB r.db p tc }, .ok)

def ping (r : Registry) (p : Nat) (now : Int) : Registry :=
  match mget r.peers p with
  | some pr => { r with peers := mset r.peers p { pr with lastUpdate := now } }
  | none => r

/-! ## HTTP handlers (http.go) -/

/-- the parsed request: `badQuery` = `NewReqParams` failed (`url.ParseQuery` error);
an argument is `none` when the key is absent from the query string. -/
structure HttpArgs where
  badQuery : Bool
  topic : Option Name
  channel : Option Name
  node : Option Name
deriving DecidableEq, Repr

inductive HttpOut
  | ok
  | err (status : Nat) (msg : String)
deriving DecidableEq, Repr

def HttpOut.status : HttpOut → Nat
  | .ok => 200
  | .err s _ => s

/-- `http_api.GetTopicChannelArgs` -/
def getTopicChannelArgs (a : HttpArgs) : Except HttpOut TopicChan :=
  match a.topic with
  | none => .error (.err 400 "MISSING_ARG_TOPIC")
  | some t =>
    if !validName t then .error (.err 400 "INVALID_ARG_TOPIC")
    else
      match a.channel with
      | none => .error (.err 400 "MISSING_ARG_CHANNEL")
      | some c =>
        if !validName c then .error (.err 400 "INVALID_ARG_CHANNEL")
        else .ok ⟨t, c⟩

def createTopic (r : Registry) (a : HttpArgs) : Registry × HttpOut :=
  if a.badQuery then (r, .err 400 "INVALID_REQUEST")
  else
    match a.topic with
    | none => (r, .err 400 "MISSING_ARG_TOPIC")
    | some t =>
      if !validName t then (r, .err 400 "INVALID_ARG_TOPIC")
      else ({ r with db := addRegistration r.db (topicKey t) }, .ok)

def deleteTopicDB (db : DB) (t : Name) : DB :=
  removeRegistrations (removeRegistrations db (findRegistrations db .channel t star))
    (findRegistrations (removeRegistrations db (findRegistrations db .channel t star)) .topic t [])

def deleteTopic (r : Registry) (a : HttpArgs) : Registry × HttpOut :=
  if a.badQuery then (r, .err 400 "INVALID_REQUEST")
  else
    match a.topic with
    | none => (r, .err 400 "MISSING_ARG_TOPIC")
    | some t => ({ r with db := deleteTopicDB r.db t }, .ok)

def createChannel (r : Registry) (a : HttpArgs) : Registry × HttpOut :=
  if a.badQuery then (r, .err 400 "INVALID_REQUEST")
  else
    match getTopicChannelArgs a with
    | .error e => (r, e)
    | .ok tc =>
      ({ r with db := addRegistration (addRegistration r.db (chanKey tc.topic tc.chan)) (topicKey tc.topic) }, .ok)

def deleteChannel (r : Registry) (a : HttpArgs) : Registry × HttpOut :=
  if a.badQuery then (r, .err 400 "INVALID_REQUEST")
  else
    match getTopicChannelArgs a with
    | .error e => (r, e)
    | .ok tc =>
      if (findRegistrations r.db .channel tc.topic tc.chan).isEmpty then (r, .err 404 "CHANNEL_NOT_FOUND")
      else ({ r with db := removeRegistrations r.db (findRegistrations r.db .channel tc.topic tc.chan) }, .ok)

/-- decimal digits of `n`, most significant first (`fuel` > number of digits) -/
def natDigits : Nat → Nat → List UInt8
  | 0, _ => []
  | fuel + 1, n => if n < 10 then [(48 + n).toUInt8] else natDigits fuel (n / 10) ++ [(48 + n % 10).toUInt8]

def natDec (n : Nat) : List UInt8 := natDigits (n + 1) n

/-- decimal rendering of a Go `int` by `%d` -/
def intDec (i : Int) : List UInt8 := if i < 0 then 45 :: natDec i.natAbs else natDec i.toNat

/-- `fmt.Sprintf("%s:%d", BroadcastAddress, HTTPPort)` -/
def nodeOf (i : Info) : Name := i.bcast ++ [58] ++ intDec i.http

def nodeMatches (r : Registry) (id : Nat) (node : Name) : Bool :=
  match mget r.peers id with
  | some pr => nodeOf pr.info = node
  | none => false

/-- `p.Tombstone()` on every producer of one registration whose node string matches -/
def tombstonePM (r : Registry) (pm : PMap) (node : Name) (now : Int) : PMap :=
  pm.map (fun e => if nodeMatches r e.1 node then (e.1, ⟨true, now⟩) else e)

/-! ### The wild-card path `FindProducers("topic", "*", "")`

It walks `registrationMap` in Go map order and keeps, for every peer id, the `*Producer` of the
FIRST topic registration in which it meets that id. Which topic that is, is a run-time choice
`pick : peer id → topic`, constrained only by `PickValid` (see `Nsq.Model.RegistryStar`): the
result of `POST /topic/tombstone?topic=*` is a SET, one element per valid pick. -/

/-- the resolved run-time choice of `FindProducers("topic","*","")` -/
abbrev Pick := Nat → Name

/-- topics peer `id` is registered for (the `Topics` list of `/nodes`) -/
def topicsOf (db : DB) (id : Nat) : List Name :=
  ((lookupRegistrations db id).filter (fun k => isMatch k .topic star [])).map (·.key)

/-- the pick of an iteration in list order (ONE of the possible outcomes) -/
def firstPick (db : DB) : Pick := fun id => (topicsOf db id).headD []

/-- `p.Tombstone()` on the picked producer `id` (stored under topic `key`) if its node string matches -/
def starTombVal (r : Registry) (pick : Pick) (node : Name) (now : Int) (key : Name) (id : Nat) (tb : Tomb) : Tomb :=
  if pick id = key && nodeMatches r id node then ⟨true, now⟩ else tb

def starTombPM (r : Registry) (pick : Pick) (node : Name) (now : Int) (k : Key) (pm : PMap) : PMap :=
  if isMatch k .topic star [] then pm.map (fun pe => (pe.1, starTombVal r pick node now k.key pe.1 pe.2)) else pm

/-- `POST /topic/tombstone?topic=*`: every picked producer whose node string matches is tombstoned -/
def tombstoneStarDB (r : Registry) (pick : Pick) (node : Name) (now : Int) : DB :=
  r.db.map (fun e => (e.1, starTombPM r pick node now e.1 e.2))

def tombstoneDB (r : Registry) (t node : Name) (now : Int) : DB :=
  if t = star then tombstoneStarDB r (firstPick r.db) node now
  else
    match mget r.db (topicKey t) with
    | none => r.db
    | some pm => mset r.db (topicKey t) (tombstonePM r pm node now)

def tombstone (r : Registry) (a : HttpArgs) (now : Int) : Registry × HttpOut :=
  if a.badQuery then (r, .err 400 "INVALID_REQUEST")
  else
    match a.topic with
    | none => (r, .err 400 "MISSING_ARG_TOPIC")
    | some t =>
      match a.node with
      | none => (r, .err 400 "MISSING_ARG_NODE")
      | some node => ({ r with db := tombstoneDB r t node now }, .ok)

/-! ## Queries -/

/-- `Producer.IsTombstoned(lifetime)` evaluated at `now` -/
def isTombstoned (tb : Tomb) (lifetime now : Int) : Bool :=
  tb.tombstoned && decide (now - tb.tombAt < lifetime)

/-- one producer passes `FilterByActive(inactive, lifetime)` at `now` -/
def activeB (r : Registry) (inactive lifetime now : Int) (e : Nat × Tomb) : Bool :=
  match mget r.peers e.1 with
  | some pr => !(decide (now - pr.lastUpdate > inactive) || isTombstoned e.2 lifetime now)
  | none => false

def filterByActive (r : Registry) (inactive lifetime now : Int) (pm : PMap) : PMap :=
  pm.filter (activeB r inactive lifetime now)

/-- `GET /topics` -/
def qTopics (r : Registry) : List Name :=
  (findRegistrations r.db .topic star []).map (·.key)

/-- `GET /channels?topic=t` -/
def qChannels (r : Registry) (t : Name) : List Name :=
  (findRegistrations r.db .channel t star).map (·.sub)

structure LookupAns where
  channels : List Name
  producers : List (Nat × Info)
deriving DecidableEq, Repr

def peerInfos (r : Registry) (pm : PMap) : List (Nat × Info) :=
  pm.filterMap (fun e => (mget r.peers e.1).map (fun pr => (e.1, pr.info)))

/-- `GET /lookup?topic=t` for `t ≠ "*"`; `none` = 404 TOPIC_NOT_FOUND -/
def qLookup (c : Conf) (r : Registry) (t : Name) (now : Int) : Option LookupAns :=
  if (findRegistrations r.db .topic t []).isEmpty then none
  else some ⟨qChannels r t,
             peerInfos r (filterByActive r c.inactive c.tombLife now (producersOf r.db (topicKey t)))⟩

structure NodeAns where
  id : Nat
  info : Info
  topics : List (Name × Bool)
deriving DecidableEq, Repr

/-- the tombstone flag `/nodes` reports for (peer, topic) -/
def tombFlag (c : Conf) (r : Registry) (id : Nat) (t : Name) (now : Int) : Bool :=
  match mget (producersOf r.db (topicKey t)) id with
  | some tb => isTombstoned tb c.tombLife now
  | none => false

def nodeTopics (c : Conf) (r : Registry) (id : Nat) (now : Int) : List (Name × Bool) :=
  ((lookupRegistrations r.db id).filter (fun k => isMatch k .topic star [])).map
    (fun k => (k.key, tombFlag c r id k.key now))

/-- `GET /nodes` -/
def qNodes (c : Conf) (r : Registry) (now : Int) : List NodeAns :=
  (filterByActive r c.inactive 0 now (producersOf r.db clientKey)).filterMap
    (fun e => (mget r.peers e.1).map (fun pr => ⟨e.1, pr.info, nodeTopics c r e.1 now⟩))

structure DebugProducer where
  id : Nat
  lastUpdate : Int
  tombstoned : Bool
  tombAt : Int
deriving DecidableEq, Repr

/-- `GET /debug`: every registration with at least one producer -/
def qDebug (r : Registry) : List (Key × List DebugProducer) :=
  (r.db.filter (fun e => !e.2.isEmpty)).map (fun e =>
    (e.1, e.2.filterMap (fun pe => (mget r.peers pe.1).map
      (fun pr => ⟨pe.1, pr.lastUpdate, pe.2.tombstoned, pe.2.tombAt⟩))))

/-! ## Critical sections (micro-steps)

Each `RegistrationDB` method takes the lock by itself, so a handler that calls several methods
is several critical sections; another connection's handler can run in between. The history
model below treats a handler call as ONE step; these definitions name the real granularity for
the two handlers where it matters (`Nsq.Props.C14`, section "Concurrency"). -/

/-- UNREGISTER topic channel, first critical section: `RemoveProducer` (state, `left`) -/
def unregChanStep1 (db : DB) (t c : Name) (p : Nat) : DB × Nat :=
  (removeProducer db (chanKey t c) p, leftAfterRemove db (chanKey t c) p)

/-- … second critical section: `RemoveRegistration` if nobody was left and the channel is ephemeral -/
def unregChanStep2 (db : DB) (t c : Name) (left : Nat) : DB :=
  if left = 0 && isEphemeral c then removeRegistration db (chanKey t c) else db

/-- REGISTER topic channel: `AddProducer(channel key)`, then `AddProducer(topic key)` -/
def regStep1 (db : DB) (t c : Name) (p : Nat) : DB := addProducer db (chanKey t c) p
def regStep2 (db : DB) (t : Name) (p : Nat) : DB := addProducer db (topicKey t) p

/-- `/topic/delete`: remove the channel keys, then (separately) the topic key -/
def delTopicStep1 (db : DB) (t : Name) : DB := removeRegistrations db (findRegistrations db .channel t star)
def delTopicStep2 (db : DB) (t : Name) : DB := removeRegistrations db (findRegistrations db .topic t [])

/-- `/channel/create`: `AddRegistration(channel key)`, then `AddRegistration(topic key)` -/
def createChanStep1 (db : DB) (t c : Name) : DB := addRegistration db (chanKey t c)
def createChanStep2 (db : DB) (t : Name) : DB := addRegistration db (topicKey t)
def createChannelDB (db : DB) (t c : Name) : DB := addRegistration (addRegistration db (chanKey t c)) (topicKey t)

/-! ### Handlers as lists of critical sections; schedules

`atomic = false`: the sections of the tree before F21 (each `RegistrationDB` method call is one);
`atomic = true`: the sections since F21 = commit 0d24920 (`RegisterProducer`, `RemoveTopic`,
`AddTopicChannel`: one critical section per handler). `interleave` enumerates every schedule of
two handlers running concurrently (each keeps its own order). -/

abbrev Section := DB → DB

def registerSecs (atomic : Bool) (p : Nat) (t c : Name) : List Section :=
  if atomic then [fun db => registerDB db p ⟨t, c⟩]
  else [fun db => regStep1 db t c p, fun db => regStep2 db t p]

def deleteTopicSecs (atomic : Bool) (t : Name) : List Section :=
  if atomic then [fun db => deleteTopicDB db t]
  else [fun db => delTopicStep1 db t, fun db => delTopicStep2 db t]

def createChannelSecs (atomic : Bool) (t c : Name) : List Section :=
  if atomic then [fun db => createChannelDB db t c]
  else [fun db => createChanStep1 db t c, fun db => createChanStep2 db t]

def runSecs (db : DB) (l : List Section) : DB := l.foldl (fun d s => s d) db

/-- all interleavings of two sequences (fuel = total length) -/
def interleaveF {α : Type} : Nat → List α → List α → List (List α)
  | 0, _, _ => [[]]
  | _ + 1, [], ys => [ys]
  | _ + 1, xs, [] => [xs]
  | n + 1, x :: xs, y :: ys =>
    (interleaveF n xs (y :: ys)).map (x :: ·) ++ (interleaveF n (x :: xs) ys).map (y :: ·)

def interleave {α : Type} (xs ys : List α) : List (List α) := interleaveF (xs.length + ys.length) xs ys

/-! ## One step of a history -/

inductive Op
  | identify (p : Nat) (info : Info) (now : Int)
  | register (p : Nat) (params : List Name)
  | unregister (p : Nat) (params : List Name)
  | ping (p : Nat) (now : Int)
  | disconnect (p : Nat)
  | createTopic (a : HttpArgs)
  | deleteTopic (a : HttpArgs)
  | createChannel (a : HttpArgs)
  | deleteChannel (a : HttpArgs)
  | tombstone (a : HttpArgs) (now : Int)
deriving DecidableEq, Repr

inductive Out
  | tcp (o : TcpOut)
  | http (o : HttpOut)
  | none
deriving DecidableEq, Repr

def step (r : Registry) : Op → Registry × Out
  | .identify p info now => ((identify r p info now).1, .tcp (identify r p info now).2)
  | .register p params => ((register r p params).1, .tcp (register r p params).2)
  | .unregister p params => ((unregister r p params).1, .tcp (unregister r p params).2)
  | .ping p now => (ping r p now, .tcp .ok)
  | .disconnect p => (disconnect r p, .none)
  | .createTopic a => ((createTopic r a).1, .http (createTopic r a).2)
  | .deleteTopic a => ((deleteTopic r a).1, .http (deleteTopic r a).2)
  | .createChannel a => ((createChannel r a).1, .http (createChannel r a).2)
  | .deleteChannel a => ((deleteChannel r a).1, .http (deleteChannel r a).2)
  | .tombstone a now => ((tombstone r a now).1, .http (tombstone r a now).2)

def run (r : Registry) : List Op → Registry
  | [] => r
  | op :: ops => run (step r op).1 ops

/-- The only operation whose effect depends on Go's map iteration order:
`POST /topic/tombstone?topic=*`. `step` resolves it in list order (one allowed outcome);
`StepSet` / `RunSet` (`Nsq.Model.RegistryStar`) give the whole set of allowed outcomes, so the
theorems of `Nsq.Props.C14Star` need no `modelled` hypothesis. -/
def Op.modelled : Op → Bool
  | .tombstone a _ => a.topic ≠ some star
  | _ => true

end Nsq.Model.Registry
