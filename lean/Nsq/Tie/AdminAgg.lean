import Nsq.Gen.AdminAgg
import Nsq.Model.Aggregate
/-!
Tie obligations for C18 over facts regenerated from internal/clusterinfo/{types,data}.go on every run
(`Nsq.Gen.AdminAgg`, extractor `tools/go2lean/kind_adminagg.go`). They bind the parts of the hand-written model
`Nsq.Model.Aggregate` that a small source change can silently invalidate:

* (i)   every integer counter field of `TopicStats` / `ChannelStats` is `+=`-summed by `Add` exactly once, from the
        field of the same name, unconditionally — and the translated sums are the model's `Counters.add`;
* (ii)  the channel lookup of `TopicStats.Add` is the linear scan by `ChannelName` with the `found` flag that
        `mergeChan` models (no index arithmetic, no assumption that the list is sorted);
* (iii) in every fetch function one failing upstream records exactly one error (each `errs = append(errs, err)` sits
        in an `if err != nil { …; return }` of the upstream's own goroutine, none inside a nested goroutine / closure),
        and "nothing answered" is `len(errs) == len(<the list the goroutines range over>)` — the model's
        `countFailed answers == upstreams.length`;
* (iv)  the de-duplication keys, sort / uniq calls and recomputed fields are the ones the model uses.
-/
namespace Nsq.Tie.AdminAgg
open Nsq.Gen.AdminAgg Nsq.Model.Aggregate

/-! ### (i) counters -/

def isIntType (t : String) : Bool := t == "int64" || t == "int" || t == "int32" || t == "uint64"

def intFields (fs : List (String × String × String)) : List String :=
  (fs.filter (fun f => isIntType f.2.1)).map (·.1)

def sums (sk : List (Nat × String × String × String)) : List (Nat × String × String) :=
  sk.filterMap (fun e => if e.2.1 == "sum" then some (e.1, e.2.2.1, e.2.2.2) else none)

/-- Every integer field is summed exactly once, at top level (unconditionally), from the same field of the
argument, and nothing else is summed. -/
def summedOnce (fs : List (String × String × String)) (sk : List (Nat × String × String × String)) : Bool :=
  (intFields fs).all (fun f => (sums sk).count (0, f, f) == 1) && (sums sk).length == (intFields fs).length

theorem topic_counters_summed_once : summedOnce topicStatsFields topicAdd = true := by decide
theorem channel_counters_summed_once : summedOnce channelStatsFields channelAdd = true := by decide

/-- The counters the model carries are exactly the integer fields of the Go structs (by JSON name). -/
theorem topic_counter_tags :
    (topicStatsFields.filter (fun f => isIntType f.2.1)).map (fun f => (f.1, f.2.2)) =
      [("Depth", "depth"), ("MemoryDepth", "memory_depth"), ("BackendDepth", "backend_depth"),
       ("MessageCount", "message_count"), ("DeliveryMsgCount", "delivery_msg_count"),
       ("ZoneLocalMsgCount", "zone_local_msg_count,omitempty"),
       ("RegionLocalMsgCount", "region_local_msg_count,omitempty"),
       ("GlobalMsgCount", "global_msg_count,omitempty")] := by decide

theorem channel_counter_tags :
    (channelStatsFields.filter (fun f => isIntType f.2.1)).map (fun f => (f.1, f.2.2)) =
      [("Depth", "depth"), ("MemoryDepth", "memory_depth"), ("BackendDepth", "backend_depth"),
       ("InFlightCount", "in_flight_count"), ("DeferredCount", "deferred_count"),
       ("RequeueCount", "requeue_count"), ("TimeoutCount", "timeout_count"), ("MessageCount", "message_count"),
       ("DeliveryMsgCount", "delivery_msg_count,omitempty"), ("ZoneLocalMsgCount", "zone_local_msg_count,omitempty"),
       ("RegionLocalMsgCount", "region_local_msg_count,omitempty"), ("GlobalMsgCount", "global_msg_count,omitempty"),
       ("ClientCount", "client_count")] := by decide

/-- (B) The `+=` statements of `ChannelStats.Add`, translated, are the model's `Counters.add`. -/
theorem channelAddCounters_eq (t a : Counters) : channelAddCounters t a = t.add a := rfl

/-- … and those of `TopicStats.Add` are `Counters.add` on the topic's counters (a `TopicStats` has no in-flight /
deferred / requeue / timeout / client counters: they are 0 in every topic report of the model). -/
theorem topicAddCounters_eq (t a : Counters)
    (ha : a.inFlight = 0 ∧ a.deferred = 0 ∧ a.requeue = 0 ∧ a.timeout = 0 ∧ a.clientCount = 0) :
    topicAddCounters t a = t.add a := by
  obtain ⟨h1, h2, h3, h4, h5⟩ := ha
  simp [topicAddCounters, Counters.add, h1, h2, h3, h4, h5]

/-- `paused` is or-ed, the report is appended to the node list, clients are concatenated (what `ChanAgg.add` /
`TopicAgg.add` do). -/
def otherEffects (sk : List (Nat × String × String × String)) : List (Nat × String × String × String) :=
  sk.filter (fun e => e.2.1 == "append" || e.2.1 == "appendAll" || (e.2.1 == "set" && e.2.2.1 == "Paused") ||
    (e.2.1 == "if" && e.2.2.1 == "a.Paused") || (e.2.1 == "set" && e.2.2.1 == "Node"))

theorem channelAdd_effects : otherEffects channelAdd =
    [(0, "set", "Node", "\"*\""), (0, "if", "a.Paused", ""), (1, "set", "Paused", "a.Paused"),
     (0, "append", "NodeStats", "a"), (0, "appendAll", "Clients", "a.Clients")] := by decide

theorem topicAdd_effects : otherEffects topicAdd =
    [(0, "set", "Node", "\"*\""), (0, "if", "a.Paused", ""), (1, "set", "Paused", "a.Paused"),
     (2, "append", "Channels", "aChannelStats"), (0, "append", "NodeStats", "a")] := by decide

/-! ### (ii) the channel lookup of TopicStats.Add -/

/-- The statements of the loop over the argument's channels. -/
def channelLoop (sk : List (Nat × String × String × String)) : List (Nat × String × String × String) :=
  (sk.dropWhile (fun e => !(e.2.1 == "range" && e.2.2.1 == "a.Channels"))).takeWhile
    (fun e => e.1 > 0 || e.2.1 == "range")

/-- For every channel of the report: scan *all* merged channels comparing names; `Add` into each match; append the
report's own channel object when none matched — `Nsq.Model.Aggregate.mergeChan`. -/
theorem topicAdd_channel_lookup_is_linear_scan : channelLoop topicAdd =
    [(0, "range", "a.Channels", "aChannelStats"),
     (1, "setvar", "found", "false"),
     (1, "range", "t.Channels", "channelStats"),
     (2, "if", "aChannelStats.ChannelName == channelStats.ChannelName", ""),
     (3, "setvar", "found", "true"),
     (3, "call", "channelStats.Add", "aChannelStats"),
     (1, "if", "!found", ""),
     (2, "append", "Channels", "aChannelStats")] := by decide

/-! ### (iii) one error per failing upstream; "nothing answered" -/

def factsOf (k : String) (fs : List (String × String)) : List String :=
  (fs.filter (·.1 == k)).map (·.2)

/-- The error accounting of one fetch function is the one `Fetched` models. -/
def errorAccountingOk (fs : List (String × String)) : Bool :=
  (factsOf "errappend" fs).all (· == "guarded-return") && !(factsOf "errappend" fs).isEmpty &&
  factsOf "nestedgo" fs == ["0"] &&
  (match factsOf "range" fs with
   | [r] => factsOf "allfailed" fs == ["len(errs) == len(" ++ r ++ ")"]
   | _ => false) &&
  factsOf "partial" fs == ["len(errs) > 0"]

theorem GetLookupdTopics_error_accounting : errorAccountingOk fetch_GetLookupdTopics = true := by decide
theorem GetLookupdTopicChannels_error_accounting : errorAccountingOk fetch_GetLookupdTopicChannels = true := by decide
theorem GetLookupdProducers_error_accounting : errorAccountingOk fetch_GetLookupdProducers = true := by decide
theorem GetLookupdTopicProducers_error_accounting : errorAccountingOk fetch_GetLookupdTopicProducers = true := by decide
theorem GetNSQDTopics_error_accounting : errorAccountingOk fetch_GetNSQDTopics = true := by decide
theorem GetNSQDProducers_error_accounting : errorAccountingOk fetch_GetNSQDProducers = true := by decide
theorem GetNSQDTopicProducers_error_accounting : errorAccountingOk fetch_GetNSQDTopicProducers = true := by decide
theorem GetNSQDStats_error_accounting : errorAccountingOk fetch_GetNSQDStats = true := by decide

/-! ### (iv) de-duplication keys, sorting, recomputed fields -/

def stmtsOf (fs : List (String × String)) : List String := factsOf "stmt" fs

/-- union = stringy.Uniq then sort.Strings (`sortNames (uniq …)`). -/
theorem GetLookupdTopics_keys : stmtsOf fetch_GetLookupdTopics = [
    "topics = append(topics, resp.Topics...)",
    "topics = stringy.Uniq(topics)",
    "sort.Strings(topics)"] := by decide

/-- same shape as GetLookupdTopics. -/
theorem GetLookupdTopicChannels_keys : stmtsOf fetch_GetLookupdTopicChannels = [
    "channels = stringy.Uniq(channels)",
    "sort.Strings(channels)"] := by decide

/-- key = TCP address; first record kept, every answer adds a remote address; out-of-date by max version (`mergeProducers`, `markOutOfDate`). -/
theorem GetLookupdProducers_keys : stmtsOf fetch_GetLookupdProducers = [
    "maxVersion, _ := semver.Parse(\"0.0.0\")",
    "key := producer.TCPAddress()",
    "p, ok := producersByAddr[key]",
    "producersByAddr[key] = producer",
    "producers = append(producers, producer)",
    "if maxVersion.LT(producer.VersionObj)",
    "maxVersion = producer.VersionObj",
    "sort.Sort(producer.Topics)",
    "p.RemoteAddresses = append(p.RemoteAddresses, fmt.Sprintf(\"%s/%s\", addr, producer.Address()))",
    "if producer.VersionObj.LT(maxVersion)",
    "producer.OutOfDate = true",
    "sort.Sort(ProducersByHost{producers})"] := by decide

/-- de-duplication by HTTP address (`mergeTopicProducers`). -/
theorem GetLookupdTopicProducers_keys : stmtsOf fetch_GetLookupdTopicProducers = [
    "if p.HTTPAddress() == pp.HTTPAddress()",
    "producers = append(producers, p)"] := by decide

/-- stringy.Add then sort.Strings. -/
theorem GetNSQDTopics_keys : stmtsOf fetch_GetNSQDTopics = [
    "topics = stringy.Add(topics, topic.Name)",
    "sort.Strings(topics)"] := by decide

set_option maxRecDepth 8000 in
/-- one producer per answering nsqd, no de-duplication (`nsqdProducers`). -/
theorem GetNSQDProducers_keys : stmtsOf fetch_GetNSQDProducers = [
    "producers = append(producers, &Producer{ Version: infoResp.Version, VersionObj: version, BroadcastAddress: infoResp.BroadcastAddress, Hostname: infoResp.Hostname, HTTPPort: infoResp.HTTPPort, TCPPort: infoResp.TCPPort, Topics: producerTopics, TopologyZone: infoResp.TopologyZone, TopologyRegion: infoResp.TopologyRegion, })"] := by decide

set_option maxRecDepth 8000 in
/-- one producer per nsqd that lists the topic (`nsqdTopicProducers`). -/
theorem GetNSQDTopicProducers_keys : stmtsOf fetch_GetNSQDTopicProducers = [
    "producers = append(producers, &Producer{ Version: infoResp.Version, VersionObj: version, BroadcastAddress: infoResp.BroadcastAddress, Hostname: infoResp.Hostname, HTTPPort: infoResp.HTTPPort, TCPPort: infoResp.TCPPort, Topics: producerTopics, TopologyZone: infoResp.TopologyZone, TopologyRegion: infoResp.TopologyRegion, })"] := by decide

/-- memory depth / delivery count recomputed; topic filter; channel key = name, or topic:name without a selected topic (`Counters.derive`, `topicsOfNode`, `chansOfTopic`). -/
theorem GetNSQDStats_keys : stmtsOf fetch_GetNSQDStats = [
    "if selectedTopic != \"\"",
    "endpoint += \"&topic=\" + url.QueryEscape(selectedTopic)",
    "topic.MemoryDepth = topic.Depth - topic.BackendDepth",
    "topic.DeliveryMsgCount = topic.ZoneLocalMsgCount + topic.RegionLocalMsgCount + topic.GlobalMsgCount",
    "if selectedTopic != \"\" && topic.TopicName != selectedTopic",
    "topicStatsList = append(topicStatsList, topic)",
    "channel.MemoryDepth = channel.Depth - channel.BackendDepth",
    "channel.DeliveryMsgCount = channel.ZoneLocalMsgCount + channel.RegionLocalMsgCount + channel.GlobalMsgCount",
    "key := channel.ChannelName",
    "if selectedTopic == \"\"",
    "key = fmt.Sprintf(\"%s:%s\", topic.TopicName, channel.ChannelName)",
    "channelStats.Add(channel)",
    "sort.Sort(TopicStatsByHost{topicStatsList})"] := by decide

/-! ### (v) the request loop of GETV1 / POSTV1 (internal/http_api/api_request.go) -/

/-- The retry rule is the one `Nsq.Model.Fetch.getV1` models: one request per pass; the jump back is taken on a 403
when the *current* endpoint is not https — a condition recomputed on every pass (no identifier in it is
loop-invariant) after `endpoint` has been replaced by the announced https endpoint. -/
def retryLoopOk (fs : List (String × String)) : Bool :=
  factsOf "jumpcond" fs == ["resp.StatusCode == 403 && !strings.HasPrefix(endpoint, \"https\")"] &&
  factsOf "update" fs == ["endpoint, err = httpsEndpoint(endpoint, body)"] &&
  factsOf "invariant" fs == [] && factsOf "requests" fs == ["1"] && (factsOf "loop" fs).length == 1

theorem GETV1_retry_condition_recomputed : retryLoopOk retry_GETV1 = true := by decide
theorem POSTV1_retry_condition_recomputed : retryLoopOk retry_POSTV1 = true := by decide

/-! ### `GET /api/topics?inactive=true` (audit C25; F58 = /repo 783e91a, REVERTED by 338c8a6)

The committed tree is the UNFIXED shape again: both per-topic fetches of `topicsHandler` throw their error away (`_`).
Only this shape is accepted; the model the driver runs for the tree is `Fixes.tree` (`inactiveErrs := false`), the
repaired behaviour stays behind the switch `Fixes.inactiveErrs` as the documented proposal (`Props.C18.inactive_warning`),
and the defect is the open finding `view:inactive-drops-errors` (replayed on every run). A new repair of the handler
breaks this tie and the model has to be looked at again. -/
theorem topics_inactive_discards_errors : topicsInactiveFetches = [
    "assign producers, _ := s.ci.GetLookupdTopicProducers( topicName, s.nsqadmin.getOpts().NSQLookupdHTTPAddresses)",
    "assign topicChannels, _ := s.ci.GetLookupdTopicChannels( topicName, s.nsqadmin.getOpts().NSQLookupdHTTPAddresses)"] := by
  decide

/-- the tree's switch for F58 is off -/
theorem tree_inactive_errs : Nsq.Model.Aggregate.Fixes.tree.inactiveErrs = false := rfl

end Nsq.Tie.AdminAgg
