/-
Tie of `Nsq.Model.Timing.tickLoop` (the whole tick of `NSQD.queueScanLoop`) to the source:
regenerated order of the statements of the loop (specs/e2_tick.json, kind `stmtseq` with loop rows).
What the rows pin, in the model's terms:
  * `num = min(QueueScanSelectionCount, len(channels))`            — `min q cs.length`
  * the label `loop` sits BEFORE the selection                      — every round draws a fresh `UniqRands`
  * `range util.UniqRands(num, len(channels))`, `workCh <- channels[i]` — `scanTick cs sel`
  * `numDirty := 0` inside the loop, one `<-responseCh` per selected channel — `dirtyCount`
  * `float64(numDirty)/float64(num) > QueueScanDirtyPercent` ⇒ `goto loop` — the repeat test
  * an empty channel list skips the tick (`continue`)
The worker (`queueScanWorker`: both scans with one clock reading, `dirty` = either) and `UniqRands`
are tied in `Nsq.Tie.PQ` (`scanWorkerBody_eq`, `uniqRands…`); behaviourally the loop is exercised by
the scan-loop legs of `props/C04.py` (TestVerifScanLoop) and by E2's `scanloop` / concurrent legs.
A harmless refactor of the loop (e.g. `for { … if !(dirty > pct) { break } }` instead of the label)
breaks this fact although the behaviour is the same: then the C04 check searches for a failing input
and reports `no-failing-input-found`.
-/
import Nsq.Gen.Tick
namespace Nsq.Tie.TickLoop

theorem scanTickLoop_eq : Nsq.Gen.Tick.scanTickLoop = ([
  "if len(channels) == 0",
  "assign num := n.getOpts().QueueScanSelectionCount",
  "if num > len(channels)",
  "assign num = len(channels)",
  "label loop",
  "range util.UniqRands(num, len(channels))",
  "send workCh <- channels[i]",
  "assign numDirty := 0",
  "for i < num",
  "if <-responseCh",
  "do numDirty++",
  "if float64(numDirty)/float64(num) > n.getOpts().QueueScanDirtyPercent",
  "branch goto loop"] : List String) := by decide

/-- C04 (seeded C04-m7): on EVERY refresh tick the loop replaces its cached channel list by `n.channels()` (unconditionally — no `if` in front of it) and resizes the pool: a channel that replaces a deleted one within one refresh interval is scanned from the next refresh on. `tickLoop` takes the channel list as a parameter; this fact + the real-loop leg `scanloop` (corpus/C01/scan_loop_refresh.ops, also run by `props/C04.py`) tie that parameter to `n.channels()`. -/
theorem scanRefreshBranch_eq : Nsq.Gen.Tick.scanRefreshBranch = ([
  "assign channels := n.channels()",
  "do n.resizePool(len(channels), workCh, responseCh, closeCh)",
  "do <-refreshTicker.C",
  "assign channels = n.channels()",
  "do n.resizePool(len(channels), workCh, responseCh, closeCh)"] : List String) := by decide

end Nsq.Tie.TickLoop
