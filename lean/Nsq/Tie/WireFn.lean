import Nsq.Gen.CodecFn
import Nsq.Model.Wire
import Nsq.Model.ByteOps
import Nsq.Proofs.ByteOps
/-!
Tie (C07), translated definitions: `Message.WriteTo`, `decodeMessage` (nsqd/message.go),
`protocol.SendFramedResponse`, `protocol.SendResponse` (internal/protocol/protocol.go) and
`readLen` (nsqd/protocol_v2.go) are re-translated from the Go source on every run by the
translator kind `bytes` (`specs/e1_bytes.json` → `Nsq.Gen.CodecFn`) and PROVED equal to the
hand-written wire model `Nsq.Model.Wire` that the C07 theorems are about — on every input, with
`panic` (a slice expression outside its operand) shown unreachable.

Writers: the translated functions are generic in the `io.Writer`. The equalities below
instantiate it with `bufferWriter` (`bytes.Buffer`, the writer `SendMessage` /
`writeMessageToBackend` use, and any writer that accepts everything); `*_write_error` cover the
error paths for an ARBITRARY writer.
-/
namespace Nsq.Tie.WireFn
open Nsq.Model.Wire Nsq.Model.ByteOps Nsq.Proofs.ByteOps Nsq.Proofs.Wire
open Nsq.Gen.CodecFn

/-! ### Message.WriteTo -/

/-- `(*Message).WriteTo` into a buffer holding `w`: the buffer then holds `w ++ encode m`, the
returned count is the number of bytes of the encoding, the error is nil. (Proof by computation:
it does not depend on the order / spelling of the statements that fill the 10-byte header.) -/
theorem writeTo_eq (w : Bytes) (m : Msg) :
    writeTo m.id m.body m.ts m.attempts bufferWriter w =
      .ret (w ++ encode m, BitVec.ofNat 64 (encode m).length, "") := by
  simp [writeTo, bufferWriter, store, putBE, encode, beBytes, List.replicate, BitVec.ofNat_add]
  try ac_rfl

/-- the 10 header bytes `WriteTo` hands to the first `Write` -/
def header (m : Msg) : Bytes := beBytes 8 m.ts.toNat ++ beBytes 2 m.attempts.toNat

/-- Error path, ANY writer: when the first `Write` (the 10 header bytes) fails, `WriteTo` returns
that write's count and error and performs no further write. -/
theorem writeTo_write_error {W : Type} (wr : Writer W) (w : W) (m : Msg)
    (h : (wr.write w (header m)).2.2 ≠ "") :
    writeTo m.id m.body m.ts m.attempts wr w =
      .ret ((wr.write w (header m)).1, (wr.write w (header m)).2.1, (wr.write w (header m)).2.2) := by
  simp [header, beBytes] at h
  simp [writeTo, store, putBE, header, beBytes, List.replicate, h]

/-! ### decodeMessage -/

/-- the generated result structure for a model message (the in-flight bookkeeping fields of a
freshly decoded message are zero) -/
def ofMsg (m : Msg) : decodeMessage_Message :=
  { ID := m.id, Body := m.body, Timestamp := m.ts, Attempts := m.attempts,
    clientID := 0, pri := 0, index := 0, deferred := 0 }

/-- `decodeMessage` = `Model.Wire.decode` on EVERY buffer: same length check (26), same
big-endian reads, id = bytes 10..26, body = the rest; never panics. -/
theorem decodeMessage_eq (b : Bytes) :
    decodeMessage b = .ret (match decode b with
      | none => (none, "invalid message buffer size (%d)")
      | some m => (some (ofMsg m), "")) := by
  unfold decodeMessage decode
  by_cases h : b.length < 26
  · simp [h]
  · have h8 : 8 ≤ b.length := by omega
    have h10 : 10 ≤ b.length := by omega
    have h26 : 26 ≤ b.length := by omega
    have hs : store (List.replicate 16 (0 : UInt8)) 0 (slice b 10 26) = slice b 10 26 :=
      store_all _ _ (by rw [slice_length b 10 26 h26]; simp)
    simp only [h, decide_false, Bool.false_eq_true, if_false, h8, h10, h26, not_true_eq_false, hs]
    simp [ofMsg, getBE, slice]

/-- the length guard is the constant regenerated from message.go -/
theorem minValidMsgLength_eq : c_minValidMsgLength = 26 ∧ c_MsgIDLength = 16 := by decide

/-! ### protocol.SendFramedResponse / SendResponse -/

/-- `SendFramedResponse` into a buffer: exactly the model frame `encodeFrame`, count = len + 8. -/
theorem sendFramedResponse_eq (w : Bytes) (f : Frame) :
    sendFramedResponse bufferWriter w f.ftype f.data =
      .ret (w ++ encodeFrame f, BitVec.ofNat 64 f.data.length + 8#64, "") := by
  simp [sendFramedResponse, bufferWriter, store_fit, putBE_length, beBytes_length, putBE_len_add, encodeFrame]
  try simp [putBE]

/-- Error path, ANY writer: a failing first `Write` (the size) is returned as is. -/
theorem sendFramedResponse_write_error {W : Type} (wr : Writer W) (w : W) (f : Frame)
    (h : (wr.write w (beBytes 4 (f.data.length + 4))).2.2 ≠ "") :
    sendFramedResponse wr w f.ftype f.data =
      .ret ((wr.write w (beBytes 4 (f.data.length + 4))).1,
            (wr.write w (beBytes 4 (f.data.length + 4))).2.1,
            (wr.write w (beBytes 4 (f.data.length + 4))).2.2) := by
  simp [sendFramedResponse, store_fit, beBytes_length, putBE_len_add, h]

/-- `SendResponse` (the unframed variant, nsqlookupd's protocol): 4-byte big-endian length + data
= the model's length-prefixed record `lp`, count = len + 4. -/
theorem sendResponse_eq (w data : Bytes) :
    sendResponse bufferWriter w data = .ret (w ++ lp data, BitVec.ofNat 64 data.length + 4#64, "") := by
  simp only [sendResponse, bufferWriter, putBE_len, bne_self_eq_false, Bool.false_eq_true, if_false]
  simp [lp]

/-! ### readLen -/

/-- what the caller of `readLen` sees: the int32 and the rest of the stream, or an error -/
def readLenView : Res (Bytes × BitVec 32 × String) → Option (Int × Bytes)
  | .ret (rest, v, e) => if e = "" then some (v.toInt, rest) else none
  | .panic _ => none

theorem toInt_getBE32 (b : Bytes) (h : b.length = 4) : (getBE 32 b).toInt = int32Of (beVal b) := by
  have hlt := beVal_lt b
  rw [h] at hlt
  unfold getBE int32Of
  have hn : (BitVec.ofNat 32 (beVal b)).toNat = beVal b := by
    rw [BitVec.toNat_ofNat]; exact Nat.mod_eq_of_lt (by omega)
  rw [BitVec.toInt_eq_toNat_cond, hn]
  split <;> split <;> omega

/-- `readLen(r, tmp)` over a byte stream with the 4-byte scratch slice nsqd passes
(`client.lenSlice = lenBuf[:]`, `lenBuf [4]byte`) = `Model.Wire.readLen`; never panics. -/
theorem readLen_eq (s tmp : Bytes) (ht : tmp.length = 4) :
    readLenView (Nsq.Gen.CodecFn.readLen streamReader s tmp) = Nsq.Model.Wire.readLen s ∧
    ∃ v, Nsq.Gen.CodecFn.readLen streamReader s tmp = .ret v := by
  unfold Nsq.Gen.CodecFn.readLen Nsq.Model.Wire.readLen streamReader
  rw [ht]
  by_cases h : s.length < 4
  · by_cases hs : s = [] <;> simp [h, hs, readLenView]
  · have h4 : 4 ≤ (s.take 4).length := by simp; omega
    have h4' : (s.take 4).length = 4 := by simp; omega
    simp only [h, if_false, bne_self_eq_false, Bool.false_eq_true, h4, not_true_eq_false]
    refine ⟨?_, _, rfl⟩
    simp only [readLenView, if_true, List.take_take, Nat.min_self]
    rw [toInt_getBE32 _ h4']

/-! ### non-vacuity -/

/-- a writer that refuses everything -/
def closedWriter : Writer Nat := ⟨fun k _ => (k + 1, 0#64, "closed")⟩

example : writeTo (List.replicate 16 48) [5] 1#64 2#16 bufferWriter [7] =
    .ret ([7, 0, 0, 0, 0, 0, 0, 0, 1, 0, 2] ++ List.replicate 16 48 ++ [5], 27#64, "") := by decide
example : writeTo (List.replicate 16 48) [5] 1#64 2#16 closedWriter 0 = .ret (1, 0#64, "closed") :=
  writeTo_write_error closedWriter 0 ⟨1#64, 2#16, List.replicate 16 48, [5]⟩ (by decide)
example : sendFramedResponse closedWriter 0 2#32 [5] = .ret (1, 0#64, "closed") :=
  sendFramedResponse_write_error closedWriter 0 ⟨2#32, [5]⟩ (by decide)
example : decodeMessage (List.replicate 26 1) = .ret (some (ofMsg ⟨0x0101010101010101#64, 0x0101#16,
    List.replicate 16 1, []⟩), "") := by decide
example : sendResponse bufferWriter [] [79, 75] = .ret ([0, 0, 0, 2, 79, 75], 6#64, "") := by decide
example : Nsq.Gen.CodecFn.readLen streamReader [0, 0, 0, 5, 9] [0, 0, 0, 0] = .ret ([9], 5#32, "") := by decide
example : Nsq.Gen.CodecFn.readLen streamReader [0, 0, 5] [0, 0, 0, 0] = .ret ([], 0#32, "ErrUnexpectedEOF") := by decide
example := readLen_eq [255, 255, 255, 255] [0, 0, 0, 0] rfl
/-- the hypothesis `tmp.length = 4` is needed: with a shorter scratch slice the real code panics -/
example : Nsq.Gen.CodecFn.readLen streamReader [0, 0, 0, 5, 9] [0, 0] = .panic "binary.BigEndian.Uint32(tmp)" := by
  decide

end Nsq.Tie.WireFn
