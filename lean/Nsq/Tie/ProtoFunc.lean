import Nsq.Gen.ProtoFunc
import Nsq.Model.Identify
/-!
Tie (kind `func`, through the `pfunc` normalisation of `tools/go2lean/kind_proto.go`): the four
negotiation setters of nsqd/client_v2.go — `SetHeartbeatInterval`, `SetOutputBuffer`, `SetSampleRate`,
`SetMsgTimeout` — are *translated* from the current source into BitVec definitions
(`Nsq.Gen.ProtoFunc`, regenerated on every run) and proved equal, on every input, to the integer
model the C09 theorems are about (`ProtoV2.setHeartbeat` …, `Identify.setOutputBufferP`).
Replaces the statement-text facts `hbLimits / obLimits / srLimits / mtLimits` of `Nsq.Tie.Proto` as the
primary tie of these functions (those stay as a secondary check).

Hypothesis of the three duration setters: the option bound, in ms, is at most 9223372036854 — true
of every value computed as `int(d / time.Millisecond)` from a `time.Duration` (int64 ns).
-/
namespace Nsq.Tie.ProtoFunc
open Nsq.Model.ProtoV2 Nsq.Model.Identify Nsq.Gen.ProtoFunc

theorem beq_neg1 (a : BitVec 64) : (a == 18446744073709551615#64) = decide (a.toInt = -1) := by
  by_cases h : a = 18446744073709551615#64
  · subst h; decide
  · have : a.toInt ≠ -1 := fun e => h (BitVec.eq_of_toInt_eq (by rw [e]; decide))
    simp [h, this]

theorem beq_zero (a : BitVec 64) : (a == 0#64) = decide (a.toInt = 0) := by
  by_cases h : a = 0#64
  · subst h; decide
  · have : a.toInt ≠ 0 := fun e => h (BitVec.eq_of_toInt_eq (by rw [e]; decide))
    simp [h, this]

theorem sle_iff (a b : BitVec 64) : BitVec.sle a b = decide (a.toInt ≤ b.toInt) := by
  simp [BitVec.sle]

theorem toInt_range (a : BitVec 64) : -9223372036854775808 ≤ a.toInt ∧ a.toInt < 9223372036854775808 := by
  have := BitVec.toInt_lt (x := a)
  have := BitVec.le_toInt (x := a)
  constructor <;> omega

theorem mul_ms (a : BitVec 64) (h0 : -9223372036854 ≤ a.toInt) (h1 : a.toInt ≤ 9223372036854) :
    (a * 1000000#64).toInt = a.toInt * 1000000 := by
  rw [BitVec.toInt_mul]
  have : (1000000#64).toInt = 1000000 := by decide
  rw [this]
  unfold Int.bmod
  simp only []
  omega

/-- `SetHeartbeatInterval` as translated = `ProtoV2.setHeartbeat`. -/
theorem setHeartbeatInterval_eq (conf : Conf) (c : setHeartbeatIntervalState) (d maxHb : BitVec 64)
    (hmax : maxHb.toInt = conf.maxHeartbeatMs) (hb : conf.maxHeartbeatMs ≤ 9223372036854) :
    match setHeartbeat conf c.HeartbeatInterval.toInt d.toInt with
    | some v => (setHeartbeatInterval c d maxHb).2 = "" ∧
        (setHeartbeatInterval c d maxHb).1.HeartbeatInterval.toInt = v ∧
        (setHeartbeatInterval c d maxHb).1 = { c with HeartbeatInterval := (setHeartbeatInterval c d maxHb).1.HeartbeatInterval }
    | none => (setHeartbeatInterval c d maxHb).2 ≠ "" ∧ (setHeartbeatInterval c d maxHb).1 = c := by
  unfold setHeartbeatInterval setHeartbeat
  simp only [beq_neg1, beq_zero, sle_iff, hmax]
  have h1000 : (1000#64 : BitVec 64).toInt = 1000 := by decide
  rw [h1000]
  by_cases h1 : d.toInt = -1
  · simp [h1]
  · by_cases h2 : d.toInt = 0
    · simp [h2]
    · by_cases h3 : d.toInt ≥ 1000 ∧ d.toInt ≤ conf.maxHeartbeatMs
      · have hm := mul_ms d (by omega) (by omega)
        simp [h1, h2, h3, hm]
      · have h3' : ¬ (1000 ≤ d.toInt ∧ d.toInt ≤ conf.maxHeartbeatMs) := by omega
        simp [h1, h2, h3, h3']

/-- `SetMsgTimeout` as translated = `ProtoV2.setMsgTimeout`. -/
theorem setMsgTimeout_eq (conf : Conf) (c : setMsgTimeoutState) (d maxMt : BitVec 64)
    (hmax : maxMt.toInt = conf.maxMsgTimeoutMs) (hb : conf.maxMsgTimeoutMs ≤ 9223372036854) :
    match Nsq.Model.ProtoV2.setMsgTimeout conf c.MsgTimeout.toInt d.toInt with
    | some v => (Gen.ProtoFunc.setMsgTimeout c d maxMt).2 = "" ∧ (Gen.ProtoFunc.setMsgTimeout c d maxMt).1.MsgTimeout.toInt = v ∧
        (Gen.ProtoFunc.setMsgTimeout c d maxMt).1 = { c with MsgTimeout := (Gen.ProtoFunc.setMsgTimeout c d maxMt).1.MsgTimeout }
    | none => (Gen.ProtoFunc.setMsgTimeout c d maxMt).2 ≠ "" ∧ (Gen.ProtoFunc.setMsgTimeout c d maxMt).1 = c := by
  unfold Gen.ProtoFunc.setMsgTimeout Nsq.Model.ProtoV2.setMsgTimeout
  simp only [beq_zero, sle_iff, hmax]
  have h1000 : (1000#64 : BitVec 64).toInt = 1000 := by decide
  rw [h1000]
  by_cases h2 : d.toInt = 0
  · simp [h2]
  · by_cases h3 : d.toInt ≥ 1000 ∧ d.toInt ≤ conf.maxMsgTimeoutMs
    · have hm := mul_ms d (by omega) (by omega)
      simp [h2, h3, hm]
    · have h3' : ¬ (1000 ≤ d.toInt ∧ d.toInt ≤ conf.maxMsgTimeoutMs) := by omega
      simp [h2, h3, h3']

/-- `SetSampleRate` as translated: accepted exactly for 0 … 99, stored unchanged. -/
theorem setSampleRate_eq (c : setSampleRateState) (sr : BitVec 32) :
    ((setSampleRate c sr).2 = "" ↔ (0 ≤ sr.toInt ∧ sr.toInt ≤ 99)) ∧
    ((setSampleRate c sr).2 = "" → (setSampleRate c sr).1 = { c with SampleRate := sr }) ∧
    ((setSampleRate c sr).2 ≠ "" → (setSampleRate c sr).1 = c) := by
  unfold setSampleRate
  have h0 : (0#32 : BitVec 32).toInt = 0 := by decide
  have h99 : (99#32 : BitVec 32).toInt = 99 := by decide
  simp only [BitVec.slt, h0, h99]
  by_cases h : sr.toInt < 0 ∨ 99 < sr.toInt
  · have h' : ¬ (0 ≤ sr.toInt ∧ sr.toInt ≤ 99) := by omega
    rcases h with h | h <;> simp [h, h']
  · have h1 : ¬ sr.toInt < 0 := by omega
    have h2 : ¬ 99 < sr.toInt := by omega
    have h' : 0 ≤ sr.toInt ∧ sr.toInt ≤ 99 := by omega
    simp [h1, h2, h']

/-- `SetOutputBuffer` as translated = `Identify.setOutputBufferP` (both switches, including the
partial effect: an invalid size leaves the timeout already written). The `if desiredSize != 0 { Flush;
new bufio.Writer }` block is dropped by the normalisation (I/O objects only). -/
theorem setOutputBuffer_eq (conf : Conf) (c : setOutputBufferState) (dS dT maxObSize maxObt minObt : BitVec 64)
    (h1 : maxObSize.toInt = conf.maxObSize) (h2 : maxObt.toInt = conf.maxObtMs) (h3 : minObt.toInt = conf.minObtMs)
    (hb : conf.maxObtMs ≤ 9223372036854) (hb' : -9223372036854 ≤ conf.minObtMs) :
    (setOutputBuffer c dS dT maxObSize maxObt minObt).1.OutputBufferSize.toInt =
      (setOutputBufferP conf c.OutputBufferSize.toInt c.OutputBufferTimeout.toInt dS.toInt dT.toInt).1 ∧
    (setOutputBuffer c dS dT maxObSize maxObt minObt).1.OutputBufferTimeout.toInt =
      (setOutputBufferP conf c.OutputBufferSize.toInt c.OutputBufferTimeout.toInt dS.toInt dT.toInt).2.1 ∧
    (((setOutputBuffer c dS dT maxObSize maxObt minObt).2 = "") ↔
      (setOutputBufferP conf c.OutputBufferSize.toInt c.OutputBufferTimeout.toInt dS.toInt dT.toInt).2.2 = true) ∧
    (setOutputBuffer c dS dT maxObSize maxObt minObt).1 =
      { c with OutputBufferSize := (setOutputBuffer c dS dT maxObSize maxObt minObt).1.OutputBufferSize,
               OutputBufferTimeout := (setOutputBuffer c dS dT maxObSize maxObt minObt).1.OutputBufferTimeout } := by
  unfold setOutputBuffer setOutputBufferP
  simp only [beq_neg1, beq_zero, sle_iff, h1, h2, h3, Bool.true_and]
  have e64 : (64#64 : BitVec 64).toInt = 64 := by decide
  have e1 : (1#64 : BitVec 64).toInt = 1 := by decide
  have e0 : (0#64 : BitVec 64).toInt = 0 := by decide
  rw [e64]
  by_cases t1 : dT.toInt = -1
  · by_cases s1 : dS.toInt = -1
    · simp [t1, s1, e1, e0]
    · by_cases s2 : dS.toInt = 0
      · simp [t1, s2, e0]
      · by_cases s3 : dS.toInt ≥ 64 ∧ dS.toInt ≤ conf.maxObSize
        · simp [t1, s1, s2, s3, e0]
        · have s3' : ¬ (64 ≤ dS.toInt ∧ dS.toInt ≤ conf.maxObSize) := by omega
          simp [t1, s1, s2, s3, s3', e0]
  · by_cases t2 : dT.toInt = 0
    · by_cases s1 : dS.toInt = -1
      · simp [t2, s1, e1, e0]
      · by_cases s2 : dS.toInt = 0
        · simp [t2, s2]
        · by_cases s3 : dS.toInt ≥ 64 ∧ dS.toInt ≤ conf.maxObSize
          · simp [t2, s1, s2, s3]
          · have s3' : ¬ (64 ≤ dS.toInt ∧ dS.toInt ≤ conf.maxObSize) := by omega
            simp [t2, s1, s2, s3, s3']
    · by_cases t3 : dT.toInt ≥ conf.minObtMs ∧ dT.toInt ≤ conf.maxObtMs
      · have hm := mul_ms dT (by omega) (by omega)
        have t3' : conf.minObtMs ≤ dT.toInt ∧ dT.toInt ≤ conf.maxObtMs := by omega
        by_cases s1 : dS.toInt = -1
        · simp [t1, t2, t3, t3', s1, e1, e0]
        · by_cases s2 : dS.toInt = 0
          · simp [t1, t2, t3, t3', s2, hm]
          · by_cases s3 : dS.toInt ≥ 64 ∧ dS.toInt ≤ conf.maxObSize
            · simp [t1, t2, t3, t3', s1, s2, s3, hm]
            · have s3' : ¬ (64 ≤ dS.toInt ∧ dS.toInt ≤ conf.maxObSize) := by omega
              simp [t1, t2, t3, t3', s1, s2, s3, s3', hm]
      · have t3' : ¬ (conf.minObtMs ≤ dT.toInt ∧ dT.toInt ≤ conf.maxObtMs) := by omega
        simp [t1, t2, t3, t3']

end Nsq.Tie.ProtoFunc
