import Nsq.Gen.Lookupd
import Nsq.Model.RegistryProto
/-!
Tie (regenerated facts): what `tools/go2lean` reads off the current nsqlookupd sources
(`Nsq.Gen.Lookupd`, rewritten on every run) against the tables and guards the models
`Nsq.Model.Registry` / `Nsq.Model.RegistryProto` are written from. Every theorem is closed by
`decide`; a source change that touches a route, an error site, a guard or the order of the DB
calls of a handler makes this module fail to build.
-/
set_option maxRecDepth 16000
namespace Nsq.Tie.Registry
open Nsq.Model.Registry Nsq.Model.RegistryProto
open Nsq.Gen

/-- method/path table of `newHTTPServer` = the model's route table -/
theorem routes_paths : Lookupd.routes.map (fun e => (e.1, e.2.1)) = routes.map (fun e => (e.1, e.2.1)) := by
  decide

/-- the twelve API routes are bound to the handlers the model dispatches to -/
theorem routes_handlers :
    Lookupd.routes.take 12 = (routes.take 12).map (fun e => (e.1, e.2.1, e.2.2.goName)) := by decide

/-- everything else in the table is net/http/pprof (not modelled; no registry access) -/
theorem routes_rest_pprof :
    (routes.drop 12).all (fun e => e.2.2 = .pprof) = true ∧
    (Lookupd.routes.drop 12).map (fun e => e.2.2) =
      ["pprof.Index", "pprof.Cmdline", "pprof.Symbol", "pprof.Symbol", "pprof.Profile",
       "pprof.Handler(\"heap\")", "pprof.Handler(\"goroutine\")", "pprof.Handler(\"block\")",
       "pprof.Handler(\"threadcreate\")"] := by decide

theorem identify_guards :
    Lookupd.identifyFields =
      ["if client.peerInfo != nil",
       "if peerInfo.BroadcastAddress == \"\" || peerInfo.TCPPort == 0 || peerInfo.HTTPPort == 0 || peerInfo.Version == \"\""] := by
  decide

/-- the command words are the byte strings the model compares with (Lean literal against Lean literal: a sanity
check of the byte lists only; the tie to the SOURCE text is `Nsq.Tie.RegistryProto.command_bytes_regenerated`) -/
theorem command_bytes :
    "PING".toList.map (·.toNat) = cmdPING.map (·.toNat) ∧
    "IDENTIFY".toList.map (·.toNat) = cmdIDENTIFY.map (·.toNat) ∧
    "REGISTER".toList.map (·.toNat) = cmdREGISTER.map (·.toNat) ∧
    "UNREGISTER".toList.map (·.toNat) = cmdUNREGISTER.map (·.toNat) ∧
    "  V1".toList.map (·.toNat) = magicV1.map (·.toNat) ∧
    "#ephemeral".toList.map (·.toNat) = ephSuffix.map (·.toNat) ∧
    "*".toList.map (·.toNat) = star.map (·.toNat) := by decide

theorem ioloop_shape :
    Lookupd.ioLoopStmts =
      ["assign line, err = reader.ReadString('\\n')", "assign line = strings.TrimSpace(line)",
       "assign params := strings.Split(line, \" \")", "assign _, ok := err.(*protocol.FatalClientErr)"] ∧
    Lookupd.callsIOLoop =
      ["ReadString", "Exec", "SendResponse", "SendResponse", "LookupRegistrations", "RemoveProducer"] := by decide

/-- Every way out of the `for` loop of `IOLoop` is a `break` (read error; error answer that could
not be written; fatal error; success answer that could not be written) — there is no `return`,
`goto` or `panic` inside the loop — so all of them fall into the three statements after the
loop: the log line, the clean-up `if client.peerInfo != nil { … RemoveProducer … }` and
`return err`. This is `ioLoop` ending every branch in `disconnect` (theorem
`disconnect_every_exit`). -/
theorem ioloop_exits_all_reach_cleanup :
    Lookupd.ioLoopExits =
      ["break | if err != nil",
       "break | if err != nil && if sendErr != nil",
       "break | if err != nil && if _, ok := err.(*protocol.FatalClientErr); ok",
       "continue | if err != nil",
       "break | if response != nil && if err != nil",
       "after: 3 statements"] := by decide

theorem getTopicChan_guards :
    Lookupd.getTopicChanStmts =
      ["if len(params) == 0", "if len(params) >= 2", "if !protocol.IsValidTopicName(topicName)",
       "if channelName != \"\" && !protocol.IsValidChannelName(channelName)"] := by decide

/-- REGISTER: `RegistrationDB.RegisterProducer` (channel key, then topic key under ONE `Lock()`/`Unlock()`;
commit 0d24920 = F21). The shape before F21 (`AddProducer(channel key)`, then `AddProducer(topic key)`: two critical
sections, `regStep1`/`regStep2`, finding `race:register-vs-topic-delete`) is no longer accepted (audit B12): with F21
reverted this module does not build. The sequential behaviour is `registerDB`. -/
def registerShapeAtomic : Prop :=
    Lookupd.registerGuards =
      ["if client.peerInfo == nil",
       "assign addedChannel, addedTopic := p.nsqlookupd.DB.RegisterProducer(topic, channel, client.peerInfo)"] ∧
    Lookupd.callsRegister = ["getTopicChan", "RegisterProducer"] ∧
    Lookupd.registerProducerStmts =
      ["if channel != \"\"",
       "assign addedChannel = add(Registration{\"channel\", topic, channel})",
       "return return addedChannel, add(Registration{\"topic\", topic, \"\"})"] ∧
    Lookupd.callsRegisterProducer = ["Lock", "Unlock", "add", "add"]

instance : Decidable registerShapeAtomic := by unfold registerShapeAtomic; infer_instance

theorem register_shape : registerShapeAtomic := by decide

/-- UNREGISTER: `RemoveProducerAndPrune` (remove + prune of an `#ephemeral` key in one critical section; commit
994e31e = F12). The shape before F12 (`RemoveProducer`, then `RemoveRegistration` when `left == 0`: two critical
sections, findings `race:unregister-gc-vs-register[-topic]`) is no longer accepted (audit B12). The sequential
behaviour is `unregisterDB`. -/
def unregisterShapeAtomic : Prop :=
    Lookupd.unregisterGuards =
      ["if client.peerInfo == nil", "if channel != \"\"",
       "assign key := Registration{\"channel\", topic, channel}",
       "assign removed, _ := p.nsqlookupd.DB.RemoveProducerAndPrune(key, client.peerInfo.id, strings.HasSuffix(channel, \"#ephemeral\"))",
       "assign registrations := p.nsqlookupd.DB.FindRegistrations(\"channel\", topic, \"*\")",
       "assign removed, _ := p.nsqlookupd.DB.RemoveProducer(r, client.peerInfo.id)",
       "assign key := Registration{\"topic\", topic, \"\"}",
       "assign removed, _ := p.nsqlookupd.DB.RemoveProducerAndPrune(key, client.peerInfo.id, strings.HasSuffix(topic, \"#ephemeral\"))"] ∧
    Lookupd.callsUnregister =
      ["getTopicChan", "RemoveProducerAndPrune", "FindRegistrations", "RemoveProducer", "RemoveProducerAndPrune"] ∧
    Lookupd.pruneStmts =
      ["assign producers, ok := r.registrationMap[k]", "assign left := len(producers)", "if prune && left == 0"] ∧
    -- claim audit 11, C14 item 2: the remove AND the prune (the two `delete`s) are under ONE `Lock()`/`Unlock()`
    Lookupd.callsRemoveProducerAndPrune = ["Lock", "Unlock", "delete", "delete"]

instance : Decidable unregisterShapeAtomic := by unfold unregisterShapeAtomic; infer_instance

theorem unregister_shape : unregisterShapeAtomic := by decide

/-- `FilterByActive` / `IsTombstoned` / `Tombstone`: strict `>` for inactivity, strict `<` for the
tombstone lifetime (`activeB`, `isTombstoned` in the model) -/
theorem liveness_conditions :
    Lookupd.filterByActive =
      ["assign cur := time.Unix(0, atomic.LoadInt64(&p.peerInfo.lastUpdate))",
       "if now.Sub(cur) > inactivityTimeout || p.IsTombstoned(tombstoneLifetime)"] ∧
    Lookupd.isTombstoned = ["return return p.tombstoned && time.Since(p.tombstonedAt) < lifetime"] ∧
    Lookupd.tombstoneSet = ["assign p.tombstoned = true", "assign p.tombstonedAt = time.Now()"] := by decide

theorem match_conditions :
    Lookupd.isMatch =
      ["if category != k.Category", "if key != \"*\" && k.Key != key",
       "if subkey != \"*\" && k.SubKey != subkey"] ∧
    Lookupd.needFilter = ["return return key == \"*\" || subkey == \"*\""] := by decide

/-- `doLookup`, `doNodes` BEFORE commit 682420a (F37): every `RegistrationDB` read took the read lock by itself — three
critical sections (`lookupSecs false`), 1 + 2n (`nodesSecs false`); findings `race:lookup-vs-topic-delete`,
`race:nodes-vs-topic-delete` (fixed). Kept only as the description of the old shape: NO theorem accepts it any more
(audit B12) — with F37 reverted `readers_shape` fails and this module does not build. -/
def readersShapeSections : Prop :=
    Lookupd.lookupStmts =
      ["assign registration := s.nsqlookupd.DB.FindRegistrations(\"topic\", topicName, \"\")",
       "if len(registration) == 0",
       "assign channels := s.nsqlookupd.DB.FindRegistrations(\"channel\", topicName, \"*\").SubKeys()",
       "assign producers := s.nsqlookupd.DB.FindProducers(\"topic\", topicName, \"\")",
       "assign producers = producers.FilterByActive(s.nsqlookupd.opts.InactiveProducerTimeout, s.nsqlookupd.opts.TombstoneLifetime)"] ∧
    Lookupd.callsLookup = ["FindRegistrations", "FindRegistrations", "FindProducers", "FilterByActive"] ∧
    Lookupd.nodesStmts =
      ["assign producers := s.nsqlookupd.DB.FindProducers(\"client\", \"\", \"\").FilterByActive( s.nsqlookupd.opts.InactiveProducerTimeout, 0)",
       "assign topics := s.nsqlookupd.DB.LookupRegistrations(p.peerInfo.id).Filter(\"topic\", \"*\", \"\").Keys()",
       "assign topicProducersMap[t] = s.nsqlookupd.DB.FindProducers(\"topic\", t, \"\")",
       "if tp.peerInfo == p.peerInfo",
       "assign tombstones[j] = tp.IsTombstoned(s.nsqlookupd.opts.TombstoneLifetime)"] ∧
    Lookupd.callsNodes = ["FilterByActive", "FindProducers", "LookupRegistrations", "FindProducers", "IsTombstoned"] ∧
    Lookupd.callsFindRegistrations = ["RLock", "RUnlock", "needFilter", "IsMatch"] ∧
    Lookupd.callsFindProducers = ["RLock", "RUnlock", "needFilter", "ProducerMap2Slice", "IsMatch"] ∧
    Lookupd.callsLookupRegistrations = ["RLock", "RUnlock"] ∧
    Lookupd.callsFindRegistrationsBody = [] ∧ Lookupd.callsFindProducersBody = [] ∧
    Lookupd.callsLookupRegistrationsBody = [] ∧ Lookupd.lookupRegistrationsBodyStmts = []

/-- The tree since commit 682420a (F37): the handler takes `DB.RLock()` once (as `doDebug` does) and calls the unlocked
bodies `findRegistrations` / `findProducers` / `lookupRegistrations` (which take no lock; the exported methods are
`RLock` + body) — ONE critical section (`lookupSecs true`, `nodesSecs true`), with `FilterByActive` / `IsTombstoned`
evaluated inside it. The sequential behaviour is that of `qLookup` / `qNodes`. -/
def readersShapeAtomic : Prop :=
    Lookupd.lookupStmts =
      ["assign registration := s.nsqlookupd.DB.findRegistrations(\"topic\", topicName, \"\")",
       "if len(registration) == 0",
       "assign channels := s.nsqlookupd.DB.findRegistrations(\"channel\", topicName, \"*\").SubKeys()",
       "assign producers := s.nsqlookupd.DB.findProducers(\"topic\", topicName, \"\")",
       "assign producers = producers.FilterByActive(s.nsqlookupd.opts.InactiveProducerTimeout, s.nsqlookupd.opts.TombstoneLifetime)"] ∧
    Lookupd.callsLookup = ["RLock", "RUnlock", "findRegistrations", "findRegistrations", "findProducers", "FilterByActive"] ∧
    Lookupd.nodesStmts =
      ["assign producers := s.nsqlookupd.DB.findProducers(\"client\", \"\", \"\").FilterByActive( s.nsqlookupd.opts.InactiveProducerTimeout, 0)",
       "assign topics := s.nsqlookupd.DB.lookupRegistrations(p.peerInfo.id).Filter(\"topic\", \"*\", \"\").Keys()",
       "assign topicProducersMap[t] = s.nsqlookupd.DB.findProducers(\"topic\", t, \"\")",
       "if tp.peerInfo == p.peerInfo",
       "assign tombstones[j] = tp.IsTombstoned(s.nsqlookupd.opts.TombstoneLifetime)"] ∧
    Lookupd.callsNodes =
      ["RLock", "RUnlock", "FilterByActive", "findProducers", "lookupRegistrations", "findProducers", "IsTombstoned"] ∧
    Lookupd.callsFindRegistrations = ["RLock", "RUnlock", "findRegistrations"] ∧
    Lookupd.callsFindProducers = ["RLock", "RUnlock", "findProducers"] ∧
    Lookupd.callsLookupRegistrations = ["RLock", "RUnlock", "lookupRegistrations"] ∧
    Lookupd.callsFindRegistrationsBody = ["needFilter", "IsMatch"] ∧
    Lookupd.callsFindProducersBody = ["needFilter", "ProducerMap2Slice", "IsMatch"] ∧
    Lookupd.callsLookupRegistrationsBody = [] ∧
    Lookupd.lookupRegistrationsBodyStmts = ["if exists", "assign _, exists := producers[id]"]

instance : Decidable readersShapeSections := by unfold readersShapeSections; infer_instance
instance : Decidable readersShapeAtomic := by unfold readersShapeAtomic; infer_instance

/-- F37 is committed (/repo 682420a): ONLY the one-critical-section shape is accepted (audit B12). With F37 reverted
this fails (and the race leg reproduces `race:lookup-vs-topic-delete` / `race:nodes-vs-topic-delete`, listed `fixed`,
as VIOLATIONs). -/
theorem readers_shape : readersShapeAtomic := by decide

/-- COMPUTED from the regenerated facts: are `GET /lookup` and `GET /nodes` one critical section each? -/
def readersAtomic : Bool := decide readersShapeAtomic

/-- the equality the theorems `Props.C14.concurrent_readers_linearizable_this_tree` rest on -/
theorem readers_atomic : readersAtomic = true := by decide

/-- `doDebug` reads the whole map, incl. `tombstoned`/`tombstonedAt`, under one `RLock` -/
theorem debug_shape : Lookupd.callsDebug = ["RLock", "RUnlock"] := by decide

/-- `POST /topic/tombstone` BEFORE commit 415122f (F38): `FindProducers` (one critical section), then `p.Tombstone()` on
the matching producers with NO lock held — the writes raced with the readers (finding `race:tombstone-unlocked-write`,
fixed). Kept only as the description of the old shape; no theorem accepts it any more (audit B12). -/
def tombShapeUnlocked : Prop :=
    Lookupd.tombstoneStmts =
      ["assign producers := s.nsqlookupd.DB.FindProducers(\"topic\", topicName, \"\")",
       "assign thisNode := fmt.Sprintf(\"%s:%d\", p.peerInfo.BroadcastAddress, p.peerInfo.HTTPPort)",
       "if thisNode == node"] ∧
    Lookupd.callsTombstone = ["FindProducers", "Tombstone"] ∧
    Lookupd.callsTombstoneProducers = [] ∧ Lookupd.tombstoneProducersStmts = []

/-- The tree since commit 415122f (F38): `RegistrationDB.TombstoneProducers` finds and marks under ONE `Lock()`. The
sequential behaviour is `tombstoneDB`. -/
def tombShapeLocked : Prop :=
    Lookupd.tombstoneStmts = [] ∧
    Lookupd.callsTombstone = ["TombstoneProducers"] ∧
    Lookupd.callsTombstoneProducers = ["Lock", "Unlock", "findProducers", "Sprintf", "Tombstone"] ∧
    Lookupd.tombstoneProducersStmts =
      ["assign thisNode := fmt.Sprintf(\"%s:%d\", p.peerInfo.BroadcastAddress, p.peerInfo.HTTPPort)",
       "if thisNode == node"]

instance : Decidable tombShapeUnlocked := by unfold tombShapeUnlocked; infer_instance
instance : Decidable tombShapeLocked := by unfold tombShapeLocked; infer_instance

/-- F38 is committed (/repo 415122f): ONLY the locked shape is accepted (audit B12); with F38 reverted this fails and the
`-race` leg reports `race:tombstone-unlocked-write` (listed `fixed`) as a VIOLATION with the detector's report. -/
theorem tombstone_shape : tombShapeLocked := by decide

/-- COMPUTED: is the tombstone step of the model (`tombstoneDB`, one step) one critical section of the code, i.e. are the
marks written under `Lock()` (F38) AND read under `RLock()` (F37: `FilterByActive`/`IsTombstoned` inside the readers'
critical section; `doDebug` always)? Both fixes are committed: `tombstone_atomic`. So "every step of the model is atomic
in the code" is a checked fact for the tombstone step too, no longer an assumption; the `-race` leg stays as the
behavioural twin. -/
def tombstoneAtomic : Bool := decide tombShapeLocked && readersAtomic

theorem tombstone_atomic : tombstoneAtomic = true := by decide

theorem admin_calls :
    Lookupd.callsCreateTopic = ["NewReqParams", "Get", "IsValidTopicName", "AddRegistration"] ∧
    Lookupd.callsDeleteChannel =
      ["NewReqParams", "GetTopicChannelArgs", "FindRegistrations", "RemoveRegistration"] := by decide

/-- `/topic/delete` and `/channel/create`: `RemoveTopic` (the channel keys matching `(topic, *)` and the topic key
deleted under one lock) and `AddTopicChannel` (channel key, then topic key under one lock); commit 0d24920 = F21. The
shape before F21 (`FindRegistrations`/`RemoveRegistration` twice; `AddRegistration` twice) is no longer accepted
(audit B12). The sequential behaviour is `deleteTopicDB` / `createChannel`. -/
def adminShapeAtomic : Prop :=
    Lookupd.callsDeleteTopic = ["NewReqParams", "Get", "RemoveTopic"] ∧
    Lookupd.callsCreateChannel = ["NewReqParams", "GetTopicChannelArgs", "AddTopicChannel"] ∧
    Lookupd.removeTopicStmts =
      ["if k.IsMatch(\"channel\", topic, \"*\")", "if k.IsMatch(\"topic\", topic, \"\")"] ∧
    Lookupd.callsRemoveTopic = ["Lock", "Unlock", "IsMatch", "IsMatch", "delete", "delete"] ∧
    Lookupd.addTopicChannelStmts =
      ["assign channelKey := Registration{\"channel\", topic, channel}",
       "assign _, ok := r.registrationMap[channelKey]",
       "assign r.registrationMap[channelKey] = make(map[string]*Producer)",
       "assign topicKey := Registration{\"topic\", topic, \"\"}",
       "assign _, ok := r.registrationMap[topicKey]",
       "assign r.registrationMap[topicKey] = make(map[string]*Producer)"] ∧
    Lookupd.callsAddTopicChannel = ["Lock", "Unlock", "make", "make"]

instance : Decidable adminShapeAtomic := by unfold adminShapeAtomic; infer_instance

theorem admin_topic_shape : adminShapeAtomic := by decide

/-- COMPUTED from the regenerated facts: are REGISTER, `/topic/delete`, `/channel/create` one critical section each?
The concurrency theorems of `Nsq.Props.C14` about THIS tree are stated over `registerSecs treeAtomic …`; they hold
because the facts decide `treeAtomic = true` (`tree_atomic`), not because of a constant. -/
def treeAtomic : Bool := decide registerShapeAtomic && decide adminShapeAtomic

theorem tree_atomic : treeAtomic = true := by decide

/-- likewise for UNREGISTER's remove-and-prune -/
def unregisterAtomic : Bool := decide unregisterShapeAtomic

theorem unregister_atomic : unregisterAtomic = true := by decide

theorem topicChannelArgs_shape :
    Lookupd.topicChannelArgs =
      ["assign topicName, err := rp.Get(\"topic\")",
       "return return \"\", \"\", errors.New(\"MISSING_ARG_TOPIC\")",
       "if !protocol.IsValidTopicName(topicName)",
       "return return \"\", \"\", errors.New(\"INVALID_ARG_TOPIC\")",
       "assign channelName, err := rp.Get(\"channel\")",
       "return return \"\", \"\", errors.New(\"MISSING_ARG_CHANNEL\")",
       "if !protocol.IsValidChannelName(channelName)",
       "return return \"\", \"\", errors.New(\"INVALID_ARG_CHANNEL\")"] := by decide

/-- `/ping` returns the string "OK" (= `pingBody`), `/info` a document whose only member is `version`
(= `infoKeys`); both ignore the request and the registry -/
theorem ping_info_shape :
    Lookupd.pingStmts = ["return return \"OK\", nil"] ∧
    Lookupd.infoStmts =
      ["return return struct { Version string `json:\"version\"` }{ Version: version.Binary, }, nil"] ∧
    "OK".toList.map (·.toNat) = pingBody.map (·.toNat) ∧ infoKeys = ["version"] := by decide

/-- names: the regular expression and the length bounds `validName` implements -/
theorem names :
    Lookupd.nameRegex = "^[.a-zA-Z0-9_-]+(#ephemeral)?$" ∧
    Lookupd.nameLen = ["if len(name) > 64 || len(name) < 1"] := by decide


end Nsq.Tie.Registry
