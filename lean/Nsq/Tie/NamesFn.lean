import Nsq.Gen.NamesFn
import Nsq.Model.Names
/-!
Tie (names), translated definitions: `isValidName`, `IsValidTopicName`, `IsValidChannelName`
(internal/protocol/names.go) are re-translated from the Go source on every run (kind `strfunc`,
`specs/e1_names.json` → `Nsq.Gen.NamesFn`) and PROVED equal to `Nsq.Model.Names.isValidName`:
the length bounds 1..64 come from the translated code; the regular-expression match is an
input of the translated function (`regexMatches`), instantiated with the model's automaton
`regexMatch` whose literal is tied by `nameRegex_eq` (and whose behaviour is compared with
`regexp` by the correspondence harness of C09).
-/
namespace Nsq.Tie.NamesFn
open Nsq.Model.Names

/-- `isValidName(name)` = the model, on every byte string -/
theorem isValidName_eq (name : List UInt8) :
    Nsq.Gen.NamesFn.isValidName name (regexMatch name) = isValidName name := by
  unfold Nsq.Gen.NamesFn.isValidName isValidName
  by_cases h1 : name.length > 64 <;> by_cases h2 : name.length < 1 <;> simp [h1, h2] <;> omega

/-- `IsValidTopicName` / `IsValidChannelName` return exactly what `isValidName(name)` returns -/
theorem isValidTopicName_eq (v : Bool) : Nsq.Gen.NamesFn.isValidTopicName v = v := rfl
theorem isValidChannelName_eq (v : Bool) : Nsq.Gen.NamesFn.isValidChannelName v = v := rfl

/-- the regex literal the automaton was built from is the one in the source -/
theorem nameRegex_eq : Nsq.Gen.NamesFn.nameRegex = regexLiteral := by decide

/-! non-vacuity: 64 bytes accepted, 65 and 0 refused whatever the regex says -/
example : Nsq.Gen.NamesFn.isValidName (List.replicate 64 97) true = true := by decide
example : Nsq.Gen.NamesFn.isValidName (List.replicate 65 97) true = false := by decide
example : Nsq.Gen.NamesFn.isValidName [] true = false := by decide
example : Nsq.Gen.NamesFn.isValidName (ascii "a#ephemeral") (regexMatch (ascii "a#ephemeral")) = true := by decide

end Nsq.Tie.NamesFn
