import Nsq.Gen.ProtoAudit
import Nsq.Model.ProtoEnv
/-!
Tie for `Nsq.Model.ProtoEnv` (C09, audit round 7): the statements the model's broker-dependent,
environment-dependent and state-dependent outcomes were written from, re-extracted from the current
tree on every run (`specs/e3_audit09.json` → `Nsq.Gen.ProtoAudit`). The behavioural tie is the
correspondence leg `iox` (harness/e3/audit09_test.go); these facts pin the guards the model mirrors.

`newTickerOptionChecks`: F31 is committed (/repo a24e9f3), so ONLY the two checks of the patch are accepted
(`Model.ProtoEnv.newAccepts true`; audit B12). The shape before it (no check: `newAccepts false`,
`Props.C09Audit.options_never_kill_unchecked_false`) breaks this tie, and `props/C09.py`'s subprocess leg
then reports `ticker-option-kills-daemon` (listed `fixed`) as a VIOLATION with the option value that kills
the daemon.
-/
namespace Nsq.Tie.ProtoAudit
open Nsq.Model.ProtoEnv

/-- `Topic.PutMessages` / `PutMessage`: exit flag, then `put` per message, the error returned from
inside the loop (what was written before stays) — `pubFailed`. -/
theorem putMessagesStmts_eq : Nsq.Gen.ProtoAudit.putMessagesStmts = ([
  "if atomic.LoadInt32(&t.exitFlag) == 1",
  "return return errors.New(\"exiting\")",
  "assign err := t.put(m)",
  "return return err",
  "return return nil"] : List String) := rfl

theorem putMessageStmts_eq : Nsq.Gen.ProtoAudit.putMessageStmts = ([
  "if atomic.LoadInt32(&t.exitFlag) == 1",
  "return return errors.New(\"exiting\")",
  "assign err := t.put(m)",
  "return return err",
  "return return nil"] : List String) := rfl

theorem mpubPutStmts_eq : Nsq.Gen.ProtoAudit.mpubPutStmts = ([
  "assign err = topic.PutMessages(messages)",
  "return return nil, protocol.NewFatalClientErr(err, \"E_MPUB_FAILED\", \"MPUB failed \"+err.Error())"] : List String) := rfl

/-- `Channel.AddClient`: the comparison `limitHit` mirrors. -/
theorem addClientStmts_eq : Nsq.Gen.ProtoAudit.addClientStmts = ([
  "assign _, ok := c.clients[clientID]",
  "assign numClients := len(c.clients)",
  "assign maxChannelConsumers := c.nsqd.getOpts().MaxChannelConsumers",
  "if maxChannelConsumers != 0 && numClients >= maxChannelConsumers",
  "return return fmt.Errorf(\"consumers for %s:%s exceeds limit of %d\", c.topicName, c.name, maxChannelConsumers)",
  "assign c.clients[clientID] = client"] : List String) := rfl

/-- SUB: gate, then GetTopic, GetChannel, AddClient (the topic and channel exist when AddClient
refuses — `subRefused`). -/
theorem subAddClientStmts_eq : Nsq.Gen.ProtoAudit.subAddClientStmts = ([
  "assign err := p.CheckAuth(client, \"SUB\", topicName, channelName)",
  "assign topic := p.nsqd.GetTopic(topicName)",
  "assign channel = topic.GetChannel(channelName)",
  "assign err := channel.AddClient(client.ID, client)",
  "return return nil, protocol.NewFatalClientErr(err, \"E_SUB_FAILED\", \"SUB failed \"+err.Error())",
  "return return nil, protocol.NewFatalClientErr(nil, \"E_SUB_FAILED\", \"SUB failed to deleted topic/channel\")"] : List String) := rfl

/-- `CheckAuth` — `gate` (E_AUTH_FAILED: a failed re-query after the TTL expired, C11). -/
theorem checkAuthStmts_eq : Nsq.Gen.ProtoAudit.checkAuthStmts = ([
  "if client.nsqd.IsAuthEnabled()",
  "if !client.HasAuthorizations()",
  "return return protocol.NewFatalClientErr(nil, \"E_AUTH_FIRST\", fmt.Sprintf(\"AUTH required before %s\", cmd))",
  "assign ok, err := client.IsAuthorized(topicName, channelName)",
  "if err != nil",
  "return return protocol.NewFatalClientErr(nil, \"E_AUTH_FAILED\", \"AUTH failed\")",
  "if !ok",
  "return return protocol.NewFatalClientErr(nil, \"E_UNAUTHORIZED\", fmt.Sprintf(\"AUTH failed for %s on %q %q\", cmd, topicName, channelName))"] : List String) := rfl

/-- The tail of AUTH in the order of `authOutcome`. -/
theorem authTailStmts_eq : Nsq.Gen.ProtoAudit.authTailStmts = ([
  "if client.HasAuthorizations()",
  "if !client.nsqd.IsAuthEnabled()",
  "assign err := client.Auth(string(body))",
  "if !client.HasAuthorizations()"] : List String) := rfl

/-- `messagePump`: the two unguarded tickers (`pumpStart`) and the two guarded re-creations on IDENTIFY. -/
theorem pumpTickerStmts_eq : Nsq.Gen.ProtoAudit.pumpTickerStmts = ([
  "assign outputBufferTicker := time.NewTicker(client.OutputBufferTimeout)",
  "assign heartbeatTicker := time.NewTicker(client.HeartbeatInterval)",
  "assign outputBufferTicker = time.NewTicker(identifyData.OutputBufferTimeout)",
  "assign heartbeatTicker = time.NewTicker(identifyData.HeartbeatInterval)"] : List String) := rfl

/-- Which `newAccepts` the tree has. -/
def treeChecksTickerOptions : Bool :=
  Nsq.Gen.ProtoAudit.newTickerOptionChecks ==
    ["if opts.OutputBufferTimeout <= 0", "if opts.ClientTimeout/2 <= 0"]

theorem newTickerOptionChecks_shape_known :
    Nsq.Gen.ProtoAudit.newTickerOptionChecks =
      ["if opts.OutputBufferTimeout <= 0", "if opts.ClientTimeout/2 <= 0"] := by decide

/-- the `checked` parameter of `firstConnection` / `OptionsNeverKill` for this tree is `true` -/
theorem tree_checks_ticker_options : treeChecksTickerOptions = true := by decide

/-- The model's check is the patch's: `d <= 0` and `d/2 <= 0` refuse. -/
theorem newAccepts_mirrors_checks (o : Opts) :
    newAccepts true o = (!decide (o.outputBufferTimeoutNs ≤ 0) && !decide (Int.tdiv o.clientTimeoutNs 2 ≤ 0)) := by
  simp only [newAccepts, heartbeatOf, Bool.not_true, Bool.false_or]
  by_cases h1 : o.outputBufferTimeoutNs ≤ 0 <;> by_cases h2 : Int.tdiv o.clientTimeoutNs 2 ≤ 0 <;>
    simp [h1, h2] <;> omega

end Nsq.Tie.ProtoAudit
