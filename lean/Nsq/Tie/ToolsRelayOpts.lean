import Nsq.Gen.ToolsRelayOpts
import Nsq.Model.RelayOpts
/-!
Tie of the C20 round-6 models to the current tree (regenerated leg, spec `specs/e8_relay_opts.json`).

* `toNsqMainLoop` — the part of to_nsq's `main()` after the producers are made, with the bodies of the two
  `go func() { … }()` closures (kind `skeleton_deep`): the text `Model/ToNsqLoop.lean` was written against
  (balance starts at 1; ticker Add then conditional Store; reader Load / Sleep / readAndPublish / Add(-1);
  EOF → close(stopChan); main select then Stop of every producer). The behaviour is tied by the end-to-end
  leg (`harness/e8/tonsq_e2e_test.go`); this textual leg only pins what the reviewer of the model read.
-/
namespace Nsq.Tie.ToolsRelayOpts
open Nsq.Gen.ToolsRelayOpts

def expected_toNsqMainLoop : List String := [
  "throttleEnabled := *rate >= 1",
  "balance := int64(1)",
  "var interval time.Duration",
  "if throttleEnabled",
  ".interval = time.Second / time.Duration(*rate)",
  "go func()",
  ".if !throttleEnabled",
  "..return",
  ".range time.Tick(interval)",
  "..n := atomic.AddInt64(&balance, 1)",
  "..if n > int64(*rate)",
  "...atomic.StoreInt64(&balance, int64(*rate))",
  "r := bufio.NewReader(os.Stdin)",
  "delim := (*delimiter)[0]",
  "go func()",
  ".for",
  "..var err error",
  "..if throttleEnabled",
  "...currentBalance := atomic.LoadInt64(&balance)",
  "...if currentBalance <= 0",
  "....time.Sleep(interval)",
  "...err = readAndPublish(r, delim, producers)",
  "...atomic.AddInt64(&balance, -1)",
  "..else",
  "...err = readAndPublish(r, delim, producers)",
  "..if err != nil",
  "...if err != io.EOF",
  "....log.Fatal(err)",
  "...close(stopChan)",
  "...break",
  "select",
  ".case <-termChan",
  ".case <-stopChan",
  "range producers",
  ".producer.Stop()"]

theorem toNsqMainLoop_eq : toNsqMainLoop = expected_toNsqMainLoop := rfl


/-! ### nsq_to_http `parseCustomHeaders`: translated (kind `maploop`) and proved equal to the model -/
open Nsq.Model.RelayOpts

theorem parseCustomHeaders_step_eq (m : List (Str × Str)) (s : Str) :
    Nsq.Gen.ToolsRelayOpts.parseCustomHeaders_step m s = headerStep m s := by
  unfold Nsq.Gen.ToolsRelayOpts.parseCustomHeaders_step headerStep parseHeader splitN2
  cases h : cut 58 s with
  | none => simp
  | some kv =>
    obtain ⟨k, v⟩ := kv
    by_cases h1 : trimSpace k = [] <;> by_cases h2 : trimSpace v = [] <;> simp [h1, h2]

theorem parseCustomHeaders_eq (strs : List Str) :
    Nsq.Gen.ToolsRelayOpts.parseCustomHeaders strs = Nsq.Model.RelayOpts.parseCustomHeaders strs := by
  unfold Nsq.Gen.ToolsRelayOpts.parseCustomHeaders Nsq.Model.RelayOpts.parseCustomHeaders
  congr 1
  funext m s
  exact parseCustomHeaders_step_eq m s

end Nsq.Tie.ToolsRelayOpts
