import Nsq.Gen.GateFacts
import Nsq.Model.Gate
/-!
Tie (regenerated facts) for engine `gate` / property C11.

`Nsq.Gen.GateFacts` is re-extracted from the current tree by `tools/go2lean` on every run
(kinds `toplevel`, `stmts`, `errsites`, `callers`, `fieldwrites`, `consts`, `calls`). Each theorem
below `decide`s that a fact the model `Nsq.Model.Gate` relies on still holds of the source:

* `Exec`: IDENTIFY is dispatched first, then `enforceTLSPolicy` guards the whole switch;
* `PUB` / `MPUB` / `DPUB` / `SUB`: the `CheckAuth` guard is a top-level `if err := …; err != nil
  { return nil, err }` and no statement before it touches the broker — so it dominates
  `GetTopic` / `GetChannel` / `PutMessage(s)` / `AddClient`; the argument checks before the guard are
  the ones the model performs, in the same order;
* `CheckAuth`, `IsAuthorized`, `IsExpired`, `HasAuthorizations`, `Auth`, `AUTH`, `IsAllowed`,
  `HasPermission`, `QueryAuthd`'s validation: statement skeletons equal to the ones modelled;
* `client.TLS` is stored only in `UpgradeTLS`, after a successful `Handshake`, and `UpgradeTLS` is
  called only from `IDENTIFY`; `client.AuthState` is assigned only in `QueryAuthd`;
* the HTTP gate: `ServeHTTP`'s condition and `Main`'s wiring; `New`'s normalisation.
-/
namespace Nsq.Tie.Gate
open Nsq.Gen.GateFacts

set_option maxRecDepth 100000

abbrev Row := String × String × String × List String

def shapeOf (r : Row) : String := r.1
def textOf (r : Row) : String := r.2.1
def retOf (r : Row) : String := r.2.2.1
def callsOf (r : Row) : List String := r.2.2.2

/-- the calls through which a command handler touches the broker -/
def effectCalls : List String :=
  ["GetTopic", "GetChannel", "PutMessage", "PutMessages", "AddClient", "readMPUB", "GenerateID", "PublishedMessage"]

def hasEffect (r : Row) : Bool := (callsOf r).any (fun c => effectCalls.contains c)

def isGuard (guardText : String) (r : Row) : Bool :=
  shapeOf r = "if-return" && textOf r = guardText && retOf r = "return nil, err" && callsOf r = ["CheckAuth"]

/-- The guard statement exists at top level and no statement before it has a broker effect:
everything after it (in particular every effect) runs only when `CheckAuth` returned nil. -/
def guardDominates (guardText : String) : List Row → Bool
  | [] => false
  | r :: rs => if isGuard guardText r then true else if hasEffect r then false else guardDominates guardText rs

/-- conditions of the early-return checks before the guard, in order -/
def checksBeforeGuard (guardText : String) : List Row → List String
  | [] => []
  | r :: rs =>
    if isGuard guardText r then []
    else if shapeOf r = "if-return" then textOf r :: checksBeforeGuard guardText rs
    else checksBeforeGuard guardText rs

/-- effect calls after the guard, in order -/
def effectsAfterGuard (guardText : String) : List Row → List String
  | [] => []
  | r :: rs =>
    if isGuard guardText r then (rs.map callsOf).flatten.filter (fun c => effectCalls.contains c)
    else effectsAfterGuard guardText rs

def pubGuard : String := "err := p.CheckAuth(client, \"PUB\", topicName, \"\"); err != nil"
def mpubGuard : String := "err := p.CheckAuth(client, \"MPUB\", topicName, \"\"); err != nil"
def dpubGuard : String := "err := p.CheckAuth(client, \"DPUB\", topicName, \"\"); err != nil"
def subGuard : String := "err := p.CheckAuth(client, \"SUB\", topicName, channelName); err != nil"

/-! ### Exec: IDENTIFY first, then the TLS gate, then the dispatch -/

theorem exec_identify_first :
    execTop.head? = some ("if-return", "bytes.Equal(params[0], []byte(\"IDENTIFY\"))",
      "return p.IDENTIFY(client, params)", ["IDENTIFY"]) := by decide

theorem exec_tls_gate_before_dispatch :
    (execTop.drop 1).map (fun r => (shapeOf r, textOf r, retOf r)) =
      [("assign", "err := enforceTLSPolicy(client, p, params[0])", ""),
       ("if-return", "err != nil", "return nil, err"),
       ("switch", "", ""),
       ("return", "return nil, protocol.NewFatalClientErr(nil, \"E_INVALID\", fmt.Sprintf(\"invalid command %s\", params[0]))", "")] := by
  decide

/-- the commands behind the gate: exactly the non-IDENTIFY constructors of `Model.Gate.Cmd` -/
theorem exec_dispatch_table :
    (execTop.map callsOf).flatten =
      ["IDENTIFY", "enforceTLSPolicy", "FIN", "RDY", "REQ", "PUB", "MPUB", "DPUB", "NOP", "TOUCH", "SUB", "CLS", "AUTH"] := by
  decide

theorem enforceTLS_condition :
    enforceTLS =
      ["if p.nsqd.getOpts().TLSRequired != TLSNotRequired && atomic.LoadInt32(&client.TLS) != 1",
       "return return protocol.NewFatalClientErr(nil, \"E_INVALID\", fmt.Sprintf(\"cannot %s in current state (TLS required)\", command))",
       "return return nil"] := by decide

theorem tlsRequired_consts :
    c_TLSNotRequired = 0 ∧ c_TLSRequiredExceptHTTP = 1 ∧ c_TLSRequired = 2 := by decide

/-! ### the auth guard dominates every broker effect -/

theorem pub_guard_dominates : guardDominates pubGuard pubTop = true := by decide
theorem mpub_guard_dominates : guardDominates mpubGuard mpubTop = true := by decide
theorem dpub_guard_dominates : guardDominates dpubGuard dpubTop = true := by decide
theorem sub_guard_dominates : guardDominates subGuard subTop = true := by decide

/-- non-vacuity of the four facts above: the effects are there, after the guard -/
theorem effects_after_guard :
    effectsAfterGuard pubGuard pubTop = ["GetTopic", "GenerateID", "PutMessage", "PublishedMessage"] ∧
    effectsAfterGuard mpubGuard mpubTop = ["GetTopic", "readMPUB", "PutMessages", "PublishedMessage"] ∧
    effectsAfterGuard dpubGuard dpubTop = ["GetTopic", "GenerateID", "PutMessage", "PublishedMessage"] ∧
    effectsAfterGuard subGuard subTop = ["GetTopic", "GetChannel", "AddClient"] := by decide

/-- `CheckAuth` has no other caller: no fifth command is (half-)gated -/
theorem checkAuth_callers : checkAuthCallers = ["SUB", "PUB", "MPUB", "DPUB"] := by decide

/-- the argument checks in front of the guard are those of `execPub` / `execMpub` / `execDpub` /
`execSub`, in the same order -/
theorem checks_before_guard :
    checksBeforeGuard pubGuard pubTop =
      ["len(params) < 2", "!protocol.IsValidTopicName(topicName)", "err != nil", "bodyLen <= 0",
       "int64(bodyLen) > p.nsqd.getOpts().MaxMsgSize", "err != nil"] ∧
    checksBeforeGuard mpubGuard mpubTop =
      ["len(params) < 2", "!protocol.IsValidTopicName(topicName)"] ∧
    checksBeforeGuard dpubGuard dpubTop =
      ["len(params) < 3", "!protocol.IsValidTopicName(topicName)", "err != nil",
       "timeoutDuration < 0 || timeoutDuration > p.nsqd.getOpts().MaxReqTimeout", "err != nil", "bodyLen <= 0",
       "int64(bodyLen) > p.nsqd.getOpts().MaxMsgSize", "err != nil"] ∧
    checksBeforeGuard subGuard subTop =
      ["atomic.LoadInt32(&client.State) != stateInit", "client.HeartbeatInterval <= 0", "len(params) < 3",
       "!protocol.IsValidTopicName(topicName)", "!protocol.IsValidChannelName(channelName)"] := by decide

/-! ### CheckAuth / IsAuthorized / IsExpired / HasAuthorizations / Auth -/

theorem checkAuth_skeleton :
    checkAuth =
      ["if client.nsqd.IsAuthEnabled()",
       "if !client.HasAuthorizations()",
       "return return protocol.NewFatalClientErr(nil, \"E_AUTH_FIRST\", fmt.Sprintf(\"AUTH required before %s\", cmd))",
       "assign ok, err := client.IsAuthorized(topicName, channelName)",
       "if err != nil",
       "return return protocol.NewFatalClientErr(nil, \"E_AUTH_FAILED\", \"AUTH failed\")",
       "if !ok",
       "return return protocol.NewFatalClientErr(nil, \"E_UNAUTHORIZED\", fmt.Sprintf(\"AUTH failed for %s on %q %q\", cmd, topicName, channelName))",
       "return return nil"] := by decide

theorem isAuthorized_skeleton :
    isAuthorized =
      ["if c.AuthState == nil", "return return false, nil",
       "if c.AuthState.IsExpired()", "assign err := c.QueryAuthd()", "if err != nil", "return return false, err",
       "if c.AuthState.IsAllowed(topic, channel)", "return return true, nil", "return return false, nil"] := by decide

theorem isExpired_skeleton : isExpired = ["return return a.Expires.Before(time.Now())"] := by decide

theorem hasAuthorizations_skeleton :
    hasAuthorizations =
      ["if c.AuthState != nil", "return return len(c.AuthState.Authorizations) != 0", "return return false"] := by decide

theorem clientAuth_skeleton :
    clientAuth = ["assign c.AuthSecret = secret", "return return c.QueryAuthd()"] := by decide

theorem isAuthEnabled_skeleton :
    isAuthEnabled = ["return return len(n.getOpts().AuthHTTPAddresses) != 0"] := by decide

/-- every denial of the two gates is a *fatal* client error with the documented code -/
theorem gate_error_sites :
    gateErrs.filter (fun r => r.1 = "CheckAuth" || r.1 = "enforceTLSPolicy") =
      [("CheckAuth", "NewFatalClientErr", "E_AUTH_FIRST"),
       ("CheckAuth", "NewFatalClientErr", "E_AUTH_FAILED"),
       ("CheckAuth", "NewFatalClientErr", "E_UNAUTHORIZED"),
       ("enforceTLSPolicy", "NewFatalClientErr", "E_INVALID")] := by decide

/-! ### AUTH -/

/-- the early returns of `AUTH`, in order, each with its (fatal) error code: `execAuth`'s chain -/
theorem auth_checks :
    ((authTop.filter (fun r => shapeOf r = "if-return")).map textOf).zip
        ((gateErrs.filter (fun r => r.1 = "AUTH")).map (fun r => (r.2.1, r.2.2))) =
      [("atomic.LoadInt32(&client.State) != stateInit", "NewFatalClientErr", "E_INVALID"),
       ("len(params) != 1", "NewFatalClientErr", "E_INVALID"),
       ("err != nil", "NewFatalClientErr", "E_BAD_BODY"),
       ("int64(bodyLen) > p.nsqd.getOpts().MaxBodySize", "NewFatalClientErr", "E_BAD_BODY"),
       ("bodyLen <= 0", "NewFatalClientErr", "E_BAD_BODY"),
       ("err != nil", "NewFatalClientErr", "E_BAD_BODY"),
       ("client.HasAuthorizations()", "NewFatalClientErr", "E_INVALID"),
       ("!client.nsqd.IsAuthEnabled()", "NewFatalClientErr", "E_AUTH_DISABLED"),
       ("err := client.Auth(string(body)); err != nil", "NewFatalClientErr", "E_AUTH_FAILED"),
       ("!client.HasAuthorizations()", "NewFatalClientErr", "E_UNAUTHORIZED"),
       ("err != nil", "NewFatalClientErr", "E_AUTH_ERROR"),
       ("err != nil", "NewFatalClientErr", "E_AUTH_ERROR")] := by decide

/-! ### who can change the TLS flag and the auth state -/

theorem tls_flag_single_writer :
    tlsWrites.filter (fun r => r.2 ≠ "addr:LoadInt32") = [("UpgradeTLS", "addr:StoreInt32")] := by decide

theorem upgradeTLS_single_caller : upgradeTLSCallers = ["IDENTIFY"] := by decide

/-- in `UpgradeTLS`: handshake, return on error, and only then the store of the flag -/
theorem upgradeTLS_store_after_handshake :
    (upgradeTLSTop.filter (fun r => callsOf r ≠ [] || shapeOf r = "if-return")).map (fun r => (shapeOf r, textOf r, retOf r)) =
      [("assign", "tlsConn := tls.Server(c.Conn, c.nsqd.tlsConfig)", ""),
       ("assign", "err := tlsConn.Handshake()", ""),
       ("if-return", "err != nil", "return err"),
       ("expr", "atomic.StoreInt32(&c.TLS, 1)", "")] := by decide

/-- `IDENTIFY`: the state guard comes first; the feature-negotiation bail-out precedes the TLS
upgrade; the upgrade happens under `if tlsv1` with `tlsv1 := tlsConfig != nil && identifyData.TLSv1` -/
theorem identify_tls_skeleton :
    ((identifyTop.filter (fun r => shapeOf r = "if" || (shapeOf r = "if-return" && textOf r ≠ "err != nil"))).map
        (fun r => (textOf r, callsOf r))) =
      [("atomic.LoadInt32(&client.State) != stateInit", []),
       ("int64(bodyLen) > p.nsqd.getOpts().MaxBodySize", []),
       ("bodyLen <= 0", []),
       ("!identifyData.FeatureNegotiation", []),
       ("deflate && identifyData.DeflateLevel > 0", []),
       ("max := p.nsqd.getOpts().MaxDeflateLevel; max < deflateLevel", []),
       ("deflate && snappy", []),
       ("tlsv1", ["UpgradeTLS", "Send"]),
       ("snappy", ["UpgradeSnappy", "Send"]),
       ("deflate", ["UpgradeDeflate", "Send"])] ∧
    identifyTLS = ["assign tlsv1 := p.nsqd.tlsConfig != nil && identifyData.TLSv1"] := by decide

/-! ### byte provenance: what the readers are built from

The model's `rd` (reader generation) says: after a completed `UpgradeTLS` the connection reads from a
*fresh* `bufio.Reader` over the `tls.Conn` and nothing else — in particular not from whatever the
replaced plaintext reader still had in its buffer. These facts pin exactly that: the only
assignments to `client.Reader` are the three `Upgrade*` functions, and each builds the new reader
from the new stream alone (`c.tlsConn`, resp. the decompressor over `conn`). -/

theorem reader_writers :
    readerWrites = [("UpgradeTLS", "assign"), ("UpgradeDeflate", "assign"), ("UpgradeSnappy", "assign")] := by decide

theorem upgradeTLS_reader_from_tls_only :
    upgradeTLSStreams =
      ["assign c.tlsConn = tlsConn",
       "assign c.Reader = bufio.NewReaderSize(c.tlsConn, defaultBufferSize)",
       "assign c.Writer = bufio.NewWriterSize(c.tlsConn, c.OutputBufferSize)"] := by decide

/-- the WRITER line is the one of fix F30 (/repo d6aa4e3, committed: `sw := snappy.NewWriter(conn)` is kept in
`outputDest`; the statement `sw := …` matches none of the tracked patterns); the pre-F30 line
(`bufio.NewWriterSize(snappy.NewWriter(conn), …)`) is no longer accepted (audit B12). The reader line — what this
fact is about — was the same in both. -/
theorem upgradeSnappy_reader_from_conn_only :
    upgradeSnappyStreams =
      ["assign conn := c.Conn",
       "assign conn = c.tlsConn",
       "assign c.Reader = bufio.NewReaderSize(snappy.NewReader(conn), defaultBufferSize)",
       "assign c.Writer = bufio.NewWriterSize(sw, c.OutputBufferSize)"] := by decide

theorem upgradeDeflate_reader_from_conn_only :
    upgradeDeflateStreams =
      ["assign conn := c.Conn",
       "assign conn = c.tlsConn",
       "assign c.Reader = bufio.NewReaderSize(flate.NewReader(conn), defaultBufferSize)",
       "assign fw, _ := flate.NewWriter(conn, level)",
       "assign c.Writer = bufio.NewWriterSize(fw, c.OutputBufferSize)"] := by decide

theorem authState_single_writer : authStateWrites = [("QueryAuthd", "assign")] := by decide
theorem authSecret_single_writer : authSecretWrites = [("Auth", "assign")] := by decide

/-! ### internal/auth -/

theorem stateIsAllowed_skeleton :
    stateIsAllowed = ["if aa.IsAllowed(topic, channel)", "return return true", "return return false"] := by decide

theorem authzIsAllowed_skeleton :
    authzIsAllowed =
      ["if channel != \"\"", "if !a.HasPermission(\"subscribe\")", "return return false",
       "if !a.HasPermission(\"publish\")", "return return false",
       "assign topicRegex := regexp.MustCompile(a.Topic)", "if !topicRegex.MatchString(topic)", "return return false",
       "assign channelRegex := regexp.MustCompile(c)", "if channelRegex.MatchString(channel)", "return return true",
       "return return false"] := by decide

theorem hasPermission_skeleton :
    hasPermission = ["if permission == p", "return return true", "return return false"] := by decide

theorem queryAuthd_validation :
    queryAuthdValidation =
      ["case \"subscribe\"",
       "return return nil, fmt.Errorf(\"unknown permission %s\", p)",
       "assign _, err := regexp.Compile(auth.Topic)",
       "assign _, err := regexp.Compile(channel)",
       "if authState.TTL <= 0",
       "return return nil, fmt.Errorf(\"invalid TTL %d (must be >0)\", authState.TTL)",
       "assign authState.Expires = time.Now().Add(time.Duration(authState.TTL) * time.Second)"] := by decide

/-! ### HTTP gate and option normalisation -/

theorem serveHTTP_condition :
    serveHTTP = ["if !s.tlsEnabled && s.tlsRequired"] ∧ serveHTTPCalls = ["WriteHeader", "ServeHTTP"] := by decide

theorem main_http_wiring :
    mainHTTP =
      ["assign httpServer := newHTTPServer(n, false, n.getOpts().TLSRequired == TLSRequired)",
       "assign httpsServer := newHTTPServer(n, true, true)"] := by decide

theorem new_tls_normalisation :
    newTLS.take 5 =
      ["if opts.TLSClientAuthPolicy != \"\" && opts.TLSRequired == TLSNotRequired",
       "assign opts.TLSRequired = TLSRequired",
       "assign tlsConfig, err := buildTLSConfig(opts)",
       "if tlsConfig == nil && opts.TLSRequired != TLSNotRequired",
       "assign n.tlsConfig = tlsConfig"] := by decide

theorem buildTLS_policy :
    buildTLS =
      ["if opts.TLSCert == \"\" && opts.TLSKey == \"\"",
       "assign tlsClientAuthPolicy := tls.VerifyClientCertIfGiven",
       "assign cert, err := tls.LoadX509KeyPair(opts.TLSCert, opts.TLSKey)",
       "case \"require\"",
       "assign tlsClientAuthPolicy = tls.RequireAnyClientCert",
       "case \"require-verify\"",
       "assign tlsClientAuthPolicy = tls.RequireAndVerifyClientCert",
       "assign tlsClientAuthPolicy = tls.NoClientCert",
       "assign tlsConfig = &tls.Config{ Certificates: []tls.Certificate{cert}, ClientAuth: tlsClientAuthPolicy, MinVersion: opts.TLSMinVersion, }"] := by
  decide

end Nsq.Tie.Gate
