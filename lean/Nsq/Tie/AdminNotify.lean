import Nsq.Proofs.AdminNotify
/-!
Tie obligations for the notification clauses of C17: decidable judgements evaluated on the handler skeletons
regenerated from nsqadmin/http.go (`Nsq.Gen.AdminRoutes`).
-/
namespace Nsq.Tie.AdminNotify
open Nsq.Model.AdminGate Nsq.Tie.AdminGate Nsq.Proofs.AdminNotify Nsq.Gen.AdminRoutes

/-- Every mutating handler: each `notifyAdminAction` sits behind the endpoint test, and on every feasible
path the notifications are exactly those of the `ClusterInfo` actions performed. -/
theorem mutating_routes_notify :
    (adminRoutes.filter Route.mutating).all (fun r =>
      match skelOf r with
      | some sk => notifyOk r.handler sk && notifyGated false sk
      | none => false) = true := by decide

/-- No other route ever notifies. -/
theorem other_routes_silent :
    (adminRoutes.filter (fun r => !r.mutating)).all (fun r =>
      match skelOf r with
      | some sk => (paths sk).all (fun p => notesOf p.2.1 == [])
      | none => false) = true := by decide

end Nsq.Tie.AdminNotify
