import Nsq.Gen.TopicEph
/-! Tie (regenerated facts) for `Nsq.Model.TopicEph` (C01 on `#ephemeral` topics, audit A5): the statement sequence
of `Topic.put`, the `#ephemeral` branch of `NewTopic` and `dummyBackendQueue.Put`, re-extracted from the current tree
by tools/go2lean (spec specs/e2_topiceph.json) and compared with the expected tables. -/
namespace Nsq.Tie.TopicEph

/-- `Topic.put`: the memory channel is tried when it is buffered OR the topic is ephemeral OR the message is deferred
(`roomTE`: an ephemeral topic tries it even with `mem-queue-size 0`); the send is one arm of a `select` with a
`default:` arm (non-blocking: `roomTE` false ⇒ fall through) and returns nil (kept); otherwise
`writeMessageToBackend(m, t.backend)`, whose error is the result — for the dummy backend nil (`dummyPut_eq`):
`putTE`'s "dropped, publisher answered OK". (`Topic.PutMessage` counts after a nil result: `Tie.Chan.topicPut_eq`.) -/
theorem topicPutBody_eq : Nsq.Gen.TopicEph.topicPutBody = ([
  "if cap(t.memoryMsgChan) > 0 || t.ephemeral || m.deferred != 0",
  "send t.memoryMsgChan <- m",
  "stmt return nil",
  "select-default",
  "branch break",
  "assign err := writeMessageToBackend(m, t.backend)",
  "stmt return err",
  "stmt return nil"] : List String) := by decide

/-- `NewTopic`: a name ending in `#ephemeral` sets the flag and gives the topic the dummy backend; any other name gets
a go-diskqueue (`Tie.Chan.topicBackendNew_eq`: the only two assignments of `t.backend`, with the disk queue's arguments) -/
theorem newTopicEphemeral_eq : Nsq.Gen.TopicEph.newTopicEphemeral = ([
  "if strings.HasSuffix(topicName, \"#ephemeral\")",
  "assign t.ephemeral = true",
  "assign t.backend = newDummyBackendQueue()"] : List String) := by decide

/-- the flag is assigned nowhere else in package nsqd (`ES.eph` never shrinks or grows for an existing topic) -/
theorem topicEphemeralWrites_eq :
    Nsq.Gen.TopicEph.topicEphemeralWrites = ([("NewTopic", "assign")] : List (String × String)) := by decide

/-- `dummyBackendQueue.Put` discards the bytes and reports success -/
theorem dummyPut_eq : Nsq.Gen.TopicEph.dummyPut = (["stmt return nil"] : List String) := by decide

end Nsq.Tie.TopicEph
