import Nsq.Gen.Chan
/-! Tie (regenerated facts) for the E2 channel state machine: every fact the hand-written model
`Nsq.Model.Chan` / `Nsq.Model.ChanNsqd` relies on about the *shape* of the Go code is re-extracted from
the current tree by tools/go2lean (spec specs/e2_chan.json) and compared here with the expected table.
A code change that alters one of them breaks the corresponding theorem. -/
namespace Nsq.Tie.Chan
set_option maxRecDepth 16000

/-- C02: the only functions that delete from `inFlightMessages` are `popInFlightMessage` (FIN / REQ / TOUCH) and the timeout scan's own critical section (fix F16: heap pop and map delete together), plus the re-make in `initPQ`: the map removal decides the single winner. Model: `finChanPart`, `req`, `touch`, `timeoutOne` all go through `findE … .inflight`; micro-step model: `ansMapPop`, `scanPop`. -/
theorem inFlightWrites_eq : Nsq.Gen.Chan.inFlightWrites = ([
  ("Channel.initPQ", "assign"),
  ("Channel.popInFlightMessage", "delete"),
  ("Channel.processInFlightQueue", "delete"),
  ("Channel.pushInFlightMessage", "store")] : List (String × String)) := by decide

/-- same for the deferred map: `popDeferredMessage` is the only deleter. Model: `deferDueOne`. -/
theorem deferredWrites_eq : Nsq.Gen.Chan.deferredWrites = ([
  ("Channel.initPQ", "assign"),
  ("Channel.popDeferredMessage", "delete"),
  ("Channel.pushDeferredMessage", "store")] : List (String × String)) := by decide

/-- C02: the ownership test `msg.clientID != clientID` (model: `if k' = k`) after the presence test. -/
theorem popOwnership_eq : Nsq.Gen.Chan.popOwnership = ([
  "if !ok",
  "if msg.clientID != clientID"] : List String) := by decide

/-- C02: exactly FIN, REQ and TOUCH pop from the in-flight map through `popInFlightMessage` (the timeout scan deletes in its own critical section, `scanInFlight_eq`). -/
theorem popCallers_eq : Nsq.Gen.Chan.popCallers = (["Channel.FinishMessage", "Channel.RequeueMessage", "Channel.TouchMessage"] : List String) := by decide

/-- C02/C03: error-code mapping. The only non-fatal errors of FIN/REQ/TOUCH are E_FIN_FAILED / E_REQ_FAILED / E_TOUCH_FAILED (one site each, wrapping the channel's error); everything else is a fatal E_INVALID; RDY and CLS have only fatal E_INVALID sites. -/
theorem answerErrs_eq : Nsq.Gen.Chan.answerErrs = ([
  ("RDY", "NewFatalClientErr", "E_INVALID"),
  ("RDY", "NewFatalClientErr", "E_INVALID"),
  ("RDY", "NewFatalClientErr", "E_INVALID"),
  ("FIN", "NewFatalClientErr", "E_INVALID"),
  ("FIN", "NewFatalClientErr", "E_INVALID"),
  ("FIN", "NewFatalClientErr", "E_INVALID"),
  ("FIN", "NewClientErr", "E_FIN_FAILED"),
  ("REQ", "NewFatalClientErr", "E_INVALID"),
  ("REQ", "NewFatalClientErr", "E_INVALID"),
  ("REQ", "NewFatalClientErr", "E_INVALID"),
  ("REQ", "NewFatalClientErr", "E_INVALID"),
  ("REQ", "NewClientErr", "E_REQ_FAILED"),
  ("CLS", "NewFatalClientErr", "E_INVALID"),
  ("TOUCH", "NewFatalClientErr", "E_INVALID"),
  ("TOUCH", "NewFatalClientErr", "E_INVALID"),
  ("TOUCH", "NewFatalClientErr", "E_INVALID"),
  ("TOUCH", "NewClientErr", "E_TOUCH_FAILED")] : List (String × String × String)) := by decide

/-- C03 `resume`: every path that can turn the guard true wakes the pump: SetReadyCount (RDY raise), FinishedMessage / RequeuedMessage / TimedOutMessage / Discarded / Empty (in-flight count drops), Pause / UnPause. -/
theorem readyStateCallers_eq : Nsq.Gen.Chan.readyStateCallers = (["clientV2.Discarded", "clientV2.Empty", "clientV2.FinishedMessage", "clientV2.Pause", "clientV2.RequeuedMessage", "clientV2.SetReadyCount", "clientV2.TimedOutMessage", "clientV2.UnPause"] : List String) := by decide

/-- C03: the ready count is written only by RDY and by StartClose (CLS). -/
theorem setReadyCallers_eq : Nsq.Gen.Chan.setReadyCallers = (["clientV2.StartClose", "protocolV2.RDY"] : List String) := by decide

/-- C03: text of the guard `IsReadyForMessages`: paused → false; `inFlightCount >= readyCount || readyCount <= 0` → false (model `Chan.ready`). -/
theorem isReady_eq : Nsq.Gen.Chan.isReady = ([
  "if c.Channel.IsPaused()",
  "stmt return false",
  "assign readyCount := atomic.LoadInt64(&c.ReadyCount)",
  "assign inFlightCount := atomic.LoadInt64(&c.InFlightCount)",
  "do c.nsqd.logf(LOG_DEBUG, \"[%s] state rdy: %4d inflt: %4d\", c, readyCount, inFlightCount)",
  "if inFlightCount >= readyCount || readyCount <= 0",
  "stmt return false",
  "stmt return true"] : List String) := by decide

/-- C03: the pump evaluates the guard once per loop iteration, before the select. -/
theorem pumpGuard_eq : Nsq.Gen.Chan.pumpGuard = ([
  "if subChannel == nil || !client.IsReadyForMessages()"] : List String) := by decide

/-- C02/C03: order of effects of one delivery: sampling test, `Attempts++`, SendingMessage (count first — fix F13: `Channel.Empty` subtracts what it finds registered, so the count never lags behind the in-flight map), StartInFlightTimeout (register), SendMessage (model `Op.deliver` / `Op.sampleDrop`). -/
theorem pumpDeliver_eq : Nsq.Gen.Chan.pumpDeliver = ([
  "if sampleRate > 0 && rand.Int31n(100) > sampleRate",
  "do msg.Attempts++",
  "do client.SendingMessage()",
  "do subChannel.StartInFlightTimeout(msg, client.ID, msgTimeout)",
  "assign err = p.SendMessage(client, msg)"] : List String) := by decide

/-- C13/F8: FIN = Channel.FinishMessage, then client.FinishedMessage (two critical sections: model `finChan` / `finClient`). -/
theorem finOrder_eq : Nsq.Gen.Chan.finOrder = ([
  "assign err = client.Channel.FinishMessage(client.ID, *id)",
  "do client.FinishedMessage()"] : List String) := by decide

/-- C02: REQ clamps the delay into [0, max-req-timeout] (model `clampReq`), Channel.RequeueMessage, then client.RequeuedMessage. -/
theorem reqOrder_eq : Nsq.Gen.Chan.reqOrder = ([
  "if timeoutDuration < 0",
  "assign clampedTimeout = 0",
  "if timeoutDuration > maxReqTimeout",
  "assign clampedTimeout = maxReqTimeout",
  "assign err = client.Channel.RequeueMessage(client.ID, *id, timeoutDuration)",
  "do client.RequeuedMessage()"] : List String) := by decide

/-- C03: RDY is ignored when closing, fatal unless subscribed, fatal unless `0 <= count <= MaxRdyCount`, else SetReadyCount. -/
theorem rdyRange_eq : Nsq.Gen.Chan.rdyRange = ([
  "if state == stateClosing",
  "if state != stateSubscribed",
  "if count < 0 || count > p.nsqd.getOpts().MaxRdyCount",
  "do client.SetReadyCount(count)"] : List String) := by decide

/-- C03: CLS forces RDY 0, then marks the client closing. -/
theorem startClose_eq : Nsq.Gen.Chan.startClose = ([
  "do c.SetReadyCount(0)",
  "do atomic.StoreInt32(&c.State, stateClosing)"] : List String) := by decide

/-- C01/C13: RequeueMessage = pop, heap removal, requeueCount++, then `put` (delay 0) or StartDeferredTimeout. -/
theorem requeueMessage_eq : Nsq.Gen.Chan.requeueMessage = ([
  "assign msg, err := c.popInFlightMessage(clientID, id)",
  "do c.removeFromInFlightPQ(msg)",
  "do atomic.AddUint64(&c.requeueCount, 1)",
  "if timeout == 0",
  "assign err := c.put(msg)",
  "stmt return c.StartDeferredTimeout(msg, timeout)"] : List String) := by decide

/-- C02: FinishMessage = pop, heap removal. -/
theorem finishMessage_eq : Nsq.Gen.Chan.finishMessage = ([
  "assign msg, err := c.popInFlightMessage(clientID, id)",
  "do c.removeFromInFlightPQ(msg)"] : List String) := by decide

/-- C01/C02/C13 (fix F16): timeout scan body = ONE critical section {heap pop; if the map still holds that very object delete it, else forget the stale entry}, exit when nothing was taken; then timeoutCount++, client.TimedOutMessage, put (model `timeoutOne`; micro-step model `scanPop | scanPut`). -/
theorem scanInFlight_eq : Nsq.Gen.Chan.scanInFlight = ([
  "do c.inFlightMutex.Lock()",
  "assign msg, _ := c.inFlightPQ.PeekAndShift(t)",
  "if msg != nil",
  "if ok && m == msg",
  "assign m, ok := c.inFlightMessages[msg.ID]",
  "do delete(c.inFlightMessages, msg.ID)",
  "assign msg = nil",
  "do c.inFlightMutex.Unlock()",
  "if msg == nil",
  "do atomic.AddUint64(&c.timeoutCount, 1)",
  "do client.TimedOutMessage()",
  "do c.put(msg)"] : List String) := by decide

/-- C01: deferred scan body = heap pop, map pop, put. -/
theorem scanDeferred_eq : Nsq.Gen.Chan.scanDeferred = ([
  "assign item, _ := c.deferredPQ.PeekAndShift(t)",
  "assign _, err := c.popDeferredMessage(msg.ID)",
  "do c.put(msg)"] : List String) := by decide

/-- C13: Channel.PutMessage counts a message only after a successful put. -/
theorem chanPutMessage_eq : Nsq.Gen.Chan.chanPutMessage = ([
  "assign err := c.put(m)",
  "do atomic.AddUint64(&c.messageCount, 1)"] : List String) := by decide

/-- C13: PutMessageDeferred counts, then defers. -/
theorem chanPutDeferred_eq : Nsq.Gen.Chan.chanPutDeferred = ([
  "do atomic.AddUint64(&c.messageCount, 1)",
  "do c.StartDeferredTimeout(msg, timeout)"] : List String) := by decide

/-- C13 (fix F13, formerly F8): Empty = `dropped := initPQ()`, for every client `Discarded(dropped[id])` (a consumer type without it: `Empty()`), drain, backend.Empty (model `Op.empty`: each client's counter minus the in-flight messages it owned). -/
theorem chanEmpty_eq : Nsq.Gen.Chan.chanEmpty = ([
  "assign dropped := c.initPQ()",
  "assign d, ok := client.(interface{ Discarded(int64) })",
  "do d.Discarded(dropped[id])",
  "do client.Empty()",
  "stmt return c.backend.Empty()"] : List String) := by decide

/-- C13 (F13): `initPQ` counts, under `inFlightMutex` and before it replaces the map, the in-flight messages per owning client, and returns that. -/
theorem initPQDropped_eq : Nsq.Gen.Chan.initPQDropped = ([
  "do c.inFlightMutex.Lock()",
  "assign dropped := make(map[int64]int64)",
  "do dropped[msg.clientID]++",
  "assign c.inFlightMessages = make(map[MessageID]*Message)",
  "do c.inFlightMutex.Unlock()",
  "stmt return dropped"] : List String) := by decide

/-- C13 (F13): `clientV2.Discarded(n)` subtracts n from the in-flight count and wakes the pump. -/
theorem clientDiscarded_eq : Nsq.Gen.Chan.clientDiscarded = ([
  "do atomic.AddInt64(&c.InFlightCount, -n)",
  "do c.tryUpdateReadyState()"] : List String) := by decide

/-- C01.1/C13.2: Topic.PutMessage counts message and bytes only after a successful put. -/
theorem topicPut_eq : Nsq.Gen.Chan.topicPut = ([
  "stmt return errors.New(\"exiting\")",
  "assign err := t.put(m)",
  "stmt return err",
  "do atomic.AddUint64(&t.messageCount, 1)",
  "do atomic.AddUint64(&t.messageBytes, uint64(len(m.Body)))",
  "stmt return nil"] : List String) := by decide

/-- C13.2: PutMessages adds the enqueued prefix (i messages, their bytes) when a put fails, else all. -/
theorem topicPutMany_eq : Nsq.Gen.Chan.topicPutMany = ([
  "assign err := t.put(m)",
  "do atomic.AddUint64(&t.messageCount, uint64(i))",
  "do atomic.AddUint64(&t.messageBytes, uint64(messageTotalBytes))",
  "do atomic.AddUint64(&t.messageBytes, uint64(messageTotalBytes))",
  "do atomic.AddUint64(&t.messageCount, uint64(len(msgs)))"] : List String) := by decide

/-- C01.1: PUB answers OK only after PutMessage returned. -/
theorem pubAck_eq : Nsq.Gen.Chan.pubAck = ([
  "assign err = topic.PutMessage(msg)",
  "stmt return okBytes, nil"] : List String) := by decide

/-- C01.1: MPUB answers OK only after PutMessages returned. -/
theorem mpubAck_eq : Nsq.Gen.Chan.mpubAck = ([
  "assign err = topic.PutMessages(messages)",
  "stmt return okBytes, nil"] : List String) := by decide

/-- C01.1: DPUB answers OK only after PutMessage returned. -/
theorem dpubAck_eq : Nsq.Gen.Chan.dpubAck = ([
  "assign err = topic.PutMessage(msg)",
  "stmt return okBytes, nil"] : List String) := by decide

/-- C01.2/C03.5: the topic pump stops receiving iff it has no channel or the topic is paused, and puts every message on every channel of its snapshot (deferred ones through PutMessageDeferred). -/
theorem topicFanout_eq : Nsq.Gen.Chan.topicFanout = ([
  "if len(chans) == 0 || t.IsPaused()",
  "if len(chans) == 0 || t.IsPaused()",
  "do channel.PutMessageDeferred(chanMsg, chanMsg.deferred)",
  "assign err := channel.PutMessage(chanMsg)"] : List String) := by decide

/-- C01.2: GetChannel synchronises with the pump (`channelUpdateChan`) after creating a channel. -/
theorem getChannel_eq : Nsq.Gen.Chan.getChannel = ([
  "assign channel, isNew := t.getOrCreateChannel(channelName)",
  "send t.channelUpdateChan <- 1"] : List String) := by decide

/-- C03.5: topic pause/unpause stores the flag, then hands shakes with the pump (`pauseChan`). -/
theorem topicDoPause_eq : Nsq.Gen.Chan.topicDoPause = ([
  "do atomic.StoreInt32(&t.paused, 1)",
  "do atomic.StoreInt32(&t.paused, 0)",
  "send t.pauseChan <- 1"] : List String) := by decide

/-- C13/F8: client.Empty stores 0 into InFlightCount and wakes the pump. -/
theorem clientEmpty_eq : Nsq.Gen.Chan.clientEmpty = ([
  "do atomic.StoreInt64(&c.InFlightCount, 0)",
  "do c.tryUpdateReadyState()"] : List String) := by decide

/-- C13: FinishedMessage: FinishCount++, InFlightCount--. -/
theorem clientFinished_eq : Nsq.Gen.Chan.clientFinished = ([
  "do atomic.AddUint64(&c.FinishCount, 1)",
  "do atomic.AddInt64(&c.InFlightCount, -1)"] : List String) := by decide

/-- C13: SendingMessage: InFlightCount++, MessageCount++. -/
theorem clientSending_eq : Nsq.Gen.Chan.clientSending = ([
  "do atomic.AddInt64(&c.InFlightCount, 1)",
  "do atomic.AddUint64(&c.MessageCount, 1)"] : List String) := by decide

/-- C01: Channel.put tries the memory channel, else writes to the backend (never drops on a durable channel). -/
theorem chanPut_eq : Nsq.Gen.Chan.chanPut = ([
  "if c.topologyAwareConsumption",
  "send c.memoryMsgChan <- m",
  "send c.memoryMsgChan <- m",
  "assign err := writeMessageToBackend(m, c.backend)"] : List String) := by decide

/-- C02 (seeded C02-m2): `StartInFlightTimeout` stamps owner, delivery time and deadline on the message BEFORE it becomes findable in the in-flight map (`pushInFlightMessage`, which since F48 inserts into map AND deadline heap in one critical section): a late answer of the previous holder can never meet a stale `clientID`. -/
theorem startInFlight_eq : Nsq.Gen.Chan.startInFlight = ([
  "assign msg.clientID = clientID",
  "assign msg.deliveryTS = now",
  "assign msg.pri = now.Add(timeout).UnixNano()",
  "assign err := c.pushInFlightMessage(msg)"] : List String) := by decide

/-- C03 (seeded C03-m2): `Channel.doPause` stores the `paused` flag BEFORE it walks over the consumers to wake their pumps (model: `pause`/`unpause` set the flag in the same step the guard sees). -/
theorem chanDoPause_eq : Nsq.Gen.Chan.chanDoPause = ([
  "do atomic.StoreInt32(&c.paused, 1)",
  "do atomic.StoreInt32(&c.paused, 0)",
  "do c.RLock()",
  "do client.Pause()",
  "do client.UnPause()",
  "do c.RUnlock()"] : List String) := by decide

/-- C01: the topic pump rebuilds its channel snapshot from the channel map at start-up and on every `channelUpdateChan` event (model: `refreshPump`). -/
theorem topicPumpLoop_eq : Nsq.Gen.Chan.topicPumpLoop = ([
  "assign chans = append(chans, c)",
  "assign chans = chans[:0]",
  "assign chans = append(chans, c)"] : List String) := by decide

/-- C02.7 (micro-step model `ChanMicro`): TOUCH is three critical sections in this order — map pop (the decision), heap removal, map + heap push with the new deadline (`ansMapPop` | `ansFinish` | `touchMapPush`+`heapPush` in one section since F48). -/
theorem touchMessage_eq : Nsq.Gen.Chan.touchMessage = ([
  "assign msg, err := c.popInFlightMessage(clientID, id)",
  "do c.removeFromInFlightPQ(msg)",
  "assign msg.pri = newTimeout.UnixNano()",
  "assign err = c.pushInFlightMessage(msg)"] : List String) := by decide

/-- C02.7: `removeFromInFlightPQ` is one critical section that removes the object only if it is in the heap at its recorded index (model: `heap.erase id` is a no-op when the entry is gone — a late answer in the delivery window, or after the scan popped it). -/
theorem heapRemoveGuard_eq : Nsq.Gen.Chan.heapRemoveGuard = ([
  "do c.inFlightMutex.Lock()",
  "if msg.index < 0 || msg.index >= len(c.inFlightPQ) || c.inFlightPQ[msg.index] != msg",
  "do c.inFlightMutex.Unlock()",
  "do c.inFlightPQ.Remove(msg.index)",
  "do c.inFlightMutex.Unlock()"] : List String) := by decide

/-- C02.7: `popInFlightMessage` is one critical section: lookup by id, owner test on the object's `clientID`, delete — the map step that decides the race (model: `ansMapPop`; the scan's own section: `scanPop`). -/
theorem popInFlight_eq : Nsq.Gen.Chan.popInFlight = ([
  "do c.inFlightMutex.Lock()",
  "assign msg, ok := c.inFlightMessages[id]",
  "do c.inFlightMutex.Unlock()",
  "if msg.clientID != clientID",
  "do c.inFlightMutex.Unlock()",
  "do delete(c.inFlightMessages, id)",
  "do c.inFlightMutex.Unlock()"] : List String) := by decide

/-- C02.7: `pushInFlightMessage` is one critical section: refuse when the id is present, else insert into the map AND the deadline heap (F48; model: `delMapPush`, `touchMapPush` with `ChanMicroT.fixed = true`; the refusal is proved unreachable, `never_already_in_flight`). -/
theorem pushInFlight_eq : Nsq.Gen.Chan.pushInFlight = ([
  "do c.inFlightMutex.Lock()",
  "assign _, ok := c.inFlightMessages[msg.ID]",
  "do c.inFlightMutex.Unlock()",
  "assign c.inFlightMessages[msg.ID] = msg",
  "do c.inFlightPQ.Push(msg)",
  "do c.inFlightMutex.Unlock()"] : List String) := by decide

/-- audit A3 / fix F48 (/repo 88fd245, committed: ONLY this shape is accepted, audit B12) — `pushInFlightMessage` inserts
into map AND heap in one critical section and neither caller pushes the heap again (`ChanMicroT` with `fixed = true`, the
shape `Props.C04Micro.scan_complete_micro_fixed` is about). The pre-F48 shape (two critical sections: `ChanMicroT` with
`fixed = false`, `scan_complete_micro_false`) and every mixture (no heap push at all, or two) break this tie. -/
theorem inflightPushShape_eq :
    "do c.inFlightPQ.Push(msg)" ∈ Nsq.Gen.Chan.pushInFlight ∧ "do c.addToInFlightPQ(msg)" ∉ Nsq.Gen.Chan.startInFlight ∧
      "do c.addToInFlightPQ(msg)" ∉ Nsq.Gen.Chan.touchMessage := by decide

/-- C01 (seeded C01-m5): the channel's disk queue accepts records up to max-msg-size + 26 (`minValidMsgLength`: timestamp, attempts, id) — every body the front ends accept fits when the message overflows to the channel's disk (model: `enqueue` never refuses on a durable channel). -/
theorem chanBackendNew_eq : Nsq.Gen.Chan.chanBackendNew = ([
  "assign c.backend = newDummyBackendQueue()",
  "assign c.backend = diskqueue.New( backendName, nsqd.getOpts().DataPath, nsqd.getOpts().MaxBytesPerFile, int32(minValidMsgLength), int32(nsqd.getOpts().MaxMsgSize)+minValidMsgLength, nsqd.getOpts().SyncEvery, nsqd.getOpts().SyncTimeout, dqLogf, )"] : List String) := by decide

/-- C01: the same bound for the topic's disk queue. -/
theorem topicBackendNew_eq : Nsq.Gen.Chan.topicBackendNew = ([
  "assign t.backend = newDummyBackendQueue()",
  "assign t.backend = diskqueue.New( topicName, nsqd.getOpts().DataPath, nsqd.getOpts().MaxBytesPerFile, int32(minValidMsgLength), int32(nsqd.getOpts().MaxMsgSize)+minValidMsgLength, nsqd.getOpts().SyncEvery, nsqd.getOpts().SyncTimeout, dqLogf, )"] : List String) := by decide

/-- C01 (seeded C01-m6): `queueScanLoop` replaces its cached channel list unconditionally at every refresh tick (model: `scanInFlight` / `scanDeferred` are enabled on every existing channel). -/
theorem scanRefresh_eq : Nsq.Gen.Chan.scanRefresh = ([
  "assign channels := n.channels()",
  "do n.resizePool(len(channels), workCh, responseCh, closeCh)",
  "assign channels = n.channels()",
  "do n.resizePool(len(channels), workCh, responseCh, closeCh)"] : List String) := by decide

/-- C03 (seeded C03-m5): when the topic pump leaves its pre-start loop (which swallows pause signals) it arms its sources only if the topic is not paused (model: `pumpTopic` is refused while `paused`, whenever the pause arrived). -/
theorem topicPumpArm_eq : Nsq.Gen.Chan.topicPumpArm = ([
  "do <-t.pauseChan",
  "do <-t.startChan",
  "if len(chans) > 0 && !t.IsPaused()",
  "do <-t.pauseChan"] : List String) := by decide

/-- C13 (seeded C13-m6): `GetStats` skips (`continue`) a topic that lacks the filtered channel and goes on with the next one (model `filterSnap`: a filter of the whole snapshot, `render_agree`). -/
theorem statsFilter_eq : Nsq.Gen.Chan.statsFilter = ([
  "assign val, exists := n.topicMap[topic]",
  "stmt return stats",
  "assign val, exists := t.channelMap[channel]",
  "assign realChannels = []*Channel{val}",
  "branch continue",
  "stmt return stats"] : List String) := by decide

/-- C03 (output buffer, model `Nsq.Model.Pump`): the pump's three-way arming at the head of its loop (not ready: queue cases and flusher off + forced `Flush`, `flushed = true`; flushed: flusher off; else flusher = ticker), the flusher case (`Flush`, `flushed = true`), the one-shot `subEventChan` / `identifyEventChan` (set to nil when taken), the ticker replaced only when `OutputBufferTimeout > 0`, the heartbeat through `Send`, `flushed = false` after a message was written. -/
theorem pumpFlush_eq : Nsq.Gen.Chan.pumpFlush = ([
  "assign outputBufferTicker := time.NewTicker(client.OutputBufferTimeout)",
  "assign heartbeatChan := heartbeatTicker.C",
  "assign flushed := true",
  "if subChannel == nil || !client.IsReadyForMessages()",
  "assign memoryMsgChan = nil",
  "assign backendMsgChan = nil",
  "assign flusherChan = nil",
  "assign err = client.Flush()",
  "assign flushed = true",
  "if flushed",
  "assign memoryMsgChan = subChannel.memoryMsgChan",
  "assign backendMsgChan = subChannel.backend.ReadChan()",
  "assign flusherChan = nil",
  "assign memoryMsgChan = subChannel.memoryMsgChan",
  "assign backendMsgChan = subChannel.backend.ReadChan()",
  "assign flusherChan = outputBufferTicker.C",
  "do <-flusherChan",
  "assign err = client.Flush()",
  "assign flushed = true",
  "do <-client.ReadyStateChan",
  "assign subEventChan = nil",
  "assign identifyEventChan = nil",
  "do outputBufferTicker.Stop()",
  "if identifyData.OutputBufferTimeout > 0",
  "assign outputBufferTicker = time.NewTicker(identifyData.OutputBufferTimeout)",
  "assign heartbeatChan = nil",
  "if identifyData.HeartbeatInterval > 0",
  "assign heartbeatChan = heartbeatTicker.C",
  "do <-heartbeatChan",
  "assign err = p.Send(client, frameTypeResponse, heartbeatBytes)",
  "assign flushed = false",
  "do outputBufferTicker.Stop()"] : List String) := by decide

/-- C03 (output buffer): `protocolV2.Send` writes the frame under `writeLock` and flushes iff it is not a message frame (model `respond` / `heartbeat` flush, `recv` does not). -/
theorem sendFlush_eq : Nsq.Gen.Chan.sendFlush = ([
  "do client.writeLock.Lock()",
  "assign _, err := protocol.SendFramedResponse(client.Writer, frameType, data)",
  "do client.writeLock.Unlock()",
  "if frameType != frameTypeMessage",
  "assign err = client.Flush()",
  "do client.writeLock.Unlock()"] : List String) := by decide

/-- C03 (seeded C03-m7): `Topic.doPause` stores the flag and then notifies the pump through a BLOCKING select — only the arms `pauseChan <- 1` and `<-exitChan`, no `default:` (a row `select-default` would appear here): `Pause()` / `UnPause()` return only when the pump has taken the notification (model: `pauseTopic` is one atomic step; behaviourally: leg `busypause`, corpus/C03/busy_pause.ops). -/
theorem topicDoPauseSelect_eq : Nsq.Gen.Chan.topicDoPauseSelect = ([
  "do atomic.StoreInt32(&t.paused, 1)",
  "do atomic.StoreInt32(&t.paused, 0)",
  "send t.pauseChan <- 1",
  "do <-t.exitChan"] : List String) := by decide

end Nsq.Tie.Chan
