import Nsq.Gen.PubCounts
/-! Tie (regenerated facts) for `Nsq.Model.PubCounts` (C13, producers in `/stats`, audit B26): the statement
sequence of the `pub_counts` loop of `clientV2.Stats` and of `clientV2.PublishedMessage`, re-extracted from the current
tree by tools/go2lean (spec specs/e2_pubcounts.json) and compared with the expected tables. -/
namespace Nsq.Tie.PubCounts

/-- the loop of `clientV2.Stats(topicName)` over `c.pubCounts`, under `metaLock.RLock`: skip (`continue`) a key other
than a non-empty filter, append `(topic, count)`, then leave the loop ONLY when a filter was given (fix F49 = /repo
6fb5d96, committed: `Nsq.Model.PubCounts.pubCountsOf true`, `Props.C13Pub.pub_counts_complete_fixed`). The shape before
F49 — the unconditional `break` (`pubCountsOf false`, `pub_counts_full_false_with_break`) — is no longer accepted (audit
B12): with F49 reverted this tie breaks and `TestVerifE2PubCounts` reports `stats-pubcounts-break` (listed `fixed`) as a
VIOLATION with the publish script. Nothing else is accepted either (a `continue` in place of the `break`, no `break` at
all, another condition: the theorem fails and the model has to be looked at again). -/
def statsLoopF49 : List String := [
      "do c.metaLock.RLock()",
      "assign pubCounts := make([]PubCount, 0, len(c.pubCounts))",
      "range c.pubCounts",
      "if len(topicName) > 0 && topic != topicName",
      "branch continue",
      "assign pubCounts = append(pubCounts, PubCount{ Topic: topic, Count: count, })",
      "if len(topicName) > 0",
      "branch break",
      "do c.metaLock.RUnlock()",
      "stmt return stats"]

theorem statsPubCounts_eq : Nsq.Gen.PubCounts.statsPubCounts = statsLoopF49 := by decide

/-- COMPUTED: the `fixed` parameter of `Nsq.Model.PubCounts.pubCountsOf` for this tree
(`Props.C13Pub.pub_counts_full_this_tree`) -/
def treeFixed : Bool := Nsq.Gen.PubCounts.statsPubCounts == statsLoopF49

theorem tree_fixed : treeFixed = true := by decide

/-- `clientV2.PublishedMessage(topic, count)`: `c.pubCounts[topic] += count` under `metaLock` (model `publish`). -/
theorem publishedMessage_eq : Nsq.Gen.PubCounts.publishedMessage = ([
  "do c.metaLock.Lock()",
  "assign c.pubCounts[topic] += count",
  "do c.metaLock.Unlock()"] : List String) := by decide

/-- the publish commands call it (PUB and DPUB with 1, MPUB with `len(messages)`: `Nsq.Tie.Chan` / E3 facts), and it
is the only writer of the map (`NewClientV2` makes it inside the struct literal). -/
theorem publishedMessageCallers_eq :
    Nsq.Gen.PubCounts.publishedMessageCallers = (["protocolV2.DPUB", "protocolV2.MPUB", "protocolV2.PUB"] : List String) := by
  decide

theorem pubCountsWrites_eq :
    Nsq.Gen.PubCounts.pubCountsWrites = ([("clientV2.PublishedMessage", "store")] : List (String × String)) := by decide

end Nsq.Tie.PubCounts
