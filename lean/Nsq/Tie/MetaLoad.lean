import Nsq.Gen.MetaFacts
import Nsq.Model.MetaLoad
/-!
Tie (regenerated facts) for the round-6 part of C06 (`Nsq.Model.MetaLoad`): the name predicate, the control
flow of `LoadMetadata` / `readOrEmpty`, the error returns of `writeSyncFile` / `PersistMetadata`, the dropped
error in the pause handlers, `dirlock.Lock`, and the fatal exits of apps/nsqd `Start`, re-extracted from the
current tree on every run (`tools/go2lean` kinds `regex`, `stmts`, `skeleton`, `stmtseq`).

The skeleton facts are textual (a harmless rewrite of these functions breaks them and asks for a look); the
same behaviour is checked semantically by the correspondence leg `TestVerifMetaLoad` (harness/meta/load_test.go),
which is the tie that survives refactors.
-/
namespace Nsq.Tie.MetaLoad
open Nsq.Gen.MetaFacts Nsq.Model.MetaLoad

/-- `validName` is `Names.isValidName`, the automaton of exactly this regular expression
(`Proofs.Names.isValidName_iff`: it accepts the grammar `[.a-zA-Z0-9_-]+(#ephemeral)?`, 1..64 bytes) … -/
theorem regex_literal : nameRegex = Nsq.Model.Names.regexLiteral := rfl

/-- … behind the length test 1..64, and both exported predicates are that function. -/
theorem name_guard :
    nameLen = ["if len(name) > 64 || len(name) < 1", "return return validTopicChannelNameRegex.MatchString(name)"] ∧
    validTopicName = ["return return isValidName(name)"] ∧ validChannelName = ["return return isValidName(name)"] :=
  ⟨rfl, rfl, rfl⟩

/-- the model's length bound is the one in the source -/
example : validName (String.ofList (List.replicate 64 'x')) = true ∧ validName (String.ofList (List.replicate 65 'x')) = false ∧
    validName "" = false := by decide

/-- `ephName`: a topic is ephemeral iff its name ends in `#ephemeral` (`NewTopic`; `NewChannel` has the same test
inside its struct literal — the white-box `mem=` answer of the correspondence leg shows both flags). -/
theorem ephemeral_by_suffix : newTopicEph = ["if strings.HasSuffix(topicName, \"#ephemeral\")"] := rfl

/-- `readOrEmpty`: `ReadFile`; not-exist ⇒ `(nil, nil)` (`FileContent.absent`), any other error ⇒ error
(`FileContent.unreadable`), else the bytes — an existing empty file gives a non-nil empty slice
(`FileContent.present`). -/
theorem readOrEmpty_flow :
    readOrEmptySkel = ["data, err := os.ReadFile(fn)", "if err != nil", ".if !os.IsNotExist(err)",
      "..return nil, fmt.Errorf(\"failed to read metadata from %s - %s\", fn, err)", "return data, nil"] := rfl

/-- `LoadMetadata` (`load` / `loadRaw`): read error ⇒ refuse; `data == nil` ⇒ fresh; `Unmarshal` error ⇒ refuse;
per topic: invalid name ⇒ `continue` (before `GetTopic`, so its channels are skipped with it), `GetTopic`,
`Pause` only if `t.Paused`, per channel: invalid name ⇒ `continue`, `GetChannel`, `Pause` only if `c.Paused`;
`Start`; nothing is persisted, nothing else can fail. -/
theorem loadMetadata_flow :
    loadMetadataSkel = [
      "atomic.StoreInt32(&n.isLoading, 1)",
      "defer atomic.StoreInt32(&n.isLoading, 0)",
      "fn := newMetadataFile(n.getOpts())",
      "data, err := readOrEmpty(fn)",
      "if err != nil",
      ".return err",
      "if data == nil",
      ".return nil",
      "var m Metadata",
      "err = json.Unmarshal(data, &m)",
      "if err != nil",
      ".return fmt.Errorf(\"failed to parse metadata in %s - %s\", fn, err)",
      "range m.Topics",
      ".if !protocol.IsValidTopicName(t.Name)",
      "..continue",
      ".topic := n.GetTopic(t.Name)",
      ".if t.Paused",
      "..topic.Pause()",
      ".range t.Channels",
      "..if !protocol.IsValidChannelName(c.Name)",
      "...continue",
      "..channel := topic.GetChannel(c.Name)",
      "..if c.Paused",
      "...channel.Pause()",
      ".topic.Start()",
      "return nil"] := rfl

/-- apps/nsqd `Start`: a `LoadMetadata` error is fatal (the process exits, nothing is written: `LoadRes.refuse`),
then `PersistMetadata` (the fixed point of `persist_after_load_fixed_point`), its error is fatal too. -/
theorem start_refuses_on_load_error :
    mainStartSkel = [
      "err := p.nsqd.LoadMetadata()",
      "if err != nil",
      ".logFatal(\"failed to load metadata - %s\", err)",
      "err = p.nsqd.PersistMetadata()",
      "if err != nil",
      ".logFatal(\"failed to persist metadata - %s\", err)",
      "go func() { err := p.nsqd.Main() if err != nil { p.Stop() os.Exit(1) } }()",
      "return nil"] := rfl

/-- `writeSyncFile` (`POutcome.openFails | writeFails | syncFails`): open error ⇒ return before anything is written;
write error ⇒ `Sync` skipped; the file is closed and the error returned in every case. -/
theorem writeSyncFile_errors :
    writeSyncFileSkel = [
      "f, err := os.OpenFile(fn, os.O_WRONLY|os.O_CREATE|os.O_TRUNC, 0600)",
      "if err != nil",
      ".return err",
      "_, err = f.Write(data)",
      "if err == nil",
      ".err = f.Sync()",
      "f.Close()",
      "return err"] := rfl

/-- `PersistMetadata` (`persistOnce`): the temporary name is `<file>.<rand.Int()>.tmp` (`tmpName`); a
`writeSyncFile` error returns BEFORE the rename (`nsqd.dat` untouched); a rename error is returned
(`POutcome.renameFails`); only the temporary file is ever opened for writing. -/
theorem persistMetadata_errors :
    persistMetadataSkel = [
      "fileName := newMetadataFile(n.getOpts())",
      "data, err := json.Marshal(n.GetMetadata(false))",
      "if err != nil",
      ".return err",
      "tmpFileName := fmt.Sprintf(\"%s.%d.tmp\", fileName, rand.Int())",
      "err = writeSyncFile(tmpFileName, data)",
      "if err != nil",
      ".return err",
      "err = os.Rename(tmpFileName, fileName)",
      "if err != nil",
      ".return err",
      "return nil"] := rfl

/-- the pause handlers call `PersistMetadata` as a statement: its error is dropped (`pauseAnswer` ignores it) -/
theorem pause_handlers_drop_persist_error :
    pauseTopicPersist = ["do s.nsqd.PersistMetadata()"] ∧ pauseChannelPersist = ["do s.nsqd.PersistMetadata()"] :=
  ⟨rfl, rfl⟩

/-- `dirlock.Lock` (`dirlockNew`): `os.Open(dir)` error ⇒ error (`PathKind.missing`); nothing checks that the path is
a directory (`PathKind.regularFile` ⇒ locked); `flock(LOCK_EX|LOCK_NB)` error ⇒ error (`held`). -/
theorem dirlock_flow :
    dirlockLockSkel = [
      "f, err := os.Open(l.dir)",
      "if err != nil",
      ".return err",
      "l.f = f",
      "err = syscall.Flock(int(f.Fd()), syscall.LOCK_EX|syscall.LOCK_NB)",
      "if err != nil",
      ".return fmt.Errorf(\"cannot flock directory %s - %s (possibly in use by another instance of nsqd)\", l.dir, err)",
      "return nil"] := rfl

end Nsq.Tie.MetaLoad
