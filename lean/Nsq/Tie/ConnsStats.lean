import Nsq.Gen.ConnsFacts
/-! Tie (C10 `no_500`, C09 "other clients are unaffected"): `NSQD.GetStats` (and `tcpServer.Close`) assert
the values of `tcpServer.conns` to be client objects; `tcpServer.Handle` must therefore store nothing else.

Lesson of /repo b3a615a → 919b356: an intermediate fix registered the bare `net.Conn` of a connection that
had not yet sent its protocol magic in `conns`; `GET /stats` panicked (→ 500) while such a connection
existed. These facts pin the producer side to what the consumer side asserts; the behavioural half is the
half-open leg `harness/e3/halfopen_test.go` (real listener, real /stats, every format and filter). -/
namespace Nsq.Tie.ConnsStats
open Nsq.Gen.ConnsFacts

/-- `Handle` touches `conns` three times: ONE `Store`, of the object `prot.NewClient(conn)` returned, after
the magic has been read, and the `Delete`s — no other value ever enters the map through `Handle`. -/
theorem handle_stores_the_client_object_only :
    handleConns = ["assign prot = &protocolV2{nsqd: p.nsqd}",
                   "assign client := prot.NewClient(conn)",
                   "do p.conns.Store(conn.RemoteAddr(), client)",
                   "do p.conns.Delete(conn.RemoteAddr())"] ∧
    storeArgs = [["conn.RemoteAddr()", "client"]] := by decide

/-- that object is a `*clientV2` (which implements both `nsqd.Client` — `Type`, `Stats` — and
`protocol.Client` — `Close`; the compiler checks the method sets) -/
theorem newClient_is_clientV2 : newClientBody = ["stmt return newClientV2(clientID, conn, p.nsqd)"] := by decide

/-- the two readers of the map and the types they assert (the first extracted row of each is the whole
`Range(func…)` call, whose text is not pinned; the row after it is the assertion inside the closure) -/
theorem readers_assert_client :
    getStatsConns.drop 1 = ["assign c := v.(Client)"] ∧
    closeConns.drop 1 = ["do v.(protocol.Client).Close()"] := by decide

end Nsq.Tie.ConnsStats
