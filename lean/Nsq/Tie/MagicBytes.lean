import Nsq.Tie.Proto
import Nsq.Tie.RegistryProto
import Nsq.Model.ProtoV2
import Nsq.Model.RegistryProto
/-!
Audit round 7, B28: the text ties of the two protocol magics (`Tie.Proto.handleMagic_eq`,
`Tie.RegistryProto.magic_cases`) pinned a *string* and the extractor used to collapse the two leading
blanks of that string to one, so the pinned text `" V2"` was not what the source says and was connected
to the model's bytes by nothing. Here the (now faithful) literal is tied to the model constants.
-/
namespace Nsq.Tie.MagicBytes

def caseOf (bytes : List UInt8) : String :=
  "case \"" ++ String.ofList (bytes.map (fun b => Char.ofNat b.toNat)) ++ "\""

/-- nsqd: the `case` of `tcpServer.Handle`'s protocol switch is the model's four magic bytes `␠␠V2` -/
theorem nsqd_magic_is_model_magic :
    Nsq.Gen.Proto.handleMagic[2]? = some (caseOf Nsq.Model.ProtoV2.magicV2) := by decide

/-- nsqlookupd: likewise `␠␠V1` -/
theorem lookupd_magic_is_model_magic :
    Nsq.Gen.LookupdProto.magicCases[1]? = some (caseOf Nsq.Model.RegistryProto.magicV1) := by decide

end Nsq.Tie.MagicBytes
