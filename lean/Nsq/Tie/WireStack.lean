import Nsq.Tie.WireStackTree
import Nsq.Model.WireStack
/-! Tie (C07 / C11, audit A2): which transport `SetOutputBuffer` re-creates the writer on, and which upgrades drop
`c.flateWriter`.

Regenerated from nsqd/client_v2.go + protocol_v2.go on every run (`specs/e1_stack.json`). F30 is
committed (/repo d6aa4e3), so ONLY its shape of `SetOutputBuffer` is accepted (audit B12): `c.outputDest`, which every
`Upgrade*` sets to the very writer it installs. The shape before it (`bufio.NewWriterSize(c.Conn, …)`:
the raw connection; `Props.C07Stack.second_identify_leaks_cleartext`) breaks this tie, and the replay
corpus/C07/fixed/second_identify.stack then reports `second-identify-cleartext` as a VIOLATION.

Round 11 (fix review, F30b): F30b is committed (/repo d424240), so ONLY its shape of `UpgradeTLS` is accepted:
`c.flateWriter = nil` in front of the new writer. The shape of d6aa4e3 alone (`tlsF30`: `UpgradeTLS` leaves
`c.flateWriter`; `Props.C07Stack.output_on_negotiated_transport_k_false`, finding `tls-after-deflate-garbled`, listed
fixed) breaks `upgrades_shape`, `flate_writers` and `tree_is_F30b`, and the replay
corpus/C07/fixed/tls_after_deflate.stack then reports `tls-after-deflate-garbled` as a VIOLATION. `tree` is still
computed from the facts (the driver and the harness's expectations follow it, so a reverted tree is replayed by the
model of THAT tree); `tree_is_F30b` decides it and discharges the hypothesis of `Props.C07Stack.this_tree_k_full`.
The behavioural half is the white-box leg `stack` (harness/e1/reident_test.go) and the multi-IDENTIFY class of the
end-to-end oracle. -/
namespace Nsq.Tie.WireStack
open Nsq.Gen.WireStack Nsq.Model.WireStack

/-- `SetOutputBuffer`: flush, then a new writer on `outputDest` (F30) — not on the raw connection (`setUnfixed`) -/
theorem setOutputBuffer_shape : setOutputBufferWriter = setFixed := by decide

theorem tree_fixed : treeFixed = true := by decide

/-- the three upgrades install a new writer on a new transport; each records that very transport in `outputDest`
(so `SetOutputBuffer` re-uses it), nothing else assigns `outputDest`. TLS always wraps the RAW connection
(`tls.Server(c.Conn, …)`), snappy / deflate wrap the current TLS session if there is one, the raw connection
otherwise. `UpgradeDeflate` stores its writer in `c.flateWriter`, `UpgradeSnappy` drops it (F30), `UpgradeTLS` drops it
(F30b, /repo d424240 — the only accepted shape). -/
theorem upgrades_shape :
    upgradeTLSWriter = tlsF30b ∧
    upgradeSnappyWriter = ["assign conn := c.Conn",
                           "if c.tlsConn != nil",
                           "assign conn = c.tlsConn",
                           "assign sw := snappy.NewWriter(conn)",
                           "assign c.flateWriter = nil",
                           "assign c.outputDest = sw",
                           "assign c.Writer = bufio.NewWriterSize(sw, c.OutputBufferSize)"] ∧
    upgradeDeflateWriter = ["assign conn := c.Conn",
                            "if c.tlsConn != nil",
                            "assign conn = c.tlsConn",
                            "assign fw, _ := flate.NewWriter(conn, level)",
                            "assign c.flateWriter = fw",
                            "assign c.outputDest = fw",
                            "assign c.Writer = bufio.NewWriterSize(fw, c.OutputBufferSize)"] ∧
    destWrites = [("UpgradeTLS", "assign"), ("UpgradeDeflate", "assign"), ("UpgradeSnappy", "assign")] := by
  decide

/-- `c.flateWriter` is assigned by the three upgrades only (all three: F30b), and the list agrees with the shape of
`UpgradeTLS` -/
theorem flate_writers :
    upgradeTLSWriter = tlsF30b ∧
      flateWrites = [("UpgradeTLS", "assign"), ("UpgradeDeflate", "assign"), ("UpgradeSnappy", "assign")] := by
  decide

/-- `Flush`: the buffered writer, then ALWAYS the flate writer if there is one (the model's `KConn.mark`) -/
theorem flush_shape :
    flushBody = ["assign err := c.Writer.Flush()", "if c.flateWriter != nil", "return return c.flateWriter.Flush()"] := by
  decide

/-- exactly one tree: d6aa4e3 + F30b (/repo d424240) -/
theorem tree_is_F30b : tree = treeF30b := by decide

/-- the shape before F30b is a different one: a tree reverted to d6aa4e3 fails the three facts above -/
theorem tls_shapes_differ : tlsF30 ≠ tlsF30b ∧ treeF30 ≠ treeF30b := by decide

/-- the model's alphabet is complete: `client.Writer` is assigned by these four functions only -/
theorem writer_writers :
    writerWrites = [("SetOutputBuffer", "assign"), ("UpgradeTLS", "assign"), ("UpgradeDeflate", "assign"),
                    ("UpgradeSnappy", "assign")] := by decide

/-- IDENTIFY is guarded by the connection state alone: it is accepted again before SUB (the model's
`subscribed` guard), also after an upgrade -/
theorem identify_guard : identifyGuard = ["if atomic.LoadInt32(&client.State) != stateInit"] := by decide

end Nsq.Tie.WireStack
