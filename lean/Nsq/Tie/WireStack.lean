import Nsq.Tie.WireStackTree
import Nsq.Model.WireStack
/-! Tie (C07 / C11, audit A2): which transport `SetOutputBuffer` re-creates the writer on, and which upgrades drop
`c.flateWriter`.

Regenerated from nsqd/client_v2.go + protocol_v2.go on every run (`specs/e1_stack.json`). F30 is
committed (/repo d6aa4e3), so ONLY its shape of `SetOutputBuffer` is accepted (audit B12): `c.outputDest`, which every
`Upgrade*` sets to the very writer it installs. The shape before it (`bufio.NewWriterSize(c.Conn, …)`:
the raw connection; `Props.C07Stack.second_identify_leaks_cleartext`) breaks this tie, and the replay
corpus/C07/fixed/second_identify.stack then reports `second-identify-cleartext` as a VIOLATION.

Round 11 (fix review, F30b): `UpgradeTLS` is accepted in exactly TWO shapes — d6aa4e3 (it leaves `c.flateWriter`
alone: `Props.C07Stack.output_on_negotiated_transport_k_false`, open finding `tls-after-deflate-garbled`) and
d6aa4e3 + F30b (`c.flateWriter = nil` in front of the new writer). `tree` is computed from the facts and the driver,
the harness's expectations and `Props.C07Stack.this_tree_k` follow it.
**After F30b is committed to /repo**: in `upgrades_shape` and `flate_writers` drop the first disjunct (`tlsF30`, the
list without `UpgradeTLS`), replace `tree_known` by `tree_is_F30b : tree = treeF30b := by decide`, and discharge the
hypothesis of `Props.C07Stack.this_tree_k_full` with it.
The behavioural half is the white-box leg `stack` (harness/e1/reident_test.go) and the multi-IDENTIFY class of the
end-to-end oracle. -/
namespace Nsq.Tie.WireStack
open Nsq.Gen.WireStack Nsq.Model.WireStack

/-- `SetOutputBuffer`: flush, then a new writer on `outputDest` (F30) — not on the raw connection (`setUnfixed`) -/
theorem setOutputBuffer_shape : setOutputBufferWriter = setFixed := by decide

theorem tree_fixed : treeFixed = true := by decide

/-- the three upgrades install a new writer on a new transport; each records that very transport in `outputDest`
(so `SetOutputBuffer` re-uses it), nothing else assigns `outputDest`. TLS always wraps the RAW connection
(`tls.Server(c.Conn, …)`), snappy / deflate wrap the current TLS session if there is one, the raw connection
otherwise. `UpgradeDeflate` stores its writer in `c.flateWriter`, `UpgradeSnappy` drops it, `UpgradeTLS` leaves it
(d6aa4e3) or drops it (F30b). -/
theorem upgrades_shape :
    (upgradeTLSWriter = tlsF30 ∨ upgradeTLSWriter = tlsF30b) ∧
    upgradeSnappyWriter = ["assign conn := c.Conn",
                           "if c.tlsConn != nil",
                           "assign conn = c.tlsConn",
                           "assign sw := snappy.NewWriter(conn)",
                           "assign c.flateWriter = nil",
                           "assign c.outputDest = sw",
                           "assign c.Writer = bufio.NewWriterSize(sw, c.OutputBufferSize)"] ∧
    upgradeDeflateWriter = ["assign conn := c.Conn",
                            "if c.tlsConn != nil",
                            "assign conn = c.tlsConn",
                            "assign fw, _ := flate.NewWriter(conn, level)",
                            "assign c.flateWriter = fw",
                            "assign c.outputDest = fw",
                            "assign c.Writer = bufio.NewWriterSize(fw, c.OutputBufferSize)"] ∧
    destWrites = [("UpgradeTLS", "assign"), ("UpgradeDeflate", "assign"), ("UpgradeSnappy", "assign")] := by
  decide

/-- `c.flateWriter` is assigned by the upgrades only, and the list agrees with the shape of `UpgradeTLS` -/
theorem flate_writers :
    (upgradeTLSWriter = tlsF30 ∧ flateWrites = [("UpgradeDeflate", "assign"), ("UpgradeSnappy", "assign")]) ∨
    (upgradeTLSWriter = tlsF30b ∧
      flateWrites = [("UpgradeTLS", "assign"), ("UpgradeDeflate", "assign"), ("UpgradeSnappy", "assign")]) := by
  decide

/-- `Flush`: the buffered writer, then ALWAYS the flate writer if there is one (the model's `KConn.mark`) -/
theorem flush_shape :
    flushBody = ["assign err := c.Writer.Flush()", "if c.flateWriter != nil", "return return c.flateWriter.Flush()"] := by
  decide

/-- exactly the two trees: d6aa4e3 and d6aa4e3 + F30b -/
theorem tree_known : tree = treeF30 ∨ tree = treeF30b := by decide

/-- the model's alphabet is complete: `client.Writer` is assigned by these four functions only -/
theorem writer_writers :
    writerWrites = [("SetOutputBuffer", "assign"), ("UpgradeTLS", "assign"), ("UpgradeDeflate", "assign"),
                    ("UpgradeSnappy", "assign")] := by decide

/-- IDENTIFY is guarded by the connection state alone: it is accepted again before SUB (the model's
`subscribed` guard), also after an upgrade -/
theorem identify_guard : identifyGuard = ["if atomic.LoadInt32(&client.State) != stateInit"] := by decide

end Nsq.Tie.WireStack
