import Nsq.Tie.WireStackTree
import Nsq.Model.WireStack
/-! Tie (C07 / C11, audit A2): which transport `SetOutputBuffer` re-creates the writer on.

Regenerated from nsqd/client_v2.go + protocol_v2.go on every run (`specs/e1_stack.json`). Exactly
two shapes are accepted — the tree before fix F30 (`bufio.NewWriterSize(c.Conn, …)`: the raw
connection) and the tree with it (`c.outputDest`, which every `Upgrade*` sets to the very writer
it installs) — and `treeFixed` says which one the source is; `Props.C07Stack.this_tree` is stated
over `trun treeFixed`. The behavioural half is the white-box leg `stack` (harness/e1/stack_test.go)
and the double-IDENTIFY class of the end-to-end oracle. -/
namespace Nsq.Tie.WireStack
open Nsq.Gen.WireStack

/-- `SetOutputBuffer`: flush, then a new writer on the raw connection (unfixed) or on `outputDest` (F30) -/
theorem setOutputBuffer_shape : setOutputBufferWriter = setUnfixed ∨ setOutputBufferWriter = setFixed := by decide

/-- the three upgrades install a new writer on a new transport; in the fixed tree each records that
very transport in `outputDest` (so `SetOutputBuffer` re-uses it), nothing else assigns `outputDest`, and
`UpgradeSnappy` drops a deflate writer installed by an earlier IDENTIFY (`Flush` would keep flushing it) -/
theorem upgrades_shape :
    (treeFixed = false ∧
      upgradeTLSWriter = ["assign c.Writer = bufio.NewWriterSize(c.tlsConn, c.OutputBufferSize)"] ∧
      upgradeSnappyWriter = ["assign c.Writer = bufio.NewWriterSize(snappy.NewWriter(conn), c.OutputBufferSize)"] ∧
      upgradeDeflateWriter = ["assign fw, _ := flate.NewWriter(conn, level)",
                              "assign c.Writer = bufio.NewWriterSize(fw, c.OutputBufferSize)"] ∧
      destWrites = []) ∨
    (treeFixed = true ∧
      upgradeTLSWriter = ["assign c.outputDest = c.tlsConn",
                          "assign c.Writer = bufio.NewWriterSize(c.tlsConn, c.OutputBufferSize)"] ∧
      upgradeSnappyWriter = ["assign sw := snappy.NewWriter(conn)",
                             "assign c.flateWriter = nil",
                             "assign c.outputDest = sw",
                             "assign c.Writer = bufio.NewWriterSize(sw, c.OutputBufferSize)"] ∧
      upgradeDeflateWriter = ["assign fw, _ := flate.NewWriter(conn, level)",
                              "assign c.outputDest = fw",
                              "assign c.Writer = bufio.NewWriterSize(fw, c.OutputBufferSize)"] ∧
      destWrites = [("UpgradeTLS", "assign"), ("UpgradeDeflate", "assign"), ("UpgradeSnappy", "assign")]) := by
  decide

/-- the model's alphabet is complete: `client.Writer` is assigned by these four functions only -/
theorem writer_writers :
    writerWrites = [("SetOutputBuffer", "assign"), ("UpgradeTLS", "assign"), ("UpgradeDeflate", "assign"),
                    ("UpgradeSnappy", "assign")] := by decide

/-- IDENTIFY is guarded by the connection state alone: it is accepted again before SUB (the model's
`subscribed` guard), also after an upgrade -/
theorem identify_guard : identifyGuard = ["if atomic.LoadInt32(&client.State) != stateInit"] := by decide

end Nsq.Tie.WireStack
