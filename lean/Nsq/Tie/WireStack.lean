import Nsq.Tie.WireStackTree
import Nsq.Model.WireStack
/-! Tie (C07 / C11, audit A2): which transport `SetOutputBuffer` re-creates the writer on.

Regenerated from nsqd/client_v2.go + protocol_v2.go on every run (`specs/e1_stack.json`). F30 is
committed (/repo d6aa4e3), so ONLY its shape is accepted (audit B12): `c.outputDest`, which every
`Upgrade*` sets to the very writer it installs. The shape before it (`bufio.NewWriterSize(c.Conn, …)`:
the raw connection; `Props.C07Stack.second_identify_leaks_cleartext`) breaks this tie, and the replay
corpus/C07/fixed/second_identify.stack then reports `second-identify-cleartext` as a VIOLATION.
`treeFixed` is computed from the facts, `tree_fixed : treeFixed = true`, and
`Props.C07Stack.this_tree_full` is stated over `trun treeFixed`. The behavioural half is the white-box leg `stack` (harness/e1/stack_test.go)
and the double-IDENTIFY class of the end-to-end oracle. -/
namespace Nsq.Tie.WireStack
open Nsq.Gen.WireStack

/-- `SetOutputBuffer`: flush, then a new writer on `outputDest` (F30) — not on the raw connection (`setUnfixed`) -/
theorem setOutputBuffer_shape : setOutputBufferWriter = setFixed := by decide

theorem tree_fixed : treeFixed = true := by decide

/-- the three upgrades install a new writer on a new transport; in the fixed tree each records that
very transport in `outputDest` (so `SetOutputBuffer` re-uses it), nothing else assigns `outputDest`, and
`UpgradeSnappy` drops a deflate writer installed by an earlier IDENTIFY (`Flush` would keep flushing it) -/
theorem upgrades_shape :
    upgradeTLSWriter = ["assign c.outputDest = c.tlsConn",
                        "assign c.Writer = bufio.NewWriterSize(c.tlsConn, c.OutputBufferSize)"] ∧
    upgradeSnappyWriter = ["assign sw := snappy.NewWriter(conn)",
                           "assign c.flateWriter = nil",
                           "assign c.outputDest = sw",
                           "assign c.Writer = bufio.NewWriterSize(sw, c.OutputBufferSize)"] ∧
    upgradeDeflateWriter = ["assign fw, _ := flate.NewWriter(conn, level)",
                            "assign c.outputDest = fw",
                            "assign c.Writer = bufio.NewWriterSize(fw, c.OutputBufferSize)"] ∧
    destWrites = [("UpgradeTLS", "assign"), ("UpgradeDeflate", "assign"), ("UpgradeSnappy", "assign")] := by
  decide

/-- the model's alphabet is complete: `client.Writer` is assigned by these four functions only -/
theorem writer_writers :
    writerWrites = [("SetOutputBuffer", "assign"), ("UpgradeTLS", "assign"), ("UpgradeDeflate", "assign"),
                    ("UpgradeSnappy", "assign")] := by decide

/-- IDENTIFY is guarded by the connection state alone: it is accepted again before SUB (the model's
`subscribed` guard), also after an upgrade -/
theorem identify_guard : identifyGuard = ["if atomic.LoadInt32(&client.State) != stateInit"] := by decide

end Nsq.Tie.WireStack
