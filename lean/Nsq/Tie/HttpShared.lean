import Nsq.Gen.HttpShared
/-!
# Tie (C10, concurrently served requests): the response path shares no mutable package-level state

`Nsq.Model.HttpFull.serve` answers a request as a function of (options, broker, request);
`Nsq.Props.C10Conc.concurrent_equals_alone` needs the hypothesis that the rendered answer of a request lives
in a request-local slot. Regenerated fact (kind `pkgvars` of `tools/go2lean/kind_pkgvars.go`, identifiers
resolved by go/types): every package-level variable — of the package itself or of an imported one — that

* any function of `internal/http_api` (`Decorate`, `V1`, `PlainText`, `RespondV1`, `Log`, the NotFound /
  MethodNotAllowed / Panic handlers, `NewReqParams`, `GetTopicChannelArgs`, `Serve`, the gzip wrapper, the
  client helpers; closed under static calls inside the package), or
* any function declared in `nsqd/http.go` (`newHTTPServer`, `ServeHTTP`, every handler, `printStats`,
  `getOptByCfgName`; closed under calls inside that file)

refers to, with its type and the kind of use. `Harmless` is the semantic core: the reference reads a value
of a type that cannot carry bytes from one request to another (an error sentinel, a scalar), or it looks a
key up in / ranges over a table of scalars that NO function of the package assigns to, takes the address of
or calls a method on (`…Mutators`). A `sync.Pool`, a `*bytes.Buffer`, a map or slice that somebody writes, a
method call on a package-level object: not harmless — the tie breaks and says which variable.

The seeded defect C10-m9 adds the rows `(RespondV1, marshalJSON, http_api.encodeBufPool, sync.Pool, call:Get)`
/ `call:Put` (example below). The behavioural half is the concurrency leg `harness/e3/concur_*`.
Not covered: state below the package level of the standard library (`encoding/json`'s own caches,
`net/http`'s buffers) — trusted; struct fields reachable from `*httpServer` / `*NSQD` (the broker — that is the
state the model does have, guarded by its own locks: C01–C08).

`lookupd_handlers_share_nothing` / `admin_handlers_share_nothing` state the same for `nsqlookupd/http.go` and
`nsqadmin/http.go`, which use the same `http_api` envelope (C15 / C18 are other properties; the facts live
here because the shared code is C10's).
-/
namespace Nsq.Tie.HttpShared
open Nsq.Gen.HttpShared

/-- types whose values cannot hand bytes of one response to another: sentinels and scalars -/
def scalarType (t : String) : Bool :=
  t ∈ ["error", "string", "bool", "int", "int32", "int64", "uint", "uint16", "uint32", "uint64", "float64",
       "time.Duration", "*regexp.Regexp"]

/-- read-only tables of scalars -/
def tableType (t : String) : Bool :=
  t ∈ ["map[string]bool", "map[string]string", "map[string]int", "[]string", "[]int", "[]float64", "[]byte"]

def Harmless (muts : List (String × String × String)) (row : String × String × String × String × String) : Bool :=
  let v := row.2.2.1
  let t := row.2.2.2.1
  let u := row.2.2.2.2
  let unwritten := muts.all (fun m => m.1 != v)
  (u == "value" && scalarType t && unwritten) ||
  ((u == "index" || u == "range") && tableType t && unwritten)

/-- `internal/http_api`: the only package-level variable in reach is the sentinel `net.ErrClosed` (compared in
`Serve`); in particular `RespondV1` / `V1` / `PlainText` / `Decorate` refer to none. -/
theorem response_path_shares_nothing :
    httpApiVars.all (Harmless httpApiVarsMutators) = true ∧
    (httpApiVars.filter (fun r => r.1 ∈ ["RespondV1", "V1", "PlainText", "Decorate", "Log", "LogPanicHandler",
        "LogNotFoundHandler", "LogMethodNotAllowedHandler"])) = [] := by decide

/-- `nsqd/http.go`: the handlers read the sentinel `io.EOF` and look keys up in `boolParams`
(`map[string]bool`), which no function of package nsqd writes. -/
theorem nsqd_handlers_share_nothing :
    nsqdHttpVars.all (Harmless nsqdHttpVarsMutators) = true := by decide

theorem lookupd_handlers_share_nothing :
    lookupdHttpVars.all (Harmless lookupdHttpVarsMutators) = true := by decide

theorem admin_handlers_share_nothing :
    adminHttpVars.all (Harmless adminHttpVarsMutators) = true := by decide

/-! Non-vacuity: the extractor does see package-level variables (the `boolParams` lookups of `doStats`), and
`Harmless` refuses the rows of the seeded defect, a written table and a package-level buffer. -/
example : ("(*httpServer).doStats", "(*httpServer).doStats", "nsqd.boolParams", "map[string]bool", "index") ∈ nsqdHttpVars := by
  decide
example : Harmless [("http_api.encodeBufPool", "marshalJSON", "call:Get")]
    ("RespondV1", "marshalJSON", "http_api.encodeBufPool", "sync.Pool", "call:Get") = false := by decide
example : Harmless [] ("RespondV1", "RespondV1", "http_api.scratch", "*bytes.Buffer", "value") = false := by decide
example : Harmless [("nsqd.boolParams", "init", "assign")]
    ("(*httpServer).doStats", "(*httpServer).doStats", "nsqd.boolParams", "map[string]bool", "index") = false := by decide

end Nsq.Tie.HttpShared
