import Nsq.Gen.GuidLoop
import Nsq.Model.Guid
/-!
Tie of the model `Nsq.Model.Guid.generateID` ("call `NewGUID` until it succeeds; return that id; touch
nothing else") to `Topic.GenerateID` in nsqd/topic.go and to the id factory's other users (audit round 7,
B25: the body of `GenerateID` used to be tied to nothing).

Regenerated facts (tools/go2lean kinds `stmtsx`, `structwrites`, `fielduses` — see kind_stmtsx.go):
* `generateIDBody`  every statement of `GenerateID` with its nesting depth;
* `factoryWrites`   every assignment / inc-dec / address-of of a `guidFactory` field in package nsqd;
* `idFactoryUses`   every mention of `Topic.idFactory` in package nsqd;
* `generateIDCallers…` the statements of the five publish paths that mention `GenerateID`.

The statements below are the *semantic core* (they survive a reworded log line, another sleep length, a
renamed counter); the behaviour itself is checked by the correspondence op `genids` and the two
clock-stepped-back oracles on the real `Topic.GenerateID` (harness/e1/guid_clock_test.go).
-/
namespace Nsq.Tie.GuidLoop
open Nsq.Gen.GuidLoop

abbrev Row := Nat × String × String

def ofKind (b : List Row) (k : String) : List Row := b.filter (fun r => r.2.1 == k)

/-- the row just before the first row of kind `k` -/
def rowBefore : List Row → String → Option Row
  | a :: b :: rest, k => if b.2.1 == k then some a else rowBefore (b :: rest) k
  | _, _ => none

/-- `GenerateID` is one unconditional `for { … }` at the top level … -/
theorem loop_forever : ofKind generateIDBody "for" = [(0, "for", "")] ∧ ofKind generateIDBody "range" = [] := by decide

/-- … whose only exit is `return id.Hex()`, directly under an `if` of the loop body … -/
theorem one_exit : ofKind generateIDBody "return" = [(2, "return", "id.Hex()")] := by decide

/-- … that `if` being `err == nil` on the result of the factory call (model: `if r.2.2 = .none then (r.1, some r.2.1)`) -/
theorem exit_guard : rowBefore generateIDBody "return" = some (1, "if", "err == nil") := by decide

/-- no other way out of / around the loop: no `break`, `goto`, label, `fallthrough`, no goroutine, no `defer`,
no `else` branch -/
theorem no_jump : generateIDBody.filter (fun r => r.2.1 == "break" || r.2.1 == "goto" || r.2.1 == "label" ||
    r.2.1 == "fallthrough" || r.2.1 == "go" || r.2.1 == "defer" || r.2.1 == "else" || r.2.1 == "elseif" ||
    r.2.1 == "func" || r.2.1 == "other") = [] := by decide

/-- the factory is touched exactly once per iteration: `id, err := t.idFactory.NewGUID()`; the only other
mention of `Topic.idFactory` in the package is its construction in `NewTopic` (model: the state is
changed by `newGUID` only; seeded C12-m7 adds `t.idFactory.followClock()`) -/
theorem factory_used_only_by_NewGUID_call : idFactoryUses =
    [("NewTopic", "idFactory: NewGUIDFactory(nsqd.getOpts().ID)"),
     ("(*Topic).GenerateID", "id, err := t.idFactory.NewGUID()")] := by decide

/-- every write of a `guidFactory` field in package nsqd is inside `NewGUID` (whose body is the
translated definition `Tie.Guid.newGUID_eq`) -/
theorem factory_written_only_in_NewGUID :
    factoryWrites.all (fun r => r.1 == "(*guidFactory).NewGUID") = true ∧ factoryWrites.length = 4 := by decide

/-- every accepted message gets its id from `topic.GenerateID()`: TCP PUB, DPUB, MPUB (`readMPUB`, inside
the per-message loop), HTTP /pub, /mpub (text branch, inside the per-line loop; the binary branch goes
through `readMPUB`) -/
theorem publish_paths_call_GenerateID :
    generateIDCallers = [(0, "assign", "msg := NewMessage(topic.GenerateID(), messageBody)")] ∧
    generateIDCallersDPUB = [(0, "assign", "msg := NewMessage(topic.GenerateID(), messageBody)")] ∧
    generateIDCallersMPUB = [(1, "assign", "messages = append(messages, NewMessage(topic.GenerateID(), msgBody))")] ∧
    generateIDCallersHTTP = [(0, "assign", "msg := NewMessage(topic.GenerateID(), body)")] ∧
    generateIDCallersHTTPM = [(2, "assign", "msg := NewMessage(topic.GenerateID(), block)")] := by decide

end Nsq.Tie.GuidLoop
