import Nsq.Gen.ToolsRelay
/-!
Tie of the `Relay` models to apps/nsq_to_nsq, apps/nsq_to_http and go-nsq's `Consumer.handlerLoop`
(regenerated leg): statement skeletons re-extracted from the current tree (log statements dropped) equal the
ones the models were written against; the order facts below are read off the current skeleton.
-/
namespace Nsq.Tie.ToolsRelay
open Nsq.Gen.ToolsRelay

def expected_n2nHandleMessage : List String := [
  "var err error",
  "msgBody := m.Body",
  "if *requireJSONField != \"\" || len(whitelistJSONFields) > 0",
  ".var js map[string]interface{}",
  ".err = json.Unmarshal(msgBody, &js)",
  ".if err != nil",
  "..return nil",
  ".if pass, backoff := ph.shouldPassMessage(js); !pass",
  "..if backoff",
  "...return errors.New(\"backoff\")",
  "..return nil",
  ".msgBody, err = filterMessage(js, msgBody)",
  ".if err != nil",
  "..return err",
  "startTime := time.Now()",
  "switch ph.mode",
  ".case ModeRoundRobin",
  "..counter := atomic.AddUint64(&ph.counter, 1)",
  "..idx := counter % uint64(len(ph.addresses))",
  "..addr := ph.addresses[idx]",
  "..p := ph.producers[addr]",
  "..err = p.PublishAsync(destinationTopic, msgBody, ph.respChan, m, startTime, addr)",
  ".case ModeHostPool",
  "..hostPoolResponse := ph.hostPool.Get()",
  "..p := ph.producers[hostPoolResponse.Host()]",
  "..err = p.PublishAsync(destinationTopic, msgBody, ph.respChan, m, startTime, hostPoolResponse)",
  "..if err != nil",
  "...hostPoolResponse.Mark(err)",
  "if err != nil",
  ".return err",
  "m.DisableAutoResponse()",
  "return nil"]

theorem n2nHandleMessage_eq : Nsq.Gen.ToolsRelay.n2nHandleMessage = expected_n2nHandleMessage := rfl

def expected_n2nResponder : List String := [
  "var msg *nsq.Message",
  "var startTime time.Time",
  "var address string",
  "var hostPoolResponse hostpool.HostPoolResponse",
  "range ph.respChan",
  ".switch ph.mode",
  "..case ModeRoundRobin",
  "...msg = t.Args[0].(*nsq.Message)",
  "...startTime = t.Args[1].(time.Time)",
  "...hostPoolResponse = nil",
  "...address = t.Args[2].(string)",
  "..case ModeHostPool",
  "...msg = t.Args[0].(*nsq.Message)",
  "...startTime = t.Args[1].(time.Time)",
  "...hostPoolResponse = t.Args[2].(hostpool.HostPoolResponse)",
  "...address = hostPoolResponse.Host()",
  ".success := t.Error == nil",
  ".if hostPoolResponse != nil",
  "..if !success",
  "...hostPoolResponse.Mark(errors.New(\"failed\"))",
  "..else",
  "...hostPoolResponse.Mark(nil)",
  ".if success",
  "..msg.Finish()",
  ".else",
  "..msg.Requeue(-1)",
  ".ph.perAddressStatus[address].Status(startTime)",
  ".ph.timermetrics.Status(startTime)"]

theorem n2nResponder_eq : Nsq.Gen.ToolsRelay.n2nResponder = expected_n2nResponder := rfl

def expected_n2hHandleMessage : List String := [
  "if *sample < 1.0 && rand.Float64() > *sample",
  ".return nil",
  "startTime := time.Now()",
  "switch ph.mode",
  ".case ModeAll",
  "..range ph.addresses",
  "...st := time.Now()",
  "...err := ph.Publish(addr, m.Body)",
  "...if err != nil",
  "....return err",
  "...ph.perAddressStatus[addr].Status(st)",
  ".case ModeRoundRobin",
  "..counter := atomic.AddUint64(&ph.counter, 1)",
  "..idx := counter % uint64(len(ph.addresses))",
  "..addr := ph.addresses[idx]",
  "..err := ph.Publish(addr, m.Body)",
  "..if err != nil",
  "...return err",
  "..ph.perAddressStatus[addr].Status(startTime)",
  ".case ModeHostPool",
  "..hostPoolResponse := ph.hostPool.Get()",
  "..addr := hostPoolResponse.Host()",
  "..err := ph.Publish(addr, m.Body)",
  "..hostPoolResponse.Mark(err)",
  "..if err != nil",
  "...return err",
  "..ph.perAddressStatus[addr].Status(startTime)",
  "ph.timermetrics.Status(startTime)",
  "return nil"]

theorem n2hHandleMessage_eq : Nsq.Gen.ToolsRelay.n2hHandleMessage = expected_n2hHandleMessage := rfl

def expected_n2hPost : List String := [
  "buf := bytes.NewBuffer(msg)",
  "resp, err := HTTPPost(addr, buf)",
  "if err != nil",
  ".return err",
  "io.Copy(io.Discard, resp.Body)",
  "resp.Body.Close()",
  "if resp.StatusCode < 200 || resp.StatusCode >= 300",
  ".return fmt.Errorf(\"got status code %d\", resp.StatusCode)",
  "return nil"]

theorem n2hPost_eq : Nsq.Gen.ToolsRelay.n2hPost = expected_n2hPost := rfl

def expected_n2hGet : List String := [
  "endpoint := fmt.Sprintf(addr, url.QueryEscape(string(msg)))",
  "resp, err := HTTPGet(endpoint)",
  "if err != nil",
  ".return err",
  "io.Copy(io.Discard, resp.Body)",
  "resp.Body.Close()",
  "if resp.StatusCode != 200",
  ".return fmt.Errorf(\"got status code %d\", resp.StatusCode)",
  "return nil"]

theorem n2hGet_eq : Nsq.Gen.ToolsRelay.n2hGet = expected_n2hGet := rfl

def expected_handlerLoop : List String := [
  "for",
  ".message, ok := <-r.incomingMessages",
  ".if !ok",
  "..goto exit",
  ".if r.shouldFailMessage(message, handler)",
  "..message.Finish()",
  "..continue",
  ".err := handler.HandleMessage(message)",
  ".if err != nil",
  "..if !message.IsAutoResponseDisabled()",
  "...message.Requeue(-1)",
  "..continue",
  ".if !message.IsAutoResponseDisabled()",
  "..message.Finish()",
  "label exit",
  "if atomic.AddInt32(&r.runningHandlers, -1) == 0",
  ".r.exit()"]

theorem handlerLoop_eq : Nsq.Gen.ToolsRelay.handlerLoop = expected_handlerLoop := rfl

def pos (s : String) (l : List String) : Nat := l.findIdx (· == s)

/-- nsq_to_nsq: auto-response is disabled only after `PublishAsync` succeeded (an error returns before) -/
theorem n2n_disable_after_publish :
    pos "if err != nil" (n2nHandleMessage.drop (pos "switch ph.mode" n2nHandleMessage)) + pos "switch ph.mode" n2nHandleMessage
      < pos "m.DisableAutoResponse()" n2nHandleMessage
    ∧ pos "m.DisableAutoResponse()" n2nHandleMessage < n2nHandleMessage.length := by
  rw [n2nHandleMessage_eq]; decide

/-- nsq_to_nsq responder: `success := t.Error == nil`, then `Finish` iff success else `Requeue(-1)` -/
theorem n2n_responder_decision :
    (n2nResponder.drop (pos ".success := t.Error == nil" n2nResponder)).filter
        (fun s => s == ".if success" || s == "..msg.Finish()" || s == ".else" || s == "..msg.Requeue(-1)")
      = [".if success", "..msg.Finish()", ".else", "..msg.Requeue(-1)"] := by
  rw [n2nResponder_eq]; decide

/-- the status-code tests of the two HTTP publishers -/
theorem n2h_status_tests :
    "if resp.StatusCode < 200 || resp.StatusCode >= 300" ∈ n2hPost ∧ "if resp.StatusCode != 200" ∈ n2hGet := by
  rw [n2hPost_eq, n2hGet_eq]; decide

/-- go-nsq: handler error → `Requeue(-1)`, otherwise `Finish()`, both only when auto-response is enabled -/
theorem handlerLoop_rule :
    (handlerLoop.drop (pos ".err := handler.HandleMessage(message)" handlerLoop)).take 8 =
      [".err := handler.HandleMessage(message)", ".if err != nil", "..if !message.IsAutoResponseDisabled()",
       "...message.Requeue(-1)", "..continue", ".if !message.IsAutoResponseDisabled()", "..message.Finish()", "label exit"] := by
  rw [handlerLoop_eq]; decide

end Nsq.Tie.ToolsRelay

/-! ### the consumer configuration the relays' `main()` start with (finding `gives-up-after-max-attempts`) -/
namespace Nsq.Tie.ToolsRelay

/-- both relays leave go-nsq's struct-tag default `max_attempts = 5` in place (no assignment to
`MaxAttempts` in `main()`); the operator's `--consumer-opt max_attempts,N` is applied by `flag.Parse()` -/
theorem relays_run_with_library_default :
    Nsq.Gen.ToolsRelay.n2hMaxAttempts = 5 ∧ Nsq.Gen.ToolsRelay.n2nMaxAttempts = 5
    ∧ Nsq.Gen.ToolsRelay.n2hMaxAttempts_overridable = true ∧ Nsq.Gen.ToolsRelay.n2nMaxAttempts_overridable = true := by
  decide

end Nsq.Tie.ToolsRelay
