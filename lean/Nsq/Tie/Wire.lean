import Nsq.Gen.Codec
import Nsq.Model.Wire
/-! Tie (C07), textual part: the statements of the byte-format code that is NOT (yet) translated
(readMPUB, SendMessage, writeMessageToBackend, bufferPoolPut, doMPUB's text loop, messagePump's
copy, doPUB's body read), regenerated from the Go source on every run, are the ones `Model.Wire`
transcribes; the constants agree. `Message.WriteTo`, `decodeMessage`, `SendFramedResponse`,
`SendResponse` and `readLen` are tied by TRANSLATION instead (`Nsq.Tie.WireFn`: real definitions
proved equal to the model), so harmless rewrites of those functions no longer break the tie.
The behavioural half of the tie is the correspondence harness (harness/e1/wire_test.go) and the
end-to-end oracle. -/
namespace Nsq.Tie.Wire

theorem msgIDLength_eq : Nsq.Gen.Codec.c_MsgIDLength = 16 := by decide
theorem minValidMsgLength_eq : Nsq.Gen.Codec.c_minValidMsgLength = 26 := by decide
theorem frameTypes_eq : Nsq.Gen.Codec.c_frameTypeResponse = 0 ∧ Nsq.Gen.Codec.c_frameTypeError = 1 ∧
    Nsq.Gen.Codec.c_frameTypeMessage = 2 := by decide
theorem defaultBufferSize_eq : Nsq.Gen.Codec.c_defaultBufferSize = 16384 := by decide

/-- `readMPUB` = `Model.Wire.readMPUB` -/
theorem readMPUBBody_eq : Nsq.Gen.Codec.readMPUBBody = [
  "numMessages, err := readLen(r, tmp)",
  "if err != nil {",
  "return nil, protocol.NewFatalClientErr(err, \"E_BAD_BODY\", \"MPUB failed to read message count\")",
  "}",
  "maxMessages := (maxBodySize - 4) / 5",
  "if numMessages <= 0 || int64(numMessages) > maxMessages {",
  "return nil, protocol.NewFatalClientErr(err, \"E_BAD_BODY\", fmt.Sprintf(\"MPUB invalid message count %d\", numMessages))",
  "}",
  "messages := make([]*Message, 0, numMessages)",
  "for i := int32(0); i < numMessages; i++ {",
  "messageSize, err := readLen(r, tmp)",
  "if err != nil {",
  "return nil, protocol.NewFatalClientErr(err, \"E_BAD_MESSAGE\", fmt.Sprintf(\"MPUB failed to read message(%d) body size\", i))",
  "}",
  "if messageSize <= 0 {",
  "return nil, protocol.NewFatalClientErr(nil, \"E_BAD_MESSAGE\", fmt.Sprintf(\"MPUB invalid message(%d) body size %d\", i, messageSize))",
  "}",
  "if int64(messageSize) > maxMessageSize {",
  "return nil, protocol.NewFatalClientErr(nil, \"E_BAD_MESSAGE\", fmt.Sprintf(\"MPUB message too big %d > %d\", messageSize, maxMessageSize))",
  "}",
  "msgBody := make([]byte, messageSize)",
  "_, err = io.ReadFull(r, msgBody)",
  "if err != nil {",
  "return nil, protocol.NewFatalClientErr(err, \"E_BAD_MESSAGE\", \"MPUB failed to read message body\")",
  "}",
  "messages = append(messages, NewMessage(topic.GenerateID(), msgBody))",
  "}",
  "return messages, nil"] := by rfl

/-- `protocolV2.SendMessage`: pooled buffer, `WriteTo`, `Send` (`Model.Wire.withPooledBuffer`) -/
theorem sendMessageBody_eq : Nsq.Gen.Codec.sendMessageBody = [
  "p.nsqd.logf(LOG_DEBUG, \"PROTOCOL(V2): writing msg(%s) to client(%s) - %s\", msg.ID, client, msg.Body)",
  "buf := bufferPoolGet()",
  "defer bufferPoolPut(buf)",
  "_, err := msg.WriteTo(buf)",
  "if err != nil {",
  "return err",
  "}",
  "err = p.Send(client, frameTypeMessage, buf.Bytes())",
  "if err != nil {",
  "return err",
  "}",
  "return nil"] := by rfl

/-- `writeMessageToBackend`: pooled buffer, `WriteTo`, `Put` -/
theorem writeBackendBody_eq : Nsq.Gen.Codec.writeBackendBody = [
  "buf := bufferPoolGet()",
  "defer bufferPoolPut(buf)",
  "_, err := msg.WriteTo(buf)",
  "if err != nil {",
  "return err",
  "}",
  "return bq.Put(buf.Bytes())"] := by rfl

/-- `bufferPoolPut` resets the buffer before it goes back to the pool -/
theorem bufferPoolPutBody_eq : Nsq.Gen.Codec.bufferPoolPutBody = [
  "b.Reset()",
  "bp.Put(b)"] := by rfl

/-- `doMPUB` text mode = `Model.Wire.textLoop` -/
theorem mpubTextStmts_eq : Nsq.Gen.Codec.mpubTextStmts = [
  "assign readMax := s.nsqd.getOpts().MaxBodySize + 1",
  "assign rdr := bufio.NewReader(io.LimitReader(req.Body, readMax))",
  "assign total := 0",
  "assign block, err = rdr.ReadBytes('\\n')",
  "assign total += len(block)",
  "if int64(total) == readMax",
  "if len(block) > 0 && block[len(block)-1] == '\\n'",
  "assign block = block[:len(block)-1]",
  "if len(block) == 0",
  "if int64(len(block)) > s.nsqd.getOpts().MaxMsgSize",
  "assign msg := NewMessage(topic.GenerateID(), block)"] := by rfl

/-- `Topic.messagePump`: per-channel copy = `Model.Wire.fanout` -/
theorem fanoutStmts_eq : Nsq.Gen.Codec.fanoutStmts = [
  "assign chanMsg := msg",
  "assign chanMsg = NewMessage(msg.ID, msg.Body)",
  "assign chanMsg.Timestamp = msg.Timestamp",
  "assign chanMsg.deferred = msg.deferred",
  "if chanMsg.deferred != 0",
  "assign err := channel.PutMessage(chanMsg)"] := by rfl

/-- `doPUB` body read = `Model.Wire.httpPub` -/
theorem doPUBReadStmts_eq : Nsq.Gen.Codec.doPUBReadStmts = [
  "if req.ContentLength > s.nsqd.getOpts().MaxMsgSize",
  "assign readMax := s.nsqd.getOpts().MaxMsgSize + 1",
  "assign body, err := io.ReadAll(io.LimitReader(req.Body, readMax))",
  "if int64(len(body)) == readMax",
  "if len(body) == 0"] := by rfl

end Nsq.Tie.Wire
