import Nsq.Gen.Proto
import Nsq.Proofs.ProtoV2
/-!
Tie for C09: facts re-extracted from the current source tree by `tools/go2lean`
(`specs/e3_proto.json` → `Nsq.Gen.Proto`) against what the model `Nsq.Model.ProtoV2` was written
from.

* Part 1 — semantic obligations: the regex literal, the reader's buffer size, the id length, the
  connection-state constants, the order of the IDENTIFY setters, and — as sets — every error
  code/class the model can answer has a `New(Fatal)ClientErr` call site of that class, and every
  call site is either answered by the model or listed as I/O-fault / race only.
* Part 2 — the exact, ordered text of the dispatch switch, of every `New(Fatal)ClientErr` call site
  (function, constructor, code) and of every guard / limit comparison the model mirrors. Any
  edit of a guard (an off-by-one, a dropped or reordered check, a changed code) changes the
  regenerated definition and these `rfl`s no longer check: the tie is reported broken and the
  check searches for a failing input.
-/
namespace Nsq.Tie.Proto
open Nsq.Model.ProtoV2 Nsq.Model Nsq.Proofs.ProtoV2

/-! ## Part 1 -/

theorem regex_literal : Nsq.Gen.Proto.nameRegex = Names.regexLiteral := rfl
theorem buffer_size : Nsq.Gen.Proto.c_defaultBufferSize = (bufSize : Int) := by decide
theorem msg_id_length : Nsq.Gen.Proto.c_MsgIDLength = 16 := by decide
theorem identify_setter_order :
    Nsq.Gen.Proto.identifyOrder = ["SetHeartbeatInterval", "SetOutputBuffer", "SetSampleRate", "SetMsgTimeout"] := rfl

/-- The command names of the dispatch switch, in the model's order of tests (`exec`). -/
def dispatchOrder : List Bytes :=
  [cIDENTIFY, cFIN, cRDY, cREQ, cPUB, cMPUB, cDPUB, cNOP, cTOUCH, cSUB, cCLS, cAUTH]

theorem dispatch_names : dispatchOrder = ["IDENTIFY", "FIN", "RDY", "REQ", "PUB", "MPUB", "DPUB", "NOP", "TOUCH",
    "SUB", "CLS", "AUTH"].map Names.ascii := by decide

/-- Anything that is not one of the twelve names is answered `E_INVALID` (fatal). -/
theorem unknown_command (conf : Conf) (s : ConnState) (b : Broker) (cmd : Bytes) (tl : List Bytes) (rest : Bytes)
    (h : cmd ∉ dispatchOrder) : exec conf s b (cmd :: tl) rest = fatal .E_INVALID s b := by
  simp only [dispatchOrder, List.mem_cons, List.not_mem_nil, or_false, not_or] at h
  obtain ⟨h1, h2, h3, h4, h5, h6, h7, h8, h9, h10, h11, h12⟩ := h
  simp [exec, h1, h2, h3, h4, h5, h6, h7, h8, h9, h10, h11, h12]

def hasSite (ctor : String) (c : Code) : Bool :=
  Nsq.Gen.Proto.errSites.any (fun s => s.2.1 == ctor && s.2.2 == c.toString)

/-- Every fatal code of the model is passed to `NewFatalClientErr` somewhere in package nsqd … -/
theorem fatal_codes_have_sites : ∀ c ∈ modelFatal, hasSite "NewFatalClientErr" c = true := by decide
/-- … and every non-fatal one to `NewClientErr`. -/
theorem nonfatal_codes_have_sites : ∀ c ∈ modelNonFatal, hasSite "NewClientErr" c = true := by decide

/-- Codes with call sites that the model never answers: reachable only through an I/O fault or a
race (write error, TLS/compression upgrade failure, topic exiting during the publish, channel
consumer limit) — documented as outside the model. -/
def faultOnlyCodes : List String :=
  ["E_PUB_FAILED", "E_MPUB_FAILED", "E_DPUB_FAILED", "E_SUB_FAILED", "E_AUTH_ERROR"]

/-- Conversely every call site's (class, code) is one the model answers, or fault-only. -/
theorem sites_are_modelled : ∀ s ∈ Nsq.Gen.Proto.errSites,
    (s.2.1 = "NewFatalClientErr" ∧ (modelFatal.any (fun c => c.toString == s.2.2) = true)) ∨
    (s.2.1 = "NewClientErr" ∧ (modelNonFatal.any (fun c => c.toString == s.2.2) = true)) ∨
    s.2.2 ∈ faultOnlyCodes := by decide

/-! ## Part 2 -/

theorem errSites_eq : Nsq.Gen.Proto.errSites = ([
  ("Exec", "NewFatalClientErr", "E_INVALID"),
  ("IDENTIFY", "NewFatalClientErr", "E_INVALID"),
  ("IDENTIFY", "NewFatalClientErr", "E_BAD_BODY"),
  ("IDENTIFY", "NewFatalClientErr", "E_BAD_BODY"),
  ("IDENTIFY", "NewFatalClientErr", "E_BAD_BODY"),
  ("IDENTIFY", "NewFatalClientErr", "E_BAD_BODY"),
  ("IDENTIFY", "NewFatalClientErr", "E_BAD_BODY"),
  ("IDENTIFY", "NewFatalClientErr", "E_BAD_BODY"),
  ("IDENTIFY", "NewFatalClientErr", "E_IDENTIFY_FAILED"),
  ("IDENTIFY", "NewFatalClientErr", "E_IDENTIFY_FAILED"),
  ("IDENTIFY", "NewFatalClientErr", "E_IDENTIFY_FAILED"),
  ("IDENTIFY", "NewFatalClientErr", "E_IDENTIFY_FAILED"),
  ("IDENTIFY", "NewFatalClientErr", "E_IDENTIFY_FAILED"),
  ("IDENTIFY", "NewFatalClientErr", "E_IDENTIFY_FAILED"),
  ("IDENTIFY", "NewFatalClientErr", "E_IDENTIFY_FAILED"),
  ("IDENTIFY", "NewFatalClientErr", "E_IDENTIFY_FAILED"),
  ("IDENTIFY", "NewFatalClientErr", "E_IDENTIFY_FAILED"),
  ("AUTH", "NewFatalClientErr", "E_INVALID"),
  ("AUTH", "NewFatalClientErr", "E_INVALID"),
  ("AUTH", "NewFatalClientErr", "E_BAD_BODY"),
  ("AUTH", "NewFatalClientErr", "E_BAD_BODY"),
  ("AUTH", "NewFatalClientErr", "E_BAD_BODY"),
  ("AUTH", "NewFatalClientErr", "E_BAD_BODY"),
  ("AUTH", "NewFatalClientErr", "E_INVALID"),
  ("AUTH", "NewFatalClientErr", "E_AUTH_DISABLED"),
  ("AUTH", "NewFatalClientErr", "E_AUTH_FAILED"),
  ("AUTH", "NewFatalClientErr", "E_UNAUTHORIZED"),
  ("AUTH", "NewFatalClientErr", "E_AUTH_ERROR"),
  ("AUTH", "NewFatalClientErr", "E_AUTH_ERROR"),
  ("CheckAuth", "NewFatalClientErr", "E_AUTH_FIRST"),
  ("CheckAuth", "NewFatalClientErr", "E_AUTH_FAILED"),
  ("CheckAuth", "NewFatalClientErr", "E_UNAUTHORIZED"),
  ("SUB", "NewFatalClientErr", "E_INVALID"),
  ("SUB", "NewFatalClientErr", "E_INVALID"),
  ("SUB", "NewFatalClientErr", "E_INVALID"),
  ("SUB", "NewFatalClientErr", "E_BAD_TOPIC"),
  ("SUB", "NewFatalClientErr", "E_BAD_CHANNEL"),
  ("SUB", "NewFatalClientErr", "E_SUB_FAILED"),
  ("SUB", "NewFatalClientErr", "E_SUB_FAILED"),
  ("RDY", "NewFatalClientErr", "E_INVALID"),
  ("RDY", "NewFatalClientErr", "E_INVALID"),
  ("RDY", "NewFatalClientErr", "E_INVALID"),
  ("FIN", "NewFatalClientErr", "E_INVALID"),
  ("FIN", "NewFatalClientErr", "E_INVALID"),
  ("FIN", "NewFatalClientErr", "E_INVALID"),
  ("FIN", "NewClientErr", "E_FIN_FAILED"),
  ("REQ", "NewFatalClientErr", "E_INVALID"),
  ("REQ", "NewFatalClientErr", "E_INVALID"),
  ("REQ", "NewFatalClientErr", "E_INVALID"),
  ("REQ", "NewFatalClientErr", "E_INVALID"),
  ("REQ", "NewClientErr", "E_REQ_FAILED"),
  ("CLS", "NewFatalClientErr", "E_INVALID"),
  ("PUB", "NewFatalClientErr", "E_INVALID"),
  ("PUB", "NewFatalClientErr", "E_BAD_TOPIC"),
  ("PUB", "NewFatalClientErr", "E_BAD_MESSAGE"),
  ("PUB", "NewFatalClientErr", "E_BAD_MESSAGE"),
  ("PUB", "NewFatalClientErr", "E_BAD_MESSAGE"),
  ("PUB", "NewFatalClientErr", "E_BAD_MESSAGE"),
  ("PUB", "NewFatalClientErr", "E_PUB_FAILED"),
  ("MPUB", "NewFatalClientErr", "E_INVALID"),
  ("MPUB", "NewFatalClientErr", "E_BAD_TOPIC"),
  ("MPUB", "NewFatalClientErr", "E_BAD_BODY"),
  ("MPUB", "NewFatalClientErr", "E_BAD_BODY"),
  ("MPUB", "NewFatalClientErr", "E_BAD_BODY"),
  ("MPUB", "NewFatalClientErr", "E_MPUB_FAILED"),
  ("DPUB", "NewFatalClientErr", "E_INVALID"),
  ("DPUB", "NewFatalClientErr", "E_BAD_TOPIC"),
  ("DPUB", "NewFatalClientErr", "E_INVALID"),
  ("DPUB", "NewFatalClientErr", "E_INVALID"),
  ("DPUB", "NewFatalClientErr", "E_BAD_MESSAGE"),
  ("DPUB", "NewFatalClientErr", "E_BAD_MESSAGE"),
  ("DPUB", "NewFatalClientErr", "E_BAD_MESSAGE"),
  ("DPUB", "NewFatalClientErr", "E_BAD_MESSAGE"),
  ("DPUB", "NewFatalClientErr", "E_DPUB_FAILED"),
  ("TOUCH", "NewFatalClientErr", "E_INVALID"),
  ("TOUCH", "NewFatalClientErr", "E_INVALID"),
  ("TOUCH", "NewFatalClientErr", "E_INVALID"),
  ("TOUCH", "NewClientErr", "E_TOUCH_FAILED"),
  ("readMPUB", "NewFatalClientErr", "E_BAD_BODY"),
  ("readMPUB", "NewFatalClientErr", "E_BAD_BODY"),
  ("readMPUB", "NewFatalClientErr", "E_BAD_MESSAGE"),
  ("readMPUB", "NewFatalClientErr", "E_BAD_MESSAGE"),
  ("readMPUB", "NewFatalClientErr", "E_BAD_MESSAGE"),
  ("readMPUB", "NewFatalClientErr", "E_BAD_MESSAGE"),
  ("enforceTLSPolicy", "NewFatalClientErr", "E_INVALID")] : List (String × String × String)) := rfl

theorem execDispatch_eq : Nsq.Gen.Proto.execDispatch = ([
  "if bytes.Equal(params[0], []byte(\"IDENTIFY\"))",
  "return return p.IDENTIFY(client, params)",
  "assign err := enforceTLSPolicy(client, p, params[0])",
  "case bytes.Equal(params[0], []byte(\"FIN\"))",
  "return return p.FIN(client, params)",
  "case bytes.Equal(params[0], []byte(\"RDY\"))",
  "return return p.RDY(client, params)",
  "case bytes.Equal(params[0], []byte(\"REQ\"))",
  "return return p.REQ(client, params)",
  "case bytes.Equal(params[0], []byte(\"PUB\"))",
  "return return p.PUB(client, params)",
  "case bytes.Equal(params[0], []byte(\"MPUB\"))",
  "return return p.MPUB(client, params)",
  "case bytes.Equal(params[0], []byte(\"DPUB\"))",
  "return return p.DPUB(client, params)",
  "case bytes.Equal(params[0], []byte(\"NOP\"))",
  "return return p.NOP(client, params)",
  "case bytes.Equal(params[0], []byte(\"TOUCH\"))",
  "return return p.TOUCH(client, params)",
  "case bytes.Equal(params[0], []byte(\"SUB\"))",
  "return return p.SUB(client, params)",
  "case bytes.Equal(params[0], []byte(\"CLS\"))",
  "return return p.CLS(client, params)",
  "case bytes.Equal(params[0], []byte(\"AUTH\"))",
  "return return p.AUTH(client, params)",
  "return return nil, protocol.NewFatalClientErr(nil, \"E_INVALID\", fmt.Sprintf(\"invalid command %s\", params[0]))"] : List String) := rfl

theorem ioLoopStmts_eq : Nsq.Gen.Proto.ioLoopStmts = ([
  "assign line, err = client.Reader.ReadSlice('\\n')",
  "if err == io.EOF",
  "assign line = line[:len(line)-1]",
  "if len(line) > 0 && line[len(line)-1] == '\\r'",
  "assign line = line[:len(line)-1]",
  "assign params := bytes.Split(line, separatorBytes)",
  "assign response, err = p.Exec(client, params)",
  "assign sendErr := p.Send(client, frameTypeError, []byte(err.Error()))",
  "assign _, ok := err.(*protocol.FatalClientErr)",
  "assign err = p.Send(client, frameTypeResponse, response)"] : List String) := rfl

theorem handleMagic_eq : Nsq.Gen.Proto.handleMagic = ([
  "assign _, err := io.ReadFull(conn, buf)",
  "assign protocolMagic := string(buf)",
  "case \"  V2\"",
  "assign prot = &protocolV2{nsqd: p.nsqd}"] : List String) := rfl

theorem c_defaultBufferSize_eq : Nsq.Gen.Proto.c_defaultBufferSize = (16384 : Int) := rfl

theorem c_MsgIDLength_eq : Nsq.Gen.Proto.c_MsgIDLength = (16 : Int) := rfl

theorem c_stateInit_eq : Nsq.Gen.Proto.c_stateInit = (0 : Int) := rfl

theorem c_stateSubscribed_eq : Nsq.Gen.Proto.c_stateSubscribed = (3 : Int) := rfl

theorem c_stateClosing_eq : Nsq.Gen.Proto.c_stateClosing = (4 : Int) := rfl

theorem c_frameTypeResponse_eq : Nsq.Gen.Proto.c_frameTypeResponse = (0 : Int) := rfl

theorem c_frameTypeError_eq : Nsq.Gen.Proto.c_frameTypeError = (1 : Int) := rfl

theorem c_frameTypeMessage_eq : Nsq.Gen.Proto.c_frameTypeMessage = (2 : Int) := rfl

theorem identifyLimits_eq : Nsq.Gen.Proto.identifyLimits = ([
  "if atomic.LoadInt32(&client.State) != stateInit",
  "assign bodyLen, err := readLen(client.Reader, client.lenSlice)",
  "if int64(bodyLen) > p.nsqd.getOpts().MaxBodySize",
  "return return nil, protocol.NewFatalClientErr(nil, \"E_BAD_BODY\", fmt.Sprintf(\"IDENTIFY body too big %d > %d\", bodyLen, p.nsqd.getOpts().MaxBodySize))",
  "if bodyLen <= 0",
  "return return nil, protocol.NewFatalClientErr(nil, \"E_BAD_BODY\", fmt.Sprintf(\"IDENTIFY invalid body size %d\", bodyLen))",
  "assign body := make([]byte, bodyLen)",
  "if !identifyData.FeatureNegotiation",
  "assign tlsv1 := p.nsqd.tlsConfig != nil && identifyData.TLSv1",
  "assign deflate := p.nsqd.getOpts().DeflateEnabled && identifyData.Deflate",
  "assign snappy := p.nsqd.getOpts().SnappyEnabled && identifyData.Snappy",
  "if deflate && snappy"] : List String) := rfl

theorem authLimits_eq : Nsq.Gen.Proto.authLimits = ([
  "if atomic.LoadInt32(&client.State) != stateInit",
  "if len(params) != 1",
  "assign bodyLen, err := readLen(client.Reader, client.lenSlice)",
  "if int64(bodyLen) > p.nsqd.getOpts().MaxBodySize",
  "return return nil, protocol.NewFatalClientErr(nil, \"E_BAD_BODY\", fmt.Sprintf(\"AUTH body too big %d > %d\", bodyLen, p.nsqd.getOpts().MaxBodySize))",
  "if bodyLen <= 0",
  "return return nil, protocol.NewFatalClientErr(nil, \"E_BAD_BODY\", fmt.Sprintf(\"AUTH invalid body size %d\", bodyLen))",
  "assign body := make([]byte, bodyLen)"] : List String) := rfl

theorem subLimits_eq : Nsq.Gen.Proto.subLimits = ([
  "if atomic.LoadInt32(&client.State) != stateInit",
  "if client.HeartbeatInterval <= 0",
  "if len(params) < 3",
  "assign topicName := string(params[1])",
  "if !protocol.IsValidTopicName(topicName)",
  "assign channelName := string(params[2])",
  "if !protocol.IsValidChannelName(channelName)"] : List String) := rfl

theorem rdyLimits_eq : Nsq.Gen.Proto.rdyLimits = ([
  "assign state := atomic.LoadInt32(&client.State)",
  "if state == stateClosing",
  "if state != stateSubscribed",
  "return return nil, protocol.NewFatalClientErr(nil, \"E_INVALID\", \"cannot RDY in current state\")",
  "assign count := int64(1)",
  "if len(params) > 1",
  "return return nil, protocol.NewFatalClientErr(err, \"E_INVALID\", fmt.Sprintf(\"RDY could not parse count %s\", params[1]))",
  "assign count = int64(b10)",
  "if count < 0 || count > p.nsqd.getOpts().MaxRdyCount",
  "return return nil, protocol.NewFatalClientErr(nil, \"E_INVALID\", fmt.Sprintf(\"RDY count %d out of range 0-%d\", count, p.nsqd.getOpts().MaxRdyCount))"] : List String) := rfl

theorem finLimits_eq : Nsq.Gen.Proto.finLimits = ([
  "assign state := atomic.LoadInt32(&client.State)",
  "if state != stateSubscribed && state != stateClosing",
  "return return nil, protocol.NewFatalClientErr(nil, \"E_INVALID\", \"cannot FIN in current state\")",
  "if len(params) < 2",
  "assign id, err := getMessageID(params[1])"] : List String) := rfl

theorem reqLimits_eq : Nsq.Gen.Proto.reqLimits = ([
  "assign state := atomic.LoadInt32(&client.State)",
  "if state != stateSubscribed && state != stateClosing",
  "return return nil, protocol.NewFatalClientErr(nil, \"E_INVALID\", \"cannot REQ in current state\")",
  "if len(params) < 3",
  "assign id, err := getMessageID(params[1])",
  "assign timeoutMs, err := protocol.ByteToBase10(params[2])",
  "assign timeoutDuration := msToDuration(timeoutMs)",
  "assign clampedTimeout := timeoutDuration",
  "if timeoutDuration < 0",
  "assign clampedTimeout = 0",
  "if timeoutDuration > maxReqTimeout",
  "assign clampedTimeout = maxReqTimeout",
  "if clampedTimeout != timeoutDuration",
  "assign timeoutDuration = clampedTimeout",
  "assign err = client.Channel.RequeueMessage(client.ID, *id, timeoutDuration)"] : List String) := rfl

theorem touchLimits_eq : Nsq.Gen.Proto.touchLimits = ([
  "assign state := atomic.LoadInt32(&client.State)",
  "if state != stateSubscribed && state != stateClosing",
  "return return nil, protocol.NewFatalClientErr(nil, \"E_INVALID\", \"cannot TOUCH in current state\")",
  "if len(params) < 2",
  "assign id, err := getMessageID(params[1])"] : List String) := rfl

theorem clsLimits_eq : Nsq.Gen.Proto.clsLimits = ([
  "if atomic.LoadInt32(&client.State) != stateSubscribed"] : List String) := rfl

theorem pubLimits_eq : Nsq.Gen.Proto.pubLimits = ([
  "if len(params) < 2",
  "assign topicName := string(params[1])",
  "if !protocol.IsValidTopicName(topicName)",
  "assign bodyLen, err := readLen(client.Reader, client.lenSlice)",
  "if bodyLen <= 0",
  "return return nil, protocol.NewFatalClientErr(nil, \"E_BAD_MESSAGE\", fmt.Sprintf(\"PUB invalid message body size %d\", bodyLen))",
  "if int64(bodyLen) > p.nsqd.getOpts().MaxMsgSize",
  "return return nil, protocol.NewFatalClientErr(nil, \"E_BAD_MESSAGE\", fmt.Sprintf(\"PUB message too big %d > %d\", bodyLen, p.nsqd.getOpts().MaxMsgSize))",
  "assign messageBody := make([]byte, bodyLen)",
  "assign err := p.CheckAuth(client, \"PUB\", topicName, \"\")"] : List String) := rfl

theorem mpubLimits_eq : Nsq.Gen.Proto.mpubLimits = ([
  "if len(params) < 2",
  "assign topicName := string(params[1])",
  "if !protocol.IsValidTopicName(topicName)",
  "assign err := p.CheckAuth(client, \"MPUB\", topicName, \"\")",
  "assign topic := p.nsqd.GetTopic(topicName)",
  "assign bodyLen, err := readLen(client.Reader, client.lenSlice)",
  "if bodyLen <= 0",
  "return return nil, protocol.NewFatalClientErr(nil, \"E_BAD_BODY\", fmt.Sprintf(\"MPUB invalid body size %d\", bodyLen))",
  "if int64(bodyLen) > p.nsqd.getOpts().MaxBodySize",
  "return return nil, protocol.NewFatalClientErr(nil, \"E_BAD_BODY\", fmt.Sprintf(\"MPUB body too big %d > %d\", bodyLen, p.nsqd.getOpts().MaxBodySize))",
  "assign messages, err := readMPUB(io.LimitReader(client.Reader, int64(bodyLen)), client.lenSlice, topic, p.nsqd.getOpts().MaxMsgSize, p.nsqd.getOpts().MaxBodySize)"] : List String) := rfl

theorem dpubLimits_eq : Nsq.Gen.Proto.dpubLimits = ([
  "if len(params) < 3",
  "assign topicName := string(params[1])",
  "if !protocol.IsValidTopicName(topicName)",
  "assign timeoutMs, err := protocol.ByteToBase10(params[2])",
  "return return nil, protocol.NewFatalClientErr(err, \"E_INVALID\", fmt.Sprintf(\"DPUB could not parse timeout %s\", params[2]))",
  "assign timeoutDuration := msToDuration(timeoutMs)",
  "if timeoutDuration < 0 || timeoutDuration > p.nsqd.getOpts().MaxReqTimeout",
  "return return nil, protocol.NewFatalClientErr(nil, \"E_INVALID\", fmt.Sprintf(\"DPUB timeout %d out of range 0-%d\", timeoutMs, p.nsqd.getOpts().MaxReqTimeout/time.Millisecond))",
  "assign bodyLen, err := readLen(client.Reader, client.lenSlice)",
  "if bodyLen <= 0",
  "return return nil, protocol.NewFatalClientErr(nil, \"E_BAD_MESSAGE\", fmt.Sprintf(\"DPUB invalid message body size %d\", bodyLen))",
  "if int64(bodyLen) > p.nsqd.getOpts().MaxMsgSize",
  "return return nil, protocol.NewFatalClientErr(nil, \"E_BAD_MESSAGE\", fmt.Sprintf(\"DPUB message too big %d > %d\", bodyLen, p.nsqd.getOpts().MaxMsgSize))",
  "assign messageBody := make([]byte, bodyLen)",
  "assign err := p.CheckAuth(client, \"DPUB\", topicName, \"\")",
  "assign msg.deferred = timeoutDuration"] : List String) := rfl

theorem readMpubLimits_eq : Nsq.Gen.Proto.readMpubLimits = ([
  "assign numMessages, err := readLen(r, tmp)",
  "assign maxMessages := (maxBodySize - 4) / 5",
  "if numMessages <= 0 || int64(numMessages) > maxMessages",
  "return return nil, protocol.NewFatalClientErr(err, \"E_BAD_BODY\", fmt.Sprintf(\"MPUB invalid message count %d\", numMessages))",
  "assign messages := make([]*Message, 0, numMessages)",
  "assign messageSize, err := readLen(r, tmp)",
  "if messageSize <= 0",
  "return return nil, protocol.NewFatalClientErr(nil, \"E_BAD_MESSAGE\", fmt.Sprintf(\"MPUB invalid message(%d) body size %d\", i, messageSize))",
  "if int64(messageSize) > maxMessageSize",
  "return return nil, protocol.NewFatalClientErr(nil, \"E_BAD_MESSAGE\", fmt.Sprintf(\"MPUB message too big %d > %d\", messageSize, maxMessageSize))",
  "assign msgBody := make([]byte, messageSize)"] : List String) := rfl

theorem getMessageIDLimits_eq : Nsq.Gen.Proto.getMessageIDLimits = ([
  "if len(p) != MsgIDLength"] : List String) := rfl

theorem readLenStmts_eq : Nsq.Gen.Proto.readLenStmts = ([
  "assign _, err := io.ReadFull(r, tmp)",
  "return return int32(binary.BigEndian.Uint32(tmp)), nil"] : List String) := rfl

theorem msToDurationStmts_eq : Nsq.Gen.Proto.msToDurationStmts = ([
  "if ms > maxMs",
  "return return time.Duration(ms) * time.Millisecond"] : List String) := rfl

theorem tlsPolicy_eq : Nsq.Gen.Proto.tlsPolicy = ([
  "if p.nsqd.getOpts().TLSRequired != TLSNotRequired && atomic.LoadInt32(&client.TLS) != 1"] : List String) := rfl

theorem hbLimits_eq : Nsq.Gen.Proto.hbLimits = ([
  "case desiredInterval == -1",
  "case desiredInterval == 0",
  "case desiredInterval >= 1000 && desiredInterval <= int(c.nsqd.getOpts().MaxHeartbeatInterval/time.Millisecond)",
  "assign c.HeartbeatInterval = time.Duration(desiredInterval) * time.Millisecond",
  "return return fmt.Errorf(\"heartbeat interval (%d) is invalid\", desiredInterval)"] : List String) := rfl

theorem obLimits_eq : Nsq.Gen.Proto.obLimits = ([
  "case desiredTimeout == -1",
  "case desiredTimeout == 0",
  "case true && desiredTimeout >= int(c.nsqd.getOpts().MinOutputBufferTimeout/time.Millisecond) && desiredTimeout <= int(c.nsqd.getOpts().MaxOutputBufferTimeout/time.Millisecond)",
  "assign c.OutputBufferTimeout = time.Duration(desiredTimeout) * time.Millisecond",
  "return return fmt.Errorf(\"output buffer timeout (%d) is invalid\", desiredTimeout)",
  "case desiredSize == -1",
  "case desiredSize == 0",
  "case desiredSize >= 64 && desiredSize <= int(c.nsqd.getOpts().MaxOutputBufferSize)",
  "assign c.OutputBufferSize = desiredSize",
  "return return fmt.Errorf(\"output buffer size (%d) is invalid\", desiredSize)",
  "if desiredSize != 0"] : List String) := rfl

theorem srLimits_eq : Nsq.Gen.Proto.srLimits = ([
  "if sampleRate < 0 || sampleRate > 99",
  "return return fmt.Errorf(\"sample rate (%d) is invalid\", sampleRate)"] : List String) := rfl

theorem mtLimits_eq : Nsq.Gen.Proto.mtLimits = ([
  "case msgTimeout == 0",
  "case msgTimeout >= 1000 && msgTimeout <= int(c.nsqd.getOpts().MaxMsgTimeout/time.Millisecond)",
  "assign c.MsgTimeout = time.Duration(msgTimeout) * time.Millisecond",
  "return return fmt.Errorf(\"msg timeout (%d) is invalid\", msgTimeout)"] : List String) := rfl

theorem identifyOrder_eq : Nsq.Gen.Proto.identifyOrder = (["SetHeartbeatInterval", "SetOutputBuffer", "SetSampleRate", "SetMsgTimeout"] : List String) := rfl

theorem nameRegex_eq : Nsq.Gen.Proto.nameRegex = ("^[.a-zA-Z0-9_-]+(#ephemeral)?$" : String) := rfl

theorem nameLen_eq : Nsq.Gen.Proto.nameLen = ([
  "if len(name) > 64 || len(name) < 1",
  "return return validTopicChannelNameRegex.MatchString(name)"] : List String) := rfl

theorem base10Stmts_eq : Nsq.Gen.Proto.base10Stmts = ([
  "assign base := uint64(10)",
  "assign n = 0",
  "assign d := b[i]",
  "case '0' <= d && d <= '9'",
  "assign v = d - '0'",
  "assign n = 0",
  "return return",
  "if n > (maxUint64-uint64(v))/base",
  "assign n = 0",
  "return return",
  "assign n *= base",
  "assign n += uint64(v)",
  "return return n, err"] : List String) := rfl

end Nsq.Tie.Proto
