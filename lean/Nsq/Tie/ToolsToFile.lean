import Nsq.Gen.ToolsToFile
/-!
Tie of the `ToFile` model to apps/nsq_to_file (regenerated leg). `tools/go2lean` (kind `skeleton`)
re-extracts the statement skeleton of every function the model covers from the current tree; the
theorems below compare them with the skeletons the model was written against (log statements
dropped). Any edit of control flow, call order, conditions or exit paths of these functions breaks
the corresponding `*_eq` (the check then searches for a failing input with the harness).
The order facts at the end are the ones the proofs rely on, stated on the current skeleton.
-/
namespace Nsq.Tie.ToolsToFile
open Nsq.Gen.ToolsToFile

def expected_handleMessage : List String := [
  "m.DisableAutoResponse()",
  "f.logChan <- m",
  "return nil"]

theorem handleMessage_eq : Nsq.Gen.ToolsToFile.handleMessage = expected_handleMessage := rfl

/-- does `pat` occur in `s`? (characters) -/
def occursInR (pat s : List Char) : Bool :=
  match s with
  | [] => pat.isPrefixOf []
  | c :: cs => pat.isPrefixOf (c :: cs) || occursInR pat cs

/-- the effect calls of a skeleton, in source order -/
def effectCallsR (calls : List String) (skel : List String) : List String :=
  skel.filterMap fun st => calls.find? fun c => occursInR c.toList st.toList

def expected_router : List String := [
  "pos := 0",
  "output := make([]*nsq.Message, f.opts.MaxInFlight)",
  "sync := false",
  "ticker := time.NewTicker(f.opts.SyncInterval)",
  "closeFile := false",
  "exit := false",
  "for",
  ".select",
  "..case <-f.consumer.StopChan",
  "...sync = true",
  "...closeFile = true",
  "...exit = true",
  "..case <-f.termChan",
  "...ticker.Stop()",
  "...f.consumer.Stop()",
  "...sync = true",
  "..case <-f.hupChan",
  "...sync = true",
  "...closeFile = true",
  "..case <-ticker.C",
  "...if f.needsRotation()",
  "....if f.opts.SkipEmptyFiles",
  ".....closeFile = true",
  "....else",
  ".....f.updateFile()",
  "...sync = true",
  "..case m := <-f.logChan",
  "...if f.needsRotation()",
  "....f.updateFile()",
  "....sync = true",
  "..._, err := f.Write(m.Body)",
  "...if err != nil",
  "....os.Exit(1)",
  "..._, err = f.Write([]byte(\"\\n\"))",
  "...if err != nil",
  "....os.Exit(1)",
  "...output[pos] = m",
  "...pos++",
  "...if pos == cap(output)",
  "....sync = true",
  ".if sync || f.consumer.IsStarved()",
  "..if pos > 0",
  "...err := f.Sync()",
  "...if err != nil",
  "....os.Exit(1)",
  "...for pos > 0",
  "....pos--",
  "....m := output[pos]",
  "....m.Finish()",
  "....output[pos] = nil",
  "..sync = false",
  ".if closeFile",
  "..f.Close()",
  "..closeFile = false",
  ".if exit",
  "..break"]

/-- the record write of `router()` before fix F46: body and "\n" are two `Write` calls -/
def routerWriteTwo : List String := [
  "..._, err := f.Write(m.Body)",
  "...if err != nil",
  "....os.Exit(1)",
  "..._, err = f.Write([]byte(\"\\n\"))",
  "...if err != nil",
  "....os.Exit(1)"]

/-- … and with fix F46 (/repo 85f4c48): one `Write` of body + "\n" (model parameter `Cfg.oneWrite`) -/
def routerWriteOne : List String := [
  "...record := make([]byte, 0, len(m.Body)+1)",
  "...record = append(record, m.Body...)",
  "...record = append(record, '\\n')",
  "..._, err := f.Write(record)",
  "...if err != nil",
  "....os.Exit(1)"]

/-- the skeleton of `router()` with fix F46: `expected_router` with the six statements of the record write replaced -/
def expected_router_fixed : List String := expected_router.take 30 ++ routerWriteOne ++ expected_router.drop 36

/-- the replaced statements are exactly the two-write block -/
theorem expected_router_write_block : (expected_router.drop 30).take 6 = routerWriteTwo := by decide

/-- **`router()` has the shape of fix F46** (/repo 85f4c48, committed: one `Write` of body + "\n"; audit B12). The
two-write shape `expected_router` (`Props.C19Lines.shared_file_unfixed_witness`) is no longer accepted: with F46
reverted this tie breaks, the probe `vfE8ProbeOneWrite` on the real `router()` disagrees with the expected value, and the
two-routers scenario reports `two-routers-one-file` (listed `fixed`) as a VIOLATION. Any other edit of `router()`
breaks this too. -/
theorem router_eq : Nsq.Gen.ToolsToFile.router = expected_router_fixed := by decide

/-- the shape of the current tree (model parameter `Cfg.oneWrite`) -/
def routerOneWrite : Bool := decide (Nsq.Gen.ToolsToFile.router = expected_router_fixed)

theorem tree_one_write : routerOneWrite = true := by decide

/-- the two shapes differ only in the number of `Write` calls per record: the effect calls in source order are
write(s) (error → exit), `Sync()` (error → exit), `Finish()` -/
theorem router_write_calls :
    effectCallsR ["f.Write(", "f.Sync()", "m.Finish()", "os.Exit(1)"] Nsq.Gen.ToolsToFile.router =
      (if routerOneWrite then ["f.Write(", "os.Exit(1)", "f.Sync()", "os.Exit(1)", "m.Finish()"]
       else ["f.Write(", "os.Exit(1)", "f.Write(", "os.Exit(1)", "f.Sync()", "os.Exit(1)", "m.Finish()"]) := by decide

def expected_close : List String := [
  "if f.out == nil",
  ".return",
  "if f.gzipWriter != nil",
  ".err := f.gzipWriter.Close()",
  ".if err != nil",
  "..os.Exit(1)",
  "err := f.out.Sync()",
  "if err != nil",
  ".os.Exit(1)",
  "err = f.out.Close()",
  "if err != nil",
  ".os.Exit(1)",
  "if f.opts.WorkDir != f.opts.OutputDir",
  ".src := f.out.Name()",
  ".dst := filepath.Join(f.opts.OutputDir, strings.TrimPrefix(src, f.opts.WorkDir))",
  ".err := exclusiveRename(src, dst)",
  ".if err == nil",
  "..return",
  ".else",
  "..if !os.IsExist(err)",
  "...os.Exit(1)",
  "._, filenameTmpl := filepath.Split(f.filename)",
  ".dstDir, _ := filepath.Split(dst)",
  ".dstTmpl := filepath.Join(dstDir, filenameTmpl)",
  ".for i := f.rev + 1;; i++",
  "..dst := strings.Replace(dstTmpl, \"<REV>\", fmt.Sprintf(\"-%06d\", i), -1)",
  "..err := exclusiveRename(src, dst)",
  "..if err != nil",
  "...if os.IsExist(err)",
  "....continue",
  "...os.Exit(1)",
  "..break",
  "f.out = nil"]

/-- with fix F44: `f.out = nil` also on the successful-move path -/
def expected_close_fixed : List String := [
  "if f.out == nil",
  ".return",
  "if f.gzipWriter != nil",
  ".err := f.gzipWriter.Close()",
  ".if err != nil",
  "..os.Exit(1)",
  "err := f.out.Sync()",
  "if err != nil",
  ".os.Exit(1)",
  "err = f.out.Close()",
  "if err != nil",
  ".os.Exit(1)",
  "if f.opts.WorkDir != f.opts.OutputDir",
  ".src := f.out.Name()",
  ".dst := filepath.Join(f.opts.OutputDir, strings.TrimPrefix(src, f.opts.WorkDir))",
  ".err := exclusiveRename(src, dst)",
  ".if err == nil",
  "..f.out = nil",
  "..return",
  ".else",
  "..if !os.IsExist(err)",
  "...os.Exit(1)",
  "._, filenameTmpl := filepath.Split(f.filename)",
  ".dstDir, _ := filepath.Split(dst)",
  ".dstTmpl := filepath.Join(dstDir, filenameTmpl)",
  ".for i := f.rev + 1;; i++",
  "..dst := strings.Replace(dstTmpl, \"<REV>\", fmt.Sprintf(\"-%06d\", i), -1)",
  "..err := exclusiveRename(src, dst)",
  "..if err != nil",
  "...if os.IsExist(err)",
  "....continue",
  "...os.Exit(1)",
  "..break",
  "f.out = nil"]

/-- does `pat` occur in `s`? (characters) -/
def occursIn (pat s : List Char) : Bool :=
  match s with
  | [] => pat.isPrefixOf []
  | c :: cs => pat.isPrefixOf (c :: cs) || occursIn pat cs

/-- the effect calls of a skeleton, in source order: which of the given call texts each statement contains -/
def effectCalls (calls : List String) (skel : List String) : List String :=
  skel.filterMap fun st => calls.find? fun c => occursIn c.toList st.toList

def closeCalls : List String :=
  ["f.gzipWriter.Close()", "f.out.Sync()", "f.out.Close()", "exclusiveRename(", "os.Exit(1)"]

/-- **Semantic core of `Close()`** (relaxed in round 6 from equality with one frozen skeleton, which a harmless
rewrite — e.g. clearing `f.out` in a `defer` instead of fix F44's extra statement — broke although the correspondence
leg covers every path of `Close()`): the effect calls in source order are gzip close (error → exit), fsync (→ exit),
close (→ exit), the optimistic exclusive rename (non-EEXIST error → exit), the revision-bump rename (non-EEXIST → exit).
Whether `f.out` is cleared after a successful move (model parameter `Cfg.closeClears`, fix F44) is *probed on the real
function* by the harness; both known shapes `expected_close` / `expected_close_fixed` have this core. -/
theorem close_eq :
    effectCalls closeCalls Nsq.Gen.ToolsToFile.close =
      ["f.gzipWriter.Close()", "os.Exit(1)", "f.out.Sync()", "os.Exit(1)", "f.out.Close()", "os.Exit(1)",
       "exclusiveRename(", "os.Exit(1)", "exclusiveRename(", "os.Exit(1)"] := by
  decide

theorem close_known_shapes_have_core :
    effectCalls closeCalls expected_close = effectCalls closeCalls expected_close_fixed := by decide

def expected_write : List String := [
  "n, err := f.writer.Write(p)",
  "f.filesize += int64(n)",
  "return n, err"]

theorem write_eq : Nsq.Gen.ToolsToFile.write = expected_write := rfl

def expected_sync : List String := [
  "var err error",
  "if f.gzipWriter != nil",
  ".err = f.gzipWriter.Close()",
  ".if err != nil",
  "..return err",
  ".err = f.out.Sync()",
  ".f.gzipWriter, _ = gzip.NewWriterLevel(f.out, f.opts.GZIPLevel)",
  ".f.writer = f.gzipWriter",
  "else",
  ".err = f.out.Sync()",
  "return err"]

theorem sync_eq : Nsq.Gen.ToolsToFile.sync = expected_sync := rfl

def expected_needsRotation : List String := [
  "if f.out == nil",
  ".return true",
  "filename := f.currentFilename()",
  "if filename != f.filename",
  ".return true",
  "if f.opts.RotateInterval > 0",
  ".if s := time.Since(f.openTime); s > f.opts.RotateInterval",
  "..return true",
  "if f.opts.RotateSize > 0 && f.filesize > f.opts.RotateSize",
  ".return true",
  "return false"]

theorem needsRotation_eq : Nsq.Gen.ToolsToFile.needsRotation = expected_needsRotation := rfl

def expected_updateFile : List String := [
  "f.Close()",
  "filename := f.currentFilename()",
  "if filename != f.filename",
  ".f.rev = 0",
  "else",
  ".f.rev++",
  "f.filename = filename",
  "f.openTime = time.Now()",
  "fullPath := path.Join(f.opts.WorkDir, filename)",
  "err := makeDirFromPath(f.logf, fullPath)",
  "if err != nil",
  ".os.Exit(1)",
  "var fi os.FileInfo",
  "for; f.rev++",
  ".absFilename := strings.Replace(fullPath, \"<REV>\", fmt.Sprintf(\"-%06d\", f.rev), -1)",
  ".if f.opts.WorkDir != f.opts.OutputDir",
  "..outputFileName := filepath.Join(f.opts.OutputDir, strings.TrimPrefix(absFilename, f.opts.WorkDir))",
  "..err := makeDirFromPath(f.logf, outputFileName)",
  "..if err != nil",
  "...os.Exit(1)",
  ".._, err = os.Stat(outputFileName)",
  "..if err == nil",
  "...continue",
  "..else",
  "...if !os.IsNotExist(err)",
  "....os.Exit(1)",
  ".openFlag := os.O_WRONLY | os.O_CREATE",
  ".if f.opts.GZIP || f.opts.RotateInterval > 0",
  "..openFlag |= os.O_EXCL",
  ".else",
  "..openFlag |= os.O_APPEND",
  ".f.out, err = os.OpenFile(absFilename, openFlag, 0666)",
  ".if err != nil",
  "..if os.IsExist(err)",
  "...continue",
  "..os.Exit(1)",
  ".fi, err = f.out.Stat()",
  ".if err != nil",
  ".f.filesize = fi.Size()",
  ".if f.opts.RotateSize > 0 && f.filesize > f.opts.RotateSize",
  "..continue",
  ".break",
  "if f.opts.GZIP",
  ".f.gzipWriter, _ = gzip.NewWriterLevel(f.out, f.opts.GZIPLevel)",
  ".f.writer = f.gzipWriter",
  "else",
  ".f.writer = f.out"]

/-- fix F47: before the `break` that accepts the opened file, a non-empty file opened with O_APPEND gets its torn
tail sealed (model parameter `Cfg.sealsTail`, `Model.ToFile.sealTail`) -/
def updateFileSeal : List String := [
  ".if openFlag&os.O_APPEND != 0 && f.filesize > 0",
  "..err = f.sealTornTail(absFilename)",
  "..if err != nil",
  "...os.Exit(1)"]

def expected_updateFile_fixed : List String := expected_updateFile.take 41 ++ updateFileSeal ++ expected_updateFile.drop 41

theorem expected_updateFile_break : (expected_updateFile.drop 41).take 1 = [".break"] := by decide

/-- `sealTornTail`, shape of fix F47 = /repo efaf20c alone (NO LONGER ACCEPTED since F47b = /repo 73f7348 is committed;
kept as the base of `expected_sealTornTail_warns` and so that a revert is named): read the last byte, write "\n" unless
it is one; a failure to open the file for reading or to read the byte is returned to `updateFile`, which exits -/
def expected_sealTornTail : List String := [
  "r, err := os.Open(name)",
  "if err != nil",
  ".return err",
  "defer r.Close()",
  "last := make([]byte, 1)",
  "_, err = r.ReadAt(last, f.filesize-1)",
  "if err != nil",
  ".return err",
  "if last[0] == '\\n'",
  ".return nil",
  "n, err := f.out.Write([]byte(\"\\n\"))",
  "f.filesize += int64(n)",
  "return err"]

/-- `sealTornTail`, shape of the follow-up F47b (= /repo 73f7348, committed; the ONLY accepted shape): the two READ
failures (`os.Open`, `ReadAt`) log a warning (log lines are not part of a skeleton) and return nil — the file is appended
to unsealed; everything else as in F47, in particular `return err` of the write of the "\n" -/
def expected_sealTornTail_warns : List String :=
  (expected_sealTornTail.set 2 ".return nil").set 7 ".return nil"

/-- **`updateFile()` has the shape of fix F47** (/repo efaf20c, committed; audit B12) **and `sealTornTail` is exactly one
frozen function**: the one of the follow-up F47b (/repo 73f7348, committed). The shape before F47 (`expected_updateFile`,
no `sealTornTail`: `Props.C19Lines.fin_owns_line_full_false`) is not accepted: with F47 reverted this tie breaks, the probe
`vfE8ProbeSealsTail` on the real `updateFile()` disagrees with the expected value, and the torn-tail scenarios report
`torn-tail-append` (listed `fixed`) as a VIOLATION. The `sealTornTail` of F47 alone (`expected_sealTornTail`: an
unreadable file is a fatal exit) is not accepted either: with F47b reverted this tie and `tree_seal_read_warns` break and
the probe `vfE8ProbeSealReadWarns` says 0. -/
theorem updateFile_eq :
    Nsq.Gen.ToolsToFile.updateFile = expected_updateFile_fixed ∧
    Nsq.Gen.ToolsToFile.sealTornTail = expected_sealTornTail_warns := by decide

/-- model parameter `Cfg.sealReadWarns`, still computed: `true` iff the regenerated `sealTornTail` is the F47b
function (decided `true` below; `lib/c19_lines.py seal_read_warns_from_gen` makes the same comparison) -/
def sealReadWarns : Bool := decide (Nsq.Gen.ToolsToFile.sealTornTail = expected_sealTornTail_warns)

/-- **this tree warns and appends when the file cannot be read** (F47b = /repo 73f7348): the model runs with
`sealReadWarns := true`, so what is claimed for the tree carries `ReadsOk`
(`Props.C19Lines.fin_owns_line_this_tree_partial`) -/
theorem tree_seal_read_warns : sealReadWarns = true := by decide

/-- the shape of F47 alone is a different function: a tree with F47b reverted fails the two facts above -/
theorem sealTornTail_shapes_differ : expected_sealTornTail ≠ expected_sealTornTail_warns := by decide

/-- **a failure to WRITE the terminating newline is fatal** (F47 and F47b alike): the function ends with the write, the size
update and `return err`; the only `return nil` that follows a successful read is the one for a last byte that IS "\n";
`updateFile` answers a non-nil result with `os.Exit(1)` (`updateFileSeal`, part of `expected_updateFile_fixed`) — the
model's `sealTail` writes through `onOut`, whose failure is `fatalExit` -/
theorem sealTornTail_write_error_fatal :
    Nsq.Gen.ToolsToFile.sealTornTail.drop 8 =
      ["if last[0] == '\\n'", ".return nil", "n, err := f.out.Write([]byte(\"\\n\"))", "f.filesize += int64(n)",
       "return err"] ∧
    (Nsq.Gen.ToolsToFile.updateFile.drop 41).take 5 =
      [".if openFlag&os.O_APPEND != 0 && f.filesize > 0", "..err = f.sealTornTail(absFilename)", "..if err != nil",
       "...os.Exit(1)", ".break"] := by decide

/-- the file is read before anything is written (F47 and F47b alike): open for reading, `ReadAt` of the last byte, and only
then the write -/
theorem sealTornTail_reads_then_writes :
    effectCallsR ["os.Open(name)", "r.ReadAt(last, f.filesize-1)", "f.out.Write("] Nsq.Gen.ToolsToFile.sealTornTail =
      ["os.Open(name)", "r.ReadAt(last, f.filesize-1)", "f.out.Write("] := by decide

/-- the shape of the current tree (model parameter `Cfg.sealsTail`) -/
def updateFileSeals : Bool := decide (Nsq.Gen.ToolsToFile.updateFile = expected_updateFile_fixed)

theorem tree_seals_tail : updateFileSeals = true := by decide

/-- in both shapes: the O_EXCL / O_APPEND choice, the open, the size check; the seal (if any) comes after the
rotate-size `continue` and before the `break` — the order `Model.ToFile.openNew` uses -/
theorem updateFile_open_order :
    effectCallsR ["openFlag |= os.O_EXCL", "openFlag |= os.O_APPEND", "os.OpenFile(", "f.filesize = fi.Size()",
                  "f.sealTornTail(", "break"] Nsq.Gen.ToolsToFile.updateFile =
      (if updateFileSeals then ["openFlag |= os.O_EXCL", "openFlag |= os.O_APPEND", "os.OpenFile(", "f.filesize = fi.Size()",
                                "f.sealTornTail(", "break"]
       else ["openFlag |= os.O_EXCL", "openFlag |= os.O_APPEND", "os.OpenFile(", "f.filesize = fi.Size()", "break"]) := by
  decide

def expected_exclusiveRename : List String := [
  "err := os.Link(src, dst)",
  "if err != nil",
  ".return err",
  "err = os.Remove(src)",
  "if err != nil",
  ".return err",
  "return nil"]

theorem exclusiveRename_eq : Nsq.Gen.ToolsToFile.exclusiveRename = expected_exclusiveRename := rfl

def expected_currentFilename : List String := [
  "t := time.Now()",
  "datetime := strftime(f.opts.DatetimeFormat, t)",
  "return strings.Replace(f.filenameFormat, \"<DATETIME>\", datetime, -1)"]

theorem currentFilename_eq : Nsq.Gen.ToolsToFile.currentFilename = expected_currentFilename := rfl

def expected_computeFilenameFormat : List String := [
  "hostname, err := os.Hostname()",
  "if err != nil",
  ".return \"\", err",
  "shortHostname := strings.Split(hostname, \".\")[0]",
  "identifier := shortHostname",
  "if len(opts.HostIdentifier) != 0",
  ".identifier = strings.Replace(opts.HostIdentifier, \"<SHORT_HOST>\", shortHostname, -1)",
  ".identifier = strings.Replace(identifier, \"<HOSTNAME>\", hostname, -1)",
  "cff := opts.FilenameFormat",
  "if opts.GZIP || opts.RotateSize > 0 || opts.RotateInterval > 0 || opts.WorkDir != opts.OutputDir",
  ".if !strings.Contains(cff, \"<REV>\")",
  "..return \"\", errors.New(\"missing <REV> in --filename-format when gzip, rotation, or work dir enabled\")",
  "else",
  ".cff = strings.Replace(cff, \"<REV>\", \"\", -1)",
  "cff = strings.Replace(cff, \"<TOPIC>\", topic, -1)",
  "cff = strings.Replace(cff, \"<HOST>\", identifier, -1)",
  "cff = strings.Replace(cff, \"<PID>\", fmt.Sprintf(\"%d\", os.Getpid()), -1)",
  "if opts.GZIP && !strings.HasSuffix(cff, \".gz\")",
  ".cff = cff + \".gz\"",
  "return cff, nil"]

theorem computeFilenameFormat_eq : Nsq.Gen.ToolsToFile.computeFilenameFormat = expected_computeFilenameFormat := rfl

/-- position of the first entry equal to `s` (length if absent) -/
def pos (s : String) (l : List String) : Nat := l.findIdx (· == s)

/-- in `router`: `Sync()` is called, its error leads to `os.Exit(1)`, and only then the FIN loop runs -/
theorem router_sync_before_finish :
    pos "...err := f.Sync()" router < pos "....m.Finish()" router
    ∧ pos "....m.Finish()" router < router.length
    ∧ (router.drop (pos "...err := f.Sync()" router)).take 4 =
        ["...err := f.Sync()", "...if err != nil", "....os.Exit(1)", "...for pos > 0"] := by
  rw [router_eq]; decide

/-- in `Sync`: gzip member close, then fsync (both branches fsync) -/
theorem sync_order :
    pos ".err = f.gzipWriter.Close()" sync < pos ".err = f.out.Sync()" sync
    ∧ pos ".err = f.out.Sync()" sync < pos ".f.gzipWriter, _ = gzip.NewWriterLevel(f.out, f.opts.GZIPLevel)" sync
    ∧ pos ".f.gzipWriter, _ = gzip.NewWriterLevel(f.out, f.opts.GZIPLevel)" sync < sync.length := by
  rw [sync_eq]; decide

/-- in `Close`: gzip close, fsync, close, and only then the exclusive rename -/
theorem close_order :
    (effectCalls closeCalls Nsq.Gen.ToolsToFile.close).filter (· != "os.Exit(1)") =
      ["f.gzipWriter.Close()", "f.out.Sync()", "f.out.Close()", "exclusiveRename(", "exclusiveRename("] := by
  rw [close_eq]; decide

/-- `exclusiveRename` is link-then-remove (never rename(2), which would replace the target) -/
theorem exclusiveRename_is_link_then_remove :
    exclusiveRename = ["err := os.Link(src, dst)", "if err != nil", ".return err", "err = os.Remove(src)",
                       "if err != nil", ".return err", "return nil"] := by
  rw [exclusiveRename_eq]; rfl

/-! ### TopicDiscoverer (model `Nsq.Model.ToFileDisc`; `isTopicAllowed` is tied by translation in `Nsq.Tie.ToolsToFileFn`) -/

def expected_updateTopics : List String := [
  "range topics",
  ".if _, ok := t.topics[topic]; ok",
  "..continue",
  ".if !t.isTopicAllowed(topic)",
  "..continue",
  ".fl, err := NewFileLogger(t.logf, t.opts, topic, t.cfg)",
  ".if err != nil",
  "..continue",
  ".t.topics[topic] = fl",
  ".t.wg.Add(1)",
  ".go func(fl *FileLogger) { fl.router() t.wg.Done() }(fl)"]

theorem updateTopics_eq : Nsq.Gen.ToolsToFile.updateTopics = expected_updateTopics := rfl

def expected_discovererRun : List String := [
  "var ticker <-chan time.Time",
  "if len(t.opts.Topics) == 0",
  ".ticker = time.Tick(t.opts.TopicRefreshInterval)",
  "t.updateTopics(t.opts.Topics)",
  "label forloop",
  "for",
  ".select",
  "..case <-ticker",
  "...newTopics, err := t.ci.GetLookupdTopics(t.opts.NSQLookupdHTTPAddrs)",
  "...if err != nil",
  "....continue",
  "...t.updateTopics(newTopics)",
  "..case <-t.termChan",
  "...range t.topics",
  "....close(fl.termChan)",
  "...break forloop",
  "..case <-t.hupChan",
  "...range t.topics",
  "....fl.hupChan <- true",
  "t.wg.Wait()"]

theorem discovererRun_eq : Nsq.Gen.ToolsToFile.discovererRun = expected_discovererRun := rfl

/-- in `run`: the termination requests go out, the loop is left, and only then `wg.Wait()` (the routers
are awaited, not abandoned); the router goroutine is registered with the WaitGroup before it starts -/
theorem discoverer_term_then_wait :
    pos "....close(fl.termChan)" discovererRun < pos "...break forloop" discovererRun
    ∧ pos "...break forloop" discovererRun < pos "t.wg.Wait()" discovererRun
    ∧ pos "t.wg.Wait()" discovererRun < discovererRun.length
    ∧ pos ".t.topics[topic] = fl" updateTopics < pos ".t.wg.Add(1)" updateTopics
    ∧ pos ".t.wg.Add(1)" updateTopics < pos ".go func(fl *FileLogger) { fl.router() t.wg.Done() }(fl)" updateTopics
    ∧ pos ".go func(fl *FileLogger) { fl.router() t.wg.Done() }(fl)" updateTopics < updateTopics.length := by
  rw [discovererRun_eq, updateTopics_eq]; decide

end Nsq.Tie.ToolsToFile
