/-
Tie (kind `afunc`, specs/e2_chanfunc.json): the `clientV2` counter methods and the guard
`IsReadyForMessages` as TRANSLATED Go definitions (`Nsq.Gen.ChanFunc`, regenerated from
nsqd/client_v2.go on every run) proved to have the effect the channel model `Nsq.Model.Chan` has on
the corresponding `Client` fields, absent int64 overflow (only `clIsReady_eq` and `clTimedOut_eq` mention a definition
of `Nsq.Model.Chan`; the others state the arithmetic effect the model's step performs). These replace / back the statement-text facts `isReady_eq`,
`clientFinished_eq`, `clientSending_eq`, `clientDiscarded_eq`, `clientEmpty_eq` of `Nsq.Tie.Chan`
(kept: they also pin the ORDER of calls, which a value-level translation cannot).

Integers: Go's counters are `int64` / `uint64` (wrap-around, here `BitVec 64`), the model's are
`Int` / `Nat`. Each theorem states the side condition under which the two agree (the value does not
leave the int64 range: more than 2^63 messages in flight on one connection — unreachable, RDY is
bounded by max-rdy-count < 2^63 and `C03.inflight_le_rdy`).
The ghost field `wake` counts the calls of `tryUpdateReadyState` (the non-blocking send on
`ReadyStateChan`): every method that can turn the guard from false to true wakes the pump.
-/
import Nsq.Gen.ChanFunc
import Nsq.Model.Chan
namespace Nsq.Tie.ChanFunc
open Nsq.Gen.ChanFunc

theorem toInt_dec (x : BitVec 64) (h : -9223372036854775808 < x.toInt) :
    (x + 18446744073709551615#64).toInt = x.toInt - 1 := by
  rw [BitVec.toInt_add]
  have : (18446744073709551615#64 : BitVec 64).toInt = -1 := by decide
  rw [this]
  have h2 := BitVec.toInt_lt (x := x)
  have h3 := BitVec.le_toInt (x := x)
  simp only [Int.bmod_def]
  omega

theorem toInt_inc (x : BitVec 64) (h : x.toInt < 9223372036854775807) : (x + 1#64).toInt = x.toInt + 1 := by
  rw [BitVec.toInt_add]
  have : (1#64 : BitVec 64).toInt = 1 := by decide
  rw [this]
  have h2 := BitVec.toInt_lt (x := x)
  have h3 := BitVec.le_toInt (x := x)
  simp only [Int.bmod_def]
  omega

/-- the model client that a pair of Go counters stands for -/
def clientOf (rdy inFlight : BitVec 64) : Nsq.Model.Chan.Client :=
  { conn := 0, rdy := rdy.toInt, inFlight := inFlight.toInt }

/-- `clientV2.IsReadyForMessages` = the model's guard `ready` (signed comparison, no side condition),
and it changes nothing -/
theorem clIsReady_eq (c : clIsReadyState) (paused : Bool) :
    (clIsReady c paused).2 = Nsq.Model.Chan.ready paused (clientOf c.ReadyCount c.InFlightCount) ∧
    (clIsReady c paused).1 = c := by
  unfold clIsReady Nsq.Model.Chan.ready clientOf
  cases paused
  · simp only [Bool.false_eq_true, ↓reduceIte, Bool.not_false, Bool.true_and]
    by_cases h1 : c.ReadyCount.toInt ≤ c.InFlightCount.toInt
    · have : BitVec.sle c.ReadyCount c.InFlightCount = true := by simp [BitVec.sle, h1]
      simp only [this, Bool.true_or, ↓reduceIte]
      refine ⟨?_, by first | trivial | rfl⟩
      have : ¬ (c.InFlightCount.toInt < c.ReadyCount.toInt) := by omega
      simp [this]
    · have e1 : BitVec.sle c.ReadyCount c.InFlightCount = false := by simp [BitVec.sle]; omega
      by_cases h2 : c.ReadyCount.toInt ≤ 0
      · have : BitVec.sle c.ReadyCount 0#64 = true := by simp [BitVec.sle, h2]
        simp only [this, Bool.or_true, ↓reduceIte]
        refine ⟨?_, by first | trivial | rfl⟩
        have : ¬ (0 < c.ReadyCount.toInt) := by omega
        simp [this]
      · have e2 : BitVec.sle c.ReadyCount 0#64 = false := by simp [BitVec.sle]; omega
        simp only [e1, e2, Bool.or_self, Bool.false_eq_true, ↓reduceIte]
        refine ⟨?_, by first | trivial | rfl⟩
        have a : 0 < c.ReadyCount.toInt := by omega
        have b : c.InFlightCount.toInt < c.ReadyCount.toInt := by omega
        simp [a, b]
  · simp

/-- `SetReadyCount` stores the value (model `Op.rdy`: `rdy := n`) and wakes the pump iff it changed -/
theorem clSetReady_eq (c : clSetReadyState) (n : BitVec 64) :
    (clSetReady c n).ReadyCount = n ∧
    (clSetReady c n).wake = if c.ReadyCount = n then c.wake else c.wake + 1#64 := by
  unfold clSetReady
  by_cases h : c.ReadyCount = n
  · simp [h]
  · simp [h]

/-- `FinishedMessage` = the model's `finClientPart`: `finCount + 1`, `inFlight - 1`, pump woken -/
theorem clFinished_eq (c : clFinishedState) (h : -9223372036854775808 < c.InFlightCount.toInt) :
    (clFinished c).InFlightCount.toInt = c.InFlightCount.toInt - 1 ∧
    (clFinished c).FinishCount = c.FinishCount + 1#64 ∧ (clFinished c).wake = c.wake + 1#64 :=
  ⟨toInt_dec _ h, rfl, rfl⟩

/-- `RequeuedMessage` = the model's REQ bookkeeping: `reqCount + 1`, `inFlight - 1`, pump woken -/
theorem clRequeued_eq (c : clRequeuedState) (h : -9223372036854775808 < c.InFlightCount.toInt) :
    (clRequeued c).InFlightCount.toInt = c.InFlightCount.toInt - 1 ∧
    (clRequeued c).RequeueCount = c.RequeueCount + 1#64 ∧ (clRequeued c).wake = c.wake + 1#64 :=
  ⟨toInt_dec _ h, rfl, rfl⟩

/-- `TimedOutMessage` = the model's `decIn`, pump woken -/
theorem clTimedOut_eq (c : clTimedOutState) (h : -9223372036854775808 < c.InFlightCount.toInt) :
    (clTimedOut c).InFlightCount.toInt = (Nsq.Model.Chan.decIn (clientOf 0 c.InFlightCount)).inFlight ∧
    (clTimedOut c).wake = c.wake + 1#64 :=
  ⟨toInt_dec _ h, rfl⟩

/-- `SendingMessage` = the model's delivery bookkeeping: `inFlight + 1`, `msgCount + 1` (no wake-up:
the pump itself is running) -/
theorem clSending_eq (c : clSendingState) (h : c.InFlightCount.toInt < 9223372036854775807) :
    (clSending c).InFlightCount.toInt = c.InFlightCount.toInt + 1 ∧
    (clSending c).MessageCount = c.MessageCount + 1#64 :=
  ⟨toInt_inc _ h, rfl⟩

/-- `Discarded(n)` (fix F13) subtracts exactly `n` (model `Op.empty`: `inFlight - heldBy`), pump woken -/
theorem clDiscarded_eq (c : clDiscardedState) (n : BitVec 64) :
    (clDiscarded c n).InFlightCount = c.InFlightCount - n ∧ (clDiscarded c n).wake = c.wake + 1#64 := by
  unfold clDiscarded
  exact ⟨by simp [BitVec.sub_eq_add_neg], rfl⟩

/-- `clientV2.Empty` stores 0 (no longer called by `Channel.Empty` since F13; kept for the interface) -/
theorem clEmpty_eq (c : clEmptyState) : (clEmpty c).InFlightCount = 0#64 ∧ (clEmpty c).wake = c.wake + 1#64 :=
  ⟨rfl, rfl⟩

/-- `Pause` / `UnPause` of a consumer only wake its pump (the flag lives on the channel) -/
theorem clPause_eq (c : clPauseState) (d : clUnPauseState) :
    (clPause c).wake = c.wake + 1#64 ∧ (clUnPause d).wake = d.wake + 1#64 := ⟨rfl, rfl⟩

/-- `Channel.IsPaused` reads the flag: paused ⇔ the stored int32 is 1 -/
theorem chIsPaused_eq (c : chIsPausedState) : (chIsPaused c).2 = (c.paused == 1#32) ∧ (chIsPaused c).1 = c :=
  ⟨rfl, rfl⟩

/-! non-vacuity -/
example : (clIsReady ⟨3#64, 2#64⟩ false).2 = true ∧ (clIsReady ⟨3#64, 3#64⟩ false).2 = false ∧
    (clIsReady ⟨3#64, 2#64⟩ true).2 = false ∧ (clIsReady ⟨0#64, 18446744073709551615#64⟩ false).2 = false := by decide
example : (clSetReady ⟨5#64, 0#64⟩ 5#64).wake = 0#64 ∧ (clSetReady ⟨5#64, 0#64⟩ 3#64).wake = 1#64 := by decide
example : (clFinished ⟨1#64, 7#64, 0#64⟩).InFlightCount = 0#64 := by decide

end Nsq.Tie.ChanFunc
