import Nsq.Gen.Life
import Nsq.Model.TopicDelete
/-
Tie obligations of the topic-deletion race model (Model/TopicDelete.lean): the shape of `protocolV2.SUB`'s
re-check and of `NSQD.DeleteExistingTopic` on the current tree selects the model parameters.
-/
namespace Nsq.Tie.TopicDelete

/-- SUB: GetTopic, GetChannel, AddClient, then the `Exiting()` re-check with RemoveClient — one `sub` step of
the model (the retry after 100 ms is a second `sub` attempt of the same connection, refused the same way) -/
theorem sub_calls : Nsq.Gen.Life.subCalls = ["GetTopic", "GetChannel", "AddClient", "Exiting", "Exiting", "RemoveClient"] := by
  decide

/-- the re-check covers ephemeral topics only (a SUB racing the deletion of a durable topic is attached to the
dead object — `Props.C08TopicDelete.witnessZombie`) or every topic (fixes/F19) -/
theorem sub_guard_shape :
    Nsq.Gen.Life.subGuard = ["if (channel.ephemeral && channel.Exiting()) || topic.Exiting()"] := by decide

/-- `DeleteExistingTopic`: lookup under the read lock, `topic.Delete()`, then under the write lock the unlink
and the post-delete persist; either the result of `Delete()` is ignored and the *name* is unlinked
(`witnessDouble`), or a deletion that lost the CAS returns and the unlink is guarded by the identity of the
object (fixes/F20) -/
theorem delete_topic_shape :
    Nsq.Gen.Life.deleteTopicCalls = ["RLock", "RUnlock", "RUnlock", "Delete", "Lock", "delete", "persistMetadataAfterDelete", "Unlock"] ∧
    Nsq.Gen.Life.deleteTopicStmts = ["if err == errExiting", "if n.topicMap[topicName] == topic"] := by decide

/-- the ephemeral topic's `deleteCallback` is `DeleteExistingTopic` of the topic's *name*: the model's
`delBegin … delUnlink` steps, enabled whenever the name is registered -/
theorem delete_callback_is_delete_by_name :
    Nsq.Gen.Life.deleteCallbackStmts = ["assign deleteCallback := func(t *Topic) { n.DeleteExistingTopic(t.name) }"] := by
  decide

/-- the model instance the current tree selects -/
def treeModel : Nsq.Model.TopicDelete.DSt :=
  { subGuard := Nsq.Gen.Life.subGuard == ["if (channel.ephemeral && channel.Exiting()) || topic.Exiting()"],
    ownUnlink := Nsq.Gen.Life.deleteTopicStmts == ["if err == errExiting", "if n.topicMap[topicName] == topic"] }

/-- F19 (/repo 8445d6a) and F20 (dbf8a73) are committed: the tree's instance **is** the repaired one (audit B12:
no disjunction any more) — `Props.C08TopicDelete.no_zombie_fixed` is thereby a theorem about the tree, and a tree
that reverts either repair breaks this tie (and the replays `topic_delete_races_sub`, `topic_double_delete_unlinks_fresh`) -/
theorem tree_model_known : treeModel = Nsq.Model.TopicDelete.fixedTree := by decide

end Nsq.Tie.TopicDelete
