import Nsq.Gen.E6Facts
import Nsq.Model.LookupSync
/-!
Tie (regenerated facts) for C16: guards and order of effects that `Nsq.Model.LookupSync` assumes,
re-extracted from the current tree on every run (`tools/go2lean`, kinds `stmts` and `seq`).
-/
namespace Nsq.Tie.LookupSync
open Nsq.Gen.E6Facts

/-- `readResponseBounded`: size read, **negative size rejected**, size over the limit rejected, and only then
`make([]byte, msgSize)` (`readResponse true`). Without fixes/F3_lookup_peer_negative_size.patch this fails. -/
theorem readResponse_guards :
    readResponseGuards =
      ["assign err := binary.Read(r, binary.BigEndian, &msgSize)",
       "if msgSize < 0",
       "return return nil, fmt.Errorf(\"response body size (%d) is negative\", msgSize)",
       "if int64(msgSize) > limit",
       "return return nil, fmt.Errorf(\"response body size (%d) is greater than limit (%d)\", msgSize, limit)",
       "assign buf := make([]byte, msgSize)"] ∧
    readResponseCalls = ["call:Read", "return", "return", "return", "call:make", "call:ReadFull", "return", "return"] :=
  ⟨rfl, rfl⟩

/-- `lookupPeer.Command`: when not connected: Connect, state := connected, magic, connectCallback (only from
`stateDisconnected`), and if the callback left the peer disconnected the command fails; then write + bounded read;
every failure path calls `Close` (`LookupSync.command`: any failure ⇒ `conn := down`), and — F36, /repo abf2660 — a
reply that starts with `E_` closes the connection too (`commandR true` = `command`). F36 is committed: ONLY this shape is
accepted (audit B12). The shape before it (the reply is returned whatever it says: `commandR false`, finding
`register-rejected-not-retried`, listed `fixed`) breaks this tie, and its replay
corpus/C16/fixed/register_rejected.ops then fails as a VIOLATION. -/
def commandShapeF36 : Prop :=
    command = ["assign:initialState := lp.state", "call:Connect", "assign:lp.state = stateConnected", "call:Write",
      "call:Close", "call:connectCallback", "call:WriteTo", "call:Close", "call:readResponseBounded", "call:Close",
      "call:Close"] ∧
    commandGuards = ["assign initialState := lp.state", "if lp.state != stateConnected",
      "assign lp.state = stateConnected", "if initialState == stateDisconnected", "if lp.state != stateConnected",
      "if cmd == nil", "if bytes.HasPrefix(resp, []byte(\"E_\"))"]

instance : Decidable commandShapeF36 := by unfold commandShapeF36; infer_instance

theorem command_shape :
    commandShapeF36 ∧ peerClose = ["assign:lp.state = stateDisconnected", "call:Close"] := by decide

/-- COMPUTED from the regenerated facts: the `f36` parameter of `LookupMore.commandR` / `runR` for this tree;
`Props.C16More.converges_with_rejections_this_tree` is stated over it -/
def treeF36 : Bool := decide commandShapeF36

theorem tree_f36 : treeF36 = true := by decide

/-- The read deadline (audit C9; F39, /repo 233d375): `lookupPeer.Read` uses `lp.deadline`, which `Command` sets once
before the magic write and once before each round trip (write + bounded read): a round trip takes at most 1 s. F39 is
committed: ONLY this shape is accepted (audit B12). The shape before it — `Read` sets a fresh `time.Now()`-based deadline
for EVERY Read, `Command` sets none: a drip-fed reply is never timed out (finding `slow-reply-holds-lookup-loop`, listed
`fixed`, replay corpus/C16/fixed/slow_drip_reply.ops) — breaks this tie. -/
theorem read_deadline_shape :
    peerRead = ["call:SetReadDeadline", "call:Read"] ∧
    commandDeadline = ["assign:lp.deadline = time.Now().Add(time.Second)", "call:Write",
      "assign:lp.deadline = time.Now().Add(time.Second)", "call:WriteTo", "call:readResponseBounded"] := by decide

/-- `connectCallback` (tree with fixes/F14_connect_callback_skips_exiting.patch): IDENTIFY round trip, then under the
read locks every topic's `Exiting()` is tested before its channel map is read and every channel's `Exiting()` before its
REGISTER is built; `REGISTER topic` alone is sent only when no channel was registered (`callbackCmds objs dead`);
then the commands are sent one by one. Without the patch the `Exiting` calls are absent and this fails. -/
theorem connectCallback_shape :
    connectCallback = ["call:Identify", "call:Close", "call:Command", "call:Close", "call:Unmarshal", "call:Close",
      "call:RLock", "call:Exiting", "call:RLock", "call:Exiting", "call:Register", "call:Register", "call:RUnlock",
      "call:RUnlock", "call:Command"] ∧
    connectCallbackNesting = [("Register", ["func", "for range n.topicMap", "for range topic.channelMap"]),
      ("Register", ["func", "for range n.topicMap", "if !registered"])] := ⟨rfl, rfl⟩

/-- `lookupLoop` (tree with fixes/F15_lookup_notify_current_state.patch): new peers get `Command(nil)`; the ticker
branch PINGs every peer; the notify branch chooses REGISTER / UNREGISTER from `lookupHasChannel` / `lookupHasTopic`,
i.e. from the CURRENT state of the notified *name* (`nameLive`), not from the notified object's flag, and sends it to
every peer; removed peers are closed. Without the patch (`Exiting()` of the object) this fails. -/
theorem lookupLoop_shape :
    lookupLoop = ["call:Reset", "call:newLookupPeer", "call:Command", "call:Ping", "call:Command",
      "call:lookupHasChannel", "call:Register", "call:UnRegister", "call:lookupHasTopic", "call:Register",
      "call:UnRegister", "call:Command", "call:Close"] ∧
    lookupHasTopic = ["assign t, ok := n.topicMap[topicName]", "return return ok && !t.Exiting()"] ∧
    lookupHasChannel = ["assign t, ok := n.topicMap[topicName]", "if !ok || t.Exiting()", "return return false",
      "assign c, ok := t.channelMap[channelName]", "return return ok && !c.Exiting()"] := ⟨rfl, rfl, rfl⟩

/-- `GetTopic` on a new topic: lookupd channel query and `GetChannel` for each non-`#ephemeral`, VALID name (F35, /repo
d2805fe: `IsValidChannelName` is tested before `GetChannel`: `precreateG true` = `precreate`) happen *before*
`t.Start()`; skipped while loading metadata and (F26, /repo 1121881) while nsqd is exiting — then the topic is handed out
CLOSED and nothing is pre-created or started (`LookupSync.precreate` describes an nsqd that is neither loading nor
exiting). F35 is committed: ONLY this shape is accepted (audit B12). The shape before it (every other name is created
verbatim: `precreateG false`, finding `precreate-unvalidated-channel-name`, listed `fixed`) breaks this tie, and the
harness cases `prex bad…` then report the created names as a VIOLATION. -/
def precreateShapeF35 : Prop :=
    getTopicPrecreate = ["call:NewTopic", "call:Close", "call:lookupdHTTPAddrs", "call:GetLookupdTopicChannels",
      "call:HasSuffix", "call:IsValidChannelName", "call:GetChannel", "call:Start"] ∧
    getTopicGuards = ["assign exiting := atomic.LoadInt32(&n.isExiting) == 1", "if exiting",
      "if atomic.LoadInt32(&n.isLoading) == 1", "if len(lookupdHTTPAddrs) > 0",
      "if strings.HasSuffix(channelName, \"#ephemeral\")", "if !protocol.IsValidChannelName(channelName)"]

instance : Decidable precreateShapeF35 := by unfold precreateShapeF35; infer_instance

theorem getTopic_precreate_before_start : precreateShapeF35 := by decide

/-- COMPUTED: the `f35` parameter of `LookupSync.precreateG` for this tree (`Props.C16More.no_injection_this_tree`) -/
def treeF35 : Bool := decide precreateShapeF35

theorem tree_f35 : treeF35 = true := by decide

/-- which lookupds `GetTopic` asks (`Lookupd.identified`): `lookupdHTTPAddrs()` takes every configured peer whose cached
`Info.BroadcastAddress` is non-empty — set by a successful IDENTIFY, never cleared — and nothing else is tested: in
particular NOT the state of the TCP connection (seeded C16-m8 adds `lp.state != stateConnected`). -/
theorem httpAddrs_only_needs_identified :
    httpAddrsGuards = ["assign lookupPeers := n.lookupPeers.Load()", "if lookupPeers == nil",
      "if len(lp.Info.BroadcastAddress) <= 0",
      "assign addr := net.JoinHostPort(lp.Info.BroadcastAddress, strconv.Itoa(lp.Info.HTTPPort))"] ∧
    httpAddrsNesting = [("JoinHostPort", ["for range lookupPeers.([]*lookupPeer)"])] := ⟨rfl, rfl⟩

/-- `Topic.DeleteExistingChannel` (/repo c687824, F22): `channel.Delete()` is unconditional (its result is ignored: an
overlapping deleter goes on) and the unlink is guarded by the identity test — the map entry is removed only while it
still is the looked-up object (`LookupMore.stepD true`). The by-name shape (`stepD false`) is no longer accepted:
its witness `C16More.converges_false_without_F22` is replayed by corpus/C16/fixed/double_delete_channel.ops. -/
theorem deleteChannel_unlinks_own_object :
    deleteChannelUnlink = [("Delete", []), ("delete", ["if t.channelMap[channelName] == channel"])] := rfl

/-- Statement shape of the pre-creation: the `GetChannel` loop over the returned names is enclosed only by "some
lookupd is known" — **not** by a test of the query's error — and `GetLookupdTopicChannels` returns the partial union
together with the error when only some lookupds failed, `nil` only when all failed (`precreate`: union over the
`some` answers). -/
theorem getTopic_loop_not_guarded_by_err :
    getTopicNesting = [("GetLookupdTopicChannels", ["if len(lookupdHTTPAddrs) > 0"]),
      ("GetChannel", ["if len(lookupdHTTPAddrs) > 0", "for range channelNames"]), ("Start", [])] ∧
    topicChannelsContract = ["if len(errs) == len(lookupdHTTPAddrs)", "if len(errs) > 0",
      "return return channels, ErrList(errs)", "return return channels, nil"] := ⟨rfl, rfl⟩

/-- `Notify` hands the object to lookupLoop from its own goroutine (unordered: the model's bag). -/
theorem notify_is_a_goroutine : notifySend = ["call:Wrap", "call:verifPoint"] := rfl

end Nsq.Tie.LookupSync
