import Nsq.Gen.Codec
import Nsq.Model.Base10
/-!
Tie for C09 (numbers): the definition of `ByteToBase10` regenerated from internal/protocol/byte_base10.go
by the translator (`specs/e1_codec.json` → `Nsq.Gen.Codec.byteToBase10`, 64-bit machine arithmetic)
computes exactly the model `Nsq.Model.Base10.byteToBase10` (natural numbers with an explicit
overflow test) on every byte string.
-/
namespace Nsq.Tie.ProtoBase10
open Nsq.Model.Base10

def toBytes (b : List (BitVec 8)) : List UInt8 := b.map UInt8.ofBitVec

/-- The model's answer rendered like the Go return values `(n, err)`. -/
def render : Option Nat → BitVec 64 × String
  | some n => (BitVec.ofNat 64 n, "")
  | none => (0#64, "errBase10")

theorem loop_eq : ∀ (b : List (BitVec 8)) (acc : Nat), acc ≤ maxU64 →
    Nsq.Gen.Codec.byteToBase10.loop b (BitVec.ofNat 64 acc) "" 10#64 = render (b10loop (toBytes b) acc)
  | [], acc, _ => by simp [Nsq.Gen.Codec.byteToBase10.loop, toBytes, b10loop, render]
  | d :: ds, acc, hacc => by
    unfold maxU64 at hacc
    have hd := d.isLt
    unfold Nsq.Gen.Codec.byteToBase10.loop
    simp only [toBytes, List.map_cons, b10loop]
    have hdn : (UInt8.ofBitVec d).toNat = d.toNat := rfl
    rw [hdn]
    by_cases hdig : 48 ≤ d.toNat ∧ d.toNat ≤ 57
    · have c1 : (BitVec.ule 48#8 d && BitVec.ule d 57#8) = true := by
        simp [BitVec.ule, hdig.1, hdig.2]
      simp only [c1, if_true, hdig, and_self]
      have hv : (d - 48#8).toNat = d.toNat - 48 := by
        rw [BitVec.toNat_sub]; simp; omega
      have hsw : (BitVec.setWidth 64 (d - 48#8)).toNat = d.toNat - 48 := by
        rw [BitVec.toNat_setWidth, hv]; omega
      have hsub : (18446744073709551615#64 - BitVec.setWidth 64 (d - 48#8)).toNat = 18446744073709551615 - (d.toNat - 48) := by
        rw [BitVec.toNat_sub, hsw]; simp; omega
      have hdiv : ((18446744073709551615#64 - BitVec.setWidth 64 (d - 48#8)) / 10#64).toNat =
          (18446744073709551615 - (d.toNat - 48)) / 10 := by
        rw [BitVec.toNat_udiv, hsub]; rfl
      have hacc' : (BitVec.ofNat 64 acc).toNat = acc := by
        rw [BitVec.toNat_ofNat]; omega
      by_cases hov : acc > (maxU64 - (d.toNat - 48)) / 10
      · have c2 : BitVec.ult ((18446744073709551615#64 - BitVec.setWidth 64 (d - 48#8)) / 10#64) (BitVec.ofNat 64 acc) = true := by
          simp only [BitVec.ult, hdiv, hacc', decide_eq_true_eq]
          unfold maxU64 at hov; omega
        simp only [c2, if_true, hov, render]
      · have c2 : BitVec.ult ((18446744073709551615#64 - BitVec.setWidth 64 (d - 48#8)) / 10#64) (BitVec.ofNat 64 acc) = false := by
          simp only [BitVec.ult, hdiv, hacc', decide_eq_false_iff_not]
          unfold maxU64 at hov; omega
        simp only [c2, Bool.false_eq_true, if_false, hov]
        have hnext : BitVec.ofNat 64 acc * 10#64 + BitVec.setWidth 64 (d - 48#8) =
            BitVec.ofNat 64 (acc * 10 + (d.toNat - 48)) := by
          apply BitVec.eq_of_toNat_eq
          rw [BitVec.toNat_add, BitVec.toNat_mul, hacc', hsw, BitVec.toNat_ofNat]
          unfold maxU64 at hov
          simp
        rw [hnext]
        exact loop_eq ds _ (by unfold maxU64 at *; omega)
    · have c1 : (BitVec.ule 48#8 d && BitVec.ule d 57#8) = false := by
        simp only [BitVec.ule, Bool.and_eq_false_iff, decide_eq_false_iff_not]
        simp
        omega
      simp only [c1, Bool.false_eq_true, if_false, hdig, render]

/-- `ByteToBase10` as regenerated from the Go source = the model, for every input. -/
theorem byteToBase10_eq (b : List (BitVec 8)) :
    Nsq.Gen.Codec.byteToBase10 b = render (byteToBase10 (toBytes b)) := by
  unfold Nsq.Gen.Codec.byteToBase10 byteToBase10
  exact loop_eq b 0 (by unfold maxU64; omega)

end Nsq.Tie.ProtoBase10
