import Nsq.Gen.Proto
import Nsq.Model.Identify
/-!
Tie for the field-by-field IDENTIFY model: regenerated facts about `protocolV2.IDENTIFY` and
`identifyDataV2` (`specs/e3_proto.json`: kinds `structfields`, `stmts`). The behavioural tie is the
`idn` correspondence leg; the setters are tied by translation (`Nsq.Tie.ProtoFunc`).
-/
namespace Nsq.Tie.ProtoIdentify
open Nsq.Model.Identify

/-- (semantic) JSON keys and Go types of the response document, in order: the twelve fields of
`Identify.Resp` plus `version` and the two topology strings (option echoes). -/
theorem response_fields : Nsq.Gen.Proto.identifyRespFields.map (fun f => (f.2.2, f.2.1)) = [
  ("max_rdy_count", "int64"), ("version", "string"), ("max_msg_timeout", "int64"), ("msg_timeout", "int64"),
  ("tls_v1", "bool"), ("deflate", "bool"), ("deflate_level", "int"), ("max_deflate_level", "int"), ("snappy", "bool"),
  ("sample_rate", "int32"), ("auth_required", "bool"), ("output_buffer_size", "int"), ("output_buffer_timeout", "int64"),
  ("topology_region", "string"), ("topology_zone", "string")] := by decide

/-- (semantic) JSON keys and Go types of `identifyDataV2`: the nine values of `IdentifyData`,
`deflate_level` and the five metadata strings of `Identify.IdFull`. -/
theorem request_fields : Nsq.Gen.Proto.identifyDataFields.map (fun f => (f.2.2, f.2.1)) = [
  ("client_id", "string"), ("hostname", "string"), ("heartbeat_interval", "int"), ("output_buffer_size", "int"),
  ("output_buffer_timeout", "int"), ("feature_negotiation", "bool"), ("tls_v1", "bool"), ("deflate", "bool"),
  ("deflate_level", "int"), ("snappy", "bool"), ("sample_rate", "int32"), ("user_agent", "string"), ("msg_timeout", "int"),
  ("topology_region", "string"), ("topology_zone", "string")] := by decide

/-- (text) the negotiation: which option gates which feature, the level default 6, the two clamps,
the exclusivity check *before* the document is built, the order of the upgrades. -/
theorem negotiation_text :
    (Nsq.Gen.Proto.identifyNegotiation.take 10, Nsq.Gen.Proto.identifyNegotiation.drop 11) = ([
      "assign tlsv1 := p.nsqd.tlsConfig != nil && identifyData.TLSv1",
      "assign deflate := p.nsqd.getOpts().DeflateEnabled && identifyData.Deflate",
      "assign deflateLevel := 6",
      "if deflate && identifyData.DeflateLevel > 0",
      "assign deflateLevel = identifyData.DeflateLevel",
      "if max < deflateLevel",
      "assign deflateLevel = max",
      "assign snappy := p.nsqd.getOpts().SnappyEnabled && identifyData.Snappy",
      "if deflate && snappy",
      "return return nil, protocol.NewFatalClientErr(nil, \"E_IDENTIFY_FAILED\", \"cannot enable both deflate and snappy compression\")"],
     ["if tlsv1", "if snappy", "if deflate", "assign err = client.UpgradeDeflate(deflateLevel)"]) := by rfl

end Nsq.Tie.ProtoIdentify
