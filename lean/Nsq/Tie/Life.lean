import Nsq.Gen.Life
import Nsq.Model.LifeLock
/-
Tie obligations of C08 against the facts regenerated from the current tree (Nsq.Gen.Life).
-/
namespace Nsq.Tie.Life
open Nsq.Model.LifeLock

/-- the lock-nesting relation extracted from nsqd/ has a topological order -/
theorem lock_order_acyclic : acyclicB Nsq.Gen.Life.lockEdges = true := by decide

/-- the guard of `removeFromInFlightPQ` is one of the two modelled forms -/
def guardUnfixed : List String := ["if msg.index == -1"]
def guardFixed : List String :=
  ["if msg.index < 0 || msg.index >= len(c.inFlightPQ) || c.inFlightPQ[msg.index] != msg"]

/-- `true` when the tree carries fixes/F7_stale_index.patch (model parameter `fixed`) -/
def treeFixed : Bool := Nsq.Gen.Life.removeGuard == guardFixed

/-- F7 is committed (/repo 80a0e5f): only the patched guard is accepted (audit B12) — `Props.C08.no_fault` is a
theorem about `fixed = true`, and this tie is what makes it a statement about the tree -/
theorem remove_guard_known : Nsq.Gen.Life.removeGuard = guardFixed := by decide

theorem tree_fixed : treeFixed = true := by decide

/-- `Channel.Empty`: lock, reset both structures, the hook, every consumer's counter adjustment (F13, /repo 2a83354,
committed: `Discarded(n)` subtracts exactly what the reset dropped, `client.Empty()` only for foreign consumers),
backend.Empty. The shape before F13 (`client.Empty()` zeroes every counter: no `Discarded` call) is no longer
accepted (audit B12). -/
theorem empty_calls :
    Nsq.Gen.Life.emptyCalls = ["Lock", "initPQ", "verifPoint", "Discarded", "Empty", "Empty"] := by decide

/-- `Channel.exit`: once-only flag, notify, close consumers, then Empty + backend.Delete (delete)
or flush + backend.Close (close) -/
theorem chan_exit_calls :
    Nsq.Gen.Life.chanExitCalls = ["CompareAndSwapInt32", "Notify", "Close", "Empty", "Delete", "flush", "Close"] := by
  decide

/-- `DeleteExistingChannel`: lookup under the read lock; Channel.Delete() before the unlink; the unlink
and the count of the channels that are left (`len` **after** `delete`, both inside the write-locked
section — the count decides the ephemeral topic's once-only delete callback); persist; callback -/
theorem delete_chan_calls :
    Nsq.Gen.Life.deleteChanCalls =
      ["RLock", "RUnlock", "Delete", "Lock", "delete", "len", "Unlock", "Lock", "Unlock", "Do"] ∧
    Nsq.Gen.Life.deleteChanNum =
      ["assign numChannels := len(t.channelMap)", "if numChannels == 0 && t.ephemeral"] := by decide

/-- `RemoveClient`: exiting check, removal, once-only ephemeral delete -/
theorem remove_client_calls : Nsq.Gen.Life.removeClientCalls = ["Exiting", "delete", "Do"] := by decide

/-- the timeout scan has one of the two modelled shapes: heap pop and a separate `popInFlightMessage`
(two critical sections), or — fixes/scan_pop_atomic.patch — heap pop and map `delete` in one -/
def scanTwoSections : List String := ["PeekAndShift", "popInFlightMessage", "TimedOutMessage", "put"]
def scanOneSection : List String := ["PeekAndShift", "delete", "TimedOutMessage", "put"]

/-- model parameter `St.scanAtomic` for this tree -/
def treeScanAtomic : Bool := Nsq.Gen.Life.scanCalls == scanOneSection

/-- F16 is committed: only the one-section scan is accepted (audit B12) -/
theorem scan_shape_known : Nsq.Gen.Life.scanCalls = scanOneSection := by decide

theorem tree_scan_atomic : treeScanAtomic = true := by decide

/-! ### F48: map insert and heap push of a delivery / TOUCH are one critical section (`St.pushAtomic`) -/

/-- model parameter `St.pushAtomic` for this tree: `pushInFlightMessage` pushes the heap entry between its `Lock`
and its final `Unlock`, and neither caller has a second heap-push section -/
def treePushAtomic : Bool :=
  Nsq.Gen.Life.pushInflightCalls == ["Lock", "Unlock", "Push", "Unlock"] &&
  Nsq.Gen.Life.startInflightCalls == ["pushInFlightMessage"] &&
  Nsq.Gen.Life.touchPushCalls == ["popInFlightMessage", "removeFromInFlightPQ", "pushInFlightMessage"]

/-- F48 is committed (/repo 88fd245): only the one-section shape is accepted.  `Lock, Unlock, Push, Unlock`: the
first `Unlock` is the early return "ID already in flight" (nothing inserted, nothing pushed — model: the
`o ∈ s.map` branch), the `Push` sits before the final `Unlock` -/
theorem push_shape_known :
    Nsq.Gen.Life.pushInflightCalls = ["Lock", "Unlock", "Push", "Unlock"] ∧
    Nsq.Gen.Life.startInflightCalls = ["pushInFlightMessage"] ∧
    Nsq.Gen.Life.touchPushCalls = ["popInFlightMessage", "removeFromInFlightPQ", "pushInFlightMessage"] := by decide

theorem tree_push_atomic : treePushAtomic = true := by decide

/-! ### F27 (/repo ebb5df3, committed): REQ / TOUCH hold the channel's read lock (`St.ansLock`) -/

def reqSeqF18 : List String :=
  ["call:c.exitMutex.RLock", "defer:RUnlock", "call:c.popInFlightMessage", "call:c.removeFromInFlightPQ", "call:c.put",
   "call:c.StartDeferredTimeout"]
def reqSeqF27 : List String :=
  ["call:c.exitMutex.RLock", "defer:RUnlock", "call:c.RLock", "defer:RUnlock", "call:c.popInFlightMessage",
   "call:c.removeFromInFlightPQ", "call:c.put", "call:c.StartDeferredTimeout"]
def touchSeqF18 : List String :=
  ["call:c.exitMutex.RLock", "defer:RUnlock", "call:c.popInFlightMessage", "call:c.removeFromInFlightPQ",
   "call:c.pushInFlightMessage"]
def touchSeqF27 : List String :=
  ["call:c.exitMutex.RLock", "defer:RUnlock", "call:c.RLock", "defer:RUnlock", "call:c.popInFlightMessage",
   "call:c.removeFromInFlightPQ", "call:c.pushInFlightMessage"]

/-- model parameter `St.ansLock` for this tree: both answers take `c.RLock` (deferred unlock: held until they
return) after `exitMutex.RLock` and before `popInFlightMessage` -/
def treeAnsLock : Bool :=
  Nsq.Gen.Life.reqLockSeq == reqSeqF27 && Nsq.Gen.Life.touchLockSeq == touchSeqF27

/-- F27 is committed (/repo ebb5df3): ONLY its shape is accepted, consistently over both functions (`ansLock = true`;
audit B12). The shape with F18 alone (`reqSeqF18`/`touchSeqF18`: `ansLock = false`, findings
`empty-races-req-message-survives` / `empty-races-touch-message-survives`, listed `fixed`) breaks this tie, and the hook
replays `empty_races_req_survives` / `empty_races_touch_survives` then report the surviving message as a VIOLATION. -/
theorem answers_channel_lock_shape :
    Nsq.Gen.Life.reqLockSeq = reqSeqF27 ∧ Nsq.Gen.Life.touchLockSeq = touchSeqF27 := by decide

theorem tree_ans_lock : treeAnsLock = true := by decide

/-- `Channel.Empty` holds the channel's write lock (deferred unlock) over `initPQ` and everything after it: the model's
three sections of Empty are one `c.Lock` critical section (`emptyRunning` ⇒ `reqPop`/`touchPop` disabled with `ansLock`) -/
theorem empty_holds_channel_lock :
    Nsq.Gen.Life.emptyLockSeq = ["call:c.Lock", "defer:Unlock", "call:c.initPQ"] := by decide

/-- no function of nsqd/ acquires a lock it may already hold (directly or through any callee the call graph resolves):
in particular no callee of `RequeueMessage` / `TouchMessage` takes `c.RLock` again — a second read lock while
`Empty` waits for the write lock would deadlock (sync.RWMutex blocks new readers behind a waiting writer).
With fixes/F27 applied the relation gains no edge at all (`Channel.RWMutex → inFlightMutex/deferredMutex` exist through
`Empty → initPQ`); a recursive acquisition would add the pair `(Channel.RWMutex, Channel.RWMutex)`. -/
theorem no_recursive_lock : Nsq.Gen.Life.lockEdges.all (fun e => e.1 != e.2) = true := by decide

/-! ### audit B22: what the acyclicity fact rests on -/

/-- the calls the extractor could NOT follow (function-typed fields): pinned, so that a new unresolved call site —
which the acyclicity theorem would silently not cover — breaks this tie and is looked at.  Each of the eight was
reviewed: `deleteCallback` (both) runs in its own goroutine (`go c.deleter.Do`, `go t.deleter.Do`-style: nothing of
the caller is held), `ctxCancel`/`exitFunc`/`logf` take no nsqd lock, `connectCallback` is called by `lookupPeer.Command`
from `lookupLoop`/`queryLookupd` with no nsqd mutex held. -/
theorem unresolved_calls_pinned :
    Nsq.Gen.Life.lockEdgesUnresolved =
      ["Channel.RemoveClient$1: c.deleteCallback(...)", "NSQD.Exit: n.ctxCancel(...)", "NSQD.Main$6: exitFunc(...)",
       "NSQD.Main$7: exitFunc(...)", "NSQD.Main$8: exitFunc(...)", "Topic.DeleteExistingChannel$13: t.deleteCallback(...)",
       "lookupPeer.Command: lp.connectCallback(...)", "lookupPeer.Connect: lp.logf(...)"] := by decide

/-- must-hold edges: the nestings the models RELY on (deleting one of these acquisitions would make the relation
smaller, hence still acyclic — but the model would be wrong): Empty resets both structures under `c.Lock`; REQ/TOUCH and
the scans work under `exitMutex.RLock`; AddClient/RemoveClient take `c.Lock` under `exitMutex`; Exit closes the topics
under the NSQD lock; a topic closes/creates its channels under its own lock; GetMetadata reads a topic under the NSQD lock -/
theorem must_hold_edges :
    [("Channel.RWMutex", "Channel.inFlightMutex"), ("Channel.RWMutex", "Channel.deferredMutex"),
     ("Channel.exitMutex", "Channel.inFlightMutex"), ("Channel.exitMutex", "Channel.deferredMutex"),
     ("Channel.exitMutex", "Channel.RWMutex"), ("NSQD.RWMutex", "Topic.RWMutex"), ("NSQD.RWMutex", "Channel.exitMutex"),
     ("Topic.RWMutex", "Channel.exitMutex"), ("Topic.RWMutex", "Channel.RWMutex")].all
      (fun e => Nsq.Gen.Life.lockEdges.contains e) = true := by decide

end Nsq.Tie.Life
