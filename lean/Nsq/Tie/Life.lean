import Nsq.Gen.Life
import Nsq.Model.LifeLock
/-
Tie obligations of C08 against the facts regenerated from the current tree (Nsq.Gen.Life).
-/
namespace Nsq.Tie.Life
open Nsq.Model.LifeLock

/-- the lock-nesting relation extracted from nsqd/ has a topological order -/
theorem lock_order_acyclic : acyclicB Nsq.Gen.Life.lockEdges = true := by decide

/-- the guard of `removeFromInFlightPQ` is one of the two modelled forms -/
def guardUnfixed : List String := ["if msg.index == -1"]
def guardFixed : List String :=
  ["if msg.index < 0 || msg.index >= len(c.inFlightPQ) || c.inFlightPQ[msg.index] != msg"]

/-- `true` when the tree carries fixes/F7_stale_index.patch (model parameter `fixed`) -/
def treeFixed : Bool := Nsq.Gen.Life.removeGuard == guardFixed

/-- F7 is committed (/repo 80a0e5f): only the patched guard is accepted (audit B12) — `Props.C08.no_fault` is a
theorem about `fixed = true`, and this tie is what makes it a statement about the tree -/
theorem remove_guard_known : Nsq.Gen.Life.removeGuard = guardFixed := by decide

theorem tree_fixed : treeFixed = true := by decide

/-- `Channel.Empty`: lock, reset both structures, the hook, every consumer's counter adjustment
(`client.Empty()`: zero it — or, with fixes/F13_empty_vs_inflight_accounting.patch, `Discarded(n)`:
subtract exactly what the reset dropped, `Empty()` only for foreign consumers), backend.Empty -/
theorem empty_calls :
    Nsq.Gen.Life.emptyCalls = ["Lock", "initPQ", "verifPoint", "Empty", "Empty"] ∨
    Nsq.Gen.Life.emptyCalls = ["Lock", "initPQ", "verifPoint", "Discarded", "Empty", "Empty"] := by decide

/-- `Channel.exit`: once-only flag, notify, close consumers, then Empty + backend.Delete (delete)
or flush + backend.Close (close) -/
theorem chan_exit_calls :
    Nsq.Gen.Life.chanExitCalls = ["CompareAndSwapInt32", "Notify", "Close", "Empty", "Delete", "flush", "Close"] := by
  decide

/-- `DeleteExistingChannel`: lookup under the read lock; Channel.Delete() before the unlink; the unlink
and the count of the channels that are left (`len` **after** `delete`, both inside the write-locked
section — the count decides the ephemeral topic's once-only delete callback); persist; callback -/
theorem delete_chan_calls :
    Nsq.Gen.Life.deleteChanCalls =
      ["RLock", "RUnlock", "Delete", "Lock", "delete", "len", "Unlock", "Lock", "Unlock", "Do"] ∧
    Nsq.Gen.Life.deleteChanNum =
      ["assign numChannels := len(t.channelMap)", "if numChannels == 0 && t.ephemeral"] := by decide

/-- `RemoveClient`: exiting check, removal, once-only ephemeral delete -/
theorem remove_client_calls : Nsq.Gen.Life.removeClientCalls = ["Exiting", "delete", "Do"] := by decide

/-- the timeout scan has one of the two modelled shapes: heap pop and a separate `popInFlightMessage`
(two critical sections), or — fixes/scan_pop_atomic.patch — heap pop and map `delete` in one -/
def scanTwoSections : List String := ["PeekAndShift", "popInFlightMessage", "TimedOutMessage", "put"]
def scanOneSection : List String := ["PeekAndShift", "delete", "TimedOutMessage", "put"]

/-- model parameter `St.scanAtomic` for this tree -/
def treeScanAtomic : Bool := Nsq.Gen.Life.scanCalls == scanOneSection

/-- F16 is committed: only the one-section scan is accepted (audit B12) -/
theorem scan_shape_known : Nsq.Gen.Life.scanCalls = scanOneSection := by decide

theorem tree_scan_atomic : treeScanAtomic = true := by decide

end Nsq.Tie.Life
