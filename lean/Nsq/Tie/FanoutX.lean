import Nsq.Gen.GuidLoop
/-!
Audit round 7, B28: `Tie.Wire.fanoutStmts_eq` (kind `stmts`) lists the assignments and conditions of
`Topic.messagePump`'s per-channel loop but is blind to its call statements, to `continue` and to nesting:
deleting `channel.PutMessageDeferred(…)` (a deferred message is then dropped for that channel), deleting
the `continue` (the message is then put twice) or moving the copy out of `if i > 0` leaves that fact
unchanged. This is the same loop through kind `stmtsx` (every statement, with depth).
Model: `Model.Wire.fanout` (per-channel copy keeps id, body, timestamp, deferred; first channel gets the
original) and C04's deferred publish (`Props.C04.deferred_not_before`: the copy goes to
`PutMessageDeferred` exactly when `deferred ≠ 0`, else to `PutMessage`, never both).
-/
namespace Nsq.Tie.FanoutX
open Nsq.Gen.GuidLoop

theorem fanoutLoop_eq :
    fanoutLoop.take 10 =
      [(1, "range", "i, channel := range chans"),
       (2, "assign", "chanMsg := msg"),
       (2, "if", "i > 0"),
       (3, "assign", "chanMsg = NewMessage(msg.ID, msg.Body)"),
       (3, "assign", "chanMsg.Timestamp = msg.Timestamp"),
       (3, "assign", "chanMsg.deferred = msg.deferred"),
       (2, "if", "chanMsg.deferred != 0"),
       (3, "expr", "channel.PutMessageDeferred(chanMsg, chanMsg.deferred)"),
       (3, "continue", ""),
       (2, "assign", "err := channel.PutMessage(chanMsg)")] ∧
    -- what follows is only the error report of PutMessage (an `if` and call statements below it)
    (fanoutLoop.drop 10).all (fun r => (r.1 == 2 && r.2.1 == "if") || (r.1 == 3 && r.2.1 == "expr")) = true := by
  decide

end Nsq.Tie.FanoutX
