import Nsq.Gen.ToolsRelay
import Nsq.Model.Split
/-!
Tie of the `Split` model to apps/to_nsq (regenerated leg): the trimming rule of `readAndPublish`, translated
from the current tree by `tools/go2lean` (kind `trimrule`), equals `trimFixed`; the rest of the function has
the skeleton the model `published` was written against (read, trim, skip empty, publish to every producer,
return the read error). On a tree without fix F5 `readAndPublish_trim_eq` does not check.
-/
namespace Nsq.Tie.ToolsSplit
open Nsq.Gen.ToolsRelay Nsq.Model.Split

theorem readAndPublish_trim_eq (d : UInt8) (l : List UInt8) : readAndPublish_trim d l = trimFixed d l := by
  unfold readAndPublish_trim trimFixed
  by_cases h1 : l.length > 0 <;> by_cases h2 : l.getLast? = some d <;> simp [h1, h2]

def expected_readAndPublish : List String := [
  "line, readErr := r.ReadBytes(delim)",
  "if len(line) > 0 && line[len(line)-1] == delim",
  ".line = line[:len(line)-1]",
  "if len(line) == 0",
  ".return readErr",
  "range producers",
  ".err := producer.Publish(*topic, line)",
  ".if err != nil",
  "..return err",
  "return readErr"]

theorem readAndPublish_eq : Nsq.Gen.ToolsRelay.readAndPublish = expected_readAndPublish := rfl

end Nsq.Tie.ToolsSplit
