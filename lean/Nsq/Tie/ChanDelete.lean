import Nsq.Gen.Life
import Nsq.Model.ChanDelete
/-
Tie obligations of the channel-deletion race model (Model/ChanDelete.lean): the shape of
`Topic.DeleteExistingChannel`, `Channel.exit`, `Channel.AddClient`, `Channel.PutMessage` on the current tree.
-/
namespace Nsq.Tie.ChanDelete

/-- `DeleteExistingChannel`: lookup under the read lock, `channel.Delete()` (result ignored), then under the
write lock the unlink + `len`, then (second `Lock`/`Unlock`: the NSQD lock) the post-delete persist, the
ephemeral topic's `deleter.Do` — the `delBegin`/`delExit`/`delUnlink` (`loserUnlink`) steps of the model -/
theorem delete_chan_calls :
    Nsq.Gen.Life.deleteChanCalls = ["RLock", "RUnlock", "Delete", "Lock", "delete", "len", "Unlock", "Lock", "Unlock", "Do"] := by
  decide

/-- the unlink removes the name only while it still refers to the object that was looked up (F22, /repo c687824;
the by-name unlink of the older tree — `Props.C08ChanDelete.witnessChanDouble` — breaks this tie); no early return for a deletion that lost the CAS on
either tree (its `Delete()` has waited for the winner's exit, see `chan_exit_under_exit_lock`) -/
theorem delete_chan_unlink_shape :
    Nsq.Gen.Life.deleteChanStmts = ["if t.channelMap[channelName] == channel"] := by decide

/-- `Channel.exit`: `exitMutex.Lock()` with a deferred `Unlock` *before* the CAS, so that a second `Delete()`
returns "exiting" only after the first has emptied the channel and deleted its backend — the enabling
condition `exited` of the model's `loserUnlink` (behavioural twin: harness leg `chan_double_delete_waits`) -/
theorem chan_exit_under_exit_lock :
    Nsq.Gen.Life.chanExitLockCalls = ["Lock", "Unlock", "CompareAndSwapInt32", "Empty", "Delete"] := by decide

/-- `AddClient` and `PutMessage` test `Exiting()` under `exitMutex.RLock`: an exiting channel takes no new
consumer and no new message (model steps `sub`, `pub` on an exiting object) -/
theorem add_client_put_refuse_exiting :
    Nsq.Gen.Life.addClientCalls.take 3 = ["RLock", "RUnlock", "Exiting"] ∧
    Nsq.Gen.Life.chanPutMessageCalls = ["RLock", "RUnlock", "Exiting", "put"] := by decide

/-- the ephemeral channel's `deleteCallback` is `DeleteExistingChannel` of the channel's *name*: the model's
`delBegin … delUnlink` steps, enabled whenever the name is registered -/
theorem chan_delete_callback_is_delete_by_name :
    Nsq.Gen.Life.chanDeleteCallbackStmts =
      ["assign deleteCallback := func(c *Channel) { t.DeleteExistingChannel(c.name) }"] := by decide

/-- `--sync-every` reaches `diskqueue.New` as given (`Tie.Restart.diskqueue_record_bounds` pins the argument
lists) and `nsqd.New` does not look at it: `0` is a legal configuration in which a deleted topic/channel leaves its
`.diskqueue.meta.dat` (open finding `sync-every-zero-delete-leaves-meta-file`, replay `sync_every_zero_delete`; E9's
`CfgOk.sync` is an assumption on the configuration). fixes/F25 (refuse values below 1: guard `if opts.SyncEvery < 1`) is
NOT committed and stays a proposal — the integrator keeps the finding open because refusing a value nsqd has always
accepted is a maintainer decision. Only the committed shape is accepted (audit B12); applying F25 breaks this tie and
the text has to be revisited. -/
theorem sync_every_validation_shape : Nsq.Gen.Life.syncEveryGuard = [] := by decide

/-- the model instance the current tree selects -/
def treeModel : Nsq.Model.ChanDelete.CSt :=
  { ownUnlink := Nsq.Gen.Life.deleteChanStmts == ["if t.channelMap[channelName] == channel"] }

/-- F22 is committed (/repo c687824): the tree's instance is the repaired one (audit B12), so
`Props.C08ChanDelete.no_chan_zombie_fixed` speaks about the tree -/
theorem tree_model_known : treeModel = Nsq.Model.ChanDelete.fixedTree := by decide

end Nsq.Tie.ChanDelete
