import Nsq.Gen.DiskQueueArgs
import Nsq.Proofs.DiskQueue
import Nsq.Proofs.Wire
/-
Tie obligations on what nsqd hands to go-diskqueue: the arguments `maxBytesPerFile`, `minMsgSize`,
`maxMsgSize`, `syncEvery`, `syncTimeout` of the `diskqueue.New(...)` calls in `NewTopic` (nsqd/topic.go) and
`NewChannel` (nsqd/channel.go) are regenerated as *translated expressions* over BitVec (tools/go2lean kind
`callexpr`, specs/e9_dqargs.json → `Nsq.Gen.DiskQueueArgs`): `int32(x)` of an int64 is `BitVec.setWidth 32`,
`+` wraps.  Nothing below compares source text: every theorem is proved about the translated function on
all option values, first reduced to a canonical form (`*_spec`) by a proof that does not depend on the shape
of the expression (`args_eq`: `rfl`, or equality of `toNat` by `omega`), so a rewrite such as
`int32(MaxMsgSize + minValidMsgLength)` keeps this file green while `int32(MaxMsgSize)` does not.

`dqCfgOf` turns the option values into the configuration of the E9 model (`Nsq.Model.DiskQueue.Cfg`, fields in
`Nat`).  The arguments are *signed* Go integers (`*.signed`, `arg_types`), read with `BitVec.toInt`; a
negative value is clamped to 0 (`Int.toNat`):
  * `maxMsgSize < 0`: go-diskqueue rejects every record (`dataLen > maxMsgSize`), and so does the model with
    bound 0 because `minMsgSize = 26` (`wrapped_bound_rejects_all`) — the clamp is faithful;
  * `maxBytesPerFile < 0`: both sides roll before every write at a position > 0 and treat every read
    position as past the end — same behaviour (the model compares `maxBytesPerFile < wp + …`, `nrp ≥ mbr`);
  * `syncEvery ≤ 0`: NOT faithful for negative values (`count == syncEvery` never holds in Go, always in the
    clamped model) — outside `CfgOk`, which `cfgOk_of_options` shows to be exactly `1 ≤ SyncEvery`.
-/
namespace Nsq.Tie.DiskQueueArgs
open Nsq.Gen.DiskQueueArgs Nsq.Model.Wire Nsq.Model.DiskQueue Nsq.Proofs.DiskQueue

/-- shape-independent equality of two translated arguments: syntactically equal, or equal as numbers -/
macro "args_eq" : tactic =>
  `(tactic| first
    | rfl
    | (apply BitVec.eq_of_toNat_eq
       try simp only [BitVec.toNat_add, BitVec.toNat_sub, BitVec.toNat_setWidth, BitVec.toNat_ofNat]
       omega))

/-! ### the Go types the reading below relies on -/

/-- the callee's parameters at the five positions are the ones the definitions are named after, all of
signed integer types, and the four options are int64 / time.Duration values -/
theorem arg_types :
    [topicMaxBytesPerFile.goParam, topicMinMsgSize.goParam, topicMaxMsgSize.goParam, topicSyncEvery.goParam,
      topicSyncTimeout.goParam] = ["maxBytesPerFile", "minMsgSize", "maxMsgSize", "syncEvery", "syncTimeout"] ∧
    [chanMaxBytesPerFile.goParam, chanMinMsgSize.goParam, chanMaxMsgSize.goParam, chanSyncEvery.goParam,
      chanSyncTimeout.goParam] = ["maxBytesPerFile", "minMsgSize", "maxMsgSize", "syncEvery", "syncTimeout"] ∧
    [topicMaxBytesPerFile.goType, topicMinMsgSize.goType, topicMaxMsgSize.goType, topicSyncEvery.goType,
      topicSyncTimeout.goType] = ["int64", "int32", "int32", "int64", "time.Duration"] ∧
    [chanMaxBytesPerFile.goType, chanMinMsgSize.goType, chanMaxMsgSize.goType, chanSyncEvery.goType,
      chanSyncTimeout.goType] = ["int64", "int32", "int32", "int64", "time.Duration"] ∧
    [topicMaxBytesPerFile.signed, topicMinMsgSize.signed, topicMaxMsgSize.signed, topicSyncEvery.signed,
      topicSyncTimeout.signed, chanMaxBytesPerFile.signed, chanMinMsgSize.signed, chanMaxMsgSize.signed,
      chanSyncEvery.signed, chanSyncTimeout.signed] = List.replicate 10 true ∧
    topicMaxMsgSize.extTypes = [("maxBytesPerFile", "int64"), ("maxMsgSize", "int64"), ("syncEvery", "int64"),
      ("syncTimeout", "time.Duration")] ∧
    chanMaxMsgSize.extTypes = topicMaxMsgSize.extTypes := by
  decide

example : topicMaxMsgSize.goType ≠ "int64" := by decide

/-! ### canonical forms (the only theorems that look inside the generated definitions) -/

/-- the upper record-size bound is the int32 truncation of `MaxMsgSize + 26` — whatever the order of the
conversion and the addition in the source -/
theorem topic_maxMsgSize_spec (a m s t : BitVec 64) :
    topicMaxMsgSize a m s t = BitVec.setWidth 32 (m + 26#64) := by
  unfold topicMaxMsgSize; args_eq

theorem chan_maxMsgSize_spec (a m s t : BitVec 64) :
    chanMaxMsgSize a m s t = BitVec.setWidth 32 (m + 26#64) := by
  unfold chanMaxMsgSize; args_eq

example : topicMaxMsgSize 0 1048576#64 0 0 = 1048602#32 ∧ chanMaxMsgSize 0 1048576#64 0 0 = 1048602#32 := by
  rw [topic_maxMsgSize_spec, chan_maxMsgSize_spec]; decide

/-- the lower bound is the constant 26 (`minValidMsgLength`, evaluated by go/types) -/
theorem minMsgSize_spec (a m s t : BitVec 64) :
    topicMinMsgSize a m s t = 26#32 ∧ chanMinMsgSize a m s t = 26#32 := by
  unfold topicMinMsgSize chanMinMsgSize; exact ⟨by args_eq, by args_eq⟩

example : (topicMinMsgSize 5 6 7 8).toInt = 26 := by rw [(minMsgSize_spec 5 6 7 8).1]; decide

/-- (e) `--max-bytes-per-file`, `--sync-every`, `--sync-timeout` reach go-diskqueue unchanged, each at its
own position (a swap of two of them refutes this).  go-diskqueue hands `syncTimeout` to `time.NewTicker`, which
panics for a value ≤ 0: nothing in nsqd excludes `--sync-timeout 0` (observed on the real code, see docs) -/
theorem options_passed_through (a m s t : BitVec 64) :
    topicMaxBytesPerFile a m s t = a ∧ topicSyncEvery a m s t = s ∧ topicSyncTimeout a m s t = t ∧
    chanMaxBytesPerFile a m s t = a ∧ chanSyncEvery a m s t = s ∧ chanSyncTimeout a m s t = t := by
  unfold topicMaxBytesPerFile topicSyncEvery topicSyncTimeout chanMaxBytesPerFile chanSyncEvery chanSyncTimeout
  exact ⟨by args_eq, by args_eq, by args_eq, by args_eq, by args_eq, by args_eq⟩

example : topicMaxBytesPerFile 104857600#64 1 2500#64 3 = 104857600#64 ∧ topicSyncEvery 104857600#64 1 2500#64 3 = 2500#64 ∧
    topicMaxBytesPerFile 104857600#64 1 2500#64 3 ≠ topicSyncEvery 104857600#64 1 2500#64 3 := by
  have h := options_passed_through 104857600#64 1 2500#64 3
  rw [h.1, h.2.1]; decide

/-- (a) topic queues and channel queues get the same five arguments: equal as functions of the options -/
theorem topic_chan_same_args :
    topicMaxBytesPerFile = chanMaxBytesPerFile ∧ topicMinMsgSize = chanMinMsgSize ∧
    topicMaxMsgSize = chanMaxMsgSize ∧ topicSyncEvery = chanSyncEvery ∧ topicSyncTimeout = chanSyncTimeout := by
  refine ⟨?_, ?_, ?_, ?_, ?_⟩ <;> funext a m s t
  · rw [(options_passed_through a m s t).1, (options_passed_through a m s t).2.2.2.1]
  · rw [(minMsgSize_spec a m s t).1, (minMsgSize_spec a m s t).2]
  · rw [topic_maxMsgSize_spec, chan_maxMsgSize_spec]
  · rw [(options_passed_through a m s t).2.1, (options_passed_through a m s t).2.2.2.2.1]
  · rw [(options_passed_through a m s t).2.2.1, (options_passed_through a m s t).2.2.2.2.2]

example : topicMaxMsgSize 1 1024#64 3 4 = chanMaxMsgSize 1 1024#64 3 4 ∧ chanMaxMsgSize 1 1024#64 3 4 = 1050#32 := by
  rw [topic_chan_same_args.2.2.1, chan_maxMsgSize_spec]; decide

/-! ### the configuration of the E9 model that nsqd's options denote -/

/-- options (`--max-bytes-per-file`, `--max-msg-size`, `--sync-every` as int64 bit patterns) ↦ the model's
`Cfg`, through the regenerated argument expressions (of `NewTopic`; `NewChannel`'s are the same functions by
`topic_chan_same_args`); signed reading, negative clamped to 0 (see the header for what that means) -/
def dqCfgOf (maxBytesPerFile maxMsgSize syncEvery : BitVec 64) : Cfg :=
  { maxBytesPerFile := (topicMaxBytesPerFile maxBytesPerFile maxMsgSize syncEvery 0#64).toInt.toNat
    minMsgSize := (topicMinMsgSize maxBytesPerFile maxMsgSize syncEvery 0#64).toInt.toNat
    maxMsgSize := (topicMaxMsgSize maxBytesPerFile maxMsgSize syncEvery 0#64).toInt.toNat
    syncEvery := (topicSyncEvery maxBytesPerFile maxMsgSize syncEvery 0#64).toInt.toNat }

/-- `--sync-timeout` does not enter the four arguments `dqCfgOf` reads (so fixing it to 0 there loses nothing) -/
theorem cfg_args_ignore_syncTimeout (a m s t : BitVec 64) :
    topicMaxBytesPerFile a m s t = topicMaxBytesPerFile a m s 0#64 ∧ topicMinMsgSize a m s t = topicMinMsgSize a m s 0#64 ∧
    topicMaxMsgSize a m s t = topicMaxMsgSize a m s 0#64 ∧ topicSyncEvery a m s t = topicSyncEvery a m s 0#64 := by
  refine ⟨?_, ?_, ?_, ?_⟩
  · rw [(options_passed_through a m s t).1, (options_passed_through a m s 0#64).1]
  · rw [(minMsgSize_spec a m s t).1, (minMsgSize_spec a m s 0#64).1]
  · rw [topic_maxMsgSize_spec, topic_maxMsgSize_spec]
  · rw [(options_passed_through a m s t).2.1, (options_passed_through a m s 0#64).2.1]

example : topicMaxMsgSize 1 1024#64 3 2000000000#64 = topicMaxMsgSize 1 1024#64 3 0#64 :=
  (cfg_args_ignore_syncTimeout 1 1024#64 3 2000000000#64).2.2.1

/-- the same configuration read off `NewChannel`'s arguments -/
theorem dqCfgOf_chan (a m s : BitVec 64) :
    dqCfgOf a m s =
      { maxBytesPerFile := (chanMaxBytesPerFile a m s 0#64).toInt.toNat
        minMsgSize := (chanMinMsgSize a m s 0#64).toInt.toNat
        maxMsgSize := (chanMaxMsgSize a m s 0#64).toInt.toNat
        syncEvery := (chanSyncEvery a m s 0#64).toInt.toNat } := by
  obtain ⟨h1, h2, h3, h4, -⟩ := topic_chan_same_args
  unfold dqCfgOf; rw [h1, h2, h3, h4]

example : dqCfgOf 104857600#64 1048576#64 2500#64 =
    { maxBytesPerFile := 104857600, minMsgSize := 26, maxMsgSize := 1048602, syncEvery := 2500 } := by
  rw [dqCfgOf_chan]
  have h := options_passed_through 104857600#64 1048576#64 2500#64 0#64
  rw [h.2.2.2.1, h.2.2.2.2.1, chan_maxMsgSize_spec, (minMsgSize_spec _ _ _ _).2]; decide

/-- `dqCfgOf` in closed form -/
theorem dqCfgOf_eq (a m s : BitVec 64) :
    dqCfgOf a m s =
      { maxBytesPerFile := a.toInt.toNat, minMsgSize := 26,
        maxMsgSize := (BitVec.setWidth 32 (m + 26#64)).toInt.toNat, syncEvery := s.toInt.toNat } := by
  have h := options_passed_through a m s 0#64
  unfold dqCfgOf
  rw [h.1, h.2.1, topic_maxMsgSize_spec, (minMsgSize_spec a m s 0#64).1]; rfl

example : (dqCfgOf 100#64 (-1#64) 5#64).maxMsgSize = 25 ∧ (dqCfgOf (-7#64) 0#64 5#64).maxBytesPerFile = 0 := by
  rw [dqCfgOf_eq, dqCfgOf_eq]; decide

/-- (b) the lower bound is 26 = the length of the encoding of a message with an empty body (timestamp 8 +
attempts 2 + id 16): the header the model's `Wire.encode` writes -/
theorem minMsgSize_is_header_length (a m s : BitVec 64) (msg : Msg) (hid : msg.id.length = 16) (hb : msg.body = []) :
    (dqCfgOf a m s).minMsgSize = 26 ∧ (encode msg).length = (dqCfgOf a m s).minMsgSize := by
  rw [dqCfgOf_eq, Nsq.Proofs.Wire.encode_length msg hid, hb]; exact ⟨rfl, rfl⟩

example : (dqCfgOf 1 2 3).minMsgSize = (encode { ts := 7, attempts := 1, id := List.replicate 16 0x61, body := [] }).length :=
  ((minMsgSize_is_header_length 1 2 3 _ (by decide) rfl).2).symm

/-! ### (c), (d): when does `int32(MaxMsgSize) + minValidMsgLength` mean `MaxMsgSize + 26`? -/

private theorem toInt32_eq (m : BitVec 64) :
    (BitVec.setWidth 32 (m + 26#64)).toInt = (m.toInt + 26).bmod (2 ^ 32) := by
  rw [BitVec.toInt_setWidth, BitVec.toNat_add, BitVec.toInt_eq_toNat_bmod]
  have := m.isLt
  simp only [BitVec.toNat_ofNat, Int.bmod_def]
  omega

example : (BitVec.setWidth 32 (2147483622#64 + 26#64)).toInt = ((2147483622#64).toInt + 26).bmod (2 ^ 32) ∧
    ((2147483622#64).toInt + 26).bmod (2 ^ 32) = -2147483648 := ⟨toInt32_eq _, by decide⟩

/-- (c)/(d) EXACTLY: the int32 expression equals the mathematical `MaxMsgSize + 26` iff that sum is an int32,
i.e. iff `−2^31 − 26 ≤ MaxMsgSize ≤ 2^31 − 27`; outside, conversion or addition wraps -/
theorem maxMsgSize_exact_iff (a m s t : BitVec 64) :
    (topicMaxMsgSize a m s t).toInt = m.toInt + 26 ↔ (-2147483648 ≤ m.toInt + 26 ∧ m.toInt + 26 < 2147483648) := by
  rw [topic_maxMsgSize_spec, toInt32_eq, Int.bmod_def]
  omega

example : (topicMaxMsgSize 0 2147483621#64 0 0).toInt = 2147483647 ∧ (topicMaxMsgSize 0 2147483622#64 0 0).toInt ≠ 2147483648 := by
  constructor
  · exact (maxMsgSize_exact_iff 0 2147483621#64 0 0).2 (by decide)
  · intro h; exact absurd ((maxMsgSize_exact_iff 0 2147483622#64 0 0).1 h) (by decide)

/-- (c) no wrap on the sensible range: `0 ≤ MaxMsgSize`, `MaxMsgSize + 26 < 2^31` -/
theorem maxMsgSize_no_wrap (a m s t : BitVec 64) (h0 : 0 ≤ m.toInt) (h1 : m.toInt + 26 < 2147483648) :
    (topicMaxMsgSize a m s t).toInt = m.toInt + 26 ∧ (chanMaxMsgSize a m s t).toInt = m.toInt + 26 ∧
    (dqCfgOf a m s).maxMsgSize = m.toInt.toNat + 26 := by
  have h := (maxMsgSize_exact_iff a m s t).2 ⟨by omega, h1⟩
  have h' := (maxMsgSize_exact_iff a m s 0#64).2 ⟨by omega, h1⟩
  refine ⟨h, by rw [← topic_chan_same_args.2.2.1]; exact h, ?_⟩
  show (topicMaxMsgSize a m s 0#64).toInt.toNat = _
  rw [h']; omega

example : (dqCfgOf 104857600#64 1048576#64 2500#64).maxMsgSize = 1048576 + 26 :=
  (maxMsgSize_no_wrap 104857600#64 1048576#64 2500#64 0 (by decide) (by decide)).2.2

/-- (c) hence every encoded message that PUB/MPUB/DPUB accept (`len(body) ≤ MaxMsgSize`) is a valid record of
the topic's and the channel's disk queue -/
theorem encoded_message_valid (a m s : BitVec 64) (h0 : 0 ≤ m.toInt) (h1 : m.toInt + 26 < 2147483648)
    (msg : Msg) (hid : msg.id.length = 16) (hb : msg.body.length ≤ m.toInt.toNat) :
    ValidRec (dqCfgOf a m s) (encode msg) := by
  have hmax := (maxMsgSize_no_wrap a m s 0#64 h0 h1).2.2
  have hmin := (minMsgSize_is_header_length a m s { msg with body := [] } hid rfl).1
  unfold ValidRec
  rw [hmax, hmin, Nsq.Proofs.Wire.encode_length msg hid]; omega

example : ValidRec (dqCfgOf 104857600#64 64#64 2500#64)
      (encode { ts := 1, attempts := 0, id := List.replicate 16 0x30, body := List.replicate 64 0x78 }) ∧
    ¬ ValidRec (dqCfgOf 104857600#64 64#64 2500#64)
      (encode { ts := 1, attempts := 0, id := List.replicate 16 0x30, body := List.replicate 65 0x78 }) := by
  refine ⟨encoded_message_valid _ _ _ (by decide) (by decide) _ (by decide) (by decide), ?_⟩
  rw [dqCfgOf_eq]; decide

/-- whatever the options: a record-size bound is an int32, so `CfgOk.max` always holds, and a bound below the
header length rejects everything -/
theorem bound_lt_2_31 (a m s : BitVec 64) : (dqCfgOf a m s).maxMsgSize < 2147483648 := by
  rw [dqCfgOf_eq]
  have := BitVec.toInt_lt (x := BitVec.setWidth 32 (m + 26#64))
  show (BitVec.setWidth 32 (m + 26#64)).toInt.toNat < 2147483648
  omega

example : (dqCfgOf 0 9223372036854775807#64 0).maxMsgSize < 2147483648 := bound_lt_2_31 _ _ _

/-- (d) the wrap: for `2^31 − 26 ≤ MaxMsgSize < 2^31` the conversion is exact but the int32 addition wraps to
`MaxMsgSize + 26 − 2^32 < 0`; go-diskqueue then refuses EVERY record (`dataLen > maxMsgSize`), and so does the
model's configuration: no `Put` on any topic or channel disk queue succeeds -/
theorem wrapped_bound_rejects_all (a m s : BitVec 64) (h0 : 2147483648 - 26 ≤ m.toInt) (h1 : m.toInt < 2147483648) :
    (topicMaxMsgSize a m s 0#64).toInt = m.toInt + 26 - 4294967296 ∧ (topicMaxMsgSize a m s 0#64).toInt < 0 ∧
    ∀ d, ¬ ValidRec (dqCfgOf a m s) d := by
  have h : (topicMaxMsgSize a m s 0#64).toInt = m.toInt + 26 - 4294967296 := by
    rw [topic_maxMsgSize_spec, toInt32_eq, Int.bmod_def]; omega
  refine ⟨h, by omega, ?_⟩
  intro d hv
  have hmin := (minMsgSize_is_header_length a m s { ts := 0, attempts := 0, id := List.replicate 16 0, body := [] } (by decide) rfl).1
  have hmax : (dqCfgOf a m s).maxMsgSize = 0 := by
    show (topicMaxMsgSize a m s 0#64).toInt.toNat = 0
    rw [h]; omega
  unfold ValidRec at hv
  rw [hmin, hmax] at hv; omega

example : ∀ d, ¬ ValidRec (dqCfgOf 104857600#64 2147483647#64 2500#64) d :=
  (wrapped_bound_rejects_all _ _ _ (by decide) (by decide)).2.2

/-- (d) concrete witness: `--max-msg-size 2147483622` (= 2^31 − 26) gives the bound −2147483648; the smallest
message (empty body) is refused -/
theorem wrap_witness :
    (topicMaxMsgSize 104857600#64 2147483622#64 2500#64 2000000000#64).toInt = -2147483648 ∧
    (chanMaxMsgSize 104857600#64 2147483622#64 2500#64 2000000000#64).toInt = -2147483648 ∧
    ¬ ValidRec (dqCfgOf 104857600#64 2147483622#64 2500#64)
        (encode { ts := 1, attempts := 0, id := List.replicate 16 0x30, body := [] }) := by
  refine ⟨?_, ?_, (wrapped_bound_rejects_all _ _ _ (by decide) (by decide)).2.2 _⟩
  · rw [topic_maxMsgSize_spec]; decide
  · rw [chan_maxMsgSize_spec]; decide

/-- (d) beyond 2^31 the conversion itself truncates: `--max-msg-size 4294968296` (2^32 + 1000) gives the bound
1026, so a 2000-byte body, far below the configured limit, is refused by the disk queue -/
theorem truncation_witness :
    (dqCfgOf 104857600#64 4294968296#64 2500#64).maxMsgSize = 1026 ∧
    ¬ ValidRec (dqCfgOf 104857600#64 4294968296#64 2500#64)
        (encode { ts := 1, attempts := 0, id := List.replicate 16 0x30, body := List.replicate 2000 0x78 }) := by
  have hm : (dqCfgOf 104857600#64 4294968296#64 2500#64).maxMsgSize = 1026 := by rw [dqCfgOf_eq]; decide
  refine ⟨hm, ?_⟩
  unfold ValidRec
  rw [hm, Nsq.Proofs.Wire.encode_length _ (by simp)]
  simp only [List.length_replicate]; omega

/-- (c)+(d) EXACT range for non-negative `--max-msg-size`: the disk queues accept every encoded message with a
body of at most `MaxMsgSize` bytes iff `MaxMsgSize + 26 < 2^31` (i.e. `MaxMsgSize ≤ 2147483621`) -/
theorem bound_covers_all_bodies_iff (a m s : BitVec 64) (h0 : 0 ≤ m.toInt) :
    (∀ msg : Msg, msg.id.length = 16 → msg.body.length ≤ m.toInt.toNat → ValidRec (dqCfgOf a m s) (encode msg)) ↔
      m.toInt + 26 < 2147483648 := by
  constructor
  · intro h
    have hv := h { ts := 0, attempts := 0, id := List.replicate 16 0, body := List.replicate m.toInt.toNat 0 }
      (by simp) (by simp)
    unfold ValidRec at hv
    rw [Nsq.Proofs.Wire.encode_length _ (by simp)] at hv
    have hlt := bound_lt_2_31 a m s
    simp only [List.length_replicate] at hv
    omega
  · intro h1 msg hid hb
    exact encoded_message_valid a m s h0 h1 msg hid hb

example : ¬ (∀ msg : Msg, msg.id.length = 16 → msg.body.length ≤ (2147483622#64).toInt.toNat →
    ValidRec (dqCfgOf 1 2147483622#64 3) (encode msg)) := by
  rw [bound_covers_all_bodies_iff _ _ _ (by decide)]; decide

/-! ### (e) `CfgOk` -/

/-- the E9 theorems assume `CfgOk` (`0 < syncEvery`, `maxMsgSize < 2^31`).  In terms of nsqd's options that is
EXACTLY `1 ≤ --sync-every` (signed int64): the size bound is an int32 for every `--max-msg-size`, and
`--max-bytes-per-file` / `--sync-timeout` do not enter.  `--sync-every 0` and negative values are outside. -/
theorem cfgOk_of_options (a m s : BitVec 64) : CfgOk (dqCfgOf a m s) ↔ 0 < s.toInt := by
  have hs : (dqCfgOf a m s).syncEvery = s.toInt.toNat := by rw [dqCfgOf_eq]
  constructor
  · intro h
    have := h.sync
    rw [hs] at this; omega
  · intro h
    exact ⟨by rw [hs]; omega, bound_lt_2_31 a m s⟩

example : CfgOk (dqCfgOf 104857600#64 1048576#64 2500#64) ∧ ¬ CfgOk (dqCfgOf 104857600#64 1048576#64 0#64) ∧
    ¬ CfgOk (dqCfgOf 104857600#64 1048576#64 (-1#64)) := by
  refine ⟨(cfgOk_of_options _ _ _).2 (by decide), fun h => ?_, fun h => ?_⟩
  · exact absurd ((cfgOk_of_options _ _ _).1 h) (by decide)
  · exact absurd ((cfgOk_of_options _ _ _).1 h) (by decide)

/-- the option ranges under which the E9 model with `dqCfgOf` is the disk queue nsqd runs AND stores every
acceptable message: `1 ≤ SyncEvery`, `0 ≤ MaxMsgSize ≤ 2^31 − 27`, `0 ≤ MaxBytesPerFile`; nsqd's defaults
(100 MiB, 1 MiB, 2500) are inside -/
theorem sane_options (a m s : BitVec 64) (ha : 0 ≤ a.toInt) (hs : 0 < s.toInt) (h0 : 0 ≤ m.toInt)
    (h1 : m.toInt + 26 < 2147483648) :
    CfgOk (dqCfgOf a m s) ∧
    dqCfgOf a m s = { maxBytesPerFile := a.toInt.toNat, minMsgSize := 26, maxMsgSize := m.toInt.toNat + 26,
                      syncEvery := s.toInt.toNat } ∧
    ((dqCfgOf a m s).maxBytesPerFile : Int) = a.toInt ∧ ((dqCfgOf a m s).syncEvery : Int) = s.toInt := by
  have hm := (maxMsgSize_no_wrap a m s 0#64 h0 h1).2.2
  have he := dqCfgOf_eq a m s
  refine ⟨(cfgOk_of_options a m s).2 hs, ?_, ?_, ?_⟩
  · rw [he] at hm ⊢
    simp only at hm
    rw [hm]
  · rw [he]; show (a.toInt.toNat : Int) = _; omega
  · rw [he]; show (s.toInt.toNat : Int) = _; omega

example : CfgOk (dqCfgOf 104857600#64 1048576#64 2500#64) ∧
    dqCfgOf 104857600#64 1048576#64 2500#64 =
      { maxBytesPerFile := 104857600, minMsgSize := 26, maxMsgSize := 1048602, syncEvery := 2500 } := by
  have h := sane_options 104857600#64 1048576#64 2500#64 (by decide) (by decide) (by decide) (by decide)
  exact ⟨h.1, h.2.1⟩

end Nsq.Tie.DiskQueueArgs
