import Nsq.Gen.AdminProg
import Nsq.Model.AdminProg
/-!
Tie (regenerated definitions = model) between internal/clusterinfo/data.go and the program-level model
`Nsq.Model.AdminProg`: go2lean kind `ciprog` translates every state-changing `ClusterInfo` method into a
`Prog` (sequence of nsqlookupdPOST / Get*Producers / producersPOST steps with the error policy and guard of
each, helper calls inlined); the theorems below state that the translated program *is* the program the
model runs (`progOf`). A dropped `errs = append(errs, pe.Errors()...)`, an early `return err` on a partial
error, a swapped order of two steps, another URI or query string, a lost `if len(errs) > 0` ending — each
changes the translated program and breaks one `decide` here; a renamed variable or an added log line does not.
`cipostloop` / `cifallback` do the same for the two POST helpers and the lookupd-or-nsqd fall-backs.
-/
namespace Nsq.Tie.AdminProg
open Nsq.Gen.AdminProg Nsq.Model.AdminProg Nsq.Model.AdminFanout

theorem createTopic_prog : ciProg_CreateTopicChannel = progOf .createTopic := by decide
theorem createChannel_prog : ciProg_CreateTopicChannel = progOf .createChannel := by decide
theorem deleteTopic_prog : ciProg_DeleteTopic = progOf .deleteTopic := by decide
theorem deleteChannel_prog : ciProg_DeleteChannel = progOf .deleteChannel := by decide
theorem pauseTopic_prog : ciProg_PauseTopic = progOf .pauseTopic := by decide
theorem unpauseTopic_prog : ciProg_UnPauseTopic = progOf .unpauseTopic := by decide
theorem emptyTopic_prog : ciProg_EmptyTopic = progOf .emptyTopic := by decide
theorem pauseChannel_prog : ciProg_PauseChannel = progOf .pauseChannel := by decide
theorem unpauseChannel_prog : ciProg_UnPauseChannel = progOf .unpauseChannel := by decide
theorem emptyChannel_prog : ciProg_EmptyChannel = progOf .emptyChannel := by decide
theorem tombstone_prog : ciProg_TombstoneNodeForTopic = progOf .tombstone := by decide

/-- The method of `ClusterInfo` that `kindOfName` maps to a kind is the one whose translation is `progOf`
of that kind (names as they appear in the handler skeletons). -/
def genProgOfName (n : String) : Option Prog :=
  if n == "CreateTopicChannel" then some ciProg_CreateTopicChannel
  else if n == "DeleteTopic" then some ciProg_DeleteTopic
  else if n == "DeleteChannel" then some ciProg_DeleteChannel
  else if n == "PauseTopic" then some ciProg_PauseTopic
  else if n == "UnPauseTopic" then some ciProg_UnPauseTopic
  else if n == "EmptyTopic" then some ciProg_EmptyTopic
  else if n == "PauseChannel" then some ciProg_PauseChannel
  else if n == "UnPauseChannel" then some ciProg_UnPauseChannel
  else if n == "EmptyChannel" then some ciProg_EmptyChannel
  else if n == "TombstoneNodeForTopic" then some ciProg_TombstoneNodeForTopic
  else none

theorem names_agree : ∀ n ∈ ["DeleteTopic", "DeleteChannel", "PauseTopic", "UnPauseTopic", "EmptyTopic",
    "PauseChannel", "UnPauseChannel", "EmptyChannel", "TombstoneNodeForTopic"],
    (kindOfName n).map progOf = genProgOfName n := by decide

/-- Both POST helpers contact every address of their list: one POSTV1 per pass, no way out of the loop,
every error appended, the list returned. -/
theorem nsqlookupdPOST_loop : ciLoop_nsqlookupdPOST.good = true := by decide
theorem producersPOST_loop : ciLoop_producersPOST.good = true := by decide

/-- The fall-backs: nsqlookupds when any is configured, the configured nsqds otherwise
(`Lookup.topicProducers` in the model; `getProducers` / `getTopicProducers` in `Model.Aggregate`). -/
theorem getTopicProducers_fallback :
    ciFallback_GetTopicProducers = ("GetLookupdTopicProducers", "GetNSQDTopicProducers") := by decide
theorem getProducers_fallback :
    ciFallback_GetProducers = ("GetLookupdProducers", "GetNSQDProducers") := by decide

end Nsq.Tie.AdminProg
