import Nsq.Gen.AdminRoutes
import Nsq.Model.AdminGate
/-!
Tie obligations for C17 over the tables regenerated from nsqadmin/http.go on every run
(`Nsq.Gen.AdminRoutes`): the admin predicate equals the model, and the decidable judgements on
the route table / handler skeletons that the property theorems lift to all requests.
A new mutating route without the check, a check moved behind an effect, a different failure
status — each makes one of the `decide`s below fail.
-/
namespace Nsq.Tie.AdminGate
open Nsq.Model.AdminGate Nsq.Gen.AdminRoutes

/-- The regenerated `isAuthorizedAdminRequest` is the model's `isAdmin`. -/
theorem isAuthorized_eq (conf : Conf) (req : Req) :
    isAuthorizedAdminRequest conf req = isAdmin conf req := by
  unfold isAuthorizedAdminRequest isAdmin
  by_cases h : conf.adminUsers.length == 0
  · simp only [h, if_true]
  · simp only [h]
    cases conf.adminUsers.any (fun v => v == headerGet req.headers conf.aclHeader) <;> rfl

def skelOf (r : Route) : Option Skel := lookupHandler adminHandlers r.handler

def checkAll (p : Route → Bool) (q : Skel → Bool) : Bool :=
  (adminRoutes.filter p).all (fun r => match skelOf r with | some sk => q sk | none => false)

/-- Every POST/PUT/DELETE route below /api has the admin check in front of every effect. -/
theorem mutating_routes_guarded : checkAll Route.mutating guarded = true := by decide

/-- There are such routes (the statement above is not about an empty table). -/
theorem mutating_routes_count : (adminRoutes.filter Route.mutating).length = 6 := by decide

/-- No GET view below /api evaluates the admin check. -/
def Route.apiView (r : Route) : Bool := r.method == "GET" && r.segs.head? == some "api"
theorem api_views_authFree : checkAll Route.apiView authFree = true := by decide

/-- The page/static GET routes served by extracted handlers do not branch on the admin check
either (the index page only passes its value to the template). -/
def Route.page (r : Route) : Bool :=
  r.method == "GET" && r.segs.head? != some "api" && r.segs.head? != some "config" &&
    r.segs.head? != some "render"
theorem pages_authFree : checkAll Route.page authFree = true := by decide

/-- Both /config/:opt routes start with the CIDR gate. -/
theorem config_routes_cidrGuarded : checkAll Route.isConfig cidrGuarded = true := by decide
theorem config_routes_count : (adminRoutes.filter Route.isConfig).map (·.method) = ["GET", "PUT"] := by decide

/-- No route other than the known mutating ones and PUT /config uses a non-GET method
(a mutating route registered outside /api would otherwise escape `Route.mutating`). -/
theorem non_get_routes :
    (adminRoutes.filter (fun r => r.method != "GET")).all (fun r => r.mutating || r.isConfig) = true := by
  decide


/-! ### State-changing by effect (audit round 7, C18)

`Route.mutating` goes by the HTTP method. The statements below go by what the handler *does*: the table
`upstreamWrites` (regenerated from internal/clusterinfo/data.go and internal/http_api/api_request.go: which
method can send a request that is not a GET) classifies every upstream call of every skeleton. -/

def skelWrites (r : Route) : Bool :=
  match skelOf r with
  | some sk => canWrite upstreamWrites sk
  | none => true

/-- Every route whose handler can perform a write (a non-GET upstream request, a notification, a
configuration write, or anything the extractor does not understand) is one of the POST/PUT/DELETE routes
below `/api` or a `/config` route. A new `GET /api/purge/:topic` that calls `DeleteTopic` fails here. -/
theorem writers_are_mutating_or_config :
    (adminRoutes.filter skelWrites).all (fun r => r.mutating || r.isConfig || r.isProxy) = true := by decide

/-- … and each of the POST/PUT/DELETE routes below `/api` does write (the guard theorems are not about
handlers that do nothing). -/
theorem mutating_routes_write : (adminRoutes.filter Route.mutating).all skelWrites = true := by decide

/-- Every GET route outside `/config` (views, pages, static files) performs only reads. -/
theorem get_routes_readonly :
    checkAll Route.plainGet (fun sk => !canWrite upstreamWrites sk) = true := by decide

/-- The classification is not empty talk: the ten actions write, the lookups do not. -/
theorem upstreamWrites_sample :
    writesOf upstreamWrites "DeleteTopic" = true ∧ writesOf upstreamWrites "EmptyChannel" = true ∧
    writesOf upstreamWrites "GetNSQDStats" = false ∧ writesOf upstreamWrites "GetTopicProducers" = false ∧
    writesOf upstreamWrites "client.GETV1" = false ∧ writesOf upstreamWrites "client.POSTV1" = true ∧
    writesOf upstreamWrites "SomethingNew" = true := by decide

/-! ### The action is reached (audit round 7, C19) -/

/-- In every mutating handler a well-formed request with an admin identity (body decodes, names valid,
action one of pause / unpause / empty) can only end 200 or 502 — there is no other way out behind the
check. With `mutating_routes_fanout` (200/502 ⇒ exactly the expected `ClusterInfo` action): the action is
carried out. A `return 400` inserted behind the check fails here. -/
theorem mutating_routes_reach :
    (adminRoutes.filter Route.mutating).all (fun r =>
      match skelOf r with | some sk => adminReaches r.handler sk | none => false) = true := by decide

/-! ### Which ClusterInfo action a mutating handler performs -/

def upstreamsOf (effs : List Eff) : List String :=
  effs.filterMap (fun e => match e with
    | .upstream n => some n
    | .upstreamMany n => some n
    | _ => none)

/-- The action named in the request body, read off the branches a path takes. -/
def actionOf : List (Cond × Bool) → String
  | [] => ""
  | (.actionIs a, true) :: _ => a
  | _ :: rest => actionOf rest

def hasChannelParam (cs : List (Cond × Bool)) : Bool := cs.contains (.paramNonEmpty "channel", true)

/-- The table: handler, body action, "the route has a channel" → the `ClusterInfo` method. -/
def expectedAction (handler action : String) (chan : Bool) : String :=
  if handler == "createTopicChannelHandler" then "CreateTopicChannel"
  else if handler == "deleteTopicHandler" then "DeleteTopic"
  else if handler == "deleteChannelHandler" then "DeleteChannel"
  else if handler == "tombstoneNodeForTopicHandler" then "TombstoneNodeForTopic"
  else if handler == "topicActionHandler" || (handler == "channelActionHandler" && !chan) then
    (if action == "pause" then "PauseTopic" else if action == "unpause" then "UnPauseTopic"
     else if action == "empty" then "EmptyTopic" else "?")
  else if handler == "channelActionHandler" then
    (if action == "pause" then "PauseChannel" else if action == "unpause" then "UnPauseChannel"
     else if action == "empty" then "EmptyChannel" else "?")
  else "?"

def isActionHandler (h : String) : Bool := h == "topicActionHandler" || h == "channelActionHandler"

def channelTested (cs : List (Cond × Bool)) : Bool :=
  cs.contains (.paramNonEmpty "channel", true) || cs.contains (.paramNonEmpty "channel", false)

/-- On every path of a mutating handler: an answer 200/502 comes with exactly the one upstream
action of the table (and the path has tested what the table row depends on); any other answer
(400, 403) comes with none. -/
def fanoutOk (handler : String) (sk : Skel) : Bool :=
  (paths sk).all (fun p =>
    if p.2.2 == 200 || p.2.2 == 502 then
      upstreamsOf p.2.1 == [expectedAction handler (actionOf p.1) (hasChannelParam p.1)] &&
      (!isActionHandler handler || actionOf p.1 != "") &&
      (!(handler == "channelActionHandler") || channelTested p.1)
    else upstreamsOf p.2.1 == [])

theorem mutating_routes_fanout :
    (adminRoutes.filter Route.mutating).all (fun r =>
      match skelOf r with | some sk => fanoutOk r.handler sk | none => false) = true := by decide

end Nsq.Tie.AdminGate
