import Nsq.Gen.Codec
import Nsq.Model.PQ
import Nsq.Model.Timing
/-! Tie (C04 timing): the statements of the heap / channel-deadline / UniqRands code, regenerated
from the Go source on every run, are the ones the hand-written models `Model.PQ` and
`Model.Timing` transcribe. Any edit of these functions breaks an `rfl` here (the check then
searches for a failing input). The behavioural half of the tie is the correspondence harness
(harness/e1/timing_test.go). `container/heap` itself is the Go standard library (trusted; its
`up`/`down`/`Push`/`Remove` are modelled explicitly and compared on the real package). -/
namespace Nsq.Tie.PQ

/-- `inFlightPqueue.Swap` = `Model.PQ.swp`: exchange, then both `index` fields -/
theorem ifpqSwap_eq : Nsq.Gen.Codec.ifpqSwap = [
  "pq[i], pq[j] = pq[j], pq[i]",
  "pq[i].index = i",
  "pq[j].index = j"] := by rfl

/-- `inFlightPqueue.Push` = `Model.PQ.push` -/
theorem ifpqPush_eq : Nsq.Gen.Codec.ifpqPush = [
  "n := len(*pq)",
  "c := cap(*pq)",
  "if n+1 > c {",
  "npq := make(inFlightPqueue, n, c*2)",
  "copy(npq, *pq)",
  "*pq = npq",
  "}",
  "*pq = (*pq)[0 : n+1]",
  "x.index = n",
  "(*pq)[n] = x",
  "pq.up(n)"] := by rfl

/-- `inFlightPqueue.Pop` = `Model.PQ.pop1` -/
theorem ifpqPop_eq : Nsq.Gen.Codec.ifpqPop = [
  "n := len(*pq)",
  "c := cap(*pq)",
  "pq.Swap(0, n-1)",
  "pq.down(0, n-1)",
  "if n < (c/2) && c > 25 {",
  "npq := make(inFlightPqueue, n, c/2)",
  "copy(npq, *pq)",
  "*pq = npq",
  "}",
  "x := (*pq)[n-1]",
  "x.index = -1",
  "*pq = (*pq)[0 : n-1]",
  "return x"] := by rfl

/-- `inFlightPqueue.Remove` = `Model.PQ.remove1` -/
theorem ifpqRemove_eq : Nsq.Gen.Codec.ifpqRemove = [
  "n := len(*pq)",
  "if n-1 != i {",
  "pq.Swap(i, n-1)",
  "pq.down(i, n-1)",
  "pq.up(i)",
  "}",
  "x := (*pq)[n-1]",
  "x.index = -1",
  "*pq = (*pq)[0 : n-1]",
  "return x"] := by rfl

/-- `inFlightPqueue.PeekAndShift` = `Model.PQ.peekAndShift1` (`x.pri > max` → nil) -/
theorem ifpqPeekAndShift_eq : Nsq.Gen.Codec.ifpqPeekAndShift = [
  "if len(*pq) == 0 {",
  "return nil, 0",
  "}",
  "x := (*pq)[0]",
  "if x.pri > max {",
  "return nil, x.pri - max",
  "}",
  "pq.Pop()",
  "return x, 0"] := by rfl

/-- `inFlightPqueue.up` = `Model.PQ.up` -/
theorem ifpqUp_eq : Nsq.Gen.Codec.ifpqUp = [
  "for ; ;  {",
  "i := (j - 1) / 2",
  "if i == j || (*pq)[j].pri >= (*pq)[i].pri {",
  "break",
  "}",
  "pq.Swap(i, j)",
  "j = i",
  "}"] := by rfl

/-- `inFlightPqueue.down` = `Model.PQ.down true` -/
theorem ifpqDown_eq : Nsq.Gen.Codec.ifpqDown = [
  "for ; ;  {",
  "j1 := 2*i + 1",
  "if j1 >= n || j1 < 0 {",
  "break",
  "}",
  "j := j1",
  "if j2 := j1 + 1; j2 < n && (*pq)[j1].pri >= (*pq)[j2].pri {",
  "j = j2",
  "}",
  "if (*pq)[j].pri >= (*pq)[i].pri {",
  "break",
  "}",
  "pq.Swap(i, j)",
  "i = j",
  "}"] := by rfl

/-- `PriorityQueue.Less` -/
theorem pqLess_eq : Nsq.Gen.Codec.pqLess = [
  "return pq[i].Priority < pq[j].Priority"] := by rfl

/-- `PriorityQueue.Swap` = `Model.PQ.swp` -/
theorem pqSwap_eq : Nsq.Gen.Codec.pqSwap = [
  "pq[i], pq[j] = pq[j], pq[i]",
  "pq[i].Index = i",
  "pq[j].Index = j"] := by rfl

/-- `PriorityQueue.Push` (the `heap.Interface` half of `Model.PQ.push`) -/
theorem pqPush_eq : Nsq.Gen.Codec.pqPush = [
  "n := len(*pq)",
  "c := cap(*pq)",
  "if n+1 > c {",
  "npq := make(PriorityQueue, n, c*2)",
  "copy(npq, *pq)",
  "*pq = npq",
  "}",
  "*pq = (*pq)[0 : n+1]",
  "item := x.(*Item)",
  "item.Index = n",
  "(*pq)[n] = item"] := by rfl

/-- `PriorityQueue.Pop` = `Model.PQ.takeLast` -/
theorem pqPop_eq : Nsq.Gen.Codec.pqPop = [
  "n := len(*pq)",
  "c := cap(*pq)",
  "if n < (c/2) && c > 25 {",
  "npq := make(PriorityQueue, n, c/2)",
  "copy(npq, *pq)",
  "*pq = npq",
  "}",
  "item := (*pq)[n-1]",
  "item.Index = -1",
  "*pq = (*pq)[0 : n-1]",
  "return item"] := by rfl

/-- `PriorityQueue.PeekAndShift` = `Model.PQ.peekAndShift2` (`heap.Remove(pq, 0)`) -/
theorem pqPeekAndShift_eq : Nsq.Gen.Codec.pqPeekAndShift = [
  "if pq.Len() == 0 {",
  "return nil, 0",
  "}",
  "item := (*pq)[0]",
  "if item.Priority > max {",
  "return nil, item.Priority - max",
  "}",
  "heap.Remove(pq, 0)",
  "return item, 0"] := by rfl

/-- `util.UniqRands` = `Model.Timing.uniqRands` -/
theorem uniqRandsBody_eq : Nsq.Gen.Codec.uniqRandsBody = [
  "if maxval < quantity {",
  "quantity = maxval",
  "}",
  "intSlice := make([]int, maxval)",
  "for i := 0; i < maxval; i++ {",
  "intSlice[i] = i",
  "}",
  "for i := 0; i < quantity; i++ {",
  "j := rand.Int()%maxval + i",
  "intSlice[i], intSlice[j] = intSlice[j], intSlice[i]",
  "maxval--",
  "}",
  "return intSlice[0:quantity]"] := by rfl

/-- `Channel.TouchMessage`: the deadline is `Model.Timing.touchDeadline` -/
theorem touchStmts_eq : Nsq.Gen.Codec.touchStmts = [
  "assign newTimeout := time.Now().Add(clientMsgTimeout)",
  "if newTimeout.Sub(msg.deliveryTS) >= c.nsqd.getOpts().MaxMsgTimeout",
  "assign newTimeout = msg.deliveryTS.Add(c.nsqd.getOpts().MaxMsgTimeout)",
  "assign msg.pri = newTimeout.UnixNano()"] := by rfl

/-- `protocolV2.TOUCH` passes the client's negotiated `MsgTimeout` -/
theorem touchCmdStmts_eq : Nsq.Gen.Codec.touchCmdStmts = [
  "assign msgTimeout := client.MsgTimeout",
  "assign err = client.Channel.TouchMessage(client.ID, *id, msgTimeout)"] := by rfl

/-- `Channel.StartInFlightTimeout` = `Model.Timing.startInFlight` -/
theorem startInFlightBody_eq : Nsq.Gen.Codec.startInFlightBody = [
  "now := time.Now()",
  "msg.clientID = clientID",
  "msg.deliveryTS = now",
  "msg.pri = now.Add(timeout).UnixNano()",
  "err := c.pushInFlightMessage(msg)",
  "if err != nil {",
  "return err",
  "}",
  -- fix F48 (audit A3, /repo 88fd245): `pushInFlightMessage` inserts into map AND heap in one critical section;
  -- the pre-F48 body (a separate `c.addToInFlightPQ(msg)` after the hook point) breaks this tie
  "verifPoint(\"chan.inflight.afterMapPush\")",
  "return nil"] := by rfl

/-- `Channel.StartDeferredTimeout` = `Model.Timing.startDeferred` -/
theorem startDeferredBody_eq : Nsq.Gen.Codec.startDeferredBody = [
  "absTs := time.Now().Add(timeout).UnixNano()",
  "item := &pqueue.Item{Value: msg, Priority: absTs}",
  "err := c.pushDeferredMessage(item)",
  "if err != nil {",
  "return err",
  "}",
  "verifPoint(\"chan.deferred.afterMapPush\")",
  "c.addToDeferredPQ(item)",
  "return nil"] := by rfl

/-- `Channel.RequeueMessage` = `Model.Timing.requeue`.  ONLY the committed body is accepted (audit B12): `exitMutex.RLock`
held with a deferred unlock over the whole function (F18, /repo d0f02d3, property C05: `Channel.exit` cannot flush while the
message is out of the in-flight map) and the channel's read lock as well (F27, /repo ebb5df3, C08 audit B17: `Channel.Empty`
— write lock — cannot run while the message is in REQ's hands).  The two older bodies (lock only around the final `put`;
F18 without `c.RLock`) break this tie.  What is popped and which delay is used was the same in all three. -/
theorem requeueBody_eq : Nsq.Gen.Codec.requeueBody = [
  "c.exitMutex.RLock()",
  "defer c.exitMutex.RUnlock()",
  "c.RLock()",
  "defer c.RUnlock()",
  "msg, err := c.popInFlightMessage(clientID, id)",
  "if err != nil {",
  "return err",
  "}",
  "verifPoint(\"chan.req.afterPop\")",
  "c.removeFromInFlightPQ(msg)",
  "atomic.AddUint64(&c.requeueCount, 1)",
  "if timeout == 0 {",
  "if c.Exiting() {",
  "return errors.New(\"exiting\")",
  "}",
  "err := c.put(msg)",
  "return err",
  "}",
  "return c.StartDeferredTimeout(msg, timeout)"] := by decide

/-- `Channel.processInFlightQueue` = `Model.Timing.scanInFlight` — the shape after fix F16: the heap pop
and the in-flight-map delete of one iteration are ONE critical section (`PeekAndShift`, then
`delete(c.inFlightMessages, msg.ID)` if the map still holds that very object, all under
`inFlightMutex`), i.e. the micro-steps `scanPopPQ true` / `scanFinishPop true` of the model. The
pre-fix shape (two critical sections, `popInFlightMessage(msg.clientID, …)` after the hook point)
is `scanPopPQ false` / `scanFinishPop false`, about which `Props.C04.never_early_micro_false` speaks. -/
theorem processInFlightBody_eq : Nsq.Gen.Codec.processInFlightBody = [
  "c.exitMutex.RLock()",
  "defer c.exitMutex.RUnlock()",
  "if c.Exiting() {",
  "return false",
  "}",
  "dirty := false",
  "for ; ;  {",
  "c.inFlightMutex.Lock()",
  "msg, _ := c.inFlightPQ.PeekAndShift(t)",
  "if msg != nil {",
  "if m, ok := c.inFlightMessages[msg.ID]; ok && m == msg {",
  "delete(c.inFlightMessages, msg.ID)",
  "} else {",
  "msg = nil",
  "dirty = true",
  "}",
  "}",
  "c.inFlightMutex.Unlock()",
  "if msg == nil {",
  "goto exit",
  "}",
  "dirty = true",
  "verifPoint(\"chan.scan.afterPQPop\")",
  "atomic.AddUint64(&c.timeoutCount, 1)",
  "c.RLock()",
  "client, ok := c.clients[msg.clientID]",
  "c.RUnlock()",
  "if ok {",
  "client.TimedOutMessage()",
  "}",
  "c.put(msg)",
  "}",
  "exit:",
  "return dirty"] := by rfl

/-- which shape of the scan iteration the current tree has (pinned by `processInFlightBody_eq`) -/
def scanFixed : Bool := true

/-- `Channel.processDeferredQueue` = `Model.Timing.scanDeferred` -/
theorem processDeferredBody_eq : Nsq.Gen.Codec.processDeferredBody = [
  "c.exitMutex.RLock()",
  "defer c.exitMutex.RUnlock()",
  "if c.Exiting() {",
  "return false",
  "}",
  "dirty := false",
  "for ; ;  {",
  "c.deferredMutex.Lock()",
  "item, _ := c.deferredPQ.PeekAndShift(t)",
  "c.deferredMutex.Unlock()",
  "if item == nil {",
  "goto exit",
  "}",
  "dirty = true",
  "msg := item.Value.(*Message)",
  "_, err := c.popDeferredMessage(msg.ID)",
  "if err != nil {",
  "goto exit",
  "}",
  "c.put(msg)",
  "}",
  "exit:",
  "return dirty"] := by rfl

/-- `NSQD.queueScanWorker`: both scans with one clock reading = `Model.Timing.scanChannel` -/
theorem scanWorkerBody_eq : Nsq.Gen.Codec.scanWorkerBody = [
  "for ; ;  {",
  "select { case c := <-workCh: now := time.Now().UnixNano() dirty := false if c.processInFlightQueue(now) { dirty = true } if c.processDeferredQueue(now) { dirty = true } responseCh <- dirty case <-closeCh: return }",
  "}"] := by rfl

/-- `NSQD.queueScanLoop`: `num = min(QueueScanSelectionCount, len(channels))`, repeat while dirty -/
theorem scanLoopStmts_eq : Nsq.Gen.Codec.scanLoopStmts = [
  "assign num := n.getOpts().QueueScanSelectionCount",
  "if num > len(channels)",
  "assign num = len(channels)",
  "assign numDirty := 0",
  "if float64(numDirty)/float64(num) > n.getOpts().QueueScanDirtyPercent"] := by rfl

end Nsq.Tie.PQ
