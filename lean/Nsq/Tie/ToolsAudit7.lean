import Nsq.Gen.ToolsRelay
import Nsq.Gen.ToolsRelayOpts
/-!
Regenerated-leg facts for the audit-round-7 models of C20 (sub-builder c20b). Every fact is `decide`d **directly on the
regenerated definitions** `Nsq.Gen.ToolsRelay.*` / `Nsq.Gen.ToolsRelayOpts.*` (never on a hand-written `expected_…`
constant), and states only the semantic core the model relies on, so a harmless rewrite elsewhere in the function does not
break it. The behaviour itself is tied by the correspondence legs (real binary / real functions); these facts only pin the
shape the models were written against.
-/
namespace Nsq.Tie.ToolsAudit7
open Nsq.Gen.ToolsRelay

def after (s : String) (l : List String) : List String := (l.dropWhile (· != s)).drop 1

/-- `Nsq.Model.ToNsqRefuse.publishOne`: inside `range producers` the first refused `Publish` returns its error at once
(fail-stop per record), and only after the loop `readErr` is returned -/
theorem readAndPublish_fail_stop :
    (after "range producers" readAndPublish).take 4 =
      [".err := producer.Publish(*topic, line)", ".if err != nil", "..return err", "return readErr"] := by decide

/-- `Nsq.Model.ToNsqRefuse.run`: in main's reader goroutine an error of `readAndPublish` other than `io.EOF` is
`log.Fatal` (exit status 1); only `io.EOF` closes `stopChan` -/
theorem toNsq_publish_error_is_fatal :
    (after "..if err != nil" Nsq.Gen.ToolsRelayOpts.toNsqMainLoop).take 4 =
      ["...if err != io.EOF", "....log.Fatal(err)", "...close(stopChan)", "...break"] := by decide

/-- `Nsq.Model.HttpGet.endpoint`: the request target is `fmt.Sprintf(addr, url.QueryEscape(string(msg)))` and that
string is what `HTTPGet` is called with -/
theorem get_endpoint_statement :
    n2hGet.take 2 = ["endpoint := fmt.Sprintf(addr, url.QueryEscape(string(msg)))", "resp, err := HTTPGet(endpoint)"] := by decide

/-- `Nsq.Model.Relay.N2N.consume`: in go-nsq's `handlerLoop` the give-up test comes before the handler and finishes the
message without calling it -/
theorem handlerLoop_giveup_before_handler :
    (after ".if r.shouldFailMessage(message, handler)" handlerLoop).take 3 =
      ["..message.Finish()", "..continue", ".err := handler.HandleMessage(message)"] := by decide

/-- `Nsq.Model.Relay.N2N.step (.result …)`: the responder answers the message stored in the transaction it received
(`t.Args[0]`), in both modes -/
theorem responder_answers_its_transaction :
    (after "..case ModeRoundRobin" n2nResponder).head? = some "...msg = t.Args[0].(*nsq.Message)" ∧
    (after "..case ModeHostPool" n2nResponder).head? = some "...msg = t.Args[0].(*nsq.Message)" ∧
    "..msg.Finish()" ∈ n2nResponder ∧ "..msg.Requeue(-1)" ∈ n2nResponder := by decide

end Nsq.Tie.ToolsAudit7
