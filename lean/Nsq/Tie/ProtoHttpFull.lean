import Nsq.Gen.Proto
import Nsq.Model.HttpFull
/-!
Tie for the whole-table HTTP model (`Nsq.Model.HttpFull`), over the facts `tools/go2lean` re-extracts
from nsqd/http.go, internal/http_api and internal/lg on every run (`specs/e3_proto.json`, kinds
`routesall`, `structfields`, `stmts`). The behavioural tie is the correspondence leg `httpx`
(`harness/e3/httpfull_test.go`): these facts pin the *shape* the model was written from; the facts
marked (semantic) survive harmless rewrites, those marked (text) are exact statement text and a
refactoring of the handler breaks them although the correspondence leg would still pass.
-/
namespace Nsq.Tie.ProtoHttpFull
open Nsq.Model.HttpFull Nsq.Model.HttpApi Nsq.Model

def decoOf (d : String) : Option Deco :=
  if d = "http_api.V1" then some .v1
  else if d = "http_api.PlainText" then some .plain
  else if d = "" then some .raw
  else none

/-- (semantic) Every registration of `newHTTPServer` — `Handle`, `HandlerFunc` and `Handler` — with
its outermost decorator is a row of the model's table, in order, and nothing else is. -/
theorem routes_full :
    Nsq.Gen.Proto.routesAll.map (fun r => (r.1, r.2.1, r.2.2.1, decoOf r.2.2.2)) =
      fullTable.map (fun r => (r.1, r.2.1, r.2.2.1, some r.2.2.2)) := by decide

/-- (semantic) No (method, path) is registered twice (httprouter would panic at start-up). -/
theorem routes_functional : (fullTable.map (fun r => (r.1, r.2.1))).Nodup := by decide

/-- (semantic) The C10 table of `HttpApi` is the same table without the four `router.Handler`
registrations; handlers agree by name. -/
theorem old_table_embedded :
    ∀ r ∈ routeTable, ∃ r' ∈ fullTable, r'.1 = r.1 ∧ r'.2.1 = r.2.1 ∧
      (r.2.2 = .external ∨ baseHandler r'.2.2.1 = some r.2.2 ∨
       r'.2.2.1 ∈ ["pingHandler", "doInfo", "doStats", "doConfig"]) := by decide

/-- (semantic) The undecorated registrations are exactly the `net/http/pprof` handlers. -/
theorem raw_is_pprof : ∀ r ∈ fullTable, (r.2.2.2 = .raw ↔ r.2.2.1.toList.take 6 = "pprof.".toList) := by decide

/-- (semantic) JSON keys of the `/info` document. -/
theorem info_keys : Nsq.Gen.Proto.infoFields.map (·.2.2) =
    ["version", "broadcast_address", "hostname", "http_port", "tcp_port", "start_time", "max_heartbeat_interval",
     "max_output_buffer_size", "max_output_buffer_timeout", "max_deflate_level", "topology_zone", "topology_region"] := by
  decide

/-- (semantic) The words of `lg.ParseLogLevel`, in level order, are the model's (`wordLevel`). -/
theorem log_level_words :
    Nsq.Gen.Proto.parseLogLevelStmts.take 5 =
      ["case \"debug\"", "case \"info\"", "case \"warn\"", "case \"error\"", "case \"fatal\""] ∧
    [Names.ascii "debug", Names.ascii "info", Names.ascii "warn", Names.ascii "error", Names.ascii "fatal"].map wordLevel =
      [some 1, some 2, some 3, some 4, some 5] := by decide

/-- (text) `doStats`: the five arguments, `format == "json"`, "not in boolParams ⇒ true". -/
theorem stats_args : Nsq.Gen.Proto.statsArgStmts = [
  "return return nil, http_api.Err{400, \"INVALID_REQUEST\"}",
  "assign formatString, _ := reqParams.Get(\"format\")",
  "assign topicName, _ := reqParams.Get(\"topic\")",
  "assign channelName, _ := reqParams.Get(\"channel\")",
  "assign includeClientsParam, _ := reqParams.Get(\"include_clients\")",
  "assign includeMemParam, _ := reqParams.Get(\"include_mem\")",
  "assign jsonFormat := formatString == \"json\"",
  "assign includeClients, ok := boolParams[includeClientsParam]",
  "assign includeClients = true",
  "assign includeMem, ok := boolParams[includeMemParam]",
  "assign includeMem = true",
  "if !jsonFormat"] := rfl

/-- (text) the two debug handlers: `Atoi(FormValue("rate"))` → 400, otherwise `nil, nil` (the nil
result is what `PlainText` must cope with — finding F24). -/
theorem debug_handlers :
    Nsq.Gen.Proto.setBlockRateStmts = [
      "assign rate, err := strconv.Atoi(req.FormValue(\"rate\"))",
      "return return nil, http_api.Err{http.StatusBadRequest, fmt.Sprintf(\"invalid block rate : %s\", err.Error())}",
      "return return nil, nil"] ∧
    Nsq.Gen.Proto.freeMemoryStmts = ["return return nil, nil"] := ⟨rfl, rfl⟩

/-- (text) `RespondV1`: JSON content type for marshalled data and for every non-200. -/
theorem respond_v1 : Nsq.Gen.Proto.respondV1Stmts = [
  "if code == 200", "assign isJSON = true", "assign code = 500", "if code != 200", "assign isJSON = true",
  "if isJSON"] := rfl

/-- (semantic) `http_api.NewReqParams` parses the query string and reads NOTHING of the request body (fix F33 = /repo
894b9eb, committed: `Model.HttpBody.bodyRead`, the `R` column of the `httpb` leg). The shape before F33
(`["ParseQuery", "ReadAll"]`: `bodyReadOld`, `Props.C10Char.body_read_bounded_false_before_F33`) is not accepted (audit
B12): with F33 reverted this tie breaks and the replay corpus/C10/fixed/admin_body_unbounded.opsb reports
`admin-body-unbounded` (listed `fixed`) as a VIOLATION. -/
theorem newReqParams_reads_no_body : Nsq.Gen.Proto.newReqParamsCalls = ["ParseQuery"] := rfl

end Nsq.Tie.ProtoHttpFull
