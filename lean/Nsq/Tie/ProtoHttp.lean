import Nsq.Gen.Proto
import Nsq.Model.HttpApi
/-!
Tie for C10: the route table and the handlers' guards as re-extracted from nsqd/http.go and
internal/http_api by `tools/go2lean` against what `Nsq.Model.HttpApi` was written from.
Part 1: the route table of the model equals the `router.Handle`/`HandlerFunc` registrations.
Part 2: exact ordered text of every status-deciding statement (see `Nsq.Tie.Proto` for the idea).
-/
namespace Nsq.Tie.ProtoHttp
open Nsq.Model.HttpApi Nsq.Model

/-! ## Part 1 -/

def handlerOf (name : String) : Handler :=
  if name = "pingHandler" then .ping
  else if name = "doInfo" then .info
  else if name = "doPUB" then .pub
  else if name = "doMPUB" then .mpub
  else if name = "doStats" then .stats
  else if name = "doCreateTopic" then .createTopic
  else if name = "doDeleteTopic" then .deleteTopic
  else if name = "doEmptyTopic" then .emptyTopic
  else if name = "doPauseTopic" then .pauseTopic
  else if name = "doCreateChannel" then .createChannel
  else if name = "doDeleteChannel" then .deleteChannel
  else if name = "doEmptyChannel" then .emptyChannel
  else if name = "doPauseChannel" then .pauseChannel
  else if name = "doConfig" then .config
  else .external

/-- (method, path, handler) of the model = the registrations found in `newHTTPServer`. -/
theorem routes_model :
    Nsq.Gen.Proto.routes.map (fun r => (r.1, r.2.1, handlerOf r.2.2.1)) = routeTable := by decide

/-- Every modelled handler is wrapped in the V1 (or PlainText for /ping) decorator, i.e. its
`http_api.Err{code, text}` becomes the response status. -/
theorem decorated : ∀ r ∈ Nsq.Gen.Proto.routes, handlerOf r.2.2.1 = .external ∨
    r.2.2.2.contains "http_api.V1" = true ∨ r.2.2.2.contains "http_api.PlainText" = true := by decide

theorem regex_literal : Nsq.Gen.Proto.nameRegex = Names.regexLiteral := rfl

/-! ## Part 2 -/

theorem routes_eq : Nsq.Gen.Proto.routes = ([
  ("GET", "/ping", "pingHandler", ["log", "http_api.PlainText"]),
  ("GET", "/info", "doInfo", ["log", "http_api.V1"]),
  ("POST", "/pub", "doPUB", ["http_api.V1"]),
  ("POST", "/mpub", "doMPUB", ["http_api.V1"]),
  ("GET", "/stats", "doStats", ["log", "http_api.V1"]),
  ("POST", "/topic/create", "doCreateTopic", ["log", "http_api.V1"]),
  ("POST", "/topic/delete", "doDeleteTopic", ["log", "http_api.V1"]),
  ("POST", "/topic/empty", "doEmptyTopic", ["log", "http_api.V1"]),
  ("POST", "/topic/pause", "doPauseTopic", ["log", "http_api.V1"]),
  ("POST", "/topic/unpause", "doPauseTopic", ["log", "http_api.V1"]),
  ("POST", "/channel/create", "doCreateChannel", ["log", "http_api.V1"]),
  ("POST", "/channel/delete", "doDeleteChannel", ["log", "http_api.V1"]),
  ("POST", "/channel/empty", "doEmptyChannel", ["log", "http_api.V1"]),
  ("POST", "/channel/pause", "doPauseChannel", ["log", "http_api.V1"]),
  ("POST", "/channel/unpause", "doPauseChannel", ["log", "http_api.V1"]),
  ("GET", "/config/:opt", "doConfig", ["log", "http_api.V1"]),
  ("PUT", "/config/:opt", "doConfig", ["log", "http_api.V1"]),
  ("GET", "/debug/pprof/", "pprof.Index", []),
  ("GET", "/debug/pprof/cmdline", "pprof.Cmdline", []),
  ("GET", "/debug/pprof/symbol", "pprof.Symbol", []),
  ("POST", "/debug/pprof/symbol", "pprof.Symbol", []),
  ("GET", "/debug/pprof/profile", "pprof.Profile", []),
  ("PUT", "/debug/setblockrate", "setBlockRateHandler", ["log", "http_api.PlainText"]),
  ("POST", "/debug/freememory", "freeMemory", ["log", "http_api.PlainText"])] : List (String × String × String × List String)) := rfl

theorem serveHTTP_eq : Nsq.Gen.Proto.serveHTTP = ([
  "if !s.tlsEnabled && s.tlsRequired"] : List String) := rfl

theorem doPubStmts_eq : Nsq.Gen.Proto.doPubStmts = ([
  "if req.ContentLength > s.nsqd.getOpts().MaxMsgSize",
  "return return nil, http_api.Err{413, \"MSG_TOO_BIG\"}",
  "assign readMax := s.nsqd.getOpts().MaxMsgSize + 1",
  "assign body, err := io.ReadAll(io.LimitReader(req.Body, readMax))",
  "return return nil, http_api.Err{500, \"INTERNAL_ERROR\"}",
  "if int64(len(body)) == readMax",
  "return return nil, http_api.Err{413, \"MSG_TOO_BIG\"}",
  "if len(body) == 0",
  "return return nil, http_api.Err{400, \"MSG_EMPTY\"}",
  "assign reqParams, topic, err := s.getTopicFromQuery(req)",
  "assign ds, ok := reqParams[\"defer\"]",
  "assign di, err = strconv.ParseInt(ds[0], 10, 64)",
  "return return nil, http_api.Err{400, \"INVALID_DEFER\"}",
  "if di < 0 || di > int64(s.nsqd.getOpts().MaxReqTimeout/time.Millisecond)",
  "return return nil, http_api.Err{400, \"INVALID_DEFER\"}",
  "assign deferred = time.Duration(di) * time.Millisecond",
  "assign msg.deferred = deferred",
  "return return nil, http_api.Err{503, \"EXITING\"}"] : List String) := rfl

theorem doMpubStmts_eq : Nsq.Gen.Proto.doMpubStmts = ([
  "if req.ContentLength > s.nsqd.getOpts().MaxBodySize",
  "return return nil, http_api.Err{413, \"BODY_TOO_BIG\"}",
  "assign reqParams, topic, err := s.getTopicFromQuery(req)",
  "assign binaryMode := false",
  "assign binaryMode, ok = boolParams[vals[0]]",
  "assign binaryMode = true",
  "if binaryMode",
  "assign msgs, err = readMPUB(io.LimitReader(req.Body, s.nsqd.getOpts().MaxBodySize), tmp, topic, s.nsqd.getOpts().MaxMsgSize, s.nsqd.getOpts().MaxBodySize)",
  "return return nil, http_api.Err{413, err.(*protocol.FatalClientErr).Code[2:]}",
  "assign readMax := s.nsqd.getOpts().MaxBodySize + 1",
  "assign rdr := bufio.NewReader(io.LimitReader(req.Body, readMax))",
  "assign total := 0",
  "assign block, err = rdr.ReadBytes('\\n')",
  "return return nil, http_api.Err{500, \"INTERNAL_ERROR\"}",
  "assign total += len(block)",
  "if int64(total) == readMax",
  "return return nil, http_api.Err{413, \"BODY_TOO_BIG\"}",
  "if len(block) > 0 && block[len(block)-1] == '\\n'",
  "assign block = block[:len(block)-1]",
  "if len(block) == 0",
  "if int64(len(block)) > s.nsqd.getOpts().MaxMsgSize",
  "return return nil, http_api.Err{413, \"MSG_TOO_BIG\"}",
  "assign msg := NewMessage(topic.GenerateID(), block)",
  "return return nil, http_api.Err{503, \"EXITING\"}"] : List String) := rfl

theorem topicFromQueryStmts_eq : Nsq.Gen.Proto.topicFromQueryStmts = ([
  "assign reqParams, err := url.ParseQuery(req.URL.RawQuery)",
  "return return nil, nil, http_api.Err{400, \"INVALID_REQUEST\"}",
  "assign topicNames, ok := reqParams[\"topic\"]",
  "return return nil, nil, http_api.Err{400, \"MISSING_ARG_TOPIC\"}",
  "assign topicName := topicNames[0]",
  "if !protocol.IsValidTopicName(topicName)",
  "return return nil, nil, http_api.Err{400, \"INVALID_TOPIC\"}",
  "return return reqParams, s.nsqd.GetTopic(topicName), nil"] : List String) := rfl

theorem existingTopicStmts_eq : Nsq.Gen.Proto.existingTopicStmts = ([
  "assign reqParams, err := http_api.NewReqParams(req)",
  "return return nil, nil, \"\", http_api.Err{400, \"INVALID_REQUEST\"}",
  "assign topicName, channelName, err := http_api.GetTopicChannelArgs(reqParams)",
  "return return nil, nil, \"\", http_api.Err{400, err.Error()}",
  "assign topic, err := s.nsqd.GetExistingTopic(topicName)",
  "return return nil, nil, \"\", http_api.Err{404, \"TOPIC_NOT_FOUND\"}"] : List String) := rfl

theorem topicChannelArgsStmts_eq : Nsq.Gen.Proto.topicChannelArgsStmts = ([
  "assign topicName, err := rp.Get(\"topic\")",
  "return return \"\", \"\", errors.New(\"MISSING_ARG_TOPIC\")",
  "if !protocol.IsValidTopicName(topicName)",
  "return return \"\", \"\", errors.New(\"INVALID_ARG_TOPIC\")",
  "assign channelName, err := rp.Get(\"channel\")",
  "return return \"\", \"\", errors.New(\"MISSING_ARG_CHANNEL\")",
  "if !protocol.IsValidChannelName(channelName)",
  "return return \"\", \"\", errors.New(\"INVALID_ARG_CHANNEL\")"] : List String) := rfl

theorem emptyTopicStmts_eq : Nsq.Gen.Proto.emptyTopicStmts = ([
  "return return nil, http_api.Err{400, \"INVALID_REQUEST\"}",
  "return return nil, http_api.Err{400, \"MISSING_ARG_TOPIC\"}",
  "if !protocol.IsValidTopicName(topicName)",
  "return return nil, http_api.Err{400, \"INVALID_TOPIC\"}",
  "assign topic, err := s.nsqd.GetExistingTopic(topicName)",
  "return return nil, http_api.Err{404, \"TOPIC_NOT_FOUND\"}",
  "assign err = topic.Empty()",
  "return return nil, http_api.Err{500, \"INTERNAL_ERROR\"}"] : List String) := rfl

theorem deleteTopicStmts_eq : Nsq.Gen.Proto.deleteTopicStmts = ([
  "return return nil, http_api.Err{400, \"INVALID_REQUEST\"}",
  "return return nil, http_api.Err{400, \"MISSING_ARG_TOPIC\"}",
  "assign err = s.nsqd.DeleteExistingTopic(topicName)",
  "return return nil, http_api.Err{404, \"TOPIC_NOT_FOUND\"}"] : List String) := rfl

theorem pauseTopicStmts_eq : Nsq.Gen.Proto.pauseTopicStmts = ([
  "return return nil, http_api.Err{400, \"INVALID_REQUEST\"}",
  "return return nil, http_api.Err{400, \"MISSING_ARG_TOPIC\"}",
  "assign topic, err := s.nsqd.GetExistingTopic(topicName)",
  "return return nil, http_api.Err{404, \"TOPIC_NOT_FOUND\"}",
  "if strings.Contains(req.URL.Path, \"unpause\")",
  "assign err = topic.UnPause()",
  "assign err = topic.Pause()",
  "return return nil, http_api.Err{500, \"INTERNAL_ERROR\"}"] : List String) := rfl

theorem createChannelStmts_eq : Nsq.Gen.Proto.createChannelStmts = ([
  "assign _, topic, channelName, err := s.getExistingTopicFromQuery(req)"] : List String) := rfl

theorem emptyChannelStmts_eq : Nsq.Gen.Proto.emptyChannelStmts = ([
  "assign _, topic, channelName, err := s.getExistingTopicFromQuery(req)",
  "assign channel, err := topic.GetExistingChannel(channelName)",
  "return return nil, http_api.Err{404, \"CHANNEL_NOT_FOUND\"}",
  "assign err = channel.Empty()",
  "return return nil, http_api.Err{500, \"INTERNAL_ERROR\"}"] : List String) := rfl

theorem deleteChannelStmts_eq : Nsq.Gen.Proto.deleteChannelStmts = ([
  "assign _, topic, channelName, err := s.getExistingTopicFromQuery(req)",
  "assign err = topic.DeleteExistingChannel(channelName)",
  "return return nil, http_api.Err{404, \"CHANNEL_NOT_FOUND\"}"] : List String) := rfl

theorem pauseChannelStmts_eq : Nsq.Gen.Proto.pauseChannelStmts = ([
  "assign _, topic, channelName, err := s.getExistingTopicFromQuery(req)",
  "assign channel, err := topic.GetExistingChannel(channelName)",
  "return return nil, http_api.Err{404, \"CHANNEL_NOT_FOUND\"}",
  "if strings.Contains(req.URL.Path, \"unpause\")",
  "assign err = channel.UnPause()",
  "assign err = channel.Pause()",
  "return return nil, http_api.Err{500, \"INTERNAL_ERROR\"}"] : List String) := rfl

theorem pingStmts_eq : Nsq.Gen.Proto.pingStmts = ([
  "if !s.nsqd.IsHealthy()",
  "return return nil, http_api.Err{500, health}"] : List String) := rfl

theorem configStmts_eq : Nsq.Gen.Proto.configStmts = ([
  "assign opt := ps.ByName(\"opt\")",
  "if req.Method == \"PUT\"",
  "assign readMax := s.nsqd.getOpts().MaxMsgSize + 1",
  "assign body, err := io.ReadAll(io.LimitReader(req.Body, readMax))",
  "return return nil, http_api.Err{500, \"INTERNAL_ERROR\"}",
  "if int64(len(body)) == readMax || len(body) == 0",
  "return return nil, http_api.Err{413, \"INVALID_VALUE\"}",
  "assign opts := *s.nsqd.getOpts()",
  "assign err := json.Unmarshal(body, &opts.NSQLookupdTCPAddresses)",
  "return return nil, http_api.Err{400, \"INVALID_VALUE\"}",
  "return return nil, http_api.Err{400, \"INVALID_VALUE\"}",
  "assign opts.LogLevel = logLevel",
  "return return nil, http_api.Err{400, \"INVALID_OPTION\"}",
  "assign v, ok := getOptByCfgName(s.nsqd.getOpts(), opt)",
  "return return nil, http_api.Err{400, \"INVALID_OPTION\"}"] : List String) := rfl

theorem readMpubLimits_eq : Nsq.Gen.Proto.readMpubLimits = ([
  "assign numMessages, err := readLen(r, tmp)",
  "assign maxMessages := (maxBodySize - 4) / 5",
  "if numMessages <= 0 || int64(numMessages) > maxMessages",
  "return return nil, protocol.NewFatalClientErr(err, \"E_BAD_BODY\", fmt.Sprintf(\"MPUB invalid message count %d\", numMessages))",
  "assign messages := make([]*Message, 0, numMessages)",
  "assign messageSize, err := readLen(r, tmp)",
  "if messageSize <= 0",
  "return return nil, protocol.NewFatalClientErr(nil, \"E_BAD_MESSAGE\", fmt.Sprintf(\"MPUB invalid message(%d) body size %d\", i, messageSize))",
  "if int64(messageSize) > maxMessageSize",
  "return return nil, protocol.NewFatalClientErr(nil, \"E_BAD_MESSAGE\", fmt.Sprintf(\"MPUB message too big %d > %d\", messageSize, maxMessageSize))",
  "assign msgBody := make([]byte, messageSize)"] : List String) := rfl

theorem nameRegex_text_eq : Nsq.Gen.Proto.nameRegex = ("^[.a-zA-Z0-9_-]+(#ephemeral)?$" : String) := rfl

theorem nameLen_eq : Nsq.Gen.Proto.nameLen = ([
  "if len(name) > 64 || len(name) < 1",
  "return return validTopicChannelNameRegex.MatchString(name)"] : List String) := rfl

end Nsq.Tie.ProtoHttp
