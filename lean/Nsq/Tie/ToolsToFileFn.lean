import Nsq.Gen.ToolsToFileFn
import Nsq.Model.ToFileName
import Nsq.Model.ToFileDisc
import Nsq.Model.ToFileMain
/-!
Tie of the file-name model (`Nsq.Model.ToFileName`) to apps/nsq_to_file/file_logger.go by
*translation*: `tools/go2lean` (kind `strfunc`) re-translates `computeFilenameFormat` and
`FileLogger.currentFilename` from the current tree into Lean definitions over byte strings
(`Nsq.Gen.ToolsToFileFn`); the theorems below prove the translated definitions equal to the hand
model for all inputs. A rewrite of the Go functions that keeps their meaning inside the accepted
subset still proves (possibly after adjusting the argument order below); a change of meaning
(a token renamed, the `<REV>` check weakened, a substitution dropped or reordered) does not.
-/
namespace Nsq.Tie.ToolsToFileFn
open Nsq.Model.Str Nsq.Model.ToFileName

private theorem ite_ok {c : Prop} [Decidable c] (a b : Str) :
    (if c then (Except.ok a : Except Str Str) else .ok b) = .ok (if c then a else b) := by
  split <;> rfl

set_option linter.unusedSimpArgs false in
theorem computeFilenameFormat_fn_eq (o : Opts) (topic : Str) (hostname : Except Str Str) (pid : Str) :
    Nsq.Gen.ToolsToFileFn.computeFilenameFormat hostname o.hostIdentifier o.filenameFormat o.gzip
      o.rotateSize o.rotateInterval o.workDir o.outputDir topic pid
    = computeFilenameFormat o topic hostname pid := by
  unfold Nsq.Gen.ToolsToFileFn.computeFilenameFormat computeFilenameFormat
  cases hostname with
  | error e => rfl
  | ok h =>
    simp only [needsRev, identifier, gzSuffix, substitute, tREV, tTOPIC, tHOST, tPID, tSHORT_HOST, tHOSTNAME,
      dot, gz, errMissingRev]
    by_cases hl : o.hostIdentifier = [] <;>
    by_cases hr : (o.gzip || decide (o.rotateSize > 0) || decide (o.rotateInterval > 0) ||
        decide (o.workDir ≠ o.outputDir)) = true <;>
    by_cases hc : contains o.filenameFormat [60, 82, 69, 86, 62] = true <;>
    simp [hl, hr, hc, ite_ok]

theorem currentFilename_fn_eq (filenameFormat datetime : Str) :
    Nsq.Gen.ToolsToFileFn.currentFilename datetime filenameFormat = currentFilename filenameFormat datetime := rfl

/-- `TopicDiscoverer.isTopicAllowed`: empty pattern allows everything, a pattern that does not compile
allows nothing, otherwise the regexp decides -/
theorem isTopicAllowed_fn_eq (pattern : Str) (matched : Except Str Bool) :
    Nsq.Gen.ToolsToFileFn.isTopicAllowed pattern matched = Nsq.Model.ToFileDisc.isTopicAllowed pattern matched := by
  unfold Nsq.Gen.ToolsToFileFn.isTopicAllowed Nsq.Model.ToFileDisc.isTopicAllowed
  by_cases hp : pattern = [] <;> cases matched <;> simp [hp]

/-! ### the consumer configuration `main()` starts with (finding `gives-up-after-max-attempts`, fix F43) -/

/-- go-nsq's struct-tag default -/
theorem toFileMaxAttempts_lib_eq : Nsq.Gen.ToolsToFileFn.toFileMaxAttempts_lib = 5 := rfl

/-- `main()` either leaves the library default (tree without fix F43: the open finding) or sets `cfg.MaxAttempts = 0`
(fix F43); any other value is a change this check does not understand -/
theorem toFileMaxAttempts_known :
    Nsq.Gen.ToolsToFileFn.toFileMaxAttempts = 5 ∨ Nsq.Gen.ToolsToFileFn.toFileMaxAttempts = 0 := by decide

/-- the assignment (if any) happens before the operator's `--consumer-opt`s are applied -/
theorem toFileMaxAttempts_overridable : Nsq.Gen.ToolsToFileFn.toFileMaxAttempts_overridable = true := rfl

/-! ### `--gzip-level` -/

/-- `main()` refuses exactly the levels outside 1..9 … -/
theorem gzipLevel_accepted_iff (l : Int) :
    Nsq.Gen.ToolsToFileFn.gzipLevelRejected l = false ↔ (1 ≤ l ∧ l ≤ 9) := by
  unfold Nsq.Gen.ToolsToFileFn.gzipLevelRejected
  simp only [Bool.or_eq_false_iff, decide_eq_false_iff_not]
  omega

/-- … so every accepted level lies inside the range `gzip.NewWriterLevel` accepts (`HuffmanOnly = -2` …
`BestCompression = 9`): the error that `updateFile`/`Sync` discard (`f.gzipWriter, _ = gzip.NewWriterLevel(…)`)
is always nil, the writer never a nil pointer -/
theorem gzipLevel_accepted_is_valid (l : Int) (h : Nsq.Gen.ToolsToFileFn.gzipLevelRejected l = false) :
    -2 ≤ l ∧ l ≤ 9 := by
  have := (gzipLevel_accepted_iff l).mp h
  omega

/-! ### the other start-up checks of `main()` -/

/-- the model's refusal predicate is exactly the disjunction of the eight translated `log.Fatal` conditions -/
theorem main_refusals_eq (o : Nsq.Model.ToFileMain.MainOpts) :
    Nsq.Model.ToFileMain.refuses o =
      (Nsq.Gen.ToolsToFileFn.mainNoChannel o.channel
       || Nsq.Gen.ToolsToFileFn.mainBadConnectTimeout o.connectTimeout
       || Nsq.Gen.ToolsToFileFn.mainBadRequestTimeout o.requestTimeout
       || Nsq.Gen.ToolsToFileFn.mainNoAddress o.nNsqd o.nLookupd
       || Nsq.Gen.ToolsToFileFn.mainBothAddresses o.nNsqd o.nLookupd
       || Nsq.Gen.ToolsToFileFn.gzipLevelRejected o.gzipLevel
       || Nsq.Gen.ToolsToFileFn.mainNoTopic o.nTopics o.pattern
       || Nsq.Gen.ToolsToFileFn.mainPatternNeedsLookupd o.nTopics o.nLookupd) := by
  unfold Nsq.Model.ToFileMain.refuses Nsq.Gen.ToolsToFileFn.mainNoChannel Nsq.Gen.ToolsToFileFn.mainBadConnectTimeout
    Nsq.Gen.ToolsToFileFn.mainBadRequestTimeout Nsq.Gen.ToolsToFileFn.mainNoAddress Nsq.Gen.ToolsToFileFn.mainBothAddresses
    Nsq.Gen.ToolsToFileFn.gzipLevelRejected Nsq.Gen.ToolsToFileFn.mainNoTopic Nsq.Gen.ToolsToFileFn.mainPatternNeedsLookupd
  simp [List.length_eq_zero_iff]

end Nsq.Tie.ToolsToFileFn
