import Nsq.Gen.WireStack
import Nsq.Model.WireStack
/-! Which tree the source is, as far as `SetOutputBuffer` and `c.flateWriter` are concerned (definitions only:
imported by the driver `drv_e1`, which must follow the regenerated tree; the facts are in `Nsq.Tie.WireStack`). -/
namespace Nsq.Tie.WireStack
open Nsq.Gen.WireStack

def setUnfixed : List String := [
  "if desiredSize != 0",
  "assign err := c.Writer.Flush()",
  "assign c.Writer = bufio.NewWriterSize(c.Conn, c.OutputBufferSize)"]

def setFixed : List String := [
  "if desiredSize != 0",
  "assign err := c.Writer.Flush()",
  "assign c.Writer = bufio.NewWriterSize(c.outputDest, c.OutputBufferSize)"]

/-- the tree the model has to follow: `Model.WireStack.tstep treeFixed` -/
def treeFixed : Bool := setOutputBufferWriter == setFixed

/-- `UpgradeTLS` on /repo d6aa4e3 (F30): `c.flateWriter` is left alone. (The spec matches every statement that
mentions `nil`, so a guard around one of these assignments — `if c.tlsConn == nil { c.flateWriter = nil }`, mutation
R11-A — changes the list.) -/
def tlsF30 : List String := [
  "assign tlsConn := tls.Server(c.Conn, c.nsqd.tlsConfig)",
  "if err != nil",
  "assign c.outputDest = c.tlsConn",
  "assign c.Writer = bufio.NewWriterSize(c.tlsConn, c.OutputBufferSize)"]

/-- `UpgradeTLS` with F30b: the flate writer of an earlier IDENTIFY is dropped before the new writer is installed -/
def tlsF30b : List String := [
  "assign tlsConn := tls.Server(c.Conn, c.nsqd.tlsConfig)",
  "if err != nil",
  "assign c.flateWriter = nil",
  "assign c.outputDest = c.tlsConn",
  "assign c.Writer = bufio.NewWriterSize(c.tlsConn, c.OutputBufferSize)"]

def clearsFlate (stmts : List String) : Bool := stmts.contains "assign c.flateWriter = nil"

/-- the tree of the kinded model: `Model.WireStack.kstep tree` -/
def tree : Nsq.Model.WireStack.Tree :=
  ⟨treeFixed, clearsFlate upgradeSnappyWriter, clearsFlate upgradeTLSWriter⟩

end Nsq.Tie.WireStack
