import Nsq.Gen.WireStack
/-! Which tree the source is, as far as `SetOutputBuffer` is concerned (definitions only: imported by
the driver `drv_e1`, which must follow the regenerated tree; the facts are in `Nsq.Tie.WireStack`). -/
namespace Nsq.Tie.WireStack
open Nsq.Gen.WireStack

def setUnfixed : List String := [
  "if desiredSize != 0",
  "assign err := c.Writer.Flush()",
  "assign c.Writer = bufio.NewWriterSize(c.Conn, c.OutputBufferSize)"]

def setFixed : List String := [
  "if desiredSize != 0",
  "assign err := c.Writer.Flush()",
  "assign c.Writer = bufio.NewWriterSize(c.outputDest, c.OutputBufferSize)"]

/-- the tree the model has to follow: `Model.WireStack.tstep treeFixed` -/
def treeFixed : Bool := setOutputBufferWriter == setFixed

end Nsq.Tie.WireStack
