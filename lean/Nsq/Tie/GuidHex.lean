import Nsq.Gen.GuidHexFn
import Nsq.Model.Guid
import Nsq.Model.ByteOps
import Nsq.Proofs.ByteOps
/-!
Tie (C12), translated definition: `guid.Hex()` (nsqd/guid.go — eight `b[i] = byte(g >> k)` stores
and `hex.Encode`) is re-translated from the Go source on every run (kind `bytes`,
`specs/e1_guidhex.json` → `Nsq.Gen.GuidHexFn.guidHex`) and PROVED equal to the model
`Nsq.Model.Guid.hex` (16 big-endian lower-case hex digits of the two's-complement value) that the
`hex_*` theorems of `Nsq.Props.C12` are about — for every int64, negative ones included (the
arithmetic shift of the signed `guid` only shows in bits that `byte(…)` drops).
-/
namespace Nsq.Tie.GuidHex
open Nsq.Model.ByteOps Nsq.Model.Guid Nsq.Proofs.ByteOps

/-- the low byte after an arithmetic shift by `k ≤ 56` is the byte at bit `k` -/
theorem byte_of_sshift (g : BitVec 64) (k : Nat) (hk : k + 8 ≤ 64) :
    (toByte (BitVec.setWidth 8 (BitVec.sshiftRight g k))).toNat = g.toNat / 2 ^ k % 256 := by
  have e : BitVec.setWidth 8 (BitVec.sshiftRight g k) = BitVec.setWidth 8 (g >>> k) := by
    ext i hi
    simp only [BitVec.getElem_setWidth, BitVec.getLsbD_sshiftRight, BitVec.getLsbD_ushiftRight]
    have h1 : ¬ (64 ≤ i) := by omega
    have h2 : k + i < 64 := by omega
    simp [h1, h2]
  rw [e]
  simp only [toByte, BitVec.setWidth_eq, UInt8.toNat_ofBitVec, BitVec.toNat_setWidth, BitVec.toNat_ushiftRight,
    Nat.shiftRight_eq_div_pow]

/-- the same for a logical shift (`byte(uint64(g) >> k)`, an equivalent spelling) -/
theorem byte_of_ushift (g : BitVec 64) (k : Nat) :
    (toByte (BitVec.setWidth 8 (g >>> k))).toNat = g.toNat / 2 ^ k % 256 := by
  simp only [toByte, BitVec.setWidth_eq, UInt8.toNat_ofBitVec, BitVec.toNat_setWidth, BitVec.toNat_ushiftRight,
    Nat.shiftRight_eq_div_pow]

theorem byte_low (g : BitVec 64) : (toByte (BitVec.setWidth 8 g)).toNat = g.toNat % 256 := by
  simp [toByte]

set_option linter.unusedSimpArgs false in
/-- `guid.Hex()` = `Model.Guid.hex`, for every 64-bit value. -/
theorem guidHex_eq (g : BitVec 64) : Nsq.Gen.GuidHexFn.guidHex g = .ret (hex g) := by
  unfold Nsq.Gen.GuidHexFn.guidHex
  simp only [List.replicate, List.set_cons_zero, List.set_cons_succ]
  rw [store_all _ _ (by simp [hexEncode])]
  congr 1
  simp only [hexEncode, List.flatMap_cons, List.flatMap_nil, List.append_nil, List.cons_append, List.nil_append,
    byte_of_sshift g 56 (by omega), byte_of_sshift g 48 (by omega), byte_of_sshift g 40 (by omega),
    byte_of_sshift g 32 (by omega), byte_of_sshift g 24 (by omega), byte_of_sshift g 16 (by omega),
    byte_of_sshift g 8 (by omega), byte_of_ushift, byte_low g, hex, hexBE]
  have h := g.isLt
  generalize g.toNat = n at h ⊢
  simp only [List.cons.injEq, and_true]
  refine ⟨?_, ?_, ?_, ?_, ?_, ?_, ?_, ?_, ?_, ?_, ?_, ?_, ?_, ?_, ?_, ?_⟩ <;> congr 1 <;> omega

/-! non-vacuity: a positive and a negative id -/
example : Nsq.Gen.GuidHexFn.guidHex 0x0123456789abcdef#64 =
    .ret [48, 49, 50, 51, 52, 53, 54, 55, 56, 57, 97, 98, 99, 100, 101, 102] := by decide
example : Nsq.Gen.GuidHexFn.guidHex (-1#64) = .ret (List.replicate 16 102) := by decide

end Nsq.Tie.GuidHex
