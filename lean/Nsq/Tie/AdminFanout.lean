import Nsq.Gen.AdminFanoutFacts
import Nsq.Model.AdminFanout
/-!
Tie (fact-table pin) between internal/clusterinfo/data.go and the request-level model
`Nsq.Model.AdminFanout`: for every state-changing `ClusterInfo` method the statements that build query
strings and call `nsqlookupdPOST` / `producersPOST` / `Get*Producers`, regenerated from the source in
source order (go2lean kind `stmts`), equal the shape the model was written from. Any change of the order
of the calls, of a URI or of a query string in these methods breaks a `decide` here (and the
correspondence run shows whether the model or the code is off).

  method                  model (`AdminFanout`)
  CreateTopicChannel      lookupdCommands = [/topic/create, /channel/create]; lookup via nsqlookupd always; nsqdCommand = /channel/create
  DeleteTopic/Channel     lookup first (abort when it fails as a whole), then lookupdCommands, then nsqdCommand
  actionHelper (6 users)  lookup, then nsqdCommand = the URI passed by Pause/UnPause/Empty Topic/Channel
  TombstoneNodeForTopic   lookupdCommands = [/topic/tombstone?topic=&node=], GetNSQDProducers([node]), nsqdCommand = /topic/delete
-/
namespace Nsq.Tie.AdminFanout
open Nsq.Gen.AdminFanoutFacts

theorem ci_CreateTopicChannel_shape : ci_CreateTopicChannel = [
  "assign qs := fmt.Sprintf(\"topic=%s\", url.QueryEscape(topicName))",
  "assign err := c.nsqlookupdPOST(lookupdHTTPAddrs, \"topic/create\", qs)",
  "assign qs := fmt.Sprintf(\"topic=%s&channel=%s\", url.QueryEscape(topicName), url.QueryEscape(channelName))",
  "assign err := c.nsqlookupdPOST(lookupdHTTPAddrs, \"channel/create\", qs)",
  "assign producers, err := c.GetLookupdTopicProducers(topicName, lookupdHTTPAddrs)",
  "assign err = c.producersPOST(producers, \"channel/create\", qs)"] := by decide

theorem ci_DeleteTopic_shape : ci_DeleteTopic = [
  "assign producers, err := c.GetTopicProducers(topicName, lookupdHTTPAddrs, nsqdHTTPAddrs)",
  "assign qs := fmt.Sprintf(\"topic=%s\", url.QueryEscape(topicName))",
  "assign err = c.nsqlookupdPOST(lookupdHTTPAddrs, \"topic/delete\", qs)",
  "assign err = c.producersPOST(producers, \"topic/delete\", qs)"] := by decide

theorem ci_DeleteChannel_shape : ci_DeleteChannel = [
  "assign producers, err := c.GetTopicProducers(topicName, lookupdHTTPAddrs, nsqdHTTPAddrs)",
  "assign qs := fmt.Sprintf(\"topic=%s&channel=%s\", url.QueryEscape(topicName), url.QueryEscape(channelName))",
  "assign err = c.nsqlookupdPOST(lookupdHTTPAddrs, \"channel/delete\", qs)",
  "assign err = c.producersPOST(producers, \"channel/delete\", qs)"] := by decide

theorem ci_actionHelper_shape : ci_actionHelper = [
  "assign producers, err := c.GetTopicProducers(topicName, lookupdHTTPAddrs, nsqdHTTPAddrs)",
  "assign err = c.producersPOST(producers, uri, qs)"] := by decide

theorem ci_PauseTopic_shape : ci_PauseTopic = [
  "assign qs := fmt.Sprintf(\"topic=%s\", url.QueryEscape(topicName))",
  "return return c.actionHelper(topicName, lookupdHTTPAddrs, nsqdHTTPAddrs, \"topic/pause\", qs)"] := by decide

theorem ci_UnPauseTopic_shape : ci_UnPauseTopic = [
  "assign qs := fmt.Sprintf(\"topic=%s\", url.QueryEscape(topicName))",
  "return return c.actionHelper(topicName, lookupdHTTPAddrs, nsqdHTTPAddrs, \"topic/unpause\", qs)"] := by decide

theorem ci_EmptyTopic_shape : ci_EmptyTopic = [
  "assign qs := fmt.Sprintf(\"topic=%s\", url.QueryEscape(topicName))",
  "return return c.actionHelper(topicName, lookupdHTTPAddrs, nsqdHTTPAddrs, \"topic/empty\", qs)"] := by decide

theorem ci_PauseChannel_shape : ci_PauseChannel = [
  "assign qs := fmt.Sprintf(\"topic=%s&channel=%s\", url.QueryEscape(topicName), url.QueryEscape(channelName))",
  "return return c.actionHelper(topicName, lookupdHTTPAddrs, nsqdHTTPAddrs, \"channel/pause\", qs)"] := by decide

theorem ci_UnPauseChannel_shape : ci_UnPauseChannel = [
  "assign qs := fmt.Sprintf(\"topic=%s&channel=%s\", url.QueryEscape(topicName), url.QueryEscape(channelName))",
  "return return c.actionHelper(topicName, lookupdHTTPAddrs, nsqdHTTPAddrs, \"channel/unpause\", qs)"] := by decide

theorem ci_EmptyChannel_shape : ci_EmptyChannel = [
  "assign qs := fmt.Sprintf(\"topic=%s&channel=%s\", url.QueryEscape(topicName), url.QueryEscape(channelName))",
  "return return c.actionHelper(topicName, lookupdHTTPAddrs, nsqdHTTPAddrs, \"channel/empty\", qs)"] := by decide

theorem ci_TombstoneNodeForTopic_shape : ci_TombstoneNodeForTopic = [
  "assign qs := fmt.Sprintf(\"topic=%s&node=%s\", url.QueryEscape(topic), url.QueryEscape(node))",
  "assign err := c.nsqlookupdPOST(lookupdHTTPAddrs, \"topic/tombstone\", qs)",
  "assign producers, err := c.GetNSQDProducers([]string{node})",
  "assign qs = fmt.Sprintf(\"topic=%s\", url.QueryEscape(topic))",
  "assign err = c.producersPOST(producers, \"topic/delete\", qs)"] := by decide

theorem ci_nsqlookupdPOST_shape : ci_nsqlookupdPOST = [
  "assign endpoint := fmt.Sprintf(\"http://%s/%s?%s\", addr, uri, qs)",
  "assign err := c.client.POSTV1(endpoint, nil, nil)",
  "if len(errs) > 0",
  "return return ErrList(errs)"] := by decide

theorem ci_producersPOST_shape : ci_producersPOST = [
  "assign endpoint := fmt.Sprintf(\"http://%s/%s?%s\", p.HTTPAddress(), uri, qs)",
  "assign err := c.client.POSTV1(endpoint, nil, nil)",
  "if len(errs) > 0",
  "return return ErrList(errs)"] := by decide

theorem ci_GetTopicProducers_shape : ci_GetTopicProducers = [
  "if len(lookupdHTTPAddrs) != 0",
  "return return c.GetLookupdTopicProducers(topicName, lookupdHTTPAddrs)",
  "return return c.GetNSQDTopicProducers(topicName, nsqdHTTPAddrs)"] := by decide


open Nsq.Model.AdminFanout in
/-- The model's per-action URIs are the ones pinned above. -/
theorem model_uris (a : Action) :
    (a.kind = .deleteTopic → nsqdCommand a = "/topic/delete?" ++ topicQS a ∧
        (lookupFailed w a = false → lookupdCommands w a = ["/topic/delete?" ++ topicQS a])) ∧
    (a.kind = .deleteChannel → nsqdCommand a = "/channel/delete?" ++ chanQS a) ∧
    (a.kind = .createChannel → nsqdCommand a = "/channel/create?" ++ chanQS a ∧
        lookupdCommands w a = ["/topic/create?" ++ topicQS a, "/channel/create?" ++ chanQS a]) ∧
    (a.kind = .createTopic → lookupdCommands w a = ["/topic/create?" ++ topicQS a] ∧ producersFor w a = []) ∧
    (a.kind = .pauseTopic → nsqdCommand a = "/topic/pause?" ++ topicQS a ∧ lookupdCommands w a = []) ∧
    (a.kind = .unpauseTopic → nsqdCommand a = "/topic/unpause?" ++ topicQS a ∧ lookupdCommands w a = []) ∧
    (a.kind = .emptyTopic → nsqdCommand a = "/topic/empty?" ++ topicQS a ∧ lookupdCommands w a = []) ∧
    (a.kind = .pauseChannel → nsqdCommand a = "/channel/pause?" ++ chanQS a ∧ lookupdCommands w a = []) ∧
    (a.kind = .unpauseChannel → nsqdCommand a = "/channel/unpause?" ++ chanQS a ∧ lookupdCommands w a = []) ∧
    (a.kind = .emptyChannel → nsqdCommand a = "/channel/empty?" ++ chanQS a ∧ lookupdCommands w a = []) ∧
    (a.kind = .tombstone → nsqdCommand a = "/topic/delete?" ++ topicQS a ∧
        lookupdCommands w a = ["/topic/tombstone?" ++ topicQS a ++ "&node=" ++ esc a.node]) := by
  refine ⟨?_, ?_, ?_, ?_, ?_, ?_, ?_, ?_, ?_, ?_, ?_⟩ <;> intro h <;>
    simp_all [nsqdCommand, lookupdCommands, producersFor]

end Nsq.Tie.AdminFanout
