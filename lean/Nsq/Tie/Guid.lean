import Nsq.Gen.Codec
import Nsq.Model.Guid
/-! Tie: the definition regenerated from nsqd/guid.go equals the hand-written model. -/
namespace Nsq.Tie.Guid
open Nsq.Model.Guid

def toSt (f : Nsq.Gen.Codec.newGUIDState) : St :=
  { nodeID := f.nodeID, seq := f.sequence, lastTs := f.lastTimestamp, lastID := f.lastID }

def toErr (s : String) : Option Err :=
  if s = "" then some .none
  else if s = "ErrTimeBackwards" then some .timeBackwards
  else if s = "ErrSequenceExpired" then some .sequenceExpired
  else if s = "ErrIDBackwards" then some .idBackwards
  else none

def conv (r : Nsq.Gen.Codec.newGUIDState × BitVec 64 × String) : St × BitVec 64 × Option Err :=
  (toSt r.1, r.2.1, toErr r.2.2)

/-- The regenerated `NewGUID` computes exactly the model's result on every state and clock value. -/
theorem newGUID_eq (f : Nsq.Gen.Codec.newGUIDState) (now : BitVec 64) :
    conv (Nsq.Gen.Codec.newGUID f now) =
      ((newGUID (toSt f) now).1, (newGUID (toSt f) now).2.1, some (newGUID (toSt f) now).2.2) := by
  unfold Nsq.Gen.Codec.newGUID newGUID conv toSt pack twepoch
  simp only []
  repeat' split
  all_goals simp_all [toErr]

theorem twepoch_eq : Nsq.Gen.Codec.c_twepoch = (twepoch.toNat : Int) := by decide

/-- `nsqd.New` refuses node ids outside `[0,1024)` (regenerated from nsqd/nsqd.go): the range
hypothesis of `Props.C12.pack_unpack` is what the daemon enforces at start-up. -/
theorem nodeID_range_checked : Nsq.Gen.Codec.newNodeID = ["if opts.ID < 0 || opts.ID >= 1024"] := by rfl

/-- the field widths / shifts of the id layout are the model's -/
theorem layout_eq : Nsq.Gen.Codec.c_timestampShift = 22 ∧ Nsq.Gen.Codec.c_nodeIDShift = 12 ∧
    Nsq.Gen.Codec.c_sequenceMask = 4095 ∧ Nsq.Gen.Codec.c_nodeIDBits = 10 ∧
    Nsq.Gen.Codec.c_sequenceBits = 12 := by decide

end Nsq.Tie.Guid
