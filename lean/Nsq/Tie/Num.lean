import Nsq.Gen.Codec
import Nsq.Model.Num
/-! Tie (C04 numeric): the definitions regenerated from the Go source equal the hand model, and
the comparison / assignment statements of the handlers are the ones the model encodes. -/
namespace Nsq.Tie.Num
open Nsq.Model.Num

def conv (r : Option (BitVec 64)) : BitVec 64 × String :=
  match r with
  | some n => (n, "")
  | none => (0#64, "errBase10")

theorem b10loop_eq (b : List (BitVec 8)) (n : BitVec 64) :
    Nsq.Gen.Codec.byteToBase10.loop b n "" 10#64 = conv (b10loop b n) := by
  induction b generalizing n with
  | nil => rfl
  | cons d tl ih =>
    unfold Nsq.Gen.Codec.byteToBase10.loop b10loop
    simp only [isDigit, maxUint64]
    by_cases h1 : (BitVec.ule 48#8 d && BitVec.ule d 57#8) = true
    · by_cases h2 : BitVec.ult ((18446744073709551615#64 - BitVec.setWidth 64 (d - 48#8)) / 10#64) n = true
      · simp [h1, h2, conv]
      · simp only [h1, h2, if_true, if_false, Bool.false_eq_true]
        exact ih _
    · simp [h1, conv]

/-- `ByteToBase10` regenerated from internal/protocol/byte_base10.go = the model. -/
theorem byteToBase10_eq (b : List (BitVec 8)) :
    Nsq.Gen.Codec.byteToBase10 b = conv (byteToBase10 b) := by
  unfold Nsq.Gen.Codec.byteToBase10 byteToBase10
  exact b10loop_eq b 0#64

/-- `msToDuration` regenerated from nsqd/protocol_v2.go = the model. -/
theorem msToDuration_eq (ms : BitVec 64) : Nsq.Gen.Codec.msToDuration ms = msToDuration ms := by
  rfl

/-- REQ: parse, saturating conversion, clamp to `[0, MaxReqTimeout]`, requeue with the clamped value. -/
theorem reqStmts_eq : Nsq.Gen.Codec.reqStmts = [
    "assign timeoutMs, err := protocol.ByteToBase10(params[2])",
    "assign timeoutDuration := msToDuration(timeoutMs)",
    "assign clampedTimeout := timeoutDuration",
    "if timeoutDuration < 0",
    "assign clampedTimeout = 0",
    "if timeoutDuration > maxReqTimeout",
    "assign clampedTimeout = maxReqTimeout",
    "if clampedTimeout != timeoutDuration",
    "assign timeoutDuration = clampedTimeout",
    "assign err = client.Channel.RequeueMessage(client.ID, *id, timeoutDuration)"] := by rfl

/-- DPUB: parse, saturating conversion, reject outside `[0, MaxReqTimeout]`, defer by exactly that. -/
theorem dpubStmts_eq : Nsq.Gen.Codec.dpubStmts = [
    "assign timeoutMs, err := protocol.ByteToBase10(params[2])",
    "assign timeoutDuration := msToDuration(timeoutMs)",
    "if timeoutDuration < 0 || timeoutDuration > p.nsqd.getOpts().MaxReqTimeout",
    "return return nil, protocol.NewFatalClientErr(nil, \"E_INVALID\", fmt.Sprintf(\"DPUB timeout %d out of range 0-%d\", timeoutMs, p.nsqd.getOpts().MaxReqTimeout/time.Millisecond))",
    "assign msg.deferred = timeoutDuration"] := by rfl

/-- HTTP /pub?defer=: ParseInt base 10, range check in milliseconds, then the conversion. -/
theorem doPUBStmts_eq : Nsq.Gen.Codec.doPUBStmts = [
    "assign di, err = strconv.ParseInt(ds[0], 10, 64)",
    "if di < 0 || di > int64(s.nsqd.getOpts().MaxReqTimeout/time.Millisecond)",
    "assign deferred = time.Duration(di) * time.Millisecond",
    "assign msg.deferred = deferred"] := by rfl

theorem setMsgTimeoutStmts_eq : Nsq.Gen.Codec.setMsgTimeoutStmts = [
    "case msgTimeout == 0",
    "case msgTimeout >= 1000 && msgTimeout <= int(c.nsqd.getOpts().MaxMsgTimeout/time.Millisecond)",
    "assign c.MsgTimeout = time.Duration(msgTimeout) * time.Millisecond",
    "return return fmt.Errorf(\"msg timeout (%d) is invalid\", msgTimeout)"] := by rfl

end Nsq.Tie.Num
