import Nsq.Gen.MetaFacts
import Nsq.Model.Meta
/-!
Tie (regenerated facts) for C06: the order of effects that the micro-step machine `Nsq.Model.Meta`
assumes, re-extracted from the current tree on every run by `tools/go2lean` (kind `effseq`: tracked
calls and matching assignments of one function body in source order). Any edit that reorders,
drops or adds one of these effects makes a theorem below fail (the tie is then reported broken).
-/
namespace Nsq.Tie.Meta
open Nsq.Gen.MetaFacts Nsq.Model.Meta

/-- the system call made when a persist leaves each phase (`PStep` order of the model) -/
def phaseCall : Phase → List String
  | .reading => ["call:Marshal", "call:GetMetadata"]   -- snapshot
  | .snapped => ["call:OpenFile"]                      -- openTmp (O_WRONLY|O_CREATE|O_TRUNC)
  | .opened => ["call:Write"]                          -- writePart* ; writeRest
  | .partialW => []
  | .written => ["call:Sync", "call:Close"]            -- sync
  | .synced => ["call:Rename"]                         -- rename
  | .renamedP => []

def isCall (s : String) : Bool := s.startsWith "call:"

/-- `writeSyncFile`: OpenFile(O_WRONLY|O_CREATE|O_TRUNC) → Write → Sync → Close, nothing else. -/
theorem writeSyncFile_order :
    writeSyncFile = ["assign:f, err := os.OpenFile(fn, os.O_WRONLY|os.O_CREATE|os.O_TRUNC, 0600)"] ++
      phaseCall .snapped ++ phaseCall .opened ++ phaseCall .written := rfl

/-- `PersistMetadata`: snapshot → temporary name `<file>.<rand>.tmp` → writeSyncFile(tmp) → Rename(tmp, file);
it never opens or writes `nsqd.dat` itself. -/
theorem persistMetadata_order :
    persistMetadata = phaseCall .reading ++
      ["assign:tmpFileName := fmt.Sprintf(\"%s.%d.tmp\", fileName, rand.Int())",
       "assign:err = writeSyncFile(tmpFileName, data)", "call:writeSyncFile",
       "assign:err = os.Rename(tmpFileName, fileName)"] ++ phaseCall .synced := rfl

theorem metadataFile_name : metadataFile = ["return return path.Join(opts.DataPath, \"nsqd.dat\")"] := rfl

/-- `GetMetadata` reads each topic's pause flag, then its channel map under that topic's lock (`PStep.read`). -/
theorem getMetadata_order :
    getMetadata = ["call:IsPaused", "call:Lock", "call:IsPaused", "call:Unlock"] := rfl

/-- `LoadMetadata` reads only `nsqd.dat` (missing file = fresh start), creates topics/channels, restores
pause flags, never persists (`Sys.start` / `loadDoc`); `isLoading` suppresses the Notify persists. -/
theorem loadMetadata_order :
    loadMetadata = ["call:readOrEmpty", "call:Unmarshal", "call:GetTopic", "call:Pause", "call:GetChannel",
      "call:Pause", "call:Start"] ∧ readOrEmpty = ["call:ReadFile", "call:IsNotExist"] := ⟨rfl, rfl⟩

/-- apps/nsqd `Start`: LoadMetadata, then PersistMetadata (`HKind.startup`), then Main. -/
theorem mainStart_order : mainStart = ["call:LoadMetadata", "call:PersistMetadata", "call:Main"] := rfl

/-- `New` takes the directory flock (exclusive, non-blocking) before it listens (`Step.start` when alive = refused). -/
theorem flock_first :
    nsqdNew = ["assign:err = n.dl.Lock()", "call:Listen", "call:Listen", "call:Listen"] ∧
    dirlockLock = ["call:Open", "assign:err = syscall.Flock(int(f.Fd()), syscall.LOCK_EX|syscall.LOCK_NB)",
      "call:Flock"] := ⟨rfl, rfl⟩

/-- `Notify`: the persist continuation runs `PersistMetadata` with the nsqd lock held and is skipped
while loading or when `persist` is false (`PStep.beginNotify … finish`). -/
theorem notify_order :
    notify = ["assign:loading := atomic.LoadInt32(&n.isLoading) == 1", "call:Lock", "call:PersistMetadata",
      "call:Unlock"] ∧
    notifyGuard = ["assign loading := atomic.LoadInt32(&n.isLoading) == 1", "if loading || !persist"] :=
  ⟨rfl, rfl⟩

/-- Creation: `NewTopic`/`NewChannel` call `Notify` once, and both the constructor call and the map
insert happen inside one critical section (nsqd lock / topic lock), so a persist that starts after the
creation sees the new object (`MemStep.createTopic`, `createChan` are single steps). -/
theorem creation_order :
    Nsq.Gen.MetaFacts.getTopic = ["assign:t, ok := n.topicMap[topicName]", "call:Lock", "assign:t, ok = n.topicMap[topicName]",
      "call:Unlock", "call:NewTopic", "assign:n.topicMap[topicName] = t", "call:Unlock"] ∧
    newTopic = ["call:Notify"] ∧
    getChannel = ["call:Lock", "call:getOrCreateChannel", "call:Unlock"] ∧
    getOrCreateChannel = ["assign:channel, ok := t.channelMap[channelName]", "call:NewChannel",
      "assign:t.channelMap[channelName] = channel"] ∧
    newChannel = ["call:Notify"] := ⟨rfl, rfl, rfl, rfl, rfl⟩

/-- Deletion: `exit(true)` issues its `Notify` right after the exit flag (`delTopicBegin`/`delChanBegin`);
topic exit unlinks and deletes each channel (`delTopicChan`). -/
theorem exit_order :
    topicExit = ["call:CompareAndSwapInt32", "call:Notify", "call:delete", "call:Delete", "call:Delete"] ∧
    channelExit = ["call:CompareAndSwapInt32", "call:Notify", "call:Delete"] := ⟨rfl, rfl⟩

/-- Deletion, the modelled (fixed) tree: after the map unlink a persist runs under the nsqd lock for
non-ephemeral objects (`delTopicUnlink`/`delChanUnlink` queue a `HKind.del` persist when `fix = true`).
This is `fixes/F6_persist_after_delete.patch`; on a tree without it this obligation fails. -/
theorem delete_persists_after_unlink :
    deleteExistingTopic = ["call:Delete", "call:Lock", "call:delete", "call:persistMetadataAfterDelete",
      "call:Unlock"] ∧
    deleteExistingChannel = ["call:Delete", "call:Lock", "call:delete", "call:Unlock", "call:Lock",
      "call:persistMetadataAfterDelete", "call:Unlock"] ∧
    deleteTopicGuard = ["if !topic.ephemeral"] ∧ deleteChannelGuard = ["if !channel.ephemeral"] ∧
    persistAfterDelete = ["call:LoadInt32", "return", "call:PersistMetadata"] := ⟨rfl, rfl, rfl, rfl, rfl⟩

/-- Pause handlers: the flag is stored, then `PersistMetadata` runs under the nsqd lock, and only then the
success `return` (the last one) is reached (`MemStep.pauseTopic`/`pauseChan` + `HKind.pause`). -/
theorem pause_persists_before_answer :
    doPauseTopic = ["return", "return", "return", "call:UnPause", "call:Pause", "return", "call:Lock",
      "call:PersistMetadata", "call:Unlock", "return"] ∧
    doPauseChannel = ["return", "return", "call:UnPause", "call:Pause", "return", "call:Lock",
      "call:PersistMetadata", "call:Unlock", "return"] := ⟨rfl, rfl⟩

/-- `NSQD.Exit`: listeners closed (`Step.exitBegin`), then under the nsqd lock `PersistMetadata` (`HKind.exit`) and every
topic closed (flushed), the background goroutines joined, and only then the data-path flock released
(`Step.exitEnd`): the data path is "in use" until Exit has finished writing. -/
theorem exit_releases_dirlock_last :
    nsqdExit = ["call:atomic.CompareAndSwapInt32", "call:n.tcpListener.Close", "call:n.tcpServer.Close",
      "call:n.httpListener.Close", "call:n.httpsListener.Close", "call:n.Lock", "call:n.PersistMetadata",
      "call:topic.Close", "call:n.Unlock", "call:close", "call:n.waitGroup.Wait", "call:n.dl.Unlock",
      "call:n.ctxCancel"] := rfl

end Nsq.Tie.Meta
