import Nsq.Gen.LookupdProto
import Nsq.Model.RegistryProto
/-!
Tie (regenerated facts): what `tools/go2lean` reads off the current nsqlookupd sources
(`Nsq.Gen.LookupdProto`, rewritten on every run) against the tables and guards the models
`Nsq.Model.Registry` / `Nsq.Model.RegistryProto` are written from. Every theorem is closed by
`decide`; a source change that touches a route, an error site, a guard or the order of the DB
calls of a handler makes this module fail to build.
-/
set_option maxRecDepth 16000
namespace Nsq.Tie.RegistryProto
open Nsq.Model.Registry Nsq.Model.RegistryProto
open Nsq.Gen

/-- every error of the protocol is created by `NewFatalClientErr` … -/
theorem errors_all_fatal : LookupdProto.errsites.all (fun e => e.2.1 = "NewFatalClientErr") = true := by decide

/-- … and function by function with the code the model answers -/
theorem errsites_codes :
    LookupdProto.errsites.map (fun e => (e.1, e.2.2)) = errSites.map (fun e => (e.1, codeName e.2)) := by decide

/-- F2: between reading the size and `make([]byte, bodyLen)` the size is range checked
(this is the `sizeCheck = true` variant of `execIdentify`). -/
theorem identify_size_checked :
    LookupdProto.identifySize =
      ["assign err = binary.Read(reader, binary.BigEndian, &bodyLen)",
       "if int64(bodyLen) > maxIdentifyBodySize",
       "return return nil, protocol.NewFatalClientErr(nil, \"E_BAD_BODY\", fmt.Sprintf(\"IDENTIFY body too big %d > %d\", bodyLen, maxIdentifyBodySize))",
       "if bodyLen <= 0",
       "return return nil, protocol.NewFatalClientErr(nil, \"E_BAD_BODY\", fmt.Sprintf(\"IDENTIFY invalid body size %d\", bodyLen))",
       "assign body := make([]byte, bodyLen)"] := by decide

theorem identify_max : LookupdProto.c_maxIdentifyBodySize = maxIdentifyBody := by decide

theorem identify_calls :
    LookupdProto.callsIdentify = ["Read", "make", "ReadFull", "Unmarshal", "StoreInt64", "AddProducer", "make"] := by decide

theorem exec_cases :
    LookupdProto.execCases =
      ["case \"PING\"", "case \"IDENTIFY\"", "case \"REGISTER\"", "case \"UNREGISTER\"",
       "return return nil, protocol.NewFatalClientErr(nil, \"E_INVALID\", fmt.Sprintf(\"invalid command %s\", params[0]))"] := by
  decide

/-- (the extractor collapses runs of blanks inside the printed expression: `"  V1"` prints as `" V1"`) -/
theorem magic_cases :
    LookupdProto.magicCases = ["assign _, err := io.ReadFull(conn, buf)", "case \" V1\""] := by decide

end Nsq.Tie.RegistryProto
