import Nsq.Gen.LookupdProto
import Nsq.Model.RegistryProto
/-!
Tie (regenerated facts): what `tools/go2lean` reads off the current nsqlookupd sources
(`Nsq.Gen.LookupdProto`, rewritten on every run) against the tables and guards the models
`Nsq.Model.Registry` / `Nsq.Model.RegistryProto` are written from. Every theorem is closed by
`decide`; a source change that touches a route, an error site, a guard or the order of the DB
calls of a handler makes this module fail to build.
-/
set_option maxRecDepth 16000
namespace Nsq.Tie.RegistryProto
open Nsq.Model.Registry Nsq.Model.RegistryProto
open Nsq.Gen

/-- every error of the protocol is created by `NewFatalClientErr` … -/
theorem errors_all_fatal : LookupdProto.errsites.all (fun e => e.2.1 = "NewFatalClientErr") = true := by decide

/-- … and function by function with the code the model answers -/
theorem errsites_codes :
    LookupdProto.errsites.map (fun e => (e.1, e.2.2)) = errSites.map (fun e => (e.1, codeName e.2)) := by decide

/-- F2: between reading the size and `make([]byte, bodyLen)` the size is range checked
(this is the `sizeCheck = true` variant of `execIdentify`). -/
theorem identify_size_checked :
    LookupdProto.identifySize =
      ["assign err = binary.Read(reader, binary.BigEndian, &bodyLen)",
       "if int64(bodyLen) > maxIdentifyBodySize",
       "return return nil, protocol.NewFatalClientErr(nil, \"E_BAD_BODY\", fmt.Sprintf(\"IDENTIFY body too big %d > %d\", bodyLen, maxIdentifyBodySize))",
       "if bodyLen <= 0",
       "return return nil, protocol.NewFatalClientErr(nil, \"E_BAD_BODY\", fmt.Sprintf(\"IDENTIFY invalid body size %d\", bodyLen))",
       "assign body := make([]byte, bodyLen)"] := by decide

theorem identify_max : LookupdProto.c_maxIdentifyBodySize = maxIdentifyBody := by decide

theorem identify_calls :
    LookupdProto.callsIdentify = ["Read", "make", "ReadFull", "Unmarshal", "StoreInt64", "AddProducer", "make"] := by decide

theorem exec_cases :
    LookupdProto.execCases =
      ["case \"PING\"", "case \"IDENTIFY\"", "case \"REGISTER\"", "case \"UNREGISTER\"",
       "return return nil, protocol.NewFatalClientErr(nil, \"E_INVALID\", fmt.Sprintf(\"invalid command %s\", params[0]))"] := by
  decide

/-- (audit C32) the command words of the MODEL, as bytes, are the words of the regenerated `case` labels of
`Exec` (text read off the current source, compared character by character) — `Nsq.Tie.Registry.command_bytes`
only compares Lean literals with Lean literals. The magic `"  V1"` is pinned by `magic_cases` below (the extractor keeps blanks inside string literals since B28) and by behaviour — the hostile generator sends
streams starting with `" V1"`, `"  V1"`, `"  V2"`, `"  v1"`, … each followed by `PING`. -/
theorem command_bytes_regenerated :
    (LookupdProto.execCases.take 4).map String.toList =
      [cmdPING, cmdIDENTIFY, cmdREGISTER, cmdUNREGISTER].map
        (fun w => "case \"".toList ++ w.map (fun b => Char.ofNat b.toNat) ++ ['"']) := by decide

/-- the four magic bytes are blank, blank, `V`, `1` (since audit round 7 / B28 the extractor keeps white space
inside string literals: before, `"  V1"` was printed — and pinned — as `" V1"`) -/
theorem magic_cases :
    LookupdProto.magicCases = ["assign _, err := io.ReadFull(conn, buf)", "case \"  V1\""] := by decide


/-- The DB key of a connection (`PeerInfo.id`, unexported, so not a JSON member) is set once,
from `client.RemoteAddr()`, BEFORE the body is unmarshalled, and never assigned again;
`RemoteAddress` is overwritten AFTER unmarshalling. This is why the model may take the decoder's
result to be the five IDENTIFY fields only and key every entry of connection `p` by `p` itself
(`identify r p info now`): no member of the document can choose another connection's id. -/
theorem identify_peer_id_from_connection :
    LookupdProto.identifyPeerId =
      ["assign peerInfo := PeerInfo{id: client.RemoteAddr().String()}",
       "assign err = json.Unmarshal(body, &peerInfo)",
       "assign peerInfo.RemoteAddress = client.RemoteAddr().String()"] := by decide

/-- the exit path removes the registrations stored under the connection's own id -/
theorem exit_path_own_id :
    LookupdProto.exitPathId =
      ["if client.peerInfo != nil",
       "assign registrations := p.nsqlookupd.DB.LookupRegistrations(client.peerInfo.id)",
       "assign removed, _ := p.nsqlookupd.DB.RemoveProducer(r, client.peerInfo.id)"] := by decide

/-- Lock nesting (go2lean kind `locknest`): nsqlookupd has ONE lock, `RegistrationDB.RWMutex`, and no
function acquires it (directly or through calls inside the package) while holding it — in
particular no handler read-locks the DB around DB methods that read-lock again (with a writer
waiting in between, a recursive `RLock` deadlocks the DB for good). Every critical section is
therefore a leaf: it ends without waiting for another lock. -/
theorem no_nested_db_lock :
    LookupdProto.lockEdges = [] ∧ LookupdProto.lockEdgesLocks = ["RegistrationDB.RWMutex"] := by decide

end Nsq.Tie.RegistryProto
