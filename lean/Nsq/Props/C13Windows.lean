/-
C13.3 / C13.4 — `in_flight_count` with every counter window split (round 9, audit B18).

`C13.inflight_exact_full` is over the channel model with the FIN and pump windows split. Here, on the counter model
`Nsq.Model.ClientWindows` (one consumer; each of SendingMessage | StartInFlightTimeout, pop | FinishedMessage /
RequeuedMessage / TimedOutMessage, initPQ | Discarded is two steps), for EVERY schedule:
* `inflight_exact_all_windows` — `in_flight_count = held in the map + popped-not-yet-decremented + counted-not-yet-
  registered + dropped-not-yet-discarded`; `nonneg_all_windows` — hence never negative; `quiescent_exact` — with no
  operation inside a window it is exactly the number of messages held;
* `exact_false_store_zero` / `exact_false_register_first` — both pre-F13 shapes reach −1 (F8 and its REQ / scan twins).
Tie: the order facts `Tie.Chan.pumpDeliver_eq` (count first), `finOrder_eq`, `requeueMessage_eq` + REQ's
`RequeuedMessage` after `RequeueMessage` (`answerErrs_eq`), `scanInFlight_eq` (`TimedOutMessage` after the pop),
`chanEmpty_eq` / `initPQDropped_eq` / `clientDiscarded_eq`, translated `Tie.ChanFunc.clFinished_eq … clDiscarded_eq`;
replays on the real code on every run: `corpus/C13/fixed/f8_fin_empty.ops` (FIN window), `corpus/C13/req_empty_window.ops`
(REQ window, hook `proto.req.beforeClientCount`), `corpus/C02/fin_vs_scan.ops`; the concurrent leg's `conc-negative`.
-/
import Nsq.Model.ClientWindows
namespace Nsq.Props.C13Windows
open Nsq.Model.ClientWindows

def Exact (s : St) : Prop := s.cnt = (s.held : Int) + s.pendDec + s.pendSend + s.pendDisc

theorem step_exact (s : St) (h : Exact s) (op : Op) : Exact (step true true s op).1 := by
  unfold Exact at *
  cases op
  · simp only [step, ↓reduceIte]; omega
  · simp only [step]
    split
    · exact h
    · rename_i hp
      have : s.pendSend ≠ 0 := by simpa using hp
      simp only [↓reduceIte]; omega
  · simp only [step]
    split
    · exact h
    · rename_i hp
      have : s.held ≠ 0 := by simpa using hp
      show s.cnt = ((s.held - 1 : Nat) : Int) + ((s.pendDec + 1 : Nat) : Int) + s.pendSend + s.pendDisc
      omega
  · simp only [step]
    split
    · exact h
    · rename_i hp
      have : s.pendDec ≠ 0 := by simpa using hp
      show s.cnt - 1 = (s.held : Int) + ((s.pendDec - 1 : Nat) : Int) + s.pendSend + s.pendDisc
      omega
  · show s.cnt = ((0 : Nat) : Int) + s.pendDec + s.pendSend + ((s.pendDisc + s.held : Nat) : Int)
    omega
  · show s.cnt - s.pendDisc = (s.held : Int) + s.pendDec + s.pendSend + ((0 : Nat) : Int)
    omega

/-- **every window split, every schedule**: the counter is exactly what is held plus what is inside a window -/
theorem inflight_exact_all_windows (ops : List Op) : Exact (run true true {} ops) := by
  suffices h : ∀ s, Exact s → Exact (run true true s ops) from h {} (by simp [Exact])
  induction ops with
  | nil => exact fun s h => h
  | cons op ops ih => exact fun s h => ih _ (step_exact s h op)

theorem nonneg_all_windows (ops : List Op) : 0 ≤ (run true true {} ops).cnt := by
  have := inflight_exact_all_windows ops
  unfold Exact at this; omega

theorem quiescent_exact (ops : List Op) (h1 : (run true true {} ops).pendDec = 0)
    (h2 : (run true true {} ops).pendSend = 0) (h3 : (run true true {} ops).pendDisc = 0) :
    (run true true {} ops).cnt = (run true true {} ops).held := by
  have := inflight_exact_all_windows ops
  unfold Exact at this; omega

/-- the full statement, per code shape -/
def NonNegFull (countFirst subtract : Bool) : Prop := ∀ ops, 0 ≤ (run countFirst subtract {} ops).cnt

theorem nonneg_full_fixed : NonNegFull true true := nonneg_all_windows

/-- pre-F13 `client.Empty()` (store 0): an answer (FIN, REQ or the scan alike) parked between its pop and its
decrement, `Channel.Empty` in between → −1 -/
theorem exact_false_store_zero : ¬ NonNegFull true false := by
  intro h
  exact absurd (h [.sendFirst, .sendSecond, .pop, .emptyDrop, .emptyDisc, .dec]) (by decide)

/-- pre-F13 order of the pump (register, then count) with the subtracting Empty: the message is dropped and
subtracted before it was counted → −1 for a moment -/
theorem exact_false_register_first : ¬ NonNegFull false true := by
  intro h
  exact absurd (h [.sendFirst, .emptyDrop, .emptyDisc]) (by decide)

/-! non-vacuity: the REQ-window schedule of `corpus/C13/req_empty_window.ops` (two held, one REQ parked, Empty, release) -/
def reqWin : List Op := [.sendFirst, .sendSecond, .sendFirst, .sendSecond, .pop, .emptyDrop, .emptyDisc, .dec]
example : (run true true {} reqWin) = { held := 0, cnt := 0, pendDec := 0, pendSend := 0, pendDisc := 0 } := by decide
example : (run true true {} (reqWin.take 7)).cnt = 1 ∧ (run true true {} (reqWin.take 7)).pendDec = 1 := by decide
example : (run true false {} reqWin).cnt = -1 := by decide
example : (run true true {} reqWin).cnt = (run true true {} reqWin).held :=
  quiescent_exact reqWin (by decide) (by decide) (by decide)

end Nsq.Props.C13Windows
