import Nsq.Props.C14
/-!
# C14 — every pair of overlapping handler calls of the section model, FULL database and answers
(claim audit 11, C14 items 1–3)

`Nsq.Props.C14.concurrent_schedules_linearizable_tree` concludes equality of the key set (`has`) under `c ≠ []`,
`t ≠ *` for two writer pairs; the readers have their own theorems; `unregisterAtomic` / `tombstoneAtomic`
(`Nsq.Tie.Registry`) were computed but used by no theorem. Here:

* `Handler`: EVERY handler of the section model — REGISTER, UNREGISTER topic channel, `/topic/delete`,
  `/channel/create`, `POST /topic/tombstone?topic=t` (t ≠ `*`), `GET /lookup`, `GET /nodes`;
* `secs sh h`: its list of critical sections, selected by FOUR computed shape flags (`Shapes`): `tree` (F21), `unreg`
  (F12), `readers` (F37), `tomb` (F38); `Shapes.committed` takes them from the regenerated facts
  (`treeAtomic`, `unregisterAtomic`, `readersAtomic`, `tombstoneAtomic`);
* `concurrent_pairs_linearizable_tree`: on the committed tree, for EVERY pair of handlers (writer ‖ writer, reader ‖
  writer, reader ‖ reader; any registry, names — also `c = ""`, `topic = *` for the handlers that accept them), every
  schedule of the two section lists ends in the FULL state of one of the two serial orders: the same registry (`DB`
  equality, not only the key set) and the same two answers;
* `pairs_linearizable_iff`: the statement holds for a shape vector iff all four flags are set — four witnesses, among
  them UNREGISTER ‖ REGISTER on the pre-F12 shape and tombstone ‖ `/lookup` on the pre-F38 shape.

Not in the section model (named, not claimed): UNREGISTER without a channel (`FindRegistrations`, one `RemoveProducer`
per channel, `RemoveProducerAndPrune(topic key)`: several critical sections in the committed tree as well), the
disconnect clean-up (one `RemoveProducer` per registration), `topic=*` of tombstone (run-time pick), `lastUpdate` of PING
(an atomic outside the lock: the theorems are about the REGISTRY part of the answers, `lookupDB` / `nodesDB`).
-/
namespace Nsq.Props.C14Sched
open Nsq.Model.Registry Nsq.Model.Registry.AMap

/-- what a handler call holds between two of its critical sections / has read when it returns -/
inductive Ans
  | none
  | left (n : Nat)
  | lookup (o : LookupObs)
  | nodes (o : NodesObs)
deriving DecidableEq, Repr

/-- which handlers are ONE critical section -/
structure Shapes where
  tree : Bool
  unreg : Bool
  readers : Bool
  tomb : Bool
deriving DecidableEq, Repr

/-- COMPUTED from the regenerated facts of this tree (`Nsq.Tie.Registry`) -/
def Shapes.committed : Shapes :=
  ⟨Nsq.Tie.Registry.treeAtomic, Nsq.Tie.Registry.unregisterAtomic, Nsq.Tie.Registry.readersAtomic,
   Nsq.Tie.Registry.tombstoneAtomic⟩

def Shapes.allAtomic : Shapes := ⟨true, true, true, true⟩

theorem committed_eq : Shapes.committed = Shapes.allAtomic := by
  simp [Shapes.committed, Shapes.allAtomic, Nsq.Tie.Registry.tree_atomic, Nsq.Tie.Registry.unregister_atomic,
    Nsq.Tie.Registry.readers_atomic, Nsq.Tie.Registry.tombstone_atomic]

/-! ## The tombstone handler on the bare registry

`tombstoneDB` reads the peers table only through `nodeMatches r · node`; no handler of the section model writes the
peers table, so the match predicate `m` is a parameter. -/

/-- `TombstoneProducers(topic, node)` (F38: under one `Lock()`) -/
def tombDB (m : Nat → Bool) (db : DB) (t : Name) (now : Int) : DB :=
  match mget db (topicKey t) with
  | none => db
  | some pm => mset db (topicKey t) (pm.map (fun e => if m e.1 then (e.1, ⟨true, now⟩) else e))

theorem tombstoneDB_eq_tombDB (r : Registry) (t node : Name) (now : Int) (ht : t ≠ star) :
    tombstoneDB r t node now = tombDB (fun id => nodeMatches r id node) r.db t now := by
  unfold tombstoneDB tombDB tombstonePM
  rw [if_neg ht]
  rfl

/-- one unlocked `p.Tombstone()` of the loop of `doTombstoneTopicProducer` BEFORE F38: the entry of `id` under the topic
key is marked (if it is still there) -/
def tombMark (db : DB) (t : Name) (id : Nat) (now : Int) : DB :=
  match mget db (topicKey t) with
  | none => db
  | some pm => mset db (topicKey t) (pm.map (fun e => if e.1 = id then (e.1, ⟨true, now⟩) else e))

/-! ## Handlers and their critical sections -/

inductive Handler
  | register (p : Nat) (t c : Name)
  | unregisterChan (p : Nat) (t c : Name)
  | deleteTopic (t : Name)
  | createChannel (t c : Name)
  /-- `m`: which peers carry the node string; `ids`: the producers `FindProducers` returned (loop bound, data) -/
  | tombstone (m : Nat → Bool) (t : Name) (now : Int) (ids : List Nat)
  | lookup (t : Name)
  /-- `ids`: the nodes section 1 of `doNodes` returned (loop bound, data) -/
  | nodes (ids : List Nat)

def Ans.lookupObs : Ans → LookupObs
  | .lookup o => o
  | _ => LookupObs.init

def Ans.nodesObs : Ans → NodesObs
  | .nodes o => o
  | _ => NodesObs.init

def Ans.leftN : Ans → Nat
  | .left n => n
  | _ => 1

def ofLookup (s : SectionO LookupObs) : SectionO Ans :=
  fun x => ((s (x.1, x.2.lookupObs)).1, .lookup (s (x.1, x.2.lookupObs)).2)

def ofNodes (s : SectionO NodesObs) : SectionO Ans :=
  fun x => ((s (x.1, x.2.nodesObs)).1, .nodes (s (x.1, x.2.nodesObs)).2)

/-- UNREGISTER topic channel: before F12 `RemoveProducer` (state, `left`), then `RemoveRegistration` when `left = 0` and
the channel is `#ephemeral` (`unregChanStep1/2`); since F12 `RemoveProducerAndPrune` = `removeAndGC` -/
def unregisterChanSecs (atomic : Bool) (p : Nat) (t c : Name) : List (SectionO Ans) :=
  if atomic then [wsec (fun db => removeAndGC db (chanKey t c) p (isEphemeral c))]
  else [fun x => ((unregChanStep1 x.1 t c p).1, .left (unregChanStep1 x.1 t c p).2),
        fun x => (unregChanStep2 x.1 t c x.2.leftN, x.2)]

/-- `POST /topic/tombstone?topic=t`: before F38 `FindProducers` (a read), then one unlocked write per matching producer;
since F38 one `Lock()` around both -/
def tombstoneSecs (atomic : Bool) (m : Nat → Bool) (t : Name) (now : Int) (ids : List Nat) : List (SectionO Ans) :=
  if atomic then [wsec (fun db => tombDB m db t now)]
  else wsec (fun db => db) :: (ids.filter m).map (fun id => wsec (fun db => tombMark db t id now))

def secs (sh : Shapes) : Handler → List (SectionO Ans)
  | .register p t c => (registerSecs sh.tree p t c).map wsec
  | .unregisterChan p t c => unregisterChanSecs sh.unreg p t c
  | .deleteTopic t => (deleteTopicSecs sh.tree t).map wsec
  | .createChannel t c => (createChannelSecs sh.tree t c).map wsec
  | .tombstone m t now ids => tombstoneSecs sh.tomb m t now ids
  | .lookup t => (lookupSecs sh.readers t).map ofLookup
  | .nodes ids => (nodesSecs sh.readers ids).map ofNodes

/-- the effect of the handler of the SEQUENTIAL model on the registry … -/
def Handler.eff : Handler → DB → DB
  | .register p t c, db => registerDB db p ⟨t, c⟩
  | .unregisterChan p t c, db => removeAndGC db (chanKey t c) p (isEphemeral c)
  | .deleteTopic t, db => deleteTopicDB db t
  | .createChannel t c, db => createChannelDB db t c
  | .tombstone m t now _, db => tombDB m db t now
  | .lookup _, db => db
  | .nodes _, db => db

/-- … and what it reads from it -/
def Handler.ans : Handler → DB → Ans
  | .lookup t, db => .lookup (lookupDB db t)
  | .nodes _, db => .nodes (nodesDB db)
  | _, _ => .none

/-- the sequential model's UNREGISTER topic channel is this handler -/
theorem unregisterChan_eff (db : DB) (p : Nat) (t c : Name) (hc : c ≠ []) :
    (Handler.unregisterChan p t c).eff db = unregisterDB db p ⟨t, c⟩ := by
  simp [Handler.eff, unregisterDB, hc]

/-! ## Two overlapping calls: each has its own slot for what it has read -/

def lift1 (s : SectionO Ans) : SectionO (Ans × Ans) := fun x => ((s (x.1, x.2.1)).1, ((s (x.1, x.2.1)).2, x.2.2))
def lift2 (s : SectionO Ans) : SectionO (Ans × Ans) := fun x => ((s (x.1, x.2.2)).1, (x.2.1, (s (x.1, x.2.2)).2))

/-- all schedules of the calls `h₁ ‖ h₂` -/
def schedules (sh : Shapes) (h₁ h₂ : Handler) : List (List (SectionO (Ans × Ans))) :=
  interleave ((secs sh h₁).map lift1) ((secs sh h₂).map lift2)

/-- "every schedule of every pair of handler calls ends in the registry AND the two answers of one of the two serial
orders" (the serial orders are those of the sequential model: `eff`, `ans`) -/
def serialOutcome (h₁ h₂ : Handler) (db : DB) (s : List (SectionO (Ans × Ans))) : Prop :=
  runSecsO (db, (Ans.none, Ans.none)) s = (h₂.eff (h₁.eff db), (h₁.ans db, h₂.ans (h₁.eff db))) ∨
  runSecsO (db, (Ans.none, Ans.none)) s = (h₁.eff (h₂.eff db), (h₁.ans (h₂.eff db), h₂.ans db))

instance (h₁ h₂ : Handler) (db : DB) (s : List (SectionO (Ans × Ans))) : Decidable (serialOutcome h₁ h₂ db s) := by
  unfold serialOutcome; infer_instance

def pairs_linearizable (sh : Shapes) : Prop :=
  ∀ (h₁ h₂ : Handler) (db : DB), ∀ s ∈ schedules sh h₁ h₂, serialOutcome h₁ h₂ db s

/-- with all four repairs every handler of the section model is ONE critical section … -/
theorem secs_allAtomic (h : Handler) :
    ∃ f : SectionO Ans, secs Shapes.allAtomic h = [f] ∧ ∀ db, f (db, Ans.none) = (h.eff db, h.ans db) := by
  cases h <;>
    simp [secs, Shapes.allAtomic, registerSecs, deleteTopicSecs, createChannelSecs, unregisterChanSecs, tombstoneSecs,
      lookupSecs, nodesSecs, wsec, rsec, ofLookup, ofNodes, Handler.eff, Handler.ans]

/-- … so each call running alone is the handler of the sequential model (`sections_compose` for every handler) -/
theorem alone_allAtomic (h : Handler) (db : DB) :
    runSecsO (db, Ans.none) (secs Shapes.allAtomic h) = (h.eff db, h.ans db) := by
  obtain ⟨f, hf, hv⟩ := secs_allAtomic h
  simp [hf, runSecsO, hv]

theorem pairs_linearizable_allAtomic : pairs_linearizable Shapes.allAtomic := by
  intro h₁ h₂ db s hs
  obtain ⟨f, hf, hfv⟩ := secs_allAtomic h₁
  obtain ⟨g, hg, hgv⟩ := secs_allAtomic h₂
  simp only [schedules, hf, hg, interleave, interleaveF, List.length_cons, List.length_nil,
    List.map_cons, List.map_nil, List.cons_append, List.nil_append, List.mem_cons, List.not_mem_nil, or_false] at hs
  rcases hs with rfl | rfl
  · left; simp [runSecsO, lift1, lift2, hfv, hgv]
  · right; simp [runSecsO, lift1, lift2, hfv, hgv]

/-- **THIS tree** (F12, F21, F37, F38 committed; the four flags are COMPUTED from the regenerated facts): for every two
handler calls of the section model — writer ‖ writer, reader ‖ writer, reader ‖ reader — every registry and every
schedule, the final registry (the whole `DB`) and both answers are those of one of the two serial orders. No hypothesis
on the names. With one of the four commits reverted the corresponding shape fact fails and this theorem with it. -/
theorem concurrent_pairs_linearizable_tree : pairs_linearizable Shapes.committed := by
  rw [committed_eq]; exact pairs_linearizable_allAtomic

/-- the registry half, in the form of `concurrent_register_delete_linearizable_fixed`, for every pair -/
theorem concurrent_pairs_db_tree (h₁ h₂ : Handler) (db : DB) :
    ∀ s ∈ schedules Shapes.committed h₁ h₂,
      (runSecsO (db, (Ans.none, Ans.none)) s).1 = h₂.eff (h₁.eff db) ∨
      (runSecsO (db, (Ans.none, Ans.none)) s).1 = h₁.eff (h₂.eff db) := by
  intro s hs
  rcases concurrent_pairs_linearizable_tree h₁ h₂ db s hs with e | e
  · left; rw [e]
  · right; rw [e]

/-- UNREGISTER(a) ‖ REGISTER(b) on one channel of the committed tree, in the sequential model's terms (`c ≠ ""`) -/
theorem concurrent_unregister_register_linearizable_tree (db : DB) (a b : Nat) (t c : Name) (hc : c ≠ []) :
    ∀ s ∈ schedules Shapes.committed (.unregisterChan a t c) (.register b t c),
      (runSecsO (db, (Ans.none, Ans.none)) s).1 = registerDB (unregisterDB db a ⟨t, c⟩) b ⟨t, c⟩ ∨
      (runSecsO (db, (Ans.none, Ans.none)) s).1 = unregisterDB (registerDB db b ⟨t, c⟩) a ⟨t, c⟩ := by
  intro s hs
  have := concurrent_pairs_db_tree (.unregisterChan a t c) (.register b t c) db s hs
  rw [← unregisterChan_eff _ _ _ _ hc, ← unregisterChan_eff _ _ _ _ hc]
  exact this

/-- tombstone ‖ `GET /lookup` on the committed tree, in the sequential model's terms (`t ≠ *`; `r.peers` is not written
by either call): `/lookup` reads the producers of the topic either all before or all after the marks -/
theorem concurrent_tombstone_lookup_linearizable_tree (r : Registry) (t node : Name) (now : Int) (ids : List Nat)
    (ht : t ≠ star) :
    ∀ s ∈ schedules Shapes.committed (.tombstone (fun id => nodeMatches r id node) t now ids) (.lookup t),
      runSecsO (r.db, (Ans.none, Ans.none)) s = (tombstoneDB r t node now, (Ans.none, Ans.lookup (lookupDB r.db t))) ∨
      runSecsO (r.db, (Ans.none, Ans.none)) s =
        (tombstoneDB r t node now, (Ans.none, Ans.lookup (lookupDB (tombstoneDB r t node now) t))) := by
  intro s hs
  rw [tombstoneDB_eq_tombDB r t node now ht]
  rcases concurrent_pairs_linearizable_tree _ _ r.db s hs with e | e
  · right; rw [e]; rfl
  · left; rw [e]; rfl

/-! ## The pre-fix shapes: four witnesses -/

def tT : Name := [116]
def cE : Name := [100] ++ ephSuffix

/-- before F21 (`tree = false`): `/channel/create` ‖ `/topic/delete` from the empty registry, schedule
`create₁ delete₁ delete₂ create₂`: the topic is left without the channel created with it -/
theorem pairs_linearizable_false_tree (sh : Shapes) (h : sh.tree = false) : ¬ pairs_linearizable sh := by
  obtain ⟨a, b, c, d⟩ := sh
  simp only at h; subst h
  intro hl
  have := hl (.createChannel tT [99]) (.deleteTopic tT) []
  simp only [schedules, secs] at this; revert this; decide

/-- before F12 (`unreg = false`, REGISTER already one section): `a` is the last producer of an `#ephemeral` channel and
unregisters; `b`'s REGISTER lands between `a`'s `RemoveProducer` (left = 0) and `RemoveRegistration`: the channel key is
deleted together with `b`'s registration although `b` was answered OK (finding `race:unregister-gc-vs-register`, fixed) -/
theorem pairs_linearizable_false_unreg (sh : Shapes) (h1 : sh.tree = true) (h : sh.unreg = false) :
    ¬ pairs_linearizable sh := by
  obtain ⟨a, b, c, d⟩ := sh
  simp only at h h1; subst h; subst h1
  intro hl
  have := hl (.unregisterChan 1 tT cE) (.register 2 tT cE) [(chanKey tT cE, [(1, fresh)]), (topicKey tT, [(1, fresh)])]
  simp only [schedules, secs] at this; revert this; decide

/-- before F37 (`readers = false`, `/topic/delete` already one section): topic with one channel; schedule
`lookup₁ (topic found) · /topic/delete · lookup₂ (no channels) · lookup₃`: `200 channels: []` is the answer of neither
serial order (finding `race:lookup-vs-topic-delete`, fixed) -/
theorem pairs_linearizable_false_readers (sh : Shapes) (h1 : sh.tree = true) (h : sh.readers = false) :
    ¬ pairs_linearizable sh := by
  obtain ⟨a, b, c, d⟩ := sh
  simp only at h h1; subst h; subst h1
  intro hl
  have := hl (.lookup tT) (.deleteTopic tT) (createChannelDB [] tT [99])
  simp only [schedules, secs] at this; revert this; decide

/-- before F38 (`tomb = false`, `/lookup` already one section): two producers of the topic carry the node string;
schedule `FindProducers · mark(1) · /lookup · mark(3)`: `/lookup` reads producer 1 tombstoned and producer 3 not — in both
serial orders it reads them alike (finding `race:tombstone-unlocked-write`, fixed; there the detector reports the
unlocked write itself) -/
theorem pairs_linearizable_false_tomb (sh : Shapes) (h1 : sh.readers = true) (h : sh.tomb = false) :
    ¬ pairs_linearizable sh := by
  obtain ⟨a, b, c, d⟩ := sh
  simp only at h h1; subst h; subst h1
  intro hl
  have := hl (.tombstone (fun _ => true) tT 5 [1, 3]) (.lookup tT) [(topicKey tT, [(1, fresh), (3, fresh)])]
  simp only [schedules, secs] at this; revert this; decide

/-- The pairs of the section model are linearizable EXACTLY when all four handlers groups are one critical section. -/
theorem pairs_linearizable_iff (sh : Shapes) : pairs_linearizable sh ↔ sh = Shapes.allAtomic := by
  constructor
  · intro hl
    obtain ⟨a, b, c, d⟩ := sh
    cases a
    · exact absurd hl (pairs_linearizable_false_tree _ rfl)
    · cases b
      · exact absurd hl (pairs_linearizable_false_unreg _ rfl rfl)
      · cases c
        · exact absurd hl (pairs_linearizable_false_readers _ rfl rfl)
        · cases d
          · exact absurd hl (pairs_linearizable_false_tomb _ rfl rfl)
          · rfl
  · rintro rfl; exact pairs_linearizable_allAtomic

/-- the statement over the COMPUTED flags: it holds iff the regenerated facts decide all four shapes atomic -/
theorem concurrent_pairs_linearizable_tree_iff :
    pairs_linearizable Shapes.committed ↔
      (Nsq.Tie.Registry.treeAtomic = true ∧ Nsq.Tie.Registry.unregisterAtomic = true ∧
       Nsq.Tie.Registry.readersAtomic = true ∧ Nsq.Tie.Registry.tombstoneAtomic = true) := by
  rw [pairs_linearizable_iff]
  simp [Shapes.committed, Shapes.allAtomic]

/-! ## Non-vacuity -/

/-- the committed tree: two schedules per pair; the pre-fix shapes: 6 (2 ‖ 2 sections), 4 (3 ‖ 1), 4 (3 ‖ 1) -/
example : (schedules Shapes.allAtomic (.unregisterChan 1 tT cE) (.register 2 tT cE)).length = 2 ∧
    (schedules ⟨false, false, false, false⟩ (.unregisterChan 1 tT cE) (.register 2 tT cE)).length = 6 ∧
    (schedules ⟨true, true, false, true⟩ (.lookup tT) (.deleteTopic tT)).length = 4 ∧
    (schedules ⟨true, true, true, false⟩ (.tombstone (fun _ => true) tT 5 [1, 3]) (.lookup tT)).length = 4 := by decide
example : (schedules Shapes.committed (.tombstone (fun _ => true) tT 5 [1, 3]) (.lookup tT)).length = 2 := by
  rw [committed_eq]; decide
/-- the two serial orders differ (the disjunction is not one statement twice): registry and answer -/
example : (Handler.register 2 tT cE).eff ((Handler.unregisterChan 2 tT cE).eff []) ≠
    (Handler.unregisterChan 2 tT cE).eff ((Handler.register 2 tT cE).eff []) := by decide
example : (Handler.lookup tT).ans [(topicKey tT, [(1, fresh), (3, fresh)])] ≠
    (Handler.lookup tT).ans ((Handler.tombstone (fun _ => true) tT 5 [1, 3]).eff [(topicKey tT, [(1, fresh), (3, fresh)])]) := by
  decide
/-- the pre-fix tombstone sections running alone compute `tombDB` on the witness registry -/
example : (runSecsO ([(topicKey tT, [(1, fresh), (3, fresh)])], Ans.none) (tombstoneSecs false (fun _ => true) tT 5 [1, 3])).1 =
    tombDB (fun _ => true) [(topicKey tT, [(1, fresh), (3, fresh)])] tT 5 := by decide
/-- the pre-F12 UNREGISTER sections running alone compute `unregisterDB` on the witness registry -/
example : (runSecsO ([(chanKey tT cE, [(1, fresh)]), (topicKey tT, [(1, fresh)])], Ans.none)
      (unregisterChanSecs false 1 tT cE)).1 =
    unregisterDB [(chanKey tT cE, [(1, fresh)]), (topicKey tT, [(1, fresh)])] 1 ⟨tT, cE⟩ := by decide

end Nsq.Props.C14Sched
