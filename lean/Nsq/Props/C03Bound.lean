/-
C03.2 — the in-flight BOUND over micro schedules (audit A8 remainder; docs/C03.md "Round 10").

`C03Guard` counts licences (one successful guard evaluation per delivery).  Here the bound the property is about, at
EVERY state of EVERY run of `Nsq.Model.Chan.step` — any op list: the pump's micro-steps `guard k | deliverArmed k id`,
the atomic `deliver`, RDY, CLS, pause, FIN (atomic or split), REQ, TOUCH, scans, Empty, (dis)connects, sampling drops,
in any order.  The two ghosts are pure instrumentation (`grun_is_run`: the channel component of `grun` is `run`):

* `gr k`   = `rdy` of connection `k` at its last SUCCESSFUL guard evaluation (0 at SUB);
* `base k` = `inFlight` of `k` when its last `RDY` / `CLS` command was accepted (0 at SUB).

* `inflight_le_guard_rdy` — `inFlight(k) ≤ gr k`, and `< gr k` while the pump is armed (a delivery is still licensed).
  NO "+ 1": the guard's strict `inFlight < rdy` absorbs the one delivery it licenses.
* `inflight_le_rdy_or_one_over` — `inFlight(k) ≤ max (rdy k now) (base k + 1)`: after a RDY change / CLS the consumer
  holds at most ONE message more than it held when the command was accepted — unless the new RDY itself allows more.
  This is the "+ 1" of the property, measured against the consumer's own view (what it held when it sent RDY).
* `old_bound_false` — the form suggested in the audit, `inFlight ≤ max rdy lgr + 1` with `lgr` = `rdy` at the SEND (the
  existing ghost field of `Client`), is FALSE at micro granularity: RDY 2, one in flight, guard, RDY 0, armed delivery
  ⇒ `inFlight = 2`, `rdy = lgr = 0`.  Against the CURRENT rdy alone no bound `rdy + const` exists even atomically
  (RDY n, n deliveries, RDY 0).
* `tightBound` examples: the same schedule reaches both bounds with equality.
-/
import Nsq.Proofs.ChanBound
namespace Nsq.Props.C03Bound
open Nsq.Model.Chan Nsq.Proofs.ChanBound

/-- the ghosts are instrumentation only -/
theorem grun_is_run (conf : Conf) (c : Chan) (g : Gh) (ops : List Op) : (grun conf (c, g) ops).1 = run conf c ops :=
  grun_fst conf (c, g) ops

/-- **bound 1**: at every state of every run, a connected consumer's in-flight count is at most the RDY value its
pump saw at its last successful guard evaluation; strictly less while a delivery is still licensed -/
theorem inflight_le_guard_rdy (conf : Conf) (eph : Bool) (cap : Nat) (ops : List Op) (k : Nat) (cl : Client)
    (hcl : findC (run conf { ephemeral := eph, memCap := cap } ops).clients k = some cl) :
    cl.inFlight ≤ (grun conf ({ ephemeral := eph, memCap := cap }, {}) ops).2.gr k ∧
    (cl.armed = true → cl.inFlight < (grun conf ({ ephemeral := eph, memCap := cap }, {}) ops).2.gr k) := by
  have h := grun_binv conf (binv_init eph cap) ops k cl (by rw [grun_fst]; exact hcl)
  exact ⟨h.le_gr, h.armed_lt⟩

/-- **bound 2** (the one-message overshoot): at every state of every run, `inFlight ≤ max rdy (base + 1)` where `base`
is what the consumer held when its last RDY / CLS was accepted; and an armed pump has either not yet used the one
overshoot (`inFlight ≤ base`) or is licensed by the CURRENT rdy -/
theorem inflight_le_rdy_or_one_over (conf : Conf) (eph : Bool) (cap : Nat) (ops : List Op) (k : Nat) (cl : Client)
    (hcl : findC (run conf { ephemeral := eph, memCap := cap } ops).clients k = some cl) :
    cl.inFlight ≤ max cl.rdy ((grun conf ({ ephemeral := eph, memCap := cap }, {}) ops).2.base k + 1) ∧
    (cl.armed = true →
      cl.inFlight ≤ (grun conf ({ ephemeral := eph, memCap := cap }, {}) ops).2.base k ∨ cl.inFlight < cl.rdy) := by
  have h := grun_binv conf (binv_init eph cap) ops k cl (by rw [grun_fst]; exact hcl)
  refine ⟨?_, h.armed_or⟩
  rcases h.le_base with h1 | h1
  · exact Int.le_trans h1 (Int.le_max_left _ _)
  · exact Int.le_trans h1 (Int.le_max_right _ _)

/-- corollary in state-only terms: a consumer whose RDY is 0 (RDY 0 or CLS) holds at most one message more than it
held when that command was accepted -/
theorem after_rdy0_one_more (conf : Conf) (eph : Bool) (cap : Nat) (ops : List Op) (k : Nat) (cl : Client)
    (hcl : findC (run conf { ephemeral := eph, memCap := cap } ops).clients k = some cl) (h0 : cl.rdy = 0)
    (hb : 0 ≤ (grun conf ({ ephemeral := eph, memCap := cap }, {}) ops).2.base k) :
    cl.inFlight ≤ (grun conf ({ ephemeral := eph, memCap := cap }, {}) ops).2.base k + 1 := by
  have h := (inflight_le_rdy_or_one_over conf eph cap ops k cl hcl).1
  rw [h0] at h
  have : max 0 ((grun conf ({ ephemeral := eph, memCap := cap }, {}) ops).2.base k + 1) =
      (grun conf ({ ephemeral := eph, memCap := cap }, {}) ops).2.base k + 1 := by omega
  rw [this] at h; exact h

/-! ### non-vacuity: a run that reaches both bounds with equality, and refutes the `lgr` form -/

/-- RDY 2; one delivery; guard (sees rdy 2, one in flight); RDY 0 (accepted with one in flight); the armed delivery -/
def tightOps : List Op :=
  [.put 7 {}, .put 8 {}, .put 9 {}, .addClient 1 60 0, .rdy 1 2, .guard 1, .deliverArmed 1 7 100,
   .guard 1, .rdy 1 0, .deliverArmed 1 8 101]

def tightEnd : Chan × Gh := grun {} ({}, {}) tightOps

example : (findC tightEnd.1.clients 1).map (fun cl => (cl.inFlight, cl.rdy, cl.lgr, cl.armed)) = some (2, 0, 0, false) := by
  decide
example : tightEnd.2.gr 1 = 2 ∧ tightEnd.2.base 1 = 1 := by decide
/-- bound 1 reached: `inFlight = gr` -/
example : ∃ cl, findC (run {} {} tightOps).clients 1 = some cl ∧ cl.inFlight = (grun {} ({}, {}) tightOps).2.gr 1 := by
  decide
/-- bound 2 reached: `inFlight = max rdy (base + 1) = base + 1` with `rdy = 0` -/
example : ∃ cl, findC (run {} {} tightOps).clients 1 = some cl ∧
    cl.inFlight = max cl.rdy ((grun {} ({}, {}) tightOps).2.base 1 + 1) ∧ cl.rdy = 0 := by
  decide
/-- a third delivery is refused: the bound is not exceeded -/
example : (step {} (run {} {} tightOps) (.deliverArmed 1 9 102)).2 = .reject "not-armed" ∧
    (step {} (run {} {} tightOps) (.guard 1)).2 = .reject "guard" := by decide
/-- the theorems applied to the run -/
example : ∀ cl, findC (run {} {} tightOps).clients 1 = some cl → cl.inFlight ≤ 2 := by
  intro cl h
  have := (inflight_le_guard_rdy {} false 0 tightOps 1 cl h).1
  have e : (grun {} ({ ephemeral := false, memCap := 0 }, {}) tightOps).2.gr 1 = 2 := by decide
  rw [e] at this; exact this
/-- while armed (before the last delivery) the strict half holds non-trivially: `1 < 2` -/
example : ∃ cl, findC (run {} {} (tightOps.take 9)).clients 1 = some cl ∧ cl.armed = true ∧ cl.inFlight = 1 ∧
    (grun {} ({}, {}) (tightOps.take 9)).2.gr 1 = 2 ∧ (grun {} ({}, {}) (tightOps.take 9)).2.base 1 = 1 := by decide

/-- the audit's suggested form `inFlight ≤ max rdy lgr + 1` (`lgr` = rdy at the send) is FALSE over micro schedules -/
theorem old_bound_false : ¬ (∀ (ops : List Op) (cl : Client), cl ∈ (run {} {} ops).clients →
    cl.inFlight ≤ max cl.rdy cl.lgr + 1) := by
  intro h
  have := h tightOps { conn := 1, rdy := 0, inFlight := 2, msgCount := 2, msgTimeout := 60 } (by decide)
  revert this; decide

end Nsq.Props.C03Bound
