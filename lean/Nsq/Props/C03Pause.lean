/-
C03.5 (topic pause) at micro-step granularity — round 9, audit A10.

`Props.C03.topic_pause_handshake` is a statement about `Nsq.Model.ChanNsqd`, whose `pumpTopic` step re-reads the
pause flag (`pumpEnabled`): there it holds BY DEFINITION. The real pump caches its decision (`memoryMsgChan = nil`)
and re-evaluates only on a `pauseChan` / `channelUpdateChan` event. The theorems below are about
`Nsq.Model.TopicPause`, which has the cached bit, the flag store and the hand-shake as separate steps, and
quantify over EVERY schedule of them (any number of concurrent `Pause()` / `UnPause()` / `GetChannel` calls):

* `cached_bit_exact` — whenever no `Pause()`/`UnPause()` call is in progress (each has returned) the pump's cached
  bit is `len(chans) > 0 ∧ ¬paused` for the CURRENT flag; before `Start()` it is off;
* `topic_pause_handshake_micro` — so once every `Pause()` has returned and the flag says paused, the fan-out step
  is refused and changes nothing (publishes are still accepted: `publish_while_paused`);
* `fan_needs_unpaused_or_pending` — a fan-out step is accepted only while the flag is clear or a pause call has not
  yet returned (the messages the pump still hands over BEFORE `Pause()` returns — the `busypause` leg does not judge them);
* `resume` — after `UnPause()` returned, with a channel, nothing outstanding: the fan-out step is accepted;
* `atomic_model_exact_at_quiescence` — at quiescence the cached bit equals `ChanNsqd.pumpEnabled` of the topic: the
  atomic model (and `topic_pause_handshake`, `C01Topic`'s `PumpEnabledInfOften`) is exact there;
* `HandshakeFull` / `handshake_full_false_without_ack` — the statement is FALSE when `doPause` does not wait for
  the pump (seeded defect C03-m7: non-blocking send): the flag is set, the call has returned, the pump still fans out.
Tie (behavioural): leg `busypause` (`harness/e2/e2_live_test.go doBusyPause`, `corpus/C03/busy_pause.ops`): the pump is
held mid-message, `Pause()` is issued and must WAIT for the pump (`sched:busypause:pause-waited-for-pump`), and from its
return on nothing is handed to the channel (`topic-pause`); `pausedrestart` (flag set before `Start()`); `busysub`
(`GetChannel`'s hand-shake). Textual: `Tie.Chan.topicDoPause_eq`, `topicDoPauseSelect_eq` (no `default:` arm),
`topicPumpArm_eq`, `topicFanout_eq` (the two re-evaluation sites), `getChannel_eq`.
-/
import Nsq.Proofs.TopicPause
import Nsq.Model.ChanNsqd
namespace Nsq.Props.C03Pause
open Nsq.Model.TopicPause Nsq.Proofs.TopicPause

/-- the cached enable bit is exact whenever no pause call is in progress; off before `Start()` -/
theorem cached_bit_exact (ops : List Op) :
    let s := run true {} ops
    (s.started = false → s.armed = false) ∧
    (s.started = true → s.pendP = 0 → s.armed = (decide (0 < s.snap) && !s.paused)) ∧
    (s.started = true → s.pendU = 0 → s.snap = s.nchan) :=
  let h := run_pinv pinv_init ops
  ⟨h.pre, h.arm, h.snapOk⟩

/-- **C03.5 at micro granularity**: every `Pause()`/`UnPause()` has returned and the flag says paused ⇒ the
fan-out step is refused and changes nothing — along EVERY schedule -/
theorem topic_pause_handshake_micro (ops : List Op) (id : Nat)
    (hp : (run true {} ops).pendP = 0) (hf : (run true {} ops).paused = true) :
    step true (run true {} ops) (.fan id) = (run true {} ops, false) := by
  have h := run_pinv pinv_init ops
  have ha : (run true {} ops).armed = false := by
    cases hs : (run true {} ops).started with
    | false => exact h.pre hs
    | true => rw [h.arm hs hp, evalArm, hf]; simp
  simp [step, ha]

/-- a fan-out step is accepted only while the flag is clear or a pause call has not returned yet -/
theorem fan_needs_unpaused_or_pending (ops : List Op) (id : Nat)
    (hok : (step true (run true {} ops) (.fan id)).2 = true) :
    (run true {} ops).paused = false ∨ 0 < (run true {} ops).pendP := by
  cases hf : (run true {} ops).paused with
  | false => exact Or.inl rfl
  | true =>
    right
    apply Nat.pos_of_ne_zero
    intro hp
    rw [topic_pause_handshake_micro ops id hp hf] at hok
    cases hok

/-- a paused topic keeps accepting publishes -/
theorem publish_while_paused (s : St) (id : Nat) :
    (step true s (.pub id)).2 = true ∧ id ∈ (step true s (.pub id)).1.queue := by
  simp [step]

/-- resume: `UnPause()` returned, the topic has a channel, no hand-shake outstanding ⇒ the fan-out of any queued
message is accepted -/
theorem resume (ops : List Op) (id : Nat)
    (hs : (run true {} ops).started = true) (hp : (run true {} ops).pendP = 0) (hu : (run true {} ops).pendU = 0)
    (hf : (run true {} ops).paused = false) (hc : 0 < (run true {} ops).nchan) (hq : id ∈ (run true {} ops).queue) :
    (step true (run true {} ops) (.fan id)).2 = true := by
  have h := run_pinv pinv_init ops
  have ha : (run true {} ops).armed = true := by
    rw [h.arm hs hp, h.snapOk hs hu, evalArm, hf]; simp [hc]
  simp [step, ha, hq]

/-- at quiescence the cached bit is the atomic model's `pumpEnabled` (flag re-read per message): the atomic model,
`Props.C03.topic_pause_handshake` and `C01Topic`'s hypotheses are exact there -/
theorem atomic_model_exact_at_quiescence (ops : List Op) (tp : Nsq.Model.ChanNsqd.Topic)
    (hs : (run true {} ops).started = true) (hp : (run true {} ops).pendP = 0) (hu : (run true {} ops).pendU = 0)
    (hpa : tp.paused = (run true {} ops).paused) (hch : tp.pump.length = (run true {} ops).nchan) :
    (run true {} ops).armed = Nsq.Model.ChanNsqd.pumpEnabled tp := by
  have h := run_pinv pinv_init ops
  rw [h.arm hs hp, h.snapOk hs hu, evalArm, Nsq.Model.ChanNsqd.pumpEnabled, hpa, ← hch]
  cases tp.pump <;> simp [Bool.and_comm]

/-- the full statement, parametrised by whether `doPause` waits for the pump -/
def HandshakeFull (handshake : Bool) : Prop :=
  ∀ (ops : List Op) (id : Nat), (run handshake {} ops).pendP = 0 → (run handshake {} ops).paused = true →
    (step handshake (run handshake {} ops) (.fan id)).2 = false

theorem handshake_full : HandshakeFull true := by
  intro ops id hp hf; rw [topic_pause_handshake_micro ops id hp hf]

/-- seeded defect C03-m7 (`select { case t.pauseChan <- 1: default: }`): `Pause()` returns without the pump having
re-evaluated; message 7, published AFTER the pause returned, is fanned out -/
def m7Ops : List Op := [.mapChange 1, .updAck, .start, .storeFlag true, .pub 7]
theorem handshake_full_false_without_ack : ¬ HandshakeFull false := by
  intro h
  have := h m7Ops 7 (by decide) (by decide)
  exact absurd this (by decide)

/-! non-vacuity -/
/-- the busy-pause schedule: channel, start, publish 1 2, pump fans 1, `Pause()` stores the flag (pending), the pump
still fans 2 (allowed: the call has not returned), takes the notification; 3 is published and refused; `UnPause()` … -/
def bpOps : List Op := [.mapChange 1, .updAck, .start, .pub 1, .pub 2, .fan 1, .storeFlag true, .fan 2, .pauseAck, .pub 3]
example : (run true {} bpOps).pendP = 0 ∧ (run true {} bpOps).paused = true ∧ (run true {} bpOps).queue = [3] ∧
    (run true {} bpOps).hist = [.ret, .fan 2, .store true, .fan 1] := by decide
example : step true (run true {} bpOps) (.fan 3) = (run true {} bpOps, false) :=
  topic_pause_handshake_micro bpOps 3 (by decide) (by decide)
example : (step true (run true {} (bpOps ++ [.storeFlag false, .pauseAck])) (.fan 3)).2 = true :=
  resume _ 3 (by decide) (by decide) (by decide) (by decide) (by decide) (by decide)
example : (run true {} [.mapChange 1, .updAck, .start, .pub 1, .storeFlag true]).paused = true ∧
    (step true (run true {} [.mapChange 1, .updAck, .start, .pub 1, .storeFlag true]) (.fan 1)).2 = true := by decide
example : 0 < (run true {} [.mapChange 1, .updAck, .start, .pub 1, .storeFlag true]).pendP :=
  (fan_needs_unpaused_or_pending _ 1 (by decide)).resolve_left (by decide)
/-- paused before `Start()` (restart leg): the pump starts disarmed -/
example : (run true {} [.mapChange 1, .storeFlag true, .pauseAck, .start, .pub 1]).armed = false := by decide
example : (run true {} bpOps).armed = Nsq.Model.ChanNsqd.pumpEnabled { tid := 1, paused := true, pump := [5] } :=
  atomic_model_exact_at_quiescence bpOps _ (by decide) (by decide) (by decide) rfl rfl
example : (cached_bit_exact bpOps).2.1 (by decide) (by decide) = (cached_bit_exact bpOps).2.1 (by decide) (by decide) := rfl

end Nsq.Props.C03Pause
