import Nsq.Proofs.DiskQueueApi
/-
Engine E9 — go-diskqueue v1.1.0 inside the model (serves C01, C05, C07, C08).
Model: `Nsq.Model.DiskQueue` (files, metadata file, positions, two-phase read, roll, sync, Empty,
Close, Delete, re-open, read-error path with `.bad` files; tied to the real package on every run by
`Nsq.Tie.DiskQueue` + harness/e9).  `Q s q` ("the live queue `s` holds exactly the records `q`")
is `Nsq.Proofs.DiskQueue.Q`; all theorems hold for every state with `Q`, i.e. after ANY history of
puts / receives / empties / close–re-open cycles from a fresh data path (`reachable_Q`).
-/
namespace Nsq.Props.E9DiskQueue
open Nsq.Model.Wire Nsq.Model.DiskQueue Nsq.Proofs.DiskQueue

/-- What `C05.restart_preserves` (a named disk queue hands back after the restart exactly what was
flushed into it: `Restart.lookupDQ`) and `C07.dq_roundtrip` ("the file I/O of go-diskqueue is an
assumption") assume about the disk queue. -/
structure DQLaw (σ : Type) where
  rep : σ → List Bytes → Prop
  valid : Bytes → Prop
  put : σ → Bytes → σ
  recv : σ → Option Bytes × σ
  depth : σ → Int
  /-- `Close()` followed by `New(...)` on the same data path -/
  reopen : σ → σ
  put_law : ∀ s q d, rep s q → valid d → rep (put s d) (q ++ [d])
  recv_law : ∀ s q d, rep s (d :: q) → (recv s).1 = some d ∧ rep (recv s).2 q
  recv_empty : ∀ s, rep s [] → (recv s).1 = none
  depth_law : ∀ s q, rep s q → depth s = (q.length : Int)
  reopen_law : ∀ s q, rep s q → rep (reopen s) q

/-- consequences used by C05 / C07: whatever was written comes back, in order, byte-identical, also
across any number of Close/New cycles in between -/
theorem DQLaw.flush_then_restart {σ : Type} (L : DQLaw σ) (s : σ) (q l : List Bytes) (h : L.rep s q)
    (hv : ∀ d ∈ l, L.valid d) : L.rep (L.reopen (l.foldl L.put s)) (q ++ l) := by
  apply L.reopen_law
  induction l generalizing s q with
  | nil => simpa using h
  | cons d l ih =>
    have := ih (L.put s d) (q ++ [d]) (L.put_law s q d h (hv d (by simp))) (fun x hx => hv x (by simp [hx]))
    simpa using this

def DQLaw.drain {σ : Type} (L : DQLaw σ) : Nat → σ → List Bytes
  | 0, _ => []
  | n + 1, s =>
    match (L.recv s).1 with
    | some d => d :: L.drain n (L.recv s).2
    | none => []

theorem DQLaw.drain_all {σ : Type} (L : DQLaw σ) (q : List Bytes) (s : σ) (h : L.rep s q) (n : Nat) (hn : q.length ≤ n) :
    L.drain n s = q := by
  induction n generalizing s q with
  | zero =>
    cases q with
    | nil => rfl
    | cons _ _ => simp at hn
  | succ n ih =>
    cases q with
    | nil => simp [DQLaw.drain, L.recv_empty s h]
    | cons d q =>
      obtain ⟨a, b⟩ := L.recv_law s q d h
      simp only [DQLaw.drain, a]
      rw [ih q _ b (by simpa using hn)]

/-- the abstraction relation for a fixed configuration (only the record-size bounds matter;
`maxBytesPerFile` and `syncEvery` may change across a restart) -/
def RepFor (minSz maxSz : Nat) (s : St) (q : List Bytes) : Prop :=
  Q s q ∧ s.cfg.minMsgSize = minSz ∧ s.cfg.maxMsgSize = maxSz

/-- 1. THE MODEL SATISFIES THE LAW (refinement to a plain FIFO of records): this discharges the
go-diskqueue assumption of `C05.restart_preserves` and `C07.dq_roundtrip`. -/
def diskqueue_law (cfg' : Cfg) (hok : CfgOk cfg') : DQLaw St where
  rep := RepFor cfg'.minMsgSize cfg'.maxMsgSize
  valid := fun d => cfg'.minMsgSize ≤ d.length ∧ d.length ≤ cfg'.maxMsgSize
  put := fun s d => (Nsq.Model.DiskQueue.put s d).2
  recv := Nsq.Model.DiskQueue.recv
  depth := fun s => s.depth
  reopen := fun s => openQ cfg' (close s).fs
  put_law := by
    intro s q d h hv
    refine ⟨(put_ok_Q h.1 d (by unfold ValidRec; rw [h.2.1, h.2.2]; exact hv)).2, ?_, ?_⟩
    · rw [put_cfg]; exact h.2.1
    · rw [put_cfg]; exact h.2.2
  recv_law := by
    intro s q d h
    refine ⟨(recv_head_Q h.1).1, (recv_head_Q h.1).2, ?_, ?_⟩
    · rw [recv_cfg]; exact h.2.1
    · rw [recv_cfg]; exact h.2.2
  recv_empty := by
    intro s h
    rw [recv_none_Q h.1]
  depth_law := fun s q h => depth_Q h.1
  reopen_law := by
    intro s q h
    refine ⟨reopen_Q h.1 cfg' hok h.2.1.symm h.2.2.symm, ?_, ?_⟩
    · rw [openQ_cfg]
    · rw [openQ_cfg]

/-- a fresh data path is the empty queue -/
theorem fresh_empty (cfg : Cfg) (hok : CfgOk cfg) : (diskqueue_law cfg hok).rep (openQ cfg FS.empty) [] :=
  ⟨fresh_Q cfg hok, by rw [openQ_cfg], by rw [openQ_cfg]⟩

/-- 2. `Put` of a record of valid size succeeds and appends it -/
theorem put_appends (s : St) (q : List Bytes) (d : Bytes) (h : Q s q) (hv : ValidRec s.cfg d) :
    (put s d).1 = .ok ∧ Q (put s d).2 (q ++ [d]) := put_ok_Q h d hv

/-- 3. a record outside `[minMsgSize, maxMsgSize]` is rejected and the queue is unchanged -/
theorem invalid_size_rejected (s : St) (q : List Bytes) (d : Bytes) (h : Q s q) (hv : ¬ ValidRec s.cfg d) :
    (put s d).1 = .invalid ∧ Q (put s d).2 q := put_invalid_Q h d hv

/-- 4. the consumer receives exactly the oldest record, byte-identical; nothing is offered when empty -/
theorem recv_is_fifo (s : St) (d : Bytes) (q : List Bytes) (h : Q s (d :: q)) :
    (recv s).1 = some d ∧ Q (recv s).2 q := recv_head_Q h

theorem recv_nothing_when_empty (s : St) (h : Q s []) : recv s = (none, s) := recv_none_Q h

/-- 5. `Depth()` is the number of queued records -/
theorem depth_is_length (s : St) (q : List Bytes) (h : Q s q) : s.depth = (q.length : Int) := depth_Q h

/-- 6. `Close` then `New` on the same path preserves the queue exactly — also when
`--max-bytes-per-file` / `--sync-every` changed in between, and with a read-ahead pending at `Close` -/
theorem close_reopen_preserves (s : St) (q : List Bytes) (h : Q s q) (cfg' : Cfg) (hok : CfgOk cfg')
    (hmin : cfg'.minMsgSize = s.cfg.minMsgSize) (hmax : cfg'.maxMsgSize = s.cfg.maxMsgSize) :
    Q (openQ cfg' (close s).fs) q := reopen_Q h cfg' hok hmin hmax

/-- 7. `Empty` leaves the empty queue, NO data file and no metadata file; it never touches `.bad` files -/
theorem empty_leaves_no_data_file (s : St) (q : List Bytes) (h : Q s q) :
    (empty s).1 = true ∧ Q (empty s).2 [] ∧ (∀ i, (empty s).2.fs.dat i = none) ∧ (empty s).2.fs.md = none ∧
      (empty s).2.fs.bad = s.fs.bad := empty_Q h

/-- `Delete` (= `exit(true)`) removes nothing at all: nsqd relies on the `Empty` it calls first -/
theorem delete_removes_nothing (s : St) : (delete s).fs.dat = s.fs.dat ∧ (delete s).fs.bad = s.fs.bad ∧
    (delete s).fs.md = s.fs.md := ⟨rfl, rfl, rfl⟩

/-- so after `Empty` + `Delete` every data file and the metadata are gone, and every `.bad` file is still there -/
theorem empty_delete_leaves_exactly_bad (s : St) (q : List Bytes) (h : Q s q) :
    (∀ i, (delete (empty s).2).fs.dat i = none) ∧ (delete (empty s).2).fs.md = none ∧
      (delete (empty s).2).fs.bad = s.fs.bad :=
  ⟨(empty_Q h).2.2.1, (empty_Q h).2.2.2.1, (empty_Q h).2.2.2.2⟩

/-- 8. when a `.bad` file is produced in a healthy queue: exactly one loop pass does it — the reader
stands at the end of a completed file (`readFileNum < writeFileNum`, every record of it consumed:
it caught up with the writer, which then rolled), reads EOF, and the file — holding only consumed
bytes — is renamed.  No queued record is ever quarantined. -/
theorem bad_file_only_consumed (s : St) (pre : Bytes) (recs : Nat → List Bytes) (h : Rep s pre recs)
    (hc : (settleStep s).1 = true) :
    recs s.rf = [] ∧ s.rf < s.wf ∧ s.fs.content s.rf = pre ∧ s.rp = pre.length ∧
      absQ (settleStep s).2 recs = absQ s recs := by
  obtain ⟨a, _⟩ := settleStep_rep h
  obtain ⟨a1, a2, a3, a4, a5⟩ := a hc
  refine ⟨a5, a4, by rw [h.crf, a5, enc_nil, List.append_nil], h.rp, ?_⟩
  unfold absQ
  rw [a2, a3]
  have e : s.wf - s.rf + 1 = (s.wf - (s.rf + 1) + 1) + 1 := by omega
  rw [e]
  show _ = recs s.rf ++ qFrom recs (s.rf + 1) (s.wf - (s.rf + 1) + 1)
  rw [a5, List.nil_append]

/-- 9. a process kill when the metadata is current (right after a sync) loses and duplicates nothing -/
theorem kill_after_sync_preserves (s : St) (q : List Bytes) (h : Q s q) (hmd : s.fs.md = some s.metaNow)
    (cfg' : Cfg) (hok : CfgOk cfg') (hmin : cfg'.minMsgSize = s.cfg.minMsgSize) (hmax : cfg'.maxMsgSize = s.cfg.maxMsgSize) :
    Q (openQ cfg' (crash s)) q := crash_synced_Q h hmd cfg' hok hmin hmax

/-! ### witnesses (each is replayed on the real package: corpus/E9/*.ops) -/

def cfgW : Cfg := { maxBytesPerFile := 16, minMsgSize := 1, maxMsgSize := 8, syncEvery := 2 }
def cfgW100 : Cfg := { maxBytesPerFile := 16, minMsgSize := 1, maxMsgSize := 8, syncEvery := 100 }
def ra : Bytes := [0xa1, 0xa2, 0xa3, 0xa4]
def rb : Bytes := [0xb1, 0xb2, 0xb3, 0xb4]
def rc : Bytes := [0xc1, 0xc2, 0xc3, 0xc4]

theorem cfgW_ok : CfgOk cfgW := ⟨by decide, by decide⟩
theorem cfgW100_ok : CfgOk cfgW100 := ⟨by decide, by decide⟩

/-- the open C08 finding `diskqueue-bad-file-left-behind`: put a, b (file 0 full), receive both (reader
at the end of file 0), put c (writer rolls to file 1) → file 0 becomes `.bad`; `Empty` + `Delete` leave it -/
def sBad : St := (put (recv (recv (put (put (openQ cfgW FS.empty) ra).2 rb).2).2).2 rc).2

theorem bad_file_witness :
    (sBad.fs.bad 0).isSome = true ∧ ((delete (empty sBad).2).fs.bad 0).isSome = true ∧
      (recv sBad).1 = some rc := by decide

/-- a healthy queue is not always free of `.bad` files: the statement "no `.bad` file is ever produced
without corruption" is false -/
def never_bad_full : Prop :=
  ∀ s q d, Q s q → ValidRec s.cfg d → (put s d).2.fs.bad = s.fs.bad

theorem never_bad_full_false : ¬ never_bad_full := by
  intro h
  have hq : Q (recv (recv (put (put (openQ cfgW FS.empty) ra).2 rb).2).2).2 [] := by
    have h0 := fresh_Q cfgW cfgW_ok
    have h1 := (put_ok_Q h0 ra (by decide)).2
    have h2 := (put_ok_Q h1 rb (by rw [put_cfg, openQ_cfg]; decide)).2
    have h3 := (recv_head_Q h2).2
    exact (recv_head_Q h3).2
  have := h _ [] rc hq (by rw [recv_cfg, recv_cfg, put_cfg, put_cfg, openQ_cfg]; decide)
  have e := congrFun this 0
  have : ((put (recv (recv (put (put (openQ cfgW FS.empty) ra).2 rb).2).2).2 rc).2.fs.bad 0).isSome = true := by decide
  rw [e] at this
  exact absurd this (by decide)

/-! what a process kill BETWEEN syncs can do (metadata older than the data) — witnesses, replayed on the
real package; the general statement over every history is `Nsq.Props.E9Kill.kill_after_any_history` -/

/-- (a) records received since the last sync are delivered AGAIN after the kill (duplicates), in order,
followed by everything still queued: put a, b (sync at count 2), receive a (not synced), kill →
a again, then b -/
theorem kill_between_syncs_redelivers :
    (recv (openQ cfgW (crash (recv (put (put (openQ cfgW FS.empty) ra).2 rb).2).2))).1 = some ra ∧
    (recv (recv (openQ cfgW (crash (recv (put (put (openQ cfgW FS.empty) ra).2 rb).2).2))).2).1 = some rb := by decide

/-- (b) records put since the last sync SURVIVE the kill when a metadata file exists (the writer skips
to a new file, the reader salvages the old one up to its size) — but `Depth()` is stale: put a, b
(sync), put c (not synced), kill → a, b, c are all delivered while depth said 2 -/
theorem kill_between_syncs_salvages_puts :
    (openQ cfgW (crash (put (put (put (openQ cfgW FS.empty) ra).2 rb).2 rc).2)).depth = 2 ∧
    (DQLaw.drain (diskqueue_law cfgW cfgW_ok) 5
      (openQ cfgW (crash (put (put (put (openQ cfgW FS.empty) ra).2 rb).2 rc).2))) = [ra, rb, rc] := by decide

/-- (c) records put before the FIRST sync of a queue (no metadata file yet) are LOST by a kill: the
new process starts at file 0 / position 0 with depth 0 and its first `Put` overwrites them -/
theorem kill_before_first_sync_loses :
    (put (openQ cfgW100 FS.empty) ra).1 = .ok ∧
    (recv (openQ cfgW100 (crash (put (openQ cfgW100 FS.empty) ra).2))).1 = none ∧
    (openQ cfgW100 (crash (put (openQ cfgW100 FS.empty) ra).2)).depth = 0 := by decide

/-- (d) the same after `Empty` (it removes the metadata file): a record put after `Empty` and before the
next sync is lost by a kill -/
theorem kill_after_empty_loses :
    (recv (openQ cfgW100 (crash (put (empty (put (openQ cfgW100 FS.empty) ra).2).2 rb).2))).1 = none := by decide

/-- so "an acknowledged `Put` survives a process kill" is false for go-diskqueue v1.1.0 -/
def kill_loses_nothing_full : Prop :=
  ∀ (cfg : Cfg) (hok : CfgOk cfg) (s : St) (q : List Bytes), s.cfg = cfg → Q s q → ∀ d ∈ q,
    ∃ n, d ∈ DQLaw.drain (diskqueue_law cfg hok) n (openQ cfg (crash s))

theorem kill_loses_nothing_full_false : ¬ kill_loses_nothing_full := by
  intro h
  have hq : Q (put (openQ cfgW100 FS.empty) ra).2 [ra] := (put_ok_Q (fresh_Q cfgW100 cfgW100_ok) ra (by decide)).2
  obtain ⟨n, hn⟩ := h cfgW100 cfgW100_ok _ [ra] (by rw [put_cfg, openQ_cfg]) hq ra (by simp)
  have e : ∀ n, DQLaw.drain (diskqueue_law cfgW100 cfgW100_ok) n (openQ cfgW100 (crash (put (openQ cfgW100 FS.empty) ra).2)) = [] := by
    intro n
    cases n with
    | zero => rfl
    | succ n =>
      have : (recv (openQ cfgW100 (crash (put (openQ cfgW100 FS.empty) ra).2))).1 = none := by decide
      simp only [DQLaw.drain, diskqueue_law, this]
  rw [e n] at hn
  exact absurd hn (by simp)

/-! ### every history from a fresh data path has `Q` -/

inductive Op
  | put (d : Bytes) | recv | empty | reopen
deriving Repr

def stepOp (cfg : Cfg) (s : St) : Op → St
  | .put d => (put s d).2
  | .recv => (recv s).2
  | .empty => (empty s).2
  | .reopen => openQ cfg (close s).fs

def specOp (cfg : Cfg) (q : List Bytes) : Op → List Bytes
  | .put d => if cfg.minMsgSize ≤ d.length ∧ d.length ≤ cfg.maxMsgSize then q ++ [d] else q
  | .recv => q.tail
  | .empty => []
  | .reopen => q

/-- 10. REFINEMENT: after any sequence of puts (valid or not), receives, empties and close/re-open cycles
from a fresh data path, the disk queue holds exactly what a plain list-FIFO holds -/
theorem reachable_Q (cfg : Cfg) (hok : CfgOk cfg) (ops : List Op) :
    Q (ops.foldl (stepOp cfg) (openQ cfg FS.empty)) (ops.foldl (specOp cfg) []) ∧
      (ops.foldl (stepOp cfg) (openQ cfg FS.empty)).cfg = cfg := by
  have gen : ∀ (ops : List Op) (s : St) (q : List Bytes), Q s q → s.cfg = cfg →
      Q (ops.foldl (stepOp cfg) s) (ops.foldl (specOp cfg) q) ∧ (ops.foldl (stepOp cfg) s).cfg = cfg := by
    intro ops
    induction ops with
    | nil => intro s q h hc; exact ⟨h, hc⟩
    | cons o ops ih =>
      intro s q h hc
      simp only [List.foldl_cons]
      cases o with
      | put d =>
        apply ih
        · show Q (put s d).2 (if cfg.minMsgSize ≤ d.length ∧ d.length ≤ cfg.maxMsgSize then q ++ [d] else q)
          by_cases hv : cfg.minMsgSize ≤ d.length ∧ d.length ≤ cfg.maxMsgSize
          · rw [if_pos hv]; exact (put_ok_Q h d (by unfold ValidRec; rw [hc]; exact hv)).2
          · rw [if_neg hv]; exact (put_invalid_Q h d (by unfold ValidRec; rw [hc]; exact hv)).2
        · show (put s d).2.cfg = cfg
          rw [put_cfg, hc]
      | recv =>
        apply ih
        · show Q (recv s).2 q.tail
          cases q with
          | nil => rw [recv_none_Q h]; exact h
          | cons d q => exact (recv_head_Q h).2
        · show (recv s).2.cfg = cfg
          rw [recv_cfg, hc]
      | empty =>
        apply ih
        · exact (empty_Q h).2.1
        · show (empty s).2.cfg = cfg
          unfold empty
          split
          · exact hc
          · simp only []; rw [settle_cfg]; exact hc
      | reopen =>
        apply ih
        · exact reopen_Q h cfg hok (by rw [hc]) (by rw [hc])
        · exact openQ_cfg _ _
  exact gen ops _ [] (fresh_Q cfg hok) (openQ_cfg _ _)

/-! ### non-vacuity -/

example : (diskqueue_law cfgW cfgW_ok).rep (openQ cfgW FS.empty) [] := fresh_empty cfgW cfgW_ok
example : ValidRec cfgW ra ∧ ¬ ValidRec cfgW [] := by decide
example : (put (openQ cfgW FS.empty) []).1 = .invalid ∧ (put (openQ cfgW FS.empty) ra).1 = .ok := by decide
-- a state with `Q` that spans two files, has a read-ahead pending and a non-trivial queue
example : Q (put (put (put (openQ cfgW FS.empty) ra).2 rb).2 rc).2 [ra, rb, rc] :=
  (reachable_Q cfgW cfgW_ok [.put ra, .put rb, .put rc]).1
example : (put (put (put (openQ cfgW FS.empty) ra).2 rb).2 rc).2.wf = 1 ∧
    (put (put (put (openQ cfgW FS.empty) ra).2 rb).2 rc).2.nrp = 8 := by decide
-- `Q` is not `True`: it rejects a state whose depth disagrees
example : ¬ Q { (openQ cfgW FS.empty) with depth := 3 } [] := fun h => by
  have := depth_Q h
  exact absurd this (by decide)
-- close/re-open with a pending read-ahead and a changed maxBytesPerFile
example : DQLaw.drain (diskqueue_law cfgW cfgW_ok) 9
    (openQ { cfgW with maxBytesPerFile := 100 } (close (put (put (put (openQ cfgW FS.empty) ra).2 rb).2 rc).2).fs) = [ra, rb, rc] := by decide
example : (settleStep (recv (recv (put (put (openQ cfgW FS.empty) ra).2 rb).2).2).2).1 = false := by decide
-- `kill_after_sync_preserves`: syncEvery = 2, two puts → metadata current
example : (put (put (openQ cfgW FS.empty) ra).2 rb).2.fs.md = some (put (put (openQ cfgW FS.empty) ra).2 rb).2.metaNow := by decide

end Nsq.Props.E9DiskQueue
