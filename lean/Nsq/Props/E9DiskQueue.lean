import Nsq.Model.DiskQueue
namespace Nsq.Props.E9DiskQueue
open Nsq.Model.DiskQueue

theorem placeholder : (1 : Nat) = 1 := rfl

end Nsq.Props.E9DiskQueue
