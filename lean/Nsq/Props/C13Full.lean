/-
C13 — the property's formula AS WRITTEN, its exact domain, and the three ways it fails (round 9; audit B19, B3).

The property says `message_count = depth + in flight + deferred + finished + emptied` for every channel. What is
proved for EVERY reachable channel state (`C13.channel_conservation`) has two more terms: `+ sampled out + dropped by a
full #ephemeral queue`. This module states the formula as written (`C13Formula`) and decides it:

* `C13_full_partial` — it HOLDS along every op list (micro-steps included) on a DURABLE channel in which no consumer's
  `sample_rate` dropped a message (hypothesis: no `sampleDrop` step; by `C01.only_deliberate_drops` such a step needs a
  connected consumer with `sample_rate ≠ 0`) — under the model's named assumption that channel backend writes succeed;
* `C13_full_false_sampling` — FALSE with a sampling consumer (the dropped message is in no term);
* `C13_full_false_ephemeral` — FALSE on an `#ephemeral` channel whose memory queue is full;
* `C13_full_false_put_fault` — FALSE on a durable channel, no sampling, when the channel's backend write fails in
  REQ 0 / the timeout scan / the deferred scan (`Nsq.Model.ChanFault`; open finding `chan-backend-write-fails`, replayed
  on the real code by `TestVerifE2PutFail`), and on the REQ path the consumer's counters are skewed for ever
  (`put_fault_skews_client`): `in_flight_count` one too high, channel `requeue_count` 1 vs client 0;
* `C13_full_false` — so the unrestricted statement is false (three witnesses).
-/
import Nsq.Props.C13
import Nsq.Model.ChanFault
namespace Nsq.Props.C13Full
open Nsq.Model.Chan Nsq.Model.ChanInv Nsq.Model.ChanFault Nsq.Proofs.Chan Nsq.Props.C13

/-- the property's formula as written -/
def C13Formula (c : Chan) : Prop :=
  c.messageCount = (c.memLen + c.dqLen) + nInflight c + nDeferred c + nEv isFin c.hist + nEmptied c.hist

instance (c : Chan) : Decidable (C13Formula c) := by unfold C13Formula; infer_instance

/-- no consumer's sampling dropped a message along the run -/
def NoSampleDrop (ops : List Op) : Prop := ∀ op ∈ ops, ∀ k id, op ≠ .sampleDrop k id

theorem no_sampled_events (conf : Conf) (ops : List Op) (h : NoSampleDrop ops) (c0 : Chan) :
    nEv isSampled (run conf c0 ops).hist = nEv isSampled c0.hist := by
  induction ops generalizing c0 with
  | nil => rfl
  | cons op ops ih =>
    simp only [run]
    rw [ih (fun o ho => h o (List.mem_cons_of_mem _ ho))]
    apply Classical.byContradiction
    intro hne
    obtain ⟨k, id, _, rfl, _⟩ := sampled_only conf c0 op hne
    exact h _ List.mem_cons_self k id rfl

/-- **the formula as written holds** on a durable channel without sampling drops (backend writes succeeding) -/
theorem C13_full_partial (conf : Conf) (cap : Nat) (ops : List Op) (h : NoSampleDrop ops) :
    C13Formula (run conf { ephemeral := false, memCap := cap } ops) := by
  have h1 := conservation_durable (conf := conf) (cap := cap) (ops := ops)
  have h2 := no_sampled_events conf ops h { ephemeral := false, memCap := cap }
  simp only [nEv, List.countP_nil] at h2
  unfold C13Formula
  have := h1.2
  simp only [nEv] at this ⊢
  omega

/-- the full statement: the formula as written in every reachable channel state -/
def C13Full : Prop :=
  ∀ (conf : Conf) (eph : Bool) (cap : Nat) (ops : List Op), C13Formula (run conf { ephemeral := eph, memCap := cap } ops)

/-- a consumer with `sample_rate 50` whose draw drops message 7 -/
def sampOps : List Op := [.put 7 {}, .addClient 1 60 50, .rdy 1 1, .sampleDrop 1 7]
theorem C13_full_false_sampling : ¬ C13Formula (run {} { ephemeral := false, memCap := 10 } sampOps) := by decide

/-- an `#ephemeral` channel with `mem-queue-size 1`: the second message is dropped by `Channel.put` -/
def ephOps : List Op := [.put 7 {}, .put 8 {}]
theorem C13_full_false_ephemeral : ¬ C13Formula (run {} { ephemeral := true, memCap := 1 } ephOps) := by decide

theorem C13_full_false : ¬ C13Full := fun h => C13_full_false_sampling (h {} false 10 sampOps)

/-- the formula with storage faults allowed -/
def C13FullWithFaults : Prop :=
  ∀ (conf : Conf) (cap : Nat) (ops : List FOp), C13Formula (runF conf { ephemeral := false, memCap := cap } ops)

/-- audit B3's schedule: `mem-queue-size 0`, message 7 delivered to consumer 1, `REQ 7 0`, the backend write fails -/
def faultOps : List FOp :=
  [.ok (.put 7 {}), .ok (.addClient 1 60 0), .ok (.rdy 1 1), .ok (.deliver 1 7 100), .putFailReq 1 7]
theorem C13_full_false_put_fault : ¬ C13FullWithFaults := by
  intro h
  exact absurd (h {} 0 faultOps) (by decide)

/-- … message_count 1, nothing queued / in flight / deferred / finished; the consumer still counts it in flight, and
the channel counted a requeue the consumer did not -/
theorem put_fault_skews_client :
    let c := runF {} { ephemeral := false, memCap := 0 } faultOps
    c.messageCount = 1 ∧ c.msgs = [] ∧ c.requeueCount = 1 ∧
    c.clients.map (fun cl => (cl.inFlight, cl.reqCount)) = [(1, 0)] ∧ heldBy c.msgs 1 = 0 := by decide

/-- the timeout-scan and deferred-scan paths lose the message too (counters stay consistent there) -/
theorem put_fault_scan_paths :
    ¬ C13Formula (runF {} { ephemeral := false, memCap := 0 }
        [.ok (.put 7 {}), .ok (.addClient 1 60 0), .ok (.rdy 1 1), .ok (.deliver 1 7 100), .putFailTimeout 7]) ∧
    ¬ C13Formula (runF {} { ephemeral := false, memCap := 0 } [.ok (.putDeferred 7 500 {}), .putFailDefer 7]) := by decide

/-- without fault steps `runF` is `run`: every theorem of C13 / C01 is about exactly these runs (the assumption
"channel backend writes succeed", named in the evidence) -/
theorem runF_ok (conf : Conf) (c : Chan) (ops : List Op) : runF conf c (ops.map .ok) = run conf c ops := by
  induction ops generalizing c with
  | nil => rfl
  | cons op ops ih => simp only [List.map_cons, runF, stepF, run, ih]

/-- a fault step is enabled only where the real `put` reaches the backend: durable channel, memory queue full -/
theorem put_fault_needs_backend (conf : Conf) (c : Chan) (op : FOp) (hop : ∀ o, op ≠ .ok o)
    (h : ∀ w, (stepF conf c op).2 ≠ .reject w) : c.ephemeral = false ∧ c.memCap ≤ c.memLen := by
  have key : putHitsBackend c = true → c.ephemeral = false ∧ c.memCap ≤ c.memLen := by
    intro hb; simpa [putHitsBackend] using hb
  cases op with
  | ok o => exact absurd rfl (hop o)
  | putFailReq k id =>
    by_cases hb : putHitsBackend c = true
    · exact key hb
    · exfalso; simp only [stepF, hb] at h; simp at h
  | putFailTimeout id =>
    by_cases hb : putHitsBackend c = true
    · exact key hb
    · exfalso; simp only [stepF, hb] at h; simp at h
  | putFailDefer id =>
    by_cases hb : putHitsBackend c = true
    · exact key hb
    · exfalso; simp only [stepF, hb] at h; simp at h

/-! non-vacuity of `C13_full_partial`: a durable run with every kind of op but sampling -/
def okOps : List Op :=
  [.put 7 {}, .put 8 {}, .putDeferred 9 500 {}, .addClient 1 60 0, .rdy 1 2, .deliver 1 7 100, .deliver 1 8 101,
   .fin 1 7, .req 1 8 0 200, .scanDeferred 600, .pause, .unpause, .empty]
example : NoSampleDrop okOps := by
  intro op hop k id; simp [okOps] at hop
  rcases hop with h | h | h | h | h | h | h | h | h | h | h | h | h <;> subst h <;> simp
example : (run {} { ephemeral := false, memCap := 1 } okOps).messageCount = 3 := by decide
example : C13Formula (run {} { ephemeral := false, memCap := 1 } okOps) := by decide
example : (stepF {} (run {} { ephemeral := false, memCap := 0 } [.put 7 {}, .addClient 1 60 0, .rdy 1 1, .deliver 1 7 100])
    (.putFailReq 1 7)).2 = .err "E_REQ_FAILED" false := by decide
example : (stepF {} (run {} { ephemeral := false, memCap := 5 } [.put 7 {}, .addClient 1 60 0, .rdy 1 1, .deliver 1 7 100])
    (.putFailReq 1 7)).2 = .reject "not-enabled" := by decide

end Nsq.Props.C13Full
