import Nsq.Proofs.ToFileLines
import Nsq.Tie.ToolsToFile
/-!
# C19, line level — every FINished message owns one whole, durable line (audit round 7: C5, C4)

`Nsq.Props.C19.fin_implies_durable` is an *infix* claim: `body ++ "\n"` occurs somewhere in the
fsynced bytes.  It accepts `"rec0\nbodyAbodyB\n"` for a FINished message `bodyB` (a torn tail
`bodyA` left by a writer killed between its two writes, then appended to), three FINished messages
backed by one record, and any newline for an empty body.  The statement here is the one a reader
of the files needs: there is an assignment of the *occurrences* in `finished` (list positions;
duplicate bodies / ids allowed) to `(path, offset)` such that the file holds `body ++ "\n"` at
that offset, the offset is a line start, the record lies inside the fsynced prefix (gzip: of the
payload of closed members), and the byte ranges of different occurrences are pairwise disjoint.

* `fin_owns_line_this_tree_partial` — the statement about the checked tree (F46 85f4c48 + F47 efaf20c + F47b 73f7348
  committed; shape parameters computed by `Tie.ToolsToFile`: `oneWrite`, `sealsTail`, `sealReadWarns`, all three decided
  `true` — only the F47b skeleton of `sealTornTail` is accepted); it carries the hypothesis `ReadsOk io` (every existing
  file the tool re-opens for appending is readable by it), forced: `fin_owns_line_F47b_full_false`;
* `fin_owns_line_fixed`  — the tree with fix F47 (`Cfg.sealsTail`): every configuration, initial directory, event list
  (incl. foreign files and whole-record appends of a second writer), fault schedule; hypothesis guarded by the shape:
  `c.sealReadWarns = true → ReadsOk io`. Corollaries `fin_owns_line_F47b_partial` (F47b, this tree: every re-opened file
  is readable) and `fin_owns_line_committed` (history: the shape of F47 alone, no longer accepted — unconditional there,
  an unreadable file was a fatal exit, which is what F47b repaired).
* `fin_owns_line_F47b_full_false` — under F47b the unconditional statement is **false** (witness: unreadable torn file
  `"A"`, message `"B"` → `"AB\n"`, `B` FINished); `fin_owns_line_unreadable_partial` — what still holds for unreadable files.
* `fin_owns_line_excl`   — the same without the fix whenever files are opened with O_EXCL (gzip / rotate-interval).
* `fin_owns_line_partial` — without the fix, plain append mode: under the forced hypothesis that every
  pre-existing and every foreign file is empty or ends in "\n".
* `fin_owns_line_full_false` — the unconditional statement is **false** for the unfixed shape (witness:
  torn tail `"A"`, message `"B"` → file `"AB\n"`, `B` FINished).
* `shared_file_*` — audit C4, two routers appending to one plain file.
-/
namespace Nsq.Props.C19Lines
open Nsq.Model.ToFile Nsq.Proofs.ToFile Nsq.Proofs.ToFileLines

/-- the occurrence `r.m` of a FINished message owns the bytes `[r.off, r.off + |body| + 1)` of the file `r.path`:
the record is there, it starts a line, and it lies inside the fsynced prefix of the decodable bytes -/
def OwnsLine (fs : FS) (r : Rec) : Prop :=
  ∃ f, fs.get r.path = some f ∧
    (f.data.drop r.off).take (line r.m).length = line r.m ∧
    (r.off = 0 ∨ f.data[r.off - 1]? = some 10) ∧
    r.off + (line r.m).length ≤ f.durable

/-- records in the same file do not share a byte -/
def Apart (a b : Rec) : Prop :=
  a.path = b.path → a.off + (line a.m).length ≤ b.off ∨ b.off + (line b.m).length ≤ a.off

/-- **the line-level safety statement**: one record per occurrence in the FIN log (same order), pairwise apart -/
def LinesSafe (fs : FS) (finished : List Msg) : Prop :=
  ∃ rs : List Rec, rs.map (·.m) = finished ∧ (∀ r ∈ rs, OwnsLine fs r) ∧ rs.Pairwise Apart

theorem ownsLine_of_finOk {fs : FS} {r : Rec} (h : FinOk fs r) : OwnsLine fs r := by
  obtain ⟨f, hg, ⟨a, b, hd, ho, hn⟩, hdur⟩ := h
  refine ⟨f, hg, ?_, ?_, hdur⟩
  · rw [hd, List.append_assoc, List.drop_left' ho, List.take_left' rfl]
  · cases hn with
    | inl h0 => left; rw [← ho, h0]; rfl
    | inr h1 =>
      obtain ⟨x, hx⟩ := h1
      right
      rw [hd, ← ho, hx]
      simp

theorem linesSafe_of_ownRecs {fs : FS} {fin : List Msg} (h : OwnRecs fs fin) : LinesSafe fs fin := by
  obtain ⟨rf, h1, h2, h3⟩ := h
  exact ⟨rf, h1, fun r hr => ownsLine_of_finOk (h2 r hr), h3⟩

/-- what the environment may do besides the tool. `ext`: another process drops a new file (in mode `nlAll` — the
unfixed tree — it must be "\n"-terminated). `extAppend`: another O_APPEND writer of a plain file the tool may have open
(a second router of the same build: `--filename-format` without `<TOPIC>`) — it appends whole records with one
write(2) each, which is what fix F46 (`Cfg.oneWrite`) makes the tool's routers do; the two-write shape is excluded
here because there the *real* interleaving also lands between the model's two write primitives of one event. -/
def EnvOk (c : Cfg) (nlAll : Bool) : Ev → Prop
  | .ext _ data => nlAll = true → nlEnded data
  | .extAppend _ data => c.oneWrite = true ∧ nlEnded data
  | _ => True

theorem evOk_of_envOk {c : Cfg} {nlAll : Bool} {e : Ev} (h : EnvOk c nlAll e) : EvOk nlAll e := by
  cases e <;> first | exact h | exact h.2 | trivial

/-- **FIN implies an own durable line — tree with fix F47.** Every configuration, every initial directory (torn
tails included), every event list, every fault schedule. Hypothesis, guarded by the shape of `sealTornTail`: on the
committed shape (`sealReadWarns = false`: a failed read of the last byte is a fatal exit) there is none; on the F47b
shape (`sealReadWarns = true`: the failed read is a warning and the file is appended to unsealed) every read of a last
byte succeeds — **every existing file the tool appends to is readable by it** (`ReadsOk io`). -/
theorem fin_owns_line_fixed (c : Cfg) (hfix : c.sealsTail = true) (io : Nat → Fault)
    (hrd : c.sealReadWarns = true → ReadsOk io) (fs0 : FS)
    (evs : List (Ev × Bool)) (henv : ∀ e ∈ evs, EnvOk c false e.1) :
    LinesSafe (run c io (init fs0) evs).fs (run c io (init fs0) evs).finished :=
  linesSafe_of_ownRecs (lines_run io evs _ (Or.inl ⟨hfix, hrd⟩) (fun e he => evOk_of_envOk (henv e he))
    (lines_init false c fs0 (fun h => by cases h))).own

/-- **… committed F47 (/repo efaf20c): unconditional.** Also when files cannot be read (`Fault.rdErr` anywhere in the
schedule): the tool exits before it writes or FINishes anything (`unreadable_torn_file_is_fatal_committed`). -/
theorem fin_owns_line_committed (c : Cfg) (hfix : c.sealsTail = true) (hshape : c.sealReadWarns = false)
    (io : Nat → Fault) (fs0 : FS) (evs : List (Ev × Bool)) (henv : ∀ e ∈ evs, EnvOk c false e.1) :
    LinesSafe (run c io (init fs0) evs).fs (run c io (init fs0) evs).finished :=
  fin_owns_line_fixed c hfix io (fun h => by rw [hshape] at h; cases h) fs0 evs henv

/-- **… F47b (`fixes/F47b_seal_unreadable_file.patch`): partial.** Forced hypothesis `ReadsOk io`: every existing file
the tool re-opens for appending is readable by it. Without it: `fin_owns_line_F47b_full_false`. -/
theorem fin_owns_line_F47b_partial (c : Cfg) (hfix : c.sealsTail = true) (io : Nat → Fault) (hreadable : ReadsOk io)
    (fs0 : FS) (evs : List (Ev × Bool)) (henv : ∀ e ∈ evs, EnvOk c false e.1) :
    LinesSafe (run c io (init fs0) evs).fs (run c io (init fs0) evs).finished :=
  fin_owns_line_fixed c hfix io (fun _ => hreadable) fs0 evs henv

/-- **… without the fix, O_EXCL modes** (gzip or rotate-interval: the tool never re-opens an existing file). -/
theorem fin_owns_line_excl (c : Cfg) (hx : c.excl = true) (io : Nat → Fault) (fs0 : FS)
    (evs : List (Ev × Bool)) (henv : ∀ e ∈ evs, EnvOk c false e.1) :
    LinesSafe (run c io (init fs0) evs).fs (run c io (init fs0) evs).finished :=
  linesSafe_of_ownRecs (lines_run io evs _ (Or.inr (Or.inl hx)) (fun e he => evOk_of_envOk (henv e he))
    (lines_init false c fs0 (fun h => by cases h))).own

/-- **… without the fix, plain append mode: partial.** Forced hypothesis: every pre-existing file and every file
another process drops is empty or ends in "\n" (no writer ever died inside a record, no short write). Holds for every
shape and every fault schedule — in particular under F47b when files are unreadable (`fin_owns_line_unreadable_partial`). -/
theorem fin_owns_line_partial (c : Cfg) (io : Nat → Fault) (fs0 : FS)
    (hfs0 : ∀ p f, fs0.get p = some f → nlEnded f.content)
    (evs : List (Ev × Bool)) (henv : ∀ e ∈ evs, EnvOk c true e.1) :
    LinesSafe (run c io (init fs0) evs).fs (run c io (init fs0) evs).finished :=
  linesSafe_of_ownRecs (lines_run io evs _ (Or.inr (Or.inr rfl)) (fun e he => evOk_of_envOk (henv e he))
    (lines_init true c fs0 (fun _ => hfs0))).own

/-- **Restart.** A later run that starts on the directory an earlier run left behind — killed anywhere, also between
the two writes of a record — with the earlier run's FIN log `fin1` (each entry owning its line in `fs1`): with fix F47
everything either run FINished owns its line at the end. Hypothesis guarded by the shape as in `fin_owns_line_fixed`:
none on the committed shape; under F47b the later run can read the files it re-opens (`ReadsOk io`). -/
theorem restart_keeps_lines (c : Cfg) (hfix : c.sealsTail = true) (io : Nat → Fault)
    (hrd : c.sealReadWarns = true → ReadsOk io) (fs1 : FS) (fin1 : List Msg)
    (h1 : OwnRecs fs1 fin1) (evs : List (Ev × Bool)) (henv : ∀ e ∈ evs, EnvOk c false e.1) :
    LinesSafe (run c io { init fs1 with finished := fin1 } evs).fs
      (run c io { init fs1 with finished := fin1 } evs).finished := by
  obtain ⟨rf, k1, k2, k3⟩ := h1
  have h0 : LI false c { init fs1 with finished := fin1 } := by
    have hcore : Core c { init fs1 with finished := fin1 } rf [] :=
      ⟨k1, fun _ => rfl, k2, fun _ r hr => (by cases hr), (by simpa using k3), fun _ hh => (by simp [init] at hh),
       fun _ hh => (by simp [init] at hh)⟩
    refine ⟨rf, [], hcore, ?_⟩
    intro _ p f _ hpre
    cases hpre with
    | inl hall => cases hall
    | inr ho => simp [init] at ho
  exact linesSafe_of_ownRecs (lines_run io evs _ (Or.inl ⟨hfix, hrd⟩) (fun e he => evOk_of_envOk (henv e he)) h0).own

/-- **Un-FINished messages.** While the tool runs, every written message not yet FINished owns a line too — durable
already, or visible through the open descriptor — apart from every other record (so the FINs after the next `Sync()`
acknowledge distinct lines). Hypothesis guarded by the shape as in `fin_owns_line_fixed` (F47b: `ReadsOk io`). -/
theorem pending_owns_line_fixed (c : Cfg) (hfix : c.sealsTail = true) (io : Nat → Fault)
    (hrd : c.sealReadWarns = true → ReadsOk io) (fs0 : FS)
    (evs : List (Ev × Bool)) (henv : ∀ e ∈ evs, EnvOk c false e.1)
    (hrun : (run c io (init fs0) evs).status = .running) :
    ∃ rf rp : List Rec, rf.map (·.m) = (run c io (init fs0) evs).finished ∧
      rp.map (·.m) = (run c io (init fs0) evs).pending ∧
      (∀ r ∈ rf, OwnsLine (run c io (init fs0) evs).fs r) ∧
      (∀ r ∈ rp, FinOk (run c io (init fs0) evs).fs r ∨ OpenOk c.gzip (run c io (init fs0) evs) r) ∧
      (rp ++ rf).Pairwise Apart := by
  obtain ⟨rf, rp, a, b, d, e, f⟩ := (lines_run io evs _ (Or.inl ⟨hfix, hrd⟩) (fun e he => evOk_of_envOk (henv e he))
    (lines_init false c fs0 (fun h => by cases h))).pending_own hrun
  exact ⟨rf, rp, a, b, fun r hr => ownsLine_of_finOk (d r hr), e, f⟩

/-! ### the unconditional statement is false on the unfixed tree -/

/-- the full statement: no hypothesis on the directory, no foreign activity at all -/
def FinOwnsLineFull (c : Cfg) : Prop :=
  ∀ (io : Nat → Fault) (fs0 : FS) (evs : List (Ev × Bool)), (∀ e ∈ evs, e.1.isExt = false) →
    LinesSafe (run c io (init fs0) evs).fs (run c io (init fs0) evs).finished

/-- plain append mode as shipped: no gzip, no rotation, no work dir, max-in-flight 1, two writes, no sealing -/
def cfgAppend : Cfg := ⟨false, 0, 0, false, false, 1, false, false, false, false, false⟩
def noFault : Nat → Fault := fun _ => .ok
def pT : Path := ⟨true, "t", 0⟩
def mA : Msg := ⟨1, [65]⟩
def mB : Msg := ⟨2, [66]⟩
/-- the directory a run killed between `Write(body)` and `Write("\n")` of message `A` leaves behind -/
def fsTorn : FS := FS.empty.set pT ⟨[65], [], 1⟩
def evB : List (Ev × Bool) := [(.msg mB 0 "t", false)]

/-- the model does leave that directory: SIGKILL before the second write primitive of the record -/
example : ((run cfgAppend (fun k => if k = 2 then .kill else .ok) (init FS.empty) [(.msg mA 0 "t", false)]).fs.get pT).map (·.data)
      = some [65]
    ∧ (run cfgAppend (fun k => if k = 2 then .kill else .ok) (init FS.empty) [(.msg mA 0 "t", false)]).status = .killed := by
  decide

/-- **torn-tail append**: the next run appends behind the torn tail and FINishes `B`; the file reads `"AB\n"` -/
theorem torn_tail_append_witness :
    (run cfgAppend noFault (init fsTorn) evB).finished = [mB] ∧
    (run cfgAppend noFault (init fsTorn) evB).fs.get pT = some ⟨[65, 66, 10], [], 3⟩ ∧
    (run cfgAppend noFault (init fsTorn) evB).fs.dom = [pT, pT, pT, pT] := by decide

theorem domOk_fsTorn : DomOk fsTorn := by
  intro p hp
  by_cases e : p = pT
  · subst e; simp [fsTorn, FS.set]
  · simp [fsTorn, FS.set, FS.empty, e] at hp

/-- a directory whose only file `pT` reads `"AB\n"`: `B` FINished owns no line — `"B\n"` does not start a line in it -/
theorem ab_file_not_safe (fs : FS) (hget : fs.get pT = some ⟨[65, 66, 10], [], 3⟩)
    (honly : ∀ p, fs.get p ≠ none → p = pT) : ¬ LinesSafe fs [mB] := by
  intro ⟨rs, hm, hv, _⟩
  cases rs with
  | nil => simp at hm
  | cons r rest =>
    simp only [List.map_cons, List.cons.injEq] at hm
    obtain ⟨f, hg, hrec, hstart, _⟩ := hv r (List.mem_cons_self ..)
    have hp : r.path = pT := honly r.path (by rw [hg]; simp)
    rw [hp, hget] at hg
    cases hg
    rw [hm.1] at hrec
    simp only [mB, line] at hrec
    match hoff : r.off with
    | 0 => rw [hoff] at hrec; simp at hrec
    | 1 => rw [hoff] at hstart; simp at hstart
    | n + 2 =>
      rw [hoff] at hrec
      have := congrArg List.length hrec
      simp at this
      omega

/-- `B` is FINished but owns no line: the only file is `"AB\n"` and `"B\n"` does not start a line in it -/
theorem torn_tail_append_not_safe :
    ¬ LinesSafe (run cfgAppend noFault (init fsTorn) evB).fs (run cfgAppend noFault (init fsTorn) evB).finished := by
  obtain ⟨hfin, hget, hdom⟩ := torn_tail_append_witness
  rw [hfin]
  apply ab_file_not_safe _ hget
  intro p hp
  have hwf : cfgAppend.WF := Or.inr (by decide)
  have hd := (noOv_run hwf noFault evB _ (noOv_init cfgAppend fsTorn domOk_fsTorn)).dom p hp
  rw [hdom] at hd
  simpa using hd

/-- **the full statement is false for the shipped shape** (plain append mode, no fix F47) -/
theorem fin_owns_line_full_false : ¬ FinOwnsLineFull cfgAppend :=
  fun h => torn_tail_append_not_safe (h noFault fsTorn evB (by decide))

/-- … and with fix F47 — in both accepted shapes of `sealTornTail` — the same run (the file is readable) seals the torn
tail first: the file reads `"A\nB\n"`, `B` owns the second line -/
theorem torn_tail_sealed_with_F47 (w : Bool) :
    (run { cfgAppend with sealsTail := true, sealReadWarns := w } noFault (init fsTorn) evB).finished = [mB] ∧
    (run { cfgAppend with sealsTail := true, sealReadWarns := w } noFault (init fsTorn) evB).fs.get pT
      = some ⟨[65, 10, 66, 10], [], 4⟩ ∧
    LinesSafe (run { cfgAppend with sealsTail := true, sealReadWarns := w } noFault (init fsTorn) evB).fs
      (run { cfgAppend with sealsTail := true, sealReadWarns := w } noFault (init fsTorn) evB).finished :=
  ⟨by cases w <;> decide, by cases w <;> decide,
   fin_owns_line_fixed _ rfl noFault (fun _ t => by simp [noFault]) fsTorn evB
     (fun e he => by simp [evB] at he; subst he; trivial)⟩

/-! ### round 11: the file cannot be read (write-only file, drop-box permissions) — committed F47 vs. follow-up F47b -/

/-- every existing file is unreadable: each read of a last byte fails (all other calls succeed) -/
def unreadable : Nat → Fault := fun _ => .rdErr
/-- plain append mode on the tree with F46 + F47, `sealTornTail` as committed -/
def cfgCommitted : Cfg := { cfgAppend with oneWrite := true, sealsTail := true }
/-- … and with the follow-up F47b -/
def cfgWarns : Cfg := { cfgCommitted with sealReadWarns := true }

/-- **committed F47, unreadable torn file `"A"`, message `"B"`**: the tool exits (`os.Exit(1)` in `updateFile`), nothing
is FINished, the file is unchanged (so `fin_owns_line_committed` has nothing to excuse) -/
theorem unreadable_torn_file_is_fatal_committed :
    (run cfgCommitted unreadable (init fsTorn) evB).status = .fatalExit ∧
    (run cfgCommitted unreadable (init fsTorn) evB).finished = [] ∧
    (run cfgCommitted unreadable (init fsTorn) evB).fs.get pT = some ⟨[65], [], 1⟩ := by decide

/-- **F47b, the same scenario**: warning, the record is appended to the torn tail: the file reads `"AB\n"`, `B` is
FINished, the tool keeps running -/
theorem unreadable_torn_file_witness :
    (run cfgWarns unreadable (init fsTorn) evB).status = .running ∧
    (run cfgWarns unreadable (init fsTorn) evB).finished = [mB] ∧
    (run cfgWarns unreadable (init fsTorn) evB).fs.get pT = some ⟨[65, 66, 10], [], 3⟩ ∧
    (run cfgWarns unreadable (init fsTorn) evB).fs.dom = [pT, pT, pT] := by decide

theorem unreadable_torn_file_not_safe :
    ¬ LinesSafe (run cfgWarns unreadable (init fsTorn) evB).fs (run cfgWarns unreadable (init fsTorn) evB).finished := by
  obtain ⟨_, hfin, hget, hdom⟩ := unreadable_torn_file_witness
  rw [hfin]
  apply ab_file_not_safe _ hget
  intro p hp
  have hwf : cfgWarns.WF := Or.inr (by decide)
  have hd := (noOv_run hwf unreadable evB _ (noOv_init cfgWarns fsTorn domOk_fsTorn)).dom p hp
  rw [hdom] at hd
  simpa using hd

/-- **under F47b the unconditional statement is false**: without `ReadsOk` the torn tail of an unreadable file is
appended to (what F47b deliberately trades for not dying on a write-only file) -/
theorem fin_owns_line_F47b_full_false : ¬ FinOwnsLineFull cfgWarns :=
  fun h => unreadable_torn_file_not_safe (h unreadable fsTorn evB (by decide))

/-- … while for the committed shape it is true (`FinOwnsLineFull` has no foreign activity, so `EnvOk` is trivial) -/
theorem fin_owns_line_committed_full (c : Cfg) (hfix : c.sealsTail = true) (hshape : c.sealReadWarns = false) :
    FinOwnsLineFull c := by
  intro io fs0 evs hne
  apply fin_owns_line_committed c hfix hshape io fs0 evs
  intro e he
  have := hne e he
  cases hev : e.1 with
  | ext p d => rw [hev] at this; cases this
  | extAppend p d => rw [hev] at this; cases this
  | _ => trivial

/-- **what still holds under F47b when files are unreadable** (any fault schedule, `unreadable` included): if every
pre-existing file and every file another process drops is empty or ends in "\n", every FINished message owns its line.
Instance of `fin_owns_line_partial`; together with `fin_owns_line_F47b_partial` the hypothesis of the tree's guarantee
reads: *every existing file the tool appends to is readable by it, or is empty / newline-terminated*. -/
theorem fin_owns_line_unreadable_partial (c : Cfg) (_hshape : c.sealReadWarns = true) (io : Nat → Fault) (fs0 : FS)
    (hfs0 : ∀ p f, fs0.get p = some f → nlEnded f.content)
    (evs : List (Ev × Bool)) (henv : ∀ e ∈ evs, EnvOk c true e.1) :
    LinesSafe (run c io (init fs0) evs).fs (run c io (init fs0) evs).finished :=
  fin_owns_line_partial c io fs0 hfs0 evs henv

/-! ### audit C4: two routers, one plain file (`--filename-format` without `<TOPIC>`) -/

/-- the other router's appends, seen from this router. Unfixed build: its body and its "\n" are two write(2) calls -/
def evShared : List (Ev × Bool) :=
  [(.msg mA 0 "t", false),              -- this router opens the file, writes "A", "\n", fsyncs, FINishes A
   (.extAppend pT [67], false),         -- the other router writes the body "C" of its message
   (.msg mB 0 "t", false),              -- this router writes "B", "\n", fsyncs, FINishes B
   (.extAppend pT [10], false)]         -- the other router's "\n"

/-- **two unfixed routers tear each other's records** (also with fix F47 alone): the file reads `"A\nCB\n\n"`, `B` is
FINished and `"B\n"` does not start a line. The other router is the same build, so its appends are *not* whole records
(`EnvOk` fails for them). -/
theorem shared_file_unfixed_witness :
    (run { cfgAppend with sealsTail := true } noFault (init FS.empty) evShared).finished = [mB, mA] ∧
    (run { cfgAppend with sealsTail := true } noFault (init FS.empty) evShared).fs.get pT =
      some ⟨[65, 10, 67, 66, 10, 10], [], 5⟩ ∧
    ¬ EnvOk { cfgAppend with sealsTail := true } false (.extAppend pT [67]) := by
  refine ⟨by decide, by decide, ?_⟩
  intro h
  exact absurd h.1 (by decide)

/-- **with fix F46 the line-level statement survives a second writer**: every router writes each record with one
O_APPEND write(2), so what the other router appends is a sequence of whole records (`EnvOk`), and with F47 (or O_EXCL,
where files are never shared) every FINished message owns its line. Instance of `fin_owns_line_fixed`, with its
shape-guarded hypothesis (F47b: `ReadsOk io`, the shared file is readable by this router). -/
theorem shared_file_lines_fixed (c : Cfg) (h46 : c.oneWrite = true) (h47 : c.sealsTail = true) (io : Nat → Fault)
    (hrd : c.sealReadWarns = true → ReadsOk io) (fs0 : FS) (evs : List (Ev × Bool))
    (henv : ∀ e ∈ evs, match e.1 with
      | .extAppend _ d => nlEnded d
      | _ => True) :
    LinesSafe (run c io (init fs0) evs).fs (run c io (init fs0) evs).finished := by
  apply fin_owns_line_fixed c h47 io hrd fs0 evs
  intro e he
  have := henv e he
  cases hev : e.1 with
  | extAppend p d => rw [hev] at this; exact ⟨h46, this⟩
  | ext p d => intro hh; cases hh
  | _ => trivial

/-- the configuration of THIS tree: whatever the operator's options `c`, the three shape parameters are the Bools
computed from the regenerated skeletons of `router()` / `updateFile()` / `sealTornTail()` (`Tie.ToolsToFile.routerOneWrite`,
`updateFileSeals`, `sealReadWarns`) -/
def treeCfg (c : Cfg) : Cfg :=
  { c with oneWrite := Nsq.Tie.ToolsToFile.routerOneWrite, sealsTail := Nsq.Tie.ToolsToFile.updateFileSeals,
           sealReadWarns := Nsq.Tie.ToolsToFile.sealReadWarns }

/-- **THIS tree** (F46 = /repo 85f4c48, F47 = /repo efaf20c and F47b = /repo 73f7348 are committed; audit B12): the ties
accept only the fixed skeletons of `router()` / `updateFile()` / `sealTornTail()` and decide all three Bools `true`
(`tree_one_write`, `tree_seals_tail`, `tree_seal_read_warns`). For every option set, every initial directory (torn tails
included), every event list in which other writers append whole records, and every fault schedule **in which every
existing file the tool re-opens for appending is readable by it** (`ReadsOk io`), every FINished message owns a line.
*Partial*: the hypothesis is forced — without it the statement is false on this tree (`fin_owns_line_F47b_full_false`:
unreadable torn `"A"` + message `"B"` → `"AB\n"`, `B` FINished, the operator is warned); for unreadable files that are
empty / newline-terminated: `fin_owns_line_unreadable_partial`.
A tree that reverts F46, F47 or F47b fails `tree_one_write` / `tree_seals_tail` / `tree_seal_read_warns` and this theorem
with it. -/
theorem fin_owns_line_this_tree_partial (c : Cfg) (io : Nat → Fault)
    (hreadable : ReadsOk io) (fs0 : FS) (evs : List (Ev × Bool))
    (henv : ∀ e ∈ evs, match e.1 with
      | .extAppend _ d => nlEnded d
      | _ => True) :
    LinesSafe (run (treeCfg c) io (init fs0) evs).fs (run (treeCfg c) io (init fs0) evs).finished :=
  shared_file_lines_fixed (treeCfg c) Nsq.Tie.ToolsToFile.tree_one_write Nsq.Tie.ToolsToFile.tree_seals_tail
    io (fun _ => hreadable) fs0 evs henv

/-! ### non-vacuity -/

/-- the tree's configuration of the plain-append options is the fully fixed one, in the F47b shape -/
example : treeCfg cfgAppend = cfgWarns := by
  simp [treeCfg, cfgWarns, cfgCommitted, cfgAppend, Nsq.Tie.ToolsToFile.tree_one_write, Nsq.Tie.ToolsToFile.tree_seals_tail,
    Nsq.Tie.ToolsToFile.tree_seal_read_warns]
/-- … so the full statement is false for the tree's configuration: the hypothesis of `…_this_tree_partial` is forced -/
example : ¬ FinOwnsLineFull (treeCfg cfgAppend) := by
  have h : treeCfg cfgAppend = cfgWarns := by
    simp [treeCfg, cfgWarns, cfgCommitted, cfgAppend, Nsq.Tie.ToolsToFile.tree_one_write,
      Nsq.Tie.ToolsToFile.tree_seals_tail, Nsq.Tie.ToolsToFile.tree_seal_read_warns]
  rw [h]; exact fin_owns_line_F47b_full_false
/-- the hypotheses of `fin_owns_line_this_tree_partial` / `fin_owns_line_F47b_partial` are satisfiable (a schedule with stops and
write errors but no read error) and `ReadsOk` is what the F47b witness violates -/
example : ReadsOk noFault ∧ ReadsOk (fun k => if k = 2 then .kill else if k = 5 then .err else .ok) ∧ ¬ ReadsOk unreadable :=
  ⟨fun t => by simp [noFault], fun t => by show (if t = 2 then Fault.kill else if t = 5 then Fault.err else Fault.ok) ≠ .rdErr; (repeat' split) <;> simp, fun h => h 0 rfl⟩
/-- `fin_owns_line_committed` / `fin_owns_line_F47b_partial` / `fin_owns_line_unreadable_partial`: their configurations -/
example : cfgCommitted.sealsTail = true ∧ cfgCommitted.sealReadWarns = false ∧ cfgWarns.sealsTail = true ∧
    cfgWarns.sealReadWarns = true ∧ cfgWarns.excl = false := by decide
/-- F47b on an unreadable but newline-terminated file: appended to unsealed, and that is fine -/
example : (run cfgWarns unreadable (init (FS.empty.set pT ⟨[65, 10], [], 2⟩)) evB).finished = [mB] ∧
    (run cfgWarns unreadable (init (FS.empty.set pT ⟨[65, 10], [], 2⟩)) evB).fs.get pT = some ⟨[65, 10, 66, 10], [], 4⟩ := by
  decide
/-- F47b on a readable torn file with a failing WRITE of the newline: fatal in both shapes, nothing FINished -/
example : (run cfgWarns (fun k => if k = 1 then .err else .ok) (init fsTorn) evB).status = .fatalExit ∧
    (run cfgWarns (fun k => if k = 1 then .err else .ok) (init fsTorn) evB).finished = [] ∧
    (run cfgCommitted (fun k => if k = 1 then .err else .ok) (init fsTorn) evB).status = .fatalExit := by decide
/-- an unreadable EMPTY file is not read at all (`f.filesize > 0`): no exit on the committed shape -/
example : (run cfgCommitted unreadable (init (FS.empty.set pT ⟨[], [], 0⟩)) evB).finished = [mB] := by decide
/-- restart / pending / shared-file theorems: their guarded hypothesis is dischargeable on both shapes -/
example : (cfgCommitted.sealReadWarns = true → ReadsOk unreadable) ∧ (cfgWarns.sealReadWarns = true → ReadsOk noFault) :=
  ⟨fun h => by simp [cfgCommitted, cfgAppend] at h, fun _ t => by simp [noFault]⟩

/-- whole-record interleaving of two fixed routers: `"C\n"` by the other router, `"B\n"` by this one, `"D\n"` … -/
def cfgFixed : Cfg := cfgCommitted
def evSharedFixed : List (Ev × Bool) :=
  [(.ext pT [], false), (.extAppend pT [67, 10], false), (.msg mB 0 "t", false), (.extAppend pT [68, 10], false),
   (.msg mA 0 "t", false)]
example : (run cfgFixed noFault (init FS.empty) evSharedFixed).finished = [mA, mB] ∧
    ((run cfgFixed noFault (init FS.empty) evSharedFixed).fs.get pT).map (·.data) =
      some [67, 10, 66, 10, 68, 10, 65, 10] := by decide
example : ∀ e ∈ evSharedFixed, EnvOk cfgFixed false e.1 := by
  intro e he
  simp only [evSharedFixed, List.mem_cons, List.mem_nil_iff, or_false] at he
  rcases he with rfl | rfl | rfl | rfl | rfl
  · intro h; cases h
  · exact ⟨rfl, Or.inr ⟨[67], rfl⟩⟩
  · trivial
  · exact ⟨rfl, Or.inr ⟨[68], rfl⟩⟩
  · trivial
/-- `LinesSafe` is not `True`: one record cannot back two FINished occurrences (the infix `Safe` accepted this) -/
example : ¬ LinesSafe (FS.empty.set pT ⟨[66, 10], [], 2⟩) [mB, ⟨3, [66]⟩] := by
  intro ⟨rs, hm, hv, hp⟩
  match rs, hm with
  | [r1, r2], hm =>
    simp only [List.map_cons, List.map_nil, List.cons.injEq, and_true] at hm
    obtain ⟨f1, hg1, hrec1, _, _⟩ := hv r1 (by simp)
    obtain ⟨f2, hg2, hrec2, _, _⟩ := hv r2 (by simp)
    have hp1 : r1.path = pT := by
      by_cases e : r1.path = pT
      · exact e
      · simp [FS.set, FS.empty, e] at hg1
    have hp2 : r2.path = pT := by
      by_cases e : r2.path = pT
      · exact e
      · simp [FS.set, FS.empty, e] at hg2
    rw [hp1] at hg1; rw [hp2] at hg2
    simp at hg1 hg2
    subst hg1; subst hg2
    rw [hm.1] at hrec1; rw [hm.2] at hrec2
    have o1 : r1.off = 0 := by
      match h : r1.off with
      | 0 => rfl
      | n + 1 => rw [h] at hrec1; have := congrArg List.length hrec1; simp [line, mB] at this; omega
    have o2 : r2.off = 0 := by
      match h : r2.off with
      | 0 => rfl
      | n + 1 => rw [h] at hrec2; have := congrArg List.length hrec2; simp [line] at this; omega
    have hap := (List.pairwise_cons.mp hp).1 r2 (by simp) (by rw [hp1, hp2])
    rw [o1, o2, hm.1, hm.2] at hap
    simp [line, mB] at hap
  | [], hm => simp at hm
  | [_], hm => simp at hm
  | _ :: _ :: _ :: _, hm => simp at hm
/-- an empty body needs its own "\n" at a line start: the "\n" that ends another record does not count -/
example : ¬ OwnsLine (FS.empty.set pT ⟨[66, 10], [], 2⟩) ⟨⟨4, []⟩, pT, 1⟩ := by
  intro ⟨f, hg, _, hstart, _⟩
  simp at hg; subst hg
  simp at hstart
/-- the hypothesis of `fin_owns_line_partial` is satisfiable and is what the witness violates -/
example : ∀ p f, (FS.empty.set pT ⟨[65, 10], [], 2⟩).get p = some f → nlEnded f.content := by
  intro p f h
  by_cases e : p = pT
  · subst e; simp at h; subst h; exact Or.inr ⟨[65], rfl⟩
  · simp [FS.set, FS.empty, e] at h
example : ¬ nlEnded (File.content ⟨[65], [], 1⟩) := by
  intro h
  cases h with
  | inl h => simp [File.content] at h
  | inr h =>
    obtain ⟨a, ha⟩ := h
    have h2 := congrArg List.getLast? ha
    simp [File.content] at h2
example : cfgAppend.excl = false ∧ (⟨true, 0, 0, false, false, 1, true, false, false, false, false⟩ : Cfg).excl = true := by decide

end Nsq.Props.C19Lines
