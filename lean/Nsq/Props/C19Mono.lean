import Nsq.Props.C19Ops
import Nsq.Proofs.ToFileTrack
/-!
# C19 — step-wise "no overwrite" and the tool over whole runs (audit round 7, item C29)

`Nsq.Props.C19.no_overwrite` is anchored at the directory the tool started with (`fs0`): it says nothing about files
that appear later — created by other processes (`Ev.ext`) or by the tool itself. Here the anchor is the directory
after *any prefix* of the run: every file that exists then keeps its name and its bytes as a prefix for the rest of
the run, and with O_EXCL every file that is not behind the open descriptor stays byte-identical.
Files in a separate *work* dir may be appended to (plain append mode) and are moved to the output dir by the tool:
`files_grow_or_move` covers them too — between any two points of a run every file is still there with its old bytes as
a prefix, under its name or moved work dir → output dir (no `Cfg.WF`, no finiteness needed).

`toolRun` lifts the tool-level step (router behind go-nsq's `max_attempts` give-up) to a list of deliveries; the
decision `tool_safe_iff` is restated over whole runs.
-/
namespace Nsq.Props.C19Mono
open Nsq.Model.ToFile Nsq.Proofs.ToFile Nsq.Props.C19 Nsq.Props.C19Ops

/-- the anchor after a prefix of the run: everything that exists, minus (O_EXCL only) the file behind `f.out` -/
def anchor (c : Cfg) (st : St) : FS := if c.excl = true ∧ st.hasOut = true then st.fs.del st.outPath else st.fs

theorem noOv_anchor {c : Cfg} {fs0 : FS} {st : St} (h : NoOv c fs0 st) : NoOv c (anchor c st) st := by
  unfold anchor
  by_cases hx : c.excl = true ∧ st.hasOut = true
  · rw [if_pos hx]
    refine ⟨?_, ?_, fun _ _ => by simp, h.wd, h.dom, h.nodiv⟩
    · intro p f0 hp _
      by_cases e : p = st.outPath
      · subst e; simp at hp
      · rw [get_del_ne _ _ _ e] at hp; exact ⟨f0, hp, FileLe_refl f0⟩
    · intro _ p f0 hp
      by_cases e : p = st.outPath
      · subst e; simp at hp
      · rw [get_del_ne _ _ _ e] at hp; exact hp
  · rw [if_neg hx]
    refine ⟨fun p f0 hp _ => ⟨f0, hp, FileLe_refl f0⟩, fun _ p f0 hp => hp, ?_, h.wd, h.dom, h.nodiv⟩
    intro hxe hho; exact absurd ⟨hxe, hho⟩ hx

/-- **No overwrite, step-wise.** Split any run at any point (`before ++ after`). Every file that exists after
`before` — pre-existing, dropped by another process, or created by the tool itself — (in O_EXCL modes: except the one
behind the open descriptor) still has its name at the end if it is in the output dir (or there is no separate work
dir), with its old bytes as a prefix; and in O_EXCL modes (gzip / rotate-interval) it is byte-identical, work dir
included. Every configuration `computeFilenameFormat` accepts, every fault schedule, foreign files and appends allowed. -/
theorem no_overwrite_stepwise (c : Cfg) (hwf : c.WF) (io : Nat → Fault) (fs0 : FS) (hdom : DomOk fs0)
    (before after : List (Ev × Bool)) (p : Path) (f : File)
    (hp : (run c io (init fs0) before).fs.get p = some f)
    (hopen : c.excl = true → ¬ ((run c io (init fs0) before).hasOut = true ∧ p = (run c io (init fs0) before).outPath)) :
    (p.out = true ∨ c.workDir = false →
      ∃ f', (run c io (init fs0) (before ++ after)).fs.get p = some f' ∧ (∃ x, f'.data = f.data ++ x) ∧ f.durable ≤ f'.durable) ∧
    (c.excl = true → (run c io (init fs0) (before ++ after)).fs.get p = some f) := by
  have hmid := noOv_run hwf io before _ (noOv_init c fs0 hdom)
  have h := noOv_run hwf io after _ (noOv_anchor hmid)
  rw [run_append]
  have hpa : (anchor c (run c io (init fs0) before)).get p = some f := by
    unfold anchor
    by_cases hx : c.excl = true ∧ (run c io (init fs0) before).hasOut = true
    · rw [if_pos hx]
      have e : p ≠ (run c io (init fs0) before).outPath := fun e => hopen hx.1 ⟨hx.2, e⟩
      rw [get_del_ne _ _ _ e]; exact hp
    · rw [if_neg hx]; exact hp
  exact ⟨fun hk => h.keep p f hpa hk, fun hx => h.excl hx p f hpa⟩

/-- in append mode (no O_EXCL) the statement covers the file behind the open descriptor too -/
theorem no_overwrite_stepwise_append (c : Cfg) (hwf : c.WF) (hx : c.excl = false) (io : Nat → Fault) (fs0 : FS)
    (hdom : DomOk fs0) (before after : List (Ev × Bool)) (p : Path) (f : File)
    (hp : (run c io (init fs0) before).fs.get p = some f) (hk : p.out = true ∨ c.workDir = false) :
    ∃ f', (run c io (init fs0) (before ++ after)).fs.get p = some f' ∧ (∃ x, f'.data = f.data ++ x) ∧ f.durable ≤ f'.durable :=
  (no_overwrite_stepwise c hwf io fs0 hdom before after p f hp (fun h => by rw [hx] at h; cases h)).1 hk

/-- **Nothing is lost, step-wise, work dir included.** Split any run at any point. Every file that exists after
`before` — pre-existing, dropped by another process, created by the tool; output dir or work dir; open or closed —
exists at the end with its old decodable bytes as a prefix and at least its old durable length, under the same name or
(a work-dir file) moved by the tool into the output dir. Every configuration, event list, fault schedule. -/
theorem files_grow_or_move (c : Cfg) (io : Nat → Fault) (fs0 : FS) (before after : List (Ev × Bool)) (p : Path) (f : File)
    (hp : (run c io (init fs0) before).fs.get p = some f) :
    ∃ q f', (run c io (init fs0) (before ++ after)).fs.get q = some f' ∧ (∃ x, f'.data = f.data ++ x) ∧
      f.durable ≤ f'.durable ∧ (q = p ∨ (p.out = false ∧ q.out = true)) := by
  rw [run_append]
  obtain ⟨q, f', hq, hle, hmv⟩ :=
    Nsq.Proofs.ToFileTrack.grown_run io after _ (inv_run io before _ (inv_init c fs0)) p f hp
  exact ⟨q, f', hq, hle.1, hle.2, hmv⟩

/-- … and without a separate work dir nothing is ever renamed: the name is kept -/
theorem files_grow_in_place (c : Cfg) (hwd : c.workDir = false) (io : Nat → Fault) (fs0 : FS) (before after : List (Ev × Bool))
    (p : Path) (f : File) (hp : (run c io (init fs0) before).fs.get p = some f) (hpo : p.out = true) :
    ∃ f', (run c io (init fs0) (before ++ after)).fs.get p = some f' ∧ (∃ x, f'.data = f.data ++ x) ∧ f.durable ≤ f'.durable := by
  have _ := hwd
  obtain ⟨q, f', hq, hx, hd, hmv⟩ := files_grow_or_move c io fs0 before after p f hp
  cases hmv with
  | inl e => subst e; exact ⟨f', hq, hx, hd⟩
  | inr m => rw [hpo] at m; cases m.1

/-! ### the tool over a whole run of deliveries -/

/-- one delivery: message, attempts counter of that delivery, clock reading, file name, `IsStarved` -/
structure Delivery where
  m : Msg
  attempts : Nat
  now : Int
  fn : String
  starved : Bool

/-- the tool (router behind go-nsq's `handlerLoop`) over a list of deliveries -/
def toolRun (c : Cfg) (io : Nat → Fault) (k : Nat) (st : St) : List Delivery → St
  | [] => st
  | d :: ds => toolRun c io k (toolStep c io k st d.m d.attempts d.now d.fn d.starved) ds

/-- tool-level safety over runs, consumer configured with `max_attempts = k` -/
def toolRunSafeAt (k : Nat) : Prop :=
  ∀ (c : Cfg) (io : Nat → Fault) (st : St), Inv c st → ∀ (ds : List Delivery),
    ∀ x ∈ (toolRun c io k st ds).finished, Safe (toolRun c io k st ds).fs (line x)

theorem toolStep_eq_step (c : Cfg) (io : Nat → Fault) (k : Nat) (st : St) (d : Delivery)
    (hno : shouldFail k d.attempts = false) :
    toolStep c io k st d.m d.attempts d.now d.fn d.starved = step c io st (.msg d.m d.now d.fn) d.starved := by
  unfold toolStep
  by_cases hr : st.status ≠ .running
  · rw [if_pos hr]; unfold step; rw [if_pos hr]
  · rw [if_neg hr, hno]; simp

/-- **partial, over runs**: if the library gives up on none of the deliveries, every FINished message of the whole
run is safe on disk (the tool run *is* a router run) -/
theorem tool_run_fin_implies_durable_partial (c : Cfg) (io : Nat → Fault) (k : Nat) (st : St) (hinv : Inv c st)
    (ds : List Delivery) (hno : ∀ d ∈ ds, shouldFail k d.attempts = false) :
    ∀ x ∈ (toolRun c io k st ds).finished, Safe (toolRun c io k st ds).fs (line x) := by
  induction ds generalizing st with
  | nil => exact fun x hx => safe_of_durS (hinv.fin x hx)
  | cons d ds ih =>
    unfold toolRun
    rw [toolStep_eq_step c io k st d (hno d (List.mem_cons_self ..))]
    exact ih _ (inv_step io st _ d.starved hinv) (fun d' hd' => hno d' (List.mem_cons_of_mem _ hd'))

theorem tool_run_safe_without_giveup : toolRunSafeAt 0 :=
  fun c io st hinv ds => tool_run_fin_implies_durable_partial c io 0 st hinv ds (fun _ _ => by simp [shouldFail])

theorem tool_run_unsafe_with_giveup (k : Nat) (hk : 0 < k) : ¬ toolRunSafeAt k := by
  intro h
  apply tool_unsafe_with_giveup k hk
  intro c io st hinv m attempts now fn starved
  exact h c io st hinv [⟨m, attempts, now, fn, starved⟩]

/-- **decision over whole runs**: whatever the tool FINishes along any list of deliveries is safe on disk iff the
consumer library is configured never to give up -/
theorem tool_run_safe_iff (k : Nat) : toolRunSafeAt k ↔ k = 0 := by
  constructor
  · intro h
    cases k with
    | zero => rfl
    | succ n => exact absurd h (tool_run_unsafe_with_giveup (n + 1) (Nat.succ_pos n))
  · rintro rfl; exact tool_run_safe_without_giveup

theorem shipped_tool_run_safe_iff :
    toolRunSafeAt Nsq.Gen.ToolsToFileFn.toFileMaxAttempts ↔ Nsq.Gen.ToolsToFileFn.toFileMaxAttempts = 0 :=
  tool_run_safe_iff _

/-! ### non-vacuity -/

/-- a run with several deliveries: attempts 1, 1, then a 6th attempt of an unwritten message with max_attempts 5 -/
def ds3 : List Delivery :=
  [⟨⟨1, [104]⟩, 1, 100, "t<REV>.log", false⟩, ⟨⟨2, [105]⟩, 1, 200, "t<REV>.log", false⟩, ⟨⟨3, [106]⟩, 6, 300, "t<REV>.log", false⟩]
example : ((toolRun cfgPlain noFault 0 (init FS.empty) ds3).finished.map (·.id)) = [2, 3, 1] := by decide
/-- message 3 is FINished by the library although only 1 and 2 were ever written -/
example : ((toolRun cfgPlain noFault 5 (init FS.empty) ds3).finished.map (·.id)) = [3, 1]
    ∧ ((toolRun cfgPlain noFault 5 (init FS.empty) ds3).fs.get ⟨true, "t<REV>.log", 0⟩).map (·.data) = some [104, 10, 105, 10] := by
  decide
example : ∀ d ∈ ds3, shouldFail 0 d.attempts = false := by decide
/-- the step-wise statement protects a file another process dropped mid-run and the tool's own closed file -/
def evA : List (Ev × Bool) := [(.msg m1 100 "t<REV>.log", false), (.hup, false), (.ext ⟨true, "x", 0⟩ [9], false)]
example : ((run cfgGzWork noFault (init FS.empty) evA).fs.get ⟨true, "x", 0⟩) = some ⟨[9], [], 1⟩
    ∧ ((run cfgGzWork noFault (init FS.empty) evA).fs.get ⟨true, "t<REV>.log", 0⟩).isSome = true
    ∧ (run cfgGzWork noFault (init FS.empty) evA).hasOut = true := by decide
example : DomOk FS.empty := fun _ hp => absurd rfl hp
/-- a work file really is moved: after the message it is `w/…`, after the HUP `o/…` with the same bytes -/
example : ((run cfgGzWork noFault (init FS.empty) [(.msg m1 100 "t<REV>.log", false)]).fs.get ⟨false, "t<REV>.log", 0⟩).map (·.data)
      = some [104, 105, 10]
    ∧ ((run cfgGzWork noFault (init FS.empty) [(.msg m1 100 "t<REV>.log", false), (.hup, false)]).fs.get ⟨false, "t<REV>.log", 0⟩) = none
    ∧ ((run cfgGzWork noFault (init FS.empty) [(.msg m1 100 "t<REV>.log", false), (.hup, false)]).fs.get ⟨true, "t<REV>.log", 0⟩).map (·.data)
      = some [104, 105, 10] := by decide
/-- … and the exception is real: in O_EXCL mode the open file does change -/
example : ((run cfgGzWork noFault (init FS.empty) [(.msg m1 100 "t<REV>.log", false)]).fs.get ⟨false, "t<REV>.log", 0⟩).map (·.content)
      ≠ ((run cfgGzWork noFault (init FS.empty) [(.msg m1 100 "t<REV>.log", false), (.msg m2 200 "t<REV>.log", false)]).fs.get
          ⟨false, "t<REV>.log", 0⟩).map (·.content) := by decide

end Nsq.Props.C19Mono
