import Nsq.Proofs.MetaLoad
import Nsq.Props.C06
import Nsq.Model.MetaAccept
/-!
# C06 (round 6) — `LoadMetadata` on every file content, persist error paths, temp name, dirlock

Property theorems only (helpers: `Nsq.Proofs.MetaLoad`; model: `Nsq.Model.MetaLoad`). `encoding/json` is the
abstract `Codec`; everything after the decode (name validity, duplicates, pause flags, ephemeral names), the
three outcomes of a start (refuse / fresh / loaded), the error returns of `PersistMetadata`, the random
temporary name and `dirlock` are inside the model.
-/
namespace Nsq.Props.C06Load
open Nsq.Model.FS Nsq.Model.Meta Nsq.Model.MetaLoad Nsq.Proofs.MetaLoad Nsq.Proofs.Meta

variable {β : Type}

/-! ## LoadMetadata -/

/-- Whatever the decoded document holds (invalid, repeated, over-long, `#ephemeral` names, any flags), the maps
after `LoadMetadata` have unique valid topic names, unique valid channel names per topic, the ephemeral flag the
name dictates, and nothing exiting. -/
theorem loadRaw_wf (d : Doc) : WF (loadRaw d) := foldl_wf d [] wf_nil

/-- `LoadMetadata` is total with three outcomes, and a loaded state is well-formed — for every file content. -/
theorem load_outcome_wf (cd : Codec β) (fc : FileContent β) :
    load cd fc = .refuse ∨ load cd fc = .fresh ∨ ∃ m, load cd fc = .loaded m ∧ WF m := by
  cases fc with
  | absent => right; left; rfl
  | unreadable => left; rfl
  | present b =>
    cases hp : cd.parse b with
    | none => left; simp [load, hp]
    | some d => right; right; exact ⟨loadRaw d, by simp [load, hp], loadRaw_wf d⟩

/-- The start is refused exactly when the file cannot be read (other than "does not exist") or `encoding/json`
rejects its content (syntax error, wrong type, empty file, truncated file, the pre-JSON line format). -/
theorem refuse_iff (cd : Codec β) (fc : FileContent β) :
    load cd fc = .refuse ↔ fc = .unreadable ∨ ∃ b, fc = .present b ∧ cd.parse b = none := by
  cases fc with
  | absent => simp [load]
  | unreadable => simp [load]
  | present b =>
    cases hp : cd.parse b with
    | none => simp [load, hp]
    | some d => simp [load, hp]

/-- A missing file is a fresh start (and only a missing file is). -/
theorem fresh_iff (cd : Codec β) (fc : FileContent β) : load cd fc = .fresh ↔ fc = .absent := by
  cases fc with
  | absent => simp [load]
  | unreadable => simp [load]
  | present b => cases hp : cd.parse b <;> simp [load, hp]

/-- Exactly the valid topic names of the document exist afterwards: an invalid name is skipped, a valid one is never
lost — wherever it stands and however often it is repeated. -/
theorem loaded_topics_are_the_valid_names (d : Doc) (t : String) :
    t ∈ (loadRaw d).map (·.name) ↔ ∃ e ∈ d, e.name = t ∧ validName t = true := by
  simpa [loadRaw] using mem_names_foldl d [] t

/-- A pause is never undone by what follows in the file: once a topic is paused after a prefix of the document,
it is paused after the whole document (a later entry of the same name with `paused:false` does NOT unpause). -/
theorem pause_is_sticky (d1 d2 : Doc) (t : String) (h : ∃ x ∈ loadRaw d1, x.name = t ∧ x.paused = true) :
    ∃ x ∈ loadRaw (d1 ++ d2), x.name = t ∧ x.paused = true := by
  have := foldl_keeps_pause d2 t (loadRaw d1) h
  simpa [loadRaw, List.foldl_append, PausedTopic] using this

example : (∃ x ∈ loadRaw [⟨"t", true, []⟩], x.name = "t" ∧ x.paused = true) ∧
    loadRaw ([⟨"t", true, []⟩] ++ [⟨"t", false, []⟩]) = [⟨"t", true, false, false, []⟩] := by decide

/-- On a document with unique valid names the real loop is the idealised loader (`#ephemeral` names in the file
ARE created, as ephemeral objects). -/
theorem load_good_doc (d : Doc) (h : DocGood d) : loadRaw d = d.map loadTopicE := loadRaw_good d h

/-- Loading what `PersistMetadata` wrote for a well-formed state gives that state back (minus its ephemeral
objects, which are never written). Generalises `C06.load_then_snapshot` to the real loop. -/
theorem load_marshal_snapshot (cd : Codec β) (hc : cd.RoundTrip) (m : Mem) (h : WF m) :
    load cd (.present (cd.marshal (snap m))) = .loaded (stripEph m) := by
  have hp := snap_persist m h
  simp only [load, hc (snap m)]
  rw [loadRaw_good _ hp.1, loadE_eq_load _ hp.2, loadDoc_snap m h]

/-- apps/nsqd `Start` = LoadMetadata, then PersistMetadata: for EVERY document the file written right after the
load re-loads to the same persisted state, and re-persisting that writes the same document (fixed point). -/
theorem persist_after_load_fixed_point (d : Doc) :
    loadRaw (snap (loadRaw d)) = stripEph (loadRaw d) ∧
    snap (loadRaw (snap (loadRaw d))) = snap (loadRaw d) := by
  have hw := loadRaw_wf d
  have hp := snap_persist _ hw
  have h1 : loadRaw (snap (loadRaw d)) = loadDoc (snap (loadRaw d)) := by
    rw [loadRaw_good _ hp.1, loadE_eq_load _ hp.2]
  refine ⟨by rw [h1, loadDoc_snap _ hw], ?_⟩
  rw [h1]; exact Nsq.Props.C06.load_then_snapshot _

/-- A refused start leaves everything as it was: no process, the file untouched (apps/nsqd: `logFatal`). -/
theorem refused_start_touches_nothing (cd : Codec β) (fix : Bool) (s s' : Sys β) (b : β)
    (hdead : s.alive = false) (hd : s.fs.dat = some b) (hp : cd.parse b = none)
    (hs : step cd fix s .start = some s') :
    s'.lastStart = .badFile ∧ s'.alive = false ∧ s'.fs = s.fs ∧ load cd (fileOf s.fs) = .refuse := by
  simp [step, hdead, hd, hp] at hs
  subst hs
  exact ⟨rfl, rfl, rfl, by simp [fileOf, hd, load, hp]⟩

/-- A truncated file (a short write that landed in `nsqd.dat`) which `encoding/json` rejects is refused — never
loaded as a smaller state. (With the abstract codec "rejects" is the hypothesis; the harness checks on the real
decoder that every strict prefix of a written document is rejected.) -/
theorem truncated_file_refused (cd : Codec β) (d : Doc) (k : Nat) (h : cd.parse (cd.cut k (cd.marshal d)) = none) :
    load cd (.present (cd.cut k (cd.marshal d))) = .refuse := by
  simp [load, h]

/-- … which is why `dat_absent_or_complete` matters: along every schedule, kill point and number of restarts
`nsqd.dat` is never such a prefix, so `LoadMetadata` never refuses. -/
theorem start_never_refuses (cd : Codec β) (hc : cd.RoundTrip) (fix : Bool) (s : Sys β) (h : Reach cd fix s) :
    load cd (fileOf s.fs) ≠ .refuse := by
  rcases Nsq.Props.C06.dat_absent_or_complete cd fix s h with h0 | ⟨d, _, hd⟩
  · simp [fileOf, h0, load]
  · simp [fileOf, hd, load, hc d]

/-- The full statement: the abstract `start` step of `Model.Meta` (idealised loader) and the real loop agree on
every reachable file. -/
def C06_start_load_exact : Prop :=
  ∀ (β : Type) (cd : Codec β) (fix : Bool) (s : Sys β), cd.RoundTrip → Reach cd fix s → s.alive = false →
    ∃ s', step cd fix s .start = some s' ∧ (load cd (fileOf s.fs)).mem = some s'.mem

/-- It holds when every document the daemon ever wrote has unique valid non-ephemeral names, i.e. when names enter
the live maps only through the `IsValid…Name`-guarded call sites (HTTP and TCP handlers: C09/C10; `LoadMetadata`
itself: `loadRaw_wf`) and the ephemeral flag is the one the name dictates. -/
theorem start_load_exact_partial (cd : Codec β) (hc : cd.RoundTrip) (fix : Bool) (s : Sys β)
    (h : Reach cd fix s) (hdead : s.alive = false) (hnames : ∀ d ∈ s.taken, DocPersist d) :
    ∃ s', step cd fix s .start = some s' ∧ (load cd (fileOf s.fs)).mem = some s'.mem := by
  rcases Nsq.Props.C06.dat_absent_or_complete cd fix s h with h0 | ⟨d, hd1, hd⟩
  · exact ⟨boot s [], by simp [step, hdead, h0], by simp [fileOf, h0, load, LoadRes.mem, boot]⟩
  · refine ⟨boot s (loadDoc d), by simp [step, hdead, hd, hc d], ?_⟩
    have hp := hnames d hd1
    simp [fileOf, hd, load, hc d, LoadRes.mem, boot, loadRaw_good _ hp.1, loadE_eq_load _ hp.2]

/-- a channel name that did not pass `IsValidChannelName` (the only unguarded source on this tree is the channel
list a nsqlookupd returns to `GetTopic`): it is persisted, and skipped by the next start -/
def badNameSchedule : List Step :=
  [.start, .mem (.createTopic "t" false), .mem (.createChan "t" "a b" false), .persist .beginNotify, .persist .read,
   .persist .read, .persist (.openTmp 1), .persist .writeRest, .persist .sync, .persist .rename, .persist .finish, .kill]

def badNameCheck (o : Option (Sys B)) : Bool :=
  match o with
  | some s => !s.alive && (load toyCodec (fileOf s.fs)).mem == some [⟨"t", false, false, false, []⟩] &&
      ((step toyCodec true s .start).map (·.mem)) == some [⟨"t", false, false, false, [⟨"a b", false, false, false⟩]⟩]
  | none => false

/-- Without the hypothesis the full statement is false: the real loop drops the invalid channel, the idealised
loader keeps it. (Observation on nsq: an invalid name that got into the maps does not survive a restart.) -/
theorem start_load_exact_false : ¬ C06_start_load_exact := by
  intro hfull
  have hc : badNameCheck (run toyCodec true Sys.init badNameSchedule) = true := by decide
  cases hr : run toyCodec true Sys.init badNameSchedule with
  | none => simp [hr, badNameCheck] at hc
  | some s =>
    simp only [hr, badNameCheck, Bool.and_eq_true, beq_iff_eq, Bool.not_eq_true'] at hc
    obtain ⟨⟨h1, h2⟩, h3⟩ := hc
    obtain ⟨s', hs, hm⟩ := hfull _ toyCodec true s (fun d => by simp [toyCodec]) ⟨_, hr⟩ h1
    rw [hs] at h3
    simp only [Option.map_some, Option.some.injEq] at h3
    rw [h2, h3] at hm
    simp at hm

/-! ### non-vacuity (LoadMetadata) -/

/-- a hostile document: an invalid topic (with a channel that is skipped with it), a repeated topic (second
occurrence pauses it and adds a channel; its `paused:false` … does not unpause), an invalid, a repeated and an
over-long channel name, ephemeral topic and channel -/
def hostileDoc : Doc :=
  [⟨"a b", true, [⟨"c", false⟩]⟩,
   ⟨"t", false, [⟨"c", true⟩, ⟨"", false⟩, ⟨"c", false⟩, ⟨"d#ephemeral", false⟩]⟩,
   ⟨"t", true, [⟨"e", false⟩, ⟨String.ofList (List.replicate 65 'x'), false⟩, ⟨String.ofList (List.replicate 64 'x'), true⟩]⟩,
   ⟨"t", false, []⟩,
   ⟨"u#ephemeral", false, [⟨"é", false⟩]⟩]

example : loadRaw hostileDoc =
    [⟨"t", true, false, false, [⟨"c", true, false, false⟩, ⟨"d#ephemeral", false, true, false⟩, ⟨"e", false, false, false⟩,
       ⟨String.ofList (List.replicate 64 'x'), true, false, false⟩]⟩,
     ⟨"u#ephemeral", false, true, false, []⟩] := by decide
example : snap (loadRaw hostileDoc) =
    [⟨"t", true, [⟨"c", true⟩, ⟨"e", false⟩, ⟨String.ofList (List.replicate 64 'x'), true⟩]⟩] := by decide
example : (loadRaw hostileDoc).map (·.name) = ["t", "u#ephemeral"] ∧ validName "a b" = false := by decide
example : ¬ DocGood hostileDoc := by
  intro h; have := (h.2 _ (List.mem_cons_self ..)).1; revert this; decide
example : load toyCodec (.present (hostileDoc, none)) = .loaded (loadRaw hostileDoc) := rfl
/-- a truncated file in the toy codec is rejected, the complete one is not -/
example : load toyCodec (.present (toyCodec.cut 3 (toyCodec.marshal hostileDoc))) = .refuse := rfl
example : load toyCodec (.unreadable) = .refuse ∧ load toyCodec (.absent) = .fresh := ⟨rfl, rfl⟩
example : DocGood [⟨"t", true, [⟨"c#ephemeral", true⟩]⟩] ∧ WF [⟨"t", true, false, false, [⟨"c", true, false, false⟩]⟩] := by
  refine ⟨⟨by decide, ?_⟩, ⟨by decide, ?_⟩⟩
  · intro t ht; simp at ht; subst ht; exact ⟨by decide, by decide, by intro c hc; simp at hc; subst hc; decide⟩
  · intro t ht; simp at ht; subst ht
    exact ⟨by decide, by decide, rfl, by decide, by intro c hc; simp at hc; subst hc; decide⟩
/-- the hypotheses of `refused_start_touches_nothing` are met by a dead daemon on a truncated file -/
example : ∃ s', step toyCodec true { (Sys.init : Sys B) with fs := { dat := some ([], some 1), tmps := [] } } .start = some s' ∧
    s'.lastStart = .badFile := ⟨_, rfl, rfl⟩
/-- `start_never_refuses` / `start_load_exact_partial` on the kill-in-the-middle-of-a-write schedule of `Props.C06` -/
example : ((run toyCodec true Sys.init (Nsq.Props.C06.lifeSchedule.take 26)).map
    (fun s => (s.alive, (load toyCodec (fileOf s.fs)).mem))) =
    some (false, some [⟨"t", false, false, false, [⟨"c", false, false, false⟩]⟩]) := by decide

/-! ## PersistMetadata: failing system calls, arbitrary temporary names -/

/-- Whatever fails (open, a short write, fsync, rename) and whatever temporary name was drawn, `nsqd.dat` is
unchanged and the error is returned. (The temporary file may stay behind: harmless, never read.) -/
theorem persist_failure_keeps_dat (cd : Codec β) (fs : FS β) (r : Nat) (d : Doc) (out : POutcome)
    (h : out ≠ .ok) : (persistOnce cd fs r d out).1.dat = fs.dat ∧ (persistOnce cd fs r d out).2 = false := by
  cases out <;> simp_all [persistOnce, FS.setTmp]

/-- A persist that returns nil has put the complete document in `nsqd.dat` — also when the temporary name collides
with a stale temporary file left by an earlier kill or failure (`O_TRUNC`). -/
theorem persist_ok_sets_dat (cd : Codec β) (fs : FS β) (r : Nat) (d : Doc) :
    (persistOnce cd fs r d .ok).1.dat = some (cd.marshal d) ∧ (persistOnce cd fs r d .ok).2 = true :=
  ⟨FS.dat_renameTmp _ r _ (FS.tmp_setTmp fs r _), rfl⟩

/-- `dat_absent_or_complete` under disk faults: after any sequence of persists with any outcomes and any temporary
names, `nsqd.dat` is absent or the complete serialisation of a document that was there before or that one of the
calls wrote — never a prefix. -/
theorem dat_absent_or_complete_under_faults (cd : Codec β) (calls : List PCall) :
    ∀ (fs : FS β) (D : List Doc), (fs.dat = none ∨ ∃ d ∈ D, fs.dat = some (cd.marshal d)) →
      (persistMany cd fs calls).dat = none ∨
      ∃ d ∈ D ++ calls.map (·.d), (persistMany cd fs calls).dat = some (cd.marshal d) := by
  induction calls with
  | nil => intro fs D h; simpa [persistMany] using h
  | cons c rest ih =>
    intro fs D h
    have hstep : (persistOnce cd fs c.r c.d c.out).1.dat = none ∨
        ∃ d ∈ D ++ [c.d], (persistOnce cd fs c.r c.d c.out).1.dat = some (cd.marshal d) := by
      by_cases hok : c.out = .ok
      · right; exact ⟨c.d, by simp, by rw [hok]; exact (persist_ok_sets_dat cd fs c.r c.d).1⟩
      · rw [(persist_failure_keeps_dat cd fs c.r c.d c.out hok).1]
        rcases h with h | ⟨d, hd, he⟩
        · left; exact h
        · right; exact ⟨d, by simp [hd], he⟩
    have := ih _ (D ++ [c.d]) hstep
    simpa [persistMany, List.append_assoc] using this

/-- The temporary name can never be `nsqd.dat` itself (it is longer). -/
theorem tmp_name_never_dat (r : Nat) : tmpName r ≠ "nsqd.dat" := by
  intro h
  have := congrArg String.length h
  simp [tmpName, String.length_append] at this
  have h8 : "nsqd.dat".length = 8 := by decide
  have h9 : "nsqd.dat.".length = 9 := by decide
  have h4 : ".tmp".length = 4 := by decide
  omega

/-- The pause handlers drop `PersistMetadata`'s error: "answered 200 ⇒ the flag is in `nsqd.dat`" as a statement
over disk faults … -/
def C06_pause_ack_under_faults : Prop :=
  ∀ (β : Type) (cd : Codec β) (fs : FS β) (r : Nat) (d : Doc) (out : POutcome),
    pauseAnswer (persistOnce cd fs r d out).2 = 200 → (persistOnce cd fs r d out).1.dat = some (cd.marshal d)

/-- … holds for a persist that succeeded (the quantifier of C06: kills, not disk faults) … -/
theorem pause_ack_under_faults_partial (cd : Codec β) (fs : FS β) (r : Nat) (d : Doc) (out : POutcome)
    (hok : out = .ok) (_h : pauseAnswer (persistOnce cd fs r d out).2 = 200) :
    (persistOnce cd fs r d out).1.dat = some (cd.marshal d) := by
  subst hok; exact (persist_ok_sets_dat cd fs r d).1

/-- … and is false under a disk fault: rename fails, the handler still answers 200, the file has the old flag.
(Observation outside C06's quantifier; replayed on the real code by `TestVerifMetaLoad`, leg `renamefail`.) -/
theorem pause_ack_under_faults_false : ¬ C06_pause_ack_under_faults := by
  intro h
  have := h _ toyCodec FS.empty 1 [⟨"t", true, []⟩] .renameFails rfl
  simp [persistOnce, FS.setTmp, FS.empty] at this

/-! ### non-vacuity (persist) -/
/-- a stale partial temporary file with the same "random" name, a failing write, a failing rename, then a good one -/
example :
    let fs0 : FS B := { dat := some ([], none), tmps := [(7, ([⟨"old", false, []⟩], some 3))] }
    let fs := persistMany toyCodec fs0 [⟨7, [⟨"a", false, []⟩], .writeFails 2⟩, ⟨7, [⟨"b", false, []⟩], .renameFails⟩,
      ⟨8, [⟨"c", false, []⟩], .openFails⟩, ⟨7, [⟨"d", true, []⟩], .ok⟩, ⟨9, [⟨"e", true, []⟩], .syncFails⟩]
    fs.dat = some ([⟨"d", true, []⟩], none) ∧ fs.tmp 7 = none ∧ fs.tmp 9 = some ([⟨"e", true, []⟩], none) := by decide
example : tmpName 42 = "nsqd.dat.42.tmp" := by decide

/-! ## dirlock -/

/-- `New` fails before anything is read or written when the data path does not exist, or when another live process
holds the lock (whatever the path holds). -/
theorem new_fails_without_lock (cd : Codec β) (k : PathKind) (held : Bool) (fc : FileContent β)
    (h : k = .missing ∨ held = true) : startOn cd k held fc = none := by
  rcases h with h | h
  · subst h; rfl
  · subst h; cases k <;> rfl

/-- A data path that is a regular file is NOT refused by `dirlock` (`open` + `flock` work on a file); the start is
refused by `LoadMetadata` (ENOTDIR is not "does not exist"), again before anything is written. -/
theorem regular_file_path_refused_by_load (cd : Codec β) (fc : FileContent β) :
    startOn cd .regularFile false fc = some .refuse := rfl

/-- On a free directory the start is exactly `LoadMetadata` of the file. -/
theorem start_on_free_dir (cd : Codec β) (fc : FileContent β) : startOn cd .dir false fc = some (load cd fc) := rfl

example : startOn toyCodec .dir true (.present (hostileDoc, none)) = none := rfl
example : startOn toyCodec .dir false (.present (hostileDoc, none)) = some (.loaded (loadRaw hostileDoc)) := rfl

end Nsq.Props.C06Load
