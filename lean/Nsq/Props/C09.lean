import Nsq.Proofs.ProtoV2
import Nsq.Proofs.ProtoSpec
import Nsq.Proofs.Names
import Nsq.Proofs.Base10
/-!
# C09 — nsqd TCP protocol: every input gets its defined answer; limits hold

Property theorems only (helper lemmas: `Nsq.Proofs.{ProtoV2,ProtoSpec,Names,Base10,Mpub}`).
The model `Nsq.Model.ProtoV2` (raw byte stream of one connection → reply frames, end of the
connection, connection state, effect on the abstract broker) is tied to `/repo` by the
regenerated facts of `Nsq.Tie.Proto` (dispatch table, every `New(Fatal)ClientErr` call site, limit
comparisons, regex literal) and by the byte-stream correspondence harness `harness/e3`.

Every statement quantifies over ALL byte sequences, all values of the limits in `Conf` (including an
arbitrary JSON decoder `Conf.decode` and arbitrary TLS / auth gate inputs, constant per `Conf`), all
connection states and all broker states — of the BASE model: no consumer limit, no failing backend
write, the gate a constant. The model with those inputs (`Nsq.Model.ProtoEnv`: every step is an
`exec` step under a configuration computed from the connection's authorization state) and the option
preconditions of `messagePump`'s tickers are in `Nsq.Props.C09Audit`.
-/
namespace Nsq.Props.C09
open Nsq.Model.ProtoV2 Nsq.Model.Names Nsq.Model.Base10 Nsq.Model Nsq.Spec.ProtoSpec
open Nsq.Proofs.ProtoV2

/-! ## 1. Totality, no panic -/

/-- For every byte sequence the connection ends because the client closed (`eof`), because the
server closed it (`closed`) or at a negotiated TLS/compression upgrade (`upgraded`, outside the
model) — never in a panic (every `make` is preceded by its range check) and the model never runs
out of fuel. -/
theorem ioLoop_total_no_panic (conf : Conf) (s : ConnState) (bs : Bytes) :
    (ioLoop conf s bs).2 = .eof ∨ (ioLoop conf s bs).2 = .closed ∨ (ioLoop conf s bs).2 = .upgraded :=
  serve_fin conf s [] bs

/-- The same for any broker state the connection runs against. -/
theorem serve_total_no_panic (conf : Conf) (s : ConnState) (b : Broker) (bs : Bytes) :
    (serve conf s b bs).fin = .eof ∨ (serve conf s b bs).fin = .closed ∨ (serve conf s b bs).fin = .upgraded :=
  serve_fin conf s b bs

/-- No single command panics either (`Ctl.panic` marks `make` with a negative size). -/
theorem exec_no_panic (conf : Conf) (s : ConnState) (b : Broker) (ps : List Bytes) (rest : Bytes) :
    (exec conf s b ps rest).ctl ≠ .panic :=
  exec_ctl conf s b ps rest

example : ioLoop Examples.conf Examples.conn (magicV2 ++ ascii "PUB t\n" ++ [0, 0, 0, 1, 97] ++ ascii "NOP\nFOO\n") =
    ([.ok, .err .E_INVALID], .closed) := by decide
example : ioLoop Examples.conf Examples.conn (magicV2 ++ ascii "PUB t\n" ++ [255, 255, 255, 255]) =
    ([.err .E_BAD_MESSAGE], .closed) := by decide
example : ioLoop Examples.conf Examples.conn (ascii "  V1") = ([.err .E_BAD_PROTOCOL], .closed) := by decide

/-! ## 2. Every answer is the documented one -/

/-- Each command is answered as the declarative table `Spec.ProtoSpec.allowed` says: the success
reply exactly when the command instance has no defect; otherwise the documented `E_*` code of one
of its defects, and the connection is closed exactly when that code's class is fatal. The table
judges every defect on its own (no order of checks); the only non-fatal codes are
E_FIN_FAILED / E_REQ_FAILED / E_TOUCH_FAILED. -/
theorem answers_refine_spec (conf : Conf) (s : ConnState) (b : Broker) (ps : List Bytes) (rest : Bytes)
    (hps : ps ≠ []) :
    answer conf s ps rest (exec conf s b ps rest).reply (decide ((exec conf s b ps rest).ctl = .close)) :=
  Nsq.Proofs.ProtoSpec.exec_refines conf s b ps rest hps

/-- `bytes.Split` never hands `Exec` an empty parameter list, so the theorem above applies to every
line the loop reads. -/
theorem split_nonempty (l : Bytes) : splitSp l ≠ [] := Nsq.Proofs.ProtoSpec.splitSp_ne_nil l

/-- The codes and classes an error answer can have, as sets tied to the `New(Fatal)ClientErr` call
sites by `Nsq.Tie.Proto.fatal_codes_have_sites` / `nonfatal_codes_have_sites`. -/
theorem error_codes_and_classes (conf : Conf) (s : ConnState) (b : Broker) (ps : List Bytes) (rest : Bytes) (c : Code)
    (hauth : AuthGateOk conf) (h : (exec conf s b ps rest).reply = some (.err c)) :
    ((exec conf s b ps rest).ctl = .close ∧ c ∈ modelFatal) ∨
    ((exec conf s b ps rest).ctl = .cont ∧ c ∈ modelNonFatal) :=
  exec_codes conf s b ps rest c hauth h

example : answer Examples.conf Examples.conn [cPUB, ascii "bad!"] [0, 0, 0, 1, 97] (some (.err .E_BAD_TOPIC)) true := by
  unfold answer; decide
example : ¬ answer Examples.conf Examples.conn [cPUB, ascii "bad!"] [0, 0, 0, 1, 97] (some .ok) false := by
  unfold answer; decide
example : answer Examples.conf Examples.conn [cPUB, ascii "t"] [0, 0, 0, 1, 97] (some .ok) false := by
  unfold answer; decide
-- a bad name AND a bad size: either documented code is allowed (the table has no order of checks)
example : allowed Examples.conf Examples.conn [cPUB, ascii "bad!"] [0, 0, 0, 0] =
    [(some (.err .E_BAD_TOPIC), true), (some (.err .E_BAD_MESSAGE), true)] := by decide

/-! ## 3. Limits -/

/-- Everything a connection ever gets accepted respects the limits: a publish has a valid topic
name, 1..max-msg-size bytes per message and (MPUB) 1..(max-body-size-4)/5 messages, a deferred
publish a delay in [0, max-req-timeout]; SUB has valid names; RDY is in [0, max-rdy-count]; the
delay handed to a requeue is clamped into [0, max-req-timeout]; the IDENTIFY values are in their
negotiated ranges. -/
theorem limits (conf : Conf) (s : ConnState) (b : Broker) (bs : Bytes) :
    ∀ e ∈ (serve conf s b bs).eff, EffOk conf e :=
  serve_eff conf s b bs

/-- `isValidName` accepts exactly the grammar: 1–64 bytes, a non-empty base over `[.a-zA-Z0-9_-]`
optionally followed by `#ephemeral`. -/
theorem isValidName_iff_grammar (s : Bytes) : isValidName s = true ↔ Grammatical s :=
  Nsq.Proofs.Names.isValidName_iff s

/-- `ByteToBase10` returns the value of the digit string exactly when it fits 64 bits — for every
spelling (leading zeros, any length); anything else is an error, never a wrapped value. -/
theorem number_exact (d : Bytes) (n : Nat) :
    byteToBase10 d = some n ↔ (∀ c ∈ d, IsDigit c) ∧ decVal d 0 = n ∧ n ≤ maxU64 :=
  Nsq.Proofs.Base10.byteToBase10_iff d n

/-- RDY: whatever the spelling of the count, an accepted count IS the number written, and it is
within [0, max-rdy-count] (given the option itself is below 2^63, which int64 guarantees). -/
theorem rdy_exact (conf : Conf) (s : ConnState) (b : Broker) (cmd p : Bytes) (tl : List Bytes) (rest : Bytes)
    (n : Int) (h : (rdy conf s b (cmd :: p :: tl) rest).eff = [.rdy n]) :
    (∀ c ∈ p, IsDigit c) ∧ n = (decVal p 0 : Int) ∧ 0 ≤ n ∧ n ≤ conf.maxRdy :=
  Nsq.Proofs.Base10.rdy_exact conf s b cmd p tl rest n h

/-- DPUB: an accepted delay, whatever its spelling (also beyond 64 bits), is the number written,
in milliseconds, and at most max-req-timeout. -/
theorem dpub_exact (conf : Conf) (s : ConnState) (b : Broker) (cmd t d : Bytes) (tl : List Bytes) (rest : Bytes)
    (ms : List Msg) (hmax : conf.maxReqTimeoutNs < maxI64)
    (h : (dpub conf s b (cmd :: t :: d :: tl) rest).eff = [.enq t ms]) :
    (∀ c ∈ d, IsDigit c) ∧ (decVal d 0 : Int) * 1000000 ≤ conf.maxReqTimeoutNs ∧
      ∀ m ∈ ms, m.deferNs = (decVal d 0 : Int) * 1000000 :=
  Nsq.Proofs.Base10.dpub_exact conf s b cmd t d tl rest ms hmax h

/-- REQ: the delay handed to the channel is min(number written × 1 ms, max-req-timeout), for every
spelling of the number that fits 64 bits (others are E_INVALID). -/
theorem req_clamp (conf : Conf) (s : ConnState) (b : Broker) (cmd id t : Bytes) (tl : List Bytes) (rest : Bytes)
    (ns : Int) (h0 : 0 ≤ conf.maxReqTimeoutNs) (hmax : conf.maxReqTimeoutNs ≤ maxI64)
    (h : (req conf s b (cmd :: id :: t :: tl) rest).eff = [.req id ns]) :
    (∀ c ∈ t, IsDigit c) ∧ ns = min ((decVal t 0 : Int) * 1000000) conf.maxReqTimeoutNs :=
  Nsq.Proofs.Base10.req_clamp conf s b cmd id t tl rest ns h0 hmax h

example : EffOk Examples.conf (.enq (ascii "t") [⟨[97], 0⟩]) := by
  simp [EffOk, MsgOk, Examples.conf]; decide
example : ¬ EffOk Examples.conf (.rdy 8) := by simp [EffOk, Examples.conf]
example : byteToBase10 (ascii "18446744073709551621") = none := by decide
example : byteToBase10 (ascii "007") = some 7 := by decide

/-! ## 4. A fatal error closes only the connection that caused it -/

/-- A command that closes the connection has answered with an error frame, leaves every queue of
the broker as it was (at most a new, empty topic — MPUB with a well-formed name) and has no
effect; the loop stops there: nothing after it on the same connection is executed. -/
theorem fatal_closes_only_self (conf : Conf) (s : ConnState) (b : Broker) (ps : List Bytes) (rest : Bytes)
    (h : (exec conf s b ps rest).ctl = .close) :
    (∃ c, (exec conf s b ps rest).reply = some (.err c)) ∧
      Untouched b (exec conf s b ps rest).broker ∧ (exec conf s b ps rest).eff = [] := by
  obtain ⟨c, hc⟩ := exec_close conf s b ps rest h
  exact ⟨⟨c, hc⟩, exec_err conf s b ps rest c hc⟩

theorem fatal_stops_the_loop (conf : Conf) (fuel : Nat) (s : ConnState) (b : Broker) (bs l rest : Bytes)
    (hl : readLine bs = .line l rest) (h : (exec conf s b (splitSp l) rest).ctl = .close) :
    loop conf (fuel + 1) s b bs = Run.stop (exec conf s b (splitSp l) rest) .closed := by
  rw [loop]
  simp only [hl, h]

/-- BASE MODEL ONLY (audit round 7, B7): in `exec` no reply reads the broker, so this holds by the
construction of the base model — it says nothing about `--max-channel-consumers`, where the real SUB
reads the channel's client count (E_SUB_FAILED). The statement about the real inputs is
`Nsq.Props.C09Audit`: `answers_independent_of_broker_partial` (hypothesis: the option is 0, the
default), `answers_independent_of_broker_full_false` (limit 1: same bytes, OK vs E_SUB_FAILED),
`sub_limit_exact`, `sub_failed_iff_limit`, `answer_reads_broker_only_through_limit`. -/
theorem answers_independent_of_broker_base (conf : Conf) (s : ConnState) (b b' : Broker) (bs : Bytes) :
    rview (serve conf s b bs) = rview (serve conf s b' bs) :=
  serve_indep conf s b b' bs

/-! ## 5. A rejected publish enqueues nothing; MPUB is all-or-nothing -/

/-- Any command answered with an error — fatal or not, PUB/MPUB/DPUB included — enqueues nothing:
the broker is unchanged except possibly for one new topic that is still empty. -/
theorem rejected_publish_enqueues_nothing (conf : Conf) (s : ConnState) (b : Broker) (ps : List Bytes)
    (rest : Bytes) (c : Code) (h : (exec conf s b ps rest).reply = some (.err c)) :
    Untouched b (exec conf s b ps rest).broker ∧ (exec conf s b ps rest).eff = [] :=
  exec_err conf s b ps rest c h

/-- BASE MODEL ONLY (audit round 7, B4): MPUB either enqueues the whole batch it decoded — all
messages, in order, each within the limits — and answers OK, or answers a fatal error and enqueues
nothing. The base model's `publish` cannot fail, which is why this holds; with a failing backend
write the real `Topic.PutMessages` leaves a prefix enqueued: `Nsq.Props.C09Audit`
`mpub_all_or_nothing_partial` (hypothesis: no failing write), `mpub_all_or_nothing_full_false`,
`publish_fault_prefix_exact` (open finding `mpub-partial-on-backend-fault`). -/
theorem mpub_all_or_nothing_base (conf : Conf) (s : ConnState) (b : Broker) (ps : List Bytes) (rest : Bytes) :
    (∃ t n r bodies r2, ps[1]? = some t ∧ readLen rest = some (n, r) ∧ 1 ≤ n ∧ n ≤ conf.maxBodySize ∧
        Mpub.readMPUB conf.maxMsgSize conf.maxBodySize (r.take n.toNat) = .ok bodies r2 ∧
        (mpub conf s b ps rest).reply = some .ok ∧ (mpub conf s b ps rest).ctl = .cont ∧
        (mpub conf s b ps rest).broker = publish b t (toMsgs bodies) ∧
        (mpub conf s b ps rest).eff = [.enq t (toMsgs bodies)] ∧
        (mpub conf s b ps rest).rest = r2 ++ r.drop n.toNat) ∨
    (∃ c, (mpub conf s b ps rest).reply = some (.err c) ∧ (mpub conf s b ps rest).ctl = .close ∧
        Untouched b (mpub conf s b ps rest).broker ∧ (mpub conf s b ps rest).eff = []) :=
  mpub_cases conf s b ps rest

/-- The batch an accepted MPUB decoded is exactly what was on the wire: re-encoding it gives back
the bytes that were consumed. -/
theorem mpub_decodes_the_wire (maxMsg maxBody : Int) (bs : Bytes) (bodies : List Bytes) (r : Bytes)
    (h : Mpub.readMPUB maxMsg maxBody bs = .ok bodies r) : bs = Mpub.encode bodies ++ r :=
  Nsq.Proofs.Mpub.readMPUB_wire maxMsg maxBody bs bodies r h

example : (mpub Examples.conf Examples.conn [] [cMPUB, ascii "t"]
    ([0, 0, 0, 14] ++ Mpub.encode [[97], [98]])).broker =
      [{ name := ascii "t", paused := false, count := 2, msgs := [⟨[97], 0⟩, ⟨[98], 0⟩], chans := [] }] := by
  decide
-- second message has size 0: nothing is enqueued (only the empty topic exists)
example : (mpub Examples.conf Examples.conn [] [cMPUB, ascii "t"]
    ([0, 0, 0, 13, 0, 0, 0, 2, 0, 0, 0, 1, 97, 0, 0, 0, 0])).broker = [emptyTopic (ascii "t")] := by
  decide

/-! ## 6. F10 repaired: the declared MPUB body size bounds the batch

Before `fixes/F10_mpub_body_limit.patch` `readMPUB` read from the connection itself and an MPUB
could take in count × (4 + max-msg-size) bytes whatever size it had declared (witness: declared 1,
batch of 14 bytes accepted). With the reader limited to the declared — and range-checked — size the
full statement holds. -/

/-- The bytes an accepted MPUB consumes after its size field are at most the declared body size,
which itself is within [1, max-body-size]: max-body-size is enforced for every MPUB. -/
theorem mpub_total_le_body_limit (conf : Conf) (s : ConnState) (b : Broker) (ps : List Bytes) (rest : Bytes)
    (n : Int) (r : Bytes) (hl : readLen rest = some (n, r)) (hok : (mpub conf s b ps rest).reply = some .ok) :
    1 ≤ n ∧ n ≤ conf.maxBodySize ∧ ((r.length : Int) - ((mpub conf s b ps rest).rest.length : Int)) ≤ n :=
  mpub_ok_bounds conf s b ps rest n r hl hok

/-- The bound by the limits alone still holds for the shared reader (HTTP passes it its own limit). -/
theorem mpub_consumed_by_limits (maxMsg maxBody : Int) (bs : Bytes) (bodies : List Bytes) (r : Bytes)
    (h : Mpub.readMPUB maxMsg maxBody bs = .ok bodies r) :
    (bs.length - r.length : Int) ≤ 4 + Mpub.maxMessages maxBody * (4 + maxMsg) :=
  Nsq.Proofs.Mpub.readMPUB_consumed maxMsg maxBody bs bodies r h

-- the former witness (declared size 1, batch of 14 bytes) is now answered E_BAD_BODY and enqueues nothing
example : (mpub Examples.conf Examples.conn [] [cMPUB, ascii "t"] ([0, 0, 0, 1] ++ Mpub.encode [[97], [98]])).reply =
    some (.err .E_BAD_BODY) := by decide
-- a batch one byte longer than declared: E_BAD_MESSAGE, nothing enqueued (only the empty topic exists)
example : (mpub Examples.conf Examples.conn [] [cMPUB, ascii "t"] ([0, 0, 0, 13] ++ Mpub.encode [[97], [98]])).reply =
    some (.err .E_BAD_MESSAGE) ∧
    (mpub Examples.conf Examples.conn [] [cMPUB, ascii "t"] ([0, 0, 0, 13] ++ Mpub.encode [[97], [98]])).broker =
      [emptyTopic (ascii "t")] := by decide
-- over-declared: accepted; exactly the batch is consumed, the rest of the stream is read as commands
example : (mpub Examples.conf Examples.conn [] [cMPUB, ascii "t"]
    ([0, 0, 0, 20] ++ Mpub.encode [[97], [98]] ++ ascii "NOP\n")).rest = ascii "NOP\n" := by decide

end Nsq.Props.C09
