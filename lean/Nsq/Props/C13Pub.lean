import Nsq.Proofs.PubCounts
import Nsq.Tie.PubCounts
/-! C13 "stats account for every message", producers (audit B26): the `pub_counts` of a producer connection in
`/stats`. Model `Nsq.Model.PubCounts` (`pubCountsOf fixed m filter` = the loop of `clientV2.Stats`, `publish` =
`clientV2.PublishedMessage`), tie `Nsq.Tie.PubCounts` (F49 = /repo 6fb5d96 is committed: ONLY its loop shape is accepted,
`treeFixed = true` is computed from the facts, `pub_counts_full_this_tree`; the unconditional `break` = `fixed := false` is
the tree before it), replay on the real code `harness/e2/e2_pubcounts_test.go`.

`m` is ONE iteration order of the Go map; every statement about a publish history `h` holds for EVERY order
(`order : m.Perm (mapOf h)`), because the order of `range` over a map is the runtime's choice. -/
namespace Nsq.Props.C13Pub
open Nsq.Model.PubCounts

/-- F49 shape, no filter: the answer is the whole map in iteration order — for every publish history `h` of the
connection (PUB / DPUB: `(topic, 1)`, MPUB: `(topic, len)`) and every iteration order `m` of its map the keys are
distinct, a pair `(t, c)` is listed iff `t` was published to and `c` is the number of messages published to `t`,
and the counts add up to the messages of the history. -/
theorem pub_counts_complete_fixed (h m : List (String × Nat)) (order : m.Perm (mapOf h)) :
    pubCountsOf true m "" = m
    ∧ (keys (pubCountsOf true m "")).Nodup
    ∧ (∀ t c, (t, c) ∈ pubCountsOf true m "" ↔ (t ∈ keys h ∧ c = publishedTo h t))
    ∧ total (pubCountsOf true m "") = total h := by
  have hnd : (keys m).Nodup :=
    (Nsq.Proofs.PubCounts.keys_perm order).nodup_iff.2 (Nsq.Proofs.PubCounts.keys_nodup_mapOf h)
  rw [Nsq.Proofs.PubCounts.unfiltered_fixed]
  refine ⟨rfl, hnd, ?_, ?_⟩
  · intro t c
    rw [Nsq.Proofs.PubCounts.mem_iff_publishedTo m hnd t c,
      (Nsq.Proofs.PubCounts.keys_perm order).mem_iff, Nsq.Proofs.PubCounts.mem_keys_mapOf,
      Nsq.Proofs.PubCounts.publishedTo_perm order, Nsq.Proofs.PubCounts.publishedTo_mapOf]
  · rw [Nsq.Proofs.PubCounts.total_perm order, Nsq.Proofs.PubCounts.total_mapOf]

/-- non-vacuity: PUB a, MPUB(3) b, PUB a, DPUB c — three topics, 6 messages, in an order other than `mapOf`'s. -/
example :
    let h := [("a", 1), ("b", 3), ("a", 1), ("c", 1)]
    let m := [("c", 1), ("a", 2), ("b", 3)]
    m.Perm (mapOf h) ∧ pubCountsOf true m "" = [("c", 1), ("a", 2), ("b", 3)] ∧ total h = 6
      ∧ publishedTo h "a" = 2 := by
  refine ⟨?_, by decide, by decide, by decide⟩
  show [("c", 1), ("a", 2), ("b", 3)].Perm [("a", 2), ("b", 3), ("c", 1)]
  exact (List.perm_cons_append_cons _ (l₁ := [("a", 2), ("b", 3)]) (l₂ := []) (List.Perm.refl _)).trans (by simp)

/-- BOTH shapes, topic filter `t`: the answer is `[(t, count)]` when the connection published to `t`, `[]` otherwise
— first for any association list (the first entry under `t`), then for every iteration order of the map of a
history: the count is the number of messages the connection published to `t`. -/
theorem pub_counts_filtered (fixed : Bool) (t : String) (ht : t ≠ "") :
    (∀ m : List (String × Nat),
        pubCountsOf fixed m t = match m.lookup t with | some c => [(t, c)] | none => [])
    ∧ (∀ h m : List (String × Nat), m.Perm (mapOf h) →
        pubCountsOf fixed m t = if t ∈ keys h then [(t, publishedTo h t)] else []) := by
  refine ⟨fun m => Nsq.Proofs.PubCounts.filtered_lookup fixed m t ht, fun h m order => ?_⟩
  have hnd : (keys m).Nodup :=
    (Nsq.Proofs.PubCounts.keys_perm order).nodup_iff.2 (Nsq.Proofs.PubCounts.keys_nodup_mapOf h)
  rw [Nsq.Proofs.PubCounts.filtered_lookup fixed m t ht, Nsq.Proofs.PubCounts.lookup_eq m hnd t]
  have hk : t ∈ keys m ↔ t ∈ keys h := by
    rw [(Nsq.Proofs.PubCounts.keys_perm order).mem_iff, Nsq.Proofs.PubCounts.mem_keys_mapOf]
  have hc : publishedTo m t = publishedTo h t := by
    rw [Nsq.Proofs.PubCounts.publishedTo_perm order, Nsq.Proofs.PubCounts.publishedTo_mapOf]
  by_cases hm : t ∈ keys h
  · simp [hk.2 hm, hm, hc]
  · simp [mt hk.1 hm, hm]

/-- non-vacuity: both shapes, a published and an unpublished topic. -/
example :
    pubCountsOf false [("c", 1), ("a", 2), ("b", 3)] "b" = [("b", 3)]
    ∧ pubCountsOf true [("c", 1), ("a", 2), ("b", 3)] "b" = [("b", 3)]
    ∧ pubCountsOf false [("c", 1), ("a", 2), ("b", 3)] "z" = []
    ∧ pubCountsOf true [("c", 1), ("a", 2), ("b", 3)] "z" = [] := by decide

/-- F49 shape: the unfiltered answer is the concatenation, over the connection's topics in iteration order, of the
filtered answers (topic names are never empty) — filtered and unfiltered `/stats` agree. In fact the right-hand side
is `m` in both shapes; only the fixed loop returns it. -/
theorem pub_counts_unfiltered_is_union_fixed (m : List (String × Nat)) (hm : (keys m).Nodup) (hne : "" ∉ keys m) :
    pubCountsOf true m "" = (keys m).flatMap (pubCountsOf true m)
    ∧ (keys m).flatMap (pubCountsOf false m) = m := by
  rw [Nsq.Proofs.PubCounts.unfiltered_fixed, Nsq.Proofs.PubCounts.union_of_filtered true m hm hne]
  exact ⟨rfl, Nsq.Proofs.PubCounts.union_of_filtered false m hm hne⟩

example : (keys [("c", 1), ("a", 2)]).Nodup ∧ "" ∉ keys [("c", 1), ("a", 2)]
    ∧ (keys [("c", 1), ("a", 2)]).flatMap (pubCountsOf true [("c", 1), ("a", 2)]) = [("c", 1), ("a", 2)] := by decide

/-- The property for producers, as a statement about a loop shape: whatever the iteration order of the map
(distinct keys), the unfiltered answer lists every topic the connection published to. -/
def PubCountsFull (fixed : Bool) : Prop :=
  ∀ m : List (String × Nat), (keys m).Nodup → ∀ k ∈ keys m, k ∈ keys (pubCountsOf fixed m "")

/-- The loop with the unconditional `break` (the tree before F49) does NOT have it: a connection that published to
two topics reports one — the first of the iteration order, i.e. an arbitrary one. -/
theorem pub_counts_full_false_with_break : ¬ PubCountsFull false := by
  intro h
  have := h [("a", 1), ("b", 2)] (by decide) "b" (by decide)
  revert this; decide

/-- the witness, spelled out: unfiltered lists `a` only, 1 of the 3 messages; the filtered view of the same
connection has `b`; in the other iteration order the unfiltered view lists `b` only. -/
example :
    pubCountsOf false [("a", 1), ("b", 2)] "" = [("a", 1)]
    ∧ pubCountsOf false [("a", 1), ("b", 2)] "b" = [("b", 2)]
    ∧ pubCountsOf false [("b", 2), ("a", 1)] "" = [("b", 2)]
    ∧ total (pubCountsOf false [("a", 1), ("b", 2)] "") = 1 ∧ total (mapOf [("a", 1), ("b", 2)]) = 3 := by decide

/-- THIS tree (audit B12): the parameter is computed from the regenerated loop of `clientV2.Stats` and the tie decides it
`true`; a tree that reverts F49 fails `Tie.PubCounts.tree_fixed` and this theorem with it. -/
theorem pub_counts_full_this_tree : PubCountsFull Nsq.Tie.PubCounts.treeFixed := by
  rw [Nsq.Tie.PubCounts.tree_fixed]
  intro m _ k hk
  rw [Nsq.Proofs.PubCounts.unfiltered_fixed]; exact hk

example : pubCountsOf Nsq.Tie.PubCounts.treeFixed [("a", 1), ("b", 2)] "" = [("a", 1), ("b", 2)] := by
  rw [Nsq.Tie.PubCounts.tree_fixed]; decide

/-- The F49 shape has it. -/
theorem pub_counts_full_fixed : PubCountsFull true := by
  intro m _ k hk
  rw [Nsq.Proofs.PubCounts.unfiltered_fixed]; exact hk

example : (keys [("a", 1), ("b", 2)]).Nodup ∧ "b" ∈ keys (pubCountsOf true [("a", 1), ("b", 2)] "") := by decide

end Nsq.Props.C13Pub
