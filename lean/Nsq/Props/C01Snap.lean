/-
C01.2 `fanout_complete` with channel creation split into `createRaw | refresh` (round 9, audit A15) — on the snapshot
model `Nsq.Model.TopicSnap`, for EVERY schedule (channels created and deleted while the pump is mid-backlog):

* `fanout_complete_raw` — every published id is still in the topic queue, or was handed to EVERY channel that had entered
  the pump's snapshot (`born = some b`: the refresh at which `GetChannel` — hence SUB — returned) no later than the id was
  issued (`b ≤ i`): a publish acknowledged after the SUB's OK reaches the new channel;
* `snapshot_after_refresh` — after `refresh` the snapshot is the channel map;
* `FanoutCompleteFull` / `fanout_complete_false_born_at_insert` — the same statement with `born` read as the moment of the
  MAP INSERT (first half of `GetChannel`) is false: the pump fans a message published in between to its old snapshot.
Tie: leg `busysub` (`corpus/C01/busy_pump_sub.ops`: the pump is held mid-message while a SUB creates the channel; the SUB
answers only after the pump took the update; a publish acknowledged after that OK reaches the channel — oracle
`fanout-missed`), facts `Tie.Chan.getChannel_eq` (map insert, then the blocking send), `topicPumpLoop_eq` (snapshot rebuilt from the
map on every `channelUpdateChan` event). For the atomic `createChan` of `ChanNsqd` (both halves in one step) this is `C01.fanout_complete`.
-/
import Nsq.Model.TopicSnap
namespace Nsq.Props.C01Snap
open Nsq.Model.TopicSnap

structure SInv (s : St) : Prop where
  insnap : ∀ ch ∈ s.chans, ch.born.isSome = true → ch.cid ∈ s.snap
  fan    : ∀ ch ∈ s.chans, ∀ b, ch.born = some b → ∀ i ∈ s.pumped, b ≤ i → i ∈ ch.fanned
  lt     : ∀ i, (i ∈ s.queue ∨ i ∈ s.pumped) → i < s.nextId
  all    : ∀ i, 0 < i → i < s.nextId → i ∈ s.queue ∨ i ∈ s.pumped

theorem sinv_init : SInv {} := by
  refine ⟨fun _ h => (by cases h), fun _ h => (by cases h), ?_, ?_⟩
  · intro i h; rcases h with h | h <;> cases h
  · intro i h1 h2; simp at h2; omega

theorem step_sinv {s : St} (h : SInv s) (op : Op) : SInv (step false s op).1 := by
  obtain ⟨h1, h2, h3, h4⟩ := h
  cases op with
  | createRaw c =>
    simp only [step]
    split
    · exact ⟨h1, h2, h3, h4⟩
    · refine ⟨?_, ?_, h3, h4⟩
      · intro ch hch hb
        rcases List.mem_append.1 hch with hm | hm
        · exact h1 ch hm hb
        · simp only [List.mem_singleton] at hm; subst hm; simp at hb
      · intro ch hch b hb
        rcases List.mem_append.1 hch with hm | hm
        · exact h2 ch hm b hb
        · simp only [List.mem_singleton] at hm; subst hm; simp at hb
  | deleteRaw c =>
    exact ⟨fun ch hch => h1 ch (List.mem_filter.1 hch).1, fun ch hch => h2 ch (List.mem_filter.1 hch).1, h3, h4⟩
  | refresh =>
    refine ⟨?_, ?_, h3, h4⟩
    · intro ch hch _
      simp only [step, List.mem_map] at hch ⊢
      obtain ⟨c0, hc0, rfl⟩ := hch
      exact ⟨c0, hc0, by cases c0.born <;> rfl⟩
    · intro ch hch b hb i hi hbi
      simp only [step, List.mem_map] at hch
      obtain ⟨c0, hc0, rfl⟩ := hch
      cases hcb : c0.born with
      | none =>
        simp only [hcb] at hb ⊢
        have : s.nextId = b := Option.some.inj hb
        have := h3 i (Or.inr hi)
        omega
      | some b0 =>
        simp only [hcb] at hb ⊢
        exact h2 c0 hc0 b (hcb ▸ hb) i hi hbi
  | pub =>
    refine ⟨h1, h2, ?_, ?_⟩
    · intro i hi
      simp only [step, List.mem_cons] at hi ⊢
      rcases hi with (rfl | hi) | hi
      · omega
      · have := h3 i (Or.inl hi); omega
      · have := h3 i (Or.inr hi); omega
    · intro i hp hl
      simp only [step, List.mem_cons] at hl ⊢
      by_cases he : i = s.nextId
      · exact Or.inl (Or.inl he)
      · rcases h4 i hp (by omega) with a | a
        · exact Or.inl (Or.inr a)
        · exact Or.inr a
  | pump i =>
    simp only [step]
    split
    · rename_i hq
      have hiq : i ∈ s.queue := by simpa using hq
      refine ⟨?_, ?_, ?_, ?_⟩
      · intro ch hch hb
        simp only [List.mem_map] at hch
        obtain ⟨c0, hc0, rfl⟩ := hch
        by_cases hs : s.snap.contains c0.cid = true
        · simp only [hs, ↓reduceIte] at hb ⊢; exact h1 c0 hc0 hb
        · simp only [hs] at hb ⊢; exact h1 c0 hc0 hb
      · intro ch hch b hb j hj hbj
        simp only [List.mem_map] at hch
        obtain ⟨c0, hc0, rfl⟩ := hch
        have hin : s.snap.contains c0.cid = true → c0.born = some b →
            j ∈ (if s.snap.contains c0.cid = true then { c0 with fanned := i :: c0.fanned } else c0).fanned := by
          intro hs hb0
          simp only [hs, ↓reduceIte, List.mem_cons]
          rcases List.mem_cons.1 hj with rfl | hj
          · exact Or.inl rfl
          · exact Or.inr (h2 c0 hc0 b hb0 j hj hbj)
        by_cases hs : s.snap.contains c0.cid = true
        · simp only [hs, ↓reduceIte] at hb
          exact hin hs hb
        · have hs' : s.snap.contains c0.cid = false := by simpa using hs
          simp only [hs', Bool.false_eq_true, ↓reduceIte] at hb
          have := h1 c0 hc0 (by rw [hb]; rfl)
          exact absurd (by simpa using this) hs
      · intro j hj
        rcases hj with hj | hj
        · exact h3 j (Or.inl (List.mem_of_mem_erase hj))
        · rcases List.mem_cons.1 hj with rfl | hj
          · exact h3 _ (Or.inl hiq)
          · exact h3 j (Or.inr hj)
      · intro j hp hl
        rcases h4 j hp hl with a | a
        · by_cases he : j = i
          · exact Or.inr (he ▸ List.mem_cons_self)
          · exact Or.inl ((List.mem_erase_of_ne he).2 a)
        · exact Or.inr (List.mem_cons_of_mem _ a)
    · exact ⟨h1, h2, h3, h4⟩

theorem run_sinv {s : St} (h : SInv s) (ops : List Op) : SInv (run false s ops) := by
  induction ops generalizing s with
  | nil => exact h
  | cons op ops ih => exact ih (step_sinv h op)

/-- the statement, per reading of `born` -/
def FanoutCompleteFull (bornAtRaw : Bool) : Prop :=
  ∀ (ops : List Op) (i : Nat), 0 < i → i < (run bornAtRaw {} ops).nextId →
    i ∈ (run bornAtRaw {} ops).queue ∨
    ∀ ch ∈ (run bornAtRaw {} ops).chans, ∀ b, ch.born = some b → b ≤ i → i ∈ ch.fanned

/-- **fan-out completeness over every schedule with split channel creation** -/
theorem fanout_complete_raw : FanoutCompleteFull false := by
  intro ops i hp hl
  have h := run_sinv sinv_init ops
  rcases h.all i hp hl with a | a
  · exact Or.inl a
  · exact Or.inr (fun ch hch b hb hbi => h.fan ch hch b hb i a hbi)

/-- after `refresh` the pump's snapshot is the channel map -/
theorem snapshot_after_refresh (b : Bool) (s : St) : (step b s .refresh).1.snap = (step b s .refresh).1.chans.map (·.cid) := by
  simp only [step, List.map_map]
  apply List.map_congr_left
  intro ch _
  simp only [Function.comp]
  cases ch.born <;> rfl

/-- with `born` = the moment of the map insert the statement is false: channel 1 is inserted, message 1 is published and
pumped to the OLD (empty) snapshot before the pump takes the update -/
theorem fanout_complete_false_born_at_insert : ¬ FanoutCompleteFull true := by
  intro h
  have := h [.createRaw 1, .pub, .pump 1, .refresh] 1 (by decide) (by decide)
  rcases this with a | a
  · exact absurd a (by decide)
  · have := a { cid := 1, born := some 1, fanned := [] } (by decide) 1 rfl (by decide)
    exact absurd this (by decide)

/-! non-vacuity: the busy-sub schedule — channel 1 in the snapshot, messages 1 2 published, 1 pumped, channel 2 inserted
(SUB in progress), 2 pumped to the OLD snapshot, refresh (SUB returns: born = 3), message 3 published and pumped -/
def bsOps : List Op := [.createRaw 1, .refresh, .pub, .pub, .pump 1, .createRaw 2, .pump 2, .refresh, .pub, .pump 3]
example : (run false {} bsOps).chans =
    [{ cid := 1, born := some 1, fanned := [3, 2, 1] }, { cid := 2, born := some 3, fanned := [3] }] := by decide
example : ∀ ch ∈ (run false {} bsOps).chans, ∀ b, ch.born = some b → b ≤ 3 → 3 ∈ ch.fanned :=
  (fanout_complete_raw bsOps 3 (by decide) (by decide)).resolve_left (by decide)

end Nsq.Props.C01Snap
