/-
C01 on `#ephemeral` TOPICS — round 9, audit A5.

`C01.ack_implies_enqueued` ("PUB/DPUB/MPUB answer OK and the ids are then in the topic queue, whatever the topic's
state") is a theorem about `Nsq.Model.ChanNsqd`, which has no ephemeral topics. The real `Topic.put` of a topic
whose name ends in `#ephemeral` DROPS the message when the memory queue has no room (`dummyBackendQueue.Put` returns
nil) and `PutMessage` still returns nil: the publisher gets OK and `message_count` / `message_bytes` count the message.
It is the deliberate drop of the property's statement ("no message is lost except the documented drops"), on the
topic side. The theorems below are about the extension model `Nsq.Model.TopicEph` (`stepE` over `ES`):

* `AckImpliesEnqueuedEph` / `ack_implies_enqueued_false_ephemeral` — the statement of `ack_implies_enqueued` for an
  ephemeral topic is FALSE (mem-queue-size 1, second publish);
* `eph_ack_enqueued_or_dropped` — what holds instead, for EVERY state and every accepted `pubE`: the id is
  acknowledged and counted, and it is EITHER in the topic queue OR recorded in `dropped` — never both, never neither;
  `eph_ack_enqueued_or_dropped_mpub` for MPUB;
* `only_deliberate_drops_topic` — a step adds an entry to `dropped` only as `pubE` / `mpubE` on a topic in `eph` whose
  memory queue had no room at that moment (`no_room_iff`); `base_never_drops` / `durable_ack_implies_enqueued`: a step
  of the base model never adds one, and a publish to a durable topic is `ChanNsqd.step`'s, so
  `C01.ack_implies_enqueued` holds for it unchanged;
* `eph_counts_include_dropped` — after n publishes to a fresh ephemeral topic (nothing pumped): `message_count = n`,
  `message_bytes` = the sum of the sizes, kept + dropped = n, and with mem-queue-size m > 0 kept = min n m.
Tie: `Nsq.Tie.TopicEph` (`topicPutBody_eq`, `newTopicEphemeral_eq`, `dummyPut_eq`); leg `ephtopic`
(`harness/e2/e2_live_test.go doEphTopic`, `corpus/C01/ephemeral_topic.ops`, lines `teph` replayed by `drv_e2` through
`stepE`).
-/
import Nsq.Proofs.TopicEph
import Nsq.Props.C01
namespace Nsq.Props.C01Eph
open Nsq.Model.Chan (Env Out)
open Nsq.Model.ChanNsqd Nsq.Model.TopicEph Nsq.Proofs.TopicEph

/-- the statement of `C01.ack_implies_enqueued` for a publish to an ephemeral topic -/
def AckImpliesEnqueuedEph : Prop :=
  ∀ (es : ES) (t size delay : Nat) (env : Env) (taken : Bool) (id : Nat),
    (stepE es (.pubE t size delay env taken)).2 = .ids [id] →
    ∃ tp ∈ (stepE es (.pubE t size delay env taken)).1.s.topics, tp.tid = t ∧ id ∈ tp.queue.map (·.id)

/-- mem-queue-size 1, ephemeral topic 7 holding message 1 -/
def exFull : ES := runE (freshE 1 7) [.pubE 7 10 0 {} false]

/-- FALSE: the second publish is answered OK (`ids [2]`) and message 2 is nowhere in the topic queue -/
theorem ack_implies_enqueued_false_ephemeral : ¬ AckImpliesEnqueuedEph := by
  intro h
  exact absurd (h exFull 7 10 0 {} false 2 (by decide)) (by decide)

example : (stepE exFull (.pubE 7 10 0 {} false)).2 = .ids [2] ∧
    (stepE exFull (.pubE 7 10 0 {} false)).1.dropped = [(7, 2)] ∧
    ((stepE exFull (.pubE 7 10 0 {} false)).1.s.topics.map (fun tp => (tp.queue.map (·.id), tp.msgCount, tp.msgBytes, tp.acked)))
      = [([1], 2, 20, [2, 1])] := by decide

/-- **what holds instead** — for every state and every accepted `pubE` (PUB / DPUB to an ephemeral topic): the id
is the counter's, it is acknowledged (`acked`) and counted (`message_count + 1`, `message_bytes + size`), and the
step EITHER put the message at the head of the topic queue (ghost list of drops unchanged) OR left the queue alone
and recorded `(t, id)` in `dropped`. With ids issued by the counter (every id in the queue / in `dropped` is below
`nextId` — `Proofs.ChanNsqd.queued_lt` for the base model): in the queue ⇔ not in `dropped`. -/
theorem eph_ack_enqueued_or_dropped (es : ES) (t size delay : Nat) (env : Env) (taken : Bool) (l : List Nat)
    (h : (stepE es (.pubE t size delay env taken)).2 = .ids l) :
    l = [es.s.nextId] ∧ t ∈ es.eph ∧
    ∃ tp tp', findT es.s.topics t = some tp ∧ findT (stepE es (.pubE t size delay env taken)).1.s.topics t = some tp' ∧
      es.s.nextId ∈ tp'.acked ∧ tp'.msgCount = tp.msgCount + 1 ∧ tp'.msgBytes = tp.msgBytes + size ∧
      ((tp'.queue = ⟨es.s.nextId, size, delay, .mem, env⟩ :: tp.queue ∧
          (stepE es (.pubE t size delay env taken)).1.dropped = es.dropped) ∨
       (tp'.queue = tp.queue ∧
          (stepE es (.pubE t size delay env taken)).1.dropped = (t, es.s.nextId) :: es.dropped)) ∧
      ((∀ i ∈ tp.queue.map (·.id), i < es.s.nextId) → (∀ p ∈ es.dropped, p.2 < es.s.nextId) →
        (es.s.nextId ∈ tp'.queue.map (·.id) ↔ (t, es.s.nextId) ∉ (stepE es (.pubE t size delay env taken)).1.dropped)) := by
  obtain ⟨he, tp, hf⟩ := pubE_accepted h
  obtain ⟨ho, _, _, tp1, hf1, hmc, hmb, _, hack, hq⟩ := pubE_step he hf size delay env taken
  rw [ho] at h
  refine ⟨by injection h with h; exact h.symm, he, tp, tp1, hf, hf1, by simp [hack], hmc, hmb, ?_, ?_⟩
  · rcases hq with ⟨_, h1, h2⟩ | ⟨_, h1, h2⟩
    · exact Or.inl ⟨h1, h2⟩
    · exact Or.inr ⟨h1, h2⟩
  · intro hlt hdl
    rcases hq with ⟨_, h1, h2⟩ | ⟨_, h1, h2⟩
    · rw [h1, h2]
      constructor
      · intro _ hin
        exact absurd (hdl _ hin) (Nat.lt_irrefl _)
      · intro _; simp
    · rw [h1, h2]
      constructor
      · intro hin
        exact absurd (hlt _ hin) (Nat.lt_irrefl _)
      · intro hn; exact absurd List.mem_cons_self hn

/-- kept: mem-queue-size 1, first publish -/
example : (stepE (freshE 1 7) (.pubE 7 10 0 {} false)).2 = .ids [1] :=
  (pubE_step (freshE_spec 1 7).1 (freshE_spec 1 7).2.1 10 0 {} false).1
example : ∃ tp', findT (stepE (freshE 1 7) (.pubE 7 10 0 {} false)).1.s.topics 7 = some tp' ∧
    tp'.queue.map (·.id) = [1] ∧ (stepE (freshE 1 7) (.pubE 7 10 0 {} false)).1.dropped = [] := ⟨_, rfl, by decide, by decide⟩
/-- dropped: second publish; the hypotheses of the "never both" clause hold -/
example : (∀ i ∈ ([1] : List Nat), i < exFull.s.nextId) ∧ (∀ p ∈ exFull.dropped, p.2 < exFull.s.nextId) := by decide
example : [2] = [exFull.s.nextId] ∧ 7 ∈ exFull.eph :=
  have h := eph_ack_enqueued_or_dropped exFull 7 10 0 {} false [2] (by decide)
  ⟨h.1, h.2.1⟩
example : (7, 2) ∈ (stepE exFull (.pubE 7 10 0 {} false)).1.dropped := by decide
/-- mem-queue-size 0: kept iff the pump is receiving -/
example : (stepE (freshE 0 7) (.pubE 7 10 0 {} true)).1.dropped = [] ∧
    (stepE (freshE 0 7) (.pubE 7 10 0 {} false)).1.dropped = [(7, 1)] := by decide

/-- MPUB to an ephemeral topic: all ids acknowledged and counted; kept + dropped = published; every drop is one of
the ids of this MPUB -/
theorem eph_ack_enqueued_or_dropped_mpub (es : ES) (t : Nat) (sizes : List Nat) (envs : List Env) (tks : List Bool)
    (l : List Nat) (h : (stepE es (.mpubE t sizes envs tks)).2 = .ids l) :
    l = idsFrom es.s.nextId sizes.length ∧ t ∈ es.eph ∧
    ∃ tp tp' dr, findT es.s.topics t = some tp ∧ findT (stepE es (.mpubE t sizes envs tks)).1.s.topics t = some tp' ∧
      (∀ i ∈ l, i ∈ tp'.acked) ∧ tp'.msgCount = tp.msgCount + sizes.length ∧ tp'.msgBytes = tp.msgBytes + sizes.sum ∧
      (stepE es (.mpubE t sizes envs tks)).1.dropped = dr ++ es.dropped ∧
      tp'.queue.length + dr.length = tp.queue.length + sizes.length ∧
      (∀ p ∈ dr, p.1 = t ∧ p.2 ∈ l) := by
  obtain ⟨he, tp, hf⟩ := mpubE_accepted h
  obtain ⟨ho, hd, tp1, hf1, hmc, hmb, hack, hq⟩ := mpubE_step he hf sizes envs tks
  rw [ho] at h
  have hl : l = idsFrom es.s.nextId sizes.length := by injection h with h; exact h.symm
  refine ⟨hl, he, tp, tp1, _, hf, hf1, ?_, hmc, hmb, hd, ?_, ?_⟩
  · intro i hi; rw [hack]; simp [← hl, hi]
  · rw [hq]; exact putManyTE_count tp es.s.nextId sizes envs tks
  · intro p hp
    obtain ⟨j, hj, hpj, _⟩ := putManyTE_dropped tp es.s.nextId sizes envs tks p hp
    rw [hpj, hl]
    exact ⟨findT_tid hf, Nsq.Proofs.ChanNsqd.mem_idsFrom.2 ⟨by simp, by simp; omega⟩⟩

example : (stepE (freshE 2 7) (.mpubE 7 [5, 6, 7] [] [])).2 = .ids [1, 2, 3] ∧
    (stepE (freshE 2 7) (.mpubE 7 [5, 6, 7] [] [])).1.dropped = [(7, 3)] ∧
    (stepE (freshE 2 7) (.mpubE 7 [5, 6, 7] [] [])).1.s.topics.map (fun tp => (tp.queue.map (·.id), tp.msgCount, tp.msgBytes))
      = [([2, 1], 3, 18)] := by decide

/-- "no room", spelled out: a full memory queue, or mem-queue-size 0 and the pump not receiving -/
theorem no_room_iff (t : Topic) (taken : Bool) :
    roomTE t taken = false ↔ (0 < t.memCap ∧ t.memCap ≤ memLenT t) ∨ (t.memCap = 0 ∧ taken = false) :=
  roomTE_false

example : roomTE { tid := 7, memCap := 1, queue := [⟨1, 10, 0, .mem, {}⟩] } true = false := by decide

/-- **only deliberate drops** — a step adds an entry to `dropped` only as `pubE` on a topic in `eph` whose memory
queue had no room for it, or as message `j` of an `mpubE` on a topic in `eph` whose memory queue — after messages
`0 … j-1` of that MPUB were put — had no room. -/
theorem only_deliberate_drops_topic (es : ES) (eop : EOp) (p : Nat × Nat)
    (hp : p ∈ (stepE es eop).1.dropped) (hn : p ∉ es.dropped) :
    (∃ t size delay env taken tp, eop = .pubE t size delay env taken ∧ t ∈ es.eph ∧ findT es.s.topics t = some tp ∧
        p = (t, es.s.nextId) ∧ roomTE tp taken = false) ∨
    (∃ t sizes envs tks tp j, eop = .mpubE t sizes envs tks ∧ t ∈ es.eph ∧ findT es.s.topics t = some tp ∧
        j < sizes.length ∧ p = (t, es.s.nextId + j) ∧
        roomTE (putManyTE tp es.s.nextId (sizes.take j) envs tks).1 ((tks.drop j).headD false) = false) := by
  cases eop with
  | base op => rw [base_dropped] at hp; exact absurd hp hn
  | createEphTopic t => rw [create_dropped] at hp; exact absurd hp hn
  | pubE t size delay env taken =>
    left
    by_cases he : t ∈ es.eph
    · cases hf : findT es.s.topics t with
      | none => simp [stepE, he, hf] at hp; exact absurd hp hn
      | some tp =>
        obtain ⟨_, _, _, _, _, _, _, _, _, hq⟩ := pubE_step he hf size delay env taken
        rcases hq with ⟨_, _, hd⟩ | ⟨hr, _, hd⟩
        · rw [hd] at hp; exact absurd hp hn
        · rw [hd] at hp
          rcases List.mem_cons.1 hp with hp | hp
          · exact ⟨t, size, delay, env, taken, tp, rfl, he, hf, hp, hr⟩
          · exact absurd hp hn
    · simp [stepE, he] at hp; exact absurd hp hn
  | mpubE t sizes envs tks =>
    right
    by_cases he : t ∈ es.eph
    · cases hf : findT es.s.topics t with
      | none => simp [stepE, he, hf] at hp; exact absurd hp hn
      | some tp =>
        obtain ⟨_, hd, _⟩ := mpubE_step he hf sizes envs tks
        rw [hd] at hp
        rcases List.mem_append.1 hp with hp | hp
        · obtain ⟨j, hj, hpj, hnr⟩ := putManyTE_dropped tp es.s.nextId sizes envs tks p hp
          rw [findT_tid hf] at hpj
          exact ⟨t, sizes, envs, tks, tp, j, rfl, he, hf, hj, hpj, roomTE_false.2 hnr⟩
        · exact absurd hp hn
    · simp [stepE, he] at hp; exact absurd hp hn

example : (7, 2) ∈ (stepE exFull (.pubE 7 10 0 {} false)).1.dropped ∧ (7, 2) ∉ exFull.dropped := by decide
example : (7, 3) ∈ (stepE (freshE 2 7) (.mpubE 7 [5, 6, 7] [] [])).1.dropped ∧ (7, 3) ∉ (freshE 2 7).dropped := by decide

/-- a step of the base model (any op, on any topic) never adds a drop … -/
theorem base_never_drops (es : ES) (op : Nsq.Model.ChanNsqd.Op) : (stepE es (.base op)).1.dropped = es.dropped :=
  base_dropped es op

/-- … and a publish to a DURABLE topic is `ChanNsqd.step`'s: `C01.ack_implies_enqueued` holds for it unchanged -/
theorem durable_ack_implies_enqueued (es : ES) (t sz : Nat) (env : Env) (hd : t ∉ es.eph) :
    (stepE es (.base (.pub t sz env))).2 = .ids [es.s.nextId] ∧
    ∃ tp ∈ (stepE es (.base (.pub t sz env))).1.s.topics, tp.tid = t ∧
      es.s.nextId ∈ tp.queue.map (·.id) ∧ es.s.nextId ∈ tp.acked := by
  have hb : blocked es (.pub t sz env) = false := by simp [blocked, pubTopic, hd]
  have h := Nsq.Props.C01.ack_implies_enqueued es.s t sz 0 env
  simp only [stepE, hb, Bool.false_eq_true, ↓reduceIte]
  exact ⟨h.1, h.2.1⟩

/-- an ephemeral and a durable topic side by side, mem-queue-size 1: the durable one keeps its second message on disk -/
def exBoth : ES := runE (freshE 1 7) [.base (.createTopic 8), .pubE 7 10 0 {} false, .base (.pub 8 10)]
example : (stepE exBoth (.base (.pub 8 10))).2 = .ids [3] ∧ (stepE exBoth (.base (.pub 8 10))).1.dropped = [] ∧
    (stepE exBoth (.base (.pub 8 10))).1.s.topics.map (fun tp => (tp.tid, tp.queue.map (fun m => (m.id, m.place))))
      = [(7, [(1, .mem)]), (8, [(3, .disk), (2, .mem)])] := by decide
example : (8 : Nat) ∉ exBoth.eph := by decide
/-- the base publish ops are refused on the ephemeral topic, `pubE` on the durable one -/
example : (stepE exBoth (.base (.pub 7 10))).2 = .reject "ephemeral-topic" ∧
    (stepE exBoth (.pubE 8 10 0 {} false)).2 = .reject "not-ephemeral" := by decide

/-- **the counters include the drops** — n publishes (PUB / DPUB, any sizes, any runtime choices) to a fresh ephemeral
topic and nothing else: `message_count = n`, `message_bytes` = the sum of the sizes, queue length + drops = n; with
mem-queue-size m > 0 the queue holds min n m of them. -/
theorem eph_counts_include_dropped (memq t : Nat) (ps : List PubArg) :
    ∃ tp', findT (runE (freshE memq t) (pubOps t ps)).s.topics t = some tp' ∧
      tp'.msgCount = ps.length ∧ tp'.msgBytes = (ps.map (·.1)).sum ∧
      tp'.queue.length + nDropped (runE (freshE memq t) (pubOps t ps)) t = ps.length ∧
      (0 < memq → tp'.queue.length = min ps.length memq) := by
  obtain ⟨he, hf, hd⟩ := freshE_spec memq t
  obtain ⟨tp', h1, h2, h3, h4, _⟩ := run_pubE _ t _ he hf ps
  refine ⟨tp', h1, by simpa using h2, by simpa using h3, by simpa [nDropped, hd] using h4, ?_⟩
  intro hm
  obtain ⟨tp'', g1, g2⟩ := run_pubE_fill _ t _ he hf hm (by simp [memLenT]) (by simp) ps
  rw [h1] at g1
  injection g1 with g1
  rw [g1]; simpa using g2

/-- the leg `ephtopic`: mem-queue-size 2, five publishes of 3 bytes -/
def exFive : List PubArg := List.replicate 5 (3, 0, {}, false)
example : (runE (freshE 2 7) (pubOps 7 exFive)).s.topics.map (fun tp => (tp.queue.map (·.id), tp.msgCount, tp.msgBytes))
    = [([2, 1], 5, 15)] ∧ (runE (freshE 2 7) (pubOps 7 exFive)).dropped = [(7, 5), (7, 4), (7, 3)] := by decide
example : ∃ tp', findT (runE (freshE 2 7) (pubOps 7 exFive)).s.topics 7 = some tp' ∧ tp'.msgCount = 5 ∧
    tp'.queue.length + nDropped (runE (freshE 2 7) (pubOps 7 exFive)) 7 = 5 :=
  let ⟨tp', h1, h2, _, h4, _⟩ := eph_counts_include_dropped 2 7 exFive
  ⟨tp', h1, h2, h4⟩

end Nsq.Props.C01Eph
