import Nsq.Proofs.GuidClock
import Nsq.Tie.Guid
/-!
# C12 — the last clause: "when the generator cannot produce a fresh id (clock stepped back,
# per-millisecond sequence exhausted) the publish waits; it never reuses an id" (audit round 7, B25)

`Props/C12.lean` proves uniqueness and order for every clock. This module states what
`Topic.GenerateID` (model `generateID`: retry `NewGUID` until it succeeds; tied by
`Nsq.Tie.GuidLoop`, by `Tie.Guid.newGUID_eq` and by the correspondence op `genids` on the real
`Topic.GenerateID` / PUB / MPUB / DPUB / HTTP paths with a white-boxed factory) does *while* it waits
and *when* it stops waiting:

* safety, every clock: `waits_while_clock_is_behind`, `returns_only_when_clock_caught_up`,
  `successive_publishes_increase`;
* progress, clocks inside the id layout's 41-bit horizon: `released_when_clock_passes`
  (+ the precise boundary `beyond_horizon_waits_forever`: after ≈ 2085 nothing is handed out any more);
* restart / re-creation (a new factory starts from zero): `restart_unique_partial` with the hypothesis
  spelled out and `restart_unique_full_false`.
-/
namespace Nsq.Props.C12Clock
open Nsq.Model.Guid Nsq.Model.GuidClock Nsq.Proofs.Guid Nsq.Proofs.GuidClock

/-- **The publish waits.** While every clock reading is in a pseudo-millisecond before the factory's
`lastTimestamp` (the wall clock was stepped back behind an id already handed out), `GenerateID` does
not return, however many readings it looks at, and the factory is exactly as before: nothing is
forgotten, so nothing can be handed out again. (Seeded defect C12-m7 — give up after 1000 retries and
re-anchor — is the negation of this statement.) -/
theorem waits_while_clock_is_behind (f : St) (clock : List (BitVec 64))
    (h : ∀ now ∈ clock, (tsOf now).toInt < f.lastTs.toInt) :
    generateID f clock = (f, none) ∧ run f clock = [] ∧ runSt f clock = f :=
  ⟨generateID_behind f clock h, run_behind f clock h⟩

/-- **It returns only once the clock has caught up**, for EVERY stream of readings: the reading at
which `GenerateID` returned is not behind the `lastTimestamp` it started from; the id carries that
reading's pseudo-millisecond, the factory's node id and a 12-bit sequence number, is above every id
handed out before, and is what the factory now remembers. -/
theorem returns_only_when_clock_caught_up (f : St) (clock : List (BitVec 64)) (f' : St) (id : BitVec 64)
    (h : generateID f clock = (f', some id)) :
    (∃ now ∈ clock, f.lastTs.toInt ≤ (tsOf now).toInt ∧ f'.lastTs = tsOf now ∧
      ∃ s : BitVec 64, id = pack (tsOf now) f.nodeID (s &&& 4095#64)) ∧
    f.lastID.toInt < id.toInt ∧ f'.lastID = id :=
  ⟨generateID_waits h, generateID_some h⟩

/-- **Successive publishes** (each `GenerateID` call meets its own readings, arbitrary ones): the ids
handed out strictly increase in call order and are all above what was handed out before. This is the
function the correspondence op `genids` runs against the real `Topic.GenerateID`. -/
theorem successive_publishes_increase (f : St) (clocks : List (List (BitVec 64))) :
    (genMany f clocks).1.Pairwise (fun a b => a.toInt < b.toInt) ∧
    ∀ x ∈ (genMany f clocks).1, f.lastID.toInt < x.toInt :=
  ⟨genMany_pairwise f clocks, genMany_gt f clocks⟩

/-- **Progress** (liveness of the wait, as far as the generator is concerned). For a factory in a
state reachable from `NewGUIDFactory` (`WF`: `wf_reachable`) and clock readings inside the horizon of
the id layout (`InHorizon`: after 2012-10-28, less than 2^41 pseudo-ms later), `GenerateID` returns at
the latest at the first reading in a pseudo-millisecond after `lastTimestamp` — after a step back of
`D` it waits `D` (+ at most one pseudo-millisecond), after an exhausted sequence at most one
pseudo-millisecond. Hypotheses that are forced: see `beyond_horizon_waits_forever`. -/
theorem released_when_clock_passes (f : St) (clock : List (BitVec 64)) (hwf : WF f)
    (hh : ∀ now ∈ clock, InHorizon (tsOf now))
    (hlater : ∃ now ∈ clock, f.lastTs.toNat < (tsOf now).toNat) :
    ∃ f' id, generateID f clock = (f', some id) :=
  generateID_progress f clock hwf hh hlater

/-- `WF` is not an extra assumption about the daemon: it holds for the factory `NewGUIDFactory(node)`
makes (node id range: `Tie.Guid.nodeID_range_checked`) and after every in-horizon history. -/
theorem wf_reachable (node : BitVec 64) (hn : node.toNat < 1024) (clock : List (BitVec 64))
    (hh : ∀ now ∈ clock, InHorizon (tsOf now)) : WF (runSt (fresh node) clock) :=
  runSt_wf _ clock (fresh_wf node hn) hh

/-- **The horizon is real.** Once the clock is 2^41 … 2^42 pseudo-milliseconds past `twepoch`
(≈ 2085-11 … 2158) the packed id is negative, never exceeds a non-negative `lastID`, and `GenerateID`
waits forever: no id is ever reused, and no publish is ever accepted again. (Statement-wise this is
"the publish waits"; it is recorded as a boundary of `released_when_clock_passes`.) -/
theorem beyond_horizon_waits_forever (f : St) (clock : List (BitVec 64)) (hid : 0 ≤ f.lastID.toInt)
    (h : ∀ now ∈ clock, 2 ^ 41 ≤ (tsOf now - twepoch).toNat ∧ (tsOf now - twepoch).toNat < 2 ^ 42) :
    (generateID f clock).2 = none :=
  generateID_beyond f clock hid h

/-- **Restart / re-creation, partial.** A restarted daemon (or a deleted and re-created topic) gets a
new factory that remembers nothing. HYPOTHESIS (forced, see `restart_unique_full_false`): every clock
reading of the new factory is in a pseudo-millisecond after the old factory's `lastTimestamp` — the
wall clock was not stepped back across the restart, and the restart took more than the rest of the
current pseudo-millisecond. Then every id of the new factory is above every id of the old one. -/
theorem restart_unique_partial (old : St) (hwf : WF old) (clock₁ clock₂ : List (BitVec 64))
    (hh₁ : ∀ now ∈ clock₁, InHorizon (tsOf now)) (hh₂ : ∀ now ∈ clock₂, InHorizon (tsOf now))
    (hmono : ∀ now ∈ clock₂, (runSt old clock₁).lastTs.toNat < (tsOf now).toNat) :
    ∀ x ∈ run old clock₁, ∀ y ∈ run (fresh old.nodeID) clock₂, x.toInt < y.toInt := by
  intro x hx y hy
  have h1 := run_le_lastID old clock₁ x hx
  obtain ⟨now, hnow, s, rfl⟩ := run_mem_shape (fresh old.nodeID) clock₂ y hy
  have h2 := later_ms_above (runSt old clock₁) (runSt_wf old clock₁ hwf hh₁) (tsOf now) old.nodeID s
    hwf.1 (hh₂ now hnow) (hmono now hnow)
  show x.toInt < (pack (tsOf now) old.nodeID (s &&& 4095#64)).toInt
  omega

/-- The full statement "ids of one topic name are unique across a restart / re-creation, whatever the
clock does" -/
def RestartUniqueFull : Prop :=
  ∀ (node : BitVec 64) (clock₁ clock₂ : List (BitVec 64)),
    ∀ x ∈ run (fresh node) clock₁, ∀ y ∈ run (fresh node) clock₂, x ≠ y

/-- … is false: the same pseudo-millisecond seen by the old and by the new factory (clock stepped back
across the restart, or a topic deleted and re-created within one pseudo-millisecond) yields the same
first id. -/
theorem restart_unique_full_false : ¬ RestartUniqueFull := by
  intro h
  exact h 7#64 [1700000000000000000#64] [1700000000000000000#64]
    (pack (tsOf 1700000000000000000#64) 7#64 0#64) (by decide) _ (by decide) rfl

/-! ## Non-vacuity -/

/-- `∀ now ∈ [a, b], P now` for concrete readings (a plain `decide` exceeds the recursion depth) -/
local macro "mem2" : tactic =>
  `(tactic| (intro now h; simp only [List.mem_cons, List.not_mem_nil, or_false] at h; rcases h with h | h <;> subst h <;> decide))
local macro "mem1" : tactic =>
  `(tactic| (intro now h; simp only [List.mem_cons, List.not_mem_nil, or_false] at h; subst h; decide))

/-- a factory that handed out an id 2.5 s "in the future" (clock then stepped back by 2.5 s) -/
def steppedBack : St :=
  { nodeID := 517#64, seq := 7#64, lastTs := tsOf 1700000002500000000#64,
    lastID := pack (tsOf 1700000002500000000#64) 517#64 7#64 }

/-- 2000 retries (the clock 2.5 s, then 1.5 s behind): still waiting, state untouched -/
example : generateID steppedBack
    (List.replicate 1000 1700000000000000000#64 ++ List.replicate 1000 1700000001000000000#64)
    = (steppedBack, none) := by
  refine (waits_while_clock_is_behind steppedBack _ ?_).1
  intro now hnow
  simp only [List.mem_append, List.mem_replicate] at hnow
  rcases hnow with ⟨_, rfl⟩ | ⟨_, rfl⟩ <;> decide

example : WF steppedBack := by decide

/-- behind, behind, then a reading past lastTimestamp: released with sequence 0 of that millisecond -/
example : (generateID steppedBack [1700000000000000000#64, 1700000001000000000#64, 1700000002600000000#64]).2
    = some (pack (tsOf 1700000002600000000#64) 517#64 0#64) := by decide

example : ∃ f' id, generateID steppedBack [1700000000000000000#64, 1700000002600000000#64] = (f', some id) :=
  released_when_clock_passes _ _ (by decide) (by mem2) ⟨1700000002600000000#64, by decide, by decide⟩

/-- 2090-01-01: beyond the horizon — a fresh factory never hands out anything -/
example : (generateID (fresh 1#64) [3786912000000000000#64, 3786912000002000000#64]).2 = none :=
  beyond_horizon_waits_forever _ _ (by decide) (by mem2)

example : (genMany (fresh 3#64) [[1700000000000000000#64], [1700000000000000000#64], [1600000000000000000#64, 1700000000002000000#64]]).1.length = 3 := by
  decide

example : ∀ x ∈ run (fresh 7#64) [1700000000000000000#64],
    ∀ y ∈ run (fresh 7#64) [1700000000002000000#64, 1700000000002000000#64], x.toInt < y.toInt :=
  restart_unique_partial (fresh 7#64) (fresh_wf _ (by decide)) _ _ (by mem1) (by mem2) (by mem2)

end Nsq.Props.C12Clock
