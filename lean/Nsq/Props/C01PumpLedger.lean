/-
C01 — "the only deliberate drops are client sample_rate and overflow of ephemeral queues", the PUMP side (round 7,
item 5): the delivery pump model `Nsq.Model.Pump` (loop-iteration granularity, output buffer, flusher, heartbeat,
identify, responses of the IOLoop interleaved) × a ledger of message ids (`Nsq.Proofs.PumpLedger`).
Together with the channel ledger (`C01.ledger`, `C01.only_deliberate_drops`: nothing but FIN / Empty / sampling / an
ephemeral overflow removes a located message) this says: nothing else in the pump drops.
What is NOT in the model (named in docs/C01.md, audit A6): an error returned by `StartInFlightTimeout` (ignored by
the pump; unreachable: `C02Micro.never_already_in_flight`), a `SendMessage` error (the message is registered in
flight before the write and times out), and a corrupt disk record (`decodeMessage` fails → `continue`).
-/
import Nsq.Proofs.PumpLedger
namespace Nsq.Props.C01PumpLedger
open Nsq.Model.Pump Nsq.Proofs.PumpLedger

/-- along ANY schedule of pump steps, IOLoop responses, RDY / pause changes and offers: the ids offered to the pump are
exactly (as a multiset) those still queued, those it registered in flight and those it sampled out; the message frames it
wrote are exactly its in-flight registrations, in order, and as many as it counted -/
theorem pump_conserves (ops : List LOp) :
    (run {} ops).offered.Perm ((run {} ops).queue ++ (run {} ops).inflight ++ (run {} ops).sampled) ∧
    (run {} ops).frames = (run {} ops).inflight.reverse ∧ (run {} ops).frames.length = (run {} ops).p.sent :=
  let h := run_linv linv_init ops
  ⟨h.cons, h.frames, h.sent⟩

/-- **nothing else drops**: every id ever offered to the pump is still queued, or was registered in flight AND written as a
frame, or was dropped by the sampling test -/
theorem nothing_else_drops (ops : List LOp) {id : Nat} (h : id ∈ (run {} ops).offered) :
    id ∈ (run {} ops).queue ∨ (id ∈ (run {} ops).inflight ∧ id ∈ (run {} ops).frames) ∨ id ∈ (run {} ops).sampled := by
  obtain ⟨hc, hf, _⟩ := pump_conserves ops
  have := hc.subset h
  simp only [List.mem_append] at this
  rcases this with (h1 | h1) | h1
  · exact Or.inl h1
  · exact Or.inr (Or.inl ⟨h1, by rw [hf]; exact List.mem_reverse.2 h1⟩)
  · exact Or.inr (Or.inr h1)

/-- the steps of the pump that do not receive (`top`, flusher tick, ready-state wake-up, SUB / IDENTIFY events, heartbeat,
exit) and the other goroutines' steps (responses, RDY / in-flight / pause changes) touch neither the queue nor the
registrations, the frames' ids, or the sampled set -/
theorem other_steps_take_nothing (s : PL) (op : Op) :
    (step s (.pump op)).1.queue = s.queue ∧ (step s (.pump op)).1.inflight = s.inflight ∧
    (step s (.pump op)).1.sampled = s.sampled ∧ (step s (.pump op)).1.frames = s.frames ∧ (step s (.pump op)).1.offered = s.offered := by
  simp only [Nsq.Proofs.PumpLedger.step]
  split <;> exact ⟨rfl, rfl, rfl, rfl, rfl⟩

/-- a sampling drop needs `sample_rate > 0` and the queue cases armed (a guard evaluation found the consumer ready) -/
theorem sampled_needs_rate (s : PL) (id : Nat) (h : (step s (.sampled id)).1.sampled ≠ s.sampled) :
    s.p.sample ≠ 0 ∧ s.p.qArmed = true ∧ s.p.inSelect = true ∧ id ∈ s.queue := by
  simp only [Nsq.Proofs.PumpLedger.step] at h
  split at h
  · exact absurd rfl h
  · rename_i hq
    split at h
    · rename_i p' hs
      obtain ⟨_, h1, h2, h3⟩ := sampled_ok hs
      exact ⟨h1, h2, h3, by simpa using hq⟩
    · exact absurd rfl h

/-- a received message is registered and framed in the same step, whatever happens afterwards -/
theorem recv_registers (s : PL) (id : Nat) (h : (step s (.recv id)).2 = .ok) :
    (step s (.recv id)).1.inflight = id :: s.inflight ∧ (step s (.recv id)).1.frames = s.frames ++ [id] ∧
    (step s (.recv id)).1.p.buf = s.p.buf ++ [.msg s.p.sent] := by
  simp only [Nsq.Proofs.PumpLedger.step] at h ⊢
  split
  · rename_i hq; simp [hq] at h
  · split
    · rename_i p' hs
      refine ⟨rfl, rfl, ?_⟩
      simp only [Nsq.Model.Pump.step] at hs
      split at hs
      · cases hs
      · split at hs
        · cases hs
        · cases hs; rfl
    · rename_i hne
      simp_all

/-! non-vacuity: SUB, RDY 2, two messages offered; one is received and flushed by the flusher tick, the other is dropped by a
sampling consumer's test; a third stays queued after RDY 0 -/
def exOps : List LOp :=
  [.pump .top, .pump .subEvent, .pump (.setRdy 2), .pump .top, .pump (.identify true true 50), .offer 7, .offer 8, .offer 9,
   .pump .top, .recv 8, .pump .top, .pump .flushTick, .pump .top, .sampled 7, .pump (.setRdy 0), .pump .top, .recv 9]
example : (run {} exOps).queue = [9] ∧ (run {} exOps).inflight = [8] ∧ (run {} exOps).sampled = [7] ∧
    (run {} exOps).frames = [8] ∧ (run {} exOps).p.wire = [[.msg 0]] ∧ (run {} exOps).p.sent = 1 := by decide
example : 8 ∈ (run {} exOps).inflight ∧ 8 ∈ (run {} exOps).frames :=
  (nothing_else_drops exOps (id := 8) (by decide)).elim (fun h => absurd h (by decide))
    (fun h => h.elim id (fun h => absurd h (by decide)))
/-- after RDY 0 took effect the pump cannot receive: message 9 stays queued -/
example : (step (run {} (exOps.take 16)) (.recv 9)).2 = .reject "queues-off" := by decide

end Nsq.Props.C01PumpLedger
