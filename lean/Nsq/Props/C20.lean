import Nsq.Proofs.Split
import Nsq.Proofs.Relay
/-!
# C20 — Relay tools forward every record exactly and acknowledge only on success

Property theorems only (helper lemmas: `Nsq.Proofs.Split`, `Nsq.Proofs.Relay`).

* to_nsq (`Nsq.Model.Split`): `to_nsq_records` is about the trimming rule "drop the last byte only if
  it is the delimiter" (fix F5). The rule of the tree before the fix ("drop the last byte of every
  non-empty line") is kept as `trimOld`: the full statement is false for it
  (`to_nsq_records_old_false`, witness `"ab"` → `"a"`), true only for delimiter-terminated input
  (`to_nsq_records_old_partial`). `Nsq.Tie.ToolsSplit` ties the current tree to `trimFixed`.
* relays (`Nsq.Model.Relay`): for every destination behaviour, every mode and every message list.
-/
namespace Nsq.Props.C20
open Nsq.Model

/-! ## to_nsq -/
section ToNsq
open Nsq.Model.Split

/-- **to_nsq publishes exactly the records — when every publish succeeds.** For every byte string and every
delimiter byte the records published — to each of the `n` destinations, in order — are exactly the non-empty
delimiter-separated pieces of the input, byte for byte, *including an unterminated final record*.
`deliver` has the hypothesis **"every destination acknowledges every record"** built in (audit round 7, C14): the
statement with that hypothesis explicit, its refutation without it, and what the fail-stop tool does at a refused
record (exit status 1, nothing after it) are `Nsq.Props.C20Refuse.to_nsq_records_if_accepted`,
`to_nsq_records_unconditional_false`, `to_nsq_published_until_refusal`. -/
theorem to_nsq_records (d : UInt8) (input : Bytes) (n i : Nat) (hi : i < n) :
    received i (deliver n (published trimFixed d input)) = records d input := by
  rw [Nsq.Proofs.Split.received_deliver n i hi, Nsq.Proofs.Split.published_fixed]

/-- the statement for the trimming rule of the tree before fix F5 -/
def to_nsq_records_old : Prop :=
  ∀ (d : UInt8) (input : Bytes), published trimOld d input = records d input

/-- … is false: input `"ab"` (no trailing newline) is published as `"a"`. -/
theorem to_nsq_records_old_false : ¬ to_nsq_records_old := by
  intro h
  have := h 10 [97, 98]
  rw [Nsq.Proofs.Split.published_eq] at this
  revert this
  decide

/-- … and holds when the last record is terminated (or the input is empty). (Only this direction is proved; the
converse — an unterminated non-empty input is published wrongly by `trimOld` — is shown on the witness above and on
2037 of 3006 generated inputs of the old tree, not as a theorem.) -/
theorem to_nsq_records_old_partial (d : UInt8) (input : Bytes) (hterm : input = [] ∨ input.getLast? = some d) :
    published trimOld d input = records d input :=
  Nsq.Proofs.Split.published_old_terminated d input hterm

/-- no empty record is ever published, and none contains the delimiter -/
theorem to_nsq_records_clean (d : UInt8) (input : Bytes) :
    ∀ r ∈ published trimFixed d input, r ≠ [] ∧ d ∉ r := by
  rw [Nsq.Proofs.Split.published_fixed]
  intro r hr
  unfold records at hr
  rw [List.mem_filter] at hr
  exact ⟨by simpa using hr.2, Nsq.Proofs.Split.splitOn_no_delim d input r hr.1⟩

example : published trimFixed 10 [97, 98] = [[97, 98]] := by rw [Nsq.Proofs.Split.published_eq]; decide
example : published trimOld 10 [97, 98] = [[97]] := by rw [Nsq.Proofs.Split.published_eq]; decide
example : published trimFixed 10 [111, 110, 101, 10, 10, 97, 98] = [[111, 110, 101], [97, 98]] := by
  rw [Nsq.Proofs.Split.published_eq]; decide
example : records 44 [97, 44, 44, 98, 44] = [[97], [98]] := by decide
example : received 1 (deliver 2 [[1], [2]]) = [[1], [2]] := by decide

end ToNsq

/-! ## nsq_to_http -/
section Http
open Nsq.Model.Relay Nsq.Model.Relay.Http Nsq.Proofs.Relay.Http

/-- **FIN only after accept (nsq_to_http).** If handling a message ends in `Finish`, then either
sampling dropped it, or every request made was accepted by its destination (2xx for POST, 200 for
GET), in mode *all* every configured address was asked, and in the other modes one request was made.
With **no address** (`naddr = 0`) mode *all* asks nobody and finishes (`example` below): "at least one request" needs
`naddr ≠ 0` (`http_no_silent_drop`), which main() guarantees (`--get or --post required`:
`Nsq.Props.C20Get.http_valid_start_has_address`).
`resp a` is the status **the publisher sees**, i.e. what `http.Client.Do` returns: with a client that
follows redirects that is the answer of the *last* request of a chain, which need not carry the body
(audit round 7, C3). The wire-level statement — the request that carried the body was itself accepted —
is `Nsq.Props.C20Redirect.http_fin_only_after_body_accepted` (POST publisher, any client that follows only
method-preserving redirects: fix F45 and fix F45b; `…_never` / `…_get_partial` for the GET publisher); it is refuted for
the client of the tree before the fixes (`…_following_false`). -/
theorem http_fin_only_after_accept (c : Cfg) (counter : Nat) (m : Msg) (so : Bool) (pick : Nat)
    (resp : Nat → Option Nat) (hfin : Out.fin m.id ∈ (step c counter m so pick resp).2) :
    (c.sampling = true ∧ so = true) ∨
    ((∀ a b ok, Out.request a b ok ∈ (step c counter m so pick resp).2 → ok = true ∧ accepts c.post (resp a) = true) ∧
     (c.mode = .all → ∀ a < c.naddr, Out.request a m.body true ∈ (step c counter m so pick resp).2) ∧
     (c.mode ≠ .all → ∃ a, Out.request a m.body true ∈ (step c counter m so pick resp).2)) := by
  by_cases hs : c.sampling = true ∧ so = true
  · exact Or.inl hs
  · right
    cases hm : c.mode with
    | all =>
      rw [step_all c counter m so pick resp hs hm] at hfin ⊢
      have hok : (sendAll c.post m.body resp (List.range c.naddr)).2 = true := by
        cases h : (sendAll c.post m.body resp (List.range c.naddr)).2 with
        | true => rfl
        | false =>
          rw [h] at hfin
          simp at hfin
          exact absurd hfin (sendAll_no_fin c.post m.body resp _ m.id).1
      refine ⟨?_, ?_, fun h => absurd rfl h⟩
      · intro a b ok hmem
        simp only [List.mem_append, List.mem_singleton] at hmem
        cases hmem with
        | inl hmem =>
          obtain ⟨a', ha', e⟩ := sendAll_mem c.post m.body resp _ _ hmem
          cases e
          have := (sendAll_ok c.post m.body resp _).mp hok a ha'
          exact ⟨this, this⟩
        | inr hmem => rw [hok] at hmem; simp at hmem
      · intro _ a ha
        simp only [List.mem_append]
        exact Or.inl (sendAll_all c.post m.body resp _ hok a (List.mem_range.mpr ha))
    | roundRobin =>
      by_cases hn : c.naddr = 0
      · rw [step_rr_zero c counter m so pick resp hs hm hn] at hfin; simp at hfin
      · rw [step_rr c counter m so pick resp hs hm hn] at hfin ⊢
        cases hacc : accepts c.post (resp ((counter + 1) % c.naddr)) with
        | false => rw [hacc] at hfin; simp at hfin
        | true =>
          refine ⟨?_, fun h => (by cases h), fun _ => ⟨_, List.mem_cons_self ..⟩⟩
          intro a b ok hmem
          simp at hmem
          obtain ⟨rfl, rfl, rfl⟩ := hmem
          exact ⟨rfl, hacc⟩
    | hostPool =>
      rw [step_hp c counter m so pick resp hs hm] at hfin ⊢
      cases hacc : accepts c.post (resp pick) with
      | false => rw [hacc] at hfin; simp at hfin
      | true =>
        refine ⟨?_, fun h => (by cases h), fun _ => ⟨_, List.mem_cons_self ..⟩⟩
        intro a b ok hmem
        simp at hmem
        obtain ⟨rfl, rfl, rfl⟩ := hmem
        exact ⟨rfl, hacc⟩

/-- **Reject implies requeue (nsq_to_http).** If any request of a handling was not accepted
(non-2xx / non-200 status, transport error, timeout), the message is requeued and never finished. -/
theorem http_reject_implies_requeue (c : Cfg) (counter : Nat) (m : Msg) (so : Bool) (pick : Nat)
    (resp : Nat → Option Nat) (a : Nat) (b : Bytes)
    (hrej : Out.request a b false ∈ (step c counter m so pick resp).2) :
    Out.req m.id ∈ (step c counter m so pick resp).2 ∧ Out.fin m.id ∉ (step c counter m so pick resp).2 := by
  by_cases hs : c.sampling = true ∧ so = true
  · have : so = true := hs.2
    subst this
    rw [step_sampled c counter m pick resp hs.1] at hrej; simp at hrej
  · cases hm : c.mode with
    | all =>
      rw [step_all c counter m so pick resp hs hm] at hrej ⊢
      simp only [List.mem_append, List.mem_singleton] at hrej
      have hin : Out.request a b false ∈ (sendAll c.post m.body resp (List.range c.naddr)).1 := by
        cases hrej with
        | inl h => exact h
        | inr h => split at h <;> cases h
      have hf := sendAll_reject c.post m.body resp _ a b hin
      rw [hf]
      have hno := sendAll_no_fin c.post m.body resp (List.range c.naddr) m.id
      simp only [List.mem_append, List.mem_singleton]
      exact ⟨Or.inr (by simp), fun h => by cases h with | inl h => exact hno.1 h | inr h => simp at h⟩
    | roundRobin =>
      by_cases hn : c.naddr = 0
      · rw [step_rr_zero c counter m so pick resp hs hm hn] at hrej; simp at hrej
      · rw [step_rr c counter m so pick resp hs hm hn] at hrej ⊢
        cases hacc : accepts c.post (resp ((counter + 1) % c.naddr)) with
        | true => rw [hacc] at hrej; simp at hrej
        | false => simp
    | hostPool =>
      rw [step_hp c counter m so pick resp hs hm] at hrej ⊢
      cases hacc : accepts c.post (resp pick) with
      | true => rw [hacc] at hrej; simp at hrej
      | false => simp

/-- **Body handed to `Publish` unmodified (nsq_to_http).** In the model every `Out.request` carries `m.body`: the handler
passes the message body, and nothing else, to `Publisher.Publish`. This holds *by construction of the model* (audit round 7,
C23) — it states what `HandleMessage` passes on, not what goes over the wire. The wire-level statements are: POST — the
request body is the message body (checked on every run by the harness oracle "arrived modified", not a theorem); GET — the
request target is `template[%s := QueryEscape body]` and the destination recovers the body byte-exactly
(`Nsq.Props.C20Get.get_endpoint_clean`, `get_escape_roundtrip`, tied on the real `GetPublisher`). -/
theorem http_body_unmodified (c : Cfg) (counter : Nat) (m : Msg) (so : Bool) (pick : Nat)
    (resp : Nat → Option Nat) (a : Nat) (b : Bytes) (ok : Bool)
    (h : Out.request a b ok ∈ (step c counter m so pick resp).2) : b = m.body := by
  by_cases hs : c.sampling = true ∧ so = true
  · have : so = true := hs.2
    subst this
    rw [step_sampled c counter m pick resp hs.1] at h; simp at h
  · cases hm : c.mode with
    | all =>
      rw [step_all c counter m so pick resp hs hm] at h
      simp only [List.mem_append, List.mem_singleton] at h
      cases h with
      | inl h => obtain ⟨a', _, e⟩ := sendAll_mem c.post m.body resp _ _ h; cases e; rfl
      | inr h => split at h <;> cases h
    | roundRobin =>
      by_cases hn : c.naddr = 0
      · rw [step_rr_zero c counter m so pick resp hs hm hn] at h; simp at h
      · rw [step_rr c counter m so pick resp hs hm hn] at h
        simp at h
        cases h with
        | inl h => exact h.2.1
        | inr h => split at h <;> cases h
    | hostPool =>
      rw [step_hp c counter m so pick resp hs hm] at h
      simp at h
      cases h with
      | inl h => exact h.2.1
      | inr h => split at h <;> cases h

/-- A message is dropped un-forwarded only by sampling: without sampling configured a `Finish`
always has an accepted request behind it. -/
theorem http_no_silent_drop (c : Cfg) (counter : Nat) (m : Msg) (so : Bool) (pick : Nat) (resp : Nat → Option Nat)
    (hns : c.sampling = false) (hn : c.naddr ≠ 0) (hfin : Out.fin m.id ∈ (step c counter m so pick resp).2) :
    ∃ a, Out.request a m.body true ∈ (step c counter m so pick resp).2 := by
  cases http_fin_only_after_accept c counter m so pick resp hfin with
  | inl h => rw [hns] at h; cases h.1
  | inr h =>
    by_cases hm : c.mode = .all
    · exact ⟨0, h.2.1 hm 0 (Nat.pos_of_ne_zero hn)⟩
    · exact h.2.2 hm

/-- one good attempt: not sampled out, every destination accepts — the handling is a non-empty block of accepted
requests carrying the body (every address in mode *all*), followed by `Finish` -/
theorem http_good_attempt (c : Cfg) (hn : c.naddr ≠ 0) (counter : Nat) (m : Msg) (so : Bool) (pick : Nat)
    (resp : Nat → Option Nat) (hso : so = false) (hacc : ∀ a, accepts c.post (resp a) = true) :
    ∃ reqs, (step c counter m so pick resp).2 = reqs ++ [Out.fin m.id] ∧
      (∃ a, Out.request a m.body true ∈ reqs) ∧
      (c.mode = .all → ∀ a < c.naddr, Out.request a m.body true ∈ reqs) := by
  have hs : ¬(c.sampling = true ∧ so = true) := by rw [hso]; simp
  cases hm : c.mode with
  | all =>
    have hok : (sendAll c.post m.body resp (List.range c.naddr)).2 = true :=
      (sendAll_ok c.post m.body resp _).mpr (fun a _ => hacc a)
    have hall := sendAll_all c.post m.body resp _ hok
    refine ⟨(sendAll c.post m.body resp (List.range c.naddr)).1, ?_, ?_, ?_⟩
    · rw [step_all c counter m so pick resp hs hm, hok]; simp
    · exact ⟨0, hall 0 (List.mem_range.mpr (Nat.pos_of_ne_zero hn))⟩
    · intro _ a ha; exact hall a (List.mem_range.mpr ha)
  | roundRobin =>
    refine ⟨[Out.request ((counter + 1) % c.naddr) m.body true], ?_, ⟨_, List.mem_singleton.mpr rfl⟩, fun h => by cases h⟩
    rw [step_rr c counter m so pick resp hs hm hn, hacc]; simp
  | hostPool =>
    refine ⟨[Out.request pick m.body true], ?_, ⟨_, List.mem_singleton.mpr rfl⟩, fun h => by cases h⟩
    rw [step_hp c counter m so pick resp hs hm, hacc]; simp

/-- **Eventual delivery (partial).** *Hypotheses (not proved here):* the source redelivers an unfinished message
(C01) and the destination eventually accepts — i.e. among the attempts `ins` for message `m` there is one that is not
sampled out and whose every request is accepted; and at least one address is configured (`naddr ≠ 0`; guaranteed by
main(), see `http_fin_only_after_accept`). Then the trace contains **an accepted request carrying the body** (one for every
address in mode *all*) **followed by `Finish m`**. (Fairness of redelivery and of the destination is assumed, not
derived. Audit round 7, C23: the earlier form concluded only the `Finish`.) -/
theorem http_eventual_delivery_partial (c : Cfg) (hn : c.naddr ≠ 0) (m : Msg) (ins : List In) (counter : Nat)
    (hgood : ∃ i ∈ ins, i.m = m ∧ i.sampledOut = false ∧ ∀ a, accepts c.post (i.resp a) = true) :
    ∃ pre post, run c counter ins = pre ++ Out.fin m.id :: post ∧
      (∃ a, Out.request a m.body true ∈ pre) ∧
      (c.mode = .all → ∀ a < c.naddr, Out.request a m.body true ∈ pre) := by
  induction ins generalizing counter with
  | nil => obtain ⟨i, hi, _⟩ := hgood; cases hi
  | cons i is ih =>
    obtain ⟨j, hj, hjm, hjs, hja⟩ := hgood
    cases hj with
    | tail _ hj =>
      obtain ⟨pre, post, hrun, hreq, hall⟩ := ih (step c counter i.m i.sampledOut i.pick i.resp).1 ⟨j, hj, hjm, hjs, hja⟩
      refine ⟨(step c counter i.m i.sampledOut i.pick i.resp).2 ++ pre, post, ?_, ?_, ?_⟩
      · unfold run; rw [hrun]; simp
      · obtain ⟨a, ha⟩ := hreq; exact ⟨a, List.mem_append_right _ ha⟩
      · intro hm a ha; exact List.mem_append_right _ (hall hm a ha)
    | head =>
      obtain ⟨reqs, hstep, hreq, hall⟩ := http_good_attempt c hn counter m i.sampledOut i.pick i.resp hjs hja
      refine ⟨reqs, run c (step c counter i.m i.sampledOut i.pick i.resp).1 is, ?_, hreq, hall⟩
      have e : run c counter (i :: is) = (step c counter i.m i.sampledOut i.pick i.resp).2 ++
          run c (step c counter i.m i.sampledOut i.pick i.resp).1 is := rfl
      rw [e, hjm, hstep]
      simp

/-- the hypothesis `naddr ≠ 0` is needed: with no address, mode *all* finishes without any request -/
example : run ⟨.all, 0, true, false⟩ 0 [⟨⟨7, [1]⟩, false, 0, fun _ => some 200⟩] = [Out.fin 7] := by decide
/-- `http_eventual_delivery_partial` on a concrete trace: first attempt rejected, second accepted by both addresses -/
example : run ⟨.all, 2, true, false⟩ 0
      [⟨⟨7, [1]⟩, false, 0, fun _ => some 500⟩, ⟨⟨7, [1]⟩, false, 0, fun _ => some 200⟩] =
    [Out.request 0 [1] false, Out.req 7, Out.request 0 [1] true, Out.request 1 [1] true, Out.fin 7] := by decide

/-! ### the tool as shipped (handler behind go-nsq's `handlerLoop` with its `max_attempts` give-up) -/

/-- full statement for the tool: a `Finish` always has sampling or an accepted request behind it -/
def tool_fin_only_after_accept : Prop :=
  ∀ (c : Cfg) (maxAttempts attempts counter : Nat) (m : Msg) (so : Bool) (pick : Nat) (resp : Nat → Option Nat),
    Out.fin m.id ∈ (consume c maxAttempts attempts counter m so pick resp).2 →
      (c.sampling = true ∧ so = true) ∨ ∃ a, Out.request a m.body true ∈ (consume c maxAttempts attempts counter m so pick resp).2

/-- … is **false on the current tree** (open finding): with go-nsq's default `max_attempts = 5` the sixth
delivery of a message is finished without any request — a destination that failed five times never gets it. -/
theorem tool_fin_only_after_accept_false : ¬ tool_fin_only_after_accept := by
  intro h
  have hw : (consume ⟨.roundRobin, 1, true, false⟩ 5 6 0 ⟨7, [1]⟩ false 0 (fun _ => some 500)).2 = [Out.fin 7] := by decide
  have := h ⟨.roundRobin, 1, true, false⟩ 5 6 0 ⟨7, [1]⟩ false 0 (fun _ => some 500) (by rw [hw]; simp)
  rw [hw] at this
  cases this with
  | inl h => cases h.1
  | inr h => obtain ⟨a, ha⟩ := h; simp at ha

/-- … and holds whenever the library does not give up (`max_attempts = 0`, or attempts ≤ max_attempts). -/
theorem tool_fin_only_after_accept_partial (c : Cfg) (hn : c.naddr ≠ 0) (maxAttempts attempts counter : Nat) (m : Msg)
    (so : Bool) (pick : Nat) (resp : Nat → Option Nat) (hno : shouldFail maxAttempts attempts = false)
    (hfin : Out.fin m.id ∈ (consume c maxAttempts attempts counter m so pick resp).2) :
    (c.sampling = true ∧ so = true) ∨ ∃ a, Out.request a m.body true ∈ (consume c maxAttempts attempts counter m so pick resp).2 := by
  unfold consume at hfin ⊢
  rw [hno] at hfin ⊢
  simp only [Bool.false_eq_true, if_false] at hfin ⊢
  cases http_fin_only_after_accept c counter m so pick resp hfin with
  | inl h => exact Or.inl h
  | inr h =>
    right
    by_cases hm : c.mode = .all
    · exact ⟨0, h.2.1 hm 0 (Nat.pos_of_ne_zero hn)⟩
    · exact h.2.2 hm

example : shouldFail 5 5 = false ∧ shouldFail 5 6 = true ∧ shouldFail 0 1000 = false := by decide

example : (step ⟨.all, 2, true, false⟩ 0 ⟨7, [1]⟩ false 0 (fun a => if a = 0 then some 200 else some 500)).2 =
    [Out.request 0 [1] true, Out.request 1 [1] false, Out.req 7] := by decide
example : (step ⟨.all, 2, true, false⟩ 0 ⟨7, [1]⟩ false 0 (fun _ => some 204)).2 =
    [Out.request 0 [1] true, Out.request 1 [1] true, Out.fin 7] := by decide
example : (step ⟨.roundRobin, 2, false, false⟩ 4 ⟨7, [1]⟩ false 0 (fun _ => some 204)).2 =
    [Out.request 1 [1] false, Out.req 7] := by decide   -- GET accepts only 200
example : (step ⟨.hostPool, 2, true, true⟩ 4 ⟨7, [1]⟩ true 1 (fun _ => none)).2 = [Out.fin 7] := by decide

end Http

/-! ## nsq_to_nsq -/
section N2N
open Nsq.Model.Relay Nsq.Model.Relay.N2N

/-- **FIN only after accept (nsq_to_nsq).** A step finishes message `id` only when the destination
answered OK to a transaction that carries this message (the `accepted` event right before it), or
when a configured JSON filter drops the message. -/
theorem n2n_fin_only_after_accept (c : Cfg) (st : St) (ev : Ev) (id : Nat)
    (hfin : Out.fin id ∈ (step c st ev).2) :
    (∃ i tx, ev = .result i true ∧ st.outstanding[i]? = some tx ∧ tx.id = id ∧
        (step c st ev).2 = [Out.accepted tx.addr tx.id, Out.fin tx.id]) ∨
    (c.filterOn = true ∧ ∃ m pick ae, ev = .msg m .drop pick ae ∧ m.id = id) := by
  cases ev with
  | msg m f pick ae =>
    right
    have hpub : ∀ body, Out.fin id ∉ (publishTo c st m body pick ae).2 := by
      intro body
      unfold publishTo
      split
      · simp
      · split <;> simp
    by_cases hf : c.filterOn = false
    · have : (step c st (.msg m f pick ae)).2 = (publishTo c st m m.body pick ae).2 := by simp [step, hf]
      rw [this] at hfin
      exact absurd hfin (hpub _)
    · have hf' : c.filterOn = true := by simpa using hf
      cases f with
      | drop =>
        have : (step c st (.msg m .drop pick ae)).2 = [Out.fin m.id] := by simp [step, hf']
        rw [this] at hfin
        simp at hfin
        exact ⟨hf', m, pick, ae, rfl, hfin.symm⟩
      | backoff =>
        have : (step c st (.msg m .backoff pick ae)).2 = [Out.req m.id] := by simp [step, hf']
        rw [this] at hfin; simp at hfin
      | marshalErr =>
        have : (step c st (.msg m .marshalErr pick ae)).2 = [Out.req m.id] := by simp [step, hf']
        rw [this] at hfin; simp at hfin
      | pass b =>
        have : (step c st (.msg m (.pass b) pick ae)).2 = (publishTo c st m b pick ae).2 := by simp [step, hf']
        rw [this] at hfin
        exact absurd hfin (hpub _)
  | result i ok =>
    left
    cases ho : st.outstanding[i]? with
    | none => simp [step, ho] at hfin
    | some tx =>
      cases ok with
      | false => simp [step, ho] at hfin
      | true =>
        have hs : (step c st (.result i true)).2 = [Out.accepted tx.addr tx.id, Out.fin tx.id] := by simp [step, ho]
        rw [hs] at hfin
        simp at hfin
        exact ⟨i, tx, rfl, ho, hfin.symm, hs⟩

/-- **Reject implies requeue (nsq_to_nsq).** A failed transaction (error frame, lost connection) is
answered by `Requeue`, never `Finish`; so is a `PublishAsync` that fails at once. -/
theorem n2n_reject_implies_requeue (c : Cfg) (st : St) (i : Nat) (tx : Tx) (h : st.outstanding[i]? = some tx) :
    (step c st (.result i false)).2 = [Out.rejected tx.addr tx.id, Out.req tx.id] := by
  simp [step, h]

theorem n2n_async_error_requeues (c : Cfg) (st : St) (m : Msg) (f : Filter) (pick : Nat)
    (hnf : c.filterOn = false) (hn : ¬(c.roundRobin = true ∧ c.naddr = 0)) :
    (step c st (.msg m f pick true)).2 = [Out.req m.id] := by
  simp [step, hnf, publishTo, hn]

/-- **Body unmodified (nsq_to_nsq).** Without a JSON filter / whitelist the published body is the
message body and the transaction remembers the right message. -/
theorem n2n_body_unmodified (c : Cfg) (st : St) (m : Msg) (f : Filter) (pick : Nat) (ae : Bool)
    (hnf : c.filterOn = false) :
    (∀ a id b, Out.publish a id b ∈ (step c st (.msg m f pick ae)).2 → id = m.id ∧ b = m.body) ∧
    (∀ tx ∈ (step c st (.msg m f pick ae)).1.outstanding, tx ∈ st.outstanding ∨ (tx.id = m.id ∧ tx.body = m.body)) := by
  unfold step
  simp only [hnf, if_true]
  unfold publishTo
  split
  · simp; exact fun tx h => Or.inl h
  · split
    · simp; exact fun tx h => Or.inl h
    · simp
      intro tx h
      cases h with
      | inl h => exact Or.inl h
      | inr h => subst h; exact Or.inr ⟨rfl, rfl⟩

/-- Over whole histories: every transaction still outstanding was published in this history (or was
outstanding at the start) — so the `accepted`/`fin` pair of `n2n_fin_only_after_accept` always refers
to a `publish` of the same message id and body. -/
theorem n2n_outstanding_published (c : Cfg) (evs : List Ev) (st : St) :
    ∀ tx ∈ (runSt c st evs).outstanding,
      tx ∈ st.outstanding ∨ Out.publish tx.addr tx.id tx.body ∈ run c st evs := by
  induction evs generalizing st with
  | nil => intro tx h; exact Or.inl h
  | cons e es ih =>
    intro tx htx
    unfold runSt at htx
    unfold run
    rw [List.mem_append]
    cases ih (step c st e).1 tx htx with
    | inr h => exact Or.inr (Or.inr h)
    | inl h =>
      -- tx is outstanding right after `e`: it was there before, or `e` published it
      cases e with
      | result i ok =>
        left
        unfold step at h
        cases ho : st.outstanding[i]? with
        | none => simp [ho] at h; exact h
        | some t => simp only [ho] at h; exact List.mem_of_mem_eraseIdx h
      | msg m f pick ae =>
        have key : ∀ body, tx ∈ (publishTo c st m body pick ae).1.outstanding →
            tx ∈ st.outstanding ∨ Out.publish tx.addr tx.id tx.body ∈ (publishTo c st m body pick ae).2 := by
          intro body hin
          unfold publishTo at hin ⊢
          split at hin
          · rw [if_pos (by assumption)]; exact Or.inl hin
          · rename_i h1
            rw [if_neg h1]
            split at hin
            · rename_i h2; rw [if_pos h2]; exact Or.inl hin
            · rename_i h2
              rw [if_neg h2]
              simp at hin
              cases hin with
              | inl hin => exact Or.inl hin
              | inr hin => subst hin; right; simp
        unfold step at h ⊢
        by_cases hf : c.filterOn = false
        · simp only [hf, if_true] at h ⊢
          cases key _ h with
          | inl h => exact Or.inl h
          | inr h => exact Or.inr (Or.inl h)
        · simp only [hf] at h ⊢
          cases f with
          | drop => exact Or.inl h
          | backoff => exact Or.inl h
          | marshalErr => exact Or.inl h
          | pass b =>
            simp only [] at h ⊢
            cases key _ h with
            | inl h => exact Or.inl h
            | inr h => exact Or.inr (Or.inl h)

example : (step ⟨true, 2, false⟩ ⟨0, []⟩ (.msg ⟨5, [9]⟩ .drop 0 false)) =
    (⟨1, [⟨1, 5, [9]⟩]⟩, [Out.publish 1 5 [9]]) := by decide
example : (step ⟨true, 2, false⟩ ⟨1, [⟨1, 5, [9]⟩]⟩ (.result 0 true)).2 = [Out.accepted 1 5, Out.fin 5] := by decide
example : (step ⟨true, 2, false⟩ ⟨1, [⟨1, 5, [9]⟩]⟩ (.result 0 false)).2 = [Out.rejected 1 5, Out.req 5] := by decide
example : (step ⟨false, 2, true⟩ ⟨0, []⟩ (.msg ⟨5, [9]⟩ .drop 0 false)).2 = [Out.fin 5] := by decide

end N2N

end Nsq.Props.C20
