import Nsq.Proofs.ToFile
import Nsq.Proofs.ToFileNoOverwrite
import Nsq.Proofs.ToFileTrace
/-!
# C19 — nsq_to_file never acknowledges what it has not safely written

Property theorems about the router model `Nsq.Model.ToFile` (helper lemmas: `Nsq.Proofs.ToFile`).
Every statement quantifies over every configuration `c` (gzip, rotate-size, rotate-interval,
work-dir, skip-empty-files, max-in-flight, with/without `<REV>`), every initial directory content
`fs0` (pre-existing colliding files), every event list (messages, ticks, HUP, TERM, stop; with
arbitrary clock readings, file names and `IsStarved` answers) and every fault schedule `io`
(which system call fails → `os.Exit(1)`, before which system call or `Finish` a SIGKILL lands).

The model is tied to apps/nsq_to_file by `Nsq.Tie.ToolsToFile` (regenerated statement skeletons)
and by the correspondence harness (real `FileLogger.router()` on an owned clock).
-/
namespace Nsq.Props.C19
open Nsq.Model.ToFile Nsq.Proofs.ToFile

/-- `l` is a segment of the part of `f` that survives a power loss (the fsynced prefix of the
decodable bytes; for gzip output: of the payload of closed members). This is an *infix* claim: it does not say
that `l` starts a line, nor that two messages use different bytes (audit round 7, C5) — the line-level statement
(one record per FINished occurrence, at a line start, pairwise disjoint) is `Nsq.Props.C19Lines.LinesSafe`. -/
def SurvivesIn (f : File) (l : Bytes) : Prop := ∃ a b, f.data.take f.durable = a ++ l ++ b

/-- some file that has a name in the work or output directory durably holds `l` -/
def Safe (fs : FS) (l : Bytes) : Prop := ∃ p f, fs.get p = some f ∧ SurvivesIn f l

theorem safe_of_durS {fs : FS} {l : Bytes} (h : DurS fs l) : Safe fs l := by
  obtain ⟨p, f, hg, a, b, hab, hlen⟩ := h
  refine ⟨p, f, hg, a, b.take (f.durable - (a ++ l).length), ?_⟩
  rw [hab, List.take_append]
  have : (a ++ l).take f.durable = a ++ l := List.take_of_length_le hlen
  rw [this]

/-- **FIN implies durable.** In every reachable state every message that has been FINished has
`body ++ "\n"` inside the fsynced prefix of a named file (gzip: inside a closed member inside the
fsynced prefix). Infix statement; the stronger line-level statement and its status on the current tree
(false in plain append mode behind a torn tail: `fin_owns_line_full_false`) are in `Nsq.Props.C19Lines`. -/
theorem fin_implies_durable (c : Cfg) (io : Nat → Fault) (fs0 : FS) (evs : List (Ev × Bool)) :
    ∀ m ∈ (run c io (init fs0) evs).finished, Safe (run c io (init fs0) evs).fs (line m) :=
  fun m hm => safe_of_durS ((inv_run io evs _ (inv_init c fs0)).fin m hm)

/-- The same from any state satisfying the invariant (e.g. in the middle of a run). -/
theorem fin_implies_durable_from (c : Cfg) (io : Nat → Fault) (st : St) (h : Inv c st) (evs : List (Ev × Bool)) :
    ∀ m ∈ (run c io st evs).finished, Safe (run c io st evs).fs (line m) :=
  fun m hm => safe_of_durS ((inv_run io evs _ h).fin m hm)

/-- **Kill anywhere.** The fault schedule can stop the process (SIGKILL, or a failing call →
`os.Exit(1)`) before any system call and before any single `Finish` of any event. Once stopped,
nothing changes any more, and everything that was FINished before the stop is safe on disk.
(Un-FINished messages are still owed by nsqd: C01.) -/
theorem kill_anywhere (c : Cfg) (io : Nat → Fault) (fs0 : FS) (before after : List (Ev × Bool))
    (hstop : (run c io (init fs0) before).status ≠ .running) :
    run c io (init fs0) (before ++ after) = run c io (init fs0) before ∧
    ∀ m ∈ (run c io (init fs0) before).finished, Safe (run c io (init fs0) before).fs (line m) :=
  ⟨by rw [run_append]; exact run_stopped c io _ after hstop, fin_implies_durable c io fs0 before⟩

/-- **Rotation keeps pending messages.** `updateFile()` closes the old file durably (gzip close,
fsync) before the new file is opened: if the tool is still running after a rotation, every message
written so far and not yet FINished is already safe — so the FINs issued after the next `Sync()`
of the *new* file never acknowledge bytes that sit un-synced in the old one. -/
theorem rotation_keeps_pending (c : Cfg) (io : Nat → Fault) (st : St) (h : Inv c st) (now : Int) (fn : String)
    (hrun : (updateFile c io st now fn).status = .running) :
    ∀ m ∈ (updateFile c io st now fn).pending, Safe (updateFile c io st now fn).fs (line m) :=
  fun m hm => safe_of_durS ((inv_updateFile io st now fn h).2 hrun m hm)

/-- `Close()` alone (HUP, stop): same guarantee. -/
theorem close_keeps_pending (c : Cfg) (io : Nat → Fault) (st : St) (h : Inv c st)
    (hrun : (closeOut c io st).status = .running) :
    ∀ m ∈ (closeOut c io st).pending, Safe (closeOut c io st).fs (line m) :=
  fun m hm => safe_of_durS ((inv_closeOut io st h).2 hrun m hm)


/-- **No overwrite.** Whatever the directories contained before the tool started (`fs0`) is never
overwritten, truncated or re-pointed: every pre-existing file in the output dir (and, without a
separate work dir, every pre-existing file) still has its name, and its old bytes are a prefix of
its current bytes (`O_APPEND`); with `O_EXCL` (gzip or rotate-interval) *every* pre-existing file —
work dir included — is byte-identical. Holds along every run, for every fault schedule, also when
other processes create new files in between (`Ev.ext`). The statement is anchored at `fs0` only: files that
appear later (dropped by other processes, created and closed by the tool itself) are covered by the step-wise
version `Nsq.Props.C19Mono.no_overwrite_stepwise`; a pre-existing file in a *separate work dir* in append mode
is not covered by the first part (the tool may append to it and move it to the output dir): for those see
`Nsq.Props.C19Mono.files_grow_or_move` (same name or moved work → output, old bytes a prefix). -/
theorem no_overwrite (c : Cfg) (hwf : c.WF) (io : Nat → Fault) (fs0 : FS) (hdom : DomOk fs0)
    (evs : List (Ev × Bool)) (p : Path) (f0 : File) (hp : fs0.get p = some f0) :
    (p.out = true ∨ c.workDir = false →
      ∃ f, (run c io (init fs0) evs).fs.get p = some f ∧ (∃ x, f.data = f0.data ++ x) ∧ f0.durable ≤ f.durable) ∧
    (c.excl = true → (run c io (init fs0) evs).fs.get p = some f0) := by
  have h := noOv_run hwf io evs _ (noOv_init c fs0 hdom)
  exact ⟨fun hk => h.keep p f0 hp hk, fun hx => h.excl hx p f0 hp⟩

/-- **The revision searches terminate.** The `for ; ; rev++` loops of `updateFile` and `Close` end:
with as many iterations as one more than the highest revision that ever existed, a free name is
found. (`Cfg.WF` is what `computeFilenameFormat` enforces: `<REV>` is present whenever a loop can
`continue`.) -/
theorem rev_terminates (c : Cfg) (hwf : c.WF) (fs : FS) (hdom : DomOk fs) (fn : String) (r : Nat) :
    search (taken c fs fn) (fuel fs) r ≠ none ∧
    (c.hasRev = true → search (takenDst c fs fn) (fuel fs) r ≠ none) :=
  ⟨search_terminates fs hdom _ r (fun i hi => taken_witness c hwf fs fn i hi),
   fun hrev => search_terminates fs hdom _ r (fun i hi => takenDst_witness c hrev fs fn i hi)⟩

/-- … so the model's `diverged` status (search fuel exhausted) is unreachable. -/
theorem never_diverges (c : Cfg) (hwf : c.WF) (io : Nat → Fault) (fs0 : FS) (hdom : DomOk fs0) (evs : List (Ev × Bool)) :
    (run c io (init fs0) evs).status ≠ .diverged :=
  (noOv_run hwf io evs _ (noOv_init c fs0 hdom)).nodiv

def cfgPlain : Cfg := ⟨false, 0, 0, false, false, 2, true, false, false, false, false⟩

/-! ### the tool as shipped (router behind go-nsq's `handlerLoop` with its `max_attempts` give-up) -/

/-- full statement for the tool: whatever is finished is safe on disk -/
def tool_fin_implies_durable : Prop :=
  ∀ (c : Cfg) (io : Nat → Fault) (maxAttempts : Nat) (fs0 : FS) (m : Msg) (attempts : Nat) (now : Int) (fn : String),
    ∀ x ∈ (toolStep c io maxAttempts (init fs0) m attempts now fn false).finished,
      Safe (toolStep c io maxAttempts (init fs0) m attempts now fn false).fs (line x)

/-- … is **false on the current tree** (open finding): with go-nsq's default `max_attempts = 5` the sixth
delivery of a message is finished by the consumer library without ever reaching `HandleMessage` — if the
five earlier attempts ended before the write (the tool was killed or took `os.Exit(1)`, e.g. disk full,
while the message was in flight), the message is acknowledged and in no file. -/
theorem tool_fin_implies_durable_false : ¬ tool_fin_implies_durable := by
  intro h
  have := h cfgPlain (fun _ => .ok) 5 FS.empty ⟨1, [104]⟩ 6 0 "t" ⟨1, [104]⟩ (by decide)
  obtain ⟨p, f, hg, _⟩ := this
  simp [toolStep, shouldFail, init, FS.empty] at hg

/-- … and holds whenever the library does not give up (`max_attempts = 0`, or attempts ≤ max_attempts):
then the tool step *is* the router step. -/
theorem tool_fin_implies_durable_partial (c : Cfg) (io : Nat → Fault) (maxAttempts : Nat) (st : St) (hinv : Inv c st)
    (m : Msg) (attempts : Nat) (now : Int) (fn : String) (starved : Bool)
    (hno : shouldFail maxAttempts attempts = false) :
    ∀ x ∈ (toolStep c io maxAttempts st m attempts now fn starved).finished,
      Safe (toolStep c io maxAttempts st m attempts now fn starved).fs (line x) := by
  have heq : toolStep c io maxAttempts st m attempts now fn starved = step c io st (.msg m now fn) starved := by
    unfold toolStep
    by_cases hr : st.status ≠ .running
    · rw [if_pos hr]; unfold step; rw [if_pos hr]
    · rw [if_neg hr, hno]; simp
  rw [heq]
  exact fun x hx => safe_of_durS ((inv_step io st _ starved hinv).fin x hx)

/-- **Syscall leg.** The checker run over the `strace` log of the real process is sound: a trace it
accepts has an `fsync` of the file between every `write` to an output file and every later FIN. -/
theorem fin_after_fsync_checker_sound (tr pre mid post : List Nsq.Model.ToFileTrace.Sys) (f id : Nat)
    (h : Nsq.Model.ToFileTrace.checkTrace tr = true)
    (hs : tr = pre ++ .write f :: mid ++ .fin id :: post) : .fsync f ∈ mid :=
  Nsq.Proofs.ToFileTrace.checkTrace_sound tr pre mid post f id h hs

/-- **Syscall leg, end to end.** For the real binary (FIN commands are written to the socket by
go-nsq's write loop, asynchronously) the per-message checker is sound: in a trace it accepts, before
every `FIN id` the record of message `id` was written to a file and that file was fsynced after it. -/
theorem fin_after_fsync_msg_checker_sound (tr pre post : List Nsq.Model.ToFileTrace.MSys) (id : Nat)
    (h : Nsq.Model.ToFileTrace.checkMsgTrace tr = true) (hs : tr = pre ++ .fin id :: post) :
    ∃ a1 a2 a3 f, pre = a1 ++ .wmsg f id :: a2 ++ .fsync f :: a3 :=
  Nsq.Proofs.ToFileTrace.checkMsgTrace_sound tr pre post id h hs

/-! ### non-vacuity -/

def cfgGzWork : Cfg := ⟨true, 10, 0, true, false, 2, true, false, false, false, false⟩
def noFault : Nat → Fault := fun _ => .ok
def m1 : Msg := ⟨1, [104, 105]⟩
def m2 : Msg := ⟨2, [120]⟩
def evs2 : List (Ev × Bool) := [(.msg m1 100 "t<REV>.log", false), (.msg m2 200 "t<REV>.log", false), (.hup, false)]

/-- messages do get finished: two messages, max-in-flight 2 → both FINished (newest first) -/
example : ((run cfgPlain noFault (init FS.empty) evs2).finished.map (·.id)) = [2, 1] := by decide
example : ((run cfgGzWork noFault (init FS.empty) evs2).finished.map (·.id)) = [2, 1] := by decide
/-- the file really holds the bytes, durably -/
example : (run cfgPlain noFault (init FS.empty) evs2).fs.get ⟨true, "t<REV>.log", 0⟩ =
    some ⟨[104, 105, 10, 120, 10], [], 5⟩ := by decide
/-- gzip + work dir: the finished file was moved to the output dir -/
example : ((run cfgGzWork noFault (init FS.empty) evs2).fs.get ⟨true, "t<REV>.log", 0⟩).isSome = true
    ∧ ((run cfgGzWork noFault (init FS.empty) evs2).fs.get ⟨false, "t<REV>.log", 0⟩).isNone = true := by decide
/-- a SIGKILL between the fsync and the first Finish: stopped, nothing finished, bytes are on disk -/
def killAt (n : Nat) : Nat → Fault := fun k => if k = n then .kill else .ok
example : (run cfgPlain (killAt 4) (init FS.empty) evs2).status = .killed
    ∧ (run cfgPlain (killAt 4) (init FS.empty) evs2).finished = [] := by decide
/-- a SIGKILL between the two Finish calls of one batch: exactly one of the two is finished -/
def m3 : Msg := ⟨3, [121]⟩
def evs3 : List (Ev × Bool) :=
  [(.msg m1 100 "t<REV>.log", false), (.msg m2 200 "t<REV>.log", false), (.msg m3 300 "t<REV>.log", false), (.hup, false)]
example : ((run { cfgPlain with maxInFlight := 3 } (killAt 11) (init FS.empty) evs3).finished.map (·.id)) = [3, 1]
    ∧ (run { cfgPlain with maxInFlight := 3 } (killAt 11) (init FS.empty) evs3).status = .killed := by decide
/-- the invariant is not `True`: a state claiming a FIN for bytes that are nowhere is rejected -/
example : ¬ Inv cfgPlain { init FS.empty with finished := [m1] } := by
  intro h
  obtain ⟨p, f, hg, _⟩ := h.fin m1 (List.mem_cons_self ..)
  simp [init, FS.empty] at hg
/-- `Safe` is not `True` either: written-but-not-fsynced bytes are not safe -/
example : ¬ SurvivesIn ⟨[104, 105, 10], [], 0⟩ (line m1) := by
  intro ⟨a, b, h⟩
  have := congrArg List.length h
  simp [line, m1] at this

/-- pre-existing colliding file in the output dir, O_EXCL mode: untouched, the tool's data goes to rev 1 -/
def fsPre : FS := FS.empty.set ⟨true, "t<REV>.log", 0⟩ ⟨[1, 2, 3], [], 3⟩
example : DomOk fsPre := by
  intro p hp
  by_cases e : p = ⟨true, "t<REV>.log", 0⟩
  · subst e; simp [fsPre, FS.set]
  · simp [fsPre, FS.set, FS.empty, e] at hp
example : cfgGzWork.WF := Or.inl rfl
example : (run cfgGzWork noFault (init fsPre) evs2).fs.get ⟨true, "t<REV>.log", 0⟩ = some ⟨[1, 2, 3], [], 3⟩
    ∧ ((run cfgGzWork noFault (init fsPre) evs2).fs.get ⟨true, "t<REV>.log", 1⟩).isSome = true := by decide
/-- a file appearing in the output dir while the work file is open: `Close` bumps the revision -/
example : ((run cfgGzWork noFault (init FS.empty)
      [(.msg m1 100 "t<REV>.log", false), (.ext ⟨true, "t<REV>.log", 0⟩ [9], false), (.hup, false)]).fs.get
        ⟨true, "t<REV>.log", 1⟩).isSome = true := by decide

end Nsq.Props.C19
