/-
C03 (output-buffer clause) for a BOUNDED `bufio.Writer` — round 9, audit A13.

`Nsq.Model.Pump` keeps the connection's output side at FRAME granularity with an unbounded `buf`: bufio's automatic
flush when a `Write` does not fit, and `output_buffer_size = -1` (`bufio.NewWriterSize(conn, 1)`: every write goes
straight to the socket), are not in it. Here the same output history (`write f | flush`, in the order the frame-level
model produces them) is run through `Nsq.Model.Wire.bufWrite / bufFlush` — C07's byte-level model of `bufio.Writer`,
each frame written as any sequence of chunks (`SendFramedResponse` issues three `Write`s: size, type, data) — for ANY
capacity, and compared with the frame-level run:

* `bytes_are_the_frames` — socket ++ buffer = the encodings of the frames written, in order: nothing dropped, reordered
  or rewritten, whatever the buffer size (byte-level `C03Pump.append_only`);
* `never_later_than_frame_model` — the encoding of what the FRAME-level model has on the socket is a prefix of what the
  byte-level run has on the socket: an automatic flush only ADDS bytes to the socket earlier. The transfer of the
  `C03Pump` statements of the form "… is on the socket after …" (`flushed_by_next_tick`, `not_ready_flushes_and_disarms`,
  `respond_flushes`) to every buffer size is BY INSPECTION, not proved here: `frameRun` over `OAct` is a standalone fold
  with the same `write f | flush` discipline as the output side of `Model.Pump.step`, but no theorem equates the two,
  and no driver op runs `byteRun` (claim audit 2, item 18);
* `flush_empties` / `buffer_bounded` — after a `Flush` nothing is buffered (`flushed_means_empty`), and the buffer never
  holds more than its capacity (for `output_buffer_size = -1`: at most one byte).
Not claimed: WHICH `Write` boundaries the socket sees with a small buffer (a frame may be split over several `Write`s);
the pump correspondence leg runs with buffers large enough that no automatic flush happens (16 KiB default), the
byte-level `bufio` model is tied by C07's wire leg.
-/
import Nsq.Proofs.PumpBytes
namespace Nsq.Props.C03PumpBytes
open Nsq.Model.Wire Nsq.Proofs.Wire Nsq.Proofs.PumpBytes

/-- **nothing dropped, reordered or rewritten, for any buffer size** -/
theorem bytes_are_the_frames {F : Type} (chunks : F → List Bytes) (cap : Nat) (as : List (OAct F)) :
    (byteRun chunks { cap := cap } as).sink ++ (byteRun chunks { cap := cap } as).buf =
      enc chunks ((frameRun ([], []) as).1 ++ (frameRun ([], []) as).2) :=
  (runs_agree chunks as { cap := cap } [] [] (by simp [enc]) ⟨[], by simp [enc]⟩ (by simp)).1

/-- **an automatic flush only puts bytes on the socket EARLIER**: whatever the frame-level model has on the socket
is (encoded) a prefix of the byte-level socket content -/
theorem never_later_than_frame_model {F : Type} (chunks : F → List Bytes) (cap : Nat) (as : List (OAct F)) :
    ∃ r, (byteRun chunks { cap := cap } as).sink = enc chunks (frameRun ([], []) as).1 ++ r :=
  (runs_agree chunks as { cap := cap } [] [] (by simp [enc]) ⟨[], by simp [enc]⟩ (by simp)).2.1

/-- the buffer never exceeds its capacity (`output_buffer_size = -1` ⇒ capacity 1) -/
theorem buffer_bounded {F : Type} (chunks : F → List Bytes) (cap : Nat) (as : List (OAct F)) :
    (byteRun chunks { cap := cap } as).buf.length ≤ cap := by
  have := runs_agree chunks as { cap := cap } [] [] (by simp [enc]) ⟨[], by simp [enc]⟩ (by simp)
  have h := this.2.2.1
  rw [this.2.2.2] at h; exact h

/-- after a `Flush` nothing is buffered, at either level, and the socket holds exactly the frames written -/
theorem flush_empties {F : Type} (chunks : F → List Bytes) (cap : Nat) (as : List (OAct F)) :
    (byteRun chunks { cap := cap } (as ++ [.flush])).buf = [] ∧
    (frameRun ([], []) (as ++ [.flush])).2 = [] ∧
    (byteRun chunks { cap := cap } (as ++ [.flush])).sink = enc chunks (frameRun ([], []) (as ++ [.flush])).1 := by
  have key : ∀ (w : BufW) (s : List F × List F),
      (byteRun chunks w (as ++ [.flush])).buf = [] ∧ (frameRun s (as ++ [.flush])).2 = [] := by
    induction as with
    | nil => intro w s; obtain ⟨a, b⟩ := s; simp [byteRun, frameRun, bufFlush]
    | cons a as ih =>
      intro w s
      obtain ⟨x, y⟩ := s
      cases a <;> simp only [List.cons_append, byteRun, frameRun] <;> exact ih _ _
  have h := bytes_are_the_frames chunks cap (as ++ [.flush])
  have k := key { cap := cap } ([], [])
  refine ⟨k.1, k.2, ?_⟩
  rw [k.1, k.2] at h
  simpa using h

/-! non-vacuity: three 5-byte frames (chunks of 2 + 3 bytes) through a 4-byte buffer, a 1-byte buffer and a large one -/
def ch3 (n : Nat) : List Bytes := [[n.toUInt8, 0], [1, 2, 3]]
def acts : List (OAct Nat) := [.write 7, .write 8, .flush, .write 9]
example : (byteRun ch3 { cap := 4 } acts).sink = [7, 0, 1, 2, 3, 8, 0, 1, 2, 3, 9, 0, 1, 2] ∧
    (byteRun ch3 { cap := 4 } acts).buf = [3] := by decide
example : (byteRun ch3 { cap := 1 } acts).buf = [] := by decide
example : (byteRun ch3 { cap := 100 } acts).sink = [7, 0, 1, 2, 3, 8, 0, 1, 2, 3] ∧
    (frameRun ([], []) acts) = ([7, 8], [9]) := by decide
example : ∃ r, (byteRun ch3 { cap := 4 } acts).sink = enc ch3 [7, 8] ++ r := never_later_than_frame_model ch3 4 acts

end Nsq.Props.C03PumpBytes
