/-
C13 — stats account for every message (channel and client level; the topic level and the
rendering are in the second half of this file).
-/
import Nsq.Proofs.ChanCount
import Nsq.Proofs.ChanInvA
import Nsq.Proofs.ChanInvOk
import Nsq.Props.C02
import Nsq.Proofs.ChanInFl
import Nsq.Props.C01
import Nsq.Proofs.ChanStats
namespace Nsq.Props.C13
open Nsq.Model.Chan Nsq.Proofs.Chan

/-- reachable by atomic operations only (no FIN split around an Empty) -/
def ReachableA (conf : Conf) (c : Chan) : Prop :=
  ∃ (eph : Bool) (cap : Nat) (ops : List Op), (∀ op ∈ ops, op.atomic = true) ∧
    c = run conf { ephemeral := eph, memCap := cap } ops

theorem reachableA_invA {conf : Conf} (hconf : 0 ≤ conf.maxRdy) {c : Chan} (h : ReachableA conf c) : InvA conf c := by
  obtain ⟨eph, cap, ops, hat, rfl⟩ := h
  exact run_invA conf hconf ops hat (invA_init conf eph cap)

/-- the executable form of the atomic invariant holds in every state reachable by atomic ops -/
theorem invOkA_sound {conf : Conf} (hconf : 0 ≤ conf.maxRdy) {c : Chan} (h : ReachableA conf c) : invOkA conf c = true :=
  invOkA_of_invA (reachableA_invA hconf h)

def nInflight (c : Chan) : Nat := c.msgs.countP isInflight
def nDeferred (c : Chan) : Nat := c.msgs.countP isDeferred

/-- C13.1 — `message_count = depth + in-flight + deferred + finished + emptied + sampled out +
dropped by an ephemeral queue`, with `depth = memLen + dqLen` = number of queued messages;
`requeue_count` / `timeout_count` count the accepted REQs / the timeouts. Holds in every
reachable state, micro-steps included. -/
theorem channel_conservation {conf : Conf} {c : Chan} (h : C02.Reachable conf c) :
    c.messageCount = (c.memLen + c.dqLen) + nInflight c + nDeferred c
        + nEv isFin c.hist + nEmptied c.hist + nEv isSampled c.hist + nEv isEphDrop c.hist
    ∧ c.memLen + c.dqLen = nQueued c.msgs
    ∧ c.requeueCount = nEv isReq c.hist ∧ c.timeoutCount = nEv isTimeout c.hist
    ∧ c.messageCount = nEv isFanout c.hist := by
  have hi := C02.reachable_inv h
  have hp := length_partition c.msgs
  have h1 := hi.mcL
  have h2 := hi.counts
  simp only [nGone, nQueued, nInflight, nDeferred] at *
  exact ⟨by omega, by omega, hi.rq, hi.to, hi.mcF⟩

/-- the property's own formula for a durable channel: nothing is ever dropped by the queue
(`Channel.put` overflows to disk) — `message_count = depth + in flight + deferred + finished +
emptied (+ sampled out, 0 without sampling consumers)` -/
theorem conservation_durable {conf : Conf} {cap : Nat} {ops : List Op} :
    let c := run conf { ephemeral := false, memCap := cap } ops
    nEv isEphDrop c.hist = 0 ∧
    c.messageCount = (c.memLen + c.dqLen) + nInflight c + nDeferred c
        + nEv isFin c.hist + nEmptied c.hist + nEv isSampled c.hist := by
  intro c
  have key : ∀ (ops : List Op) (c0 : Chan), c0.ephemeral = false →
      nEv isEphDrop (run conf c0 ops).hist = nEv isEphDrop c0.hist ∧ (run conf c0 ops).ephemeral = false := by
    intro ops
    induction ops with
    | nil => intro c0 h0; exact ⟨rfl, h0⟩
    | cons op ops ih =>
      intro c0 h0
      have h1 := ephDrop_only_ephemeral conf c0 op h0
      have h2 := ih _ h1.2
      exact ⟨h2.1.trans h1.1, h2.2⟩
  have hz : nEv isEphDrop c.hist = 0 := (key ops _ rfl).1
  have := (channel_conservation (conf := conf) (c := c) ⟨false, cap, ops, rfl⟩).1
  exact ⟨hz, by omega⟩

/-- C13.3 / C13.4 — every connected consumer's counters are what that consumer did:
`ready_count` is its last accepted RDY (0 after CLS), `message_count` its deliveries,
`finish_count` / `requeue_count` its accepted FINs / REQs, `in_flight_count` the number of
messages it currently holds — in particular never negative. (Atomic model.) -/
theorem client_counters {conf : Conf} (hconf : 0 ≤ conf.maxRdy) {c : Chan} (h : ReachableA conf c)
    {cl : Client} (hcl : cl ∈ c.clients) :
    cl.rdy = rdyOf c.hist cl.conn ∧ (cl.closing = true → cl.rdy = 0) ∧
    cl.msgCount = nDeliverBy c.hist cl.conn ∧ cl.finCount = nFinBy c.hist cl.conn ∧
    cl.reqCount = nReqBy c.hist cl.conn ∧
    cl.inFlight = (heldBy c.msgs cl.conn : Int) ∧ cl.inFlight = outstanding c.hist cl.conn := by
  have ha := reachableA_invA hconf h
  have h1 := ha.inv.cl cl hcl
  have h2 := ha.clA cl hcl
  exact ⟨h1.2.2.1, h1.2.2.2.2.2, h1.1, h2.2.1, h1.2.1, h2.1, by rw [ha.inv.held]; exact h2.1⟩

/-- C13.4 — no reported number is negative (all are `Nat` in the model except the two `Int`s) -/
theorem nonneg {conf : Conf} (hconf : 0 ≤ conf.maxRdy) {c : Chan} (h : ReachableA conf c)
    {cl : Client} (hcl : cl ∈ c.clients) : 0 ≤ cl.inFlight ∧ 0 ≤ cl.rdy ∧ cl.rdy ≤ conf.maxRdy := by
  have ha := reachableA_invA hconf h
  have h2 := ha.clA cl hcl
  exact ⟨by rw [h2.1]; exact heldBy_nonneg _ _, (ha.inv.cl cl hcl).2.2.2.2.1, h2.2.2.1⟩

/-! ### `in_flight_count` over ALL schedules (fix F13; formerly finding F8) -/

/-- C13.4 at full strength — over every schedule, with FIN split into its two critical sections
(`finChan | finClient`) and the pump into `guard | deliverArmed`: a consumer's `in_flight_count` is
the number of messages it holds in the in-flight map plus the number of its FINs that have
completed on the channel and not yet run `client.FinishedMessage()`. `Channel.Empty` subtracts
per consumer exactly what it dropped (`clientV2.Discarded`, fix F13), so the equation survives an
`Empty` inside the FIN window. -/
theorem inflight_exact_full {conf : Conf} {c : Chan} (h : C02.Reachable conf c) {cl : Client} (hcl : cl ∈ c.clients) :
    cl.inFlight = (heldBy c.msgs cl.conn : Int) + (c.pendingFin.count cl.conn : Nat) := by
  obtain ⟨eph, cap, ops, rfl⟩ := h
  exact (run_invFl conf ops (inv_init eph cap) (inFl_init eph cap)).2 cl hcl

/-- … in particular it is never negative, along any schedule (this was false before F13: the
schedule `f8Ops` below drove it to −1 when `Empty` stored 0). -/
theorem nonneg_full {conf : Conf} {c : Chan} (h : C02.Reachable conf c) {cl : Client} (hcl : cl ∈ c.clients) :
    0 ≤ cl.inFlight := by
  rw [inflight_exact_full h hcl]
  omega

/-- the executable form the driver evaluates at `inv` lines of micro-step episodes -/
theorem inFlOk_sound {conf : Conf} {c : Chan} (h : C02.Reachable conf c) : inFlOk c = true := by
  simp only [inFlOk, List.all_eq_true, beq_iff_eq]
  exact fun cl hcl => inflight_exact_full h hcl

/-- the former F8 schedule: consumer 1 holds message 7; its FIN completes on the channel
(`Channel.FinishMessage`), `Channel.Empty` runs, then `client.FinishedMessage()` decrements -/
def f8Ops : List Op :=
  [.put 7, .addClient 1 60 0, .rdy 1 1, .deliver 1 7 100, .finChan 1 7, .empty, .finClient 1]

/-- after `Empty` inside the window the counter is still 1 (the pending FIN's), afterwards 0 -/
example : (run {} {} (f8Ops.take 6)).clients.map (·.inFlight) = [1] ∧
    (run {} {} f8Ops).clients.map (·.inFlight) = [0] := by decide

/-- and the C03 bound is intact afterwards: with RDY 1 and one message held the next delivery is refused -/
example : ((step {} (run {} {} (f8Ops ++ [.put 8, .put 9, .deliver 1 8 200])) (.deliver 1 9 201)).2) = .reject "guard" := by decide

/-! non-vacuity -/
example : ReachableA {} (run {} {} [.put 7, .addClient 1 60 0, .rdy 1 1, .deliver 1 7 100, .fin 1 7]) :=
  ⟨false, 0, _, by decide, rfl⟩
example : (run ({} : Conf) {} [.put 7, .addClient 1 60 0, .rdy 1 1, .deliver 1 7 100, .fin 1 7]).clients.map
    (fun cl => (cl.rdy, cl.inFlight, cl.msgCount, cl.finCount)) = [(1, 0, 1, 1)] := by decide


/-! ## topic level and rendering -/
section Nsqd
open Nsq.Model.ChanNsqd Nsq.Proofs.ChanNsqd Nsq.Model.ChanStats Nsq.Proofs.ChanStats

/-- C13.2 `topic_conservation` (count) — in every reachable state a topic's `message_count` is the
number of acknowledged publishes plus the messages enqueued by failed MPUBs (their prefix), and
these are exactly the ids sitting in the topic queue or already fanned out. -/
theorem topic_conservation {s : State} (h : C01.NReachable s) {t : Topic} (ht : t ∈ s.topics) :
    t.msgCount = t.acked.length + t.unacked.length ∧
    (∀ i, (i ∈ t.acked ∨ i ∈ t.unacked) ↔ (i ∈ t.queue.map (·.id) ∨ i ∈ t.pumped)) :=
  let hi := (C01.nreachable_inv h).topics t ht
  ⟨hi.count, hi.ackq⟩

/-- C13.2 (bytes) — every publish to an existing topic adds exactly the body bytes of what it
enqueued: PUB/DPUB the message, MPUB all messages, a failed MPUB the prefix that was enqueued before
the failing write; other topics are untouched. -/
theorem topic_bytes (s : State) (t : Nat) {tp : Topic} (hf : findT s.topics t = some tp)
    (op : Nsq.Model.ChanNsqd.Op) (nb nc : Nat)
    (hop : (∃ sz e, op = .pub t sz e ∧ nb = sz ∧ nc = 1) ∨ (∃ sz d e, op = .dpub t sz d e ∧ nb = sz ∧ nc = 1) ∨
           (∃ sizes es, op = .mpub t sizes es ∧ nb = sizes.sum ∧ nc = sizes.length) ∨
           (∃ sizes j es, op = .mpubFail t sizes j es ∧ j < sizes.length ∧ nb = (sizes.take j).sum ∧ nc = j)) :
    ∀ y' ∈ (Nsq.Model.ChanNsqd.step s op).1.topics, ∃ y ∈ s.topics, y'.tid = y.tid ∧
      (y.tid = t → y'.msgBytes = y.msgBytes + nb ∧ y'.msgCount = y.msgCount + nc) ∧ (y.tid ≠ t → y' = y) := by
  have hens : ensureTopic s t = s := by simp [ensureTopic, hf]
  have key : ∀ (f : Topic → Topic), (∀ z, (f z).tid = z.tid ∧ (f z).msgBytes = z.msgBytes + nb ∧ (f z).msgCount = z.msgCount + nc) →
      ∀ y' ∈ updT s.topics t f, ∃ y ∈ s.topics, y'.tid = y.tid ∧
        (y.tid = t → y'.msgBytes = y.msgBytes + nb ∧ y'.msgCount = y.msgCount + nc) ∧ (y.tid ≠ t → y' = y) := by
    intro f hfz y' hy'
    obtain ⟨z, hz, rfl⟩ := mem_updT.1 hy'
    refine ⟨z, hz, ?_⟩
    by_cases hk : z.tid = t
    · simp only [hk, ↓reduceIte]
      exact ⟨hk ▸ (hfz z).1, fun _ => (hfz z).2, fun h => absurd rfl h⟩
    · rw [if_neg hk]
      exact ⟨rfl, fun h => absurd h hk, fun _ => rfl⟩
  rcases hop with ⟨sz, e, rfl, rfl, rfl⟩ | ⟨sz, d, e, rfl, rfl, rfl⟩ | ⟨sizes, es, rfl, rfl, rfl⟩ | ⟨sizes, j, es, rfl, hj, rfl, hnc⟩
  · simp only [Nsq.Model.ChanNsqd.step, hens]
    exact key _ (fun z => by obtain ⟨q, hq, _⟩ := putT_spec z s.nextId nb 0 e; simp [hq])
  · simp only [Nsq.Model.ChanNsqd.step, hens]
    exact key _ (fun z => by obtain ⟨q, hq, _⟩ := putT_spec z s.nextId nb d e; simp [hq])
  · simp only [Nsq.Model.ChanNsqd.step, hens]
    exact key _ (fun z => by obtain ⟨q, el, hq, _⟩ := putMany_spec z s.nextId sizes es; simp [hq])
  · subst hnc
    have hj' : ¬ nc ≥ sizes.length := by omega
    simp only [Nsq.Model.ChanNsqd.step, hens]
    rw [if_neg hj']
    exact key _ (fun z => by obtain ⟨q, el, hq, _⟩ := putMany_spec z s.nextId (sizes.take nc) es; simp [hq])

/-- C13.5 `render_agree` — the JSON and the text rendering, under every topic / channel /
include_clients filter, are projections of one snapshot: every row they show is (the projection
of) the row of the unfiltered JSON rendering for the same (topic, channel) key (text omits
`message_bytes` and `client_count`; `include_clients=false` omits the client list). -/
theorem render_agree (s : State) (fmt : Fmt) (ft fc : Option Nat) (incl : Bool) :
    ∀ r ∈ rows fmt (filterSnap ft fc incl (snapshot s)),
      ∃ r' ∈ rows .json (snapshot s), r'.key = r.key ∧ project fmt incl r' = r := by
  intro r hr
  simp only [rows, List.mem_flatMap, List.mem_cons, List.mem_map] at hr
  obtain ⟨t', ht', hr⟩ := hr
  obtain ⟨t, ht, e1, e2, e3, e4⟩ := mem_filterSnap ht'
  rcases hr with rfl | ⟨c', hc', rfl⟩
  · refine ⟨topicRow .json t, ?_, ?_, ?_⟩
    · simp only [rows, List.mem_flatMap, List.mem_cons, List.mem_map]
      exact ⟨t, ht, Or.inl rfl⟩
    · simp [topicRow, e1]
    · cases fmt <;> cases incl <;> simp [project, topicRow, e1, e2, e3]
  · obtain ⟨c, hc, f1, f2, f3, f4⟩ := e4 c' hc'
    refine ⟨chanRow .json t.tid c, ?_, ?_, ?_⟩
    · simp only [rows, List.mem_flatMap, List.mem_cons, List.mem_map]
      exact ⟨t, ht, Or.inr ⟨c, hc, rfl⟩⟩
    · simp [chanRow, e1, f1]
    · cases fmt <;> cases incl <;> simp_all [project, chanRow]

/-- C13.5, completeness direction (round 9, audit B14; `render_agree` alone is satisfied by a filter that returns
nothing): every topic of the snapshot that passes the topic filter — and, under a channel filter, owns that channel —
is shown (projected) by the JSON and the text rendering, and so is each of its channels that passes the channel
filter. Together with `render_agree`: the filtered rendering is EXACTLY the projection of the matching rows. The
driver renders these `rows` (`statsq` lines) and the harness diffs them against the real `/stats` answers. -/
theorem render_complete (s : State) (fmt : Fmt) (ft fc : Option Nat) (incl : Bool) :
    ∀ t ∈ snapshot s, (ft = none ∨ ft = some t.tid) → (∀ c, fc = some c → ∃ x ∈ t.chans, x.cid = c) →
      project fmt incl (topicRow .json t) ∈ rows fmt (filterSnap ft fc incl (snapshot s)) ∧
      ∀ c ∈ t.chans, (fc = none ∨ fc = some c.cid) →
        project fmt incl (chanRow .json t.tid c) ∈ rows fmt (filterSnap ft fc incl (snapshot s)) := by
  intro t ht hft hfc
  obtain ⟨t', ht', e1, e2, e3, e4⟩ := Nsq.Proofs.ChanStats.filterSnap_keeps (incl := incl) ht hft hfc
  constructor
  · simp only [rows, List.mem_flatMap, List.mem_cons, List.mem_map]
    refine ⟨t', ht', Or.inl ?_⟩
    cases fmt <;> cases incl <;> simp [project, topicRow, e1, e2, e3]
  · intro c hc hm
    obtain ⟨c', hc', f1, f2, f3, f4⟩ := e4 c hc hm
    simp only [rows, List.mem_flatMap, List.mem_cons, List.mem_map]
    refine ⟨t', ht', Or.inr ⟨c', hc', ?_⟩⟩
    cases fmt <;> cases incl <;> simp_all [project, chanRow]

/-! non-vacuity: a state with two topics, filters that select and filters that select nothing -/
example : (rows .text (filterSnap (some 1) (some 1) false (snapshot C01.exN))).length = 2 ∧
    (rows .json (filterSnap none none true (snapshot C01.exN))).length = 3 ∧
    (rows .json (filterSnap (some 9) none true (snapshot C01.exN))).length = 0 := by decide

/-- `render_complete` applied: topic 1 of `C01.exN` passes the filter `topic=1`, so its row is in the text rendering -/
example : (snapshot C01.exN).any (fun t => t.tid == 1) = true ∧
    ∀ t ∈ snapshot C01.exN, t.tid = 1 →
      project .text false (topicRow .json t) ∈ rows .text (filterSnap (some 1) none false (snapshot C01.exN)) :=
  ⟨by decide, fun t ht h1 =>
    (render_complete C01.exN .text (some 1) none false t ht (Or.inr (by rw [h1])) (fun c hc => by cases hc)).1⟩

end Nsqd

end Nsq.Props.C13
