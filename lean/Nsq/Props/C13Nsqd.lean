/-
C13.3 / C13.4 at the nsqd level (round 9, audit B18c): the client-counter theorems of `Nsq.Props.C13` were stated for
a STANDALONE channel reachable by atomic ops (`ReachableA`). Here they hold for every consumer of every channel of every
topic of every daemon state reachable from an empty nsqd by nsqd-level operations — publishes over any topic, fan-out by
the topic pump, SUB / disconnect incl. the self-deletion of `#ephemeral` channels, channel creation (also its raw halves),
pause, Empty, scans, RDY / CLS / FIN / REQ / TOUCH through the subscription registry — everything except the four
micro-steps that open the FIN and pump windows (`finChan | finClient`, `guard | deliverArmed`; for those:
`C13.inflight_exact_full`, `C13Windows`).
-/
import Nsq.Proofs.ChanNsqdA
import Nsq.Props.C13
namespace Nsq.Props.C13Nsqd
open Nsq.Model.Chan Nsq.Model.ChanInv Nsq.Model.ChanNsqd Nsq.Proofs.Chan Nsq.Proofs.ChanNsqdA

/-- daemon states reachable by nsqd-level ops whose channel-level step is atomic, `0 ≤ max-rdy-count` -/
def NReachableA (s : State) : Prop :=
  ∃ (conf : NConf) (ops : List Nsq.Model.ChanNsqd.Op), 0 ≤ conf.chan.maxRdy ∧ (∀ op ∈ ops, chanAtomic op = true) ∧
    s = Nsq.Model.ChanNsqd.run { conf := conf } ops

/-- every channel of every topic of such a state satisfies the ATOMIC channel invariant -/
theorem every_channel_invA {s : State} (h : NReachableA s) {t : Topic} (ht : t ∈ s.topics) {nc : NChan}
    (hnc : nc ∈ t.chans) : InvA s.conf.chan nc.ch ∧ 0 ≤ s.conf.chan.maxRdy := by
  obtain ⟨conf, ops, hconf, hat, rfl⟩ := h
  have := nrun_ainv (s := { conf := conf }) hconf (by intro t ht; cases ht) ops hat
  rw [this.2]
  exact ⟨this.1 t ht nc hnc, hconf⟩

/-- **C13.3 / C13.4 for every consumer of a reachable daemon**: `ready_count` = its last accepted RDY (0 after CLS),
`message_count` / `finish_count` / `requeue_count` = its deliveries / accepted FINs / accepted REQs, `in_flight_count` =
the messages it holds = sent − finished − requeued − timed out -/
theorem client_counters_nsqd {s : State} (h : NReachableA s) {t : Topic} (ht : t ∈ s.topics) {nc : NChan}
    (hnc : nc ∈ t.chans) {cl : Client} (hcl : cl ∈ nc.ch.clients) :
    cl.rdy = rdyOf nc.ch.hist cl.conn ∧ (cl.closing = true → cl.rdy = 0) ∧
    cl.msgCount = nDeliverBy nc.ch.hist cl.conn ∧ cl.finCount = nFinBy nc.ch.hist cl.conn ∧
    cl.reqCount = nReqBy nc.ch.hist cl.conn ∧
    cl.inFlight = (heldBy nc.ch.msgs cl.conn : Int) ∧ cl.inFlight = outstanding nc.ch.hist cl.conn := by
  have ha := (every_channel_invA h ht hnc).1
  have h1 := ha.inv.cl cl hcl
  have h2 := ha.clA cl hcl
  exact ⟨h1.2.2.1, h1.2.2.2.2.2, h1.1, h2.2.1, h1.2.1, h2.1, by rw [ha.inv.held]; exact h2.1⟩

/-- no reported number is negative, RDY within range — for every consumer of a reachable daemon -/
theorem nonneg_nsqd {s : State} (h : NReachableA s) {t : Topic} (ht : t ∈ s.topics) {nc : NChan}
    (hnc : nc ∈ t.chans) {cl : Client} (hcl : cl ∈ nc.ch.clients) :
    0 ≤ cl.inFlight ∧ 0 ≤ cl.rdy ∧ cl.rdy ≤ s.conf.chan.maxRdy := by
  have ha := (every_channel_invA h ht hnc).1
  have h2 := ha.clA cl hcl
  exact ⟨by rw [h2.1]; exact heldBy_nonneg _ _, (ha.inv.cl cl hcl).2.2.2.2.1, h2.2.2.1⟩

/-! non-vacuity: two topics, a consumer on each, publishes, fan-out, deliveries, FIN, REQ, a timeout scan, Empty -/
def exOps : List Nsq.Model.ChanNsqd.Op :=
  [.sub 1 1 1 false 60 0, .sub 2 2 1 false 60 0, .pub 1 10, .pub 1 11, .pub 2 12, .pumpTopic 1 1 false [], .pumpTopic 1 2 false [],
   .pumpTopic 2 3 false [], .rdy 1 (some 2), .rdy 2 (some 1), .deliver 1 1 100, .deliver 1 2 101, .deliver 2 3 102, .fin 1 1,
   .req 1 2 0 200, .scanInFlight 2 1 1000000, .emptyChan 1 1]
theorem exReach : NReachableA (Nsq.Model.ChanNsqd.run {} exOps) := ⟨{}, exOps, by decide, by decide, rfl⟩
example : ((Nsq.Model.ChanNsqd.run {} exOps).topics.flatMap (fun t => t.chans.flatMap (fun nc => nc.ch.clients.map
    (fun cl => [(cl.conn : Int), cl.rdy, cl.inFlight, cl.msgCount, cl.finCount, cl.reqCount])))) =
    [[1, 2, 0, 2, 1, 1], [2, 1, 0, 1, 0, 0]] := by decide
example : ∀ t ∈ (Nsq.Model.ChanNsqd.run {} exOps).topics, ∀ nc ∈ t.chans, ∀ cl ∈ nc.ch.clients, 0 ≤ cl.inFlight :=
  fun _ ht _ hnc _ hcl => (nonneg_nsqd exReach ht hnc hcl).1

end Nsq.Props.C13Nsqd
