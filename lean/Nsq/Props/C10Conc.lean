import Nsq.Proofs.HttpConc
import Nsq.Proofs.HttpApi
/-!
# C10 — concurrently served requests (seeded defect C10-m9)

"Every HTTP request gets a well-formed response with the documented status … for every history": a history
may answer several requests at the same time. In `HttpFull.serve` the answer is a function of (options,
health, broker, request), so the model cannot express one request's answer being damaged by another — and
the correspondence legs serve one request at a time. What is **assumed** there is made explicit here:

* `Nsq.Model.HttpConc`: histories of micro steps `encode i` (handler + rendering) / `write i` (status and
  body to the client); between the two a request keeps its rendered answer in the slot `slot i`.
* **Hypothesis** `inj`: different requests use different slots (the encoded answer is request-local — a fresh
  `[]byte` from `json.Marshal`). Under it, `concurrent_answers_own` / `concurrent_equals_alone` hold for every
  schedule. Without it they are false: `pooled_slot_full_false` (one pooled buffer; the witness is the
  seeded defect: `/info` parked between encode and write while a 404 is served receives the 404's body).
* The hypothesis is tied to the code by `Nsq.Tie.HttpShared` (regenerated: `internal/http_api` and the
  handlers of nsqd/http.go refer to no mutable package-level variable — no pool, buffer, map or slice that a
  function writes) and by the concurrency leg of the check (`harness/e3/concur_core.go.tmpl`,
  `concur_nsqd_test.go`: oracle "the answer received = the answer served alone", deterministic parked-writer
  pairs over all request kinds, concurrent `ServeHTTP`, keep-alive clients on the real listener).
  Neither is a proof that the Go code is free of shared state below the package level (e.g. inside
  `encoding/json` or `net/http`): those are trusted.
-/
namespace Nsq.Props.C10Conc
open Nsq.Model.HttpConc Nsq.Model.HttpFull Nsq.Model.HttpApi Nsq.Model.ProtoV2 Nsq.Model.Names Nsq.Model
open Nsq.Proofs.HttpConc Nsq.Proofs.HttpApi

/-- With request-local slots, whatever the interleaving of the encode / write steps of any number of
requests: what client `i` receives is `serve` of request `i` on one of the broker states the history went
through — never (a piece of) another request's answer. -/
theorem concurrent_answers_own (hc : HConf) (healthy : Bool) (reqs : List Request) (slot : Nat → Nat)
    (inj : ∀ i j, slot i = slot j → i = j) (b0 : Broker) (sched : List CStep) :
    ∀ p ∈ (run hc healthy reqs slot b0 sched).out,
      ∃ rq b, reqs[p.1]? = some rq ∧ b ∈ (run hc healthy reqs slot b0 sched).seen ∧
        p.2 = (HttpFull.serve hc healthy b rq).1 :=
  (inv_run hc healthy reqs slot inj sched (init b0) (inv_init hc healthy reqs slot b0)).out

/-- the statement the concurrency leg checks on the real server -/
def OwnAnswers (slot : Nat → Nat) : Prop :=
  ∀ (hc : HConf) (healthy : Bool) (reqs : List Request) (b0 : Broker) (sched : List CStep),
    ReadOnly hc healthy b0 reqs →
    ∀ p ∈ (run hc healthy reqs slot b0 sched).out,
      ∃ rq, reqs[p.1]? = some rq ∧ p.2 = (HttpFull.serve hc healthy b0 rq).1

/-- Requests that leave the broker as it is (the leg's request list: GETs, every error answer, idempotent
creations): each client receives exactly the answer its request gets when it is served alone. -/
theorem concurrent_equals_alone (slot : Nat → Nat) (inj : ∀ i j, slot i = slot j → i = j) : OwnAnswers slot := by
  intro hc healthy reqs b0 sched ro p hp
  obtain ⟨rq, b, h1, h2, h3⟩ := concurrent_answers_own hc healthy reqs slot inj b0 sched p hp
  have hs := still_run hc healthy reqs slot b0 ro sched (init b0) ⟨rfl, by simp [init]⟩
  have hb : b = b0 := hs.seen b h2
  exact ⟨rq, h1, by rw [h3, hb]⟩

/-- Without the hypothesis the statement is false: one shared (pooled) slot. `GET /info` encodes, a request
for an unknown path encodes into the same buffer, then `/info`'s write delivers `{"message":"NOT_FOUND"}`
under `/info`'s status line. This is the seeded defect C10-m9. -/
theorem pooled_slot_full_false : ¬ OwnAnswers (fun _ => 0) := by
  intro h
  have := h Examples.hconf true
    [⟨ascii "GET", ascii "/info", [], 0, []⟩, ⟨ascii "GET", ascii "/no/such/path", [], 0, []⟩] []
    [.encode 0, .encode 1, .write 0] (by decide) (0, ⟨.notFoundOrRedirect, true, true, .errJson "NOT_FOUND"⟩) (by decide)
  revert this
  decide

/-! Non-vacuity: the hypotheses are satisfiable (`id` is injective; the two requests are read-only), the
history below delivers both answers, each its own, in the order opposite to the encodes. -/
example : (run Examples.hconf true
    [⟨ascii "GET", ascii "/info", [], 0, []⟩, ⟨ascii "GET", ascii "/no/such/path", [], 0, []⟩] id []
    [.encode 0, .encode 1, .write 0, .write 1]).out =
    [(1, ⟨.notFoundOrRedirect, true, true, .errJson "NOT_FOUND"⟩), (0, ⟨.s200, true, true, .json .info⟩)] := by decide
example : ReadOnly Examples.hconf true []
    [⟨ascii "GET", ascii "/info", [], 0, []⟩, ⟨ascii "GET", ascii "/no/such/path", [], 0, []⟩] := by decide
/-- the same history with the pooled slot: client 0 receives client 1's answer -/
example : (run Examples.hconf true
    [⟨ascii "GET", ascii "/info", [], 0, []⟩, ⟨ascii "GET", ascii "/no/such/path", [], 0, []⟩] (fun _ => 0) []
    [.encode 0, .encode 1, .write 0]).out = [(0, ⟨.notFoundOrRedirect, true, true, .errJson "NOT_FOUND"⟩)] := by decide
/-- a history in which the broker changes between two encodes (`/topic/create` in between): `/stats` is answered
on one of the two states — `concurrent_answers_own` says which states are possible, not which one -/
example : ((run Examples.hconf true
    [⟨ascii "GET", ascii "/stats", ascii "format=json", 0, []⟩, ⟨ascii "POST", ascii "/topic/create", ascii "topic=t", 0, []⟩] id []
    [.encode 1, .encode 0, .write 0, .write 1]).out.map (fun p => (p.1, p.2.status))) = [(1, .s200), (0, .s200)] := by decide

end Nsq.Props.C10Conc
