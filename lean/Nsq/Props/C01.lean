/-
C01 — at-least-once delivery: the safety half (nothing but a FIN, an explicit empty, client
sampling or an ephemeral queue's overflow ever removes a message from a channel) and local
progress (enabledness) lemmas.  Channel level first; the topic / fan-out level follows below.
Liveness itself ("keeps being redelivered for as long as the daemon runs") needs scheduler
fairness and the timing of `queueScanLoop`: not provable here (see the note before the examples).
-/
import Nsq.Proofs.ChanCount
import Nsq.Props.C02
import Nsq.Proofs.ChanNsqd
import Nsq.Proofs.ChanScan
namespace Nsq.Props.C01
open Nsq.Model.Chan Nsq.Proofs.Chan

/-- C01.3 — the ledger: the messages a channel holds (queued in memory or on disk, in flight —
also to a connection that vanished —, deferred) are exactly those fanned out to it minus those
finished, emptied, sampled out or dropped by an ephemeral queue; as sets and, ids being distinct,
as multisets. A timeout, a REQ with any delay, a TOUCH, a disconnect, pause/unpause and a full
memory queue do not appear on the right-hand side: they remove nothing. -/
theorem ledger {conf : Conf} {c : Chan} (h : C02.Reachable conf c) :
    (∀ id, (∃ e ∈ c.msgs, e.id = id) ↔ (id ∈ fannedIds c.hist ∧ removed c.hist id = false)) ∧
    (c.msgs.map (·.id)).Perm ((fannedIds c.hist).filter (fun id => !removed c.hist id)) := by
  have hi := C02.reachable_inv h
  have hiff : ∀ id, (∃ e ∈ c.msgs, e.id = id) ↔ (id ∈ fannedIds c.hist ∧ removed c.hist id = false) := by
    intro id
    constructor
    · rintro ⟨e, he, rfl⟩
      have hst := (hi.core.agree e he).1
      have hloc := locSt_located e.loc
      refine ⟨?_, ?_⟩
      · rw [mem_fannedIds]
        intro hz
        have := (status_none_iff hi.okh).2 hz
        rw [this] at hst
        rw [← hst] at hloc
        cases hloc
      · cases hr : removed c.hist e.id
        · rfl
        · have := (status_gone_iff hi.okh).2 hr
          rw [this] at hst
          rw [← hst] at hloc
          cases hloc
    · rintro ⟨hf, hr⟩
      apply hi.core.absent
      rw [mem_fannedIds] at hf
      have h1 : status c.hist id ≠ .none := fun h' => hf ((status_none_iff hi.okh).1 h')
      have h2 : status c.hist id ≠ .gone := by
        intro h'
        have := (status_gone_iff hi.okh).1 h'
        rw [this] at hr
        cases hr
      cases hs : status c.hist id <;> simp_all [St.located]
  refine ⟨hiff, ?_⟩
  rw [List.perm_ext_iff_of_nodup hi.core.nodup ((fannedIds_nodup hi.okh).filter _)]
  intro id
  simp only [List.mem_map, List.mem_filter, Bool.not_eq_true', hiff id]

/-- a message leaves a channel only through one of the four removal events -/
theorem nothing_else_removes {conf : Conf} {c : Chan} (h : C02.Reachable conf c) {id : Nat}
    (hf : id ∈ fannedIds c.hist) (hgone : ¬ ∃ e ∈ c.msgs, e.id = id) :
    ∃ ev ∈ c.hist, removedIn ev id = true := by
  have := (ledger h).1 id
  have hr : removed c.hist id = true := by
    cases hr : removed c.hist id
    · exact absurd (this.2 ⟨hf, hr⟩) hgone
    · rfl
  simpa [removed] using hr

/-- C01.4 — the two deliberate drops happen only in the documented cases: `sampledOut` only in
the delivery pump of a connected consumer that negotiated `sample_rate > 0` (and whose guard
held), `ephDrop` only on an `#ephemeral` channel. -/
theorem only_deliberate_drops (conf : Conf) (c : Chan) (op : Op) :
    (nEv isSampled (step conf c op).1.hist ≠ nEv isSampled c.hist →
      ∃ k id cl, op = .sampleDrop k id ∧ findC c.clients k = some cl ∧ cl.sample ≠ 0 ∧ ready c.paused cl = true) ∧
    (c.ephemeral = false → nEv isEphDrop (step conf c op).1.hist = nEv isEphDrop c.hist) :=
  ⟨sampled_only conf c op, fun h => (ephDrop_only_ephemeral conf c op h).1⟩

/-! ### C01.5 progress (enabledness) -/

/-- a queued message and a consumer whose guard holds: the delivery step is enabled, registers the
message in flight for that consumer and sends it with the next attempts value -/
theorem deliver_enabled {conf : Conf} {c : Chan} (h : C02.Reachable conf c) {e : Entry} (he : e ∈ c.msgs)
    (hq : e.loc = .queued) {k : Nat} {cl : Client} (hc : findC c.clients k = some cl)
    (hr : ready c.paused cl = true) (now : Int) :
    (step conf c (.deliver k e.id now)).2 = .msg (e.att + 1) ∧
    ∃ e' ∈ (step conf c (.deliver k e.id now)).1.msgs,
      e'.id = e.id ∧ e'.loc = .inflight k (now + cl.msgTimeout) now := by
  have hi := C02.reachable_inv h
  have hf := findE_of_mem hi.core.nodup he
  have hq' : isQueued e = true := by simp [isQueued, hq]
  simp only [step, doDeliver, hc, hr, hf, hq', Bool.not_true, Bool.false_eq_true, ↓reduceIte, true_and]
  exact ⟨_, mem_setE.2 ⟨e, he, rfl⟩, by simp⟩

/-- an in-flight message whose deadline has passed is picked up by the scan (whoever held it —
also a connection that has vanished): `timeoutOne` puts it back on the queue … -/
theorem timeout_enabled {c : Chan} {e : Entry} (he : e ∈ c.msgs) {k : Nat} {p d : Int}
    (hl : e.loc = .inflight k p d) {t : Int} (hp : p ≤ t) : e.id ∈ dueInflight c t := by
  unfold dueInflight
  simp only [List.mem_map]
  refine ⟨e, mem_sortByPri.2 (List.mem_filter.2 ⟨he, ?_⟩), rfl⟩
  simp [isInflight, priOf, hl, hp]

/-- … where it is queued again, or, on an ephemeral channel whose memory queue is full, dropped -/
theorem timeoutOne_requeues {conf : Conf} {c : Chan} (h : C02.Reachable conf c) {e : Entry} (he : e ∈ c.msgs) {k : Nat} {p d : Int}
    (hl : e.loc = .inflight k p d) :
    (∃ e' ∈ (timeoutOne c e.id).msgs, e'.id = e.id ∧ e'.loc = .queued ∧ e'.att = e.att) ∨
    (c.ephemeral = true ∧ ¬ c.memLen < c.memCap) := by
  have hi := C02.reachable_inv h
  have hf := findE_of_mem hi.core.nodup he
  simp only [timeoutOne, hf, hl, enqueue]
  by_cases h1 : c.memLen < c.memCap
  · left
    simp only [h1, ↓reduceIte]
    exact ⟨_, mem_setE.2 ⟨e, he, rfl⟩, by simp⟩
  · by_cases h2 : c.ephemeral = true
    · exact Or.inr ⟨h2, h1⟩
    · left
      simp only [h1, h2, ↓reduceIte, Bool.false_eq_true]
      exact ⟨_, mem_setE.2 ⟨e, he, rfl⟩, by simp⟩

/-- … and the scan is complete: after `scanInFlight t` no message is in flight with a deadline
`≤ t` — whoever held it, connected or not (each due message was re-queued, or dropped by a full
ephemeral queue) -/
theorem scan_releases_all_due {conf : Conf} {c : Chan} (h : C02.Reachable conf c) (t : Int) :
    ∀ e ∈ (step conf c (.scanInFlight t)).1.msgs, ∀ k p d, e.loc = .inflight k p d → t < p := by
  have hi := C02.reachable_inv h
  simp only [step]
  have key : ∀ (l : List Nat) (c' : Chan) (done : List Nat), Inv 0 c' →
      (∀ e ∈ c'.msgs, isInflight e = true → e ∈ c.msgs ∧ e.id ∉ done) →
      ∀ e ∈ (l.foldl timeoutOne c').msgs, isInflight e = true → e ∈ c.msgs ∧ e.id ∉ done ∧ e.id ∉ l := by
    intro l
    induction l with
    | nil => intro c' done _ hsub e he hin; exact ⟨(hsub e he hin).1, (hsub e he hin).2, by simp⟩
    | cons x l ih =>
      intro c' done hi' hsub e he hin
      simp only [List.foldl_cons] at he
      have hstep : ∀ e' ∈ (timeoutOne c' x).msgs, isInflight e' = true → e' ∈ c.msgs ∧ e'.id ∉ x :: done := by
        intro e' he' hin'
        obtain ⟨h1, h2⟩ := timeoutOne_inflight hi' x e' he' hin'
        obtain ⟨h3, h4⟩ := hsub e' h1 hin'
        exact ⟨h3, by simp only [List.mem_cons, not_or]; exact ⟨h2, h4⟩⟩
      obtain ⟨r1, r2, r3⟩ := ih (timeoutOne c' x) (x :: done) (inv_timeoutOne hi' x) hstep e he hin
      simp only [List.mem_cons, not_or] at r2 ⊢
      exact ⟨r1, r2.2, r2.1, r3⟩
  intro e he k p d hl
  have hin : isInflight e = true := by simp [isInflight, hl]
  obtain ⟨h1, _, h3⟩ := key (dueInflight c t) c [] hi (fun e' he' _ => ⟨he', by simp⟩) e he hin
  apply Classical.byContradiction
  intro hnot
  exact h3 (timeout_enabled h1 hl (by omega))

/-- a deferred message whose time has come is picked up by the deferred scan -/
theorem deferred_enabled {c : Chan} {e : Entry} (he : e ∈ c.msgs) {p : Int}
    (hl : e.loc = .deferred p) {t : Int} (hp : p ≤ t) : e.id ∈ dueDeferred c t := by
  unfold dueDeferred
  simp only [List.mem_map]
  refine ⟨e, mem_sortByPri.2 (List.mem_filter.2 ⟨he, ?_⟩), rfl⟩
  simp [isDeferred, priOf, hl, hp]

/-- a disconnect leaves the in-flight messages of the vanished connection where they are
(they are released by the next due scan, `timeout_enabled`) -/
theorem disconnect_keeps_inflight (conf : Conf) (c : Chan) (k : Nat) :
    (step conf c (.removeClient k)).1.msgs = c.msgs ∧ (step conf c (.removeClient k)).1.hist = c.hist := by
  simp only [step]
  split <;> exact ⟨rfl, rfl⟩

/-! **What is NOT proved** (named, per DESIGN C01 "partial"): eventual occurrence. The lemmas
above show that for every located message some step towards its delivery is *enabled*; that the Go
scheduler eventually runs the pump and that `queueScanLoop` eventually scans at a time past the
deadline is scheduler / timer fairness (DESIGN 4.4), which no theorem here discharges. The harness
closes the gap empirically: after every generated history it drains every channel and requires
finished ∪ emptied ∪ sampled-out = acknowledged. -/

/-! non-vacuity -/
example : (∃ e ∈ (run C02.exConf {} (C02.exOps.take 5)).msgs, e.id = 7) ∧
    7 ∈ fannedIds (run C02.exConf {} (C02.exOps.take 5)).hist ∧
    removed (run C02.exConf {} (C02.exOps.take 5)).hist 7 = false := by decide
example : removed C02.exChan.hist 7 = true ∧ 7 ∈ fannedIds C02.exChan.hist ∧ C02.exChan.msgs = [] := by decide


/-! ## topic / nsqd level -/
section Nsqd
open Nsq.Model.ChanNsqd Nsq.Proofs.ChanNsqd

/-- reachable nsqd states: from an empty daemon (any configuration) by any list of API-level
operations (everything except the two halves of a split channel creation) -/
def NReachable (s : State) : Prop :=
  ∃ (conf : NConf) (ops : List Nsq.Model.ChanNsqd.Op), (∀ op ∈ ops, Op.api op = true) ∧
    s = Nsq.Model.ChanNsqd.run { conf := conf } ops

theorem nreachable_inv {s : State} (h : NReachable s) : NInv s := by
  obtain ⟨conf, ops, hapi, rfl⟩ := h
  exact nrun_inv (ninv_init conf) ops hapi

/-- every channel of every topic of every reachable daemon state satisfies the channel
invariant — so all channel-level statements of C01, C02, C13 hold for it -/
theorem every_channel_inv {s : State} (h : NReachable s) {t : Topic} (ht : t ∈ s.topics) {nc : NChan} (hnc : nc ∈ t.chans) :
    Inv 0 nc.ch := ((nreachable_inv h).topics t ht).chans nc hnc

/-- C01.1 `ack_implies_enqueued` — when PUB / DPUB is answered OK (`.ids [id]`) the message is in
the topic's queue (memory or disk) and recorded as acknowledged, whatever the topic's state
(paused, without channels, memory queue full). (In the code: `okBytes` is returned only after a
successful `PutMessage` — regenerated facts `Tie.Chan.pubAck_eq`, `dpubAck_eq`, `mpubAck_eq`.) -/
theorem ack_implies_enqueued (s : State) (t sz d : Nat) (env : Env) :
    (Nsq.Model.ChanNsqd.step s (.pub t sz env)).2 = .ids [s.nextId] ∧
    (∃ tp ∈ (Nsq.Model.ChanNsqd.step s (.pub t sz env)).1.topics, tp.tid = t ∧
        s.nextId ∈ tp.queue.map (·.id) ∧ s.nextId ∈ tp.acked) ∧
    (Nsq.Model.ChanNsqd.step s (.dpub t sz d env)).2 = .ids [s.nextId] ∧
    (∃ tp ∈ (Nsq.Model.ChanNsqd.step s (.dpub t sz d env)).1.topics, tp.tid = t ∧
        s.nextId ∈ tp.queue.map (·.id) ∧ s.nextId ∈ tp.acked) := by
  obtain ⟨y, hy, hyt⟩ := ensureTopic_has s t
  have hn := (ensureTopic_nextId s t).1
  refine ⟨by simp [Nsq.Model.ChanNsqd.step, hn], ?_, by simp [Nsq.Model.ChanNsqd.step, hn], ?_⟩
  · simp only [Nsq.Model.ChanNsqd.step]
    refine ⟨_, mem_updT.2 ⟨y, hy, rfl⟩, ?_⟩
    simp [hyt, putT, hn]
  · simp only [Nsq.Model.ChanNsqd.step]
    refine ⟨_, mem_updT.2 ⟨y, hy, rfl⟩, ?_⟩
    simp [hyt, putT, hn]

/-- MPUB: every message of an acknowledged multi-publish is in the topic queue -/
theorem ack_implies_enqueued_mpub (s : State) (t : Nat) (sizes : List Nat) (envs : List Env) :
    (Nsq.Model.ChanNsqd.step s (.mpub t sizes envs)).2 = .ids (idsFrom s.nextId sizes.length) ∧
    ∃ tp ∈ (Nsq.Model.ChanNsqd.step s (.mpub t sizes envs)).1.topics, tp.tid = t ∧
      ∀ i ∈ idsFrom s.nextId sizes.length, i ∈ tp.queue.map (·.id) ∧ i ∈ tp.acked := by
  obtain ⟨y, hy, hyt⟩ := ensureTopic_has s t
  have hn := (ensureTopic_nextId s t).1
  refine ⟨by simp [Nsq.Model.ChanNsqd.step, hn], ?_⟩
  simp only [Nsq.Model.ChanNsqd.step]
  refine ⟨_, mem_updT.2 ⟨y, hy, rfl⟩, ?_⟩
  obtain ⟨q, el, hq1, hq2, _⟩ := putMany_spec y (ensureTopic s t).nextId sizes envs
  rw [hn] at hq1 hq2
  simp only [hyt, ↓reduceIte, hn, hq1, hq2]
  refine ⟨trivial, ?_⟩
  intro i hi
  simp [hi]

/-- C01.2 `fanout_complete` — in every reachable state, an acknowledged message is still in the
topic queue or has a fan-out event on EVERY channel of the topic that existed when it was
published (`born ≤ id`: ids are issued in publish order) and still exists; and the pump's snapshot
is the channel map (channel creation returns only after the `channelUpdateChan` handshake). -/
theorem fanout_complete {s : State} (h : NReachable s) {t : Topic} (ht : t ∈ s.topics) :
    t.pump = t.chans.map (·.cid) ∧
    ∀ i ∈ t.acked, i ∈ t.queue.map (·.id) ∨
      ∀ nc ∈ t.chans, nc.born ≤ i → i ∈ fannedIds nc.ch.hist := by
  have hi := (nreachable_inv h).topics t ht
  refine ⟨hi.pfresh, ?_⟩
  intro i hia
  rcases (hi.ackq i).1 (Or.inl hia) with hq | hp
  · exact Or.inl hq
  · right
    intro nc hnc hb
    rw [mem_fannedIds]
    exact hi.fan nc hnc i hp hb

/-- together with the channel ledger: an acknowledged message is, on every such channel, still
located (queued / in flight / deferred) or was removed by one of the four removal events -/
theorem acked_is_located_or_removed {s : State} (h : NReachable s) {t : Topic} (ht : t ∈ s.topics)
    {i : Nat} (hia : i ∈ t.acked) (hq : i ∉ t.queue.map (·.id)) {nc : NChan} (hnc : nc ∈ t.chans) (hb : nc.born ≤ i) :
    (∃ e ∈ nc.ch.msgs, e.id = i) ∨ removed nc.ch.hist i = true := by
  have hinv := every_channel_inv h ht hnc
  have hf : i ∈ fannedIds nc.ch.hist := by
    rcases (fanout_complete h ht).2 i hia with h1 | h1
    · exact absurd h1 hq
    · exact h1 nc hnc hb
  cases hr : removed nc.ch.hist i
  · left
    apply hinv.core.absent
    rw [mem_fannedIds] at hf
    have h1 : status nc.ch.hist i ≠ .none := fun h' => hf ((status_none_iff hinv.okh).1 h')
    have h2 : status nc.ch.hist i ≠ .gone := by
      intro h'
      rw [(status_gone_iff hinv.okh).1 h'] at hr
      cases hr
    cases hs : status nc.ch.hist i <;> simp_all [St.located]
  · exact Or.inr rfl

/-- progress at the topic: a queued message, at least one channel in the snapshot and the topic
not paused make the fan-out step enabled -/
theorem pump_enabled (s : State) {t : Nat} {tp : Topic} (hf : findT s.topics t = some tp)
    (hp : pumpEnabled tp = true) {m : TMsg} (hm : tp.queue.find? (fun x => x.id == m.id) = some m)
    (pris : List (Nat × Int)) :
    ∃ kept, (Nsq.Model.ChanNsqd.step s (.pumpTopic t m.id kept pris)).2
      = .ids ((tp.chans.filter (fun nc => tp.pump.contains nc.cid)).map (·.cid)) := by
  refine ⟨(match m.place with | .disk => false | _ => true), ?_⟩
  have hk : keptAllowed m (match m.place with | .disk => false | _ => true) = true := by
    unfold keptAllowed
    split
    · rfl
    · cases m.place <;> rfl
  simp [Nsq.Model.ChanNsqd.step, hf, hp, hm, hk]

/-- a channel created while a message is being pumped is part of the snapshot from the next
`refreshPump` on (the real `GetChannel` blocks until then) -/
theorem refresh_restores_snapshot (s : State) (t : Nat) {tp : Topic}
    (h : tp ∈ (Nsq.Model.ChanNsqd.step s (.refreshPump t)).1.topics) (ht : tp.tid = t) :
    tp.pump = tp.chans.map (·.cid) := by
  simp only [Nsq.Model.ChanNsqd.step] at h
  obtain ⟨y, _, rfl⟩ := mem_updT.1 h
  by_cases hk : y.tid = t
  · simp [hk]
  · simp only [hk, ↓reduceIte] at ht

/-! non-vacuity at the nsqd level -/
def exN : State := Nsq.Model.ChanNsqd.run { conf := { memq := 1 } }
  [.createChan 1 1 false, .pub 1 10, .pumpTopic 1 1 false [], .createChan 1 2 false, .pub 1 20, .pumpTopic 1 2 false []]
example : NReachable exN := ⟨_, _, by decide, rfl⟩
/-- channel 2 was created after message 1 was published: it has message 2 only -/
example : exN.topics.map (fun t => t.chans.map (fun nc => (nc.cid, nc.born, nc.ch.msgs.map (·.id)))) =
    [[(1, 1, [2, 1]), (2, 2, [2])]] := by decide

end Nsqd

end Nsq.Props.C01
