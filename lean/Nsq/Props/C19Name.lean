import Nsq.Model.ToFileName
import Nsq.Proofs.Str
import Nsq.Props.C19
/-!
C19, file names: what `computeFilenameFormat` guarantees for *every* option set, topic, host name
and pid, and what `currentFilename` keeps for every clock reading. The model is tied to the Go
source by translation (`Nsq.Tie.ToolsToFileFn`: translated definition = model). These theorems
discharge the hypothesis `Cfg.WF` of `C19.no_overwrite` / `rev_terminates` / `never_diverges` for every
configuration the shipped tool can start with.
-/
namespace Nsq.Props.C19Name
open Nsq.Model.Str Nsq.Model.ToFileName Nsq.Proofs.Str

/-- the only error of its own: a rotating / gzip / work-dir configuration whose format lacks `<REV>` -/
theorem format_error_iff (o : Opts) (topic h pid e : Str) :
    computeFilenameFormat o topic (.ok h) pid = .error e ↔
      (needsRev o = true ∧ contains o.filenameFormat tREV = false ∧ e = errMissingRev) := by
  unfold computeFilenameFormat
  by_cases hr : needsRev o = true <;> by_cases hc : contains o.filenameFormat tREV = true <;>
    simp [hr, hc, eq_comm]

/-- a failing `os.Hostname()` is passed on, nothing else is looked at -/
theorem format_hostname_error (o : Opts) (topic pid e : Str) :
    computeFilenameFormat o topic (.error e) pid = .error e := rfl

private theorem subst_keeps (cff topic ident pid : Str) (h : contains cff tREV = true) :
    contains (substitute cff topic ident pid) tREV = true := by
  unfold substitute
  apply replaceAll_keeps _ _ _ _ (by decide)
  apply replaceAll_keeps _ _ _ _ (by decide)
  exact replaceAll_keeps _ _ _ _ (by decide) h

private theorem gz_keeps (g : Bool) (cff : Str) (h : contains cff tREV = true) :
    contains (gzSuffix g cff) tREV = true := by
  unfold gzSuffix
  split
  · exact contains_append_left _ _ _ h
  · exact h

/-- **`<REV>` is always there when it is needed**: if `computeFilenameFormat` succeeds for options that
rotate, gzip or use a work dir, the computed format contains `<REV>` — the substitutions of
`<TOPIC>`, `<HOST>`, `<PID>` (by arbitrary strings) and the `.gz` suffix cannot destroy it -/
theorem format_ok_has_rev (o : Opts) (topic pid cff : Str) (hn : Except Str Str)
    (hok : computeFilenameFormat o topic hn pid = .ok cff) (hr : needsRev o = true) :
    contains cff tREV = true := by
  unfold computeFilenameFormat at hok
  cases hn with
  | error e => simp at hok
  | ok h =>
    simp only [hr, if_true] at hok
    by_cases hc : contains o.filenameFormat tREV = true
    · simp only [hc, if_true, Except.ok.injEq] at hok
      rw [← hok]
      exact gz_keeps _ _ (subst_keeps _ _ _ _ hc)
    · simp [hc] at hok

/-- … and so does every file name `currentFilename` derives from it, whatever `strftime` returns -/
theorem current_filename_has_rev (cff datetime : Str) (h : contains cff tREV = true) :
    contains (currentFilename cff datetime) tREV = true :=
  replaceAll_keeps _ _ _ _ (by decide) h

/-- the configuration of the router model is well-formed (`Cfg.WF`) for every option set the tool
accepts, for every file name it will ever compute -/
theorem format_ok_cfg_wf (o : Opts) (topic pid cff datetime : Str) (hn : Except Str Str) (se : Bool) (mif : Nat) (cc : Bool)
    (hok : computeFilenameFormat o topic hn pid = .ok cff) :
    (cfgOf o (currentFilename cff datetime) se mif cc).WF := by
  unfold Nsq.Model.ToFile.Cfg.WF cfgOf
  by_cases hr : needsRev o = true
  · exact Or.inl (current_filename_has_rev _ _ (format_ok_has_rev o topic pid cff hn hok hr))
  · right
    unfold needsRev at hr
    simp only [Bool.or_eq_true, decide_eq_true_eq, not_or, Bool.not_eq_true] at hr
    obtain ⟨⟨⟨h1, h2⟩, h3⟩, h4⟩ := hr
    refine ⟨h1, ?_, by simpa using h3, by simpa using h4⟩
    simp only [Int.toNat_eq_zero]
    omega

/-- `C19.no_overwrite` without the well-formedness hypothesis: for every option set accepted by
`computeFilenameFormat`, pre-existing files survive every run of the router -/
theorem no_overwrite_accepted (o : Opts) (topic pid cff datetime : Str) (hn : Except Str Str) (se : Bool) (mif : Nat) (cc : Bool)
    (hok : computeFilenameFormat o topic hn pid = .ok cff)
    (io : Nat → Nsq.Model.ToFile.Fault) (fs0 : Nsq.Model.ToFile.FS) (hdom : Nsq.Proofs.ToFile.DomOk fs0)
    (evs : List (Nsq.Model.ToFile.Ev × Bool)) (p : Nsq.Model.ToFile.Path) (f0 : Nsq.Model.ToFile.File)
    (hp : fs0.get p = some f0) :
    let c := cfgOf o (currentFilename cff datetime) se mif cc
    (p.out = true ∨ c.workDir = false →
      ∃ f, (Nsq.Model.ToFile.run c io (Nsq.Model.ToFile.init fs0) evs).fs.get p = some f ∧
        (∃ x, f.data = f0.data ++ x) ∧ f0.durable ≤ f.durable) ∧
    (c.excl = true → (Nsq.Model.ToFile.run c io (Nsq.Model.ToFile.init fs0) evs).fs.get p = some f0) :=
  Nsq.Props.C19.no_overwrite _ (format_ok_cfg_wf o topic pid cff datetime hn se mif cc hok) io fs0 hdom evs p f0 hp

/-- gzip output: the computed format, and every file name derived from it, ends in `.gz` -/
theorem gzip_name_ends_gz (o : Opts) (topic pid cff datetime : Str) (hn : Except Str Str)
    (hok : computeFilenameFormat o topic hn pid = .ok cff) (hg : o.gzip = true) :
    hasSuffix cff gz = true ∧ hasSuffix (currentFilename cff datetime) gz = true := by
  have h1 : hasSuffix cff gz = true := by
    unfold computeFilenameFormat at hok
    cases hn with
    | error e => simp at hok
    | ok h =>
      have key : ∀ x : Str, hasSuffix (gzSuffix true x) gz = true := by
        intro x
        unfold gzSuffix
        by_cases hs : hasSuffix x gz = true
        · simp [hs]
        · simp only [hs, Bool.true_and, Bool.not_false, if_true]
          exact (hasSuffix_iff _ _).mpr ⟨x, rfl⟩
      rw [hg] at hok
      by_cases hr : needsRev o = true
      · by_cases hc : contains o.filenameFormat tREV = true
        · simp only [hr, hc, if_true, Except.ok.injEq] at hok
          rw [← hok]; exact key _
        · simp [hr, hc] at hok
      · simp [hr] at hok
        rw [← hok]; exact key _
  exact ⟨h1, replaceAll_keeps_suffix _ _ _ _ (by decide) h1⟩

/-! ### non-vacuity (byte strings spelled out; the comment gives the text) -/

private def isErr (r : Except Str Str) (e : Str) : Bool := match r with | .error x => x == e | .ok _ => false

/-- gzip + work dir, format "<TOPIC>.<HOST><REV>.<DATETIME>.log" -/
private def oRot : Opts :=
  { hostIdentifier := [], filenameFormat := [60, 84, 79, 80, 73, 67, 62, 46, 60, 72, 79, 83, 84, 62, 60, 82, 69, 86, 62, 46, 60, 68, 65, 84, 69, 84, 73, 77, 69, 62, 46, 108, 111, 103], gzip := true,
    rotateSize := 0, rotateInterval := 0, workDir := [47, 119], outputDir := [47, 111] }

/-- no rotation, format "<TOPIC><REV>.log" -/
private def oPlain : Opts := { oRot with gzip := false, workDir := [47, 111], filenameFormat := [60, 84, 79, 80, 73, 67, 62, 60, 82, 69, 86, 62, 46, 108, 111, 103] }

-- topic "t", host "h.example", pid "42"  ↦  "t.h<REV>.<DATETIME>.log.gz"
example : (computeFilenameFormat oRot [116] (.ok [104, 46, 101, 120, 97, 109, 112, 108, 101]) [52, 50]).toOption = some [116, 46, 104, 60, 82, 69, 86, 62, 46, 60, 68, 65, 84, 69, 84, 73, 77, 69, 62, 46, 108, 111, 103, 46, 103, 122] := by decide
-- datetime "2026"  ↦  "t.h<REV>.2026.log.gz"
example : currentFilename [116, 46, 104, 60, 82, 69, 86, 62, 46, 60, 68, 65, 84, 69, 84, 73, 77, 69, 62, 46, 108, 111, 103, 46, 103, 122] [50, 48, 50, 54] = [116, 46, 104, 60, 82, 69, 86, 62, 46, 50, 48, 50, 54, 46, 108, 111, 103, 46, 103, 122] := by decide
example : needsRev oRot = true := by decide
-- format "<TOPIC>.log" is refused
example : isErr (computeFilenameFormat { oRot with filenameFormat := [60, 84, 79, 80, 73, 67, 62, 46, 108, 111, 103] } [116] (.ok [104]) [49]) errMissingRev = true := by decide
-- no rotation: `<REV>` is removed from the format: "t.log"
example : (computeFilenameFormat oPlain [116] (.ok [104]) [49]).toOption = some [116, 46, 108, 111, 103] := by decide
example : needsRev oPlain = false := by decide
-- the overlap condition is not vacuous: "<REV>" and "V><" overlap, and then the occurrence can vanish ("<REV><" ↦ "<RE")
example : noOverlap [60, 82, 69, 86, 62] [86, 62, 60] = false := by decide
example : contains (replaceAll [60, 82, 69, 86, 62, 60] [86, 62, 60] []) [60, 82, 69, 86, 62] = false := by decide
example : (cfgOf oRot [116, 46, 104, 60, 82, 69, 86, 62, 46, 50, 48, 50, 54, 46, 108, 111, 103, 46, 103, 122] false 200 true).WF := Or.inl (by decide)

end Nsq.Props.C19Name
