import Nsq.Proofs.LookupTicks
import Nsq.Props.C16
import Nsq.Tie.LookupSync
/-!
# C16 — "within a few heartbeat intervals" as a TICK-COUNT theorem

The model has discrete heartbeat ticks (`Step.tick`: one iteration of `lookupLoop`'s ticker branch = one `PING`
`Command` per peer). A *fault* of the lookupd at address `a` is a `Command` to it that fails (refused dial,
accept-then-close, stall until the 1 s deadline, garbage, bad length, `E_INVALID`), a `lookupdDrop a` (restart / closed
connection) or a failed first connection; `OkRun a s steps` says the schedule `steps` from `s` contains none. Churn
(create / delete / notifications), faults of OTHER lookupds and reconfiguration may go on.

* `two_ticks_connect`: after ANY state, a fault-free schedule for `a` with at least **2** ticks (more generally 2
  command rounds: notifications count too) ends with the connection to `a` established;
* `in_sync_within_two_ticks`: if moreover nsqd is quiescent at the end, that lookupd lists exactly nsqd's topics and
  channels (with `C16.converges`) — the property's "converge within a few heartbeat intervals" with the true k = 2;
* `one_tick_suffices_when_noticed`: k = 1 when nsqd had already noticed the failure (connection `down`);
* `two_ticks_needed`: k = 2 is tight — a lookupd restart that nsqd has not yet noticed (`stale`) costs one tick to
  detect (the PING fails, `lp.Close()`) and one to reconnect and replay (`connectCallback`).
* `command_refines_fine`: the one-`Outcome` summary of `lookupPeer.Command` used by all C16 theorems is exactly the
  interaction-by-interaction model `fineCommand` (`Nsq.Model.LookupPeer`) of `Command` / `connectCallback`.

Wall-clock: k ticks after the last fault lie within (k+1) heartbeat intervals plus the time the Commands themselves
take (each round trip is bounded by 1 s since F39, /repo 233d375: one deadline per round trip, tie
`Tie.LookupSync.read_deadline_shape`; before it the read deadline was per Read and a drip-fed reply was never timed out -
finding `slow-reply-holds-lookup-loop`, fixed, replay corpus/C16/fixed/slow_drip_reply.ops); the harness measures ticks (heartbeat log
lines of the real `lookupLoop`) and time.
-/
namespace Nsq.Props.C16Ticks
open Nsq.Model.LookupSync Nsq.Proofs.LookupSync Nsq.Proofs.LookupTicks Nsq.Props.C16

/-- From ANY state: a schedule without faults of the lookupd at `a` that contains at least two command rounds
(heartbeat ticks or notifications) ends with every peer entry for `a` connected and alive. -/
theorem two_rounds_connect (a : Nat) (s s' : State) (steps : List Step) (hr : run s steps = some s')
    (hok : OkRun a s steps) (h2 : 2 ≤ rounds steps) : ∀ p ∈ s'.peers, p.addr = a → p.conn = .up := by
  intro p hp ha
  have := rank_run a steps s s' 2 hr hok (fun q _ _ => rank_le_two q.conn) p hp ha
  exact (rank_zero_iff _).mp (by omega)

/-- … in particular two heartbeat ticks after the last fault suffice, whatever else happens in between. -/
theorem two_ticks_connect (a : Nat) (s s' : State) (steps : List Step) (hr : run s steps = some s')
    (hok : OkRun a s steps) (h2 : 2 ≤ ticks steps) : ∀ p ∈ s'.peers, p.addr = a → p.conn = .up :=
  two_rounds_connect a s s' steps hr hok (Nat.le_trans h2 (ticks_le_rounds steps))

/-- If nsqd had already noticed the failure (no connection to `a` is `stale`), one tick suffices. -/
theorem one_tick_suffices_when_noticed (a : Nat) (s s' : State) (steps : List Step) (hr : run s steps = some s')
    (hok : OkRun a s steps) (h1 : 1 ≤ ticks steps) (hn : ∀ p ∈ s.peers, p.addr = a → p.conn ≠ .stale) :
    ∀ p ∈ s'.peers, p.addr = a → p.conn = .up := by
  intro p hp ha
  have hle : ∀ q ∈ s.peers, q.addr = a → rank q.conn ≤ 1 := by
    intro q hq hqa
    have := hn q hq hqa
    cases hc : q.conn <;> simp_all [rank]
  have := rank_run a steps s s' 1 hr hok hle p hp ha
  have := ticks_le_rounds steps
  exact (rank_zero_iff _).mp (by omega)

/-- The property clause with the tick count: `pre` is ANY history (churn, faults, restarts, reconfiguration); after
it, a schedule that is fault-free for the lookupd at `a` and contains two heartbeat ticks, at whose end nsqd is
quiescent, leaves that lookupd connected and listing exactly nsqd's current topics and channels. -/
theorem in_sync_within_two_ticks (a : Nat) (pre steps : List Step) (s0 s' : State)
    (h0 : run State.init pre = some s0) (hr : run s0 steps = some s') (hok : OkRun a s0 steps)
    (h2 : 2 ≤ ticks steps) (hq : Quiescent s') :
    ∀ p ∈ s'.peers, p.addr = a → p.conn = .up ∧ ∀ k, k ∈ p.regs ↔ ∃ r ∈ s'.objs, r.key = k := by
  intro p hp ha
  have hup := two_ticks_connect a s0 s' steps hr hok h2 p hp ha
  have hall : run State.init (pre ++ steps) = some s' := by rw [run_append, h0]; exact hr
  have hsync := converges (pre ++ steps) s' (by rw [runG_fixed]; exact hall) hq
  exact ⟨hup, hsync p hp hup⟩

/-- k = 2 is tight: a reachable state and a fault-free schedule with ONE tick after which the lookupd is still not
connected (it restarted; the first PING only detects that). -/
theorem two_ticks_needed :
    ∃ (pre steps : List Step) (s0 s' : State), run State.init pre = some s0 ∧ run s0 steps = some s' ∧
      OkRun 0 s0 steps ∧ ticks steps = 1 ∧ ∃ p ∈ s'.peers, p.addr = 0 ∧ p.conn ≠ .up := by
  refine ⟨[.addPeer 0 .ok, .lookupdDrop 0], [.tick [.ok]], _, _, rfl, rfl, ?_, rfl, ?_⟩
  · refine ⟨?_, fun _ _ => trivial⟩
    intro i p hp _
    cases i with
    | zero => rfl
    | succ j => simp [run, step, command, callbackRegs, callbackCmds, applyRegisters, State.init] at hp
  · exact ⟨_, List.mem_cons_self, rfl, by decide⟩

/-- `Command`, interaction by interaction, is the one-`Outcome` summary: with `b` = "every interaction this
`Command` consumes succeeded", the fine model's result abstracts to `command … (outcomeOf b)`. -/
theorem command_refines_fine (objs dead : List Ref) (apply : List Key → List Key) (a : Nat) (st : PState)
    (sess : Session) (net : List Bool) :
    let res := fineCommand (callbackCmds objs dead) (some apply) st sess net
    let b := allOk net (needed st (callbackCmds objs dead).length true)
    let p' := command objs dead apply ⟨a, absConn st sess, sess.getD []⟩ (outcomeOf b)
    p'.conn = absConn res.1 res.2 ∧ p'.regs = res.2.getD [] ∧ p'.addr = a := by
  intro res b p'
  cases st with
  | connected =>
    cases sess with
    | none =>
      simp only [res, p', fineCommand, absConn, command, outcomeOf]
      cases b <;> simp
    | some regs =>
      have hb : b = net.getD 0 false := by
        simp [b, allOk, needed, List.range_succ]
      simp only [res, p', fineCommand, absConn, command, outcomeOf, hb]
      cases net.getD 0 false <;> simp [absConn]
  | disconnected =>
    have hb : b = (allOk net (3 + (callbackCmds objs dead).length) &&
        net.getD (3 + (callbackCmds objs dead).length) false) := by
      simp only [b, allOk, needed, if_true]
      rw [show 3 + (callbackCmds objs dead).length + 1 = (3 + (callbackCmds objs dead).length) + 1 from rfl,
        List.range_succ, List.all_append]
      simp
    simp only [res, p', fineCommand, absConn, command, outcomeOf, hb, callbackRegs]
    cases h1 : allOk net (3 + (callbackCmds objs dead).length) <;>
      cases h2 : net.getD (3 + (callbackCmds objs dead).length) false <;> simp [absConn]

/-- `Command(nil)` ("start the connection", used when a peer is added): same statement with `id`. -/
theorem command_nil_refines_fine (objs dead : List Ref) (a : Nat) (net : List Bool) :
    let res := fineCommand (callbackCmds objs dead) none .disconnected none net
    let b := allOk net (needed .disconnected (callbackCmds objs dead).length false)
    let p' := command objs dead id ⟨a, .down, []⟩ (outcomeOf b)
    p'.conn = absConn res.1 res.2 ∧ p'.regs = res.2.getD [] := by
  intro res b p'
  simp only [res, p', b, fineCommand, absConn, command, outcomeOf, needed, callbackRegs, Bool.false_eq_true, if_false,
    Nat.add_zero]
  cases h1 : allOk net (3 + (callbackCmds objs dead).length) <;> simp [absConn]

/-! ## non-vacuity -/

/-- a schedule with churn, a restart of lookupd 0 and faults of lookupd 1 going on, fault-free for 0, two ticks: in sync -/
def sched : List Step :=
  [.tick [.ok, .fail], .createChan "t" "c", .notify ⟨"t", "c", 1⟩ [.ok, .fail], .tick [.ok, .fail]]
def pre : List Step :=
  [.addPeer 0 .ok, .addPeer 1 .ok, .createTopic "t", .notify ⟨"t", "", 0⟩ [.ok, .ok], .lookupdDrop 0, .lookupdDrop 1]

example : ((run State.init (pre ++ sched)).map (fun s => s.peers.map (fun p => (p.addr, p.conn == .up, p.regs)))) =
    some [(0, true, [("t", "c"), ("t", "")]), (1, false, [])] := by decide
example : ticks sched = 2 ∧ rounds sched = 3 := by decide
/-- one interaction fails in the middle of `connectCallback` (the 2nd REGISTER): the whole `Command` fails, the peer
is disconnected and the lookupd holds nothing -/
example : fineCommand [("t", "c"), ("u", "")] (some id) .disconnected none [true, true, true, true, false, true] =
    (.disconnected, none) := by decide
example : fineCommand [("t", "c"), ("u", "")] (some id) .disconnected none [true, true, true, true, true, true] =
    (.connected, some [("u", ""), ("t", "c"), ("t", "")]) := by decide

end Nsq.Props.C16Ticks
