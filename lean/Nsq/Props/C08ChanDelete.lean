import Nsq.Model.ChanDelete
import Nsq.Proofs.ChanDelete
/-
C08 — "deleting a channel disconnects its consumers … a later re-creation starts empty", under every
interleaving of `Topic.DeleteExistingChannel` (HTTP delete or the ephemeral channel's `deleteCallback`) with
SUB, disconnects, publishes, re-creation of the name and another deletion of the same name.
Model: Model/ChanDelete.lean; `{}` = the tree without fixes/F22, `fixedTree` = with it.
-/
namespace Nsq.Props.C08ChanDelete
open Nsq.Model.ChanDelete Nsq.Proofs.ChanDelete

/-- the full claim for the unrepaired tree: no schedule unlinks an object that nobody deleted, leaves a
consumer attached to an object the map does not hold, or strands a message in such an object -/
def ChanDeleteFull : Prop :=
  ∀ (sched : List CStep) (s : CSt), crun {} sched = some s → zombies s = [] ∧ leaked s = [] ∧ stranded s = []

/-- consumer 1 subscribed; deletion D1 has run `channel.Delete()` to its end (1 closed) and is about to unlink;
a second deletion D2 finds the same object, loses the CAS and unlinks the name; the name is re-created
(object 1) by consumer 2's SUB, a message is fanned out to it; D1 unlinks the *name*: the fresh object leaves
the map although nobody deleted it (`chan_double_delete_unlinks_fresh`) -/
def witnessChanDouble : List CStep :=
  [.sub 1, .delBegin, .delExit 0, .delBegin, .loserUnlink 0, .sub 2, .pub, .delUnlink 0]

theorem witnessChanDouble_leaks :
    (crun {} witnessChanDouble).map (fun s => (zombies s, leaked s, stranded s, s.closed, s.map)) =
      some ([2], [1], [0], [1], none) := by decide

theorem chan_delete_full_false : ¬ ChanDeleteFull := by
  intro h
  have := (h witnessChanDouble _ rfl).1
  revert this
  decide

/-- the loser cannot unlink before the winner's exit has finished (`exitMutex`): on every tree the step is
disabled until then, so a re-created channel never shares its disk queue's file names with a channel that is
still being emptied (the topic-level hazard of F20's mutation m7 does not exist one level down) -/
theorem loser_waits_for_exit (s : CSt) (id : Nat) (T : CObj) (hf : findObj s id = some T) (hx : T.exited = false) :
    cstep s (.loserUnlink id) = none := by
  simp only [cstep]
  split
  · rw [hf]; simp [hx]
  · rfl

/-- the same interleaving on the repaired tree: D2 unlinks the deleted object, the name is re-created, and D1's
late unlink leaves the fresh object alone -/
theorem repaired_witness :
    (crun fixedTree witnessChanDouble).map
      (fun s => (zombies s, leaked s, stranded s, s.closed, s.map.map (fun T => (T.id, T.subs, T.queue)), s.answered)) =
      some ([], [], [], [1], some (1, [2], [0]), [0, 0]) := by rfl

/-- **F22**: on the repaired tree no schedule of subscriptions, disconnects, publishes, creations, deletions
(any number, concurrent, incl. the ephemeral callback) and re-creations unlinks an object that was not deleted:
no consumer is left attached to an unreachable object, no message is stranded in one -/
theorem no_chan_zombie_fixed (sched : List CStep) (s : CSt) (h : crun fixedTree sched = some s) :
    zombies s = [] ∧ leaked s = [] ∧ stranded s = [] := by
  have inv := fixedInv_run sched fixedTree s fixedInv_init h
  refine ⟨?_, ?_, ?_⟩
  · unfold zombies
    rw [List.flatten_eq_nil_iff]
    intro l hl
    obtain ⟨T, hT, rfl⟩ := List.mem_map.mp hl
    exact (inv.unl T hT).2.2.1
  · unfold leaked
    rw [List.map_eq_nil_iff, List.filter_eq_nil_iff]
    intro T hT
    simp [(inv.unl T hT).1]
  · unfold stranded
    rw [List.flatten_eq_nil_iff]
    intro l hl
    obtain ⟨T, hT, rfl⟩ := List.mem_map.mp hl
    exact (inv.unl T hT).2.2.2

/-- every tree: when a deletion answers (winner or loser), the object it looked up is no longer registered -/
theorem deleted_object_gone (s s' : CSt) (id : Nat)
    (h : cstep s (.delUnlink id) = some s' ∨ cstep s (.loserUnlink id) = some s') :
    ∀ M, s'.map = some M → M.id ≠ id := by
  have key : ∀ M, (unlink s id).map = some M → M.id ≠ id := by
    intro M
    unfold unlink
    split
    · rename_i h0; intro h1; rw [h0] at h1; cases h1
    · rename_i M0 h0
      split
      · rename_i hc
        intro h1
        rw [h0] at h1; cases h1
        simp only [Bool.and_eq_true, bne_iff_ne, ne_eq] at hc
        exact hc.2
      · intro h1; cases h1
  rcases h with h | h <;> simp only [cstep] at h <;> (repeat' split at h) <;> (try cases h) <;> exact key

/-- every tree: the exit stage of a channel deletion closes every consumer attached to the object at that
moment and discards its queue (what `delete_chan_effects` says in the atomic model) -/
theorem delete_chan_closes_attached (s s' : CSt) (id : Nat) (T : CObj) (hf : findObj s id = some T)
    (h : cstep s (.delExit id) = some s') : ∀ k ∈ T.subs, k ∈ s'.closed := by
  simp only [cstep] at h
  split at h
  · rw [hf] at h
    simp only [] at h
    split at h
    · cases h
    · cases h
      intro k hk
      simp [hk]
  · cases h

/-! ### non-vacuity -/
example : (crun fixedTree [.sub 1, .sub 2, .pub, .leave 1, .delBegin, .sub 3, .delBegin, .delExit 0, .loserUnlink 0, .sub 4, .pub,
    .delUnlink 0, .delBegin, .delExit 1, .delUnlink 1]).map
      (fun s => (s.unlinked.map (fun T => (T.id, T.exiting, T.subs, T.queue)), s.closed, s.left, s.map, s.answered)) =
    some ([(1, true, [], []), (0, true, [], [])], [4, 2, 3], [1], none, [1, 0, 0]) := by rfl
example : ∃ s T, findObj s 0 = some T ∧ T.exited = false ∧ cstep s (.loserUnlink 0) = none :=
  ⟨{ map := some { id := 0, exiting := true }, deleters := [0], losers := [0], nextId := 1 }, _, rfl, rfl, rfl⟩
example : ∃ s s', cstep s (.loserUnlink 0) = some s' ∧ s'.map = none :=
  ⟨{ map := some { id := 0, exiting := true, exited := true }, deleters := [0], losers := [0], nextId := 1 }, _, rfl, rfl⟩
example : ∃ s T, findObj s 0 = some T ∧ T.subs = [2, 1] ∧ (cstep s (.delExit 0)).map (·.closed) = some [2, 1] :=
  ⟨{ map := some { id := 0, exiting := true, subs := [2, 1] }, deleters := [0], nextId := 1 }, _, rfl, rfl, rfl⟩

end Nsq.Props.C08ChanDelete
