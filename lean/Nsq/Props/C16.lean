import Nsq.Proofs.LookupSyncConv
/-!
# C16 — nsqd keeps nsqlookupd in sync and tolerates its faults

Property theorems only (helpers: `Nsq.Proofs.LookupSync*`). Model: `Nsq.Model.LookupSync` — `lookupLoop` is one
goroutine, so a schedule is a list of its `select` iterations (`tick`, `notify`), local map operations
(`createTopic`, `createChan`, `delBegin`, `delUnlink`), lookupd faults (`lookupdDrop`, and the per-peer
`Outcome` of every `Command`: refuse / accept-then-close / stall / garbage / bad length are all `fail`) and
reconfiguration (`addPeer`, `removePeer`). `readResponse true` is the tree with
fixes/F3_lookup_peer_negative_size.patch.
-/
namespace Nsq.Props.C16
open Nsq.Model.LookupSync Nsq.Proofs.LookupSync

/-! ## hostile replies -/

/-- `readResponseBounded` never panics, whatever bytes the lookupd sends and whatever the limit. -/
def C16_hostile_full (fix : Bool) : Prop :=
  ∀ (limit : Int) (input : List UInt8), readResponse fix limit input ≠ .panic

/-- With fixes/F3_lookup_peer_negative_size.patch: no input makes it panic. -/
theorem hostile_reply_no_panic : C16_hostile_full true := by
  intro limit input
  unfold readResponse
  split
  · simp only []
    split; · simp
    split; · simp
    split <;> simp
  · simp

/-- Without the fix the clause is false: the four bytes `FF FF FF FF` (length prefix −1) reach
`make([]byte, -1)`: "panic: runtime error: makeslice: len out of range" — nsqd dies. -/
theorem hostile_false_without_fix : ¬ C16_hostile_full false := by
  intro h
  exact h 1024 [0xFF, 0xFF, 0xFF, 0xFF] (by decide)

/-- A frame that is accepted has exactly the announced size, which is within the limit. -/
theorem accepted_frame_is_bounded (fix : Bool) (limit : Int) (input body : List UInt8)
    (h : readResponse fix limit input = .ok body) : (body.length : Int) ≤ limit := by
  unfold readResponse at h
  split at h
  · simp only [] at h
    split at h; · simp at h
    split at h; · split at h <;> simp at h
    split at h; · simp at h
    simp at h
    subst h
    rename_i a b c d rest h1 h2 h3
    simp only [List.length_take]
    omega
  · simp at h

/-- Any failed round trip (dial refused, accept-then-close, stall until the deadline, garbage, a length prefix that
is negative / over the limit / longer than what follows) closes that peer connection only; that lookupd then holds
nothing for this nsqd (it drops the closed connection's registrations). -/
theorem garbage_is_contained (objs dead : List Ref) (apply : List Key → List Key) (p : Peer) :
    command objs dead apply p .fail = { p with conn := .down, regs := [] } := by
  unfold command
  cases p.conn <;> rfl

/-- …the other peers are handled independently of it (each peer's new state depends only on its own old state
and its own outcome) … -/
theorem peers_are_independent (f : Peer → Outcome → Peer) (ps : List Peer) (outs : List Outcome) (i : Nat) :
    (mapOutcomes f ps outs)[i]? = ps[i]?.map (fun p => f p (outs[i]?.getD .fail)) := by
  induction ps generalizing outs i with
  | nil => simp [mapOutcomes]
  | cons p ps ih =>
    cases outs with
    | nil =>
      cases i with
      | zero => simp [mapOutcomes]
      | succ j => simp [mapOutcomes, ih]
    | cons o os =>
      cases i with
      | zero => simp [mapOutcomes]
      | succ j => simp [mapOutcomes, ih]

/-- …and no lookup step touches nsqd's own topics and channels (the frame lemma: publishing and delivery,
which only depend on those maps, are unaffected by any lookupd behaviour). -/
theorem lookup_steps_leave_nsqd_alone (s s' : State) (st : Step)
    (hst : match st with | .tick _ | .notify _ _ | .lookupdDrop _ | .addPeer _ _ | .removePeer _ => True | _ => False)
    (h : step s st = some s') : s'.objs = s.objs ∧ s'.dead = s.dead ∧ s'.nextGen = s.nextGen := by
  cases st <;> simp at hst <;> simp only [step] at h
  · split at h
    · simp at h
    · simp only [Option.some.injEq] at h; subst h; exact ⟨rfl, rfl, rfl⟩
  · simp at h; subst h; exact ⟨rfl, rfl, rfl⟩
  · simp at h; subst h; exact ⟨rfl, rfl, rfl⟩
  · split at h
    · simp at h
    · simp at h; subst h; exact ⟨rfl, rfl, rfl⟩
  · simp at h; subst h; exact ⟨rfl, rfl, rfl⟩

/-! ## reconnect -/

/-- After a successful (re)connect — `Connect`, magic, `connectCallback`: IDENTIFY then REGISTER for every topic and
channel in the maps that is not being deleted — the lookupd's registrations for this nsqd are exactly the names that
are live on nsqd (an object that is being deleted is in its map until the very end of the deletion; with
fixes/F14_connect_callback_skips_exiting.patch it is not re-registered). -/
theorem reconnect_resyncs (objs dead : List Ref) (p : Peer) (hd : p.conn = .down) :
    (command objs dead id p .ok).conn = .up ∧
    ∀ k, k ∈ (command objs dead id p .ok).regs ↔ NameLive objs dead k := by
  have hc : command objs dead id p .ok = { p with conn := .up, regs := callbackRegs objs dead } := by
    unfold command; rw [hd]; rfl
  rw [hc]
  exact ⟨rfl, fun k => mem_callbackRegs objs dead k⟩

/-- On a fresh connection the command that triggered the reconnect adds nothing: `connectCallback` has just registered
exactly the live names, and the REGISTER / UNREGISTER chosen from the same state leaves that set unchanged. (So a
`Command` that returned right after a successful reconnect without sending its command — seeded change C16-m5 — can
no longer lose an UNREGISTER: with F14 the callback never registers the object being deleted. The change is still
reported through the tie `command_shape`.) -/
theorem reconnect_makes_command_redundant (objs dead : List Ref) (t c : String) (k : Key) :
    k ∈ (if nameLive objs dead t c then register t c else unregister t c) (callbackRegs objs dead) ↔
      k ∈ callbackRegs objs dead := by
  by_cases hl : NameLive objs dead (t, c)
  · rw [if_pos ((nameLive_iff _ _ _ _).mpr hl), mem_register]
    constructor
    · rintro (rfl | rfl | h)
      · exact (mem_callbackRegs _ _ _).mpr hl
      · exact (mem_callbackRegs _ _ _).mpr ⟨hl.1, Or.inl rfl⟩
      · exact h
    · intro h; exact Or.inr (Or.inr h)
  · have hb : nameLive objs dead t c = false := by
      cases h : nameLive objs dead t c
      · rfl
      · exact absurd ((nameLive_iff _ _ _ _).mp h) hl
    rw [hb]
    simp only [Bool.false_eq_true, if_false, mem_unregister]
    constructor
    · intro h; exact h.1
    · intro h
      refine ⟨h, ?_⟩
      have hk := (mem_callbackRegs _ _ _).mp h
      split
      · rename_i hc
        intro heq
        apply hl
        refine ⟨?_, Or.inl hc⟩
        have := hk.1
        rw [heq] at this; exact this
      · intro heq; rw [heq] at hk; exact hl hk

/-- when nothing is being deleted the live names are exactly the objects in the maps -/
theorem nameLive_iff_in_maps (objs dead : List Ref) (hs : ChanHasTopic objs) (hq : ∀ r ∈ objs, r ∉ dead) (k : Key) :
    NameLive objs dead k ↔ ∃ r ∈ objs, r.key = k := by
  constructor
  · rintro ⟨⟨T, hT, hTc, hTt, _⟩, hch⟩
    rcases hch with h | ⟨r, hr, h1, h2, _⟩
    · exact ⟨T, hT, Prod.ext hTt (by rw [h]; exact hTc)⟩
    · exact ⟨r, hr, Prod.ext h1 h2⟩
  · rintro ⟨r, hr, rfl⟩
    by_cases hc : r.chan = ""
    · exact ⟨⟨r, hr, hc, rfl, hq r hr⟩, Or.inl hc⟩
    · obtain ⟨T, hT, h1, h2⟩ := hs r hr hc
      exact ⟨⟨T, hT, h1, h2, hq T hT⟩, Or.inr ⟨r, hr, rfl, rfl, hq r hr⟩⟩

/-- Two successful heartbeats always end connected: a connection whose lookupd went away fails the first PING
(closing it) and the second one reconnects. -/
theorem two_good_heartbeats_connect (o1 d1 o2 d2 : List Ref) (p : Peer) :
    (command o2 d2 id (command o1 d1 id p .ok) .ok).conn = .up := by
  unfold command
  cases p.conn <;> rfl

/-! ## convergence -/

/-- local churn is over: no notification pending, nothing half deleted -/
def Quiescent (s : State) : Prop := s.bag = [] ∧ ∀ r ∈ s.objs, r ∉ s.dead

/-- every connected lookupd lists this nsqd for exactly its current topics and channels -/
def InSync (s : State) : Prop :=
  ∀ p ∈ s.peers, p.conn = .up → ∀ k, k ∈ p.regs ↔ ∃ r ∈ s.objs, r.key = k

/-- the convergence clause for a tree (`f14`, `f15`: which of the two lookup fixes it has): along EVERY schedule —
any interleaving of churn, faults, restarts and reconfiguration, with the notifications consumed in ANY order — once
churn is over every lookupd that has a working connection is in sync. -/
def C16_converges_full (f14 f15 : Bool) : Prop :=
  ∀ (steps : List Step) (s : State), runG f14 f15 State.init steps = some s → Quiescent s → InSync s

theorem stepG_fixed (s : State) (st : Step) : stepG true true s st = step s st := by
  cases st <;> simp [stepG, step]

theorem runG_fixed (s : State) (steps : List Step) : runG true true s steps = run s steps := by
  induction steps generalizing s with
  | nil => rfl
  | cons st rest ih => simp only [runG, run, stepG_fixed]; split <;> simp [ih]

/-- `converges`: with fixes/F14_connect_callback_skips_exiting.patch and fixes/F15_lookup_notify_current_state.patch
the clause holds with NO hypothesis on the schedule (the former `Orderly` / NoStaleNotify hypothesis is gone):
whatever order the `Notify` goroutines are consumed in, whenever connections break and are re-established
(`two_good_heartbeats_connect`: two heartbeats after the last fault), quiescent ⇒ in sync. -/
theorem converges : C16_converges_full true true := by
  intro steps s hr hq
  rw [runG_fixed] at hr
  have hI := inv_run inv_init hr
  intro p hp hup k
  have ⟨e1, e2⟩ := hI.peers p hp hup
  rw [← nameLive_iff_in_maps s.objs s.dead hI.chanTopic hq.2 k]
  constructor
  · intro hk
    rcases e2 k hk with h | ⟨r, hb, _⟩ | ⟨_, ⟨r, hb, _⟩, _⟩
    · exact h
    · rw [hq.1] at hb; simp at hb
    · rw [hq.1] at hb; simp at hb
  · intro hk
    exact e1 k hk (by rintro ⟨r, hb, _⟩; rw [hq.1] at hb; simp at hb)

def t0 : Ref := ⟨"t", "", 0⟩
def t1 : Ref := ⟨"t", "", 1⟩
def c1 : Ref := ⟨"t", "c", 1⟩

/-- witness 1 (stale UNREGISTER, needs F15): delete `t`, re-create `t`; the two notifications overtake each other. -/
def staleUnregister : List Step :=
  [.addPeer 0 .ok, .createTopic "t", .notify t0 [.ok], .delBegin t0, .delUnlink t0, .createTopic "t",
   .notify t1 [.ok], .notify t0 [.ok]]

/-- witness 2 (reconnect during a deletion, needs F14): the connection breaks, the UNREGISTER of `t` is lost with
it, the next heartbeat reconnects while `t` is still in the map (it is unlinked at the very end of the deletion). -/
def reconnectDuringDelete : List Step :=
  [.addPeer 0 .ok, .createTopic "t", .notify t0 [.ok], .lookupdDrop 0, .delBegin t0, .notify t0 [.ok],
   .tick [.ok], .delUnlink t0]

/-- witness 3 (child after parent, needs F15): a channel's creation notification is consumed after the UNREGISTER
of its exiting topic. -/
def channelAfterTopic : List Step :=
  [.addPeer 0 .ok, .createTopic "t", .notify t0 [.ok], .createChan "t" "c", .delBegin t0, .notify t0 [.ok],
   .notify c1 [.ok], .delBegin c1, .notify c1 [.ok], .delUnlink c1, .delUnlink t0]

/-- quiescent, peer connected, nsqd's keys and the lookupd's registrations are as given -/
def endsWith (o : Option State) (objKeys regs : List Key) : Bool :=
  match o with
  | some s => s.bag.isEmpty && s.objs.all (fun r => !s.dead.contains r) && s.objs.map Ref.key == objKeys &&
      (match s.peers with | [p] => p.conn == .up && p.regs == regs | _ => false)
  | none => false

-- on the tree without the fixes the three schedules end quiescent and out of sync …
example : endsWith (runG false false State.init staleUnregister) [("t", "")] [] = true := by decide
example : endsWith (runG false false State.init reconnectDuringDelete) [] [("t", "")] = true := by decide
example : endsWith (runG false false State.init channelAfterTopic) [] [("t", "")] = true := by decide
-- … each fix alone is not enough …
example : endsWith (runG false true State.init reconnectDuringDelete) [] [("t", "")] = true := by decide
example : endsWith (runG true false State.init staleUnregister) [("t", "")] [] = true := by decide
-- … and with both, the same schedules end in sync
example : endsWith (runG true true State.init staleUnregister) [("t", "")] [("t", "")] = true := by decide
example : endsWith (runG true true State.init reconnectDuringDelete) [] [] = true := by decide
example : endsWith (runG true true State.init channelAfterTopic) [] [] = true := by decide

theorem not_in_sync_of_endsWith {o : Option State} {objKeys regs : List Key} (h : endsWith o objKeys regs = true)
    (k : Key) (hk : (k ∈ regs) ≠ (k ∈ objKeys)) : ∃ s, o = some s ∧ Quiescent s ∧ ¬ InSync s := by
  cases o with
  | none => simp [endsWith] at h
  | some s =>
    simp only [endsWith] at h
    cases hps : s.peers with
    | nil => simp [hps] at h
    | cons p ps =>
      cases ps with
      | cons q qs => simp [hps] at h
      | nil =>
        simp only [hps, Bool.and_eq_true, List.isEmpty_iff, List.all_eq_true, beq_iff_eq] at h
        obtain ⟨⟨⟨hb, hd⟩, ho⟩, hup, hregs⟩ := h
        refine ⟨s, rfl, ⟨hb, fun r hr' => by have := hd r hr'; simpa using this⟩, ?_⟩
        intro hsync
        have := hsync p (by simp [hps]) hup k
        apply hk
        rw [hregs] at this
        rw [← ho]
        simp only [List.mem_map]
        exact propext this

/-- Without F14 the clause is false even with F15 (witness 2; reproduced on the real code without any forcing). -/
theorem converges_false_without_F14 : ¬ C16_converges_full false true := by
  intro h
  have hc : endsWith (runG false true State.init reconnectDuringDelete) [] [("t", "")] = true := by decide
  obtain ⟨s, hr, hq, hn⟩ := not_in_sync_of_endsWith hc ("t", "") (by simp)
  exact hn (h _ s hr hq)

/-- Without F15 the clause is false even with F14 (witness 1; reproduced on the real code with the
`nsqd.notify.beforeSend` hook). -/
theorem converges_false_without_F15 : ¬ C16_converges_full true false := by
  intro h
  have hc : endsWith (runG true false State.init staleUnregister) [("t", "")] [] = true := by decide
  obtain ⟨s, hr, hq, hn⟩ := not_in_sync_of_endsWith hc ("t", "") (by simp)
  exact hn (h _ s hr hq)

/-! ## pre-creation

The theorems about `GetTopic`'s channel pre-creation are in `Nsq.Props.C16More` (audit round 7: the set of lookupds
that are asked at all — `Lookupd.identified` —, name validation, command injection). -/

/-! ## non-vacuity -/

/-- an orderly schedule with churn, a lookupd restart and a failed command that ends quiescent and in sync with a
non-empty registration set -/
def goodSchedule : List Step :=
  [.addPeer 0 .ok, .createTopic "t", .notify t0 [.ok], .createChan "t" "c", .notify c1 [.fail], .tick [.ok],
   .lookupdDrop 0, .tick [.ok], .tick [.ok]]

example : endsWith (run State.init goodSchedule) [("t", ""), ("t", "c")] [("t", "c"), ("t", "")] = true := by decide

example : readResponse true 1024 [0, 0, 0, 2, 79, 75] = .ok [79, 75] := by decide
example : readResponse true 1 [0, 0, 0, 2, 79, 75] = .err := by decide

end Nsq.Props.C16
