import Nsq.Model.TopicDelete
import Nsq.Proofs.TopicDelete
/-
C08 — "deleting a topic disconnects its consumers … a later re-creation starts empty", under every
interleaving of `DeleteExistingTopic` (HTTP delete or the ephemeral topic's `deleteCallback`) with SUB,
disconnects, re-creation of the name and another deletion of the same name.
Model: Model/TopicDelete.lean; `{}` = the tree without fixes/F19 + F20, `fixedTree` = with both.
-/
namespace Nsq.Props.C08TopicDelete
open Nsq.Model.TopicDelete Nsq.Proofs.TopicDelete

/-- the full claim for the unrepaired tree: no schedule leaves a consumer attached to an object that no
map holds, and no object is unlinked without having been deleted -/
def DeleteDisconnectsFull : Prop :=
  ∀ (sched : List DStep) (s : DSt), drun {} sched = some s → zombies s = [] ∧ leaked s = []

/-- consumer 1 subscribed; the deletion has deleted every channel (1 closed) and is about to unlink; consumer 2
subscribes: `GetTopic` returns the dead object, `GetChannel` creates a channel inside it, SUB is answered OK;
the unlink removes the object: 2 stays connected to a channel nothing can reach (`topic_delete_races_sub`) -/
def witnessZombie : List DStep := [.sub 1 false, .delBegin, .delChannels 0, .sub 2 false, .delUnlink 0]

/-- a second deletion loses the CAS and unlinks the name at once; the name is re-created (object 1, consumer 2);
the first deletion finishes and unlinks the *name*: the fresh object leaves the map although nobody deleted it
(`topic_double_delete_unlinks_fresh`) -/
def witnessDouble : List DStep :=
  [.sub 1 false, .delBegin, .delBegin, .loserUnlink, .sub 2 false, .delChannels 0, .delUnlink 0]

theorem witnessZombie_zombie :
    (drun {} witnessZombie).map (fun s => (zombies s, s.closed, s.okSub, s.map)) = some ([2], [1], [(2, 0), (1, 0)], none) := by
  decide

theorem witnessDouble_leaks :
    (drun {} witnessDouble).map (fun s => (zombies s, leaked s, s.closed, s.map)) = some ([2], [1], [1], none) := by
  decide

theorem delete_disconnects_full_false : ¬ DeleteDisconnectsFull := by
  intro h
  have := (h witnessZombie _ rfl).1
  revert this
  decide

/-- each repair alone leaves the other window open -/
theorem each_fix_alone_insufficient :
    (drun { ownUnlink := true } witnessZombie).map zombies = some [2] ∧
    (drun { subGuard := true } witnessDouble).map leaked = some [1] := by decide

/-- the same interleavings on the repaired tree: the late SUB is refused and its connection closed; the
second deletion returns without unlinking, so the name is not re-created underneath the running deletion
(consumer 2 is refused as well) -/
theorem repaired_witnesses :
    (drun fixedTree witnessZombie).map (fun s => (zombies s, leaked s, s.closed, s.okSub)) = some ([], [], [2, 1], [(1, 0)]) ∧
    drun fixedTree witnessDouble = none ∧
    (drun fixedTree [.sub 1 false, .delBegin, .delBegin, .sub 2 false, .delChannels 0, .delUnlink 0, .sub 3 false]).map
      (fun s => (zombies s, leaked s, s.closed, s.okSub, s.map.map (fun T => (T.id, T.subs)))) =
      some ([], [], [1, 2], [(3, 1), (1, 0)], some (1, [3])) := ⟨rfl, rfl, rfl⟩

/-- **F19 + F20**: on the repaired tree no schedule of subscriptions, disconnects, deletions (any number,
concurrent, incl. the ephemeral callback) and re-creations produces a consumer attached to an unreachable
object, and an object leaves the map only after it was deleted -/
theorem no_zombie_fixed (sched : List DStep) (s : DSt) (h : drun fixedTree sched = some s) :
    zombies s = [] ∧ leaked s = [] := by
  have inv := fixedInv_run sched fixedTree s fixedInv_init h
  constructor
  · unfold zombies
    rw [List.flatten_eq_nil_iff]
    intro l hl
    obtain ⟨T, hT, rfl⟩ := List.mem_map.mp hl
    exact (inv.unl T hT).1
  · unfold leaked
    rw [List.map_eq_nil_iff, List.filter_eq_nil_iff]
    intro T hT
    simp [(inv.unl T hT).2]

/-- every tree: the channel-deletion stage of a topic deletion closes every consumer attached to the object
at that moment (what `delete_topic_effects` says in the atomic model) -/
theorem delete_topic_closes_attached (s s' : DSt) (id : Nat) (T : TObj) (hf : findObj s id = some T)
    (h : dstep s (.delChannels id) = some s') : ∀ k ∈ T.subs, k ∈ s'.closed := by
  simp only [dstep] at h
  split at h
  · rw [hf] at h
    simp only [] at h
    split at h
    · cases h
    · cases h
      intro k hk
      simp [hk]
  · cases h

/-! ### non-vacuity -/
example : (drun fixedTree [.sub 1 true, .sub 2 true, .leave 1, .delBegin, .sub 3 true, .delChannels 0, .delUnlink 0, .sub 4 false,
    .delBegin, .delBegin, .delChannels 1, .delUnlink 1]).map (fun s => (s.unlinked.map (fun T => (T.id, T.exiting, T.subs)), s.closed, s.left, s.map)) =
    some ([(1, true, []), (0, true, [])], [4, 2, 3], [1], none) := by decide
example : ∃ s T, findObj s 0 = some T ∧ T.subs = [2, 1] ∧ (dstep s (.delChannels 0)).map (·.closed) = some [2, 1] :=
  ⟨{ map := some { id := 0, exiting := true, subs := [2, 1] }, deleters := [0], nextId := 1 }, _, rfl, rfl, rfl⟩

end Nsq.Props.C08TopicDelete
