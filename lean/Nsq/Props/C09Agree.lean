/-
C09 — audit B7 remainder (docs/C09.md "Round 11"): with `--max-channel-consumers > 0`, what of the BROKER (hence of other
connections) a connection's whole run depends on.  `C09Audit` has the per-command statement
(`answer_reads_broker_only_through_limit`), whole-run independence for the limit 0 (`…_partial`) and the refutation of
unconditional independence (`…_full_false`); "publishes do not change client counts through `settle`" was named as missing.

Serve-level model `Nsq.Model.ProtoEnv` (`serveX` = magic + `IOLoop` + teardown, `connectX` = connection still open), any
configuration (any limit, auth on or off, any backend-fault input `putsOk`), any connection state, any bytes:

* `answers_function_of_sub_counts` — the run of connection A (frames, end, final state, accepted effects) is the same against
  two brokers that have the same NUMBER OF CONSUMERS on the channels A's own input SUBscribes to (`serveTargets`: the
  `(topic, channel)` of every SUB the base step accepts along the run — a channel that does not exist counts 0).  Since both
  brokers are arbitrary otherwise, and A's own earlier commands (publishes, `GetTopic`, `GetChannel`, all through `settle`)
  are proved not to change any client count, this is: A's answers are a function of A's bytes (and configuration / state /
  fault input) and of the client count of its SUB's channel at the moment of the SUB;
  (the hypothesis speaks about the targets computed against ONE of the two brokers);
* `answers_independent_of_counts` — corollary for brokers that agree on every client count (the statement docs/C09.md listed
  as not proved), with `brokers_still_agree` (after the open connection's run they still agree: induction over several
  connections is possible);
* `publish_keeps_counts`, `sub_adds_one` — the broker lemmas.
Non-vacuity: two very different brokers with the same count on `t/c` give the same run under limit 1 (theorem applied), and
the existing `answers_independent_of_broker_full_false` is the disagreeing pair.
-/
import Nsq.Proofs.ProtoAgree
import Nsq.Props.C09Audit
namespace Nsq.Props.C09Agree
open Nsq.Model.ProtoV2 Nsq.Model.Names Nsq.Model.ProtoEnv Nsq.Model
open Nsq.Proofs.ProtoV2 Nsq.Proofs.ProtoEnv Nsq.Proofs.ProtoAgree

/-- the channels the run of a whole connection asks the broker about -/
def serveTargets (xc : XConf) (x : XState) (b : Broker) (bs : Bytes) : List (Bytes × Bytes) :=
  match bs with
  | m0 :: m1 :: m2 :: m3 :: rest => if [m0, m1, m2, m3] = magicV2 then subTargets xc (rest.length + 1) x b rest else []
  | _ => []

/-- **B7**: the whole run of a connection depends on the broker only through the number of consumers of the channels it
SUBscribes to -/
theorem answers_function_of_sub_counts (xc : XConf) (x : XState) (b b' : Broker) (bs : Bytes)
    (h : ∀ p ∈ serveTargets xc x b bs, clientCount b p.1 p.2 = clientCount b' p.1 p.2) :
    rview (serveX xc x b bs) = rview (serveX xc x b' bs) ∧ rview (connectX xc x b bs) = rview (connectX xc x b' bs) := by
  unfold serveX connectX
  unfold serveTargets at h
  split
  · rename_i m0 m1 m2 m3 rest
    split
    · rename_i hm
      simp only [hm, if_true] at h
      rw [disconnect_rview, disconnect_rview]
      have := (loopX_agree_on xc (rest.length + 1) x b b' rest h).1
      exact ⟨this, this⟩
    · exact ⟨rfl, rfl⟩
  · exact ⟨rfl, rfl⟩

/-- corollary: brokers that agree on EVERY client count (any limit) -/
theorem answers_independent_of_counts (xc : XConf) (x : XState) (b b' : Broker) (bs : Bytes)
    (h : ∀ t c, clientCount b t c = clientCount b' t c) :
    rview (serveX xc x b bs) = rview (serveX xc x b' bs) ∧ rview (connectX xc x b bs) = rview (connectX xc x b' bs) :=
  answers_function_of_sub_counts xc x b b' bs (fun p _ => h p.1 p.2)

/-- … and while the connection stays open the two brokers still agree on every client count -/
theorem brokers_still_agree (xc : XConf) (x : XState) (b b' : Broker) (bs : Bytes)
    (h : ∀ t c, clientCount b t c = clientCount b' t c) :
    ∀ t c, clientCount (connectX xc x b bs).broker t c = clientCount (connectX xc x b' bs).broker t c := by
  unfold connectX
  split
  · split
    · exact (loopX_agree xc _ x b b' _ h).2
    · exact h
  · exact h

/-- publishes (through `GetTopic`, `PutMessages`, `settle`) change no client count -/
theorem publish_keeps_counts (b : Broker) (n : Bytes) (ms : List Msg) (t c : Bytes) :
    clientCount (publish b n ms) t c = clientCount b t c := clientCount_publish b n ms t c

/-- an accepted SUB adds exactly one consumer, to its own channel -/
theorem sub_adds_one (b : Broker) (t c t' c' : Bytes) :
    clientCount (addClient (getChannel (getTopic b t) t c) t c) t' c' =
      clientCount b t' c' + (if t' = t ∧ c' = c then 1 else 0) := clientCount_sub b t c t' c'

/-! ### non-vacuity -/
namespace Examples
open Nsq.Props.C09Audit.Examples

/-- nothing like the empty broker — except that nobody consumes `t/c`: `t/c` exists with 0 consumers and a backlog, `t/d`
has 5 consumers, topic `u` is paused with pending messages -/
def other : Broker :=
  [{ name := ascii "t", paused := false, count := 7, msgs := [],
     chans := [{ name := ascii "c", paused := false, clients := 0, msgs := [⟨[1], 0⟩] },
               { name := ascii "d", paused := true, clients := 5, msgs := [] }] },
   { name := ascii "u", paused := true, count := 2, msgs := [⟨[2], 0⟩, ⟨[3], 0⟩], chans := [] }]

def bytesA : Bytes := magicV2 ++ ascii "SUB t c\n" ++ ascii "RDY 1\n" ++ ascii "SUB t d\n"

example : serveTargets xlimit x0 [] bytesA = [(ascii "t", ascii "c")] := by decide
/-- the theorem applied under limit 1: same run against `[]` and `other` -/
example : rview (serveX xlimit x0 [] bytesA) = rview (serveX xlimit x0 other bytesA) :=
  (answers_function_of_sub_counts xlimit x0 [] other bytesA (by decide)).1
example : (serveX xlimit x0 [] bytesA).replies = [.ok, .err .E_INVALID] ∧
    (serveX xlimit x0 other bytesA).replies = [.ok, .err .E_INVALID] := by decide
/-- the hypothesis is needed: `busy` has one consumer on `t/c` -/
example : clientCount [] (ascii "t") (ascii "c") ≠ clientCount busy (ascii "t") (ascii "c") ∧
    (serveX xlimit x0 busy bytesA).replies = [.err .E_SUB_FAILED] := by decide
/-- the brokers do NOT agree on every count (`t/d`: 0 vs 5): only the SUB's channel matters -/
example : clientCount [] (ascii "t") (ascii "d") ≠ clientCount other (ascii "t") (ascii "d") := by decide
example : clientCount (publish other (ascii "t") [⟨[9], 0⟩]) (ascii "t") (ascii "d") = 5 := by decide

end Examples
end Nsq.Props.C09Agree
