/-
C03 — RDY flow control, CLS and pause (channel level; topic pause follows with the nsqd-level
theorems). All statements are about the atomic model: the delivery pump's guard evaluation and
its send are one step (`Op.deliver`), which is exactly what a serialised observer sees. The
one-message overshoot of the real pump (Go's `select` may pick the queue case although
`ReadyStateChan` is also ready) is *not* modelled as a micro-step here — see docs/C03.md.
-/
import Nsq.Props.C13
import Nsq.Props.C01
namespace Nsq.Props.C03
open Nsq.Model.Chan Nsq.Proofs.Chan
open Nsq.Props.C13 (ReachableA reachableA_invA)

/-- C03.1 `deliver_needs_guard` — at every delivery to connection `k` in any reachable history,
the guard held with respect to what that consumer itself did before: its last accepted RDY was
positive, its unanswered, unexpired messages numbered fewer than that RDY (`outstanding` is the
client-side bookkeeping sent − finished − requeued − timed out, reset by an Empty), and the
channel was not paused. This is C03's headline statement and also `chan_pause_blocks`. -/
theorem deliver_needs_guard {conf : Conf} (hconf : 0 ≤ conf.maxRdy) {c : Chan} (h : ReachableA conf c)
    {h2 h1 : List Ev} {k id a : Nat} (hs : c.hist = h2 ++ Ev.deliver k id a :: h1) :
    0 < rdyOf h1 k ∧ outstanding h1 k < rdyOf h1 k ∧ pausedOf h1 = false := by
  have hok := (reachableA_invA hconf h).okh3
  rw [hs] at hok
  have := okHist3_append hok
  simp only [okHist3, okEv3, Bool.and_eq_true, decide_eq_true_eq, Bool.not_eq_true'] at this
  exact ⟨this.1.1.1, this.1.1.2, this.1.2⟩

/-- the step-level form: a delivery is accepted only when `IsReadyForMessages` holds -/
theorem deliver_only_if_ready (conf : Conf) (c : Chan) (k id : Nat) (now : Int) {a : Nat}
    (h : (step conf c (.deliver k id now)).2 = .msg a) :
    ∃ cl, findC c.clients k = some cl ∧ c.paused = false ∧ 0 < cl.rdy ∧ cl.inFlight < cl.rdy := by
  simp only [step] at h
  split at h
  · cases h
  · rename_i cl hf
    split at h
    · cases h
    · rename_i hr
      simp only [Bool.not_eq_true, Bool.not_eq_false'] at hr
      exact ⟨cl, hf, ready_iff.1 hr⟩

/-- C03.2 `inflight_le_rdy` — in every reachable state of the atomic model a connected consumer's
in-flight count is between 0 and the RDY value at its last delivery (`lgr`), hence at most
`max rdy lgr`; and when RDY has not been lowered since that delivery, at most the current RDY. -/
theorem inflight_le_rdy {conf : Conf} (hconf : 0 ≤ conf.maxRdy) {c : Chan} (h : ReachableA conf c)
    {cl : Client} (hcl : cl ∈ c.clients) :
    0 ≤ cl.inFlight ∧ cl.inFlight ≤ max cl.rdy cl.lgr ∧ (cl.decr = false → cl.inFlight ≤ cl.rdy) := by
  have ha := reachableA_invA hconf h
  have h2 := ha.clA cl hcl
  refine ⟨by rw [h2.1]; exact heldBy_nonneg _ _, by have := h2.2.2.2.1; omega, ?_⟩
  intro hd
  have := h2.2.2.2.2 hd
  have := h2.2.2.2.1
  omega

/-! ### C03.2, micro-step granularity: the one-message overshoot

The real pump evaluates the guard at the top of its loop (`guard`), then blocks in `select`; a RDY
decrease / CLS / pause that is stored in between is seen only at the next iteration, so ONE more
message can be sent (`deliverArmed`: Go's `select` may pick the queue case although
`ReadyStateChan` is ready too). In the model a successful guard evaluation *arms* the connection
for exactly one delivery. -/

/-- a micro-step delivery needs an earlier successful guard evaluation … -/
theorem deliverArmed_needs_armed (conf : Conf) (c : Chan) (k id : Nat) (now : Int) {a : Nat}
    (h : (step conf c (.deliverArmed k id now)).2 = .msg a) :
    ∃ cl, findC c.clients k = some cl ∧ cl.armed = true := by
  simp only [step] at h
  split at h
  · cases h
  · rename_i cl hf
    split at h
    · cases h
    · rename_i ha
      exact ⟨cl, hf, by simpa using ha⟩

/-- … which it consumes: every delivery disarms the connection (step level only — audit A8: this theorem says no more
than "`armed = false` after a delivery", its hypothesis is not used). The statement its name promises — at most one
message per guard evaluation, whatever happened to RDY / pause in between, as a property of EVERY history at micro-step
granularity — is `Nsq.Props.C03Guard.every_delivery_has_its_guard` / `deliveries_le_guards`. -/
theorem overshoot_le_one (conf : Conf) (c : Chan) (k id : Nat) (now : Int) {a : Nat}
    (h : (step conf c (.deliverArmed k id now)).2 = .msg a ∨ (step conf c (.deliver k id now)).2 = .msg a) :
    (∀ cl ∈ (step conf c (.deliverArmed k id now)).1.clients, cl.conn = k →
        (step conf c (.deliverArmed k id now)).2 = .msg a → cl.armed = false) ∧
    (∀ cl ∈ (step conf c (.deliver k id now)).1.clients, cl.conn = k →
        (step conf c (.deliver k id now)).2 = .msg a → cl.armed = false) := by
  clear h
  have key : ∀ (cl0 : Client), (doDeliver c cl0 k id now).2 = .msg a →
      ∀ cl ∈ (doDeliver c cl0 k id now).1.clients, cl.conn = k → cl.armed = false := by
    intro cl0 hd cl hcl hk
    cases hfe : findE c.msgs id with
    | none => simp [doDeliver, hfe] at hd
    | some e =>
      by_cases hq : isQueued e = true
      · simp only [doDeliver, hfe, hq, Bool.not_true, Bool.false_eq_true, ↓reduceIte] at hcl
        obtain ⟨cl1, _, rfl⟩ := mem_updC.1 hcl
        by_cases h1 : cl1.conn = k
        · simp [h1]
        · simp only [h1, ↓reduceIte] at hk
      · simp [doDeliver, hfe, hq] at hd
  constructor
  · intro cl hcl hk hm
    simp only [step] at hcl hm
    split at hm
    · cases hm
    · split at hm
      · cases hm
      · rename_i cl0 hf hna
        simp only [hf, hna, ↓reduceIte] at hcl
        exact key cl0 hm cl hcl hk
  · intro cl hcl hk hm
    simp only [step] at hcl hm
    split at hm
    · cases hm
    · split at hm
      · cases hm
      · rename_i cl0 hf hna
        simp only [hf, hna, ↓reduceIte] at hcl
        exact key cl0 hm cl hcl hk

/-- the guard evaluation arms the connection iff `IsReadyForMessages` holds at that moment -/
theorem guard_arms_iff_ready (conf : Conf) (c : Chan) (k : Nat) {cl : Client} (hf : findC c.clients k = some cl) :
    ((step conf c (.guard k)).2 = .ok ↔ ready c.paused cl = true) ∧
    ∀ cl' ∈ (step conf c (.guard k)).1.clients, cl'.conn = k → cl'.armed = ready c.paused cl := by
  by_cases hr : ready c.paused cl = true
  · constructor
    · simp [step, hf, hr]
    simp only [step, hf, hr, ↓reduceIte]
    intro cl' hcl' hk
    obtain ⟨cl1, _, rfl⟩ := mem_updC.1 hcl'
    by_cases h1 : cl1.conn = k
    · simp [h1]
    · simp only [h1, ↓reduceIte] at hk
  · have hr' : ready c.paused cl = false := by simpa using hr
    constructor
    · simp [step, hf, hr']
    simp only [step, hf, hr', Bool.false_eq_true, ↓reduceIte]
    intro cl' hcl' hk
    obtain ⟨cl1, _, rfl⟩ := mem_updC.1 hcl'
    by_cases h1 : cl1.conn = k
    · simp [h1]
    · simp only [h1, ↓reduceIte] at hk

/-- the schedule: guard evaluated with RDY 1, then `RDY 0` is processed, then the select picks the
queue: message 7 is delivered although RDY is 0 — and a second one is not -/
def overshootOps : List Op :=
  [.put 7, .put 8, .addClient 1 60 0, .rdy 1 1, .guard 1, .rdy 1 0, .deliverArmed 1 7 100]

theorem overshoot_schedule_example :
    (run {} {} overshootOps).clients.map (fun cl => (cl.rdy, cl.inFlight, cl.armed)) = [(0, 1, false)] ∧
    (step {} (run {} {} overshootOps) (.deliverArmed 1 8 101)).2 = .reject "not-armed" ∧
    (step {} (run {} {} overshootOps) (.guard 1)).2 = .reject "guard" := by decide

/-- C03.3 `no_rdy_no_msg` — before the first RDY, after `RDY 0` and after CLS the history-derived
ready count is 0, so by `deliver_needs_guard` nothing is delivered; and CLS is sticky: a later
RDY is ignored (no `rdySet` event follows a `closed` event of the same connection). -/
theorem no_rdy_no_msg {conf : Conf} (hconf : 0 ≤ conf.maxRdy) {c : Chan} (h : ReachableA conf c)
    {h2 h1 : List Ev} {k id a : Nat} (hs : c.hist = h2 ++ Ev.deliver k id a :: h1) :
    rdyOf h1 k ≠ 0 ∧ closedOf h1 k = false := by
  have hg := deliver_needs_guard hconf h hs
  refine ⟨by omega, ?_⟩
  -- a closed connection has ready count 0 in every well-formed history
  have hok := (reachableA_invA hconf h).okh3
  rw [hs] at hok
  have hok1 : okHist3 conf.maxRdy h1 = true := by
    have := okHist3_append hok
    simp only [okHist3, Bool.and_eq_true] at this
    exact this.2
  clear hok hs
  have key : ∀ (hh : List Ev), okHist3 conf.maxRdy hh = true → closedOf hh k = true → rdyOf hh k = 0 := by
    intro hh
    induction hh with
    | nil => intro _ hc; cases hc
    | cons ev hh ih =>
      intro hokk hc
      simp only [okHist3, Bool.and_eq_true] at hokk
      have ih' := ih hokk.2
      have hev := hokk.1
      cases ev <;> simp only [closedOf, rdyOf] at hc ⊢ <;> try exact ih' hc
      case rdySet kk n =>
        by_cases hk : kk = k
        · subst hk
          simp only [okEv3, Bool.and_eq_true, Bool.not_eq_true', decide_eq_true_eq] at hev
          rw [hev.1.1] at hc
          cases hc
        · simp only [hk, ↓reduceIte] at hc ⊢; exact ih' hc
      case closed kk =>
        by_cases hk : kk = k
        · simp [hk]
        · simp only [hk, ↓reduceIte] at hc ⊢; exact ih' hc
      case joined kk =>
        by_cases hk : kk = k
        · simp [hk] at hc
        · simp only [hk, ↓reduceIte] at hc ⊢; exact ih' hc
  cases hc : closedOf h1 k
  · rfl
  · have := key h1 hok1 hc
    omega

theorem rdyOf_initial (k : Nat) : rdyOf [] k = 0 := rfl
theorem rdyOf_after_zero (k : Nat) (h : List Ev) : rdyOf (.rdySet k 0 :: h) k = 0 := by simp [rdyOf]
theorem rdyOf_after_cls (k : Nat) (h : List Ev) : rdyOf (.closed k :: h) k = 0 := by simp [rdyOf]

/-- C03.4 `rdy_range` (the count as parsed; the parse itself is `parseCount` below) — for a
subscribed, not closing consumer `RDY n` is accepted (and becomes the ready count) iff
`0 ≤ n ≤ max-rdy-count`, else it is the fatal `E_INVALID` and the connection is dropped. -/
theorem rdy_range (conf : Conf) (c : Chan) (k : Nat) (n : Int) {cl : Client}
    (hc : findC c.clients k = some cl) (hcl : cl.closing = false) :
    (0 ≤ n ∧ n ≤ conf.maxRdy →
      (step conf c (.rdy k n)).2 = .ok ∧
      ∀ cl' ∈ (step conf c (.rdy k n)).1.clients, cl'.conn = k → cl'.rdy = n) ∧
    (¬ (0 ≤ n ∧ n ≤ conf.maxRdy) →
      (step conf c (.rdy k n)).2 = .err "E_INVALID" true ∧ hasC (step conf c (.rdy k n)).1.clients k = false) := by
  constructor
  · intro hr
    have : ¬ (n < 0 ∨ n > conf.maxRdy) := by omega
    simp only [step, hc, hcl, Bool.false_eq_true, ↓reduceIte, Bool.or_eq_true, decide_eq_true_eq, this, true_and]
    intro cl' hcl' hk
    obtain ⟨cl0, _, rfl⟩ := mem_updC.1 hcl'
    by_cases h0 : cl0.conn = k
    · simp [h0]
    · simp only [h0, ↓reduceIte] at hk
  · intro hr
    have : (n < 0 ∨ n > conf.maxRdy) := by omega
    simp only [step, hc, hcl, Bool.false_eq_true, ↓reduceIte, Bool.or_eq_true, decide_eq_true_eq, this, true_and]
    simp [hasC, removeC]

/-- the count on the wire: `protocol.ByteToBase10` (digits only; since fix 43ed751 a value
≥ 2^64 is a parse error instead of wrapping) followed by `int64(b10)` (values ≥ 2^63 wrap
negative). `v` is the mathematical value of the digit string. -/
def countOfValue (v : Nat) : Option Int :=
  if v ≥ 18446744073709551616 then none
  else if v ≥ 9223372036854775808 then some ((v : Int) - 18446744073709551616) else some v

/-- C03.4 full strength — a decimal count with value `v` (ANY number of digits) is accepted iff
`v ≤ max-rdy-count` (for the real option range `max-rdy-count < 2^63`). In particular
"18446744073709551621" (= 2^64 + 5) is refused. -/
theorem rdy_range_full (maxRdy : Int) (h0 : 0 ≤ maxRdy) (h1 : maxRdy < 9223372036854775808) (v : Nat) :
    (∃ n, countOfValue v = some n ∧ 0 ≤ n ∧ n ≤ maxRdy) ↔ (v : Int) ≤ maxRdy := by
  unfold countOfValue
  constructor
  · rintro ⟨n, hn, h2, h3⟩
    split at hn
    · cases hn
    · split at hn <;> (injection hn with hn; omega)
  · intro hv
    have hv' : v < 9223372036854775808 := by omega
    exact ⟨v, by simp; omega, by omega, hv⟩

example : countOfValue 18446744073709551621 = none := by decide
example : countOfValue 2500 = some 2500 := by decide

/-- C03.5 `resume` — after an unpause or an RDY raise, a queued message and a consumer whose guard
now holds make the delivery step enabled again (that the real pump re-evaluates the guard then is
the regenerated fact `Tie.Chan.readyStateCallers_eq`: every path that can turn the guard true calls
`tryUpdateReadyState`). -/
theorem resume {conf : Conf} {c : Chan} (h : C02.Reachable conf c) {e : Entry} (he : e ∈ c.msgs)
    (hq : e.loc = .queued) {k : Nat} {cl : Client} (hc : findC c.clients k = some cl)
    (h0 : 0 < cl.rdy) (h1 : cl.inFlight < cl.rdy) (now : Int) :
    (step conf (step conf c .unpause).1 (.deliver k e.id now)).2 = .msg (e.att + 1) := by
  have hr : C02.Reachable conf (step conf c .unpause).1 := by
    obtain ⟨eph, cap, ops, rfl⟩ := h
    refine ⟨eph, cap, ops ++ [.unpause], ?_⟩
    have : ∀ (ops : List Op) (c0 : Chan), run conf c0 (ops ++ [.unpause]) = (step conf (run conf c0 ops) .unpause).1 := by
      intro ops
      induction ops with
      | nil => intro c0; rfl
      | cons o os ih => intro c0; simp only [List.cons_append, run]; exact ih _
    exact (this _ _).symm
  have := Nsq.Props.C01.deliver_enabled (conf := conf) hr (e := e) (by simpa [step] using he) hq (k := k) (cl := cl)
    (by simpa [step] using hc) (by simp [step, ready, h0, h1]) now
  exact this.1

/-- C03.6 `counter_moves` — the in-flight counter of a connected consumer moves exactly with the
messages it holds: +1 by a delivery to it, −1 by its accepted FIN / REQ and by a timeout of a
message it holds, to 0 by an Empty (shared with C13.client_counters). -/
theorem counter_moves {conf : Conf} (hconf : 0 ≤ conf.maxRdy) {c : Chan} (h : ReachableA conf c)
    {cl : Client} (hcl : cl ∈ c.clients) :
    cl.inFlight = (heldBy c.msgs cl.conn : Int) ∧ cl.inFlight = outstanding c.hist cl.conn :=
  let r := C13.client_counters hconf h hcl
  ⟨r.2.2.2.2.2.1, r.2.2.2.2.2.2⟩

/-! non-vacuity -/
example : ReachableA {} (run {} {} [.put 7, .put 8, .addClient 1 60 0, .rdy 1 1, .deliver 1 7 100]) :=
  ⟨false, 0, _, by decide, rfl⟩
/-- with RDY 1 and one message outstanding the second delivery is refused by the guard -/
example : (step {} (run {} {} [.put 7, .put 8, .addClient 1 60 0, .rdy 1 1, .deliver 1 7 100]) (.deliver 1 8 101)).2
    = .reject "guard" := by decide
/-- a paused channel delivers nothing -/
example : (step {} (run {} {} [.put 7, .addClient 1 60 0, .rdy 1 1, .pause]) (.deliver 1 7 100)).2
    = .reject "guard" := by decide


/-! ## topic level -/
section Nsqd
open Nsq.Model.ChanNsqd Nsq.Proofs.ChanNsqd

/-- C03.5 `topic_pause_handshake` — once `pauseTopic` has returned (flag stored and the pump
hand-shaken: regenerated fact `Tie.Chan.topicDoPause_eq`), the fan-out step is refused and changes
nothing until `unpauseTopic`; meanwhile publishes are still acknowledged and enqueued
(`C01.ack_implies_enqueued` has no pause hypothesis).
Audit A10: in THIS model `pumpTopic` re-reads the flag (`pumpEnabled`), so the statement holds by the definition of
the step. The real pump caches the decision; the statement with the cached bit, the flag store and the hand-shake as
separate steps, over every schedule, is `Nsq.Props.C03Pause.topic_pause_handshake_micro` (+ `handshake_full_false_without_ack`:
false without the hand-shake), and `C03Pause.atomic_model_exact_at_quiescence` shows this model's `pumpEnabled` is the
cached bit whenever no `Pause()`/`UnPause()`/`GetChannel` call is in progress. -/
theorem topic_pause_handshake (s : State) (t id : Nat) (kept : Bool) (pris : List (Nat × Int))
    {tp : Topic} (hf : findT s.topics t = some tp) (hp : tp.paused = true) :
    Nsq.Model.ChanNsqd.step s (.pumpTopic t id kept pris) = (s, .reject "pump-disabled") := by
  simp [Nsq.Model.ChanNsqd.step, hf, pumpEnabled, hp]

/-- pausing really sets the flag the pump looks at, unpausing clears it -/
theorem pause_sets_flag (s : State) (t : Nat) {tp : Topic} (hf : findT s.topics t = some tp) :
    (∀ y ∈ (Nsq.Model.ChanNsqd.step s (.pauseTopic t)).1.topics, y.tid = t → y.paused = true) ∧
    (∀ y ∈ (Nsq.Model.ChanNsqd.step s (.unpauseTopic t)).1.topics, y.tid = t → y.paused = false) := by
  constructor
  · intro y hy hyt
    simp only [Nsq.Model.ChanNsqd.step, hf] at hy
    obtain ⟨z, _, rfl⟩ := mem_updT.1 hy
    by_cases hk : z.tid = t
    · simp [hk]
    · simp only [hk, ↓reduceIte] at hyt
  · intro y hy hyt
    simp only [Nsq.Model.ChanNsqd.step, hf] at hy
    obtain ⟨z, _, rfl⟩ := mem_updT.1 hy
    by_cases hk : z.tid = t
    · simp [hk]
    · simp only [hk, ↓reduceIte] at hyt

/-- channel pause at the daemon level: every channel-level statement above holds for every channel
of every reachable daemon state (`C01.every_channel_inv`); in particular a paused channel's
delivery step is refused: -/
theorem chan_pause_blocks (conf : Conf) (c : Chan) (hp : c.paused = true) (k id : Nat) (now : Int) :
    (Nsq.Model.Chan.step conf c (.deliver k id now)).1 = c ∧ ∀ a, (Nsq.Model.Chan.step conf c (.deliver k id now)).2 ≠ .msg a := by
  simp only [Nsq.Model.Chan.step]
  split
  · exact ⟨rfl, fun _ h => by cases h⟩
  · simp [ready, hp]

/-! non-vacuity -/
example : (Nsq.Model.ChanNsqd.step (Nsq.Model.ChanNsqd.run {} [.createChan 1 1 false, .pauseTopic 1, .pub 1 10])
    (.pumpTopic 1 1 false [])).2 = .reject "pump-disabled" := by decide
example : (Nsq.Model.ChanNsqd.step (Nsq.Model.ChanNsqd.run {} [.createChan 1 1 false, .pauseTopic 1, .pub 1 10, .unpauseTopic 1])
    (.pumpTopic 1 1 false [])).2 = .ids [1] := by decide

end Nsqd

end Nsq.Props.C03
