import Nsq.Props.C07
import Nsq.Props.E9DiskQueue
import Nsq.Proofs.DQGlue
/-!
# C07 on top of engine E9 — the disk-queue leg of the message path WITHOUT the I/O assumption

`C07.dq_roundtrip` proves the record codec only ("the file I/O of go-diskqueue itself is an
assumption").  Here the disk queue is the E9 model `Model.DiskQueue` (files, metadata file,
positions, bufio read buffer, roll, sync, `Close`, `New`; tied to go-diskqueue v1.1.0 by
`Tie.DiskQueue` + harness/e9) and the theorems go from `Message.WriteTo` through `Put`, the files,
any number of `Close`/`New` cycles, `ReadChan()` to `decodeMessage`.  The only facts used about the
disk queue are `E9DiskQueue.diskqueue_law` (proved) and `E9DiskQueue.reachable_Q` (proved).

Parameters (no assumptions): `cfg` is what nsqd passes to `diskqueue.New` (`nsqdCfg`:
`minMsgSize = 26 = minValidMsgLength`, `maxMsgSize = --max-msg-size + 26`), `0 < syncEvery` and
`maxMsgSize < 2^31` (`CfgOk`, as in E9).  Helper lemmas: `Nsq.Proofs.DQGlue`.
-/
namespace Nsq.Props.C07DQ
open Nsq.Model Nsq.Model.Wire Nsq.Model.DiskQueue Nsq.Proofs.DiskQueue Nsq.Props.E9DiskQueue
open Nsq.Model.RestartDQ Nsq.Proofs.DQGlue

/-- `decodeMessage` on every record, all or nothing -/
def decodeAll (l : List Bytes) : Option (List Wire.Msg) := decAll decode l

/-- `n` receives -/
def recvN : Nat → St → St
  | 0, s => s
  | n + 1, s => recvN n (recv s).2

/-- 1. with the configuration nsqd passes, the encoding of every message with a 16-byte id and a
body within `--max-msg-size` is a record of valid size … -/
theorem msg_record_valid (maxBody maxBytesPerFile syncEvery : Nat) (m : Wire.Msg)
    (hid : m.id.length = 16) (hb : m.body.length ≤ maxBody) :
    ValidRec (nsqdCfg maxBody maxBytesPerFile syncEvery) (encode m) :=
  encode_valid maxBody m hid hb

/-- … so `Put` accepts it, whatever the queue holds, and appends exactly these bytes -/
theorem put_accepts_msg (maxBody : Nat) (s : St) (q : List Bytes) (h : Q s q)
    (hmin : s.cfg.minMsgSize = 26) (hmax : s.cfg.maxMsgSize = maxBody + 26) (m : Wire.Msg)
    (hid : m.id.length = 16) (hb : m.body.length ≤ maxBody) :
    (put s (encode m)).1 = .ok ∧ Q (put s (encode m)).2 (q ++ [encode m]) :=
  put_ok_Q h (encode m) (by unfold ValidRec; rw [hmin, hmax]; exact encode_valid maxBody m hid hb)

/-- 2. END TO END, no I/O assumption.  `s` is any live disk queue that holds the encodings of the
messages `q` (by `reachable_Q`: after ANY history).  The messages `ms` are written (`Put` of
`Message.WriteTo`), the queue is closed and re-opened, everything is received and decoded: exactly
`q ++ ms` comes back — every timestamp, attempts count, id and body identical, in order, nothing
lost, nothing invented. -/
theorem dq_roundtrip_e9 (cfg : Cfg) (hok : CfgOk cfg) (maxBody : Nat)
    (hmin : cfg.minMsgSize = 26) (hmax : cfg.maxMsgSize = maxBody + 26)
    (s : St) (q ms : List Wire.Msg)
    (hs : (diskqueue_law cfg hok).rep s (q.map encode))
    (hq : ∀ m ∈ q, m.id.length = 16)
    (hms : ∀ m ∈ ms, m.id.length = 16 ∧ m.body.length ≤ maxBody)
    (n : Nat) (hn : q.length + ms.length ≤ n) :
    decodeAll (DQLaw.drain (diskqueue_law cfg hok) n
      ((diskqueue_law cfg hok).reopen ((ms.map encode).foldl (diskqueue_law cfg hok).put s))) = some (q ++ ms) := by
  have hv : ∀ d ∈ ms.map encode, (diskqueue_law cfg hok).valid d := by
    intro d hd
    obtain ⟨m, hm, rfl⟩ := List.mem_map.mp hd
    show cfg.minMsgSize ≤ _ ∧ _ ≤ cfg.maxMsgSize
    rw [hmin, hmax]
    exact encode_valid maxBody m (hms m hm).1 (hms m hm).2
  have h1 := DQLaw.flush_then_restart (diskqueue_law cfg hok) s (q.map encode) (ms.map encode) hs hv
  rw [DQLaw.drain_all (diskqueue_law cfg hok) _ _ h1 n (by simp only [List.length_append, List.length_map]; exact hn),
    ← List.map_append]
  -- decoding: only the 16-byte ids matter
  have hall : ∀ m ∈ q ++ ms, m.id.length = 16 := by
    intro m hm
    rcases List.mem_append.mp hm with h | h
    · exact hq m h
    · exact (hms m h).1
  exact decAll_map decode encode (q ++ ms) (fun m hm => C07.decode_encode m (hall m hm))

/-- the same, one message and receive by receive: `Put` of `encode m` succeeds; after the `|q|`
earlier records have been received, the next receive hands out bytes that decode to `m` -/
theorem dq_roundtrip_e9_recv (maxBody : Nat) (s : St) (q : List Bytes) (h : Q s q)
    (hmin : s.cfg.minMsgSize = 26) (hmax : s.cfg.maxMsgSize = maxBody + 26) (m : Wire.Msg)
    (hid : m.id.length = 16) (hb : m.body.length ≤ maxBody) :
    (put s (encode m)).1 = .ok ∧
    ∃ b, (recv (recvN q.length (put s (encode m)).2)).1 = some b ∧ decode b = some m ∧
      Q (recv (recvN q.length (put s (encode m)).2)).2 [] := by
  obtain ⟨h1, h2⟩ := put_accepts_msg maxBody s q h hmin hmax m hid hb
  refine ⟨h1, encode m, ?_⟩
  have gen : ∀ (q : List Bytes) (t : St), Q t (q ++ [encode m]) →
      (recv (recvN q.length t)).1 = some (encode m) ∧ Q (recv (recvN q.length t)).2 [] := by
    intro q
    induction q with
    | nil => intro t ht; exact recv_is_fifo t (encode m) [] ht
    | cons d q ih => intro t ht; exact ih (recv t).2 (recv_is_fifo t d (q ++ [encode m]) ht).2
  exact ⟨(gen q _ h2).1, C07.decode_encode m hid, (gen q _ h2).2⟩

/-- … and across ANY history in between — publishes, consumer receives, `Empty`, any number of
`Close`/`New` cycles (`HOp`), starting from any queue that holds `q`: what a drain hands out
decodes to exactly what a plain list of messages would hold (`specH`) -/
theorem dq_roundtrip_e9_history (cfg : Cfg) (hok : CfgOk cfg) (maxBody : Nat)
    (hmin : cfg.minMsgSize = 26) (hmax : cfg.maxMsgSize = maxBody + 26)
    (s : St) (q : List Wire.Msg)
    (hs : (diskqueue_law cfg hok).rep s (q.map encode))
    (hq : ∀ m ∈ q, m.id.length = 16 ∧ m.body.length ≤ maxBody)
    (h : List (HOp Wire.Msg)) (hv : ∀ m, HOp.pub m ∈ h → m.id.length = 16 ∧ m.body.length ≤ maxBody)
    (n : Nat) (hn : (h.foldl specH q).length ≤ n) :
    decodeAll (DQLaw.drain (diskqueue_law cfg hok) n
      ((h.map (HOp.toOp (wireCodec maxBody))).foldl (stepOp cfg) s)) = some (h.foldl specH q) := by
  have hr := run_rep cfg hok (h.map (HOp.toOp (wireCodec maxBody))) s (q.map encode) hs
  have e : (h.map (HOp.toOp (wireCodec maxBody))).foldl (specOp cfg) (q.map encode) = (h.foldl specH q).map encode := by
    cases cfg with
    | mk a b c d =>
      simp only [] at hmin hmax
      subst hmin
      subst hmax
      exact spec_map { maxBytesPerFile := a, minMsgSize := 26, maxMsgSize := maxBody + 26, syncEvery := d } (wireCodec maxBody) h hv q
  rw [e] at hr
  rw [DQLaw.drain_all (diskqueue_law cfg hok) _ _ hr n (by rw [List.length_map]; exact hn)]
  apply decAll_dec_enc (wireCodec maxBody)
  intro m hm
  rcases specH_mem h q m hm with h1 | h1
  · exact hq m h1
  · exact hv m h1

/-- 3. from a FRESH data path (`reachable_Q`): any history of publishes (messages of valid size),
consumer receives, `Empty`s and `Close`/`New` cycles leaves a disk queue whose drain decodes to
exactly the messages a plain FIFO would hold; in particular (no receive, no `Empty`) every
published message, in order. -/
theorem history_roundtrip (cfg : Cfg) (hok : CfgOk cfg) (maxBody : Nat)
    (hmin : cfg.minMsgSize = 26) (hmax : cfg.maxMsgSize = maxBody + 26)
    (h : List (HOp Wire.Msg)) (hv : ∀ m, HOp.pub m ∈ h → m.id.length = 16 ∧ m.body.length ≤ maxBody)
    (n : Nat) (hn : (h.foldl specH []).length ≤ n) :
    decodeAll (DQLaw.drain (diskqueue_law cfg hok) n
      ((h.map (HOp.toOp (wireCodec maxBody))).foldl (stepOp cfg) (openQ cfg FS.empty))) = some (h.foldl specH []) := by
  obtain ⟨r1, r2⟩ := reachable_Q cfg hok (h.map (HOp.toOp (wireCodec maxBody)))
  have e : (h.map (HOp.toOp (wireCodec maxBody))).foldl (specOp cfg) [] = (h.foldl specH []).map encode := by
    cases cfg with
    | mk a b c d =>
      simp only [] at hmin hmax
      subst hmin
      subst hmax
      exact spec_map { maxBytesPerFile := a, minMsgSize := 26, maxMsgSize := maxBody + 26, syncEvery := d } (wireCodec maxBody) h hv []
  rw [e] at r1
  have hr : (diskqueue_law cfg hok).rep ((h.map (HOp.toOp (wireCodec maxBody))).foldl (stepOp cfg) (openQ cfg FS.empty))
      ((h.foldl specH []).map encode) := ⟨r1, by rw [r2], by rw [r2]⟩
  rw [DQLaw.drain_all (diskqueue_law cfg hok) _ _ hr n (by rw [List.length_map]; exact hn)]
  apply decAll_dec_enc (wireCodec maxBody)
  intro m hm
  rcases specH_mem h [] m hm with h1 | h1
  · cases h1
  · exact hv m h1

/-- publishes and re-opens only: everything published comes back, in publish order -/
theorem published_all_come_back (cfg : Cfg) (hok : CfgOk cfg) (maxBody : Nat)
    (hmin : cfg.minMsgSize = 26) (hmax : cfg.maxMsgSize = maxBody + 26)
    (h : List (Option Wire.Msg))   -- `some m` = publish m, `none` = `Close` + `New`
    (hv : ∀ m, some m ∈ h → m.id.length = 16 ∧ m.body.length ≤ maxBody)
    (n : Nat) (hn : h.length ≤ n) :
    decodeAll (DQLaw.drain (diskqueue_law cfg hok) n
      ((h.map (fun o => match o with | some m => Op.put (encode m) | none => Op.reopen)).foldl (stepOp cfg)
        (openQ cfg FS.empty))) = some (h.filterMap id) := by
  let f : Option Wire.Msg → HOp Wire.Msg := fun o => match o with | some m => .pub m | none => .reopen
  have e1 : h.map (fun o => match o with | some m => Op.put (encode m) | none => Op.reopen) =
      (h.map f).map (HOp.toOp (wireCodec maxBody)) := by
    rw [List.map_map]
    apply List.map_congr_left
    intro o _
    cases o <;> rfl
  have e2 : ∀ (l : List (Option Wire.Msg)) (q : List Wire.Msg), (l.map f).foldl specH q = q ++ l.filterMap id := by
    intro l
    induction l with
    | nil => intro q; simp
    | cons o l ih =>
      intro q
      cases o with
      | none =>
        show (l.map f).foldl specH q = _
        rw [ih]; rfl
      | some m =>
        show (l.map f).foldl specH (q ++ [m]) = _
        rw [ih]
        simp
  have e3 := e2 h []
  rw [List.nil_append] at e3
  have hlen : (h.filterMap id).length ≤ n := Nat.le_trans (List.length_filterMap_le _ _) hn
  rw [e1, ← e3]
  apply history_roundtrip cfg hok maxBody hmin hmax (h.map f)
  · intro m hm
    obtain ⟨o, ho, e⟩ := List.mem_map.mp hm
    cases o with
    | none => cases e
    | some x =>
      have : x = m := by injection e
      subst this
      exact hv x ho
  · rw [e3]; exact hlen

/-! ### non-vacuity -/

/-- a small configuration of nsqd's shape: `--max-msg-size 4`, files of at most 40 bytes -/
def cfgN : Cfg := nsqdCfg 4 40 2
theorem cfgN_ok : CfgOk cfgN := ⟨by decide, by decide⟩

def id16 (x : UInt8) : Bytes := List.replicate 16 x
def m1 : Wire.Msg := { ts := 0x0102030405060708#64, attempts := 3#16, id := id16 0x61, body := [1, 2, 3] }
def m2 : Wire.Msg := { ts := 0xFFFFFFFFFFFFFFFF#64, attempts := 65535#16, id := id16 0x62, body := [] }
def m3 : Wire.Msg := { ts := 7#64, attempts := 0#16, id := id16 0x63, body := [9, 9, 9, 9] }

-- the codec parameter of `Proofs.DQGlue` / `C05DQ` is met by the real wire format
example : Codec Wire.Msg cfgN.minMsgSize cfgN.maxMsgSize := wireCodec 4
example : (wireCodec 4).ok m1 ∧ (wireCodec 4).ok m2 ∧ (wireCodec 4).ok m3 :=
  ⟨⟨rfl, by decide⟩, ⟨rfl, by decide⟩, ⟨rfl, by decide⟩⟩
example : ValidRec cfgN (encode m1) ∧ ValidRec cfgN (encode m2) ∧ ValidRec cfgN (encode m3) :=
  ⟨msg_record_valid 4 40 2 m1 rfl (by decide), msg_record_valid 4 40 2 m2 rfl (by decide),
   msg_record_valid 4 40 2 m3 rfl (by decide)⟩
-- … and a body over `--max-msg-size` is not a valid record (the hypothesis is needed)
example : ¬ ValidRec cfgN (encode { m1 with body := [1, 2, 3, 4, 5] }) := by decide
-- the hypotheses of `dq_roundtrip_e9`: a live queue that holds [m1] (33 of 40 bytes used: m2 rolls to file 1)
example : (diskqueue_law cfgN cfgN_ok).rep (put (openQ cfgN FS.empty) (encode m1)).2 ([m1].map encode) :=
  (diskqueue_law cfgN cfgN_ok).put_law _ [] _ (fresh_empty cfgN cfgN_ok) (msg_record_valid 4 40 2 m1 rfl (by decide))
-- the conclusion computed on the E9 model itself: three messages, two files, a restart with another file size
example : (put (put (put (openQ cfgN FS.empty) (encode m1)).2 (encode m2)).2 (encode m3)).2.wf = 2 := by decide
example : decodeAll (DQLaw.drain (diskqueue_law cfgN cfgN_ok) 5
    (openQ { cfgN with maxBytesPerFile := 1000 }
      (close (put (put (put (openQ cfgN FS.empty) (encode m1)).2 (encode m2)).2 (encode m3)).2).fs)) = some [m1, m2, m3] := by decide
-- `dq_roundtrip_e9_recv` on the model: put m2 behind m1, receive once, the next receive is m2
example : ((recv (recvN 1 (put (put (openQ cfgN FS.empty) (encode m1)).2 (encode m2)).2)).1).bind decode = some m2 := by decide
-- a history with a receive, a restart and an Empty in the middle
example : [HOp.pub m1, .pub m2, .recv, .reopen, .pub m3].foldl specH [] = [m2, m3] ∧
    [HOp.pub m1, .empty, .pub m3].foldl specH [] = [m3] := by decide
example : decodeAll (DQLaw.drain (diskqueue_law cfgN cfgN_ok) 5
    (([HOp.pub m1, .pub m2, .recv, .reopen, .pub m3].map (HOp.toOp (wireCodec 4))).foldl (stepOp cfgN) (openQ cfgN FS.empty))) =
    some [m2, m3] :=
  history_roundtrip cfgN cfgN_ok 4 rfl rfl _ (by
    intro m hm
    simp only [List.mem_cons, HOp.pub.injEq, List.mem_nil_iff, or_false, reduceCtorEq, false_or] at hm
    rcases hm with rfl | rfl | rfl <;> decide) 5 (by decide)
-- decoding is not trivially successful: a torn record does not decode
example : decodeAll [encode m1, (encode m2).take 20] = none := by decide

end Nsq.Props.C07DQ
