/-
C02.7 — the in-flight map / heap windows, over ALL schedules of micro-steps
(`Nsq.Model.ChanMicro`: answer = mapPop | heapRemove(+completion) [| mapPush | heapPush for TOUCH],
delivery = mapPush | heapPush, scan = {heapPop + mapPop in one critical section, fix F16} | put; any
steps of other operations may run in
between).

The map step (`popInFlightMessage`) is the single decision point: whoever removes the id from the
map — FIN, REQ, TOUCH or the timeout scan — has the object; every other contender fails; a failing answer
changes nothing, a failing scan only drops the stale heap entry it met. The C02 history theorems hold along every micro-step schedule, not only in the atomic
model.

Real-code witnesses of these windows (steered with the in-tree hooks, replayed by `./check C02`):
`corpus/C02/late_answer.ops` (an answer in the delivery window / after a timeout hand-over) and
`corpus/C02/fin_vs_scan.ops` (FIN parked between its map pop and its heap removal while the scan
runs: the scan finds the heap entry, not the map entry, and skips it).
-/
import Nsq.Proofs.ChanMicro
namespace Nsq.Props.C02Micro
open Nsq.Model.Chan (Ev St status okHist nDeliver wireAttempts)
open Nsq.Model.ChanMicro
open Nsq.Proofs.ChanMicro
open Nsq.Proofs.Chan (releases concerns lastDeliver)

/-- reachable by some schedule of micro-steps from the empty channel -/
def Reachable (s : MS) : Prop := ∃ ops : List Op, s = run {} ops

theorem reachable_minv {s : MS} (h : Reachable s) : MInv s := by
  obtain ⟨ops, rfl⟩ := h
  exact run_minv minv_init ops

/-- the invariant is inductive over micro-steps -/
theorem minv_step {s : MS} (h : MInv s) (op : Op) : MInv (step s op).1 := step_minv h op

/-! ### the map pop is the decision point -/

/-- a contender that finds the id gone from the map fails and changes nothing: an answer gets
`E_FIN_FAILED` / `E_REQ_FAILED` / `E_TOUCH_FAILED` and the state is the same … -/
theorem loser_answer_noop (s : MS) {id : Nat} (hm : id ∉ s.map) (k : Nat) (a : Ans) :
    step s (.ansMapPop k id a) = (s, .fail) := ansMapPop_out s hm k a

/-- … an answer of a connection that is not the owner likewise … -/
theorem foreign_answer_noop (s : MS) {k id : Nat} (ho : getA s.owner id ≠ k) (a : Ans) :
    step s (.ansMapPop k id a) = (s, .fail) := ansMapPop_foreign s ho a

/-- … and the scan that meets a heap entry whose id is no longer in the map (a FIN / REQ / TOUCH got
there first; checked in the same critical section as the heap pop, fix F16) only drops that stale
heap entry: no event, no change of queue, deferred set, map, or any message object. -/
theorem loser_scan_noop (s : MS) {id : Nat} (hm : id ∉ s.map) :
    (step s (.scanPop id)).2 ≠ .ok ∧
    (step s (.scanPop id)).1 = { s with heap := s.heap.erase id } := scanPop_out s hm

/-- a successful map pop takes the id out of the map (it is there at most once) -/
theorem winner_takes_it {s : MS} (h : Reachable s) {id : Nat} {op : Op} (hp : isPopOf id op = true)
    (hok : (step s op).2 = .ok) : id ∉ (step s op).1.map := pop_takes_it (reachable_minv h) hp hok

/-- C02.7 — for every interleaving of FIN / REQ / TOUCH (of any connections) and timeout scans on
one id, together with any other micro-steps, as long as the id is not pushed into the map again:
at most one of the map pops succeeds (this theorem states only that count). What the others do is the three
lemmas above: a losing / foreign answer fails with the state equal (`loser_answer_noop`, `foreign_answer_noop`);
a losing scan is refused and changes the state only by erasing the stale heap entry (`loser_scan_noop`). -/
theorem map_pop_is_the_winner {s : MS} (h : Reachable s) (id : Nat) (ops : List Op)
    (hnp : ∀ op ∈ ops, isPushOf id op = false) : wins id s ops ≤ 1 :=
  wins_le_one (reachable_minv h) id ops hnp

/-- … and the first contender that reaches the map while the id is there does win: the owner's
answer is accepted, the scan's pop succeeds. -/
theorem first_contender_wins {s : MS} {id : Nat} (hm : id ∈ s.map) :
    (∀ a, (step s (.ansMapPop (getA s.owner id) id a)).2 = .ok) ∧
    (id ∈ s.heap → (step s (.scanPop id)).2 = .ok) := by
  constructor
  · intro a; simp [step, hm]
  · intro hp; simp [step, hm, hp]

/-- the two "unreachable" error returns of `pushInFlightMessage` ("ID already in flight") are
indeed never taken: a delivery or the re-insertion of a TOUCH never finds the id in the map -/
theorem never_already_in_flight {s : MS} (h : Reachable s) {k id : Nat} :
    (id ∈ s.queue → id ∉ s.map) ∧ (Pend.touchMap k id ∈ s.pend → id ∉ s.map) :=
  ⟨fun hq => (minv_delMapPush (reachable_minv h) (k := k) hq).1,
   fun hp => (minv_touchMapPush (reachable_minv h) hp).1⟩

/-! ### the C02 theorems over all micro-step schedules -/

/-- C02.1 / C02.2 — an id in the in-flight map is there once, is nowhere else (not queued, not
deferred, not in the hands of an answering goroutine), and the owner stamped on its object is the
connection of its latest `deliver` event. -/
theorem holder_unique {s : MS} (h : Reachable s) {id : Nat} (hm : id ∈ s.map) :
    lastDeliver s.hist id = some (getA s.owner id) ∧
    id ∉ s.map.erase id ∧ id ∉ s.queue ∧ id ∉ s.deferred ∧ ∀ p ∈ s.pend, holdsW id p = 0 := by
  have hi := reachable_minv h
  have h1 := hi.one id
  have hm1 := mem_isId hm
  refine ⟨Nsq.Proofs.Chan.held_is_last_deliver (hi.stm id hm), not_mem_erase_self h1 (m_le_cnt s id) hm, ?_, ?_, ?_⟩
  · intro hx; have := mem_isId hx; simp only [cnt] at h1; omega
  · intro hx; have := mem_isId hx; simp only [cnt] at h1; omega
  · exact fun p hp => pend_free h1 (by omega) hp

/-- C02.1 — every id is in at most one place: queue, deferred set, map, or held by the goroutine of
an accepted answer between its map pop and its completion. -/
theorem single_location {s : MS} (h : Reachable s) (id : Nat) : cnt s id ≤ 1 :=
  (reachable_minv h).one id

/-- C02.3 — between two deliveries of an id there is an accepted REQ or a timeout of that id -/
theorem redelivery_justified {s : MS} (h : Reachable s) {h3 h2 h1 : List Ev} {k1 k2 id a1 a2 : Nat}
    (hs : s.hist = h3 ++ Ev.deliver k2 id a2 :: (h2 ++ Ev.deliver k1 id a1 :: h1)) :
    ∃ ev ∈ h2, releases ev id = true :=
  Nsq.Proofs.Chan.hist_redelivery_justified (reachable_minv h).okh hs

/-- … by the connection holding it then -/
theorem answer_by_holder {s : MS} (h : Reachable s) {h2 h1 : List Ev} {ev : Ev} {k id : Nat}
    (hs : s.hist = h2 ++ ev :: h1)
    (hev : ev = .finOk k id ∨ (∃ d, ev = .reqOk k id d) ∨ ev = .touchOk k id ∨ ev = .timeout id k) :
    lastDeliver h1 id = some k :=
  Nsq.Proofs.Chan.hist_answer_by_holder (reachable_minv h).okh hs hev

/-- C02.4 — the n-th delivery of an id carries attempts n, and that is the value of the
`Attempts` field of its (single) message object -/
theorem attempts_consecutive {s : MS} (h : Reachable s) {h2 h1 : List Ev} {k id a : Nat}
    (hs : s.hist = h2 ++ Ev.deliver k id a :: h1) :
    a = nDeliver h1 id + 1 ∧ (a < 65536 → wireAttempts a = nDeliver h1 id + 1) :=
  Nsq.Proofs.Chan.hist_attempts_consecutive (reachable_minv h).okh hs

theorem attempts_field {s : MS} (h : Reachable s) (id : Nat) : getA s.atts id = nDeliver s.hist id :=
  (reachable_minv h).att id

/-- C02.5 — once a FIN is accepted (its map pop succeeded), no event mentions the id again -/
theorem fin_final {s : MS} (h : Reachable s) {h2 h1 : List Ev} {k id : Nat}
    (hs : s.hist = h2 ++ Ev.finOk k id :: h1) :
    ∀ ev ∈ h2, concerns ev id = false ∧ ∀ k' a, ev ≠ .deliver k' id a :=
  Nsq.Proofs.Chan.hist_fin_final (reachable_minv h).okh hs

/-- the windows never orphan an in-flight message: an id in the map is in the heap, or a pending
heap push (delivery / TOUCH) will put it there — so the timeout scan can always reach it -/
theorem no_orphan {s : MS} (h : Reachable s) {id : Nat} (hm : id ∈ s.map) :
    id ∈ s.heap ∨ Pend.push id ∈ s.pend :=
  (reachable_minv h).orph id hm

/-- fix F16 — the scan decides in ONE step: a `timeout` event is recorded only by a step that finds
the id in the heap and in the map at the same moment; there is no state "popped from the heap, map
not yet consulted" in which a REQ and a redelivery could slip in (the schedule that made the scan
time out a fresh delivery needs exactly that state). -/
theorem scan_decides_at_once (s : MS) (id : Nat) :
    (step s (.scanPop id)).2 = .ok ↔ (id ∈ s.heap ∧ id ∈ s.map) := by
  simp only [step]
  by_cases hh : id ∈ s.heap <;> by_cases hm : id ∈ s.map <;> simp [hh, hm]

/-! ### non-vacuity: the windows are reachable, and the invariant is not `True` -/

/-- late answer in the delivery window: 7 is redelivered to connection 1 after a timeout; between
the map push and the heap push of that delivery the FIN of connection 1 arrives and is accepted;
its heap removal finds nothing; the delivery's heap push then leaves a stale heap entry; the scan
meets it, finds the map entry gone and skips it (`corpus/C02/late_answer.ops`). -/
def exLate : List Op :=
  [.put 7, .delMapPush 1 7, .heapPush 7, .scanPop 7, .scanPut 7,
   .delMapPush 1 7, .ansMapPop 1 7 .fin, .ansFinish 1 7 .fin, .heapPush 7,
   .scanPop 7]
example : (run {} exLate).hist = [.finOk 1 7, .deliver 1 7 2, .timeout 7 1, .deliver 1 7 1, .fanout 7 false] := by decide
example : (run {} (exLate.take 9)).heap = [7] ∧ (run {} (exLate.take 9)).map = [] := by decide
example : (step (run {} (exLate.take 9)) (.scanPop 7)).2 = .fail := by decide
example : run {} exLate = { atts := (run {} exLate).atts, owner := (run {} exLate).owner, hist := (run {} exLate).hist } := by decide

/-- FIN against the scan (`corpus/C02/fin_vs_scan.ops`): the FIN of the holder took 7 out of the map
and is parked before its heap removal; the scan runs, meets the heap entry, finds the map entry
gone and skips; nothing is requeued -/
def exFinScan : List Op :=
  [.put 7, .delMapPush 1 7, .heapPush 7, .ansMapPop 1 7 .fin, .scanPop 7, .ansFinish 1 7 .fin]
example : wins 7 (run {} (exFinScan.take 3)) (exFinScan.drop 3) = 1 := by decide
example : (run {} exFinScan).hist = [.finOk 1 7, .deliver 1 7 1, .fanout 7 false] ∧ (run {} exFinScan).queue = [] := by decide
/-- … and the other order: the scan wins, the FIN fails and changes nothing (also while the scan is
still between its pop and its `put`) -/
def exScanFin : List Op :=
  [.put 7, .delMapPush 1 7, .heapPush 7, .scanPop 7, .ansMapPop 1 7 .fin, .scanPut 7]
example : wins 7 (run {} (exScanFin.take 3)) (exScanFin.drop 3) = 1 := by decide
example : step (run {} (exScanFin.take 4)) (.ansMapPop 1 7 .fin) = (run {} (exScanFin.take 4), .fail) := by decide
example : (run {} exScanFin).queue = [7] := by decide
/-- the schedule of the former scan-window race (scan heap pop | REQ + redelivery to connection 2 |
scan map pop → the fresh delivery timed out at once) no longer exists: after the REQ the scan's one
step takes nothing (here the REQ's heap removal already took the entry; were it still there, the
step would find the id in the map only if it is in flight again — with its own new deadline). -/
example : (step (run {} [.put 7, .delMapPush 1 7, .heapPush 7, .ansMapPop 1 7 (.req 0), .ansFinish 1 7 (.req 0),
    .delMapPush 2 7]) (.scanPop 7)).2 = .reject := by decide
/-- the invariant rejects a state with one id in two places, and one with an orphan -/
example : ¬ MInv { queue := [1], map := [1] } := by
  intro h; have := h.one 1; simp [cnt, wsum, isId] at this
example : ¬ MInv { map := [1], hist := [.deliver 0 1 1, .fanout 1 false], atts := [(1, 1)] } := by
  intro h; have := h.orph 1 (by simp); simp at this

end Nsq.Props.C02Micro
