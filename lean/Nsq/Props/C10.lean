import Nsq.Proofs.HttpApi
import Nsq.Proofs.HttpApiEquiv
import Nsq.Proofs.HttpApiText
/-!
# C10 — nsqd HTTP API: validation, status codes and equivalence with TCP publish

Property theorems only (helper lemmas: `Nsq.Proofs.HttpApi*`). The model `Nsq.Model.HttpApi.handle`
(request as the handler sees it → response status/message and new broker) is tied to `/repo` by
`Nsq.Tie.ProtoHttp` (route table = the `router.Handle` registrations; ordered text of every
status-deciding statement) and by the correspondence harness (`harness/e3/http_test.go`, real
`httpServer.ServeHTTP`). The TCP side of the equivalences is the C09 model `Nsq.Model.ProtoV2`.

Statements quantify over all requests (method, path, raw query, declared/undeclared length, body),
all option values and all broker states. `net/http` and `httprouter` are trusted (DESIGN §4).
-/
namespace Nsq.Props.C10
open Nsq.Model.HttpApi Nsq.Model.ProtoV2 Nsq.Model.Names Nsq.Model.Base10 Nsq.Model Nsq.Spec.ProtoSpec
open Nsq.Proofs.HttpApi Nsq.Proofs.HttpApiEquiv Nsq.Proofs.ProtoV2

/-! ## 1. Status codes -/

/-- Every error status has its documented cause: 413 ⇒ something oversize (or a malformed binary
batch / config value, which reuse 413), 400 ⇒ a bad or missing argument, 404 (handler) ⇒ unknown
topic/channel, 405 ⇒ path registered for another method, 403 ⇒ TLS required, 500 ⇒ the injected
health fault on /ping. -/
theorem status_documented (hc : HConf) (healthy : Bool) (b : Broker) (rq : Request) :
    Documented hc healthy b rq (handle hc healthy b rq).1 :=
  handle_doc hc healthy b rq

/-- No complete request is answered 500: the only 500 of the model is `/ping` while the daemon
reports itself unhealthy (backend write error — the I/O-fault hypothesis). -/
theorem no_500 (hc : HConf) (b : Broker) (rq : Request) : (handle hc true b rq).1.status ≠ .s500 := by
  intro h
  have := (handle_doc hc true b rq).s500 h
  simp at this

/-- `handle` is total, and the two places where the Go code could panic cannot: `readMPUB` never
reaches `make` with a negative size (so the recovered-panic 500 of binary /mpub is dead), and
`Code[2:]` is applied to codes of at least two characters. -/
theorem handle_total_no_panic :
    (∀ maxMsg maxBody bs, Mpub.readMPUB maxMsg maxBody bs ≠ .panic) ∧ (∀ c : Code, 2 ≤ c.toString.length) :=
  ⟨readMPUB_ne_panic, fun c => by cases c <;> decide⟩

/-- A path that is not registered never reaches a handler; a registered path with the wrong
method is 405 (OPTIONS: the router's automatic 200). -/
theorem unknown_path_not_found (hc : HConf) (healthy : Bool) (b : Broker) (rq : Request)
    (htls : hc.tlsRefuse = false) (h : route rq.method rq.path = .notFound) :
    handle hc healthy b rq = (⟨.notFoundOrRedirect, "NOT_FOUND"⟩, b) := by
  simp [handle, htls, h, resp]

example : (handle Examples.hconf true [] ⟨ascii "POST", ascii "/pub", ascii "topic=t", 3, [1, 2, 3]⟩).1.status = .s200 := by
  decide
example : (handle Examples.hconf true [] ⟨ascii "POST", ascii "/pub", ascii "topic=bad!", 3, [1, 2, 3]⟩).1 =
    ⟨.s400, "INVALID_TOPIC"⟩ := by decide
example : (handle Examples.hconf true [] ⟨ascii "GET", ascii "/pub", ascii "topic=t", 0, []⟩).1.status = .s405 := by
  decide
example : (handle Examples.hconf true [] ⟨ascii "POST", ascii "/pub", ascii "topic=t", 9, [1, 2, 3, 4, 5, 6, 7, 8, 9]⟩).1.status
    = .s413 := by decide
example : (handle Examples.hconf false [] ⟨ascii "GET", ascii "/ping", [], 0, []⟩).1.status = .s500 := by decide
example : (handle Examples.hconf true [] ⟨ascii "POST", ascii "/topic/empty", ascii "topic=t", 0, []⟩).1 =
    ⟨.s404, "TOPIC_NOT_FOUND"⟩ := by decide

/-! ## 2. HTTP publish ≡ TCP publish -/

/-- `/pub?topic=t` enqueues exactly what `PUB t` enqueues and rejects exactly when it rejects — for
every topic name, every body (complete request: declared length or chunked) and every broker. A
rejection on either side leaves all queues untouched. -/
theorem pub_equiv_tcp (conf : Conf) (hc : HConf) (hl : Linked conf hc) (s : ConnState) (b : Broker) (rq : Request)
    (kv : List (Bytes × Bytes)) (cmd t : Bytes) (tl : List Bytes) (rest : Bytes)
    (hq : parseQuery rq.rawQuery = some kv) (ht : qget kv kTopic = some t) (hnd : qget kv kDefer = none)
    (hcomp : Complete rq) (hlen : rq.body.length < 2147483648) :
    ((doPUB hc b rq).1.status = .s200 ↔ (pub conf s b (cmd :: t :: tl) (wire rq.body rest)).reply = some .ok) ∧
    ((doPUB hc b rq).1.status = .s200 →
      (doPUB hc b rq).2 = (pub conf s b (cmd :: t :: tl) (wire rq.body rest)).broker) ∧
    ((doPUB hc b rq).1.status ≠ .s200 →
      Untouched b (doPUB hc b rq).2 ∧ Untouched b (pub conf s b (cmd :: t :: tl) (wire rq.body rest)).broker) :=
  pub_equiv conf hc hl s b rq kv cmd t tl rest hq ht hnd hcomp hlen

/-- `/pub?topic=t&defer=d` ≡ `DPUB t d` for every canonical decimal `d` (digits only, any length,
including values beyond 64 bits): same acceptance, same delay in nanoseconds, same queue. -/
theorem dpub_equiv_tcp (conf : Conf) (hc : HConf) (hl : Linked conf hc) (s : ConnState) (b : Broker) (rq : Request)
    (kv : List (Bytes × Bytes)) (cmd t d : Bytes) (tl : List Bytes) (rest : Bytes)
    (hq : parseQuery rq.rawQuery = some kv) (ht : qget kv kTopic = some t) (hdq : qget kv kDefer = some d)
    (hd : d ≠ []) (hall : ∀ c ∈ d, IsDigit c) (hcomp : Complete rq) (hlen : rq.body.length < 2147483648) :
    ((doPUB hc b rq).1.status = .s200 ↔ (dpub conf s b (cmd :: t :: d :: tl) (wire rq.body rest)).reply = some .ok) ∧
    ((doPUB hc b rq).1.status = .s200 →
      (doPUB hc b rq).2 = (dpub conf s b (cmd :: t :: d :: tl) (wire rq.body rest)).broker) ∧
    ((doPUB hc b rq).1.status ≠ .s200 →
      Untouched b (doPUB hc b rq).2 ∧ Untouched b (dpub conf s b (cmd :: t :: d :: tl) (wire rq.body rest)).broker) :=
  dpub_equiv conf hc hl s b rq kv cmd t d tl rest hq ht hdq hd hall hcomp hlen

/-- Binary `/mpub` ≡ `MPUB` of the same batch (same parser, same limits): accepted together,
rejected together, identical queues. Hypothesis: the length is declared, or the chunked body is
within max-body-size (beyond it HTTP reads only the first max-body-size bytes, section 4). -/
theorem mpub_binary_equiv_tcp (conf : Conf) (hc : HConf) (hl : Linked conf hc) (s : ConnState) (b : Broker)
    (rq : Request) (kv : List (Bytes × Bytes)) (cmd t : Bytes) (tl : List Bytes)
    (hq : parseQuery rq.rawQuery = some kv) (ht : qget kv kTopic = some t) (hbin : binaryMode kv = true)
    (hcomp : rq.contentLength = rq.body.length ∨ (rq.contentLength = -1 ∧ (rq.body.length : Int) ≤ hc.maxBodySize))
    (hlen : rq.body.length < 2147483648) :
    ((doMPUB hc b rq).1.status = .s200 ↔ (mpub conf s b (cmd :: t :: tl) (mwire rq.body)).reply = some .ok) ∧
    ((doMPUB hc b rq).1.status = .s200 →
      (doMPUB hc b rq).2 = (mpub conf s b (cmd :: t :: tl) (mwire rq.body)).broker) ∧
    ((doMPUB hc b rq).1.status ≠ .s200 →
      Untouched b (doMPUB hc b rq).2 ∧ Untouched b (mpub conf s b (cmd :: t :: tl) (mwire rq.body)).broker) :=
  mpub_binary_equiv conf hc hl s b rq kv cmd t tl hq ht hbin hcomp hlen

/-- Text `/mpub`: for non-empty, newline-free blocks within the limits, posting them joined by
`\n` (with or without a trailing newline) enqueues exactly what `MPUB` of the list enqueues. -/
theorem mpub_text_equiv (conf : Conf) (hc : HConf) (hl : Linked conf hc) (s : ConnState) (b : Broker)
    (rq : Request) (kv : List (Bytes × Bytes)) (cmd t : Bytes) (tl : List Bytes) (blocks : List Bytes)
    (hq : parseQuery rq.rawQuery = some kv) (ht : qget kv kTopic = some t) (htext : binaryMode kv = false)
    (hv : isValidName t = true)
    (hblocks : Nsq.Proofs.HttpApiText.GoodBlocks conf blocks)
    (hbody : rq.body = Nsq.Proofs.HttpApiText.joinNl blocks ∨ rq.body = Nsq.Proofs.HttpApiText.joinNl blocks ++ [10])
    (hsize : (rq.body.length : Int) ≤ hc.maxBodySize) (hcl : ¬ rq.contentLength > hc.maxBodySize)
    (hwire : ((Mpub.encode blocks).length : Int) ≤ conf.maxBodySize) :
    doMPUB hc b rq = (⟨.s200, "OK"⟩, publish b t (toMsgs blocks)) ∧
    (mpub conf s b (cmd :: t :: tl) (mwire (Mpub.encode blocks))).reply = some .ok ∧
    (mpub conf s b (cmd :: t :: tl) (mwire (Mpub.encode blocks))).broker = publish b t (toMsgs blocks) :=
  Nsq.Proofs.HttpApiText.text_equiv conf hc hl s b rq kv cmd t tl blocks hq ht htext hv hblocks hbody hsize hcl hwire

/-! ## 3. Admin endpoints have exactly their stated effect -/

/-- create / delete / empty / pause / unpause of a topic or channel change the named topic only —
every other topic, with all its channels, messages, counters and pause flags, is exactly as
before — and change nothing at all unless they answer 200. -/
theorem admin_exact_effect (hc : HConf) (healthy : Bool) (b : Broker) (rq : Request) (h : Handler)
    (hadmin : h = .createTopic ∨ h = .deleteTopic ∨ h = .emptyTopic ∨ h = .pauseTopic ∨ h = .createChannel ∨
      h = .deleteChannel ∨ h = .emptyChannel ∨ h = .pauseChannel) :
    ((runHandler hc healthy b rq h).1.status ≠ .s200 → (runHandler hc healthy b rq h).2 = b) ∧
    ∀ kv t, parseQuery rq.rawQuery = some kv → qget kv kTopic = some t →
      OnlyTopic t b (runHandler hc healthy b rq h).2 :=
  admin_frame hc healthy b rq h hadmin

/-- … and on the named object they do what they say. -/
theorem admin_named_effect (b : Broker) (t : Bytes) :
    findTopic (deleteTopic b t) t = none ∧
    findTopic (modifyTopic b t (fun x => { x with msgs := [] })) t =
      (findTopic b t).map (fun x => { x with msgs := [] }) ∧
    (∀ p : Bool, findTopic (modifyTopic b t (fun x => settle { x with paused := p })) t =
      (findTopic b t).map (fun x => settle { x with paused := p })) :=
  ⟨findTopic_deleteTopic_eq b t, findTopic_modifyTopic_eq b t _ (fun _ => rfl),
   fun p => findTopic_modifyTopic_eq b t _ (fun x => by simp [settle_name])⟩

/-- The publish endpoints too touch only the topic they name. -/
theorem publish_touches_only_its_topic (b : Broker) (t : Bytes) (ms : List Msg) :
    OnlyTopic t b (publish b t ms) := onlyTopic_publish b t ms

example : (handle Examples.hconf true Examples.broker2
    ⟨ascii "POST", ascii "/topic/pause", ascii "topic=a", 0, []⟩).2 =
    [{ name := ascii "a", paused := true, count := 1, msgs := [⟨[1], 0⟩], chans := [] },
     { name := ascii "b", paused := false, count := 0, msgs := [], chans := [] }] := by decide

/-! ## 4. F10 repaired, HTTP face: max-body-size bounds every accepted /mpub

Before `fixes/F10_mpub_body_limit.patch` a chunked binary `/mpub` handed the unlimited request body
to `readMPUB` (witness: max-body-size 20, a 28-byte batch accepted). The body is now read through
`io.LimitReader(req.Body, max-body-size)`. -/

/-- Binary mode, declared or chunked: what an accepted request enqueues was encoded within the first
max-body-size bytes of the body (the batch is exactly a prefix of them). -/
theorem mpub_body_bounded (hc : HConf) (b : Broker) (rq : Request) (kv : List (Bytes × Bytes))
    (hq : parseQuery rq.rawQuery = some kv) (hbin : binaryMode kv = true)
    (h : (doMPUB hc b rq).1.status = .s200) :
    ∃ t bodies r, Mpub.readMPUB hc.maxMsgSize hc.maxBodySize (rq.body.take hc.maxBodySize.toNat) = .ok bodies r ∧
      rq.body.take hc.maxBodySize.toNat = Mpub.encode bodies ++ r ∧
      ((Mpub.encode bodies).length : Int) ≤ hc.maxBodySize ∧
      (doMPUB hc b rq).2 = publish b t (toMsgs bodies) :=
  mpub_binary_bounded hc b rq kv hq hbin h

/-- Text mode: an accepted body is at most max-body-size bytes long. -/
theorem mpub_text_body_bounded (hc : HConf) (body : Bytes) (r : List Bytes) (h0 : 0 ≤ hc.maxBodySize)
    (h : mpubText hc body = .ok r) : (body.length : Int) ≤ hc.maxBodySize :=
  mpubText_bounded hc body r h0 h

/-- A declared length above max-body-size is refused before anything is read. -/
theorem mpub_declared_bounded (hc : HConf) (b : Broker) (rq : Request)
    (hdecl : rq.contentLength = rq.body.length) (h : (doMPUB hc b rq).1.status = .s200) :
    (rq.body.length : Int) ≤ hc.maxBodySize := by
  unfold doMPUB at h
  split at h
  · simp [resp] at h
  · omega

-- the former witness (chunked, 28-byte batch under max-body-size 20) is now answered 413 BAD_MESSAGE
example : (doMPUB Examples.hconf [] ⟨ascii "POST", ascii "/mpub", ascii "topic=t&binary=true", -1,
    Mpub.encode [[1, 2, 3, 4, 5, 6, 7, 8], [1, 2, 3, 4, 5, 6, 7, 8]]⟩).1 = ⟨.s413, "BAD_MESSAGE"⟩ := by decide
-- a chunked batch within the limit is accepted
example : (doMPUB Examples.hconf [] ⟨ascii "POST", ascii "/mpub", ascii "topic=t&binary=true", -1,
    Mpub.encode [[1, 2, 3], [4]]⟩).1.status = .s200 := by decide

end Nsq.Props.C10
