import Nsq.Props.C15
/-!
# C15 — which entries an accepted admin call changes, EXACTLY (claim audit 11, C15 item 2)

`Nsq.Props.C15.admin_call_touches_only` is exact for `/topic/delete` and `/channel/delete`; for the two create calls it
is an upper bound ("the only keys that CAN appear") and for `/topic/tombstone` a disjunction ("unchanged, or in
`tombTouched` and marked"). Here the remaining three are characterised exactly, for every registry and every accepted
argument:

* `createTopic_exact` / `createChannel_exact`: the key set after the call is the old one plus the named topic key
  (plus the named channel key), no producer entry changes; `create…_changes_iff`: a key's presence CHANGES iff it is one
  of the named keys and was absent;
* `tombstone_exact`: every producer entry after the call is given by ONE formula — marked `⟨true, now⟩` iff
  `tombMarked` (the entry is under the topic key of `t` and its peer carries the node string; for `t = *`: under the
  topic key the run-time pick of `FindProducers("topic","*","")` chose for that peer — the step function of the model
  uses `firstPick`, `Nsq.Props.C14Star` quantifies over all admissible picks), else unchanged; no key appears or
  disappears; `tombstone_changes_iff`: an entry CHANGES iff it is marked, exists and is not already `⟨true, now⟩`;
* `tombMarked_touched`: the exact set lies inside the former bound `tombTouched`; `tombTouched_not_exact`: strictly, for
  `t = *`.
* `admin_call_touches_exactly`: the five calls together (the two deletes re-exported from `admin_call_touches_only`).
-/
namespace Nsq.Props.C15Admin
open Nsq.Model.Registry Nsq.Model.Registry.AMap Nsq.Model.RegistryProto
open Nsq.Proofs.RegistryDB Nsq.Proofs.RegistryRefine Nsq.Proofs.RegistryStar Nsq.Proofs.RegistryAdmin Nsq.Spec.RegistrySpec

theorem createTopic_exact (r : Registry) (a : HttpArgs) (t : Name) (hok : (createTopic r a).2 = .ok)
    (ht : a.topic = some t) (k : Key) :
    has (createTopic r a).1.db k = (decide (k = topicKey t) || has r.db k) ∧
    ∀ q, getP (createTopic r a).1.db k q = getP r.db k q := by
  refine ⟨?_, fun q => (create_getP r a k q).1⟩
  unfold createTopic at hok ⊢
  by_cases hb : a.badQuery = true
  · simp [hb] at hok
  · simp only [hb, Bool.false_eq_true, if_false, ht] at hok ⊢
    by_cases hv : validName t = true
    · simp only [hv, Bool.not_true, Bool.false_eq_true, if_false, has_addRegistration]
      by_cases hk : k = topicKey t
      · simp [hk]
      · have : ¬ topicKey t = k := fun h => hk h.symm
        simp [hk, this]
    · simp [hv] at hok

theorem createChannel_exact (r : Registry) (a : HttpArgs) (t c : Name) (hok : (createChannel r a).2 = .ok)
    (ht : a.topic = some t) (hc : a.channel = some c) (k : Key) :
    has (createChannel r a).1.db k = (decide (k = topicKey t) || decide (k = chanKey t c) || has r.db k) ∧
    ∀ q, getP (createChannel r a).1.db k q = getP r.db k q := by
  refine ⟨?_, fun q => (create_getP r a k q).2⟩
  unfold createChannel at hok ⊢
  by_cases hb : a.badQuery = true
  · simp [hb] at hok
  · simp only [hb, Bool.false_eq_true, if_false] at hok ⊢
    cases hg : getTopicChannelArgs a with
    | error e =>
      simp only [hg] at hok
      unfold getTopicChannelArgs at hg
      simp only [ht, hc] at hg
      split at hg
      · simp only [Except.error.injEq] at hg; rw [← hg] at hok; simp at hok
      · split at hg
        · simp only [Except.error.injEq] at hg; rw [← hg] at hok; simp at hok
        · simp at hg
    | ok tc =>
      obtain ⟨e1, e2⟩ := getTopicChannelArgs_ok_eq a tc hg
      rw [ht] at e1; rw [hc] at e2
      simp only [Option.some.injEq] at e1 e2
      simp only [← e1, ← e2, has_addRegistration]
      by_cases hk1 : k = topicKey t
      · simp [hk1]
      · by_cases hk2 : k = chanKey t c
        · simp [hk2]
        · have h1 : ¬ topicKey t = k := fun h => hk1 h.symm
          have h2 : ¬ chanKey t c = k := fun h => hk2 h.symm
          simp [hk1, hk2, h1, h2]

/-- presence of a key CHANGES by an accepted `/topic/create` iff it is the named topic key and was absent -/
theorem createTopic_changes_iff (r : Registry) (a : HttpArgs) (t : Name) (hok : (createTopic r a).2 = .ok)
    (ht : a.topic = some t) (k : Key) :
    has (createTopic r a).1.db k ≠ has r.db k ↔ k = topicKey t ∧ has r.db k = false := by
  rw [(createTopic_exact r a t hok ht k).1]
  by_cases hk : k = topicKey t <;> cases has r.db k <;> simp [hk]

/-- … by an accepted `/channel/create` iff it is the named channel key or its topic key and was absent -/
theorem createChannel_changes_iff (r : Registry) (a : HttpArgs) (t c : Name) (hok : (createChannel r a).2 = .ok)
    (ht : a.topic = some t) (hc : a.channel = some c) (k : Key) :
    has (createChannel r a).1.db k ≠ has r.db k ↔ (k = topicKey t ∨ k = chanKey t c) ∧ has r.db k = false := by
  rw [(createChannel_exact r a t c hok ht hc k).1]
  by_cases hk : k = topicKey t <;> by_cases hk2 : k = chanKey t c <;> cases has r.db k <;> simp [hk, hk2]

/-- EXACTLY the entries `/topic/tombstone?topic=t&node=n` marks, `pick` = the outcome of `FindProducers("topic","*","")`
(used only for `t = *`) -/
def tombMarked (r : Registry) (pick : Pick) (t node : Name) (k : Key) (q : Nat) : Bool :=
  if t = star then isMatch k .topic star [] && decide (pick q = k.key) && nodeMatches r q node
  else decide (k = topicKey t) && nodeMatches r q node

theorem tombstone_exact (r : Registry) (a : HttpArgs) (now : Int) (t node : Name) (hok : (tombstone r a now).2 = .ok)
    (ht : a.topic = some t) (hn : a.node = some node) (k : Key) :
    has (tombstone r a now).1.db k = has r.db k ∧
    ∀ q, getP (tombstone r a now).1.db k q =
      if tombMarked r (firstPick r.db) t node k q then (getP r.db k q).map (fun _ => ⟨true, now⟩) else getP r.db k q := by
  refine ⟨(tombstone_touches r a now t node hok ht hn k).1, ?_⟩
  unfold tombstone at hok ⊢
  by_cases hb : a.badQuery = true
  · simp [hb] at hok
  · simp only [hb, Bool.false_eq_true, if_false, ht, hn]
    intro q
    by_cases hst : t = star
    · subst hst
      have e : tombstoneDB r star node now = tombstoneStarDB r (firstPick r.db) node now := by unfold tombstoneDB; simp
      rw [e, getP_tombstoneStarDB]
      simp [tombMarked, and_assoc]
    · rw [getP_tombstoneDB r t node now hst]
      simp [tombMarked, hst]

/-- a producer entry CHANGES by an accepted tombstone call iff it is marked, exists, and is not already `⟨true, now⟩` -/
theorem tombstone_changes_iff (r : Registry) (a : HttpArgs) (now : Int) (t node : Name)
    (hok : (tombstone r a now).2 = .ok) (ht : a.topic = some t) (hn : a.node = some node) (k : Key) (q : Nat) :
    getP (tombstone r a now).1.db k q ≠ getP r.db k q ↔
      tombMarked r (firstPick r.db) t node k q = true ∧ ∃ tb, getP r.db k q = some tb ∧ tb ≠ ⟨true, now⟩ := by
  rw [(tombstone_exact r a now t node hok ht hn k).2 q]
  by_cases hm : tombMarked r (firstPick r.db) t node k q = true
  · simp only [hm, if_true, true_and]
    cases hg : getP r.db k q with
    | none => simp
    | some tb =>
      simp only [Option.map_some, ne_eq, Option.some.injEq, exists_eq_left']
      exact ⟨fun h e => h e.symm, fun h e => h e.symm⟩
  · simp [hm]

/-- the exact set lies inside the bound of `admin_call_touches_only` … -/
theorem tombMarked_touched (r : Registry) (pick : Pick) (t node : Name) (k : Key) (q : Nat)
    (h : tombMarked r pick t node k q = true) : tombTouched r t node k q = true := by
  have hs : ([] : Name) ≠ star := by decide
  unfold tombMarked at h
  by_cases hst : t = star
  · simp only [hst, if_true, Bool.and_eq_true, decide_eq_true_eq] at h
    obtain ⟨⟨h1, _⟩, h3⟩ := h
    cases k with
    | mk cat key sub =>
      simp only [isMatch, Bool.and_eq_true, decide_eq_true_eq, Bool.or_eq_true, hs, false_or, true_or, and_true] at h1
      simp [tombTouched, h1.1.symm, h1.2, h3, hst]
  · simp only [hst, if_false, Bool.and_eq_true, decide_eq_true_eq] at h
    simp [tombTouched, h.1, topicKey, h.2]

/-- … strictly for `t = *`: a peer registered for two topics is marked under the picked one only -/
theorem tombTouched_not_exact :
    ∃ (r : Registry) (node : Name) (k : Key) (q : Nat),
      tombTouched r star node k q = true ∧ tombMarked r (firstPick r.db) star node k q = false ∧
      getP (tombstone r ⟨false, some star, none, some node⟩ 7).1.db k q = getP r.db k q ∧ (getP r.db k q).isSome = true := by
  refine ⟨run init [.identify 1 ⟨[104], [110], [118], 1, 2⟩ 0, .register 1 [[116]], .register 1 [[117]]],
    nodeOf ⟨[104], [110], [118], 1, 2⟩, topicKey [117], 1, ?_⟩
  decide

/-- **Exactly** which entries each ACCEPTED admin call changes (every registry, every argument; no call changes a peer
record — `admin_call_touches_only`, first conjunct). -/
theorem admin_call_touches_exactly (r : Registry) (a : HttpArgs) (now : Int) :
    (∀ t, (createTopic r a).2 = .ok → a.topic = some t → ∀ k,
      has (createTopic r a).1.db k = (decide (k = topicKey t) || has r.db k) ∧
      ∀ q, getP (createTopic r a).1.db k q = getP r.db k q) ∧
    (∀ t c, (createChannel r a).2 = .ok → a.topic = some t → a.channel = some c → ∀ k,
      has (createChannel r a).1.db k = (decide (k = topicKey t) || decide (k = chanKey t c) || has r.db k) ∧
      ∀ q, getP (createChannel r a).1.db k q = getP r.db k q) ∧
    (∀ t, (deleteTopic r a).2 = .ok → a.topic = some t → ∀ k,
      (has (deleteTopic r a).1.db k = true ↔ has r.db k = true ∧ delTouched t k = false) ∧
      ∀ q, getP (deleteTopic r a).1.db k q = if delTouched t k then none else getP r.db k q) ∧
    (∀ t c, (deleteChannel r a).2 = .ok → a.topic = some t → a.channel = some c → ∀ k,
      has (deleteChannel r a).1.db k = (decide (k ≠ chanKey t c) && has r.db k) ∧
      ∀ q, getP (deleteChannel r a).1.db k q = if k = chanKey t c then none else getP r.db k q) ∧
    (∀ t node, (tombstone r a now).2 = .ok → a.topic = some t → a.node = some node → ∀ k,
      has (tombstone r a now).1.db k = has r.db k ∧
      ∀ q, getP (tombstone r a now).1.db k q =
        if tombMarked r (firstPick r.db) t node k q then (getP r.db k q).map (fun _ => ⟨true, now⟩)
        else getP r.db k q) := by
  obtain ⟨_, _, _, hdt, hdc, _⟩ := Nsq.Props.C15.admin_call_touches_only r a now
  exact ⟨fun t hok ht k => createTopic_exact r a t hok ht k,
    fun t c hok ht hc k => createChannel_exact r a t c hok ht hc k, hdt, hdc,
    fun t node hok ht hn k => tombstone_exact r a now t node hok ht hn k⟩

/-! ## non-vacuity -/

def infoA : Info := ⟨[104], [110], [118], 1, 2⟩
def r0 : Registry := run init [.identify 1 infoA 0, .register 1 [[116], [99]], .identify 2 ⟨[105], [110], [118], 1, 2⟩ 0,
  .register 2 [[116]]]

/-- the calls are accepted on `r0`, a key appears, an entry is marked and another one under the same key is not -/
example : (createTopic r0 ⟨false, some [117], none, none⟩).2 = .ok ∧
    has (createTopic r0 ⟨false, some [117], none, none⟩).1.db (topicKey [117]) = true ∧ has r0.db (topicKey [117]) = false ∧
    (createChannel r0 ⟨false, some [117], some [100], none⟩).2 = .ok ∧
    has (createChannel r0 ⟨false, some [117], some [100], none⟩).1.db (chanKey [117] [100]) = true := by decide
example : (tombstone r0 ⟨false, some [116], none, some (nodeOf infoA)⟩ 7).2 = .ok ∧
    tombMarked r0 (firstPick r0.db) [116] (nodeOf infoA) (topicKey [116]) 1 = true ∧
    tombMarked r0 (firstPick r0.db) [116] (nodeOf infoA) (topicKey [116]) 2 = false ∧
    getP (tombstone r0 ⟨false, some [116], none, some (nodeOf infoA)⟩ 7).1.db (topicKey [116]) 1 = some ⟨true, 7⟩ ∧
    getP (tombstone r0 ⟨false, some [116], none, some (nodeOf infoA)⟩ 7).1.db (topicKey [116]) 2 = some fresh ∧
    getP (tombstone r0 ⟨false, some [116], none, some (nodeOf infoA)⟩ 7).1.db (chanKey [116] [99]) 1 = some fresh := by decide
/-- marking twice at the same time changes nothing the second time (the `tb ≠ ⟨true, now⟩` clause is needed) -/
example : (tombstone (tombstone r0 ⟨false, some [116], none, some (nodeOf infoA)⟩ 7).1
      ⟨false, some [116], none, some (nodeOf infoA)⟩ 7).1.db =
    (tombstone r0 ⟨false, some [116], none, some (nodeOf infoA)⟩ 7).1.db := by decide

end Nsq.Props.C15Admin
