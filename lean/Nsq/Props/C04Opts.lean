import Nsq.Proofs.TimingOpts
import Nsq.Tie.TimingOpts
/-!
# C04, audit round 7 item A12 — "never beyond max-msg-timeout after delivery" and the option pair

`Props.C04.touch_cap` needs "every delivery starts with a timeout ≤ MaxMsgTimeout". A negotiated
`msg_timeout` satisfies it (`setMsgTimeout_range`); the DEFAULT is the option `--msg-timeout`
(`Tie.TimingOpts.client_msgTimeout_used_by`), which `nsqd.New` did not compare with `--max-msg-timeout`:
finding `msg-timeout-above-max` (replayed on the real daemon by harness/e1/opts_timeout_test.go),
fix F40 = /repo bedf305, committed (`New` lowers `MsgTimeout` to `MaxMsgTimeout` when it is above; a refusal was tried first and
rejected: it stops every daemon started with a low `--max-msg-timeout` and the default `--msg-timeout`). `fixed` below = `Tie.TimingOpts.treeFixed`,
which the regenerated facts decide to be `true` (`tree_fixed`): `deadline_cap_this_tree` is the statement about the checked tree.
-/
namespace Nsq.Props.C04Opts
open Nsq.Model.PQ Nsq.Model.Timing Nsq.Model.TimingOpts Nsq.Proofs.PQ Nsq.Proofs.Timing Nsq.Proofs.TimingOpts

/-- the statement's clause for a daemon started with ANY option pair: whatever the history of deliveries
(each with the daemon default as `New` left it, or with a negotiated timeout in `[1 s, MaxMsgTimeout]`),
TOUCHes, FINs, REQs, deferrals and scans, every in-flight deadline is `≤ deliveryTS + MaxMsgTimeout` -/
def DeadlineCap (fixed : Bool) : Prop :=
  ∀ (msgTimeout maxMsgTimeout : Int) (ops : List Op),
      (∀ op ∈ ops, ∀ now id client timeout, op = .inflight now id client timeout →
        timeout = effectiveMsgTimeout fixed msgTimeout maxMsgTimeout ∨
        (1000000000 ≤ timeout ∧ timeout ≤ maxMsgTimeout)) →
      ∀ r ∈ (run maxMsgTimeout {} ops).ifmap, ∀ p, (r.id, p) ∈ keys (run maxMsgTimeout {} ops).ifpq →
        p ≤ r.dts + maxMsgTimeout

/-- **With fix F40 the clause holds in full**: no hypothesis on the options at all. -/
theorem deadline_cap_fixed : DeadlineCap true := by
  intro mt max ops hops
  have hle : effectiveMsgTimeout true mt max ≤ max := by
    unfold effectiveMsgTimeout
    by_cases h : mt > max <;> simp [h] <;> omega
  refine cap_run max {} ops inv_init (cap_init max) ?_
  intro op hop now id client timeout he
  rcases hops op hop now id client timeout he with h | h <;> omega

/-- **THIS tree** (audit B12): the parameter is the Bool computed from the regenerated statements of `nsqd.New`; the tie
accepts only the shape with the guard, so a tree that reverts F40 fails `tree_fixed` and this theorem with it. -/
theorem deadline_cap_this_tree : DeadlineCap Nsq.Tie.TimingOpts.treeFixed := by
  rw [Nsq.Tie.TimingOpts.tree_fixed]; exact deadline_cap_fixed

example : effectiveMsgTimeout Nsq.Tie.TimingOpts.treeFixed 1200 900 = 900 := by
  rw [Nsq.Tie.TimingOpts.tree_fixed]; decide

/-- **Without it the clause is false** (the tree before F40): with `--msg-timeout 120 --max-msg-timeout 60`
the first delivery's deadline is `deliveryTS + 120`. -/
theorem deadline_cap_unfixed_false : ¬ DeadlineCap false := by
  intro h
  have := h 120 60 [.inflight 0 1 1 120]
    (by
      intro op hop now id client timeout he
      simp only [List.mem_cons, List.not_mem_nil, or_false] at hop
      subst hop
      cases he
      exact Or.inl (by decide))
    ({ id := 1, client := 1, dts := 0 } : InF) (by decide +kernel) 120 (by decide +kernel)
  simp at this

/-- What holds on BOTH trees: every deadline is `≤ deliveryTS + max(MaxMsgTimeout, M)` when `M` bounds
the timeouts deliveries start with (`M` = the larger of `--msg-timeout` and `--max-msg-timeout`) … -/
theorem deadline_cap_general (B maxMsgTimeout : Int) (hle : maxMsgTimeout ≤ B) (ops : List Op)
    (hops : ∀ op ∈ ops, ∀ now id client timeout, op = .inflight now id client timeout → timeout ≤ B) :
    ∀ r ∈ (run maxMsgTimeout {} ops).ifmap, ∀ p, (r.id, p) ∈ keys (run maxMsgTimeout {} ops).ifpq →
      p ≤ r.dts + B :=
  cap_run_le B maxMsgTimeout hle {} ops inv_init (cap_init B) hops

/-- … and a TOUCH always brings the message back under the cap (so the excess is confined to deliveries
that were never TOUCHed): after an accepted TOUCH the deadline is `min(now + msgTimeout, deliveryTS + max)`. -/
theorem touch_restores_cap (c : Chan) (h : ChanInv c) (now client : Int) (id : Nat) (mt max : Int)
    (hok : (touch c now client id mt max).2 = .ok) :
    ∃ r, lookup c.ifmap id = some r ∧
      (id, min (now + mt) (r.dts + max)) ∈ keys (touch c now client id mt max).1.ifpq ∧
      min (now + mt) (r.dts + max) ≤ r.dts + max := by
  obtain ⟨r, h1, _, h3, _⟩ := touch_sets_deadline c now client id mt max h hok
  exact ⟨r, h1, h3, Int.min_le_right _ _⟩

/-- The scenario of the driver op `optcheck` (one delivery at `dts` with the default timeout — first
deadline `dts + msgTimeout` —, then its TOUCH at any `now ≥ dts`): the TOUCHed deadline is `≤ dts + max`, and
it is EARLIER than the first one exactly when `msgTimeout > max`: on the unfixed tree a TOUCH can shorten a
message's life. The answer does not depend on when the TOUCH arrives (the driver evaluates `now = dts`). -/
theorem touch_answer_any_time (mt max dts now : Int) (hnow : dts ≤ now) :
    touchDeadline now dts mt max ≤ dts + max ∧
    (touchDeadline now dts mt max < dts + mt ↔ max < mt) := by
  rw [touchDeadline_eq_min]
  constructor
  · exact Int.min_le_right _ _
  · omega

/-! ## Non-vacuity -/
example : effectiveMsgTimeout true 60 900 = 60 ∧ effectiveMsgTimeout true 1200 900 = 900 ∧
    effectiveMsgTimeout false 1200 900 = 1200 := by decide
example : (touchDeadline 5 0 1200 900 < 0 + 1200) := (touch_answer_any_time 1200 900 0 5 (by decide)).2.mpr (by decide)
example : deadlineOf (startInFlight {} 0 1 1 1200).1 1 = some 1200 ∧ deadlineOf (deliverThenTouch 1200 900 0 5) 1 = some 900 := by
  decide +kernel
/-- a history with a default delivery, a negotiated one and a TOUCH, under accepted options -/
example : ∀ r ∈ (run 900 {} [.inflight 0 1 1 60, .inflight 1 2 2 2000000000, .touch 50 1 1 60]).ifmap,
    ∀ p, (r.id, p) ∈ keys (run 900 {} [.inflight 0 1 1 60, .inflight 1 2 2 2000000000, .touch 50 1 1 60]).ifpq →
      p ≤ r.dts + 2000000000 :=
  deadline_cap_general 2000000000 900 (by decide) _ (by
    intro op hop now id client timeout he
    simp only [List.mem_cons, List.not_mem_nil, or_false] at hop
    rcases hop with rfl | rfl | rfl <;> cases he <;> omega)

end Nsq.Props.C04Opts
