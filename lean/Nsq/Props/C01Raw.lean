/-
C01.2 `fanout_complete` over runs of the daemon-level model `Nsq.Model.ChanNsqd` that INCLUDE the raw halves of channel
creation `createChanRaw | refreshPump` (audit A15 remainder; docs/C01.md "Round 10").

`C01.fanout_complete` is stated for `NReachable` (API-level ops only) and keyed on the field `born` (id counter at the map
insert); `C01Snap.fanout_complete_raw` has the split creation, but on the small model `TopicSnap`. Here: EVERY op list of
`ChanNsqd.step` (all 30 ops, the raw halves, the pump's and FIN's micro-steps, failed MPUBs, ephemeral reaping, fatal
errors), from the empty daemon. The ghost `E tid cid` (pure instrumentation, `grun_is_run`) is the value of the id counter
when the channel ENTERED the pump's snapshot: set by `refreshPump tid` for every channel of the topic not yet entered, by
the atomic `createChan` / `sub` when they create the channel, reset to `none` by a `createChanRaw` that creates it.

* `fanout_complete_rawops` — in every state of every such run, every acknowledged id of every topic is still in the topic
  queue, or has a fan-out event on EVERY existing channel of the topic that entered the snapshot no later than the id was
  issued (`E = some b`, `b ≤ i`);
* `entered_in_snapshot` — an entered channel that still exists is in the pump's snapshot;
* `fanout_complete_born_false` — the same statement keyed on the field `born` (assigned at the map insert) is FALSE over
  runs with the raw halves (5-op witness: the message published between the halves goes to the old snapshot);
* `bsOps` examples: the busy-sub schedule on the daemon-level model.
A SUB that finds the channel already in the map (a second subscriber during the window) returns WITHOUT entering: `E` stays
`none` until the pump's refresh — exactly `Topic.GetChannel` (`isNew` false ⇒ no `channelUpdateChan` send); the theorem
promises such a consumer nothing before the refresh.
-/
import Nsq.Proofs.ChanNsqdRaw
namespace Nsq.Props.C01Raw
open Nsq.Model.Chan Nsq.Model.ChanNsqd Nsq.Proofs.Chan Nsq.Proofs.ChanNsqdRaw

/-- the ghost is instrumentation only -/
theorem grun_is_run (s : State) (E : Gh) (ops : List Nsq.Model.ChanNsqd.Op) :
    (grun (s, E) ops).1 = Nsq.Model.ChanNsqd.run s ops := grun_fst (s, E) ops

/-- the initial ghost: nothing has entered -/
def E0 : Gh := fun _ _ => none

/-- **fan-out completeness over every run, raw halves of channel creation included** -/
theorem fanout_complete_rawops (conf : NConf) (ops : List Nsq.Model.ChanNsqd.Op) (t : Topic)
    (ht : t ∈ (Nsq.Model.ChanNsqd.run { conf := conf } ops).topics) :
    ∀ i ∈ t.acked, i ∈ t.queue.map (·.id) ∨
      ∀ nc ∈ t.chans, ∀ b, (grun ({ conf := conf }, E0) ops).2 t.tid nc.cid = some b → b ≤ i → i ∈ fannedIds nc.ch.hist := by
  have h := grun_fi (fi_init conf E0) ops
  have hft := h.topics t (by rw [grun_fst]; exact ht)
  intro i hia
  rcases hft.ackq i hia with hq | hp
  · exact Or.inl hq
  · right
    intro nc hnc b hb hbi
    rw [mem_fannedIds]
    exact hft.fan nc hnc b hb i hp hbi

/-- an entered channel that still exists is in the pump's snapshot -/
theorem entered_in_snapshot (conf : NConf) (ops : List Nsq.Model.ChanNsqd.Op) (t : Topic)
    (ht : t ∈ (Nsq.Model.ChanNsqd.run { conf := conf } ops).topics) (nc : NChan) (hnc : nc ∈ t.chans)
    (he : ((grun ({ conf := conf }, E0) ops).2 t.tid nc.cid).isSome = true) : nc.cid ∈ t.pump := by
  have h := grun_fi (fi_init conf E0) ops
  have := (h.topics t (by rw [grun_fst]; exact ht)).vis nc hnc he
  simpa using this

/-- step level: the atomic `createChan` of a new channel enters it at once; the raw insert does not; the refresh does -/
theorem createChan_enters (s : State) (E : Gh) (t c : Nat) (eph : Bool) (hn : isNew s t c = true) :
    (gstep (s, E) (.createChan t c eph)).2 t c = some s.nextId ∧
    (gstep (s, E) (.createChanRaw t c eph)).2 t c = none := by
  simp [gstep, gnext, hn, Nsq.Proofs.ChanNsqdRaw.setE]

theorem refresh_enters (s : State) (E : Gh) (t c : Nat) :
    ((gstep (s, E) (.refreshPump t)).2 t c).isSome = true ∧
    (E t c = none → (gstep (s, E) (.refreshPump t)).2 t c = some s.nextId) := by
  simp only [gstep, gnext, if_true]
  cases E t c <;> simp

/-! ### non-vacuity: the busy-sub schedule on the daemon-level model -/

/-- channel 1 exists; messages 1 2 published, 1 pumped; channel 2 inserted (SUB in progress); 2 pumped to the OLD
snapshot; refresh (`GetChannel` returns: entered at 3); message 3 published and pumped -/
def bsOps : List Nsq.Model.ChanNsqd.Op :=
  [.createChan 1 1 false, .pub 1 10, .pub 1 10, .pumpTopic 1 1 true [], .createChanRaw 1 2 false,
   .pumpTopic 1 2 true [], .refreshPump 1, .pub 1 10, .pumpTopic 1 3 true []]

def bsEnd : State × Gh := grun ({}, E0) bsOps

example : bsEnd.2 1 1 = some 1 ∧ bsEnd.2 1 2 = some 3 := by decide
example : bsEnd.1.topics.map (·.acked) = [[3, 2, 1]] ∧ bsEnd.1.topics.map (fun t => t.queue.map (·.id)) = [[]] ∧
    bsEnd.1.topics.map (·.pump) = [[1, 2]] ∧
    bsEnd.1.topics.map (fun t => t.chans.map (fun nc => fannedIds nc.ch.hist)) = [[[3, 2, 1], [3]]] ∧
    bsEnd.1.topics.map (fun t => t.chans.map (·.born)) = [[1, 3]] := by decide
/-- between the halves channel 2 is in the map but has not entered -/
example : (grun ({}, E0) (bsOps.take 6)).2 1 2 = none ∧
    ((grun ({}, E0) (bsOps.take 6)).1.topics.map (fun t => (t.pump, t.chans.map (·.cid)))) = [([1], [1, 2])] := by decide

/-- the statement keyed on the field `born` (id counter at the MAP INSERT) -/
def FanoutCompleteBorn : Prop :=
  ∀ (ops : List Nsq.Model.ChanNsqd.Op) (t : Topic), t ∈ (Nsq.Model.ChanNsqd.run {} ops).topics →
    ∀ i ∈ t.acked, i ∈ t.queue.map (·.id) ∨ ∀ nc ∈ t.chans, nc.born ≤ i → i ∈ fannedIds nc.ch.hist

def bornOps : List Nsq.Model.ChanNsqd.Op :=
  [.createChan 1 1 false, .createChanRaw 1 2 false, .pub 1 10, .pumpTopic 1 1 true [], .refreshPump 1]

example : (Nsq.Model.ChanNsqd.run {} bornOps).topics.map (·.acked) = [[1]] ∧
    (Nsq.Model.ChanNsqd.run {} bornOps).topics.map (fun t => t.queue.map (·.id)) = [[]] ∧
    (Nsq.Model.ChanNsqd.run {} bornOps).topics.map (fun t => t.chans.map (·.born)) = [[1, 1]] ∧
    (Nsq.Model.ChanNsqd.run {} bornOps).topics.map (fun t => t.chans.map (fun nc => fannedIds nc.ch.hist)) = [[[1], []]] := by
  decide


/-- keyed on `born` the statement is false over runs with the raw halves: channel 2 is inserted (born = 1), message 1 is
published and fanned out to the OLD snapshot `[1]` before the pump takes the update -/
theorem fanout_complete_born_false : ¬ FanoutCompleteBorn := by
  intro h
  have key : ∃ t ∈ (Nsq.Model.ChanNsqd.run {} bornOps).topics, 1 ∈ t.acked ∧ 1 ∉ t.queue.map (·.id) ∧
      ∃ nc ∈ t.chans, nc.born ≤ 1 ∧ 1 ∉ fannedIds nc.ch.hist := by decide
  obtain ⟨t, ht, ha, hq, nc, hnc, hb, hf⟩ := key
  rcases h bornOps t ht 1 ha with h1 | h1
  · exact hq h1
  · exact hf (h1 nc hnc hb)

/-- the theorem applied to the busy-sub run: message 3 (acknowledged, not queued) is on every channel entered by 3 -/
example : ∀ t ∈ (Nsq.Model.ChanNsqd.run {} bsOps).topics, ∀ nc ∈ t.chans, ∀ b,
    (grun ({}, E0) bsOps).2 t.tid nc.cid = some b → b ≤ 3 → 3 ∈ fannedIds nc.ch.hist := by
  intro t ht
  have ha : ∀ t ∈ (Nsq.Model.ChanNsqd.run {} bsOps).topics, 3 ∈ t.acked ∧ 3 ∉ t.queue.map (·.id) := by decide
  exact (fanout_complete_rawops {} bsOps t ht 3 (ha t ht).1).resolve_left (ha t ht).2
/-- … and message 2 (published between the halves) is NOT on channel 2 — the bound `b ≤ i` is needed -/
example : ∃ t ∈ (Nsq.Model.ChanNsqd.run {} bsOps).topics, 2 ∈ t.acked ∧ 2 ∉ t.queue.map (·.id) ∧
    ∃ nc ∈ t.chans, nc.cid = 2 ∧ 2 ∉ fannedIds nc.ch.hist := by decide

end Nsq.Props.C01Raw
