import Nsq.Props.C14
/-!
# C14 — `lastUpdate` inside the section model (claim audit 11, C14 item 3)

The concurrency theorems of `Nsq.Props.C14` / `C14Sched` are about the REGISTRY part of the answers. The other input of
`GET /lookup` / `GET /nodes` is each peer's `lastUpdate` stamp: `PING` stores it with `sync/atomic` and takes NO lock of the
`RegistrationDB`; `Producers.FilterByActive` loads it, one atomic load per producer, in a loop (regenerated facts
`stamps_shape`: the call lists of the two functions contain no `Lock`/`RLock`). So a reader is one critical section for the
registry but `n` separate atomic reads for the stamps. Model: the stamps table alone (`Stamps`), the reader = one section per
listed producer (`readerSecs ids`), a `PING` of peer `p` = one section (`pingSec`).

* `stamps_reader_one_ping_linearizable`: against ONE overlapping `PING` the reader's stamps are those of one of the two
  serial orders (ids duplicate-free — they are the keys of one Go map);
* `stamps_reader_prefix_false`: against TWO `PING`s that took effect one after the other (`ping 1` before `ping 2`) the reader
  can load the OLD stamp of peer 1 and the NEW stamp of peer 2 — the stamps of NO prefix of the writers. The answer is then
  "peer 2 active, peer 1 not" when both stamps were stale. This is a statement about the model (a consequence of the
  per-producer loads the facts pin); it needs two peers silent for longer than `--inactive-producer-timeout` and is NOT
  replayed on the daemon (no known finding is opened: the answer is still a mixture of values each peer really had);
* `stamps_reader_each_read_regular`: what does hold for every number of `PING`s and every schedule: each stamp the reader
  returns is the stamp that peer had after SOME prefix of the writers (per-peer atomic reads; never a torn or invented value).
-/
namespace Nsq.Props.C14Stamps
open Nsq.Model.Registry Nsq.Model.Registry.AMap Nsq.Proofs.RegistryMap Nsq.Proofs.RegistrySched Nsq.Gen

/-- COMPUTED shape: `PING` = load, `time.Now()`, store — no lock; `FilterByActive` = `time.Now()` once, then loads — no lock
of its own (it runs inside the reader's `RLock` since F37, which does not exclude `PING`) -/
theorem stamps_shape :
    Lookupd.callsPingCmd = ["LoadInt64", "Now", "StoreInt64"] ∧
    Lookupd.callsFilterByActive = ["Now", "LoadInt64"] := by decide

abbrev Stamps := List (Nat × Int)
abbrev SObs := List (Nat × Option Int)
abbrev SSec := Stamps × SObs → Stamps × SObs

/-- `atomic.LoadInt64(&p.peerInfo.lastUpdate)` of producer `id` inside the loop of `FilterByActive` -/
def readStamp (id : Nat) : SSec := fun x => (x.1, x.2 ++ [(id, mget x.1 id)])
/-- `atomic.StoreInt64(&client.peerInfo.lastUpdate, now)` of `PING` -/
def pingW (p : Nat) (now : Int) : Stamps → Stamps := fun st => mset st p now
def pingSec (p : Nat) (now : Int) : SSec := fun x => (pingW p now x.1, x.2)

def readerSecs (ids : List Nat) : List SSec := ids.map readStamp
def runS (x : Stamps × SObs) (l : List SSec) : Stamps × SObs := l.foldl (fun d s => s d) x
def runW (st : Stamps) (ws : List (Stamps → Stamps)) : Stamps := ws.foldl (fun d w => w d) st
/-- all the loads on ONE stamps table -/
def readAll (st : Stamps) (ids : List Nat) : SObs := ids.map (fun id => (id, mget st id))

theorem runS_append (x : Stamps × SObs) (l₁ l₂ : List SSec) : runS x (l₁ ++ l₂) = runS (runS x l₁) l₂ := by
  simp [runS, List.foldl_append]

theorem run_readers (ids : List Nat) : ∀ (st : Stamps) (o : SObs),
    runS (st, o) (readerSecs ids) = (st, o ++ readAll st ids) := by
  induction ids with
  | nil => intro st o; simp [runS, readerSecs, readAll]
  | cons id rest ih =>
    intro st o
    have := ih st (o ++ [(id, mget st id)])
    simp only [runS, readerSecs, List.map_cons, List.foldl_cons, readStamp, readAll] at this ⊢
    rw [this]; simp

theorem readAll_ping_of_not_mem (st : Stamps) (p : Nat) (now : Int) (ids : List Nat) (h : p ∉ ids) :
    readAll (pingW p now st) ids = readAll st ids := by
  unfold readAll
  apply List.map_congr_left
  intro id hid
  have : ¬ p = id := fun e => h (e ▸ hid)
  simp [pingW, mget_mset, this]

/-- The reader against ONE overlapping `PING`: the loaded stamps are all-before or all-after, the store is not disturbed. -/
theorem stamps_reader_one_ping_linearizable (st : Stamps) (ids : List Nat) (hnd : ids.Nodup) (p : Nat) (now : Int) :
    ∀ s ∈ interleave (readerSecs ids) [pingSec p now],
      runS (st, []) s = (pingW p now st, readAll st ids) ∨
      runS (st, []) s = (pingW p now st, readAll (pingW p now st) ids) := by
  intro s hs
  obtain ⟨k, _, rfl⟩ := interleave_single _ _ s hs
  have hsplit : readerSecs ids = readerSecs (ids.take k) ++ readerSecs (ids.drop k) := by
    simp [readerSecs]
  have htake : (readerSecs ids).take k = readerSecs (ids.take k) := by simp [readerSecs, List.map_take]
  have hdrop : (readerSecs ids).drop k = readerSecs (ids.drop k) := by simp [readerSecs, List.map_drop]
  rw [htake, hdrop, runS_append, run_readers]
  have hc : (pingSec p now :: readerSecs (ids.drop k)) = [pingSec p now] ++ readerSecs (ids.drop k) := rfl
  rw [hc, runS_append]
  simp only [runS, List.foldl_cons, List.foldl_nil, pingSec]
  have := run_readers (ids.drop k) (pingW p now st) ([] ++ readAll st (ids.take k))
  simp only [runS] at this
  rw [this]
  have hall : ∀ st', readAll st' ids = readAll st' (ids.take k) ++ readAll st' (ids.drop k) := by
    intro st'; simp [readAll]
  by_cases hp : p ∈ ids.drop k
  · right
    have hnot : p ∉ ids.take k := by
      intro ht
      have hnd' : (ids.take k ++ ids.drop k).Nodup := by rw [List.take_append_drop]; exact hnd
      exact (List.nodup_append.mp hnd').2.2 p ht p hp rfl
    rw [hall, readAll_ping_of_not_mem st p now _ hnot]; simp
  · left
    rw [hall st, readAll_ping_of_not_mem st p now _ hp]; simp

/-- "the reader's stamps are those after a prefix of the writers" (the form of `concurrent_lookup_linearizable`) -/
def stamps_reader_sees_prefix : Prop :=
  ∀ (st : Stamps) (ids : List Nat) (ws : List (Stamps → Stamps)), ids.Nodup →
    ∀ s ∈ interleave (ws.map (fun w x => (w x.1, x.2))) (readerSecs ids),
      ∃ k, k ≤ ws.length ∧ (runS (st, []) s).2 = readAll (runW st (ws.take k)) ids

/-- FALSE: `load(1)` (old) · `PING 1` · `PING 2` · `load(2)` (new): old stamp of peer 1 with the new stamp of peer 2. -/
theorem stamps_reader_prefix_false : ¬ stamps_reader_sees_prefix := by
  intro h
  obtain ⟨k, hk, e⟩ := h [(1, 0), (2, 0)] [1, 2] [pingW 1 10, pingW 2 20] (by decide)
    [readStamp 1, fun x => (pingW 1 10 x.1, x.2), fun x => (pingW 2 20 x.1, x.2), readStamp 2]
    (by simp [interleave, interleaveF, readerSecs])
  simp only [List.length_cons, List.length_nil] at hk
  match k, hk with
  | 0, _ => exact absurd e (by decide)
  | 1, _ => exact absurd e (by decide)
  | 2, _ => exact absurd e (by decide)

/-! ### what holds for any number of writers: every single load is the value after some prefix -/

theorem interleaveF_mem_inv {α : Type} : ∀ (n : Nat) (xs ys : List α) (s : List α), xs.length + ys.length ≤ n →
    s ∈ interleaveF n xs ys →
    (xs = [] ∧ s = ys) ∨ (ys = [] ∧ s = xs) ∨
    (∃ x xs' s', xs = x :: xs' ∧ s = x :: s' ∧ s' ∈ interleaveF (n - 1) xs' ys) ∨
    (∃ y ys' s', ys = y :: ys' ∧ s = y :: s' ∧ s' ∈ interleaveF (n - 1) xs ys') := by
  intro n xs ys s hn hs
  cases n with
  | zero =>
    have hx : xs = [] := List.eq_nil_of_length_eq_zero (by omega)
    have hy : ys = [] := List.eq_nil_of_length_eq_zero (by omega)
    subst hx; subst hy
    simp only [interleaveF, List.mem_singleton] at hs
    exact Or.inl ⟨rfl, hs⟩
  | succ m =>
    cases xs with
    | nil => simp only [interleaveF, List.mem_singleton] at hs; exact Or.inl ⟨rfl, hs⟩
    | cons x xs' =>
      cases ys with
      | nil => simp only [interleaveF, List.mem_singleton] at hs; exact Or.inr (Or.inl ⟨rfl, hs⟩)
      | cons y ys' =>
        simp only [interleaveF, List.mem_append, List.mem_map] at hs
        rcases hs with ⟨s', hs', rfl⟩ | ⟨s', hs', rfl⟩
        · exact Or.inr (Or.inr (Or.inl ⟨x, xs', s', rfl, rfl, hs'⟩))
        · exact Or.inr (Or.inr (Or.inr ⟨y, ys', s', rfl, rfl, hs'⟩))

theorem map_pair_eq_zip (f : Nat → Option Int) (ids : List Nat) :
    ids.map (fun id => (id, f id)) = ids.zip (ids.map f) := by
  induction ids with
  | nil => rfl
  | cons a r ih => simp [ih]

def wlift (w : Stamps → Stamps) : SSec := fun x => (w x.1, x.2)

theorem run_wlift (ws : List (Stamps → Stamps)) (st : Stamps) (o : SObs) :
    runS (st, o) (ws.map wlift) = (runW st ws, o) := by
  induction ws generalizing st with
  | nil => rfl
  | cons w ws ih => simp only [List.map_cons, runS, runW, List.foldl_cons, wlift]; exact ih (w st)

/-- Every schedule of ANY sequence of writers with the reader: the observation is the list of the ids in order, and every
stamp in it is the stamp that peer had after SOME prefix of the writers. -/
theorem stamps_reader_each_read_regular :
    ∀ (n : Nat) (ws : List (Stamps → Stamps)) (ids : List Nat) (st : Stamps) (o : SObs) (s : List SSec),
      ws.length + ids.length ≤ n → s ∈ interleaveF n (ws.map wlift) (readerSecs ids) →
      ∃ vals : List (Option Int), (runS (st, o) s).2 = o ++ ids.zip vals ∧ vals.length = ids.length ∧
        (runS (st, o) s).1 = runW st ws ∧
        ∀ i (hi : i < vals.length), ∃ k, k ≤ ws.length ∧ ∃ id, ids[i]? = some id ∧ vals[i] = mget (runW st (ws.take k)) id := by
  intro n
  induction n with
  | zero =>
    intro ws ids st o s hn hs
    have hx : ws = [] := List.eq_nil_of_length_eq_zero (by omega)
    have hy : ids = [] := List.eq_nil_of_length_eq_zero (by omega)
    subst hx; subst hy
    simp only [interleaveF, List.mem_singleton] at hs
    subst hs
    exact ⟨[], by simp [runS], rfl, rfl, fun i hi => absurd hi (by simp)⟩
  | succ m ih =>
    intro ws ids st o s hn hs
    rcases interleaveF_mem_inv (m + 1) _ _ s (by simpa [readerSecs] using hn) hs with
      ⟨hx, rfl⟩ | ⟨hy, rfl⟩ | ⟨x, xs', s', hx, rfl, hs'⟩ | ⟨y, ys', s', hy, rfl, hs'⟩
    · -- no writers: the reader alone
      have hws : ws = [] := by cases ws <;> simp_all
      subst hws
      rw [run_readers]
      refine ⟨ids.map (fun id => mget st id), ?_, by simp, rfl, ?_⟩
      · simp only [readAll]; congr 1
        exact map_pair_eq_zip _ _
      · intro i hi
        simp only [List.length_map] at hi
        exact ⟨0, Nat.zero_le _, ids[i], by simp [hi], by simp [runW]⟩
    · -- no reads
      have hids : ids = [] := by cases ids <;> simp_all [readerSecs]
      subst hids
      rw [run_wlift]
      exact ⟨[], by simp, rfl, rfl, fun i hi => absurd hi (by simp)⟩
    · -- a writer goes first
      cases ws with
      | nil => simp at hx
      | cons w ws' =>
        simp only [List.map_cons, List.cons.injEq] at hx
        obtain ⟨rfl, rfl⟩ := hx
        have hlen : ws'.length + ids.length ≤ m := by simp only [List.length_cons] at hn; omega
        have hs'' : s' ∈ interleaveF m (ws'.map wlift) (readerSecs ids) := by simpa using hs'
        obtain ⟨vals, h1, h2, h3, h4⟩ := ih ws' ids (w st) o s' hlen hs''
        refine ⟨vals, ?_, h2, ?_, ?_⟩
        · simpa [runS, wlift] using h1
        · simpa [runS, runW, wlift] using h3
        · intro i hi
          obtain ⟨k, hk, id, hid, hv⟩ := h4 i hi
          exact ⟨k + 1, by simp; omega, id, hid, by simpa [runW] using hv⟩
    · -- a read goes first
      cases ids with
      | nil => simp [readerSecs] at hy
      | cons id ids' =>
        simp only [readerSecs, List.map_cons, List.cons.injEq] at hy
        obtain ⟨rfl, rfl⟩ := hy
        have hlen : ws.length + ids'.length ≤ m := by simp only [List.length_cons] at hn; omega
        have hs'' : s' ∈ interleaveF m (ws.map wlift) (readerSecs ids') := by simpa [readerSecs] using hs'
        obtain ⟨vals, h1, h2, h3, h4⟩ := ih ws ids' st (o ++ [(id, mget st id)]) s' hlen hs''
        refine ⟨mget st id :: vals, ?_, by simp [h2], ?_, ?_⟩
        · simp only [runS, List.foldl_cons, readStamp] at h1 ⊢
          rw [h1]; simp
        · simpa [runS, readStamp] using h3
        · intro i hi
          cases i with
          | zero => exact ⟨0, Nat.zero_le _, id, rfl, by simp [runW]⟩
          | succ j =>
            simp only [List.length_cons] at hi
            obtain ⟨k, hk, id', hid, hv⟩ := h4 j (by omega)
            exact ⟨k, hk, id', by simpa using hid, by simpa using hv⟩

/-! ## non-vacuity -/

example : (interleave (readerSecs [1, 2]) [pingSec 1 10]).length = 3 ∧
    (interleave ([pingW 1 10, pingW 2 20].map wlift) (readerSecs [1, 2])).length = 6 := by decide
/-- the two serial answers differ, and the torn one is neither -/
example : readAll [(1, 0), (2, 0)] [1, 2] ≠ readAll (pingW 1 10 [(1, 0), (2, 0)]) [1, 2] := by decide
example : (runS ([(1, 0), (2, 0)], []) [readStamp 1, wlift (pingW 1 10), wlift (pingW 2 20), readStamp 2]).2 =
    [(1, some 0), (2, some 20)] := by decide

end Nsq.Props.C14Stamps
