import Nsq.Model.Restart
import Nsq.Proofs.Restart
import Nsq.Tie.Restart
/-
C05 — graceful shutdown and restart lose nothing.
Atomic model: Model/Life.lean + Model/Restart.lean (`cycle = reload ∘ closeAll`).
Shutdown racing in-progress operations: `RaceSt` micro-step model in Model/Restart.lean.
-/
namespace Nsq.Props.C05
open Nsq.Model Nsq.Model.Life Nsq.Model.Restart Nsq.Proofs.Restart Nsq.Proofs.Life

/-- 1. a graceful shutdown followed by a start on the same data path brings back every durable
topic and channel with its paused flag, and every message each channel was responsible for —
queued in memory or on disk, in flight (to a live or a departed consumer) or deferred — with
identical id, timestamp, attempts and body; likewise the topic's own queue. -/
theorem restart_preserves (s : St) (hwf : WF s) :
    persisted (cycle s) = persisted s ∧
    ∀ T ∈ s.topics, T.eph = false →
      ∃ T' ∈ (cycle s).topics, T'.name = T.name ∧ T'.paused = T.paused ∧ T'.eph = false ∧
        T'.queue = T.queue ∧
        ∀ C ∈ T.chans, C.eph = false →
          ∃ C' ∈ T'.chans, C'.name = C.name ∧ C'.paused = C.paused ∧ C'.eph = false ∧
            C'.located = C.located ∧ C'.inflight = [] ∧ C'.clients = [] := by
  refine ⟨persisted_reload s.memCap (closeAll s), ?_⟩
  intro T hT he
  let e : String × Bool × List (String × Bool) :=
    (T.name, T.paused, (T.chans.filter (fun C => !C.eph)).map (fun C => (C.name, C.paused)))
  have hmem : e ∈ (closeAll s).metadata := by
    show e ∈ persisted s
    unfold persisted
    exact List.mem_map.mpr ⟨T, List.mem_filter.mpr ⟨hT, by simp [he]⟩, rfl⟩
  refine ⟨reloadTopic (closeAll s).dq e, List.mem_map.mpr ⟨e, hmem, rfl⟩, rfl, rfl, rfl, ?_, ?_⟩
  · exact lookup_topic s T hT he hwf
  · intro C hC hce
    refine ⟨reloadChan (closeAll s).dq T.name (C.name, C.paused), ?_, rfl, rfl, rfl, ?_, rfl, rfl⟩
    · show _ ∈ (e.2.2.map (reloadChan (closeAll s).dq e.1))
      exact List.mem_map.mpr ⟨(C.name, C.paused),
        List.mem_map.mpr ⟨C, List.mem_filter.mpr ⟨hC, by simp [hce]⟩, rfl⟩, rfl⟩
    · show (lookupDQ (closeAll s).dq (T.name, some C.name) ++ ([] : List (Msg × Nat)).map (·.1) ++ []) = C.located
      simp only [List.map_nil, List.append_nil]
      exact lookup_chan s T C hT hC hce hwf

/-- names stay unique across a restart -/
theorem wf_cycle (s : St) (hwf : WF s) : WF (cycle s) := by
  constructor
  · show ((persisted s).map (reloadTopic (closeAll s).dq)).map (·.name) |>.Nodup
    unfold persisted
    simp only [List.map_map]
    have : ((fun T : Topic => T.name) ∘ reloadTopic (closeAll s).dq ∘ fun T : Topic =>
        (T.name, T.paused, (T.chans.filter (fun C => !C.eph)).map (fun C => (C.name, C.paused)))) = (·.name) := rfl
    rw [this]
    exact (List.Nodup.sublist (List.Sublist.map _ List.filter_sublist) hwf.1)
  · intro T' hT'
    obtain ⟨e, he, rfl⟩ := List.mem_map.mp hT'
    have he' : e ∈ persisted s := he
    unfold persisted at he'
    obtain ⟨T, hT, rfl⟩ := List.mem_map.mp he'
    have hT0 := (List.mem_filter.mp hT).1
    show ((((T.chans.filter (fun C => !C.eph)).map (fun C => (C.name, C.paused))).map
      (reloadChan (closeAll s).dq T.name)).map (·.name)).Nodup
    simp only [List.map_map]
    have : ((fun C : Chan => C.name) ∘ reloadChan (closeAll s).dq T.name ∘ fun C : Chan => (C.name, C.paused)) = (·.name) := rfl
    rw [this]
    exact (List.Nodup.sublist (List.Sublist.map _ List.filter_sublist) (hwf.2 T hT0))


/-- every state reachable from an empty daemon has unique names, so `restart_preserves` applies
after any history (and again after any history following a restart) -/
theorem wf_reachable (cap : Nat) (ops : List Op) : WF (run (init cap) ops) :=
  wf_run ops _ (wf_init cap)

/-- 3. a message finished (or never present) before the shutdown does not reappear -/
theorem finished_stay_finished (s : St) (hwf : WF s) (T : Topic) (hT : T ∈ s.topics) (he : T.eph = false)
    (C : Chan) (hC : C ∈ T.chans) (hce : C.eph = false) (id : Nat) (hfin : ∀ m ∈ C.located, m.id ≠ id) :
    ∃ T' ∈ (cycle s).topics, T'.name = T.name ∧ ∃ C' ∈ T'.chans, C'.name = C.name ∧
      ∀ m ∈ C'.located, m.id ≠ id := by
  obtain ⟨T', hT', hn, _, _, _, hch⟩ := (restart_preserves s hwf).2 T hT he
  obtain ⟨C', hC', hcn, _, _, hloc, _, _⟩ := hch C hC hce
  exact ⟨T', hT', hn, C', hC', hcn, by rw [hloc]; exact hfin⟩

/-- 2. the attempts count continues: a message that comes back from the disk queue carries the
attempts it had at shutdown (`restart_preserves` keeps the whole record), and its next delivery
is stamped `attempts + 1` -/
theorem attempts_continue (s : St) (t c : String) (k : Nat) (fm : Bool) (id : Nat) (C : Chan) (m : Msg) (rest : List Msg)
    (h : getChan s t c = some C) (hx : C.exiting = false) (hp : C.paused = false) (hk : hasClient C k = true)
    (hsrc : (if fm then C.memLen else C.diskLen) ≠ 0) (htake : takeId C.queue id = some (m, rest)) :
    ∃ C', getChan (step s (.deliver t c k fm id)).1 t c = some C' ∧
      ({ m with attempts := nextAttempts m.attempts }, k) ∈ C'.inflight := by
  let F : Chan → Chan := fun C =>
      { C with queue := rest, memLen := if fm then C.memLen - 1 else C.memLen,
               inflight := C.inflight ++ [({ m with attempts := nextAttempts m.attempts }, k)],
               clients := bumpClient C.clients k 1 }
  have e1 : (step s (.deliver t c k fm id)).1 = modChan s t c F := by
    simp [step, h, hx, hp, hk, hsrc, htake, F]
  rw [e1, getChan_modChan s t c F (fun _ => rfl), h]
  exact ⟨F C, rfl, by simp [F]⟩

/-- 6. `LoadMetadata` creates every channel of a topic before the topic's pump is started: the
first pump run after the reload hands the whole reloaded topic queue to every reloaded channel -/
theorem load_before_start (s : St) (T' : Topic) (hT' : T' ∈ (cycle s).topics) :
    (fanoutAll s.memCap T'.chans T'.queue).map (fun C => (C.name, C.queue)) =
      T'.chans.map (fun C => (C.name, C.queue ++ T'.queue)) := by
  rw [fanoutAll_eq, List.map_map]
  apply List.map_congr_left
  intro C hC
  obtain ⟨e, _, rfl⟩ := List.mem_map.mp hT'
  obtain ⟨ce, _, rfl⟩ := List.mem_map.mp hC
  have := foldl_put_durable s.memCap (reloadTopic (closeAll s).dq e).queue (reloadChan (closeAll s).dq e.1 ce) rfl rfl
  simp only [Function.comp, this.1, this.2.2.2]

/-- 4. a topic without channels keeps its queue across the restart (by `restart_preserves`) and
fans it out completely to a channel created later -/
theorem zero_channel_topic (s : St) (hwf : WF s) (T : Topic) (hT : T ∈ s.topics) (he : T.eph = false)
    (h0 : T.chans = []) (c : String) :
    ∃ T' ∈ (cycle s).topics, T'.name = T.name ∧ T'.queue = T.queue ∧ T'.chans = [] ∧
      (fanoutAll s.memCap [newChan c false] T'.queue).map (·.queue) = [T.queue] := by
  obtain ⟨T', hT', hn, _, _, hq, _⟩ := (restart_preserves s hwf).2 T hT he
  refine ⟨T', hT', hn, hq, ?_, ?_⟩
  · obtain ⟨e, he', rfl⟩ := List.mem_map.mp hT'
    have he'' : e ∈ persisted s := he'
    unfold persisted at he''
    obtain ⟨X, hX, rfl⟩ := List.mem_map.mp he''
    have hXT : X = T := inj_of_nodup_names s.topics hwf.1 (List.mem_filter.mp hX).1 hT hn
    subst hXT
    simp [reloadTopic, h0]
  · rw [fanoutAll_eq]
    have := (foldl_put_durable s.memCap T'.queue (newChan c false) rfl rfl).1
    simpa [newChan, hq] using this

def cycles : Nat → St → St
  | 0, s => s
  | n + 1, s => cycles n (cycle s)

/-- 5. any number of restart cycles: topics, channels, paused flags and every channel's messages
are those of the state before the first shutdown (histories between the cycles are covered by
`wf_reachable`: `restart_preserves` holds at every later shutdown as well) -/
theorem restart_cycles (n : Nat) : ∀ (s : St), WF s →
    WF (cycles (n + 1) s) ∧ persisted (cycles (n + 1) s) = persisted s ∧
    ∀ T ∈ s.topics, T.eph = false →
      ∃ T' ∈ (cycles (n + 1) s).topics, T'.name = T.name ∧ T'.paused = T.paused ∧ T'.queue = T.queue ∧
        ∀ C ∈ T.chans, C.eph = false →
          ∃ C' ∈ T'.chans, C'.name = C.name ∧ C'.paused = C.paused ∧ C'.located = C.located := by
  induction n with
  | zero =>
    intro s hwf
    refine ⟨wf_cycle s hwf, (restart_preserves s hwf).1, ?_⟩
    intro T hT he
    obtain ⟨T', hT', h1, h2, _, h4, h5⟩ := (restart_preserves s hwf).2 T hT he
    refine ⟨T', hT', h1, h2, h4, ?_⟩
    intro C hC hce
    obtain ⟨C', hC', g1, g2, _, g4, _, _⟩ := h5 C hC hce
    exact ⟨C', hC', g1, g2, g4⟩
  | succ n ih =>
    intro s hwf
    have hw1 := wf_cycle s hwf
    obtain ⟨i1, i2, i3⟩ := ih (cycle s) hw1
    refine ⟨i1, by rw [show cycles (n + 1 + 1) s = cycles (n + 1) (cycle s) from rfl, i2]; exact (restart_preserves s hwf).1, ?_⟩
    intro T hT he
    obtain ⟨T', hT', h1, h2, h3, h4, h5⟩ := (restart_preserves s hwf).2 T hT he
    obtain ⟨T'', hT'', k1, k2, k4, k5⟩ := i3 T' hT' h3
    refine ⟨T'', hT'', by rw [k1, h1], by rw [k2, h2], by rw [k4, h4], ?_⟩
    intro C hC hce
    obtain ⟨C', hC', g1, g2, g3, g4, _, _⟩ := h5 C hC hce
    obtain ⟨C'', hC'', j1, j2, j4⟩ := k5 C' hC' g3
    exact ⟨C'', hC'', by rw [j1, g1], by rw [j2, g2], by rw [j4, g4]⟩

/-! ## shutdown requested at any point (micro-steps)

`{}` = the tree without any repair (scans hold the exit lock, answers and publishers do not);
`fixedTree` = with F17 (topic-exit barrier) and F18 (REQ/TOUCH hold the exit lock);
`joinedTree` = also F23 (Exit joins the handlers and their pumps) and F26 (GetTopic hands out a closed topic during Exit).
All four are committed to /repo: the ties `topic_exit_flag_shape`, `answers_exit_lock_shape`, `exit_joins_pumps_shape`,
`get_topic_exit_shape` demand exactly the committed shapes and `tree_model_known : treeModel = joinedTree`.
`C05_full_tree` (= `C05_full_joined`) is the theorem for the current tree; `C05_full_false`, `C05_full_fixed_false`,
`each_repair_needed` are theorems about the unrepaired shapes; every witness schedule is replayed on the real code with the
hooks (a reproduction is a VIOLATION). -/

/-- the full claim: whatever the interleaving of the shutdown with publishers, answers and consumer
pumps, once everything has run to its end every acknowledged, un-FINished message is on a disk queue -/
def C05_full : Prop :=
  ∀ (sched : List RaceStep) (s : RaceSt), raceRun {} sched = some s → raceDone s = true → allAckedOnDisk s = true

/-- … and the same claim for the tree with both repairs -/
def C05_full_fixed : Prop :=
  ∀ (sched : List RaceStep) (s : RaceSt), raceRun fixedTree sched = some s → raceDone s = true → allAckedOnDisk s = true

/-- audit A1: Exit has closed the topics it found; a publisher's `GetTopic` (it waited for the NSQD lock) creates a
second topic and its publish is acknowledged; nobody flushes that topic (`exit_races_new_topic_publish`) -/
def witnessNewTopic : List RaceStep := [.exitFlag, .exitChan, .exitTopicFlush, .pubNewTopic 1]

/-- F9 (a): the consumer pump has taken m off the channel queue and not yet registered it in
flight (`proto.pump.afterRecv`) when `Channel.flush` runs: m reaches neither disk nor a consumer -/
def witnessPump : List RaceStep :=
  [.pubCheck 1, .pubSend 1, .fanout, .pumpRecv, .exitFlag, .exitChan, .exitTopicFlush, .pumpRegister 1]

/-- F9 (b): a publisher passed the exitFlag test (`topic.put.afterExitCheck`), the topic is flushed
and closed, then the publisher's send lands in the memory channel and is acknowledged -/
def witnessPublish : List RaceStep :=
  [.pubCheck 1, .exitFlag, .exitChan, .exitTopicFlush, .pubSend 1]

/-- F18 (a): REQ 0 has taken m out of the in-flight map (`chan.req.afterPop`), the channel is flushed
and closed, then REQ sees `Exiting()` and returns an error: m is in no container -/
def witnessReq : List RaceStep :=
  [.pubCheck 1, .pubSend 1, .fanout, .pumpRecv, .pumpRegister 1, .ansTake 1, .exitFlag, .exitChan, .exitTopicFlush, .reqPut 1]

/-- F18 (b): deferred REQ: m lands in the deferred map of a closed channel -/
def witnessReqDeferred : List RaceStep :=
  [.pubCheck 1, .pubSend 1, .fanout, .pumpRecv, .pumpRegister 1, .ansTake 1, .exitFlag, .exitChan, .exitTopicFlush, .reqDefer 1]

/-- F18 (c): TOUCH (`chan.touch.afterPop`): m lands back in the in-flight map of a closed channel -/
def witnessTouch : List RaceStep :=
  [.pubCheck 1, .pubSend 1, .fanout, .pumpRecv, .pumpRegister 1, .ansTake 1, .exitFlag, .exitChan, .exitTopicFlush, .touchPut 1]

def lostFrom (s0 : RaceSt) (sched : List RaceStep) : Bool :=
  match raceRun s0 sched with
  | some s => raceDone s && !allAckedOnDisk s
  | none => false

def lost (sched : List RaceStep) : Bool := lostFrom {} sched

theorem witnessPump_loses : lost witnessPump = true := by decide
theorem witnessPublish_loses : lost witnessPublish = true := by decide
theorem witnessReq_loses : lost witnessReq = true ∧ lost witnessReqDeferred = true ∧ lost witnessTouch = true := by decide

theorem lostFrom_refutes (s0 : RaceSt) (w : List RaceStep) (hl : lostFrom s0 w = true) :
    ¬ ∀ (sched : List RaceStep) (s : RaceSt), raceRun s0 sched = some s → raceDone s = true → allAckedOnDisk s = true := by
  intro h
  unfold lostFrom at hl
  cases hr : raceRun s0 w with
  | none => rw [hr] at hl; cases hl
  | some s =>
    rw [hr] at hl
    simp only [Bool.and_eq_true, Bool.not_eq_true'] at hl
    have := h w s hr hl.1
    rw [this] at hl
    cases hl.2

theorem C05_full_false : ¬ C05_full := lostFrom_refutes {} witnessPump witnessPump_loses

/-- the pump window stays open with both repairs: it is the only one (see `fixed_tree_loses_only_pump_window`) -/
theorem C05_full_fixed_false : ¬ C05_full_fixed :=
  lostFrom_refutes fixedTree witnessPump (by decide)

/-- with the barrier the publish witness is not a schedule any more (`Topic.exit` cannot set the flag
while the publisher holds the read lock), and neither are the three answer witnesses with the exit lock
held by REQ / TOUCH; each repair alone closes its own window -/
theorem repaired_witnesses_impossible :
    raceRun fixedTree witnessPublish = none ∧ raceRun { topicBarrier := true } witnessPublish = none ∧
    raceRun fixedTree witnessReq = none ∧ raceRun fixedTree witnessReqDeferred = none ∧
    raceRun fixedTree witnessTouch = none ∧ raceRun { ansLock := true } witnessReq = none ∧
    raceRun { ansLock := true } witnessReqDeferred = none ∧ raceRun { ansLock := true } witnessTouch = none := by decide

/-- the same interleavings with the waiting made explicit (the shutdown step comes after the parked
goroutine has finished) lose nothing on the repaired tree -/
theorem repaired_orders_safe :
    lostFrom fixedTree [.pubCheck 1, .pubSend 1, .exitFlag, .exitChan, .exitTopicFlush] = false ∧
    lostFrom fixedTree [.pubCheck 1, .pubSend 1, .fanout, .pumpRecv, .pumpRegister 1, .ansTake 1, .exitFlag, .reqPut 1,
      .exitChan, .exitTopicFlush] = false ∧
    (raceRun fixedTree [.pubCheck 1, .pubSend 1, .fanout, .pumpRecv, .pumpRegister 1, .ansTake 1, .exitFlag, .reqPut 1,
      .exitChan, .exitTopicFlush]).map (fun s => (raceDone s, s.chanDisk)) = some (true, [1]) := by decide

/-- **F17 + F18**: on the repaired tree, whatever the schedule, once the shutdown has completed and every
goroutine has run to its end, every acknowledged message is on a disk queue, was FINished, or was
registered in flight by a consumer pump *after* its channel had been flushed — the one window left -/
theorem fixed_tree_loses_only_pump_window (sched : List RaceStep) (s : RaceSt)
    (h : raceRun fixedTree sched = some s) (hd : raceDone s = true) :
    ∀ m ∈ s.acked, m ∈ s.topicDisk ∨ m ∈ s.chanDisk ∨ m ∈ s.finished ∨ m ∈ s.lateReg ∨ m ∈ s.lateTopic := by
  have inv := fixedInv_run sched fixedTree s fixedInv_init h
  simp only [raceDone, Bool.and_eq_true, List.isEmpty_iff] at hd
  obtain ⟨⟨⟨⟨htc, _⟩, hph⟩, _⟩, _⟩ := hd
  have hcc := inv.tc htc
  intro m hm
  have := inv.safe m hm
  unfold Safe at this
  rw [hph, htc, hcc] at this
  simpa using this

/-- `C05_fixed_partial`: hypothesis forced by `C05_full_fixed_false` — no consumer pump registered a message
after its channel was flushed.  Then the repaired tree loses nothing, for every schedule. -/
theorem C05_fixed_partial (sched : List RaceStep) (s : RaceSt)
    (h : raceRun fixedTree sched = some s) (hd : raceDone s = true) (hl : s.lateReg = []) (hlt : s.lateTopic = []) :
    allAckedOnDisk s = true := by
  unfold allAckedOnDisk
  rw [List.all_eq_true]
  intro m hm
  have := fixed_tree_loses_only_pump_window sched s h hd m hm
  rw [hl, hlt] at this
  simp only [Bool.or_eq_true, List.contains_eq_mem, decide_eq_true_eq]
  rcases this with h1 | h1 | h1 | h1 | h1
  · exact Or.inl (Or.inl h1)
  · exact Or.inl (Or.inr h1)
  · exact Or.inr h1
  · cases h1
  · cases h1

/-- **F17 + F18 + F23 + F26** (`joinedTree`: `NSQD.Exit` joins every connection handler and its messagePump before
it closes the topics, and `GetTopic` hands out a closed topic once `isExiting` is set): the last two windows are closed — whatever the schedule, once the shutdown has completed and
every goroutine has run to its end, every acknowledged message is on a disk queue or was FINished.  This is
`C05_full_fixed` without any hypothesis, for the tree with the three repairs. -/
theorem C05_full_joined (sched : List RaceStep) (s : RaceSt)
    (h : raceRun joinedTree sched = some s) (hd : raceDone s = true) : allAckedOnDisk s = true := by
  have inv := joinInv_run sched joinedTree s joinInv_init h
  simp only [raceDone, Bool.and_eq_true, List.isEmpty_iff] at hd
  obtain ⟨⟨⟨⟨htc, _⟩, hph⟩, _⟩, _⟩ := hd
  have hcc := inv.fixed.tc htc
  unfold allAckedOnDisk
  rw [List.all_eq_true]
  intro m hm
  have := inv.fixed.safe m hm
  unfold Safe at this
  rw [hph, htc, hcc, inv.late, inv.lt] at this
  simp only [Bool.or_eq_true, List.contains_eq_mem, decide_eq_true_eq]
  simp at this
  rcases this with h1 | h1 | h1
  · exact Or.inl (Or.inl h1)
  · exact Or.inl (Or.inr h1)
  · exact Or.inr h1

/-- **THE theorem for the current tree**: the race-model instance the regenerated facts select (`Tie.Restart.treeModel`,
pinned to `joinedTree` by `tree_model_known` now that F17, F18, F23, F26 are committed) loses nothing, whatever the
schedule — no hypothesis.  A tree that drops one of the four repairs changes `treeModel`, `tree_model_known` fails and this
statement is no longer about it (its `_false` witness below is, and the hook replay of that window is a VIOLATION). -/
theorem C05_full_tree (sched : List RaceStep) (s : RaceSt)
    (h : raceRun Nsq.Tie.Restart.treeModel sched = some s) (hd : raceDone s = true) : allAckedOnDisk s = true := by
  rw [Nsq.Tie.Restart.tree_model_known] at h
  exact C05_full_joined sched s h hd

/-- every one of the four repairs is needed: dropping exactly one from `joinedTree` re-opens its window (the `_false`
witnesses of the unrepaired shapes, as theorems about those shapes) -/
theorem each_repair_needed :
    lostFrom { joinedTree with topicBarrier := false } witnessPublish = true ∧
    lostFrom { joinedTree with ansLock := false } witnessReq = true ∧
    lostFrom { joinedTree with ansLock := false } witnessReqDeferred = true ∧
    lostFrom { joinedTree with ansLock := false } witnessTouch = true ∧
    lostFrom { joinedTree with pumpJoin := false } witnessPump = true ∧
    lostFrom { joinedTree with newTopicGuard := false } witnessNewTopic = true := by decide

/-- on that tree the pump witness is not a schedule (the topics are not closed while a pump holds a message),
after the shutdown has begun no pump takes anything, and the interleaving with the waiting made explicit loses
nothing; F23 alone does not repair the other two windows -/
theorem joined_witness_impossible :
    raceRun joinedTree witnessPump = none ∧
    raceRun joinedTree [.pubCheck 1, .pubSend 1, .fanout, .exitFlag, .pumpRecv] = none ∧
    lostFrom joinedTree [.pubCheck 1, .pubSend 1, .fanout, .pumpRecv, .pumpRegister 1, .exitFlag, .exitChan, .exitTopicFlush] = false ∧
    lostFrom { pumpJoin := true } witnessPublish = true ∧ lostFrom { pumpJoin := true } witnessReq = true ∧
    -- audit A1: a publish that creates its topic after Exit's critical section is acknowledged and never flushed,
    -- unless GetTopic refuses (F26); F23 and F26 each leave the other window open
    lostFrom fixedTree witnessNewTopic = true ∧ lostFrom { fixedTree with pumpJoin := true } witnessNewTopic = true ∧
    lostFrom { fixedTree with newTopicGuard := true } witnessPump = true ∧
    lostFrom joinedTree witnessNewTopic = false := by decide

/-- **F17 alone** (whatever the channel-side parameters, from any initial parameter choice with the
barrier): every acknowledged message is on the topic's disk queue or was handed to the channel by the
topic pump — nothing is left in the memory queue of a closed topic -/
theorem barrier_topic_side_safe (s0 : RaceSt) (hb : s0.topicBarrier = true)
    (he : s0.topicExiting = false) (hc : s0.chanClosed = false) (ht : s0.topicClosed = false) (ha : s0.acked = [])
    (sched : List RaceStep) (s : RaceSt) (h : raceRun s0 sched = some s) (hd : s.topicClosed = true) :
    ∀ m ∈ s.acked, m ∈ s.topicDisk ∨ m ∈ s.fanned ∨ m ∈ s.lateTopic := by
  have i0 : BarrierInv s0 :=
    { bar := hb
      safe := by intro m hm; rw [ha] at hm; cases hm
      pend := by intro h; rw [he] at h; cases h
      ce := by intro h; rw [hc] at h; cases h
      tc := by intro h; rw [ht] at h; cases h }
  have inv := barrierInv_run sched s0 s i0 h
  intro m hm
  rcases inv.safe m hm with h1 | h1 | h1 | h1
  · exact Or.inl h1
  · exact Or.inr (Or.inl h1)
  · exact Or.inr (Or.inr h1)
  · rw [hd] at h1; cases h1.1

/-- the state after the three stages of a shutdown that nothing interleaves with -/
def exited (s : RaceSt) : RaceSt :=
  { s with topicExiting := true, chanDisk := s.chanDisk ++ s.chanMem ++ s.inflight ++ s.deferred, chanMem := [], chanClosed := true,
           topicDisk := s.topicDisk ++ s.topicMem, topicMem := [], topicClosed := true }

/-- `C05_partial` (any tree whose scans hold the exit lock, in particular the unrepaired one): a shutdown
that starts when no publisher is between the exit check and its queue write, no consumer pump holds an
unregistered message and no REQ / TOUCH / scan is between its two halves (and runs its three stages
without such a continuation appearing) leaves every acknowledged, un-FINished message on disk
(`hlt`: nothing was acknowledged into a topic created after an earlier shutdown's critical section — `pubNewTopic`
needs `topicExiting`, so this holds in every state reached before the shutdown begins) -/
theorem C05_partial (s : RaceSt) (hinv : RaceInv s) (hp : s.putPending = []) (hh : s.pumpHolds = [])
    (hsc : s.scanHolds = []) (ha : s.ansHolds = []) (hlt : s.lateTopic = [])
    (he : s.topicExiting = false) (hc : s.chanClosed = false) (ht : s.topicClosed = false) :
    raceRun s [.exitFlag, .exitChan, .exitTopicFlush] = some (exited s) ∧
      allAckedOnDisk (exited s) = true ∧ raceDone (exited s) = true := by
  refine ⟨by simp [raceRun, raceStep, he, hc, ht, hsc, ha, hp, hh, exited], ?_, ?_⟩
  · unfold allAckedOnDisk exited
    rw [List.all_eq_true]
    intro m hm
    have := hinv.2.1 hc m hm
    unfold Located at this
    simp only [hh, hsc, ha, hlt, List.not_mem_nil, or_false, false_or] at this
    simp only [Bool.or_eq_true, List.contains_eq_mem, List.mem_append, decide_eq_true_eq]
    rcases this with h1 | h1 | h1 | h1 | h1 | h1 | h1 <;> simp [h1]
  · simp [raceDone, exited, hp, hh, hsc, ha]

/-- shutdown racing the timeout scan is **safe** on the tree as it is: the scan holds `exitMutex.RLock`
from before it takes a message out of the in-flight map until it has put it back (tie
`scan_holds_exit_lock`), so in every reachable state a closed channel means no scan holds a message —
a timed-out message is never dropped by the "exiting" path -/
theorem scan_race_safe (sched : List RaceStep) (s : RaceSt) (h : raceRun {} sched = some s)
    (hc : s.chanClosed = true) : s.scanHolds = [] :=
  (raceInv_run sched {} s (raceInv_init {} rfl rfl rfl) h).2.2 hc

/-- … and the lock is what makes it safe: without it (`scanLock := false`, e.g. taking exitMutex only
around the final requeue) the channel can close while the scan holds the message and it is lost -/
def witnessScanUnlocked : List RaceStep :=
  [.pubCheck 1, .pubSend 1, .fanout, .pumpRecv, .pumpRegister 1, .scanTake 1, .exitFlag, .exitChan, .exitTopicFlush, .scanPut 1]

theorem scan_lock_needed :
    lostFrom { scanLock := false } witnessScanUnlocked = true ∧
    raceRun {} witnessScanUnlocked = none := by decide

/-- a `PersistMetadata` that runs after the topics have been closed (a Notify still pending when
`Exit` took the lock) writes the same metadata: the listing does not look at exit flags (tie
`metadata_ignores_exit_flag`) -/
def markExiting (s : St) : St :=
  { s with topics := s.topics.map (fun T => { T with chans := T.chans.map (fun C => { C with exiting := true }) }) }

theorem persisted_ignores_exiting (s : St) : persisted (markExiting s) = persisted s := by
  unfold persisted markExiting
  simp only [List.filter_map, List.map_map]
  congr 1
  · funext T
    simp only [Function.comp, List.filter_map, List.map_map]
    rfl

/-- the invariant used by `C05_partial` holds in every reachable state of the race model -/
theorem race_inv_reachable (sched : List RaceStep) (s : RaceSt) (h : raceRun {} sched = some s) : RaceInv s :=
  raceInv_run sched {} s (raceInv_init {} rfl rfl rfl) h

/-! ### non-vacuity -/

def mA : Msg := { id := 21, ts := 7, attempts := 0, body := [9] }
def mB : Msg := { id := 22, ts := 8, attempts := 0, body := [] }
def mC : Msg := { id := 23, ts := 9, attempts := 0, body := [1, 2, 3] }

/-- durable topic `t` (paused channel `c`: mA in flight to consumer 7 with attempts 1, mB deferred,
mC queued on disk), an ephemeral channel, a zero-channel topic `z` with a backlog -/
def demo : St :=
  run (init 1) [.createTopic "t" false, .createChan "t" "c" false, .createChan "t" "e#" true,
    .createTopic "z" false, .pub "z" mA, .pub "z" mB,
    .sub "t" "c" 7, .pub "t" mA, .pump "t", .pub "t" mB, .pump "t", .pub "t" mC, .pump "t",
    .deliver "t" "c" 7 true 21, .deliver "t" "c" 7 false 22, .req "t" "c" 7 22 true, .pauseChan "t" "c" true]

example : WF demo := wf_reachable 1 _
example : (getChan demo "t" "c").map (fun C => (C.inflight.map (fun e => (e.1.id, e.1.attempts)), C.deferred.map (·.id), C.queue.map (·.id), C.paused)) =
    some ([(21, 1)], [22], [23], true) := by decide
example : (getChan (cycle demo) "t" "c").map (fun C => (C.located.map (fun m => (m.id, m.attempts, m.body)), C.paused, C.memLen)) =
    some ([(23, 0, [1, 2, 3]), (21, 1, [9]), (22, 1, [])], true, 0) := by decide
example : persisted (cycle demo) = [("t", false, [("c", true)]), ("z", false, [])] := by decide
example : (getTopic (cycle demo) "z").map (fun T => T.queue.map (·.id)) = some [21, 22] := by decide
example : (getChan (cycle demo) "t" "e#") = none := by decide
example : persisted (cycles 3 demo) = persisted demo ∧
    (getChan (cycles 3 demo) "t" "c").map (·.located) = (getChan (cycle demo) "t" "c").map (·.located) := by decide
/-- the hypotheses of `C05_partial` hold in a non-trivial reachable race state (one message queued
in the channel, one still in the topic) -/
example : ∃ s, raceRun {} [.pubCheck 1, .pubSend 1, .fanout, .pubCheck 2, .pubSend 2] = some s ∧
    s.putPending = [] ∧ s.pumpHolds = [] ∧ s.topicExiting = false ∧ s.acked = [2, 1] := ⟨_, rfl, rfl, rfl, rfl, rfl⟩
/-- `fixed_tree_loses_only_pump_window` / `C05_fixed_partial` are not vacuous: a complete shutdown of the repaired
tree racing a publisher, a deferred REQ, a TOUCH, a FIN, a timeout scan and a disk-queue receive; everything ends on disk -/
def fixedDemo : List RaceStep :=
  [.pubCheck 1, .pubSend 1, .pubCheck 2, .pubSend 2, .pubCheck 3, .pubSend 3, .pubCheck 4, .pubSend 4, .pubCheck 5,
   .fanout, .fanout, .fanout, .pumpRecv, .pumpRegister 1, .pumpRecv, .pumpRegister 2, .pumpRecv, .pumpRegister 3,
   .ansTake 1, .pubSend 5, .exitFlag, .pubCheck 6, .reqDefer 1, .ansTake 2, .touchPut 2, .fin 3, .scanTake 2, .scanPut 2,
   .exitChan, .exitTopicFlush]
example : (raceRun fixedTree fixedDemo).map (fun s => (raceDone s, s.lateReg, s.acked, s.topicDisk, s.chanDisk, s.finished, allAckedOnDisk s)) =
    some (true, [], [5, 4, 3, 2, 1], [4, 5], [2, 1], [3], true) := by rfl
/-- … and the window that stays: same tree, the pump registers after the flush -/
example : (raceRun fixedTree witnessPump).map (fun s => (raceDone s, s.lateReg, allAckedOnDisk s)) = some (true, [1], false) := by decide
example : (raceRun { topicBarrier := true } [.pubCheck 1, .pubSend 1, .pubCheck 2, .pubSend 2, .fanout, .exitFlag, .exitChan, .exitTopicFlush]).map
    (fun s => (s.topicClosed, s.acked, s.topicDisk, s.fanned)) = some (true, [2, 1], [2], [1]) := by decide

/-- `C05_full_tree` is not vacuous: the complete shutdown `fixedDemo` is a schedule of the tree's own instance -/
example : (raceRun Nsq.Tie.Restart.treeModel fixedDemo).map (fun s => (raceDone s, s.acked, allAckedOnDisk s)) =
    some (true, [5, 4, 3, 2, 1], true) := by rw [Nsq.Tie.Restart.tree_model_known]; rfl

/-- `C05_full_joined` is not vacuous: the same complete shutdown on the tree with F23 -/
example : (raceRun joinedTree fixedDemo).map (fun s => (raceDone s, s.lateReg, s.acked, s.topicDisk, s.chanDisk, s.finished, allAckedOnDisk s)) =
    some (true, [], [5, 4, 3, 2, 1], [4, 5], [2, 1], [3], true) := by rfl

end Nsq.Props.C05
