import Nsq.Props.C20
import Nsq.Gen.ToolsRelay
/-!
C20, decision of finding `gives-up-after-max-attempts` for the relays: behind go-nsq's `handlerLoop` the
statement "a Finish always has an accepted request (or sampling) behind it" holds **iff** the consumer runs with
`max_attempts = 0`. The value `main()` of nsq_to_http / nsq_to_nsq runs with is regenerated from the source
(`Nsq.Gen.ToolsRelay.n2hMaxAttempts`, `n2nMaxAttempts`; tie `Nsq.Tie.ToolsRelay.relays_run_with_library_default`).
No repair is proposed for the relays (see docs/C20.md): unlike nsq_to_file their handlers do fail messages
(REQ with back-off), so `max_attempts = 0` would turn one poison message into a permanent back-off of the
whole consumer; giving up after N attempts is go-nsq's documented policy and `--consumer-opt max_attempts,0`
is the operator's switch.
-/
namespace Nsq.Props.C20GiveUp
open Nsq.Model.Relay Nsq.Model.Relay.Http

/-- tool-level statement for a consumer configured with `max_attempts = k` -/
def relaySafeAt (k : Nat) : Prop :=
  ∀ (c : Cfg), c.naddr ≠ 0 → ∀ (attempts counter : Nat) (m : Msg) (so : Bool) (pick : Nat) (resp : Nat → Option Nat),
    Out.fin m.id ∈ (consume c k attempts counter m so pick resp).2 →
      (c.sampling = true ∧ so = true) ∨ ∃ a, Out.request a m.body true ∈ (consume c k attempts counter m so pick resp).2

theorem relay_safe_without_giveup : relaySafeAt 0 := by
  intro c hn attempts counter m so pick resp hfin
  exact Nsq.Props.C20.tool_fin_only_after_accept_partial c hn 0 attempts counter m so pick resp (by simp [shouldFail]) hfin

theorem relay_unsafe_with_giveup (k : Nat) (hk : 0 < k) : ¬ relaySafeAt k := by
  intro h
  have hs : shouldFail k (k + 1) = true := by simp [shouldFail, hk]
  have hw : (consume ⟨.roundRobin, 1, true, false⟩ k (k + 1) 0 ⟨7, [1]⟩ false 0 (fun _ => some 500)).2 = [Out.fin 7] := by
    simp [consume, hs]
  have := h ⟨.roundRobin, 1, true, false⟩ (by decide) (k + 1) 0 ⟨7, [1]⟩ false 0 (fun _ => some 500) (by rw [hw]; simp)
  rw [hw] at this
  cases this with
  | inl h => cases h.1
  | inr h => obtain ⟨a, ha⟩ := h; simp at ha

/-- **decision**: the relay acknowledges only after acceptance iff the library never gives up -/
theorem relay_safe_iff (k : Nat) : relaySafeAt k ↔ k = 0 := by
  constructor
  · intro h
    cases k with
    | zero => rfl
    | succ n => exact absurd h (relay_unsafe_with_giveup (n + 1) (Nat.succ_pos n))
  · rintro rfl; exact relay_safe_without_giveup

/-- instantiated with the regenerated configuration of the shipped tools -/
theorem shipped_relays_safe_iff :
    (relaySafeAt Nsq.Gen.ToolsRelay.n2hMaxAttempts ↔ Nsq.Gen.ToolsRelay.n2hMaxAttempts = 0)
    ∧ (relaySafeAt Nsq.Gen.ToolsRelay.n2nMaxAttempts ↔ Nsq.Gen.ToolsRelay.n2nMaxAttempts = 0) :=
  ⟨relay_safe_iff _, relay_safe_iff _⟩

example : ¬ relaySafeAt 5 := relay_unsafe_with_giveup 5 (by decide)
example : (consume ⟨.roundRobin, 1, true, false⟩ 0 6 0 ⟨7, [1]⟩ false 0 (fun _ => some 500)).2
    = [Out.request 0 [1] false, Out.req 7] := by decide

end Nsq.Props.C20GiveUp
