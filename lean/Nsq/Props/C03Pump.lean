/-
C03 — the output-buffer clause: "Only messages already written to the connection's output buffer
when a RDY decrease, CLS or pause takes effect may still arrive (within the output-buffer timeout);
nothing newer is sent."  Model: `Nsq.Model.Pump` (one connection's `messagePump` at loop-iteration
granularity with `flushed`, `flusherChan`, the one-shot `SubEventChan` / `IdentifyEventChan`, the
heartbeat, the `sample_rate` draw, `ReadyStateChan`, and the bufio writer / socket of the
connection, shared with the IOLoop's responses).

"Takes effect" = the pump's next evaluation of `IsReadyForMessages` at the head of its loop (`top`);
between the change of the atomics and that evaluation at most ONE message can still be received
(`one_recv_per_guard`; the overshoot of `Nsq.Props.C03.overshoot_le_one`).
All theorems: every reachable state (`Reachable` = any op list from the initial pump state; steps of
the IOLoop and of whoever changes RDY / in-flight count / pause interleave freely).
-/
import Nsq.Proofs.Pump
namespace Nsq.Props.C03Pump
open Nsq.Model.Pump Nsq.Proofs.Pump

def Reachable (s : PState) : Prop := ∃ ops, s = run {} ops

theorem reachable_inv {s : PState} (h : Reachable s) : PInv s := by
  obtain ⟨ops, rfl⟩ := h
  exact run_inv {} inv_init ops

/-- `flushed = true` really means "nothing buffered": the bufio writer is empty -/
theorem flushed_means_empty {s : PState} (h : Reachable s) (hf : s.flushed = true) : s.buf = [] :=
  (reachable_inv h).empty hf

/-- the stream of frames written on the connection is append-only: every step appends at most one
frame (`recv`: the next message; `heartbeat`; `respond`) and never drops, reorders or rewrites what was
written — flushing only moves the boundary between socket and buffer -/
theorem append_only (s : PState) (op : Op) : written (step s op).1 = written s ++ appended s op :=
  step_written s op

theorem top_ok {s : PState} (h : (step s .top).2 = .ok) : s.exited = false ∧ s.inSelect = false := by
  simp only [step] at h
  cases hx : s.exited <;> cases hs : s.inSelect <;> simp [hx, hs] at h ⊢

theorem top_notready {s : PState} (hx : s.exited = false) (hs : s.inSelect = false)
    (hg : (!s.sub || !ready s) = true) :
    step s .top = ({ flush s with qArmed := false, fArmed := false, flushed := true, inSelect := true }, .ok) := by
  simp [step, hx, hs, hg]

theorem top_ready_unflushed {s : PState} (hx : s.exited = false) (hs : s.inSelect = false)
    (hg : (!s.sub || !ready s) = false) (hfl : s.flushed = false) :
    step s .top = ({ s with qArmed := true, fArmed := true, inSelect := true }, .ok) := by
  simp [step, hx, hs, hg, hfl]

/-- a message is written only by a `recv` step, which needs the queue cases armed … -/
theorem recv_needs_armed (s : PState) (h : (step s .recv).2 = .ok) : s.inSelect = true ∧ s.qArmed = true := by
  simp only [step] at h
  split at h
  · cases h
  · split at h
    · cases h
    · rename_i h1 h2
      exact ⟨by simpa using h1, by simpa using h2⟩

/-- … and they are armed only by an evaluation of the guard that found the consumer subscribed
and ready (`IsReadyForMessages`: not paused, RDY > 0, in flight < RDY) -/
theorem armed_iff_guard (s : PState) (h : (step s .top).2 = .ok) :
    (step s .top).1.qArmed = (s.sub && ready s) := by
  simp only [step] at h ⊢
  split
  · rename_i h1; simp [h1] at h
  · split
    · rename_i h1 h2; simp [h1, h2] at h
    · split
      · rename_i hg
        have : (s.sub && ready s) = false := by
          cases hs : s.sub <;> cases hr : ready s <;> simp [hs, hr] at hg ⊢
        simp [this]
      · rename_i hg
        have : (s.sub && ready s) = true := by
          cases hs : s.sub <;> cases hr : ready s <;> simp [hs, hr] at hg ⊢
        split <;> simp [this]

/-- one message per guard evaluation: after a `recv` the pump is back at the head of its loop -/
theorem one_recv_per_guard (s : PState) (h : (step s .recv).2 = .ok) :
    (step (step s .recv).1 .recv).2 ≠ .ok := by
  obtain ⟨h1, h2⟩ := recv_needs_armed s h
  intro h'
  have := (recv_needs_armed _ h').1
  simp [step, h1, h2] at this

/-- **when the decrease takes effect**: the evaluation of the guard that finds "not ready"
(RDY 0 / CLS / RDY ≤ in flight / pause / not subscribed) switches the queue cases and the flusher
off and force-flushes: everything written before is on the socket, the buffer is empty -/
theorem not_ready_flushes_and_disarms (s : PState) (h : (step s .top).2 = .ok)
    (hg : (s.sub && ready s) = false) :
    (step s .top).1.qArmed = false ∧ (step s .top).1.fArmed = false ∧ (step s .top).1.buf = [] ∧
    (step s .top).1.wire.flatten = written s := by
  have hg' : (!s.sub || !ready s) = true := by
    cases hs : s.sub <;> cases hr : ready s <;> simp [hs, hr] at hg ⊢
  obtain ⟨hx, hs⟩ := top_ok h
  rw [top_notready hx hs hg']
  refine ⟨rfl, rfl, flush_buf s, ?_⟩
  show (flush s).wire.flatten = _
  rw [flush_wire]; rfl

/-- **nothing newer is sent**: from a state in which the queue cases are off (e.g. right after
`not_ready_flushes_and_disarms`), along ANY continuation in which every evaluation of the guard
finds "not ready" — whatever else happens: responses, heartbeats, flusher ticks, identify, RDY /
pause changes that keep it not ready at those moments — no message frame is written: the message
frames on socket + buffer are exactly those from before -/
theorem nothing_newer (s : PState) (ops : List Op) (hd : Disarmed s) (hq : quietRun s ops) :
    (run s ops).sent = s.sent ∧
    (written (run s ops)).filter Frame.isMsg = (written s).filter Frame.isMsg :=
  quiet_run ops s hd hq

/-- **flushed by the next flusher tick or earlier**: a frame sitting in the buffer of a reachable
state is on the socket after the pump's next guard evaluation (not ready ⇒ forced flush), or the pump
sits in its `select` with the flusher case armed — then, if the output-buffer ticker runs
(`output_buffer_timeout` not disabled), its tick is accepted and puts the frame on the socket.
(Earlier flushes: any response / error frame of the IOLoop and the heartbeat flush too —
`respond_flushes`.) -/
theorem flushed_by_next_tick {s : PState} (h : Reachable s) {f : Frame} (hf : f ∈ s.buf) (hx : s.exited = false) :
    let s1 := if s.inSelect then s else (step s .top).1
    f ∈ s1.wire.flatten ∨
    (s1.inSelect = true ∧ s1.fArmed = true ∧ f ∈ s1.buf ∧
      (s1.tickOn = true → (step s1 .flushTick).2 = .ok ∧ f ∈ (step s1 .flushTick).1.wire.flatten ∧
        (step s1 .flushTick).1.buf = [])) := by
  have hi := reachable_inv h
  have tick : ∀ s1 : PState, s1.inSelect = true → s1.fArmed = true → f ∈ s1.buf → s1.tickOn = true →
      (step s1 .flushTick).2 = .ok ∧ f ∈ (step s1 .flushTick).1.wire.flatten ∧ (step s1 .flushTick).1.buf = [] := by
    intro s1 h1 h2 h3 h4
    simp only [step, h1, h2, h4, Bool.not_true, Bool.false_eq_true, ↓reduceIte, Bool.and_self, true_and]
    refine ⟨?_, flush_buf s1⟩
    show f ∈ (flush s1).wire.flatten
    rw [flush_wire]; exact List.mem_append_right _ h3
  by_cases hs : s.inSelect = true
  · have ha := hi.armed hs (List.ne_nil_of_mem hf)
    show f ∈ (if s.inSelect then s else (step s .top).1).wire.flatten ∨ _
    rw [if_pos hs]
    exact Or.inr ⟨hs, ha, hf, tick s hs ha hf⟩
  · have hs' : s.inSelect = false := by simpa using hs
    show f ∈ (if s.inSelect then s else (step s .top).1).wire.flatten ∨ _
    rw [if_neg hs]
    by_cases hg : (!s.sub || !ready s) = true
    · left
      rw [top_notready hx hs' hg]
      show f ∈ (flush s).wire.flatten
      rw [flush_wire]; exact List.mem_append_right _ hf
    · right
      have hg' : (!s.sub || !ready s) = false := by simpa using hg
      have hfl : s.flushed = false := by
        cases hfl : s.flushed
        · rfl
        · have := hi.empty hfl; rw [this] at hf; cases hf
      rw [top_ready_unflushed hx hs' hg' hfl]
      exact ⟨rfl, rfl, hf, tick _ rfl rfl hf⟩

/-- any response / error frame of the IOLoop flushes everything written before it, in order,
together with itself (one `Write`) -/
theorem respond_flushes (s : PState) :
    (step s .respond).1.buf = [] ∧ (step s .respond).1.wire.flatten = written s ++ [.resp] := by
  simp only [step]
  refine ⟨flush_buf _, ?_⟩
  rw [flush_wire]; simp [written]

/-! ### non-vacuity -/

/-- subscribe, RDY 2, one message received and buffered (in the select, flusher armed) -/
def ex1 : PState := run {} [.top, .subEvent, .setRdy 2, .top, .recv, .top]
example : Reachable ex1 := ⟨_, rfl⟩
example : ex1.buf = [.msg 0] ∧ ex1.wire = [] ∧ ex1.inSelect = true ∧ ex1.fArmed = true ∧ ex1.flushed = false := by decide
/-- the tick flushes it -/
example : (step ex1 .flushTick).1.wire = [[.msg 0]] ∧ (step ex1 .flushTick).1.buf = [] := by decide
/-- RDY 0 arrives while the message is buffered: the next guard evaluation force-flushes and disarms;
afterwards a publish cannot be received (`recv` rejected), responses still go out -/
def ex2 : PState := run ex1 [.readyState, .setRdy 0, .top]
example : ex2.wire = [[.msg 0]] ∧ ex2.buf = [] ∧ ex2.qArmed = false ∧ (step ex2 .recv).2 = .reject "queues-off" := by decide
example : Disarmed ex2 ∧ quietRun ex2 [.respond, .readyState, .top, .heartbeat, .top] := by
  refine ⟨fun _ => by decide, ?_⟩
  simp only [quietRun]
  decide
example : (written (run ex2 [.respond, .readyState, .top, .heartbeat, .top])).filter Frame.isMsg = [.msg 0] := by decide
/-- overshoot: the guard was evaluated true, RDY 0 arrives, the select still picks the queue: one
message, then the guard fails -/
example : (run {} [.top, .subEvent, .setRdy 1, .top, .setRdy 0, .recv]).sent = 1 ∧
    (step (run {} [.top, .subEvent, .setRdy 1, .top, .setRdy 0, .recv]) .recv).2 = .reject "not-in-select" := by decide
/-- `output_buffer_timeout` disabled (−1): the flusher is armed but never ticks; a response flushes -/
def ex3 : PState := run {} [.top, .identify false false 0, .top, .subEvent, .setRdy 5, .top, .recv, .top, .recv, .top]
example : ex3.buf = [.msg 0, .msg 1] ∧ (step ex3 .flushTick).2 = .reject "flusher-off" ∧
    (step ex3 .respond).1.wire = [[.msg 0, .msg 1, .resp]] := by decide
example :
    let s1 := if ex1.inSelect then ex1 else (step ex1 .top).1
    Frame.msg 0 ∈ s1.wire.flatten ∨
    (s1.inSelect = true ∧ s1.fArmed = true ∧ Frame.msg 0 ∈ s1.buf ∧
      (s1.tickOn = true → (step s1 .flushTick).2 = .ok ∧ Frame.msg 0 ∈ (step s1 .flushTick).1.wire.flatten ∧
        (step s1 .flushTick).1.buf = [])) :=
  flushed_by_next_tick ⟨_, rfl⟩ (by decide) (by decide)

end Nsq.Props.C03Pump
