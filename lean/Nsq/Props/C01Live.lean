/-
C01 — liveness as theorems under EXPLICIT fairness hypotheses (round 6).

`Nsq.Props.C01` proves safety (nothing but FIN / Empty / sampling / an ephemeral overflow removes a
message) and enabledness.  Here an infinite schedule `Exec` of the channel model (any operation at
any time — atomic ops, the FIN and pump micro-steps, rejected observations stutter) is given and
three step classes are assumed to be scheduled fairly, per message id:

* `FairScanInFlight` — weak fairness of the scan tick with `t ≥ deadline`: while the message stays
  in flight, a `scanInFlight t` with `deadline ≤ t` eventually runs (time advances and
  `queueScanLoop` reaches the channel: the tick-count side of that is `Nsq.Props.C04Live`);
* `FairScanDeferred` — the same for the deferred heap;
* `FairTake` — strong fairness of the consumer pumps towards this message: if infinitely often the
  message is queued while some consumer's guard (`IsReadyForMessages`) holds, it is eventually taken
  off the queue (the queue is a bag in the model: Go's `select` between memory and disk decides
  which message a pump receives — "no message is overtaken forever" is exactly this hypothesis);
* `ReadyInfOften` — the consumers' side: infinitely often some consumer is ready.

Nothing else is assumed: no invariant, no restriction on what publishers, consumers, scans, pause,
Empty do in between.  The fairness hypotheses are NOT discharged for the Go runtime (scheduler,
timers): they are named in the evidence as assumptions.
-/
import Nsq.Proofs.ChanLive
import Nsq.Props.C01
namespace Nsq.Props.C01Live
open Nsq.Model.Chan Nsq.Proofs.Chan Nsq.Proofs.ChanLive

variable {conf : Conf}

def Queued (c : Chan) (id : Nat) : Prop := locOf c id = some .queued
def InFlight (c : Chan) (id : Nat) : Prop := ∃ k p d, locOf c id = some (.inflight k p d)
def Deferred (c : Chan) (id : Nat) : Prop := ∃ p, locOf c id = some (.deferred p)
/-- the channel owns the message (queue, in flight — to whomever —, deferred) -/
def Located (c : Chan) (id : Nat) : Prop := locOf c id ≠ none
/-- the channel does not own it (any more) -/
def Gone (c : Chan) (id : Nat) : Prop := locOf c id = none

/-- step `j` of the schedule is a delivery of `id` (the `deliver` event is recorded by that step) -/
def DeliveredAt (ex : Exec conf) (id j : Nat) : Prop :=
  ∃ k att, (ex.st (j + 1)).hist = Ev.deliver k id att :: (ex.st j).hist

def FairScanInFlight (ex : Exec conf) (id : Nat) : Prop :=
  ∀ n, ∃ m, n ≤ m ∧ (¬ InFlight (ex.st m) id ∨
    ∃ t k p d, ex.ops m = .scanInFlight t ∧ locOf (ex.st m) id = some (.inflight k p d) ∧ p ≤ t)

def FairScanDeferred (ex : Exec conf) (id : Nat) : Prop :=
  ∀ n, ∃ m, n ≤ m ∧ (¬ Deferred (ex.st m) id ∨
    ∃ t p, ex.ops m = .scanDeferred t ∧ locOf (ex.st m) id = some (.deferred p) ∧ p ≤ t)

/-- the class "some pump receives `id`" is enabled: queued, and some consumer's guard holds -/
def TakeEnabled (c : Chan) (id : Nat) : Prop :=
  Queued c id ∧ ∃ cl ∈ c.clients, ready c.paused cl = true

/-- step `m` takes `id` off the queue -/
def Taken (ex : Exec conf) (id m : Nat) : Prop := Queued (ex.st m) id ∧ ¬ Queued (ex.st (m + 1)) id

def FairTake (ex : Exec conf) (id : Nat) : Prop :=
  (∀ n, ∃ m, n ≤ m ∧ TakeEnabled (ex.st m) id) → ∀ n, ∃ m, n ≤ m ∧ Taken ex id m

def ReadyInfOften (ex : Exec conf) : Prop :=
  ∀ n, ∃ m, n ≤ m ∧ ∃ cl ∈ (ex.st m).clients, ready (ex.st m).paused cl = true

/-- along any schedule the location of any message moves along the graph
`none → queued|deferred`, `queued → in flight|none`, `in flight → *`, `deferred → queued|none`,
and it leaves `queued` for `in flight` only in a step that records its delivery -/
theorem location_moves (ex : Exec conf) (id n : Nat) :
    Move (DeliveredAt ex id n) (locOf (ex.st n) id) (locOf (ex.st (n + 1)) id) := by
  have := step_move conf (ex.st n) (ex.ops n) id
  rw [← ex.next n] at this
  exact this

/-- what "taken off the queue" can be: a delivery (event recorded, message in flight) or the
message is gone (sampled out by a sampling consumer, or `Channel.Empty`) -/
theorem taken_is_delivery_or_drop (ex : Exec conf) (id m : Nat) (h : Taken ex id m) :
    DeliveredAt ex id m ∨ Gone (ex.st (m + 1)) id := by
  obtain ⟨hq, hn⟩ := h
  rcases location_moves ex id m with h1 | ⟨_, h2⟩
  · exact absurd (h1.trans hq) hn
  · by_cases hg : locOf (ex.st (m + 1)) id = none
    · exact Or.inr hg
    · exact Or.inl (h2 hq hg)

theorem queued_unless (ex : Exec conf) (id m : Nat) (h : Queued (ex.st m) id) :
    Queued (ex.st (m + 1)) id ∨ (DeliveredAt ex id m ∨ Gone (ex.st (m + 1)) id) := by
  by_cases hq : Queued (ex.st (m + 1)) id
  · exact Or.inl hq
  · exact Or.inr (taken_is_delivery_or_drop ex id m ⟨h, hq⟩)

theorem deferred_unless (ex : Exec conf) (id m : Nat) (h : Deferred (ex.st m) id) :
    Deferred (ex.st (m + 1)) id ∨ (Queued (ex.st (m + 1)) id ∨ Gone (ex.st (m + 1)) id) := by
  obtain ⟨p, hp⟩ := h
  rcases location_moves ex id m with h1 | ⟨h1, _⟩
  · exact Or.inl ⟨p, h1.trans hp⟩
  · rw [hp] at h1
    unfold Queued Gone
    cases hb : locOf (ex.st (m + 1)) id with
    | none => exact Or.inr (Or.inr rfl)
    | some l =>
      cases l with
      | queued => exact Or.inr (Or.inl rfl)
      | inflight k p' d => rw [hb] at h1; simp [Nsq.Proofs.ChanLive.trans] at h1
      | deferred p' => rw [hb] at h1; simp [Nsq.Proofs.ChanLive.trans] at h1

theorem inflight_unless (ex : Exec conf) (id m : Nat) (_h : InFlight (ex.st m) id) :
    InFlight (ex.st (m + 1)) id ∨
      (Queued (ex.st (m + 1)) id ∨ Deferred (ex.st (m + 1)) id ∨ Gone (ex.st (m + 1)) id) := by
  unfold InFlight Queued Deferred Gone
  cases hb : locOf (ex.st (m + 1)) id with
  | none => exact Or.inr (Or.inr (Or.inr rfl))
  | some l =>
    cases l with
    | queued => exact Or.inr (Or.inl rfl)
    | inflight k p d => exact Or.inl ⟨k, p, d, rfl⟩
    | deferred p => exact Or.inr (Or.inr (Or.inl ⟨p, rfl⟩))

/-- a scan tick at/after the deadline releases the message: it is queued again (or dropped by the
full queue of an `#ephemeral` channel) — whoever held it, connected or not -/
theorem scanInFlight_releases (ex : Exec conf) (id m : Nat) {t : Int} {k : Nat} {p d : Int}
    (hop : ex.ops m = .scanInFlight t) (hl : locOf (ex.st m) id = some (.inflight k p d)) (hp : p ≤ t) :
    Queued (ex.st (m + 1)) id ∨ Gone (ex.st (m + 1)) id := by
  rw [ex.next m, hop]
  simp only [step]
  apply foldl_timeoutOne_releases _ _ _ _ ⟨k, p, d, hl⟩
  simp only [locOf] at hl
  cases hf : findE (ex.st m).msgs id with
  | none => simp [hf] at hl
  | some e =>
    obtain ⟨he, hid⟩ := findE_some hf
    rw [← hid]
    exact C01.timeout_enabled he (by simpa [hf] using hl) hp

theorem scanDeferred_releases (ex : Exec conf) (id m : Nat) {t : Int} {p : Int}
    (hop : ex.ops m = .scanDeferred t) (hl : locOf (ex.st m) id = some (.deferred p)) (hp : p ≤ t) :
    Queued (ex.st (m + 1)) id ∨ Gone (ex.st (m + 1)) id := by
  rw [ex.next m, hop]
  simp only [step]
  apply foldl_deferDueOne_releases _ _ _ _ ⟨p, hl⟩
  simp only [locOf] at hl
  cases hf : findE (ex.st m).msgs id with
  | none => simp [hf] at hl
  | some e =>
    obtain ⟨he, hid⟩ := findE_some hf
    rw [← hid]
    exact C01.deferred_enabled he (by simpa [hf] using hl) hp

/-- deferred ⟿ queued ∨ gone, under fairness of the deferred scan -/
theorem deferred_leadsto (ex : Exec conf) (id : Nat) (hF : FairScanDeferred ex id) {n : Nat}
    (h : Deferred (ex.st n) id) : ∃ m, n < m ∧ (Queued (ex.st m) id ∨ Gone (ex.st m) id) := by
  apply leadsto (P := fun m => Deferred (ex.st m) id) (deferred_unless ex id) _ h
  intro n'
  obtain ⟨m, hm, hc⟩ := hF n'
  refine ⟨m, hm, ?_⟩
  rcases hc with hc | ⟨t, p, hop, hl, hp⟩
  · exact Or.inl hc
  · exact Or.inr (scanDeferred_releases ex id m hop hl hp)

/-- in flight ⟿ queued ∨ deferred ∨ gone, under fairness of the in-flight scan (the holder may
answer earlier: FIN → gone, REQ → queued / deferred; TOUCH only moves the deadline) -/
theorem inflight_leadsto (ex : Exec conf) (id : Nat) (hF : FairScanInFlight ex id) {n : Nat}
    (h : InFlight (ex.st n) id) :
    ∃ m, n < m ∧ (Queued (ex.st m) id ∨ Deferred (ex.st m) id ∨ Gone (ex.st m) id) := by
  apply leadsto (P := fun m => InFlight (ex.st m) id) (inflight_unless ex id) _ h
  intro n'
  obtain ⟨m, hm, hc⟩ := hF n'
  refine ⟨m, hm, ?_⟩
  rcases hc with hc | ⟨t, k, p, d, hop, hl, hp⟩
  · exact Or.inl hc
  · rcases scanInFlight_releases ex id m hop hl hp with h' | h'
    · exact Or.inr (Or.inl h')
    · exact Or.inr (Or.inr (Or.inr h'))

/-- queued ⟿ delivered ∨ gone, under strong fairness of the pumps towards this message and
consumers that are ready infinitely often -/
theorem queued_leadsto (ex : Exec conf) (id : Nat) (hF : FairTake ex id) (hR : ReadyInfOften ex) {n : Nat}
    (h : Queued (ex.st n) id) : ∃ j, n ≤ j ∧ (DeliveredAt ex id j ∨ Gone (ex.st (j + 1)) id) := by
  have key : ∃ m, n < m ∧ ∃ j, j + 1 = m ∧ (DeliveredAt ex id j ∨ Gone (ex.st (j + 1)) id) := by
    apply leadsto (P := fun m => Queued (ex.st m) id)
      (Q := fun m => ∃ j, j + 1 = m ∧ (DeliveredAt ex id j ∨ Gone (ex.st (j + 1)) id)) _ _ h
    · intro m hm
      rcases queued_unless ex id m hm with h' | h'
      · exact Or.inl h'
      · exact Or.inr ⟨m, rfl, h'⟩
    · intro n'
      by_cases hex : ∃ m, n' ≤ m ∧ ¬ Queued (ex.st m) id
      · obtain ⟨m, hm, hq⟩ := hex
        exact ⟨m, hm, Or.inl hq⟩
      · exfalso
        have hall : ∀ m, n' ≤ m → Queued (ex.st m) id := by
          intro m hm
          apply Classical.byContradiction
          intro hq; exact hex ⟨m, hm, hq⟩
        have hen : ∀ n2, ∃ m, n2 ≤ m ∧ TakeEnabled (ex.st m) id := by
          intro n2
          obtain ⟨m, hm, hr⟩ := hR (max n2 n')
          exact ⟨m, by omega, hall m (by omega), hr⟩
        obtain ⟨m, hm, _, hq2⟩ := hF hen n'
        exact hq2 (hall (m + 1) (by omega))
  obtain ⟨m, hm, j, hj, hq⟩ := key
  exact ⟨j, by omega, hq⟩

/-- **C01 liveness.** Under the three fairness hypotheses, a message the channel owns at time `n`
— queued in memory or on disk, in flight to anyone (connected or vanished), deferred — is
delivered by some LATER step `j ≥ n`, unless the channel ceases to own it (the only ways, by
`C01.nothing_else_removes`: an accepted FIN of its holder, `Empty`, client sampling, the overflow of
an `#ephemeral` queue). In particular an unanswered, requeued or timed-out message IS delivered
again. -/
theorem eventually_delivered (ex : Exec conf) (id : Nat)
    (hI : FairScanInFlight ex id) (hD : FairScanDeferred ex id) (hT : FairTake ex id) (hR : ReadyInfOften ex)
    {n : Nat} (h : Located (ex.st n) id) :
    ∃ j, n ≤ j ∧ (DeliveredAt ex id j ∨ Gone (ex.st (j + 1)) id) := by
  have fromQ : ∀ m, n ≤ m → Queued (ex.st m) id → ∃ j, n ≤ j ∧ (DeliveredAt ex id j ∨ Gone (ex.st (j + 1)) id) := by
    intro m hm hq
    obtain ⟨j, hj, h'⟩ := queued_leadsto ex id hT hR hq
    exact ⟨j, by omega, h'⟩
  have fromG : ∀ m, n < m → Gone (ex.st m) id → ∃ j, n ≤ j ∧ (DeliveredAt ex id j ∨ Gone (ex.st (j + 1)) id) := by
    intro m hm hg
    obtain ⟨j, rfl⟩ : ∃ j, m = j + 1 := ⟨m - 1, by omega⟩
    exact ⟨j, by omega, Or.inr hg⟩
  have fromD : ∀ m, n ≤ m → Deferred (ex.st m) id → ∃ j, n ≤ j ∧ (DeliveredAt ex id j ∨ Gone (ex.st (j + 1)) id) := by
    intro m hm hd
    obtain ⟨m2, hm2, h'⟩ := deferred_leadsto ex id hD hd
    rcases h' with h' | h'
    · exact fromQ m2 (by omega) h'
    · exact fromG m2 (by omega) h'
  unfold Located at h
  cases hl : locOf (ex.st n) id with
  | none => exact absurd hl h
  | some l =>
    cases l with
    | queued => exact fromQ n (Nat.le_refl n) hl
    | deferred p => exact fromD n (Nat.le_refl n) ⟨p, hl⟩
    | inflight k p d =>
      obtain ⟨m, hm, h'⟩ := inflight_leadsto ex id hI ⟨k, p, d, hl⟩
      rcases h' with h' | h' | h'
      · exact fromQ m (by omega) h'
      · exact fromD m (by omega) h'
      · exact fromG m hm h'

/-- "keeps being redelivered until …": either the channel ceases to own the message at some
point, or it is delivered again and again, for ever -/
theorem redelivered_until_gone (ex : Exec conf) (id : Nat)
    (hI : FairScanInFlight ex id) (hD : FairScanDeferred ex id) (hT : FairTake ex id) (hR : ReadyInfOften ex)
    {n : Nat} (_h : Located (ex.st n) id) :
    (∃ m, n ≤ m ∧ Gone (ex.st m) id) ∨ ∀ n', n ≤ n' → ∃ j, n' ≤ j ∧ DeliveredAt ex id j := by
  by_cases hg : ∃ m, n ≤ m ∧ Gone (ex.st m) id
  · exact Or.inl hg
  · right
    intro n' hn'
    have hloc : Located (ex.st n') id := fun hx => hg ⟨n', hn', hx⟩
    obtain ⟨j, hj, h'⟩ := eventually_delivered ex id hI hD hT hR hloc
    rcases h' with h' | h'
    · exact ⟨j, hj, h'⟩
    · exact absurd ⟨j + 1, by omega, h'⟩ hg

/-- every state of a schedule that starts in a state satisfying the channel invariant satisfies it -/
theorem exec_inv (ex : Exec conf) (h0 : Inv 0 (ex.st 0)) (n : Nat) : Inv 0 (ex.st n) := by
  induction n with
  | zero => exact h0
  | succ n ih => rw [ex.next n]; exact C02.inv_step conf ih (ex.ops n)

/-- … and "gone" means removed by one of the four removal events of `C01.ledger` — never by a
timeout, a REQ, a TOUCH, a disconnect, pause or a full memory queue of a durable channel -/
theorem gone_is_removed (ex : Exec conf) (h0 : Inv 0 (ex.st 0)) (id m : Nat)
    (hf : id ∈ fannedIds (ex.st m).hist) (hg : Gone (ex.st m) id) :
    ∃ ev ∈ (ex.st m).hist, removedIn ev id = true := by
  have hi := exec_inv ex h0 m
  have hr : removed (ex.st m).hist id = true := by
    cases hr : removed (ex.st m).hist id
    · exfalso
      rw [mem_fannedIds] at hf
      have h1 : status (ex.st m).hist id ≠ .none := fun h' => hf ((status_none_iff hi.okh).1 h')
      have h2 : status (ex.st m).hist id ≠ .gone := by
        intro h'
        rw [(status_gone_iff hi.okh).1 h'] at hr
        cases hr
      have hex : ∃ e ∈ (ex.st m).msgs, e.id = id := by
        apply hi.core.absent
        cases hs : status (ex.st m).hist id <;> simp_all [St.located]
      obtain ⟨e, he, hid⟩ := hex
      have : findE (ex.st m).msgs id ≠ none := by
        intro hn
        exact findE_none hn e he hid
      unfold Gone locOf at hg
      cases hfe : findE (ex.st m).msgs id with
      | none => exact this hfe
      | some e' => simp [hfe] at hg
    · rfl
  simpa [removed] using hr

/-! ### non-vacuity: a concrete fair schedule

`exOps`: publish 7, a consumer joins with RDY 1, gets the message, ignores it; from then on the
schedule repeats `scanInFlight 1000 ; deliver 1 7 0` for ever (the consumer never answers, the
message times out and is delivered again and again). All four hypotheses hold for it. -/

def exPre : List Op := [.put 7, .addClient 1 100 0, .rdy 1 1]
def exLoop (i : Nat) : Op := if i % 2 = 0 then .deliver 1 7 0 else .scanInFlight 1000

def exOpsAt (n : Nat) : Op := if h : n < 3 then exPre[n] else exLoop (n - 3)

def exSt : Nat → Chan
  | 0 => {}
  | n + 1 => (step {} (exSt n) (exOpsAt n)).1

def exExec : Exec ({} : Conf) := { ops := exOpsAt, st := exSt, next := fun _ => rfl }

/-- state after the prefix and one delivery: message 7 in flight to connection 1 -/
example : locOf (exExec.st 4) 7 = some (.inflight 1 100 0) := by decide
/-- after the next scan it is queued again, after the next delivery in flight again (attempt 2) -/
example : locOf (exExec.st 5) 7 = some .queued ∧ locOf (exExec.st 6) 7 = some (.inflight 1 100 0) := by decide
example : DeliveredAt exExec 7 3 ∧ DeliveredAt exExec 7 5 := ⟨⟨1, 1, by decide⟩, ⟨1, 2, by decide⟩⟩
example : Located (exExec.st 4) 7 := by unfold Located; decide
example : Inv 0 (exExec.st 0) := inv_init false 0

/-! a schedule for which ALL hypotheses of `eventually_delivered` are proved (joint satisfiability):
publish 7, consumer 1 joins, RDY 1, delivery, FIN; afterwards nothing happens any more (the rejected
observation `removeClient 99` stutters for ever). -/
def fPre : List Op := [.put 7, .addClient 1 100 0, .rdy 1 1, .deliver 1 7 0, .fin 1 7]
def fOpsAt (n : Nat) : Op := if h : n < 5 then fPre[n] else .removeClient 99
def fSt : Nat → Chan
  | 0 => {}
  | n + 1 => (step {} (fSt n) (fOpsAt n)).1
def fExec : Exec ({} : Conf) := { ops := fOpsAt, st := fSt, next := fun _ => rfl }

theorem fSt_const (d : Nat) : fSt (5 + d) = fSt 5 := by
  induction d with
  | zero => rfl
  | succ d ih =>
    show (step {} (fSt (5 + d)) (fOpsAt (5 + d))).1 = fSt 5
    have : fOpsAt (5 + d) = .removeClient 99 := by unfold fOpsAt; rw [dif_neg (by omega)]
    rw [ih, this]; decide

theorem fSt_late {m : Nat} (h : 5 ≤ m) : fExec.st m = fSt 5 := by
  obtain ⟨d, rfl⟩ : ∃ d, m = 5 + d := ⟨m - 5, by omega⟩
  exact fSt_const d

theorem fGone : locOf (fSt 5) 7 = none := by decide
theorem fFairI : FairScanInFlight fExec 7 := fun n =>
  ⟨max n 5, by omega, Or.inl (by rw [fSt_late (by omega)]; rintro ⟨k, p, d, h⟩; rw [fGone] at h; cases h)⟩
theorem fFairD : FairScanDeferred fExec 7 := fun n =>
  ⟨max n 5, by omega, Or.inl (by rw [fSt_late (by omega)]; rintro ⟨p, h⟩; rw [fGone] at h; cases h)⟩
theorem fFairT : FairTake fExec 7 := by
  intro hen
  exfalso
  obtain ⟨m, hm, hq, _⟩ := hen 5
  rw [fSt_late hm] at hq
  revert hq; unfold Queued; decide
theorem fReady : ReadyInfOften fExec := fun n =>
  ⟨max n 5, by omega, by rw [fSt_late (by omega)]; decide⟩

/-- the theorem applied: the message located after the publish is delivered by step 3 -/
example : ∃ j, 1 ≤ j ∧ (DeliveredAt fExec 7 j ∨ Gone (fExec.st (j + 1)) 7) :=
  eventually_delivered fExec 7 fFairI fFairD fFairT fReady (n := 1) (by unfold Located; decide)
example : DeliveredAt fExec 7 3 ∧ Gone (fExec.st 5) 7 ∧ removed (fExec.st 5).hist 7 = true :=
  ⟨⟨1, 1, by decide⟩, by unfold Gone; decide, by decide⟩

/-! ### audit A7: the four hypotheses proved for the NON-trivial schedule `exExec` (the consumer never answers) -/

/-- shape of `exExec`'s states at the top of the loop: message 7 queued, consumer 1 ready -/
def ExQ (c : Chan) : Prop :=
  ∃ e cl, c.msgs = [e] ∧ e.id = 7 ∧ e.loc = .queued ∧ c.clients = [cl] ∧ cl.conn = 1 ∧ cl.rdy = 1 ∧ cl.inFlight = 0 ∧
    cl.msgTimeout = 100 ∧ c.paused = false ∧ c.memLen = 0 ∧ c.memCap = 0 ∧ c.ephemeral = false

/-- … and in the middle: in flight to consumer 1 with deadline 100 -/
def ExI (c : Chan) : Prop :=
  ∃ e cl, c.msgs = [e] ∧ e.id = 7 ∧ e.loc = .inflight 1 100 0 ∧ c.clients = [cl] ∧ cl.conn = 1 ∧ cl.rdy = 1 ∧ cl.inFlight = 1 ∧
    cl.msgTimeout = 100 ∧ c.paused = false ∧ c.memLen = 0 ∧ c.memCap = 0 ∧ c.ephemeral = false

theorem exQ_deliver {c : Chan} (h : ExQ c) : ExI (step {} c (.deliver 1 7 0)).1 := by
  obtain ⟨e, cl, hm, hid, hl, hc, h1, h2, h3, h4, h5, h6, h7, h8⟩ := h
  have hf : findC c.clients 1 = some cl := by simp [findC, hc, h1]
  have hr : ready c.paused cl = true := by simp [ready, h5, h2, h3]
  have hfe : findE c.msgs 7 = some e := by simp [findE, hm, hid]
  have hq : isQueued e = true := by simp [isQueued, hl]
  simp only [step, hf, hr, Bool.not_true, Bool.false_eq_true, ↓reduceIte, doDeliver, hfe, hq]
  refine ⟨{ e with att := e.att + 1, loc := .inflight 1 (0 + cl.msgTimeout) 0 },
    { cl with inFlight := cl.inFlight + 1, msgCount := cl.msgCount + 1, lgr := cl.rdy, decr := false, armed := false }, ?_, hid, ?_, ?_, ?_, ?_, ?_, ?_, h5, ?_, h7, h8⟩
  · simp [setE, hm, hid]
  · simp [h4]
  · simp only [updC, hc, List.map_cons, List.map_nil, h1, beq_self_eq_true, ↓reduceIte]
  · exact h1
  · exact h2
  · simp [h3]
  · exact h4
  · simp [h6]

theorem exI_scan {c : Chan} (h : ExI c) : ExQ (step {} c (.scanInFlight 1000)).1 := by
  obtain ⟨e, cl, hm, hid, hl, hc, h1, h2, h3, h4, h5, h6, h7, h8⟩ := h
  have hdue : dueInflight c 1000 = [7] := by
    simp [dueInflight, hm, isInflight, priOf, hl, sortByPri, insertByPri, hid]
  have hfe : findE c.msgs 7 = some e := by simp [findE, hm, hid]
  simp only [step, hdue, List.foldl_cons, List.foldl_nil, timeoutOne, hfe, hl, enqueue, h6, h7, h8, Nat.lt_irrefl, ↓reduceIte,
    Bool.false_eq_true]
  refine ⟨{ e with loc := .queued }, decIn cl, ?_, hid, rfl, ?_, h1, h2, ?_, h4, h5, rfl, rfl, rfl⟩
  · simp [setE, hm, hid]
  · simp only [updC, hc, List.map_cons, List.map_nil, h1, beq_self_eq_true, ↓reduceIte]
  · simp [decIn, h3]

theorem exSt3 : ExQ (exExec.st 3) :=
  ⟨⟨7, 0, .queued, {}⟩, { conn := 1, rdy := 1, msgTimeout := 100 }, by decide, rfl, rfl, by decide, rfl, rfl, rfl, rfl, by decide, by decide, by decide, by decide⟩

theorem exOps_even (i : Nat) : exExec.ops (3 + 2 * i) = .deliver 1 7 0 := by
  show exOpsAt (3 + 2 * i) = _
  unfold exOpsAt exLoop
  rw [dif_neg (by omega)]
  have : (3 + 2 * i - 3) % 2 = 0 := by omega
  simp [this]

theorem exOps_odd (i : Nat) : exExec.ops (4 + 2 * i) = .scanInFlight 1000 := by
  show exOpsAt (4 + 2 * i) = _
  unfold exOpsAt exLoop
  rw [dif_neg (by omega)]
  have : (4 + 2 * i - 3) % 2 = 1 := by omega
  simp [this]

/-- the loop invariant of `exExec`: queued + ready at the even positions, in flight (deadline 100) at the odd ones -/
theorem exLoopInv (i : Nat) : ExQ (exExec.st (3 + 2 * i)) ∧ ExI (exExec.st (4 + 2 * i)) := by
  induction i with
  | zero =>
    refine ⟨exSt3, ?_⟩
    have := exQ_deliver exSt3
    rw [← exOps_even 0, ← exExec.next 3] at this
    exact this
  | succ i ih =>
    have hq : ExQ (exExec.st (3 + 2 * (i + 1))) := by
      have := exI_scan ih.2
      rw [← exOps_odd i, ← exExec.next (4 + 2 * i)] at this
      rwa [show 4 + 2 * i + 1 = 3 + 2 * (i + 1) by omega] at this
    refine ⟨hq, ?_⟩
    have := exQ_deliver hq
    rw [← exOps_even (i + 1), ← exExec.next (3 + 2 * (i + 1))] at this
    rwa [show 3 + 2 * (i + 1) + 1 = 4 + 2 * (i + 1) by omega] at this

theorem exQ_loc {c : Chan} (h : ExQ c) : locOf c 7 = some .queued ∧ ∃ cl ∈ c.clients, ready c.paused cl = true := by
  obtain ⟨e, cl, hm, hid, hl, hc, h1, h2, h3, h4, h5, _⟩ := h
  refine ⟨by simp [locOf, findE, hm, hid, hl], cl, by simp [hc], by simp [ready, h5, h2, h3]⟩

theorem exI_loc {c : Chan} (h : ExI c) : locOf c 7 = some (.inflight 1 100 0) := by
  obtain ⟨e, cl, hm, hid, hl, _⟩ := h
  simp [locOf, findE, hm, hid, hl]

/-- audit A7: ALL four hypotheses of `eventually_delivered` hold for the NON-trivial schedule `exExec`, in which the consumer
never answers: the message is in flight at every odd position and a scan with `t = 1000 ≥ 100` runs there (weak fairness of the
scan, non-vacuously); it is queued with a ready consumer at every even position and is taken there (strong fairness of the pump). -/
theorem exFairI : FairScanInFlight exExec 7 := by
  intro n
  refine ⟨4 + 2 * n, by omega, Or.inr ⟨1000, 1, 100, 0, exOps_odd n, exI_loc (exLoopInv n).2, by omega⟩⟩

theorem exFairD : FairScanDeferred exExec 7 := by
  intro n
  refine ⟨4 + 2 * n, by omega, Or.inl ?_⟩
  rintro ⟨p, hp⟩
  rw [exI_loc (exLoopInv n).2] at hp
  cases hp

theorem exFairT : FairTake exExec 7 := by
  intro _ n
  refine ⟨3 + 2 * n, by omega, (exQ_loc (exLoopInv n).1).1, ?_⟩
  have : locOf (exExec.st (3 + 2 * n + 1)) 7 = some (.inflight 1 100 0) := by
    have := exI_loc (exLoopInv n).2
    rwa [show 4 + 2 * n = 3 + 2 * n + 1 by omega] at this
  unfold Queued
  rw [this]
  intro h; cases h

theorem exReady : ReadyInfOften exExec := by
  intro n
  exact ⟨3 + 2 * n, by omega, (exQ_loc (exLoopInv n).1).2⟩

/-- … and the theorems applied to it: delivered again and again, for ever (it is never gone) -/
theorem ex_redelivered_forever : ∀ n', 4 ≤ n' → ∃ j, n' ≤ j ∧ DeliveredAt exExec 7 j := by
  have hng : ¬ ∃ m, 4 ≤ m ∧ Gone (exExec.st m) 7 := by
    rintro ⟨m, hm, hg⟩
    unfold Gone at hg
    obtain ⟨i, hi⟩ : ∃ i, m = 3 + 2 * i ∨ m = 4 + 2 * i := ⟨(m - 3) / 2, by omega⟩
    rcases hi with rfl | rfl
    · rw [(exQ_loc (exLoopInv i).1).1] at hg; cases hg
    · rw [exI_loc (exLoopInv i).2] at hg; cases hg
  rcases redelivered_until_gone exExec 7 exFairI exFairD exFairT exReady (n := 4) (by unfold Located; decide) with h | h
  · exact absurd h hng
  · exact h

end Nsq.Props.C01Live
