import Nsq.Proofs.ProtoEnv
import Nsq.Tie.ProtoAudit
/-!
# C09, audit round 7 (items B4, B7, B8, B21)

Property theorems about `Nsq.Model.ProtoEnv` — the TCP protocol model in which the answer to a
command may depend on the BROKER (`--max-channel-consumers`: E_SUB_FAILED), on the ENVIRONMENT (a
failing backend write: E_PUB_FAILED / E_MPUB_FAILED / E_DPUB_FAILED) and on the connection's
AUTHORIZATION STATE (the gate is state written by AUTH, not a constant of the configuration).
Each step of that model is a step of `Nsq.Model.ProtoV2.exec` under the configuration `stepConf`
computed from the state, so the theorems of `Nsq.Props.C09` apply to every step.

Tie: `Nsq.Tie.ProtoAudit` (regenerated text of `Topic.PutMessages`, `Channel.AddClient`, `CheckAuth`,
the tail of `AUTH`, the two `time.NewTicker` calls of `messagePump`, the option checks of `nsqd.New`)
and the correspondence leg `iox` of `harness/e3/audit09_test.go` (consumer limit reached by
connections held open, a write-failing topic backend, a real auth server).
-/
namespace Nsq.Props.C09Audit
open Nsq.Model.ProtoV2 Nsq.Model.Names Nsq.Model.ProtoEnv Nsq.Model Nsq.Spec.ProtoSpec
open Nsq.Proofs.ProtoV2 Nsq.Proofs.ProtoEnv

namespace Examples
open Nsq.Proofs.ProtoV2.Examples

/-- max-channel-consumers 1, no auth server. -/
def xlimit : XConf := { base := conf, maxChanConsumers := 1, authEnabled := false, authd := fun _ => .failed }

/-- An auth server that knows two secrets: "good" may publish to / subscribe on topic `t` only,
"none" is answered with an empty authorization list; anything else is an error. -/
def xauth : XConf :=
  { base := conf, maxChanConsumers := 0, authEnabled := true,
    authd := fun s =>
      if s = ascii "good" then .state 1 (fun t _ => t == ascii "t")
      else if s = ascii "none" then .state 0 (fun _ _ => false)
      else .failed }

def x0 : XState := freshX conn

/-- Topic `t` with channel `c` that already has one consumer. -/
def busy : Broker :=
  [{ name := ascii "t", paused := false, count := 0, msgs := [],
     chans := [{ name := ascii "c", paused := false, clients := 1, msgs := [] }] }]

/-- MPUB of four one-byte messages. -/
def batch4 : Bytes := [0, 0, 0, 24] ++ Mpub.encode [[97], [98], [99], [100]]

end Examples

/-! ## B4 — MPUB is all-or-nothing only when no backend write fails -/

/-- What "all or nothing" means for one publish command run against broker `b`. -/
def AllOrNothing (b : Broker) (stp : Step) : Prop :=
  (∃ t ms, stp.reply = some .ok ∧ stp.ctl = .cont ∧ stp.broker = publish b t ms ∧ stp.eff = [.enq t ms]) ∨
  (∃ c, stp.reply = some (.err c) ∧ Untouched b stp.broker ∧ stp.eff = [])

/-- The full statement: whatever the environment does. FALSE on the current tree (open finding
`mpub-partial-on-backend-fault`): see `mpub_all_or_nothing_full_false`. -/
def MpubAllOrNothingFull : Prop :=
  ∀ (xc : XConf) (x : XState) (b : Broker) (tl : List Bytes) (rest : Bytes),
    AllOrNothing b (execX xc x b (cMPUB :: tl) rest).1

/-- HYPOTHESIS `x.putsOk = none` (no backend write fails during this command): MPUB either enqueues
the whole batch, in order, and answers OK, or answers an error and enqueues nothing. -/
theorem mpub_all_or_nothing_partial (xc : XConf) (x : XState) (b : Broker) (tl : List Bytes) (rest : Bytes)
    (hnf : x.putsOk = none) : AllOrNothing b (execX xc x b (cMPUB :: tl) rest).1 := by
  have e1 : (cMPUB = cIDENTIFY) = False := by decide
  have e2 : (cMPUB = cFIN) = False := by decide
  have e3 : (cMPUB = cRDY) = False := by decide
  have e4 : (cMPUB = cREQ) = False := by decide
  have e5 : (cMPUB = cPUB) = False := by decide
  have hexec : ∀ conf, exec conf x.conn b (cMPUB :: tl) rest =
      if !conf.tlsGate then fatal .E_INVALID x.conn b else mpub conf x.conn b (cMPUB :: tl) rest := by
    intro conf; simp [exec, e1, e2, e3, e4, e5]
  have hbase : AllOrNothing b (baseStep xc x b (cMPUB :: tl) rest) := by
    unfold baseStep
    rw [hexec]
    split
    · right; exact ⟨_, rfl, Or.inl rfl, rfl⟩
    · rcases mpub_cases (stepConf xc x (cMPUB :: tl) rest) x.conn b (cMPUB :: tl) rest with
        ⟨t, n, r, bodies, r2, _, _, _, _, _, h1, h2, h3, h4, _⟩ | ⟨c, h1, _, h3, h4⟩
      · left; exact ⟨t, toMsgs bodies, h1, h2, h3, h4⟩
      · right; exact ⟨c, h1, h3, h4⟩
  rcases execX_cases xc x b (cMPUB :: tl) rest with ⟨t, c, he, _, _⟩ | ⟨t, ms, k, _, hk, _, _⟩ | ⟨h, _⟩
  · -- an MPUB never has a SUB effect
    rcases hbase with ⟨t', ms', _, _, _, h4⟩ | ⟨c', _, _, h4⟩ <;> (rw [he] at h4; simp at h4)
  · rw [hnf] at hk; simp at hk
  · rw [h]; exact hbase

/-- With a backend fault the statement is false: the third write of a batch of four fails, the
answer is the fatal E_MPUB_FAILED and two messages stay enqueued (`message_count` 2). -/
theorem mpub_all_or_nothing_full_false : ¬ MpubAllOrNothingFull := by
  intro h
  have hr : (execX Examples.xlimit { Examples.x0 with putsOk := some 2 } [] [cMPUB, ascii "t"] Examples.batch4).1.reply =
      some (.err .E_MPUB_FAILED) := by decide
  have hb : (execX Examples.xlimit { Examples.x0 with putsOk := some 2 } [] [cMPUB, ascii "t"] Examples.batch4).1.broker =
      [{ name := ascii "t", paused := false, count := 2, msgs := [⟨[97], 0⟩, ⟨[98], 0⟩], chans := [] }] := by decide
  rcases h Examples.xlimit { Examples.x0 with putsOk := some 2 } [] [ascii "t"] Examples.batch4 with
    ⟨t, ms, h1, _⟩ | ⟨c, _, hu, _⟩
  · rw [hr] at h1; simp at h1
  · rw [hb] at hu
    rcases hu with hu | ⟨t, _, _, hu⟩
    · simp at hu
    · simp [emptyTopic] at hu

/-- Exactly what a failing write does (nsqd/topic.go `PutMessages` / `PutMessage`): when the base
step accepted the publish of `ms` and only `k < |ms|` further writes succeed, the answer is the fatal
E_PUB_FAILED / E_MPUB_FAILED / E_DPUB_FAILED, the connection state is unchanged and exactly the first
`k` messages are enqueued (and counted). -/
theorem publish_fault_prefix_exact (xc : XConf) (x : XState) (b : Broker) (ps : List Bytes) (rest : Bytes)
    (t : Bytes) (ms : List Msg) (k : Nat) (he : (baseStep xc x b ps rest).eff = [.enq t ms])
    (hk : x.putsOk = some k) (hlt : k < ms.length) :
    (execX xc x b ps rest).1 = pubFailed x b ps t ms k ∧
      (execX xc x b ps rest).1.broker = publish b t (ms.take k) ∧
      (execX xc x b ps rest).1.reply = some (.err (pubFailCode ps)) ∧ (execX xc x b ps rest).1.ctl = .close := by
  rcases execX_cases xc x b ps rest with ⟨t', c', he', _, _⟩ | ⟨t', ms', k', he', hk', _, h⟩ | ⟨_, _, _, h⟩
  · rw [he] at he'; simp at he'
  · rw [he] at he'
    simp only [List.cons.injEq, Effect.enq.injEq, and_true] at he'
    obtain ⟨rfl, rfl⟩ := he'
    rw [hk] at hk'; injection hk' with hk'; subst hk'
    rw [h]; simp [pubFailed]
  · have := h t ms k he hk; omega

/-- A publish of a single message (PUB, DPUB) that hits the fault enqueues nothing. -/
theorem single_publish_fault_enqueues_nothing (xc : XConf) (x : XState) (b : Broker) (ps : List Bytes)
    (rest : Bytes) (t : Bytes) (m : Msg) (k : Nat) (he : (baseStep xc x b ps rest).eff = [.enq t [m]])
    (hk : x.putsOk = some k) (hlt : k < 1) :
    (execX xc x b ps rest).1.broker = publish b t [] ∧ (execX xc x b ps rest).1.eff = [] := by
  have h := (publish_fault_prefix_exact xc x b ps rest t [m] k he hk (by simpa using hlt)).1
  have hk0 : k = 0 := by omega
  subst hk0
  rw [h]; simp [pubFailed]

/-- Writes that still succeed for the whole batch leave the step as it is. -/
theorem publish_without_fault_is_base (xc : XConf) (x : XState) (b : Broker) (ps : List Bytes) (rest : Bytes)
    (t : Bytes) (ms : List Msg) (he : (baseStep xc x b ps rest).eff = [.enq t ms])
    (hk : ∀ k, x.putsOk = some k → ms.length ≤ k) :
    (execX xc x b ps rest).1 = baseStep xc x b ps rest ∧
      (execX xc x b ps rest).1.broker = publish b t ms ∧ (execX xc x b ps rest).1.reply = some .ok := by
  have hb := exec_enq (stepConf xc x ps rest) x.conn b ps rest t ms he
  rcases execX_cases xc x b ps rest with ⟨t', c', he', _, _⟩ | ⟨t', ms', k', he', hk', hlt, _⟩ | ⟨h, _⟩
  · rw [he] at he'; simp at he'
  · rw [he] at he'
    simp only [List.cons.injEq, Effect.enq.injEq, and_true] at he'
    obtain ⟨rfl, rfl⟩ := he'
    have := hk k' hk'; omega
  · rw [h]; exact ⟨rfl, hb.1, hb.2.1⟩

example : (execX Examples.xlimit { Examples.x0 with putsOk := some 2 } [] [cMPUB, ascii "t"] Examples.batch4).1.ctl = .close := by
  decide
example : (execX Examples.xlimit { Examples.x0 with putsOk := some 4 } [] [cMPUB, ascii "t"] Examples.batch4).1.reply = some .ok := by
  decide
-- the hypothesis of the partial theorem is satisfiable and its conclusion non-trivial
example : (execX Examples.xlimit Examples.x0 [] [cMPUB, ascii "t"] Examples.batch4).1.broker =
    [{ name := ascii "t", paused := false, count := 4, msgs := [⟨[97], 0⟩, ⟨[98], 0⟩, ⟨[99], 0⟩, ⟨[100], 0⟩], chans := [] }] := by
  decide
-- PUB with a failing write: E_PUB_FAILED, only the (empty) topic exists
example : (execX Examples.xlimit { Examples.x0 with putsOk := some 0 } [] [cPUB, ascii "t"] [0, 0, 0, 1, 97]).1.reply =
    some (.err .E_PUB_FAILED) ∧
    (execX Examples.xlimit { Examples.x0 with putsOk := some 0 } [] [cPUB, ascii "t"] [0, 0, 0, 1, 97]).1.broker =
      [emptyTopic (ascii "t")] := by decide

/-! ## B7 — which answers depend on the broker, and exactly how -/

/-- SUB and the consumer limit (nsqd/channel.go `AddClient`): a SUB the connection's own bytes and
state would get accepted is refused with the fatal E_SUB_FAILED exactly when the option is not 0 and
the channel already has that many clients; the topic and the channel exist afterwards, no client is
added, the connection's state is unchanged. Otherwise the step is the base step and answers OK. -/
theorem sub_limit_exact (xc : XConf) (x : XState) (b : Broker) (ps : List Bytes) (rest : Bytes) (t c : Bytes)
    (he : (baseStep xc x b ps rest).eff = [.sub t c]) :
    (limitHit xc b t c = true →
      execX xc x b ps rest = (subRefused x b t c, x) ∧
      (execX xc x b ps rest).1.reply = some (.err .E_SUB_FAILED) ∧ (execX xc x b ps rest).1.ctl = .close ∧
      (execX xc x b ps rest).1.broker = getChannel (getTopic b t) t c) ∧
    (limitHit xc b t c = false →
      (execX xc x b ps rest).1 = baseStep xc x b ps rest ∧ (execX xc x b ps rest).1.reply = some .ok) := by
  rcases execX_cases xc x b ps rest with ⟨t', c', he', hl, h⟩ | ⟨t', ms', k', he', _⟩ | ⟨h, _, hl, _⟩
  · rw [he] at he'
    simp only [List.cons.injEq, Effect.sub.injEq, and_true] at he'
    obtain ⟨rfl, rfl⟩ := he'
    refine ⟨fun _ => ?_, fun hf => ?_⟩
    · rw [h]; simp [subRefused]
    · rw [hl] at hf; simp at hf
  · rw [he] at he'; simp at he'
  · have hf := hl t c he
    refine ⟨fun ht => ?_, fun _ => ?_⟩
    · rw [hf] at ht; simp at ht
    · rw [h]; exact ⟨rfl, exec_sub_ok _ _ _ _ _ t c he⟩

/-- E_SUB_FAILED is answered for no other reason. -/
theorem sub_failed_iff_limit (xc : XConf) (x : XState) (b : Broker) (ps : List Bytes) (rest : Bytes) :
    (execX xc x b ps rest).1.reply = some (.err .E_SUB_FAILED) ↔
      ∃ t c, (baseStep xc x b ps rest).eff = [.sub t c] ∧ limitHit xc b t c = true := by
  constructor
  · intro hr
    rcases execX_cases xc x b ps rest with ⟨t, c, he, hl, _⟩ | ⟨t, ms, k, _, _, _, h⟩ | ⟨h, _⟩
    · exact ⟨t, c, he, hl⟩
    · rw [h] at hr
      simp only [pubFailed, pubFailCode] at hr
      repeat' split at hr
      all_goals simp at hr
    · rw [h] at hr
      rcases exec_codes _ _ _ _ _ _ (gate_ok xc x ps rest) hr with ⟨_, hm⟩ | ⟨_, hm⟩
      · simp [modelFatal] at hm
      · simp [modelNonFatal] at hm
  · rintro ⟨t, c, he, hl⟩
    exact ((sub_limit_exact xc x b ps rest t c he).1 hl).2.1

/-- What a command is answered, its accepted effects, the next state of the connection and of its
authorization read the broker ONLY through "is the consumer limit of this channel reached": two
brokers that agree on that give the same answer. -/
theorem answer_reads_broker_only_through_limit (xc : XConf) (x : XState) (b b' : Broker) (ps : List Bytes)
    (rest : Bytes) (hl : ∀ t c, limitHit xc b t c = limitHit xc b' t c) :
    viewX (execX xc x b ps rest) = viewX (execX xc x b' ps rest) :=
  execX_view xc x b b' ps rest hl

/-- The full statement "what a connection is answered does not depend on the broker, hence not on
what other connections did". FALSE when a consumer limit is configured. -/
def AnswersIndependentOfBroker (xc : XConf) : Prop :=
  ∀ (x : XState) (b b' : Broker) (bs : Bytes), rview (serveX xc x b bs) = rview (serveX xc x b' bs)

/-- HYPOTHESIS `--max-channel-consumers = 0` (the default): the whole run of a connection — frames,
end, final state, accepted effects — is the same against every broker. -/
theorem answers_independent_of_broker_partial (xc : XConf) (h0 : xc.maxChanConsumers = 0) :
    AnswersIndependentOfBroker xc := by
  intro x b b' bs
  have hl : ∀ b t c, limitHit xc b t c = false := by intro b t c; simp [limitHit, h0]
  unfold serveX
  split
  · split
    · rw [disconnect_rview, disconnect_rview]
      exact loopX_indep xc hl _ x b b' _
    · rfl
  · rfl

/-- With `--max-channel-consumers 1` the same bytes are answered OK against an empty broker and
E_SUB_FAILED (and closed) when another connection already consumes the channel. -/
theorem answers_independent_of_broker_full_false : ¬ AnswersIndependentOfBroker Examples.xlimit := by
  intro h
  have h1 : (serveX Examples.xlimit Examples.x0 [] (magicV2 ++ ascii "SUB t c\n")).replies = [.ok] := by decide
  have h2 : (serveX Examples.xlimit Examples.x0 Examples.busy (magicV2 ++ ascii "SUB t c\n")).replies =
      [.err .E_SUB_FAILED] := by decide
  have := h Examples.x0 [] Examples.busy (magicV2 ++ ascii "SUB t c\n")
  simp only [rview, Prod.mk.injEq] at this
  rw [h1, h2] at this
  simp at this

example : (serveX Examples.xlimit Examples.x0 Examples.busy (magicV2 ++ ascii "SUB t c\n")).fin = .closed := by decide
example : (serveX Examples.xlimit Examples.x0 Examples.busy (magicV2 ++ ascii "SUB t c\n")).broker = Examples.busy := by decide
-- the other channel of the same topic is not affected
example : (serveX Examples.xlimit Examples.x0 Examples.busy (magicV2 ++ ascii "SUB t d\n")).replies = [.ok] := by decide
example : limitHit Examples.xlimit Examples.busy (ascii "t") (ascii "c") = true := by decide
example : limitHit { Examples.xlimit with maxChanConsumers := 0 } Examples.busy (ascii "t") (ascii "c") = false := by decide

/-! ## B8 — the option values `messagePump` hands to `time.NewTicker` -/

/-- The full statement "no option value lets a connection kill the daemon", parameterised by whether
`nsqd.New` checks the two options (`fixes/F31_validate_ticker_options.patch`). -/
def OptionsNeverKill (checked : Bool) : Prop := ∀ o : Opts, firstConnection checked o ≠ some .panic

/-- `messagePump` panics at its first two statements exactly for these values. -/
theorem pump_panics_iff (hb obt : Int) : pumpStart hb obt = .panic ↔ obt ≤ 0 ∨ hb ≤ 0 := by
  unfold pumpStart
  by_cases h1 : obt ≤ 0
  · simp [h1]
  · by_cases h2 : hb ≤ 0 <;> simp [h1, h2]

/-- With the checks of F31 every option value either makes `New` refuse to start or lets every
connection's pump start. -/
theorem options_never_kill_checked : OptionsNeverKill true := by
  intro o
  unfold firstConnection
  split
  · rename_i h
    simp only [newAccepts, Bool.not_true, Bool.false_or, Bool.and_eq_true, decide_eq_true_eq] at h
    have : pumpStart (heartbeatOf o) o.outputBufferTimeoutNs = .running := by
      unfold pumpStart
      have h1 : ¬ o.outputBufferTimeoutNs ≤ 0 := by omega
      have h2 : ¬ heartbeatOf o ≤ 0 := by omega
      simp [h1, h2]
    rw [this]; simp
  · simp

/-- THIS tree (F31 = /repo a24e9f3 is committed; audit B12): `Tie.ProtoAudit.newTickerOptionChecks_shape_known` accepts
only the two checks and the facts decide `treeChecksTickerOptions = true`; a tree that reverts F31 fails that and this
theorem with it. -/
theorem options_never_kill_this_tree : OptionsNeverKill Nsq.Tie.ProtoAudit.treeChecksTickerOptions := by
  rw [Nsq.Tie.ProtoAudit.tree_checks_ticker_options]; exact options_never_kill_checked

example : firstConnection Nsq.Tie.ProtoAudit.treeChecksTickerOptions ⟨60000000000, 0⟩ = none := by
  rw [Nsq.Tie.ProtoAudit.tree_checks_ticker_options]; decide

/-- Without them (the tree before F31) `--output-buffer-timeout=0` is accepted and the first
connection panics the process. -/
theorem options_never_kill_unchecked_false : ¬ OptionsNeverKill false := by
  intro h
  exact h ⟨60000000000, 0⟩ (by decide)

/-- The hypothesis under which the protocol theorems speak about a live daemon, spelled out. -/
theorem accepted_iff (o : Opts) :
    newAccepts true o = true ↔ 0 < o.outputBufferTimeoutNs ∧ 2 ≤ o.clientTimeoutNs := by
  have ht := tdiv2_pos o.clientTimeoutNs
  simp only [newAccepts, heartbeatOf, Bool.not_true, Bool.false_or, Bool.and_eq_true, decide_eq_true_eq, gt_iff_lt]
  rw [ht]

example : firstConnection true ⟨60000000000, 250000000⟩ = some .running := by decide
example : firstConnection true ⟨60000000000, 0⟩ = none := by decide
example : firstConnection false ⟨1, 250000000⟩ = some .panic := by decide
example : firstConnection true ⟨1, 250000000⟩ = none := by decide

/-! ## B21 — totality, limits and the table for the model with its real inputs -/

/-- No command panics, whatever the broker, the authorization state and the environment do. -/
theorem execX_no_panic (xc : XConf) (x : XState) (b : Broker) (ps : List Bytes) (rest : Bytes) :
    (execX xc x b ps rest).1.ctl ≠ .panic := execX_ctl xc x b ps rest

/-- Every connection ends by EOF, by the server closing it, or at a negotiated upgrade. -/
theorem serveX_total_no_panic (xc : XConf) (x : XState) (b : Broker) (bs : Bytes) :
    (serveX xc x b bs).fin = .eof ∨ (serveX xc x b bs).fin = .closed ∨ (serveX xc x b bs).fin = .upgraded := by
  unfold serveX
  split
  · split
    · have h := loopX_fin xc (List.length ‹Bytes› + 1) x b ‹Bytes› (by omega)
      have hd := disconnect_rview (loopX xc (List.length ‹Bytes› + 1) x b ‹Bytes›)
      simp only [rview, Prod.mk.injEq] at hd
      rw [hd.2.1]
      exact h
    · simp
  · simp

/-- Everything accepted — including the prefix of a batch that a failing write left enqueued —
respects the limits of the options. -/
theorem limits_env (xc : XConf) (x : XState) (b : Broker) (bs : Bytes) :
    ∀ e ∈ (serveX xc x b bs).eff, EffOk xc.base e := by
  unfold serveX
  split
  · split
    · have hd := disconnect_rview (loopX xc (List.length ‹Bytes› + 1) x b ‹Bytes›)
      simp only [rview, Prod.mk.injEq] at hd
      rw [hd.2.2.2]
      exact loopX_eff xc (EffOk xc.base) (execX_eff xc) _ _ _ _
    · simp
  · simp

/-- Each command is answered as the declarative table says for the configuration of THAT step (the
gate being what `CheckAuth` gives for the connection's current authorization state and the command's
topic / channel) — or, the two answers that do not come from the connection's own input, with
E_SUB_FAILED at the consumer limit or E_*PUB_FAILED at a failing write; both close the connection. -/
theorem answers_refine_spec_env (xc : XConf) (x : XState) (b : Broker) (ps : List Bytes) (rest : Bytes)
    (hps : ps ≠ []) :
    answer (stepConf xc x ps rest) x.conn ps rest (execX xc x b ps rest).1.reply
        (decide ((execX xc x b ps rest).1.ctl = .close)) ∨
    ((execX xc x b ps rest).1.reply = some (.err .E_SUB_FAILED) ∧ (execX xc x b ps rest).1.ctl = .close ∧
        ∃ t c, limitHit xc b t c = true) ∨
    ((execX xc x b ps rest).1.reply = some (.err (pubFailCode ps)) ∧ (execX xc x b ps rest).1.ctl = .close ∧
        ∃ k, x.putsOk = some k) := by
  rcases execX_cases xc x b ps rest with ⟨t, c, _, hl, h⟩ | ⟨t, ms, k, _, hk, _, h⟩ | ⟨h, _⟩
  · right; left; rw [h]; exact ⟨rfl, rfl, t, c, hl⟩
  · right; right; rw [h]; exact ⟨rfl, rfl, k, hk⟩
  · left; rw [h]; exact Nsq.Proofs.ProtoSpec.exec_refines _ _ _ _ _ hps

/-- The gate is a function of the connection's authorization state: with an auth server configured a
connection that has not authorized is answered E_AUTH_FIRST, an authorized one E_UNAUTHORIZED exactly
for the topic / channel pairs its authorizations do not allow; without an auth server the gate is open. -/
theorem gate_by_state (xc : XConf) (x : XState) (t c : Bytes) :
    (xc.authEnabled = false → gate xc x t c = none) ∧
    (xc.authEnabled = true → hasAuthz x = false → gate xc x t c = some .E_AUTH_FIRST) ∧
    (∀ a, xc.authEnabled = true → x.auth = some a → a.n ≠ 0 →
      gate xc x t c = if a.allow t c then none else some .E_UNAUTHORIZED) := by
  refine ⟨fun h => by simp [gate, h], fun h hz => ?_, fun a h ha hn => by simp [gate, h, ha, hn]⟩
  unfold hasAuthz at hz
  unfold gate
  split at hz
  · rename_i a ha; simp [h, ha]; simpa using hz
  · rename_i ha; simp [h, ha]

/-- AUTH on a connection that already holds authorizations is E_INVALID ("AUTH already set")
whatever the secret; the state the gate reads is written by a successful AUTH only. -/
theorem auth_outcome_by_state (xc : XConf) (x : XState) (secret : Bytes) :
    (hasAuthz x = true → authOutcome xc x secret = .alreadySet) ∧
    (hasAuthz x = false → xc.authEnabled = false → authOutcome xc x secret = .disabled) := by
  refine ⟨fun h => by simp [authOutcome, h], fun h1 h2 => by simp [authOutcome, h1, h2]⟩

-- AUTH, then PUB on the granted topic, then AUTH again: JSON, OK, E_INVALID — a trace no constant gate produces
example : (serveX Examples.xauth Examples.x0 []
    (magicV2 ++ ascii "AUTH\n" ++ [0, 0, 0, 4] ++ ascii "good" ++ ascii "PUB t\n" ++ [0, 0, 0, 1, 97] ++
      ascii "AUTH\n" ++ [0, 0, 0, 4] ++ ascii "good")).replies = [.json, .ok, .err .E_INVALID] := by decide
-- the gate differs per topic on one connection
example : (serveX Examples.xauth Examples.x0 []
    (magicV2 ++ ascii "AUTH\n" ++ [0, 0, 0, 4] ++ ascii "good" ++ ascii "PUB t\n" ++ [0, 0, 0, 1, 97] ++
      ascii "PUB u\n" ++ [0, 0, 0, 1, 97])).replies = [.json, .ok, .err .E_UNAUTHORIZED] := by decide
example : (serveX Examples.xauth Examples.x0 [] (magicV2 ++ ascii "PUB t\n" ++ [0, 0, 0, 1, 97])).replies =
    [.err .E_AUTH_FIRST] := by decide
example : (serveX Examples.xauth Examples.x0 [] (magicV2 ++ ascii "AUTH\n" ++ [0, 0, 0, 4] ++ ascii "none")).replies =
    [.err .E_UNAUTHORIZED] := by decide
example : (serveX Examples.xauth Examples.x0 [] (magicV2 ++ ascii "AUTH\n" ++ [0, 0, 0, 3] ++ ascii "bad")).replies =
    [.err .E_AUTH_FAILED] := by decide

end Nsq.Props.C09Audit
