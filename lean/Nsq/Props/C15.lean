import Nsq.Proofs.RegistryProto
import Nsq.Tie.Registry
import Nsq.Tie.RegistryProto
/-!
# C15 — nsqlookupd survives arbitrary input

Property theorems only (helpers: `Nsq.Proofs.RegistryProto`). The model
`Nsq.Model.RegistryProto.handle` is everything one TCP connection does with an arbitrary byte
stream; `decode` (encoding/json into `PeerInfo`) is an arbitrary function. The model is tied to
the code by `Nsq.Tie.Registry` (regenerated facts: size check present, error sites, command
words, route table) and by the hostile-stream / HTTP-sweep correspondence of harness/e4.
-/
namespace Nsq.Props.C15
open Nsq.Model.Registry Nsq.Model.Registry.AMap Nsq.Model.RegistryProto Nsq.Proofs.RegistryProto

/-- "No byte sequence on the TCP port can crash nsqlookupd", for a given shape of IDENTIFY. -/
def lookup_no_panic_stmt (v : Variant) : Prop :=
  ∀ (decode : List UInt8 → Option Info) (r : Registry) (p : Nat) (now : Int) (inp : List UInt8),
    (handle v decode r p now inp).fin ≠ .panic

/-- The code with fix F2 (size range check before `make`): no input panics. -/
theorem lookup_no_panic : lookup_no_panic_stmt fixedV :=
  fun decode r p now inp => handle_fixed_no_panic decode r p now inp

/-- The code before fix F2: FALSE. Witness: magic, `IDENTIFY\n`, size `FF FF FF FF`
(13 bytes after the magic) reaches `make([]byte, -1)`. -/
theorem lookup_no_panic_unfixed_false : ¬ lookup_no_panic_stmt unfixedV := by
  intro h
  exact h (fun _ => none) init 1 0 (magicV1 ++ cmdIDENTIFY ++ [10, 255, 255, 255, 255]) (by decide)

/-- non-vacuity: on the same witness the fixed code answers `E_BAD_BODY` and closes -/
example : (handle fixedV (fun _ => none) init 1 0 (magicV1 ++ cmdIDENTIFY ++ [10, 255, 255, 255, 255])).fin = .fatal := by
  decide

end Nsq.Props.C15
