import Nsq.Proofs.RegistryProto
import Nsq.Proofs.RegistryAdmin
import Nsq.Tie.Registry
import Nsq.Tie.RegistryProto
/-!
# C15 — nsqlookupd survives arbitrary input

Property theorems only (helpers: `Nsq.Proofs.RegistryProto`). The model
`Nsq.Model.RegistryProto.handle v decode r p now inp` is everything one TCP connection `p` does
with an arbitrary byte stream `inp` on an arbitrary registry `r` (magic, `ReadString('\n')`,
`TrimSpace`, split on blanks, dispatch, `getTopicChan`, IDENTIFY size + body + required fields,
exit path); `decode` (encoding/json into `PeerInfo`) is an arbitrary function. `httpStep` is the
route table plus the handlers' argument checks. Tied to the code by `Nsq.Tie.RegistryProto` /
`Nsq.Tie.Registry` (regenerated facts: size check present, error sites and codes, command
words, route table) and by the hostile-stream / HTTP-sweep correspondence of harness/e4.
-/
namespace Nsq.Props.C15
open Nsq.Model.Registry Nsq.Model.Registry.AMap Nsq.Model.RegistryProto Nsq.Proofs.RegistryProto
open Nsq.Spec.RegistrySpec Nsq.Proofs.RegistryDB Nsq.Proofs.RegistryRefine Nsq.Proofs.RegistryMap Nsq.Proofs.RegistryAdmin

/-- "No byte sequence on the TCP port can crash nsqlookupd", for a given shape of IDENTIFY. -/
def lookup_no_panic_stmt (v : Variant) : Prop :=
  ∀ (decode : List UInt8 → Option Info) (wf : Nat → Bool) (r : Registry) (p : Nat) (now : Int) (inp : List UInt8),
    (handleW v decode wf r p now inp).fin ≠ .panic

/-- The code with fix F2 (size range check before `make`): no input panics. -/
theorem lookup_no_panic : lookup_no_panic_stmt fixedV :=
  fun decode wf r p now inp => handleW_fixed_no_panic decode wf r p now inp

/-- The code before fix F2: FALSE. Witness: magic, `IDENTIFY\n`, size `FF FF FF FF`
(13 bytes after the magic) reaches `make([]byte, -1)`; connection goroutines have no
`recover`, the process dies. -/
theorem lookup_no_panic_unfixed_false : ¬ lookup_no_panic_stmt unfixedV := by
  intro h
  exact h (fun _ => none) (fun _ => true) init 1 0 (magicV1 ++ cmdIDENTIFY ++ [10, 255, 255, 255, 255]) (by decide)

/-- non-vacuity: on the same witness the fixed code answers `E_BAD_BODY` and closes -/
example : (handle fixedV (fun _ => none) init 1 0 (magicV1 ++ cmdIDENTIFY ++ [10, 255, 255, 255, 255])).fin = .fatal := by
  decide

/-- Malformed input gets one of the documented errors, and every error ends the connection:
the replies a peer receives are successes (`OK` / the IDENTIFY response) followed — exactly when
the loop ended on an error — by one `E_INVALID / E_BAD_TOPIC / E_BAD_CHANNEL / E_BAD_BODY` reply
(unless the peer stopped reading: `wf`); a wrong magic gets `E_BAD_PROTOCOL` only; fewer than
four bytes get nothing. -/
theorem errors_documented (decode : List UInt8 → Option Info) (wf : Nat → Bool) (r : Registry) (p : Nat)
    (now : Int) (inp : List UInt8) :
    let res := handleW fixedV decode wf r p now inp
    (res.fin = .shortMagic ∧ res.replies = []) ∨
    (res.fin = .badMagic ∧ res.replies = [ascii "E_BAD_PROTOCOL"]) ∨
    ∃ oks, (∀ b ∈ oks, okReply b) ∧
      ((res.fin = .eof ∧ res.replies = oks) ∨
       (res.fin = .fatal ∧ ∃ e, errReply e ∧ (res.replies = oks ++ [e] ∨ res.replies = oks)) ∨
       (res.fin = .writeFail ∧ res.replies = oks)) := by
  intro res
  have hres : res = handleW fixedV decode wf r p now inp := rfl
  clear_value res
  unfold handleW at hres
  split at hres
  · split at hres
    · rename_i body _
      subst hres
      right; right
      have hs := ioLoop_shape fixedV decode wf p now (body.length + 1) r body []
      obtain ⟨oks, hoks, hc⟩ := hs
      refine ⟨oks, hoks, ?_⟩
      cases hc with
      | inl h => exact Or.inl ⟨h.1, by simpa using h.2⟩
      | inr h =>
        cases h with
        | inl h =>
          obtain ⟨hf, e, he, hr⟩ := h
          exact Or.inr (Or.inl ⟨hf, e, he, by simpa using hr⟩)
        | inr h =>
          cases h with
          | inl h => exact absurd h (ioLoop_fixed_no_panic decode wf p now _ r _ [])
          | inr h => exact Or.inr (Or.inr ⟨h.1, by simpa using h.2⟩)
    · subst hres; right; left; exact ⟨rfl, rfl⟩
  · subst hres; left; exact ⟨rfl, rfl⟩

/-- non-vacuity: a stream with two good commands and a bad one -/
example : (handle fixedV (fun _ => none) init 1 0
    (magicV1 ++ cmdPING ++ [10] ++ cmdPING ++ [10] ++ [88, 10] ++ cmdPING ++ [10])).replies.length = 3 := by decide

/-- Nonsensical body sizes are refused (size ≤ 0 or above the limit): `E_BAD_BODY`, nothing read,
nothing changed. -/
theorem nonsense_size_refused (decode : List UInt8 → Option Info) (r : Registry) (p : Nat) (now : Int)
    (a b c d : UInt8) (body : List UInt8) (hi : identifiedB r p = false)
    (hs : be32 a b c d ≤ 0 ∨ be32 a b c d > maxIdentifyBody) :
    ∃ m, execIdentify fixedV decode r p now (a :: b :: c :: d :: body) = .reply r (.err .badBody m) body := by
  unfold execIdentify
  simp only [hi, Bool.false_eq_true, if_false, fixedV, Bool.true_and]
  by_cases h1 : be32 a b c d > maxIdentifyBody
  · refine ⟨ascii "IDENTIFY body too big " ++ intDec (be32 a b c d) ++ ascii " > " ++ intDec maxIdentifyBody, ?_⟩
    simp only [h1, decide_true, if_true]
  · have h2 : be32 a b c d ≤ 0 := by cases hs with
      | inl h => exact h
      | inr h => exact absurd h h1
    refine ⟨ascii "IDENTIFY invalid body size " ++ intDec (be32 a b c d), ?_⟩
    simp only [h1, h2, decide_true, decide_false, Bool.false_eq_true, if_true, if_false]

example : be32 255 255 255 255 ≤ 0 ∧ be32 127 255 255 255 > maxIdentifyBody ∧ be32 0 0 0 0 ≤ 0 := by decide

/-- The JSON decoder sees exactly the declared `bodyLen` bytes, and only white space may follow the
document: an IDENTIFY whose declared body has any other byte after the first JSON value is
refused with `E_BAD_BODY`, nothing is changed — and, accepted or not, the command loop continues
with the bytes AFTER the declared body (`body.drop n`): no byte of a body is ever read as a
command line. `value` (the parser of the first JSON value) is arbitrary. -/
theorem identify_trailing_garbage_refused (value : List UInt8 → Option (Info × Nat)) (r : Registry) (p : Nat)
    (now : Int) (a b c d : UInt8) (rest : List UInt8) (i : Info) (used : Nat)
    (hi : identifiedB r p = false)
    (hsz : 0 < be32 a b c d ∧ be32 a b c d ≤ maxIdentifyBody) (hlen : (be32 a b c d).toNat ≤ rest.length)
    (hv : value (rest.take (be32 a b c d).toNat) = some (i, used))
    (hg : ∃ x ∈ (rest.take (be32 a b c d).toNat).drop used, jsonWS x = false) :
    ∃ m, execIdentify fixedV (unmarshal value) r p now (a :: b :: c :: d :: rest) =
      .reply r (.err .badBody m) (rest.drop (be32 a b c d).toNat) := by
  have hu : unmarshal value (rest.take (be32 a b c d).toNat) = none := by
    unfold unmarshal
    simp only [hv]
    obtain ⟨x, hx, hws⟩ := hg
    have : ((rest.take (be32 a b c d).toNat).drop used).all jsonWS = false := by
      rw [List.all_eq_false]; exact ⟨x, hx, by simp [hws]⟩
    simp [this]
  unfold execIdentify
  have h1 : ¬ be32 a b c d > maxIdentifyBody := by omega
  have h2 : ¬ be32 a b c d ≤ 0 := by omega
  have h3 : ¬ be32 a b c d < 0 := by omega
  have h4 : ¬ rest.length < (be32 a b c d).toNat := by omega
  refine ⟨ascii "IDENTIFY failed to decode JSON body", ?_⟩
  simp only [hi, Bool.false_eq_true, if_false, fixedV, Bool.true_and, h1, h2, h3, h4, decide_false, hu]

/-- non-vacuity: `{…}}` (one byte of garbage after a 2-byte document) is refused, `{…} ` is accepted, and in
both cases `PING` after the body is the next command -/
example :
    let value : List UInt8 → Option (Info × Nat) := fun b => if b.take 2 = [123, 125] then some (⟨[104], [110], [118], 1, 2⟩, 2) else none
    (handle fixedV (unmarshal value) init 1 0 (magicV1 ++ cmdIDENTIFY ++ [10, 0, 0, 0, 3, 123, 125, 125] ++ cmdPING ++ [10])).replies.length = 1 ∧
    (handle fixedV (unmarshal value) init 1 0 (magicV1 ++ cmdIDENTIFY ++ [10, 0, 0, 0, 3, 123, 125, 32] ++ cmdPING ++ [10])).replies.length = 2 := by
  decide

/-- IDENTIFY bodies with a missing field (`broadcast_address`, `tcp_port`, `http_port`,
`version`) are refused and change nothing. -/
theorem identify_requires_fields (r : Registry) (p : Nat) (info : Info) (now : Int)
    (hi : identifiedB r p = false) (hm : missingFields info = true) :
    ∃ m, identify r p info now = (r, .err .badBody m) := by
  unfold identify; simp [hi, hm]

example : missingFields ⟨[104], [110], [], 1, 2⟩ = true ∧ missingFields ⟨[104], [], [118], 1, 2⟩ = false := by decide

/-- REGISTER / UNREGISTER before IDENTIFY are refused and change nothing. -/
theorem register_before_identify_rejected (r : Registry) (p : Nat) (params : List Name)
    (hi : identifiedB r p = false) :
    (∃ m, register r p params = (r, .err .invalid m)) ∧ (∃ m, unregister r p params = (r, .err .invalid m)) := by
  unfold register unregister; simp [hi]

/-- Invalid names are refused (TCP: `E_BAD_TOPIC` / `E_BAD_CHANNEL`, HTTP: 400) — including
names of 65 bytes and `#ephemeral` alone. -/
theorem invalid_names_refused (r : Registry) (p : Nat) (t ch : Name) (rest : List Name)
    (hi : identifiedB r p = true) :
    (validName t = false → ∃ m, (register r p (t :: rest)).2 = .err .badTopic m) ∧
    (validName t = true → ch ≠ [] → validName ch = false →
        ∃ m, (register r p (t :: ch :: rest)).2 = .err .badChannel m) ∧
    (validName t = false → (createTopic r ⟨false, some t, none, none⟩) = (r, .err 400 "INVALID_ARG_TOPIC")) := by
  refine ⟨?_, ?_, ?_⟩
  · intro hv; unfold register getTopicChan; simp [hi, hv]
  · intro hv hne hvc; unfold register getTopicChan; simp [hi, hv, hvc, hne, chanParam]
  · intro hv; unfold createTopic; simp [hv]

example : validName (List.replicate 65 110) = false ∧ validName (List.replicate 64 110) = true ∧
    validName ephSuffix = false ∧ validName ([97] ++ ephSuffix) = true ∧ validName [] = false ∧
    validName [97, 32, 98] = false ∧ validName star = false := by decide

/-- Isolation, PER TCP CONNECTION and for handler calls that do not overlap: whatever bytes connection `p`
sends, on whatever registry, every entry whose peer is another connection `q` is unchanged — its producer entries
under every key (hence its topics, channels, tombstones; the key of an entry it holds cannot be
garbage-collected) and its peer record (last ping, identity).
Scope (audit C28e, C12): (1) `handleW` runs the whole stream of `p` as ONE sequential run; in the daemon each
`RegistrationDB` method is its own critical section and `UNREGISTER topic` is several
(`FindRegistrations`, one `RemoveProducer` per channel, `RemoveProducerAndPrune`; lookup_protocol_v1.go:180-191),
so steps of other connections can fall in between. Every one of these sections removes only `p`'s own entry
(`frame_unregister` is proved section-wise from `getP_removeProducer` / `getP_removeAndGC`, which hold for each
section on any intermediate DB), so the frame property is preserved by every interleaving of sections; the
statement about interleavings of whole handlers is `Nsq.Props.C14`, section "Concurrency". (2) The HTTP admin API
is outside this theorem: it is the operator's interface and acts on everybody's registrations — see
`admin_call_touches_only`. -/
theorem tcp_isolation (v : Variant) (decode : List UInt8 → Option Info) (wf : Nat → Bool) (r : Registry) (p : Nat)
    (now : Int) (inp : List UInt8) (q : Nat) (hq : q ≠ p) :
    let r' := (handleW v decode wf r p now inp).reg
    (∀ k, getP r'.db k q = getP r.db k q) ∧ mget r'.peers q = mget r.peers q ∧
    (∀ k, (getP r.db k q).isSome = true → has r'.db k = true) := by
  intro r'
  have hf := frame_handleW v decode wf r p now inp
  refine ⟨fun k => hf.1 k q hq, hf.2 q hq, ?_⟩
  intro k hk
  apply Nsq.Proofs.RegistryRefine.has_of_getP r'.db k q
  rw [hf.1 k q hq]; exact hk

/-- … in terms of the answers: the bystander's view in the plain registry is unchanged. -/
theorem tcp_isolation_spec (v : Variant) (decode : List UInt8 → Option Info) (wf : Nat → Bool) (r : Registry)
    (p : Nat) (now : Int) (inp : List UInt8) (q : Nat) (hq : q ≠ p) :
    let s' := abs (handleW v decode wf r p now inp).reg
    (∀ t, s'.topicReg q t ↔ (abs r).topicReg q t) ∧ (∀ t c, s'.chanReg q t c ↔ (abs r).chanReg q t c) ∧
    (∀ t τ, s'.tomb q t τ ↔ (abs r).tomb q t τ) ∧ (s'.live q ↔ (abs r).live q) ∧ s'.peer q = (abs r).peer q ∧
    (∀ t, (abs r).topicReg q t → s'.knownTopic t) ∧ (∀ t c, (abs r).chanReg q t c → s'.knownChan t c) := by
  intro s'
  have h := tcp_isolation v decode wf r p now inp q hq
  refine ⟨?_, ?_, ?_, ?_, ?_, ?_, ?_⟩
  · intro t; simp only [s', abs, h.1]
  · intro t c; simp only [s', abs, h.1]
  · intro t τ; simp only [s', abs, h.1]
  · simp only [s', abs, h.1]
  · simp only [s', abs, h.2.1]
  · intro t ht; exact h.2.2 _ ht
  · intro t c hc; exact h.2.2 _ hc

/-- non-vacuity: a hostile connection 2 identifies, unregisters the bystander's ephemeral
channel and topic and dies; bystander 1 keeps its entries and the ephemeral keys survive -/
example :
    let r0 := run init [.identify 1 ⟨[104], [110], [118], 1, 2⟩ 0, .register 1 [[101] ++ ephSuffix, [100] ++ ephSuffix]]
    let res := handle fixedV (fun _ => some ⟨[120], [110], [118], 3, 4⟩) r0 2 5
      (magicV1 ++ cmdIDENTIFY ++ [10, 0, 0, 0, 1, 123] ++ cmdUNREGISTER ++ [32, 101] ++ ephSuffix ++ [32, 100] ++ ephSuffix ++ [10]
        ++ cmdUNREGISTER ++ [32, 101] ++ ephSuffix ++ [10] ++ [88, 10])
    res.fin = .fatal ∧ res.replies.length = 4 ∧ qTopics res.reg = [[101] ++ ephSuffix] ∧
      qChannels res.reg ([101] ++ ephSuffix) = [[100] ++ ephSuffix] := by decide

/-- HTTP, every method and EVERY path string (canonical or not), every argument combination: whatever the daemon
is allowed to answer (`httpOutcomes`: one answer, or a set for the `net/http/pprof` rows), an answer other than
200 changes nothing — unknown path 404, wrong method 405, a path that only matches after cleaning / case folding /
trailing-slash repair 301 (GET) or 307 (other methods, httprouter's redirects), malformed query / missing /
invalid argument 400, unknown channel 404 — and the only 5xx is the documented pprof-busy case: `GET
/debug/pprof/profile` answers 500 while another CPU profile is running. -/
theorem http_malformed_noop (c : Conf) (r : Registry) (method path : String) (a : HttpArgs) (now : Int) :
    ∀ o ∈ httpOutcomes c r method path a now,
      (o.2 ≠ 200 → o.1 = r) ∧
      (o.2 ∈ [200, 301, 307, 400, 404, 405] ∨ (o.2 = 500 ∧ path = "/debug/pprof/profile")) := by
  intro o ho
  unfold httpOutcomes at ho
  split at ho
  · simp only [List.mem_map] at ho
    obtain ⟨st, hst, rfl⟩ := ho
    refine ⟨fun _ => rfl, ?_⟩
    unfold pprofStatuses at hst
    split at hst
    · rename_i hp
      simp only [List.mem_cons, List.not_mem_nil, or_false] at hst
      rcases hst with rfl | rfl
      · left; simp
      · right; exact ⟨rfl, hp⟩
    · split at hst <;> (left; simp only [List.mem_cons, List.not_mem_nil, or_false] at hst ⊢; omega)
  · simp only [List.mem_singleton] at ho
    subst ho
    exact ⟨(httpStep_noop c r method path a now).1, Or.inl (httpStep_noop c r method path a now).2⟩

/-- the answer the driver replays (`httpStep`) is one of the allowed ones -/
theorem http_step_allowed (c : Conf) (r : Registry) (method path : String) (a : HttpArgs) (now : Int) :
    httpStep c r method path a now ∈ httpOutcomes c r method path a now := by
  unfold httpOutcomes
  split
  · rename_i h
    have : httpStep c r method path a now = (r, 200) := by unfold httpStep; rw [h]
    rw [this]
    simp only [List.mem_map]
    refine ⟨200, ?_, rfl⟩
    unfold pprofStatuses; split <;> (try split) <;> simp
  · simp

/-- A redirect is answered only for a path that is NOT registered for that method but is a registered path of the
same method after `CleanPath`, ASCII lower-casing and adding/removing one trailing slash; it is 301 for GET and 307
otherwise; a registered (method, path) pair always reaches its handler. -/
theorem redirect_characterised (method path : String) :
    (∀ code, route method path = .redirect code →
      routes.find? (fun e => e.1 = method && e.2.1 = path) = none ∧ fixMatches routes method path = true ∧
      path ≠ "/" ∧ code = (if method = "GET" then 301 else 307)) ∧
    (∀ e, routes.find? (fun e => e.1 = method && e.2.1 = path) = some e → route method path = .found e.2.2) := by
  refine ⟨?_, ?_⟩
  · intro code h
    unfold route at h
    split at h
    · simp at h
    · rename_i hf
      split at h
      · rename_i hc
        simp only [Bool.and_eq_true, ne_eq, decide_not, Bool.not_eq_true', decide_eq_false_iff_not] at hc
        simp only [Route.redirect.injEq] at h
        exact ⟨hf, hc.2, hc.1.2, h.symm⟩
      · split at h
        · split at h <;> simp at h
        · split at h <;> simp at h
  · intro e h
    unfold route; rw [h]

/-- non-vacuity: the path classes of audit item C11 -/
example : route "GET" "/lookup/" = .redirect 301 ∧ route "GET" "/LOOKUP" = .redirect 301 ∧
    route "GET" "//lookup" = .redirect 301 ∧ route "POST" "/topic/create/" = .redirect 307 ∧
    route "GET" "/debug/pprof/" = .redirect 301 ∧ route "GET" "/a/../lookup/." = .redirect 301 ∧
    route "OPTIONS" "*" = .options ∧ route "PUT" "/lookup/" = .notFound ∧ route "POST" "/LOOKUP" = .notFound ∧
    route "GET" "/" = .notFound ∧ route "GET" "/Topic/Create" = .notFound ∧
    cleanPath "/a/b/../c//./d/".toList = "/a/c/d/".toList := by decide

example : httpOutcomes ⟨0, 0⟩ init "GET" "/debug/pprof/profile" ⟨false, none, none, none⟩ 0 = [(init, 200), (init, 500)] ∧
    httpOutcomes ⟨0, 0⟩ init "GET" "/debug/pprof/heap" ⟨false, none, none, none⟩ 0 = [(init, 200), (init, 400)] ∧
    httpOutcomes ⟨0, 0⟩ init "GET" "/lookup/" ⟨false, none, none, none⟩ 0 = [(init, 301)] := by decide

/-- non-vacuity: the five kinds of answers of the route table -/
example : route "GET" "/lookup" = .found .lookup ∧ route "POST" "/lookup" = .methodNotAllowed ∧
    route "OPTIONS" "/lookup" = .options ∧ route "GET" "/nope" = .notFound ∧
    route "POST" "/topic/tombstone" = .found .tombstone := by decide

/-- (audit C28b) The error table is a CHARACTERISATION, not only a shape: whatever `Exec` answers to a command
line, the error code of the answer (or its absence) is exactly the one `expectedErr` — the protocol's error table,
spelled out condition by condition — names. A model that answers `OK` to everything does not satisfy this. -/
theorem errors_characterised (decode : List UInt8 → Option Info) (r r' : Registry) (p : Nat) (now : Int)
    (params : List Name) (rest rest' : List UInt8) (out : TcpOut)
    (h : exec fixedV decode r p now params rest = .reply r' out rest') :
    errCodeOf out = expectedErr decode r p params rest :=
  exec_errCode decode r r' p now params rest rest' out h

/-- … lifted to the byte stream (audit C28c): `inp` is ANY stream whose next line — as `ReadString('\n')`,
`TrimSpace` and `Split(" ")` cut it — is `line`. If the table names an error for it, the connection ends right
there: the error (with that code) is the last reply, the clean-up has run; if it names none, the command is
answered with a success and the loop goes on with the bytes after it. -/
theorem stream_line_characterised (decode : List UInt8 → Option Info) (wf : Nat → Bool) (p : Nat) (now : Int)
    (fuel : Nat) (r : Registry) (inp : List UInt8) (acc : List (List UInt8)) (line rest : List UInt8)
    (hl : readLine inp = some (line, rest)) :
    match expectedErr decode r p (splitSp (trimSpace line)) rest with
    | some code =>
      (ioLoop fixedV decode wf p now (fuel + 1) r inp acc).fin = .fatal ∧
      (wf acc.length = true → ∃ m, (ioLoop fixedV decode wf p now (fuel + 1) r inp acc).replies =
        acc ++ [ascii (codeName code) ++ [32] ++ m]) ∧
      ∃ r', (ioLoop fixedV decode wf p now (fuel + 1) r inp acc).reg = disconnect r' p
    | none =>
      ∃ r' out rest', exec fixedV decode r p now (splitSp (trimSpace line)) rest = .reply r' out rest' ∧
        okReply (replyBytes out) ∧
        (wf acc.length = true → ioLoop fixedV decode wf p now (fuel + 1) r inp acc =
          ioLoop fixedV decode wf p now fuel r' rest' (acc ++ [replyBytes out])) := by
  rw [ioLoop_line fixedV decode wf p now fuel r inp acc line rest hl]
  cases hx : exec fixedV decode r p now (splitSp (trimSpace line)) rest with
  | panic w => exact absurd hx (exec_fixed_no_panic decode r p now _ rest (splitSp_ne_nil _) w)
  | reply r' out rest' =>
    have hc := exec_errCode decode r r' p now _ rest rest' out hx
    rw [← hc]
    cases he : errCodeOf out with
    | some code =>
      obtain ⟨m, rfl⟩ := errCodeOf_some out code he
      simp only [TcpOut.isErr, if_true]
      refine ⟨?_, ?_, ?_⟩
      · trivial
      · intro hw
        exact ⟨m, by simp [hw, replyBytes]⟩
      · exact ⟨r', rfl⟩
    | none =>
      have hne := errCodeOf_none out he
      refine ⟨r', out, rest', rfl, ?_, ?_⟩
      · cases out with
        | ok => exact Or.inl rfl
        | identified => exact Or.inr rfl
        | err c m => simp [TcpOut.isErr] at hne
      · intro hw
        simp [hne, hw]

/-- non-vacuity, on bytes through `handle`: after a valid IDENTIFY (reply 1), `REGISTER bad$name` /
`UNREGISTER t bad$name` / `REGISTER` alone end the connection with a second, last reply, and the table names
`E_BAD_TOPIC` / `E_BAD_CHANNEL` / `E_INVALID` for exactly those lines; `REGISTER t` does not end it -/
example :
    let dec : List UInt8 → Option Info := fun _ => some ⟨[104], [110], [118], 1, 2⟩
    let idf := magicV1 ++ cmdIDENTIFY ++ [10, 0, 0, 0, 1, 123]
    let bad : List UInt8 := [98, 97, 100, 36, 110, 97, 109, 101]
    let r1 := (identify init 1 ⟨[104], [110], [118], 1, 2⟩ 0).1
    ((handle fixedV dec init 1 0 (idf ++ cmdREGISTER ++ [32] ++ bad ++ [10] ++ cmdPING ++ [10])).fin = .fatal ∧
     (handle fixedV dec init 1 0 (idf ++ cmdREGISTER ++ [32] ++ bad ++ [10] ++ cmdPING ++ [10])).replies.length = 2 ∧
     expectedErr dec r1 1 (splitSp (trimSpace (cmdREGISTER ++ [32] ++ bad ++ [10]))) (cmdPING ++ [10]) = some .badTopic) ∧
    ((handle fixedV dec init 1 0 (idf ++ cmdUNREGISTER ++ [32, 116, 32] ++ bad ++ [10])).fin = .fatal ∧
     expectedErr dec r1 1 (splitSp (trimSpace (cmdUNREGISTER ++ [32, 116, 32] ++ bad ++ [10]))) [] = some .badChannel) ∧
    ((handle fixedV dec init 1 0 (idf ++ cmdREGISTER ++ [10])).fin = .fatal ∧
     expectedErr dec r1 1 (splitSp (trimSpace (cmdREGISTER ++ [10]))) [] = some .invalid) ∧
    ((handle fixedV dec init 1 0 (idf ++ cmdREGISTER ++ [32, 116, 10])).fin = .eof ∧
     expectedErr dec r1 1 (splitSp (trimSpace (cmdREGISTER ++ [32, 116, 10]))) [] = none ∧
     expectedErr dec init 1 (splitSp (trimSpace (cmdREGISTER ++ [32, 116, 10]))) [] = some .invalid) := by decide

/-- (audit C28a) A second IDENTIFY, on the path the code really takes: the stream-level loop dispatches on the
command word, and `IDENTIFY` on an identified connection is refused BEFORE any size or body byte is read
(`execIdentify`'s first test) — whatever follows the command word on the line and in the stream. The
connection is closed and everything it registered is gone. -/
theorem reidentify_rejected (v : Variant) (decode : List UInt8 → Option Info) (wf : Nat → Bool) (p : Nat) (now : Int)
    (fuel : Nat) (r : Registry) (inp : List UInt8) (acc : List (List UInt8)) (line rest : List UInt8) (args : List Name)
    (hl : readLine inp = some (line, rest)) (hw : splitSp (trimSpace line) = cmdIDENTIFY :: args)
    (hi : identifiedB r p = true) :
    ioLoop v decode wf p now (fuel + 1) r inp acc =
      ⟨disconnect (disconnect r p) p,
       if wf acc.length then acc ++ [ascii "E_INVALID" ++ [32] ++ ascii "cannot IDENTIFY again"] else acc, .fatal⟩ := by
  rw [ioLoop_line v decode wf p now fuel r inp acc line rest hl, hw]
  have hne : cmdIDENTIFY ≠ cmdPING := by decide
  simp [exec, hne, execIdentify, hi, TcpOut.isErr, replyBytes, codeName]

/-- the clean-up is idempotent: after it nothing of `p` is left (so `disconnect (disconnect r p) p` above is
`disconnect r p`) -/
theorem disconnect_idem (r : Registry) (p : Nat) : disconnect (disconnect r p) p = disconnect r p := by
  have h : identifiedB (disconnect r p) p = false := by
    by_cases hi : identifiedB r p = true
    · rw [Nsq.Proofs.RegistryWF.identifiedB_disconnect r p p hi]; simp
    · have : disconnect r p = r := by unfold disconnect; simp [hi]
      rw [this]; simpa using hi
  generalize disconnect r p = r1 at h ⊢
  unfold disconnect; simp [h]

/-- non-vacuity through `handle` on bytes: IDENTIFY, REGISTER t, then `IDENTIFY junk` + 4 size bytes: three
replies, closed, topic `t` has no producer left (the key stays, as after any disconnect) -/
example :
    let dec : List UInt8 → Option Info := fun _ => some ⟨[104], [110], [118], 1, 2⟩
    let res := handle fixedV dec init 1 0 (magicV1 ++ cmdIDENTIFY ++ [10, 0, 0, 0, 1, 123] ++ cmdREGISTER ++ [32, 116, 10] ++
      cmdIDENTIFY ++ [32, 120, 10, 0, 0, 0, 1, 123] ++ cmdPING ++ [10])
    res.fin = .fatal ∧ res.replies.length = 3 ∧ identifiedB res.reg 1 = false ∧ getP res.reg.db (topicKey [116]) 1 = none ∧
      qTopics res.reg = [[116]] := by decide

/-- (audit C28d, C12) Which commands and routes validate names, and which do not.
TCP: `UNREGISTER` validates exactly like `REGISTER` (`getTopicChan`): an invalid topic gets `E_BAD_TOPIC`, an
invalid non-empty channel `E_BAD_CHANNEL`, and the connection is cleaned up.
HTTP: `/topic/create`, `/channel/create`, `/channel/delete` validate both names (400, nothing changed).
`/topic/delete`, `/topic/tombstone`, `/lookup`, `/channels` do NOT validate (`doDeleteTopic`,
`doTombstoneTopicProducer`, `doLookup`, `doChannels` pass the argument straight to the DB): any byte string is
accepted — 200 for the two POST routes and `/channels`, 200/404 for `/lookup` — including `*`, which the DB
methods treat as a wild card. -/
theorem name_validation_by_route (c : Conf) (r : Registry) (p : Nat) (t ch : Name) (rest : List Name) (node : Name) (now : Int)
    (hi : identifiedB r p = true) :
    (validName t = false → ∃ m, unregister r p (t :: rest) = (disconnect r p, .err .badTopic m)) ∧
    (validName t = true → ch ≠ [] → validName ch = false →
        ∃ m, unregister r p (t :: ch :: rest) = (disconnect r p, .err .badChannel m)) ∧
    (validName t = false ∨ validName ch = false →
        (∃ m, createChannel r ⟨false, some t, some ch, none⟩ = (r, .err 400 m)) ∧
        (∃ m, deleteChannel r ⟨false, some t, some ch, none⟩ = (r, .err 400 m))) ∧
    ((deleteTopic r ⟨false, some t, none, none⟩).2 = .ok ∧ (tombstone r ⟨false, some t, none, some node⟩ now).2 = .ok ∧
      httpStep c r "GET" "/channels" ⟨false, some t, none, none⟩ now = (r, 200) ∧
      (httpStep c r "GET" "/lookup" ⟨false, some t, none, none⟩ now = (r, 200) ∨
       httpStep c r "GET" "/lookup" ⟨false, some t, none, none⟩ now = (r, 404))) := by
  refine ⟨?_, ?_, ?_, ?_⟩
  · intro hv; unfold unregister getTopicChan; simp [hi, hv]
  · intro hv hne hvc; unfold unregister getTopicChan; simp [hi, hv, hvc, hne, chanParam]
  · intro hv
    unfold createChannel deleteChannel getTopicChannelArgs
    by_cases h1 : validName t = true
    · have h2 : validName ch = false := by cases hv with
        | inl h => rw [h1] at h; cases h
        | inr h => exact h
      simp [h1, h2]
    · simp [h1]
  · refine ⟨rfl, rfl, rfl, ?_⟩
    have hr : route "GET" "/lookup" = .found .lookup := by decide
    unfold httpStep
    simp only [hr, Bool.false_eq_true, if_false]
    by_cases hs : t = star
    · simp only [hs, if_true]
      cases (findRegistrations r.db .topic star []).isEmpty <;> simp
    · simp only [hs, if_false]
      cases (qLookup c r t now).isNone <;> simp

/-- non-vacuity: an invalid name handed to `/topic/delete` is accepted (200) and — no key has such a name — changes
nothing; `*` is accepted and removes every topic and channel, also those a connection holds -/
example :
    let r0 := run init [.identify 1 ⟨[104], [110], [118], 1, 2⟩ 0, .register 1 [[116], [99]], .register 1 [[117]]]
    deleteTopic r0 ⟨false, some [98, 97, 100, 36], none, none⟩ = (r0, .ok) ∧
    (deleteTopic r0 ⟨false, some star, none, none⟩).2 = .ok ∧ qTopics (deleteTopic r0 ⟨false, some star, none, none⟩).1 = [] ∧
    qTopics r0 = [[116], [117]] ∧ identifiedB (deleteTopic r0 ⟨false, some star, none, none⟩).1 1 = true := by decide

/-- (audit C12) The HTTP admin API is the operator's interface: it is unauthenticated and acts on registrations of
EVERY connection. Isolation (`tcp_isolation`) is per TCP connection only. This theorem says exactly which entries
an ACCEPTED admin call touches, for every registry and every argument:
* no admin call changes a peer record;
* `/topic/create`, `/channel/create`: no producer entry changes, no key disappears, the only keys that can appear
  are the named topic key / the named channel key and its topic key;
* `/topic/delete?topic=t`: exactly the keys in `delTouched t` go (with every producer entry under them, of
  whatever connection); everything else is as before — for `t = "*"` that is every topic and channel;
* `/channel/delete`: exactly the named channel key goes;
* `/topic/tombstone`: no key appears or disappears, no producer entry appears or disappears; the only change is
  the tombstone flag/time of entries in `tombTouched` (producers at `node` under that topic). -/
theorem admin_call_touches_only (r : Registry) (a : HttpArgs) (now : Int) :
    ((createTopic r a).1.peers = r.peers ∧ (deleteTopic r a).1.peers = r.peers ∧ (createChannel r a).1.peers = r.peers ∧
      (deleteChannel r a).1.peers = r.peers ∧ (tombstone r a now).1.peers = r.peers) ∧
    (∀ k q, getP (createTopic r a).1.db k q = getP r.db k q ∧ getP (createChannel r a).1.db k q = getP r.db k q) ∧
    (∀ k, (has r.db k = true → has (createTopic r a).1.db k = true ∧ has (createChannel r a).1.db k = true) ∧
      (has (createTopic r a).1.db k = true → has r.db k = true ∨ ∃ t, a.topic = some t ∧ k = topicKey t) ∧
      (has (createChannel r a).1.db k = true →
        has r.db k = true ∨ ∃ t c, a.topic = some t ∧ a.channel = some c ∧ (k = topicKey t ∨ k = chanKey t c))) ∧
    (∀ t, (deleteTopic r a).2 = .ok → a.topic = some t → ∀ k,
      (has (deleteTopic r a).1.db k = true ↔ has r.db k = true ∧ delTouched t k = false) ∧
      ∀ q, getP (deleteTopic r a).1.db k q = if delTouched t k then none else getP r.db k q) ∧
    (∀ t c, (deleteChannel r a).2 = .ok → a.topic = some t → a.channel = some c → ∀ k,
      has (deleteChannel r a).1.db k = (decide (k ≠ chanKey t c) && has r.db k) ∧
      ∀ q, getP (deleteChannel r a).1.db k q = if k = chanKey t c then none else getP r.db k q) ∧
    (∀ t node, (tombstone r a now).2 = .ok → a.topic = some t → a.node = some node → ∀ k,
      has (tombstone r a now).1.db k = has r.db k ∧
      ∀ q, getP (tombstone r a now).1.db k q = getP r.db k q ∨
        (tombTouched r t node k q = true ∧ getP (tombstone r a now).1.db k q = (getP r.db k q).map (fun _ => ⟨true, now⟩))) := by
  refine ⟨admin_peers r a now, fun k q => create_getP r a k q, fun k => create_has r a k, ?_, ?_, ?_⟩
  · intro t hok ht k; exact deleteTopic_touches r a t hok ht k
  · intro t c hok ht hc k; exact deleteChannel_touches r a t c hok ht hc k
  · intro t node hok ht hn k; exact tombstone_touches r a now t node hok ht hn k

/-- (audit C28g) "A connection can make nsqlookupd hold only a bounded number of bytes before it is answered or
closed" — the statement that would be needed for the resource side of "no byte sequence can stop it answering
others". -/
def line_buffer_bounded_stmt : Prop := ∃ N, ∀ inp : List UInt8, lineBuffered inp ≤ N

/-- FALSE for the code as it is: `reader.ReadString('\n')` (lookup_protocol_v1.go:41) has no maximum line length;
`N + 1` bytes without a newline are all buffered. Open known finding `unbounded-line-read` (replayed on every run:
harness `TestVerifE4Unbounded`). The HTTP sibling `unbounded-http-body-read` (`io.ReadAll(req.Body)` in the former
`internal/http_api.NewReqParams`) is FIXED by /repo 894b9eb (F33: `NewReqParams` only calls `url.ParseQuery`); the same
harness replays it and a reproduction is a VIOLATION. Note that `lineBuffered` is the model's definition of "bytes held":
this theorem is a statement about the model, the daemon's memory growth is test evidence. -/
theorem line_buffer_bounded_false : ¬ line_buffer_bounded_stmt := by
  intro ⟨N, h⟩
  have hr : ∀ n, readLine (List.replicate n (65 : UInt8)) = none := by
    intro n
    induction n with
    | zero => rfl
    | succ n ih => simp [List.replicate_succ, readLine, ih]
  have := h (List.replicate (N + 1) 65)
  simp [lineBuffered, hr] at this
  omega

/-- What does hold (`_partial`): the daemon never buffers more than the connection sent (growth is linear with
factor one — what the replay observes), and a stream whose first line ends within `L` bytes buffers at most `L`. -/
theorem line_buffer_partial (inp : List UInt8) :
    lineBuffered inp ≤ inp.length ∧ ∀ line rest, readLine inp = some (line, rest) → lineBuffered inp = line.length := by
  have hlen : ∀ (l : List UInt8) line rest, readLine l = some (line, rest) → line.length ≤ l.length := by
    intro l
    induction l with
    | nil => intro line rest h; simp [readLine] at h
    | cons c t ih =>
      intro line rest h
      unfold readLine at h
      by_cases hc : c = 10
      · simp only [hc, if_true, Option.some.injEq, Prod.mk.injEq] at h
        rw [← h.1]; simp
      · simp only [hc, if_false] at h
        cases hr : readLine t with
        | none => simp [hr] at h
        | some lr =>
          simp only [hr, Option.some.injEq, Prod.mk.injEq] at h
          have := ih lr.1 lr.2 (by rw [hr])
          rw [← h.1]; simp; omega
  constructor
  · unfold lineBuffered
    cases hr : readLine inp with
    | none => simp
    | some lr => exact hlen inp lr.1 lr.2 (by rw [hr])
  · intro line rest h
    simp [lineBuffered, h]

example : lineBuffered (List.replicate 100 65) = 100 ∧ lineBuffered (cmdPING ++ [10] ++ List.replicate 100 65) = 5 := by decide

end Nsq.Props.C15
