import Nsq.Proofs.RegistryProto
import Nsq.Tie.Registry
import Nsq.Tie.RegistryProto
/-!
# C15 — nsqlookupd survives arbitrary input

Property theorems only (helpers: `Nsq.Proofs.RegistryProto`). The model
`Nsq.Model.RegistryProto.handle v decode r p now inp` is everything one TCP connection `p` does
with an arbitrary byte stream `inp` on an arbitrary registry `r` (magic, `ReadString('\n')`,
`TrimSpace`, split on blanks, dispatch, `getTopicChan`, IDENTIFY size + body + required fields,
exit path); `decode` (encoding/json into `PeerInfo`) is an arbitrary function. `httpStep` is the
route table plus the handlers' argument checks. Tied to the code by `Nsq.Tie.RegistryProto` /
`Nsq.Tie.Registry` (regenerated facts: size check present, error sites and codes, command
words, route table) and by the hostile-stream / HTTP-sweep correspondence of harness/e4.
-/
namespace Nsq.Props.C15
open Nsq.Model.Registry Nsq.Model.Registry.AMap Nsq.Model.RegistryProto Nsq.Proofs.RegistryProto
open Nsq.Spec.RegistrySpec

/-- "No byte sequence on the TCP port can crash nsqlookupd", for a given shape of IDENTIFY. -/
def lookup_no_panic_stmt (v : Variant) : Prop :=
  ∀ (decode : List UInt8 → Option Info) (wf : Nat → Bool) (r : Registry) (p : Nat) (now : Int) (inp : List UInt8),
    (handleW v decode wf r p now inp).fin ≠ .panic

/-- The code with fix F2 (size range check before `make`): no input panics. -/
theorem lookup_no_panic : lookup_no_panic_stmt fixedV :=
  fun decode wf r p now inp => handleW_fixed_no_panic decode wf r p now inp

/-- The code before fix F2: FALSE. Witness: magic, `IDENTIFY\n`, size `FF FF FF FF`
(13 bytes after the magic) reaches `make([]byte, -1)`; connection goroutines have no
`recover`, the process dies. -/
theorem lookup_no_panic_unfixed_false : ¬ lookup_no_panic_stmt unfixedV := by
  intro h
  exact h (fun _ => none) (fun _ => true) init 1 0 (magicV1 ++ cmdIDENTIFY ++ [10, 255, 255, 255, 255]) (by decide)

/-- non-vacuity: on the same witness the fixed code answers `E_BAD_BODY` and closes -/
example : (handle fixedV (fun _ => none) init 1 0 (magicV1 ++ cmdIDENTIFY ++ [10, 255, 255, 255, 255])).fin = .fatal := by
  decide

/-- Malformed input gets one of the documented errors, and every error ends the connection:
the replies a peer receives are successes (`OK` / the IDENTIFY response) followed — exactly when
the loop ended on an error — by one `E_INVALID / E_BAD_TOPIC / E_BAD_CHANNEL / E_BAD_BODY` reply
(unless the peer stopped reading: `wf`); a wrong magic gets `E_BAD_PROTOCOL` only; fewer than
four bytes get nothing. -/
theorem errors_documented (decode : List UInt8 → Option Info) (wf : Nat → Bool) (r : Registry) (p : Nat)
    (now : Int) (inp : List UInt8) :
    let res := handleW fixedV decode wf r p now inp
    (res.fin = .shortMagic ∧ res.replies = []) ∨
    (res.fin = .badMagic ∧ res.replies = [ascii "E_BAD_PROTOCOL"]) ∨
    ∃ oks, (∀ b ∈ oks, okReply b) ∧
      ((res.fin = .eof ∧ res.replies = oks) ∨
       (res.fin = .fatal ∧ ∃ e, errReply e ∧ (res.replies = oks ++ [e] ∨ res.replies = oks)) ∨
       (res.fin = .writeFail ∧ res.replies = oks)) := by
  intro res
  have hres : res = handleW fixedV decode wf r p now inp := rfl
  clear_value res
  unfold handleW at hres
  split at hres
  · split at hres
    · rename_i body _
      subst hres
      right; right
      have hs := ioLoop_shape fixedV decode wf p now (body.length + 1) r body []
      obtain ⟨oks, hoks, hc⟩ := hs
      refine ⟨oks, hoks, ?_⟩
      cases hc with
      | inl h => exact Or.inl ⟨h.1, by simpa using h.2⟩
      | inr h =>
        cases h with
        | inl h =>
          obtain ⟨hf, e, he, hr⟩ := h
          exact Or.inr (Or.inl ⟨hf, e, he, by simpa using hr⟩)
        | inr h =>
          cases h with
          | inl h => exact absurd h (ioLoop_fixed_no_panic decode wf p now _ r _ [])
          | inr h => exact Or.inr (Or.inr ⟨h.1, by simpa using h.2⟩)
    · subst hres; right; left; exact ⟨rfl, rfl⟩
  · subst hres; left; exact ⟨rfl, rfl⟩

/-- non-vacuity: a stream with two good commands and a bad one -/
example : (handle fixedV (fun _ => none) init 1 0
    (magicV1 ++ cmdPING ++ [10] ++ cmdPING ++ [10] ++ [88, 10] ++ cmdPING ++ [10])).replies.length = 3 := by decide

/-- Nonsensical body sizes are refused (size ≤ 0 or above the limit): `E_BAD_BODY`, nothing read,
nothing changed. -/
theorem nonsense_size_refused (decode : List UInt8 → Option Info) (r : Registry) (p : Nat) (now : Int)
    (a b c d : UInt8) (body : List UInt8) (hi : identifiedB r p = false)
    (hs : be32 a b c d ≤ 0 ∨ be32 a b c d > maxIdentifyBody) :
    ∃ m, execIdentify fixedV decode r p now (a :: b :: c :: d :: body) = .reply r (.err .badBody m) body := by
  unfold execIdentify
  simp only [hi, Bool.false_eq_true, if_false, fixedV, Bool.true_and]
  by_cases h1 : be32 a b c d > maxIdentifyBody
  · refine ⟨ascii "IDENTIFY body too big " ++ intDec (be32 a b c d) ++ ascii " > " ++ intDec maxIdentifyBody, ?_⟩
    simp only [h1, decide_true, if_true]
  · have h2 : be32 a b c d ≤ 0 := by cases hs with
      | inl h => exact h
      | inr h => exact absurd h h1
    refine ⟨ascii "IDENTIFY invalid body size " ++ intDec (be32 a b c d), ?_⟩
    simp only [h1, h2, decide_true, decide_false, Bool.false_eq_true, if_true, if_false]

example : be32 255 255 255 255 ≤ 0 ∧ be32 127 255 255 255 > maxIdentifyBody ∧ be32 0 0 0 0 ≤ 0 := by decide

/-- The JSON decoder sees exactly the declared `bodyLen` bytes, and only white space may follow the
document: an IDENTIFY whose declared body has any other byte after the first JSON value is
refused with `E_BAD_BODY`, nothing is changed — and, accepted or not, the command loop continues
with the bytes AFTER the declared body (`body.drop n`): no byte of a body is ever read as a
command line. `value` (the parser of the first JSON value) is arbitrary. -/
theorem identify_trailing_garbage_refused (value : List UInt8 → Option (Info × Nat)) (r : Registry) (p : Nat)
    (now : Int) (a b c d : UInt8) (rest : List UInt8) (i : Info) (used : Nat)
    (hi : identifiedB r p = false)
    (hsz : 0 < be32 a b c d ∧ be32 a b c d ≤ maxIdentifyBody) (hlen : (be32 a b c d).toNat ≤ rest.length)
    (hv : value (rest.take (be32 a b c d).toNat) = some (i, used))
    (hg : ∃ x ∈ (rest.take (be32 a b c d).toNat).drop used, jsonWS x = false) :
    ∃ m, execIdentify fixedV (unmarshal value) r p now (a :: b :: c :: d :: rest) =
      .reply r (.err .badBody m) (rest.drop (be32 a b c d).toNat) := by
  have hu : unmarshal value (rest.take (be32 a b c d).toNat) = none := by
    unfold unmarshal
    simp only [hv]
    obtain ⟨x, hx, hws⟩ := hg
    have : ((rest.take (be32 a b c d).toNat).drop used).all jsonWS = false := by
      rw [List.all_eq_false]; exact ⟨x, hx, by simp [hws]⟩
    simp [this]
  unfold execIdentify
  have h1 : ¬ be32 a b c d > maxIdentifyBody := by omega
  have h2 : ¬ be32 a b c d ≤ 0 := by omega
  have h3 : ¬ be32 a b c d < 0 := by omega
  have h4 : ¬ rest.length < (be32 a b c d).toNat := by omega
  refine ⟨ascii "IDENTIFY failed to decode JSON body", ?_⟩
  simp only [hi, Bool.false_eq_true, if_false, fixedV, Bool.true_and, h1, h2, h3, h4, decide_false, hu]

/-- non-vacuity: `{…}}` (one byte of garbage after a 2-byte document) is refused, `{…} ` is accepted, and in
both cases `PING` after the body is the next command -/
example :
    let value : List UInt8 → Option (Info × Nat) := fun b => if b.take 2 = [123, 125] then some (⟨[104], [110], [118], 1, 2⟩, 2) else none
    (handle fixedV (unmarshal value) init 1 0 (magicV1 ++ cmdIDENTIFY ++ [10, 0, 0, 0, 3, 123, 125, 125] ++ cmdPING ++ [10])).replies.length = 1 ∧
    (handle fixedV (unmarshal value) init 1 0 (magicV1 ++ cmdIDENTIFY ++ [10, 0, 0, 0, 3, 123, 125, 32] ++ cmdPING ++ [10])).replies.length = 2 := by
  decide

/-- IDENTIFY bodies with a missing field (`broadcast_address`, `tcp_port`, `http_port`,
`version`) are refused and change nothing. -/
theorem identify_requires_fields (r : Registry) (p : Nat) (info : Info) (now : Int)
    (hi : identifiedB r p = false) (hm : missingFields info = true) :
    ∃ m, identify r p info now = (r, .err .badBody m) := by
  unfold identify; simp [hi, hm]

example : missingFields ⟨[104], [110], [], 1, 2⟩ = true ∧ missingFields ⟨[104], [], [118], 1, 2⟩ = false := by decide

/-- REGISTER / UNREGISTER before IDENTIFY are refused and change nothing. -/
theorem register_before_identify_rejected (r : Registry) (p : Nat) (params : List Name)
    (hi : identifiedB r p = false) :
    (∃ m, register r p params = (r, .err .invalid m)) ∧ (∃ m, unregister r p params = (r, .err .invalid m)) := by
  unfold register unregister; simp [hi]

/-- A second IDENTIFY is refused; the connection is closed and its registrations are gone. -/
theorem reidentify_rejected (r : Registry) (p : Nat) (info : Info) (now : Int) (hi : identifiedB r p = true) :
    ∃ m, identify r p info now = (disconnect r p, .err .invalid m) := by
  unfold identify; simp [hi]

/-- Invalid names are refused (TCP: `E_BAD_TOPIC` / `E_BAD_CHANNEL`, HTTP: 400) — including
names of 65 bytes and `#ephemeral` alone. -/
theorem invalid_names_refused (r : Registry) (p : Nat) (t ch : Name) (rest : List Name)
    (hi : identifiedB r p = true) :
    (validName t = false → ∃ m, (register r p (t :: rest)).2 = .err .badTopic m) ∧
    (validName t = true → ch ≠ [] → validName ch = false →
        ∃ m, (register r p (t :: ch :: rest)).2 = .err .badChannel m) ∧
    (validName t = false → (createTopic r ⟨false, some t, none, none⟩) = (r, .err 400 "INVALID_ARG_TOPIC")) := by
  refine ⟨?_, ?_, ?_⟩
  · intro hv; unfold register getTopicChan; simp [hi, hv]
  · intro hv hne hvc; unfold register getTopicChan; simp [hi, hv, hvc, hne, chanParam]
  · intro hv; unfold createTopic; simp [hv]

example : validName (List.replicate 65 110) = false ∧ validName (List.replicate 64 110) = true ∧
    validName ephSuffix = false ∧ validName ([97] ++ ephSuffix) = true ∧ validName [] = false ∧
    validName [97, 32, 98] = false ∧ validName star = false := by decide

/-- Isolation: whatever bytes connection `p` sends, on whatever registry, every entry whose
peer is another connection `q` is unchanged — its producer entries under every key (hence its
topics, channels, tombstones; the key of an entry it holds cannot be garbage-collected) and
its peer record (last ping, identity). -/
theorem tcp_isolation (v : Variant) (decode : List UInt8 → Option Info) (wf : Nat → Bool) (r : Registry) (p : Nat)
    (now : Int) (inp : List UInt8) (q : Nat) (hq : q ≠ p) :
    let r' := (handleW v decode wf r p now inp).reg
    (∀ k, getP r'.db k q = getP r.db k q) ∧ mget r'.peers q = mget r.peers q ∧
    (∀ k, (getP r.db k q).isSome = true → has r'.db k = true) := by
  intro r'
  have hf := frame_handleW v decode wf r p now inp
  refine ⟨fun k => hf.1 k q hq, hf.2 q hq, ?_⟩
  intro k hk
  apply Nsq.Proofs.RegistryRefine.has_of_getP r'.db k q
  rw [hf.1 k q hq]; exact hk

/-- … in terms of the answers: the bystander's view in the plain registry is unchanged. -/
theorem tcp_isolation_spec (v : Variant) (decode : List UInt8 → Option Info) (wf : Nat → Bool) (r : Registry)
    (p : Nat) (now : Int) (inp : List UInt8) (q : Nat) (hq : q ≠ p) :
    let s' := abs (handleW v decode wf r p now inp).reg
    (∀ t, s'.topicReg q t ↔ (abs r).topicReg q t) ∧ (∀ t c, s'.chanReg q t c ↔ (abs r).chanReg q t c) ∧
    (∀ t τ, s'.tomb q t τ ↔ (abs r).tomb q t τ) ∧ (s'.live q ↔ (abs r).live q) ∧ s'.peer q = (abs r).peer q ∧
    (∀ t, (abs r).topicReg q t → s'.knownTopic t) ∧ (∀ t c, (abs r).chanReg q t c → s'.knownChan t c) := by
  intro s'
  have h := tcp_isolation v decode wf r p now inp q hq
  refine ⟨?_, ?_, ?_, ?_, ?_, ?_, ?_⟩
  · intro t; simp only [s', abs, h.1]
  · intro t c; simp only [s', abs, h.1]
  · intro t τ; simp only [s', abs, h.1]
  · simp only [s', abs, h.1]
  · simp only [s', abs, h.2.1]
  · intro t ht; exact h.2.2 _ ht
  · intro t c hc; exact h.2.2 _ hc

/-- non-vacuity: a hostile connection 2 identifies, unregisters the bystander's ephemeral
channel and topic and dies; bystander 1 keeps its entries and the ephemeral keys survive -/
example :
    let r0 := run init [.identify 1 ⟨[104], [110], [118], 1, 2⟩ 0, .register 1 [[101] ++ ephSuffix, [100] ++ ephSuffix]]
    let res := handle fixedV (fun _ => some ⟨[120], [110], [118], 3, 4⟩) r0 2 5
      (magicV1 ++ cmdIDENTIFY ++ [10, 0, 0, 0, 1, 123] ++ cmdUNREGISTER ++ [32, 101] ++ ephSuffix ++ [32, 100] ++ ephSuffix ++ [10]
        ++ cmdUNREGISTER ++ [32, 101] ++ ephSuffix ++ [10] ++ [88, 10])
    res.fin = .fatal ∧ res.replies.length = 4 ∧ qTopics res.reg = [[101] ++ ephSuffix] ∧
      qChannels res.reg ([101] ++ ephSuffix) = [[100] ++ ephSuffix] := by decide

/-- HTTP, every method and EVERY path string (canonical or not), every argument combination: whatever the daemon
is allowed to answer (`httpOutcomes`: one answer, or a set for the `net/http/pprof` rows), an answer other than
200 changes nothing — unknown path 404, wrong method 405, a path that only matches after cleaning / case folding /
trailing-slash repair 301 (GET) or 307 (other methods, httprouter's redirects), malformed query / missing /
invalid argument 400, unknown channel 404 — and the only 5xx is the documented pprof-busy case: `GET
/debug/pprof/profile` answers 500 while another CPU profile is running. -/
theorem http_malformed_noop (c : Conf) (r : Registry) (method path : String) (a : HttpArgs) (now : Int) :
    ∀ o ∈ httpOutcomes c r method path a now,
      (o.2 ≠ 200 → o.1 = r) ∧
      (o.2 ∈ [200, 301, 307, 400, 404, 405] ∨ (o.2 = 500 ∧ path = "/debug/pprof/profile")) := by
  intro o ho
  unfold httpOutcomes at ho
  split at ho
  · simp only [List.mem_map] at ho
    obtain ⟨st, hst, rfl⟩ := ho
    refine ⟨fun _ => rfl, ?_⟩
    unfold pprofStatuses at hst
    split at hst
    · rename_i hp
      simp only [List.mem_cons, List.not_mem_nil, or_false] at hst
      rcases hst with rfl | rfl
      · left; simp
      · right; exact ⟨rfl, hp⟩
    · split at hst <;> (left; simp only [List.mem_cons, List.not_mem_nil, or_false] at hst ⊢; omega)
  · simp only [List.mem_singleton] at ho
    subst ho
    exact ⟨(httpStep_noop c r method path a now).1, Or.inl (httpStep_noop c r method path a now).2⟩

/-- the answer the driver replays (`httpStep`) is one of the allowed ones -/
theorem http_step_allowed (c : Conf) (r : Registry) (method path : String) (a : HttpArgs) (now : Int) :
    httpStep c r method path a now ∈ httpOutcomes c r method path a now := by
  unfold httpOutcomes
  split
  · rename_i h
    have : httpStep c r method path a now = (r, 200) := by unfold httpStep; rw [h]
    rw [this]
    simp only [List.mem_map]
    refine ⟨200, ?_, rfl⟩
    unfold pprofStatuses; split <;> (try split) <;> simp
  · simp

/-- A redirect is answered only for a path that is NOT registered for that method but is a registered path of the
same method after `CleanPath`, ASCII lower-casing and adding/removing one trailing slash; it is 301 for GET and 307
otherwise; a registered (method, path) pair always reaches its handler. -/
theorem redirect_characterised (method path : String) :
    (∀ code, route method path = .redirect code →
      routes.find? (fun e => e.1 = method && e.2.1 = path) = none ∧ fixMatches routes method path = true ∧
      path ≠ "/" ∧ code = (if method = "GET" then 301 else 307)) ∧
    (∀ e, routes.find? (fun e => e.1 = method && e.2.1 = path) = some e → route method path = .found e.2.2) := by
  refine ⟨?_, ?_⟩
  · intro code h
    unfold route at h
    split at h
    · simp at h
    · rename_i hf
      split at h
      · rename_i hc
        simp only [Bool.and_eq_true, bne_iff_ne, ne_eq, decide_eq_true_eq, decide_not, Bool.not_eq_true',
          decide_eq_false_iff_not] at hc
        simp only [Route.redirect.injEq] at h
        exact ⟨hf, hc.2, hc.1.2, h.symm⟩
      · split at h
        · split at h <;> simp at h
        · split at h <;> simp at h
  · intro e h
    unfold route; rw [h]

/-- non-vacuity: the path classes of audit item C11 -/
example : route "GET" "/lookup/" = .redirect 301 ∧ route "GET" "/LOOKUP" = .redirect 301 ∧
    route "GET" "//lookup" = .redirect 301 ∧ route "POST" "/topic/create/" = .redirect 307 ∧
    route "GET" "/debug/pprof/" = .redirect 301 ∧ route "GET" "/a/../lookup/." = .redirect 301 ∧
    route "OPTIONS" "*" = .options ∧ route "PUT" "/lookup/" = .notFound ∧ route "POST" "/LOOKUP" = .notFound ∧
    route "GET" "/" = .notFound ∧ route "GET" "/Topic/Create" = .notFound ∧
    cleanPath "/a/b/../c//./d/".toList = "/a/c/d/".toList := by decide

example : httpOutcomes ⟨0, 0⟩ init "GET" "/debug/pprof/profile" ⟨false, none, none, none⟩ 0 = [(init, 200), (init, 500)] ∧
    httpOutcomes ⟨0, 0⟩ init "GET" "/debug/pprof/heap" ⟨false, none, none, none⟩ 0 = [(init, 200), (init, 400)] ∧
    httpOutcomes ⟨0, 0⟩ init "GET" "/lookup/" ⟨false, none, none, none⟩ 0 = [(init, 301)] := by decide

/-- non-vacuity: the five kinds of answers of the route table -/
example : route "GET" "/lookup" = .found .lookup ∧ route "POST" "/lookup" = .methodNotAllowed ∧
    route "OPTIONS" "/lookup" = .options ∧ route "GET" "/nope" = .notFound ∧
    route "POST" "/topic/tombstone" = .found .tombstone := by decide

end Nsq.Props.C15
