import Nsq.Proofs.Gate
import Nsq.Tie.Gate
/-!
# C11 — audit round 7 (B10, B24): the first clause read literally, and AUTH's error codes

The property's first clause says "when TLS is required, no command other than the IDENTIFY that
negotiates TLS is executed on a plaintext connection". `Props.C11.tls_gate` proves it for every
command that is not an IDENTIFY, and `tls_gate_history` reads "executed" as "changed the broker".
Read literally the clause is FALSE of the code (and of the model): IDENTIFY is dispatched in front
of `enforceTLSPolicy`, so an IDENTIFY that does NOT negotiate TLS is executed on the plaintext
connection — it is answered `OK` and changes the connection's own negotiation settings (here: the
heartbeat switch; in the field-by-field model `Nsq.Model.Identify` also output buffer, sample
rate, msg timeout, client metadata, and — second IDENTIFY — snappy / deflate). This module states
the literal clause with its counter-example and proves exactly what such an IDENTIFY can change.
-/
set_option linter.unusedSimpArgs false
set_option linter.unusedVariables false
namespace Nsq.Props.C11Tls
open Nsq.Model.Gate Nsq.Proofs.Gate

/-- the IDENTIFY "that negotiates TLS" -/
def negotiatesTls (cmd : Cmd) : Prop :=
  ∃ d, cmd = .identify d ∧ d.bodyOk = true ∧ d.featureNegotiation = true ∧ d.tlsv1 = true

/-- The first clause as written: with TLS required, on a plaintext connection, every command other
than the IDENTIFY that negotiates TLS is refused without any effect. -/
def TlsClauseLiteral : Prop :=
  ∀ (E : Ext) (cfg : Config) (M : Matcher) (ans : Request → Option Resp) (now : Int)
    (c : Conn) (b : Broker) (cmd : Cmd),
    cfg.tlsRequired ≠ .no → c.tls = false → c.closed = false → ¬ negotiatesTls cmd →
    (step E cfg M ans now c b cmd).conn = c ∧ (step E cfg M ans now c b cmd).close = true

/-- FALSE: `IDENTIFY {"heartbeat_interval":-1}` without feature negotiation on a plaintext connection
of a `--tls-required` daemon is answered `OK`, the connection stays open and its heartbeat setting
has changed (witness replayed by corpus/C11/plain_identify_under_tls_required.ops). -/
theorem tls_clause_literal_false : ¬ TlsClauseLiteral := by
  intro h
  have := h exE (exCfg .yes .none false) exM exDown 0 (Conn.fresh 1) []
    (.identify { bodyOk := true, featureNegotiation := false, tlsv1 := false, hbOff := true, cert := .noCert })
    (by decide) rfl rfl (by
      rintro ⟨d, hd, _, hfn, _⟩
      injection hd with hd
      subst hd
      simp at hfn)
  exact absurd this.2 (by decide)

/-- What ANY IDENTIFY can do, on any connection under any policy (so in particular before TLS):
the broker is untouched, the auth server is not asked, and of the connection only the heartbeat
switch and — through a completed handshake — the TLS flag, the peer's common name and the reader
generation can differ afterwards; state, secret, authorizations, subscription are what they were. -/
theorem identify_effect_exact (E : Ext) (cfg : Config) (M : Matcher) (ans : Request → Option Resp) (now : Int)
    (c : Conn) (b : Broker) (d : IdentifyData) :
    let r := step E cfg M ans now c b (.identify d)
    r.broker = b ∧ r.query = none ∧
    r.conn = { c with hbOff := r.conn.hbOff, tls := r.conn.tls, cn := r.conn.cn, rd := r.conn.rd } ∧
    (r.conn.tls ≠ c.tls ∨ r.conn.cn ≠ c.cn ∨ r.conn.rd ≠ c.rd →
      d.bodyOk = true ∧ d.featureNegotiation = true ∧ d.tlsv1 = true ∧ cfg.hasTls = true ∧
      ∃ cn, handshake cfg.certPolicy d.cert = some cn) ∧
    (r.conn.hbOff ≠ c.hbOff → c.state = .init ∧ d.bodyOk = true ∧ r.conn.hbOff = hbAfter c d) := by
  intro r
  by_cases hcl : c.closed = true
  · have hr : r = _ := step_closed E cfg M ans now c b (.identify d) hcl
    rw [hr]; simp
  have hcl' : c.closed = false := by simpa using hcl
  have hr : r = execIdentify cfg c b d := by
    show step E cfg M ans now c b (.identify d) = _
    rw [step_open _ _ _ _ _ _ _ _ hcl']; rfl
  rw [hr]
  unfold execIdentify
  by_cases h1 : c.state ≠ .init
  · simp [h1, fatalRes]
  by_cases h2 : d.bodyOk = false
  · simp [h1, h2, fatalRes]
  by_cases h3 : d.featureNegotiation = false
  · simp [h1, h2, h3, okRes]; simp at h1; exact fun _ => h1
  by_cases h4 : (cfg.hasTls && d.tlsv1) = false
  · simp [h1, h2, h3, h4, okRes]; simp at h1; exact fun _ => h1
  · have h1' : c.state = .init := by simpa using h1
    have h2' : d.bodyOk = true := by simpa using h2
    have h3' : d.featureNegotiation = true := by simpa using h3
    have h4' : cfg.hasTls = true ∧ d.tlsv1 = true := by simpa using h4
    cases hh : handshake cfg.certPolicy d.cert with
    | none => simp [h1, h2, h3, h4, hh]; exact fun _ => h1'
    | some cn =>
      simp [h1, h2, h3, h4, hh, okRes]
      exact ⟨⟨h4'.2, h4'.1⟩, fun _ => h1'⟩

/-- The first clause, as far as it is true (*partial*: "executed" is weakened to "has an effect outside
the connection's own negotiation settings"): with TLS required, a command on a plaintext connection
never changes the broker, never asks the auth server, never changes the connection's state, secret,
authorizations or subscription; a command other than IDENTIFY changes nothing at all and is fatal. -/
theorem tls_clause_partial (E : Ext) (cfg : Config) (M : Matcher) (ans : Request → Option Resp) (now : Int)
    (c : Conn) (b : Broker) (cmd : Cmd)
    (hreq : cfg.tlsRequired ≠ .no) (htls : c.tls = false) (hopen : c.closed = false) :
    let r := step E cfg M ans now c b cmd
    r.broker = b ∧ r.query = none ∧
    r.conn.state = c.state ∧ r.conn.secret = c.secret ∧ r.conn.auth = c.auth ∧ r.conn.sub = c.sub ∧
    (cmd.isIdentify = false → r.conn = c ∧ r.replies = [.err "E_INVALID" true] ∧ r.close = true) := by
  intro r
  cases hc : cmd.isIdentify with
  | false =>
    have : step E cfg M ans now c b cmd = fatalRes c b "E_INVALID" := by
      rw [step_open _ _ _ _ _ _ _ _ hopen, exec_tls_blocked _ _ _ _ _ _ _ _ (by simp [tlsBlocked, hreq, htls]) hc]
    simp only [r, this]
    simp [fatalRes]
  | true =>
    cases cmd with
    | identify d =>
      obtain ⟨a1, a2, a3, _, _⟩ := identify_effect_exact E cfg M ans now c b d
      exact ⟨a1, a2, by rw [a3], by rw [a3], by rw [a3], by rw [a3], by simp [Cmd.isIdentify]⟩
    | _ => simp [Cmd.isIdentify] at hc

/-- the checks of `protocolV2.AUTH` in front of the query -/
def AuthGuards (cfg : Config) (c : Conn) (args : List String) (size : Int) : Prop :=
  c.state = .init ∧ args.length = 0 ∧ 0 < size ∧ size ≤ cfg.maxBodySize ∧ hasAuthorizations c = false

/-- AUTH's documented error codes, each with its exact cause (audit B24: `C11.auth_command` spoke about
the success side only). For an open connection that is past the TLS gate. -/
theorem auth_error_codes (E : Ext) (cfg : Config) (M : Matcher) (ans : Request → Option Resp) (now : Int)
    (c : Conn) (b : Broker) (args : List String) (size : Int) (secret : String)
    (hopen : c.closed = false) (hgate : tlsBlocked cfg c = false) :
    let r := step E cfg M ans now c b (.auth args size secret)
    (r.replies = [.err "E_INVALID" true] ↔
      c.state ≠ .init ∨ args.length ≠ 0 ∨ (0 < size ∧ size ≤ cfg.maxBodySize ∧ hasAuthorizations c = true)) ∧
    (r.replies = [.err "E_BAD_BODY" true] ↔
      c.state = .init ∧ args.length = 0 ∧ (size > cfg.maxBodySize ∨ size ≤ 0)) ∧
    (r.replies = [.err "E_AUTH_DISABLED" true] ↔ AuthGuards cfg c args size ∧ cfg.authEnabled = false) ∧
    (r.replies = [.err "E_AUTH_FAILED" true] ↔ AuthGuards cfg c args size ∧ cfg.authEnabled = true ∧
      validate M now (ans (requestOf { c with secret := secret })) = none) ∧
    (r.replies = [.err "E_UNAUTHORIZED" true] ↔ AuthGuards cfg c args size ∧ cfg.authEnabled = true ∧
      ∃ a, validate M now (ans (requestOf { c with secret := secret })) = some a ∧ a.grants.length = 0) ∧
    (∀ code f, r.replies = [.err code f] → f = true ∧ r.close = true) := by
  intro r
  have hr : r = execAuth cfg M ans now c b args size secret := by
    show step E cfg M ans now c b (.auth args size secret) = _
    rw [step_open _ _ _ _ _ _ _ _ hopen]; simp [exec, hgate, dispatch]
  rw [hr]
  unfold execAuth AuthGuards
  by_cases h1 : c.state ≠ .init
  · simp [h1, fatalRes]
  by_cases h2 : args.length ≠ 0
  · simp [h1, h2, fatalRes]
  have e1 : c.state = .init := by simpa using h1
  have e2 : args = [] := by simpa using h2
  by_cases h3 : size > cfg.maxBodySize
  · simp [e1, e2, h3, fatalRes]; (repeat' apply And.intro) <;> intros <;> omega
  by_cases h4 : size ≤ 0
  · simp [e1, e2, h3, h4, fatalRes]; (repeat' apply And.intro) <;> intros <;> omega
  have h3' : size ≤ cfg.maxBodySize := by omega
  have h4' : 0 < size := by omega
  by_cases h5 : hasAuthorizations c = true
  · simp [e1, e2, h3, h4, h3', h4', h5, fatalRes]
  by_cases h6 : cfg.authEnabled = false
  · simp [e1, e2, h3, h4, h3', h4', h5, h6, fatalRes]
  cases hv : validate M now (ans (requestOf { c with secret := secret })) with
  | none => simp [e1, e2, h3, h4, h3', h4', h5, h6, hv]
  | some a =>
    by_cases hl : a.grants.length = 0
    · have hl' : a.grants = [] := List.length_eq_zero_iff.mp hl
      simp [e1, e2, h3, h4, h3', h4', h5, h6, hv, hl, hl']
    · have hl' : a.grants ≠ [] := fun h => hl (by simp [h])
      simp [e1, e2, h3, h4, h3', h4', h5, h6, hv, hl, hl']

/-! ## Non-vacuity -/

/-- the witness of `tls_clause_literal_false`: answered OK, stays open, heartbeat switch changed -/
example : (step exE (exCfg .yes .none false) exM exDown 0 (Conn.fresh 1) []
    (.identify { bodyOk := true, featureNegotiation := false, tlsv1 := false, hbOff := true, cert := .noCert })).replies = [.ok] ∧
    (step exE (exCfg .yes .none false) exM exDown 0 (Conn.fresh 1) []
    (.identify { bodyOk := true, featureNegotiation := false, tlsv1 := false, hbOff := true, cert := .noCert })).conn.hbOff = true := by decide
/-- heartbeats disabled, then re-enabled by a positive interval (audit B24): SUB is accepted again -/
example : hbAfter { Conn.fresh 1 with hbOff := true } { bodyOk := true, featureNegotiation := false, tlsv1 := false, hbOff := false, hbOn := true, cert := .noCert } = false ∧
    hbAfter { Conn.fresh 1 with hbOff := true } { bodyOk := true, featureNegotiation := false, tlsv1 := false, hbOff := false, cert := .noCert } = true := by decide
/-- `tls_clause_partial` is not vacuous: a PUB on a plaintext connection under tls-required -/
example : (step exE (exCfg .yes .none false) exM exDown 0 (Conn.fresh 1) [] (.pub ["t"] 3)).replies = [.err "E_INVALID" true] := by decide
/-- `auth_error_codes`: the five codes on concrete inputs -/
example : (step exE (exCfg .no .none true) exM (exAns 10 exGrants) 0 (Conn.fresh 7) [] (.auth ["x"] 1 "s")).replies = [.err "E_INVALID" true] ∧
    (step exE (exCfg .no .none true) exM (exAns 10 exGrants) 0 (Conn.fresh 7) [] (.auth [] 0 "s")).replies = [.err "E_BAD_BODY" true] ∧
    (step exE (exCfg .no .none false) exM (exAns 10 exGrants) 0 (Conn.fresh 7) [] (.auth [] 1 "s")).replies = [.err "E_AUTH_DISABLED" true] ∧
    (step exE (exCfg .no .none true) exM exDown 0 (Conn.fresh 7) [] (.auth [] 1 "s")).replies = [.err "E_AUTH_FAILED" true] ∧
    (step exE (exCfg .no .none true) exM (exAns 10 []) 0 (Conn.fresh 7) [] (.auth [] 1 "s")).replies = [.err "E_UNAUTHORIZED" true] := by decide
example : tlsBlocked (exCfg .no .none true) (Conn.fresh 7) = false := by decide

end Nsq.Props.C11Tls
