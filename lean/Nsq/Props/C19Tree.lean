import Nsq.Props.C19Lines
import Nsq.Props.C19Name
/-!
# C19 — two statements the claim audit 2 found missing (REPORT-B, C19 items 3 and 4)

* `no_overwrite_accepted_this_tree`: `Props.C19Name.no_overwrite_accepted` is stated for `cfgOf …`, a configuration whose
  shape parameters `oneWrite`, `sealsTail`, `sealReadWarns` are all `false` — not the tree. `Cfg.WF` does not look at the
  shape parameters, so the statement holds verbatim for `treeCfg (cfgOf …)`, the configuration of the committed tree
  (shape parameters computed from the regenerated skeletons, `Props.C19Lines.treeCfg`). `cfgOf` itself (how the
  option set of the command line becomes a `Cfg`) is a hand-written definition; only its `hasRev` field goes through the
  translated `computeFilenameFormat` / `currentFilename`.
* `shared_file_unfixed_not_safe`: the witness `shared_file_unfixed_witness` computes the run (file `"A\nCB\n\n"`, `B`
  FINished) but does not say that the line-level statement fails; this theorem does.
-/
namespace Nsq.Props.C19Tree
open Nsq.Model.ToFile Nsq.Proofs.ToFile Nsq.Proofs.ToFileLines Nsq.Props.C19Lines
open Nsq.Model.Str Nsq.Model.ToFileName Nsq.Props.C19Name

/-- the shape parameters of the tree do not enter well-formedness, `O_EXCL` or the work-dir switch -/
theorem treeCfg_wf (c : Cfg) (h : c.WF) : (treeCfg c).WF := h
theorem treeCfg_excl (c : Cfg) : (treeCfg c).excl = c.excl := rfl
theorem treeCfg_workDir (c : Cfg) : (treeCfg c).workDir = c.workDir := rfl

/-- **`no_overwrite` for every accepted option set, on the configuration of THIS tree**: for every option set accepted by
`computeFilenameFormat`, pre-existing files survive every run of the router as committed (F46, F47, F47b shapes). -/
theorem no_overwrite_accepted_this_tree (o : Opts) (topic pid cff datetime : Str) (hn : Except Str Str) (se : Bool)
    (mif : Nat) (cc : Bool) (hok : computeFilenameFormat o topic hn pid = .ok cff)
    (io : Nat → Fault) (fs0 : FS) (hdom : DomOk fs0) (evs : List (Ev × Bool)) (p : Path) (f0 : File)
    (hp : fs0.get p = some f0) :
    let c := treeCfg (cfgOf o (currentFilename cff datetime) se mif cc)
    (p.out = true ∨ c.workDir = false →
      ∃ f, (run c io (init fs0) evs).fs.get p = some f ∧ (∃ x, f.data = f0.data ++ x) ∧ f0.durable ≤ f.durable) ∧
    (c.excl = true → (run c io (init fs0) evs).fs.get p = some f0) :=
  Nsq.Props.C19.no_overwrite _ (treeCfg_wf _ (format_ok_cfg_wf o topic pid cff datetime hn se mif cc hok)) io fs0 hdom evs p f0 hp

/-- a directory whose only file `pT` reads `"A\nCB\n\n"`: a FIN log that starts with `B` is not line-safe — the only
place where `"B\n"` occurs is offset 3, behind the `C` of the other router. -/
theorem acb_file_not_safe (fs : FS) (d : Nat) (hget : fs.get pT = some ⟨[65, 10, 67, 66, 10, 10], [], d⟩)
    (honly : ∀ p, fs.get p ≠ none → p = pT) (rest : List Msg) : ¬ LinesSafe fs (mB :: rest) := by
  intro ⟨rs, hm, hv, _⟩
  cases rs with
  | nil => simp at hm
  | cons r rs' =>
    simp only [List.map_cons, List.cons.injEq] at hm
    obtain ⟨f, hg, hrec, hstart, _⟩ := hv r (List.mem_cons_self ..)
    have hp : r.path = pT := honly r.path (by rw [hg]; simp)
    rw [hp, hget] at hg
    cases hg
    rw [hm.1] at hrec
    simp only [mB, line] at hrec
    match hoff : r.off with
    | 0 => rw [hoff] at hrec; simp at hrec
    | 1 => rw [hoff] at hrec; simp at hrec
    | 2 => rw [hoff] at hrec; simp at hrec
    | 3 => rw [hoff] at hstart; simp at hstart
    | 4 => rw [hoff] at hrec; simp at hrec
    | 5 => rw [hoff] at hrec; simp at hrec
    | n + 6 =>
      rw [hoff] at hrec
      have := congrArg List.length hrec
      simp at this

/-- **two unfixed routers, one plain file: the line-level statement FAILS** (the missing conjunct of
`shared_file_unfixed_witness`): `B` is FINished and owns no line of `"A\nCB\n\n"`. -/
theorem shared_file_unfixed_not_safe :
    ¬ LinesSafe (run { cfgAppend with sealsTail := true } noFault (init FS.empty) evShared).fs
        (run { cfgAppend with sealsTail := true } noFault (init FS.empty) evShared).finished := by
  obtain ⟨hfin, hget, _⟩ := shared_file_unfixed_witness
  rw [hfin]
  apply acb_file_not_safe _ 5 hget
  intro p hp
  have hwf : Cfg.WF { cfgAppend with sealsTail := true } := Or.inr (by decide)
  have hdom : ∀ q ∈ (run { cfgAppend with sealsTail := true } noFault (init FS.empty) evShared).fs.dom, q = pT := by
    decide
  exact hdom p ((noOv_run hwf noFault evShared _ (noOv_init _ FS.empty (by intro p hp; simp [FS.empty] at hp))).dom p hp)

/-- gzip + work dir, format "<TOPIC>.<HOST><REV>.<DATETIME>.log" (the accepted option set of `Props.C19Name`'s examples) -/
private def oRot : Opts :=
  { hostIdentifier := [], filenameFormat := [60, 84, 79, 80, 73, 67, 62, 46, 60, 72, 79, 83, 84, 62, 60, 82, 69, 86, 62, 46, 60, 68, 65, 84, 69, 84, 73, 77, 69, 62, 46, 108, 111, 103], gzip := true,
    rotateSize := 0, rotateInterval := 0, workDir := [47, 119], outputDir := [47, 111] }

/-- non-vacuity of `no_overwrite_accepted_this_tree`: an accepted option set (topic "t", host "h.example", pid "42" ↦
"t.h<REV>.<DATETIME>.log.gz") gives a well-formed configuration of this tree, whose shape parameters are the regenerated ones -/
example : (computeFilenameFormat oRot [116] (.ok [104, 46, 101, 120, 97, 109, 112, 108, 101]) [52, 50]).toOption =
    some [116, 46, 104, 60, 82, 69, 86, 62, 46, 60, 68, 65, 84, 69, 84, 73, 77, 69, 62, 46, 108, 111, 103, 46, 103, 122] := by decide
example : (treeCfg (cfgOf oRot [116, 46, 104, 60, 82, 69, 86, 62, 46, 50, 48, 50, 54, 46, 108, 111, 103, 46, 103, 122] false 200 true)).WF :=
  Or.inl (by decide)
example : (treeCfg cfgAppend).oneWrite = Nsq.Tie.ToolsToFile.routerOneWrite ∧
    (treeCfg cfgAppend).sealsTail = Nsq.Tie.ToolsToFile.updateFileSeals := ⟨rfl, rfl⟩

end Nsq.Props.C19Tree
