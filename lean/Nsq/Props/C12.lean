import Nsq.Proofs.Guid
import Nsq.Proofs.GuidExtra
import Nsq.Tie.Guid
/-!
# C12 — Message ids are unique and increasing per topic

Property theorems only (helper lemmas live in `Nsq.Proofs.Guid`). The model `newGUID` is tied
to `nsqd/guid.go` by `Nsq.Tie.Guid.newGUID_eq` (regenerated definition = model) and by the
correspondence harness (real `guidFactory` on generated pre-states).

All statements quantify over every node id, every start state and every list of clock
readings — no monotonicity of the clock is assumed (it may stall, or step back).
-/
namespace Nsq.Props.C12
open Nsq.Model.Guid Nsq.Proofs.Guid

/-- The ids a factory (= a topic) hands out strictly increase as signed 64-bit integers, and
all of them are above every id handed out before (`lastID` of the start state). -/
theorem ids_strictly_increasing (f : St) (clock : List (BitVec 64)) :
    (run f clock).Pairwise (fun a b => a.toInt < b.toInt) ∧
    ∀ x ∈ run f clock, f.lastID.toInt < x.toInt :=
  ⟨run_pairwise f clock, run_gt f clock⟩

/-- No id is handed out twice. -/
theorem ids_nodup (f : St) (clock : List (BitVec 64)) : (run f clock).Nodup := by
  have h := run_pairwise f clock
  refine List.Pairwise.imp ?_ h
  intro a b hab heq
  subst heq
  omega

/-- Histories compose: ids produced after any earlier history are above everything the earlier
history produced (so uniqueness holds across the whole life of the factory). -/
theorem later_ids_above_earlier (f : St) (c₁ c₂ : List (BitVec 64)) :
    ∀ x ∈ run f c₁, ∀ y ∈ run (runSt f c₁) c₂, x.toInt < y.toInt := by
  intro x hx y hy
  have h1 := run_le_lastID f c₁ x hx
  have h2 := run_gt (runSt f c₁) c₂ y hy
  omega

/-- When the generator cannot produce a fresh id (time went backwards, per-millisecond sequence
exhausted, id would not be above the last one) nothing is remembered as handed out. -/
theorem error_leaves_lastID (f : St) (now : BitVec 64) (h : (newGUID f now).2.2 ≠ .none) :
    (newGUID f now).1.lastID = f.lastID :=
  newGUID_err h

/-- `Topic.GenerateID` (retry until success): whatever it finally returns is strictly above
every id returned before, for every stream of clock readings met while waiting. It has no
error return: on the error paths it only retries. -/
theorem generateID_fresh (f : St) (clock : List (BitVec 64)) (f' : St) (id : BitVec 64)
    (h : generateID f clock = (f', some id)) : f.lastID.toInt < id.toInt ∧ f'.lastID = id :=
  generateID_some h

/-- The sequence field is exhausted after 4095 increments within one pseudo-millisecond: the
call that would wrap it to 0 fails with `sequenceExpired` instead of reusing sequence 0. -/
theorem sequence_exhaustion_is_an_error (f : St) (now : BitVec 64)
    (hts : f.lastTs = BitVec.sshiftRight now 20) (hseq : f.seq = 4095#64) :
    (newGUID f now).2.2 = .sequenceExpired := by
  unfold newGUID
  simp [hts, hseq, BitVec.slt]

/-- `Hex` always yields 16 characters. -/
theorem hex_length (g : BitVec 64) : (hex g).length = 16 := by
  unfold hex
  generalize g.toNat = n
  have : ∀ w n, (hexBE w n).length = w := by
    intro w
    induction w with
    | zero => intro n; rfl
    | succ w ih => intro n; simp [hexBE, ih]
  exact this 16 n

theorem hexDigit_inj {a b : Nat} (ha : a < 16) (hb : b < 16) (h : hexDigit a = hexDigit b) : a = b := by
  unfold hexDigit at h
  have key : ∀ a, a < 16 → ∀ b, b < 16 →
      (if a < 10 then (48 + a).toUInt8 else (87 + a).toUInt8) =
      (if b < 10 then (48 + b).toUInt8 else (87 + b).toUInt8) → a = b := by decide
  exact key a ha b hb h

theorem hexBE_inj (w : Nat) : ∀ a b : Nat, a < 16 ^ w → b < 16 ^ w → hexBE w a = hexBE w b → a = b := by
  induction w with
  | zero => intro a b ha hb _; simp at ha hb; omega
  | succ w ih =>
    intro a b ha hb h
    simp only [hexBE] at h
    have hlen : ∀ w n, (hexBE w n).length = w := by
      intro w
      induction w with
      | zero => intro n; rfl
      | succ w ih => intro n; simp [hexBE, ih]
    have h' := List.append_inj h (by rw [hlen, hlen])
    have hq : a / 16 = b / 16 := by
      apply ih
      · rw [Nat.pow_succ] at ha; omega
      · rw [Nat.pow_succ] at hb; omega
      · exact h'.1
    have hr : a % 16 = b % 16 := by
      apply hexDigit_inj (Nat.mod_lt _ (by decide)) (Nat.mod_lt _ (by decide))
      simpa using h'.2
    omega

/-- Distinct ids have distinct 16-character hex renderings (what consumers see). -/
theorem hex_injective (a b : BitVec 64) (h : hex a = hex b) : a = b := by
  unfold hex at h
  have := hexBE_inj 16 a.toNat b.toNat (by have := a.isLt; omega) (by have := b.isLt; omega) h
  exact BitVec.eq_of_toNat_eq this

/-- Consequently the hex ids handed out by a topic never repeat. -/
theorem hex_ids_nodup (f : St) (clock : List (BitVec 64)) : ((run f clock).map hex).Nodup := by
  have h := ids_nodup f clock
  unfold List.Nodup at h ⊢
  rw [List.pairwise_map]
  exact List.Pairwise.imp (fun {a b} hne heq => hne (hex_injective a b heq)) h

/-- "Increasing" also holds for what consumers see: for non-negative ids the 16-character hex
strings are ordered (lexicographically, i.e. as byte strings) like the ids. -/
theorem hex_strictMono (a b : BitVec 64) (ha : 0 ≤ a.toInt) (hab : a.toInt < b.toInt) : hex a < hex b :=
  Nsq.Proofs.GuidExtra.hex_strictMono a b ha hab

/-- The id text is always made of `[0-9a-f]` (16 of them: `hex_length`). -/
theorem hex_charset (g : BitVec 64) : ∀ c ∈ hex g,
    (48 ≤ c.toNat ∧ c.toNat ≤ 57) ∨ (97 ≤ c.toNat ∧ c.toNat ≤ 102) :=
  Nsq.Proofs.GuidExtra.hex_charset g

/-- For node ids in `[0,1024)` (enforced by `nsqd.New`: `Nsq.Tie.Guid.nodeID_range_checked`),
sequence numbers in `[0,4096)` and 41 bits of pseudo-milliseconds since `twepoch`, the three
fields of an id do not overlap: the id is non-negative and each field can be read back. -/
theorem pack_unpack (ts node seq : BitVec 64) (hts : (ts - twepoch).toNat < 2 ^ 41)
    (hn : node.toNat < 1024) (hs : seq.toNat < 4096) :
    0 ≤ (pack ts node seq).toInt ∧
    (pack ts node seq).toNat / 2 ^ 22 = (ts - twepoch).toNat ∧
    (pack ts node seq).toNat / 2 ^ 12 % 1024 = node.toNat ∧
    (pack ts node seq).toNat % 4096 = seq.toNat :=
  Nsq.Proofs.GuidExtra.pack_unpack ts node seq hts hn hs

/-- Hence two nodes with different (valid) node ids never produce the same id. -/
theorem pack_injective (ts ts' node node' seq seq' : BitVec 64)
    (hts : (ts - twepoch).toNat < 2 ^ 41) (hn : node.toNat < 1024) (hs : seq.toNat < 4096)
    (hts' : (ts' - twepoch).toNat < 2 ^ 41) (hn' : node'.toNat < 1024) (hs' : seq'.toNat < 4096)
    (h : pack ts node seq = pack ts' node' seq') : ts = ts' ∧ node = node' ∧ seq = seq' :=
  Nsq.Proofs.GuidExtra.pack_injective ts ts' node node' seq seq' hts hn hs hts' hn' hs' h

/-- **More than 4096 per millisecond**: whatever the start state, the node id and the number of
requests, at most 4096 ids are handed out within one pseudo-millisecond (the other requests
get an error, i.e. `GenerateID` waits) — and 4096 is reached (`burst_tight`). -/
theorem burst_4096 (f : St) (ts : BitVec 64) (clock : List (BitVec 64))
    (h : ∀ now ∈ clock, BitVec.sshiftRight now 20 = ts) : (run f clock).length ≤ 4096 :=
  Nsq.Proofs.GuidExtra.burst_4096 f ts clock h

/-! ## Non-vacuity: the hypotheses are met by concrete, non-trivial runs -/

example : (run Nsq.Proofs.GuidExtra.tightSt0 (List.replicate 4096 Nsq.Proofs.GuidExtra.tightNow)).length = 4096 :=
  Nsq.Proofs.GuidExtra.burst_tight
example : hex 255#64 < hex 256#64 := hex_strictMono _ _ (by decide) (by decide)
example : (pack (twepoch + 5#64) 1023#64 4095#64).toNat % 4096 = 4095 :=
  (pack_unpack _ _ _ (by decide) (by decide) (by decide)).2.2.2


/-- a clock that stalls, advances, steps back and recovers: 4 ids, 2 errors -/
def demoClock : List (BitVec 64) :=
  [1700000000000000000#64, 1700000000000000000#64, 1700000000002000000#64,
   1600000000000000000#64, 1700000000002000000#64, 1700000000009000000#64]

def demoSt : St := { nodeID := 7#64, seq := 0#64, lastTs := 0#64, lastID := 0#64 }

example : (run demoSt demoClock).length = 5 := by decide
example : (newGUID (runSt demoSt (demoClock.take 3)) 1600000000000000000#64).2.2 = .timeBackwards := by decide
example : ∃ f now, (newGUID f now).2.2 = .sequenceExpired :=
  ⟨{ nodeID := 1#64, seq := 4095#64, lastTs := 5#64, lastID := 0#64 }, 5242880#64, by decide⟩
/-- the `lastID` guard is what protects a burst after the sequence wrapped: sequence restarts at 1
in the same pseudo-millisecond and would repeat an id — refused with `idBackwards`. -/
example : (newGUID { nodeID := 1#64, seq := 0#64, lastTs := 1288834974289#64,
                     lastID := pack 1288834974289#64 1#64 4095#64 }
                   (1288834974289#64 <<< 20)).2.2 = .idBackwards := by decide

end Nsq.Props.C12
