import Nsq.Props.C05
import Nsq.Props.E9DiskQueue
import Nsq.Proofs.DQGlue
/-!
# C05 on top of engine E9 — restart loses nothing, every disk queue a go-diskqueue file set

`C05.restart_preserves` models every disk queue as an entry of the association list `Persist.dq`
and ASSUMES that a named queue hands back after the restart what was flushed into it
(`Restart.lookupDQ`).  Here every named disk queue is a state / file set of the E9 model
`Model.DiskQueue` (tied to go-diskqueue v1.1.0 by `Tie.DiskQueue` + harness/e9):

* before the shutdown backend `b` is a live queue `B b` that holds the messages `disk b` (`RepFor`:
  after ANY history, `E9DiskQueue.reachable_Q`), the messages `rest b` (memory queue, in flight,
  deferred) are not on disk yet; together they are what `Restart.closeAll` records for `b`, as a bag
  (`Perm`: the Life model keeps memory + disk in ONE list and treats it as a bag, `memLen`);
* the shutdown is `flushTo`: `Put` of every message of `rest b` (`Channel.flush`/`Topic.flush` via
  `writeMessageToBackend`), then `Close()`; what survives is `(close …).fs` — files only;
* the new process (possibly with another `--max-bytes-per-file` / `--sync-every`) runs `New` on
  these files and reads (`readAll`); `cycleDQ` is `Restart.reload` with `lookupDQ` replaced by that.

Parameters, not assumptions: the record codec `K` (`Codec`: `Life.Msg` has an abstract `id : Nat`;
`lifeCodec` = the real wire format with the id on 16 bytes, `wireCodec` = the real format on
`Wire.Msg`), `CfgOk cfg'` (`0 < syncEvery`, `maxMsgSize < 2^31`, as everywhere in E9).
Named hypothesis: `hmsg` — every persisted message is in the codec's domain (16-byte id, body within
`--max-msg-size`, …: what the publish path enforces, C07/C11).
Helper lemmas: `Nsq.Proofs.DQGlue`.
-/
namespace Nsq.Props.C05DQ
open Nsq.Model Nsq.Model.Wire Nsq.Model.DiskQueue Nsq.Proofs.DiskQueue Nsq.Props.E9DiskQueue
open Nsq.Model.RestartDQ Nsq.Proofs.DQGlue

/-- 1. THE DATA PART.  A live disk queue `s0` holds `disk` (encoded); the shutdown flushes `rest`
into it and closes it.  Every one of these `Put`s is accepted, and the new process — any
configuration `cfg'` with the same record-size bounds, `maxBytesPerFile`/`syncEvery` free — reads
back from the files alone exactly `disk ++ rest`: every message, in order, identical. -/
theorem flush_reload_exact {μ : Type} (cfg' : Cfg) (hok : CfgOk cfg') (K : Codec μ cfg'.minMsgSize cfg'.maxMsgSize)
    (s0 : St) (disk rest : List μ)
    (h0 : Q s0 (disk.map K.enc))
    (hmin : s0.cfg.minMsgSize = cfg'.minMsgSize) (hmax : s0.cfg.maxMsgSize = cfg'.maxMsgSize)
    (hd : ∀ m ∈ disk, K.ok m) (hr : ∀ m ∈ rest, K.ok m) :
    (∀ n, (disk ++ rest).length ≤ n → readBack K cfg' (flushTo K s0 rest) n = disk ++ rest) ∧
    readAll K cfg' (flushTo K s0 rest) = disk ++ rest ∧
    Q (openQ cfg' (flushTo K s0 rest)) ((disk ++ rest).map K.enc) ∧
    (∀ pre m post, rest = pre ++ m :: post → (put (writeAll s0 (pre.map K.enc)) (K.enc m)).1 = .ok) := by
  have hrep := flush_reload cfg' hok K s0 disk rest ⟨h0, hmin, hmax⟩ hr
  have hall : ∀ m ∈ disk ++ rest, K.ok m := by
    intro m hm
    rcases List.mem_append.mp hm with h | h
    · exact hd m h
    · exact hr m h
  obtain ⟨r1, r2⟩ := readBack_of_rep cfg' hok K (flushTo K s0 rest) (disk ++ rest) hrep hall
  refine ⟨r1, r2, hrep.1, ?_⟩
  intro pre m post e
  apply writeAll_all_ok cfg' hok (rest.map K.enc) s0 (disk.map K.enc) ⟨h0, hmin, hmax⟩ (enc_valid_all K rest hr)
    (pre.map K.enc) (K.enc m) (post.map K.enc)
  rw [e, List.map_append, List.map_cons]

/-- shutdown + start with every disk queue an E9 file set: the topics and channels
`LoadMetadata` creates from the metadata of `s`, each queue = what `New` + receive hands out
from the files that flushing `rest b` into the live queue `B b` and closing it left behind -/
def cycleDQ (cfg' : Cfg) (K : Codec Life.Msg cfg'.minMsgSize cfg'.maxMsgSize) (s : Life.St)
    (B : Life.BName → St) (rest : Life.BName → List Life.Msg) : List Life.Topic :=
  reloadW (fun b => readAll K cfg' (flushTo K (B b) (rest b))) (Restart.closeAll s).metadata

/-- `Restart.cycle` is the same function with the list lookup in place of the E9 files -/
theorem cycle_is_reloadW (s : Life.St) :
    (Restart.cycle s).topics = reloadW (Restart.lookupDQ (Restart.closeAll s).dq) (Restart.closeAll s).metadata := rfl

/-- 2. `C05.restart_preserves` WITHOUT the disk-queue assumption.  For every state with unique
names, every assignment `B` of a live E9 disk queue to each backend that holds `disk b`, every
`rest b` with `disk b ++ rest b` = the messages `closeAll` records for `b` (as a bag):
a graceful shutdown followed by a start on the same files brings back every durable topic and
channel with its paused flag, and the restarted topic queue / channel content is, read from the
go-diskqueue files, exactly `disk ++ rest` (the real on-disk order: old disk content, then the
flushed messages) — the same bag as before the shutdown: every message the topic / channel was
responsible for (queued in memory or on disk, in flight, deferred), identical id, timestamp,
attempts, body; nothing else. -/
theorem restart_preserves_dq (cfg' : Cfg) (hok : CfgOk cfg') (K : Codec Life.Msg cfg'.minMsgSize cfg'.maxMsgSize)
    (s : Life.St) (hwf : Restart.WF s)
    (B : Life.BName → St) (disk rest : Life.BName → List Life.Msg)
    (hB : ∀ b, RepFor cfg'.minMsgSize cfg'.maxMsgSize (B b) ((disk b).map K.enc))
    (hsplit : ∀ b, (disk b ++ rest b).Perm (Restart.lookupDQ (Restart.closeAll s).dq b))
    (hmsg : ∀ e ∈ (Restart.closeAll s).dq, ∀ m ∈ e.2, K.ok m) :
    Life.persisted { memCap := s.memCap, topics := cycleDQ cfg' K s B rest } = Life.persisted s ∧
    ∀ T ∈ s.topics, T.eph = false →
      ∃ T' ∈ cycleDQ cfg' K s B rest, T'.name = T.name ∧ T'.paused = T.paused ∧ T'.eph = false ∧
        T'.queue = disk (T.name, none) ++ rest (T.name, none) ∧ T'.queue.Perm T.queue ∧
        ∀ C ∈ T.chans, C.eph = false →
          ∃ C' ∈ T'.chans, C'.name = C.name ∧ C'.paused = C.paused ∧ C'.eph = false ∧
            C'.located = disk (T.name, some C.name) ++ rest (T.name, some C.name) ∧
            C'.located.Perm C.located ∧ C'.inflight = [] ∧ C'.clients = [] := by
  -- data part: E9
  have hokm : ∀ b, ∀ m ∈ disk b ++ rest b, K.ok m := by
    intro b m hm
    obtain ⟨e, he, hme⟩ := lookupDQ_mem _ b m ((hsplit b).mem_iff.mp hm)
    exact hmsg e he m hme
  have hlook : ∀ b, readAll K cfg' (flushTo K (B b) (rest b)) = disk b ++ rest b := by
    intro b
    exact (flush_reload_exact cfg' hok K (B b) (disk b) (rest b) (hB b).1 (hB b).2.1 (hB b).2.2
      (fun m hm => hokm b m (List.mem_append_left _ hm)) (fun m hm => hokm b m (List.mem_append_right _ hm))).2.1
  refine ⟨persisted_reloadW s.memCap _ _, ?_⟩
  -- names, flags, which list belongs to whom: `C05.restart_preserves`
  intro T hT he
  obtain ⟨T', hT', hn, hp, _, hq, hch⟩ := (C05.restart_preserves s hwf).2 T hT he
  rw [cycle_is_reloadW] at hT'
  obtain ⟨e, hemem, rfl⟩ := List.mem_map.mp hT'
  have hname : e.1 = T.name := hn
  have hq' : Restart.lookupDQ (Restart.closeAll s).dq (e.1, none) = T.queue := hq
  refine ⟨reloadTopicW (fun b => readAll K cfg' (flushTo K (B b) (rest b))) e,
    List.mem_map.mpr ⟨e, hemem, rfl⟩, hn, hp, rfl, ?_, ?_, ?_⟩
  · show readAll K cfg' (flushTo K (B (e.1, none)) (rest (e.1, none))) = _
    rw [hlook, hname]
  · show (readAll K cfg' (flushTo K (B (e.1, none)) (rest (e.1, none)))).Perm T.queue
    rw [hlook, ← hq']
    exact hsplit (e.1, none)
  · intro C hC hce
    obtain ⟨C', hC', cn, cp, _, cl, _, _⟩ := hch C hC hce
    have hC'' : C' ∈ e.2.2.map (Restart.reloadChan (Restart.closeAll s).dq e.1) := hC'
    obtain ⟨c, hc, rfl⟩ := List.mem_map.mp hC''
    have hcn : c.1 = C.name := cn
    have cl' : Restart.lookupDQ (Restart.closeAll s).dq (e.1, some c.1) = C.located := by
      have := cl
      simp only [Life.Chan.located, Restart.reloadChan, List.map_nil, List.append_nil] at this
      exact this
    refine ⟨reloadChanW (fun b => readAll K cfg' (flushTo K (B b) (rest b))) e.1 c,
      List.mem_map.mpr ⟨c, hc, rfl⟩, cn, cp, rfl, ?_, ?_, rfl, rfl⟩
    · simp only [Life.Chan.located, reloadChanW, List.map_nil, List.append_nil]
      rw [hlook, hname, hcn]
    · simp only [Life.Chan.located, reloadChanW, List.map_nil, List.append_nil]
      rw [hlook]
      have := hsplit (e.1, some c.1)
      rw [cl'] at this
      simp only [Life.Chan.located] at this
      exact this

/-- 3. when the split follows the model's list order (`disk b ++ rest b` IS the list `closeAll`
records — e.g. everything already on disk, or nothing), reading the E9 files computes literally the
restarted state of the list model: every theorem of C05 about `cycle s` (`finished_stay_finished`,
`zero_channel_topic`, `load_before_start`, `restart_cycles`, …) is a theorem about the E9 files. -/
theorem cycle_refines_exact (cfg' : Cfg) (hok : CfgOk cfg') (K : Codec Life.Msg cfg'.minMsgSize cfg'.maxMsgSize)
    (s : Life.St) (B : Life.BName → St) (disk rest : Life.BName → List Life.Msg)
    (hB : ∀ b, RepFor cfg'.minMsgSize cfg'.maxMsgSize (B b) ((disk b).map K.enc))
    (hsplit : ∀ b, disk b ++ rest b = Restart.lookupDQ (Restart.closeAll s).dq b)
    (hmsg : ∀ e ∈ (Restart.closeAll s).dq, ∀ m ∈ e.2, K.ok m) :
    cycleDQ cfg' K s B rest = (Restart.cycle s).topics := by
  rw [cycle_is_reloadW]
  apply reloadW_congr
  intro b
  have hokm : ∀ m ∈ disk b ++ rest b, K.ok m := by
    intro m hm
    rw [hsplit b] at hm
    obtain ⟨e, he, hme⟩ := lookupDQ_mem _ b m hm
    exact hmsg e he m hme
  rw [← hsplit b]
  exact (flush_reload_exact cfg' hok K (B b) (disk b) (rest b) (hB b).1 (hB b).2.1 (hB b).2.2
    (fun m hm => hokm m (List.mem_append_left _ hm)) (fun m hm => hokm m (List.mem_append_right _ hm))).2.1

/-! ### non-vacuity -/

/-- nsqd's shape of configuration, small: `--max-msg-size 4`, files of at most 40 bytes, sync every 2 -/
def cfgT : Cfg := nsqdCfg 4 40 2
theorem cfgT_ok : CfgOk cfgT := ⟨by decide, by decide⟩

/-- the codec parameter is met by the real wire format — on `Wire.Msg` and (id on 16 bytes) on `Life.Msg` -/
example : Codec Wire.Msg cfgT.minMsgSize cfgT.maxMsgSize := wireCodec 4
def KT : Codec Life.Msg cfgT.minMsgSize cfgT.maxMsgSize := lifeCodec 4

open Nsq.Props.C05 (mA mB mC demo) in
example : KT.ok mA ∧ KT.ok mB ∧ KT.ok mC ∧ ¬ KT.ok { mC with body := [1, 2, 3, 4, 5] } ∧ ¬ KT.ok { mC with ts := 2 ^ 63 } := by
  show LifeOk 4 mA ∧ LifeOk 4 mB ∧ LifeOk 4 mC ∧ ¬ LifeOk 4 { mC with body := [1, 2, 3, 4, 5] } ∧ ¬ LifeOk 4 { mC with ts := 2 ^ 63 }
  decide

open Nsq.Props.C05 (mA mB mC demo) in
/-- a two-message flush into a fresh queue: records of 31 and 33 bytes, 40-byte files → the second
`Put` rolls to file 1; the new process (files of 1000 bytes) reads both back -/
example : (writeAll (openQ cfgT FS.empty) ([mA, mC].map KT.enc)).wf = 1 ∧
    ((flushTo KT (openQ cfgT FS.empty) [mA, mC]).dat 0).isSome ∧ ((flushTo KT (openQ cfgT FS.empty) [mA, mC]).dat 1).isSome ∧
    (flushTo KT (openQ cfgT FS.empty) [mA, mC]).md = some { depth := 2, rf := 0, rp := 0, wf := 1, wp := 33 } ∧
    readBack KT { cfgT with maxBytesPerFile := 1000 } (flushTo KT (openQ cfgT FS.empty) [mA, mC]) 5 = [mA, mC] ∧
    readAll KT cfgT (flushTo KT (openQ cfgT FS.empty) [mA, mC]) = [mA, mC] := by decide

open Nsq.Props.C05 (mA mB mC demo) in
/-- … and behind a record that was on disk already (the hypotheses of `flush_reload_exact`) -/
example : Q (put (openQ cfgT FS.empty) (KT.enc mB)).2 ([mB].map KT.enc) :=
  ((diskqueue_law cfgT cfgT_ok).put_law _ [] _ (fresh_empty cfgT cfgT_ok) (KT.valid mB (by show LifeOk 4 mB; decide))).1

/-! an instance of the hypotheses of `restart_preserves_dq`: `C05.demo` (memCap 1; durable topic `t`
with the paused channel `c`: mC on its disk queue, mA in flight with attempts 1, mB deferred;
zero-channel topic `z`: mA in its memory queue, mB on its disk queue) -/

def mA1 : Life.Msg := { C05.mA with attempts := 1 }
def mB1 : Life.Msg := { C05.mB with attempts := 1 }

/-- the live disk queues before the shutdown -/
def demoB (b : Life.BName) : St :=
  if b = ("t", some "c") then (put (openQ cfgT FS.empty) (KT.enc C05.mC)).2
  else if b = ("z", none) then (put (openQ cfgT FS.empty) (KT.enc C05.mB)).2
  else openQ cfgT FS.empty

def demoDisk (b : Life.BName) : List Life.Msg :=
  if b = ("t", some "c") then [C05.mC] else if b = ("z", none) then [C05.mB] else []

/-- what is in memory / in flight / deferred at the shutdown -/
def demoRest (b : Life.BName) : List Life.Msg :=
  if b = ("t", some "c") then [mA1, mB1] else if b = ("z", none) then [C05.mA]
  else Restart.lookupDQ (Restart.closeAll C05.demo).dq b

example : Restart.WF C05.demo := C05.wf_reachable 1 _

theorem demo_rep : ∀ b, RepFor cfgT.minMsgSize cfgT.maxMsgSize (demoB b) ((demoDisk b).map KT.enc) := by
  intro b
  unfold demoB demoDisk
  by_cases h1 : b = ("t", some "c")
  · rw [if_pos h1, if_pos h1]
    exact (diskqueue_law cfgT cfgT_ok).put_law _ [] _ (fresh_empty cfgT cfgT_ok) (KT.valid C05.mC (by show LifeOk 4 C05.mC; decide))
  · rw [if_neg h1, if_neg h1]
    by_cases h2 : b = ("z", none)
    · rw [if_pos h2, if_pos h2]
      exact (diskqueue_law cfgT cfgT_ok).put_law _ [] _ (fresh_empty cfgT cfgT_ok) (KT.valid C05.mB (by show LifeOk 4 C05.mB; decide))
    · rw [if_neg h2, if_neg h2]
      exact fresh_empty cfgT cfgT_ok

/-- the split is a genuine permutation for `z`: the model's list is [mA, mB] (publish order), on the
real disk mB comes first (it overflowed to disk while mA sat in the memory queue) -/
theorem demo_split : ∀ b, (demoDisk b ++ demoRest b).Perm (Restart.lookupDQ (Restart.closeAll C05.demo).dq b) := by
  intro b
  unfold demoDisk demoRest
  by_cases h1 : b = ("t", some "c")
  · rw [if_pos h1, if_pos h1, h1]
    exact List.Perm.of_eq (by decide)
  · rw [if_neg h1, if_neg h1]
    by_cases h2 : b = ("z", none)
    · rw [if_pos h2, if_pos h2, h2]
      have : Restart.lookupDQ (Restart.closeAll C05.demo).dq ("z", none) = [C05.mA, C05.mB] := by decide
      rw [this]
      exact List.Perm.swap _ _ _
    · rw [if_neg h2, if_neg h2]
      exact List.Perm.refl _

theorem demo_ok : ∀ e ∈ (Restart.closeAll C05.demo).dq, ∀ m ∈ e.2, KT.ok m := by
  show ∀ e ∈ (Restart.closeAll C05.demo).dq, ∀ m ∈ e.2, LifeOk 4 m
  decide

/-- all hypotheses of `restart_preserves_dq` at once, on a state with two non-trivial live disk queues -/
example := restart_preserves_dq cfgT cfgT_ok KT C05.demo (C05.wf_reachable 1 _) demoB demoDisk demoRest
  demo_rep demo_split demo_ok

/-- the conclusion computed on the E9 model: channel `c` of `t` gets mC (disk), then mA, mB with
their attempts; topic `z` gets mB, mA — the order of the real files -/
example : (cycleDQ cfgT KT C05.demo demoB demoRest).map (fun T => (T.name, T.paused, T.queue.map (·.id))) =
    [("t", false, []), ("z", false, [22, 21])] := by decide
example : (cycleDQ cfgT KT C05.demo demoB demoRest).flatMap
      (fun T => T.chans.map (fun C => (C.name, C.paused, C.located.map (fun m => (m.id, m.attempts))))) =
    [("c", true, [(23, 0), (21, 1), (22, 1)])] := by decide

end Nsq.Props.C05DQ
