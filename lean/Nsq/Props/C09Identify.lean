import Nsq.Proofs.Identify
/-!
# C09 (round 6) — IDENTIFY field by field

`Nsq.Model.Identify.identifyFull` models `identifyDataV2` → `clientV2.Identify` (metadata, four
setters with their partial effect) → feature negotiation → the response document. Tied by the
correspondence leg `idn` (`harness/e3/identify_test.go`: decoded fields in, outcome + every client
field + the document out), by `Nsq.Tie.ProtoFunc` (the four setters *translated* from the Go source
and proved equal to the model) and by the regenerated facts in `Nsq.Tie.Proto`. `encoding/json` is
outside (the fields are its result).
-/
namespace Nsq.Props.C09Identify
open Nsq.Model.Identify Nsq.Model.ProtoV2 Nsq.Model.Names Nsq.Model Nsq.Proofs.Identify

def conf0 : Conf :=
  { maxMsgSize := 1024, maxBodySize := 4096, maxRdy := 2500, maxReqTimeoutNs := 3600000000000, maxHeartbeatMs := 60000,
    minObtMs := 25, maxObtMs := 30000, maxObSize := 65536, maxMsgTimeoutMs := 900000, tlsGate := true, authGate := none,
    authCmd := .disabled, tlsConfigured := false, deflateEnabled := true, snappyEnabled := true, decode := fun _ => none }
def nc0 : NConf := { maxDeflateLevel := 6, maxMsgTimeoutMs := 900000, authRequired := false }
def c0 : Client := ⟨⟨[], [], [], [], []⟩, freshConn 30000000000 250000000 60000000000⟩
def d0 : IdentifyData :=
  { heartbeat := 0, outBufSize := 0, outBufTimeout := 0, msgTimeout := 0, sampleRate := 0, featureNegotiation := true,
    tlsv1 := false, deflate := false, snappy := false }

/-- The coarse model used by every other C09 theorem is the projection of this one: same reply class,
same connection state, and an upgrade follows exactly when one was negotiated. -/
theorem refines_protocol_model (conf : Conf) (nc : NConf) (s : ConnState) (b : Broker) (rest body r : Bytes)
    (x : IdFull) (info : Meta) (hst : s.st = .init) (hb : readBody conf.maxBodySize rest = .ok body r)
    (hd : conf.decode body = some x.d) :
    (identify conf s b rest).reply = some (replyOf (identifyFull conf nc ⟨info, s⟩ x)) ∧
    ((identify conf s b rest).ctl = .upgraded ↔ upgrades (identifyFull conf nc ⟨info, s⟩ x) = true) ∧
    (replyOf (identifyFull conf nc ⟨info, s⟩ x) ≠ .err .E_BAD_BODY →
      (identify conf s b rest).st = (clientOf (identifyFull conf nc ⟨info, s⟩ x)).conn) :=
  identify_agrees conf nc s b rest body r x info hst hb hd

/-- IDENTIFY is answered `E_BAD_BODY` exactly when a negotiable value is outside its documented
range (heartbeat −1 | 0 | 1000…max, output buffer timeout −1 | 0 | min…max, size −1 | 0 | 64…max,
sample rate 0…99, msg timeout 0 | 1000…max) — for every value. -/
theorem rejected_iff_out_of_range (conf : Conf) (nc : NConf) (c : Client) (x : IdFull) :
    (∃ c', identifyFull conf nc c x = .badBody c') ↔ ¬ InRange conf x.d := by
  rw [← seq_ok_iff conf c x]
  unfold identifyFull
  by_cases h : (identifySeq conf c x).2 = true
  · simp only [h, Bool.true_eq_false, if_false, not_true_eq_false, iff_false]
    rintro ⟨c', hc⟩
    repeat' split at hc
    all_goals cases hc
  · have h' : (identifySeq conf c x).2 = false := by simpa using h
    simp [h']

/-- The client's metadata is stored whatever the outcome; when the very first setter (heartbeat)
rejects, nothing else of the connection was touched. -/
theorem metadata_and_partial_effect (conf : Conf) (nc : NConf) (c : Client) (x : IdFull) :
    (clientOf (identifyFull conf nc c x)).info = x.info ∧
    (¬ HbOK conf x.d.heartbeat → identifyFull conf nc c x = .badBody ⟨x.info, c.conn⟩) := by
  constructor
  · have h := (identifySeq_agrees conf c x).1
    unfold identifyFull
    repeat' split
    all_goals simpa [clientOf] using h
  · intro hhb
    have : setHeartbeat conf c.conn.hbNs x.d.heartbeat = none := by
      cases hs : setHeartbeat conf c.conn.hbNs x.d.heartbeat with
      | none => rfl
      | some v => exact absurd ((setHeartbeat_isSome conf c.conn.hbNs _).mp (by simp [hs])) hhb
    simp [identifyFull, identifySeq, this]

/-- **The response reflects exactly what was applied.** For a negotiating IDENTIFY that is accepted:
the document is computed from the connection state the setters produced and from the negotiated
features, nothing else: its `msg_timeout`, `output_buffer_size`, `output_buffer_timeout`, `sample_rate`
are the connection's values (ms, truncating), `tls_v1` / `deflate` / `snappy` / `deflate_level` are what
will be installed, the three `max_*` and `auth_required` are the options. -/
theorem response_reflects_applied (conf : Conf) (nc : NConf) (c c' : Client) (x : IdFull) (r : Resp) (n : Negot)
    (h : identifyFull conf nc c x = .doc c' r n) :
    c' = (identifySeq conf c x).1 ∧ InRange conf x.d ∧ n = negotiate conf nc x ∧
    r.msgTimeout = Int.tdiv c'.conn.msgTimeoutNs 1000000 ∧ r.outputBufferSize = c'.conn.obSize ∧
    r.outputBufferTimeout = Int.tdiv c'.conn.obtNs 1000000 ∧ r.sampleRate = c'.conn.sampleRate ∧
    r.tlsv1 = n.tlsv1 ∧ r.deflate = n.deflate ∧ r.snappy = n.snappy ∧ r.deflateLevel = n.deflateLevel ∧
    r.maxRdyCount = conf.maxRdy ∧ r.maxMsgTimeout = nc.maxMsgTimeoutMs ∧ r.maxDeflateLevel = nc.maxDeflateLevel ∧
    r.authRequired = nc.authRequired := by
  unfold identifyFull at h
  by_cases hok : (identifySeq conf c x).2 = true
  · have hr := (seq_ok_iff conf c x).mp hok
    simp only [hok, Bool.true_eq_false, if_false] at h
    repeat' split at h
    all_goals first
      | (cases h; done)
      | (injection h with h1 h2 h3
         subst h1; subst h2; subst h3
         exact ⟨rfl, hr, rfl, rfl, rfl, rfl, rfl, rfl, rfl, rfl, rfl, rfl, rfl, rfl, rfl⟩)
  · have : (identifySeq conf c x).2 = false := by simpa using hok
    simp [this] at h

/-- Features: announced exactly when enabled on the server and asked for; never snappy and deflate
together (asking for both, both enabled, is `E_IDENTIFY_FAILED`); the deflate level is within
1 … max-deflate-level (which `nsqd.New` keeps within 1 … 9, the range `flate.NewWriter` accepts), is
the requested one when that is permitted, and min(max, 6) when none was requested. -/
theorem negotiation (conf : Conf) (nc : NConf) (x : IdFull) (hmax : 1 ≤ nc.maxDeflateLevel) :
    (negotiate conf nc x).tlsv1 = (conf.tlsConfigured && x.d.tlsv1) ∧
    (negotiate conf nc x).deflate = (conf.deflateEnabled && x.d.deflate) ∧
    (negotiate conf nc x).snappy = (conf.snappyEnabled && x.d.snappy) ∧
    1 ≤ (negotiate conf nc x).deflateLevel ∧ (negotiate conf nc x).deflateLevel ≤ nc.maxDeflateLevel ∧
    ((negotiate conf nc x).deflate = true → 1 ≤ x.deflateLevel → x.deflateLevel ≤ nc.maxDeflateLevel →
      (negotiate conf nc x).deflateLevel = x.deflateLevel) ∧
    ((negotiate conf nc x).deflate = false ∨ x.deflateLevel ≤ 0 →
      (negotiate conf nc x).deflateLevel = if nc.maxDeflateLevel < 6 then nc.maxDeflateLevel else 6) := by
  refine ⟨rfl, rfl, rfl, (clampLevel_bounds _ _ _ hmax).1, (clampLevel_bounds _ _ _ hmax).2, ?_, ?_⟩
  · intro hd h1 h2
    simp only [negotiate] at hd ⊢
    rw [hd]; exact clampLevel_granted _ _ h1 h2
  · intro h
    simp only [negotiate] at h ⊢
    exact clampLevel_default _ _ _ h

theorem snappy_deflate_exclusive (conf : Conf) (nc : NConf) (c c' : Client) (x : IdFull) (r : Resp) (n : Negot)
    (h : identifyFull conf nc c x = .doc c' r n) : ¬ (r.deflate = true ∧ r.snappy = true) := by
  unfold identifyFull at h
  repeat' split at h
  all_goals first
    | (cases h; done)
    | (injection h with h1 h2 h3
       subst h2; subst h3
       rename_i hb
       simp only [respDoc]
       intro hh
       exact hb (by simp [hh.1, hh.2]))

/-- Echo: a permitted `msg_timeout` is returned as sent; 0 returns the server default unchanged. -/
theorem msg_timeout_echo (conf : Conf) (nc : NConf) (c c' : Client) (x : IdFull) (r : Resp) (n : Negot)
    (h : identifyFull conf nc c x = .doc c' r n) :
    (x.d.msgTimeout = 0 ∧ r.msgTimeout = Int.tdiv c.conn.msgTimeoutNs 1000000) ∨
    (x.d.msgTimeout ≠ 0 ∧ r.msgTimeout = x.d.msgTimeout) := by
  obtain ⟨hc, hr, _, hm, _⟩ := response_reflects_applied conf nc c c' x r n h
  have hag := (identifySeq_agrees conf c x).2
  have hsome := (applyIdentify_isSome conf c.conn x.d).mpr hr
  cases ha : applyIdentify conf c.conn x.d with
  | none => simp [ha] at hsome
  | some s' =>
    simp only [ha] at hag
    have hs' : c'.conn = s' := by rw [hc, hag]
    rcases msgTimeout_echo conf _ _ _ (applyIdentify_msgTimeout conf c.conn s' x.d ha) with ⟨h0, hcur⟩ | ⟨hn0, hdiv⟩
    · left; refine ⟨h0, ?_⟩; rw [hm, hs', hcur]
    · right; refine ⟨hn0, ?_⟩; rw [hm, hs']; exact hdiv

-- non-vacuity: concrete runs of the model
example : identifyFull conf0 nc0 c0 ⟨{ d0 with deflate := true, msgTimeout := 5000, sampleRate := 7 }, 9, ⟨[99], [], [], [], []⟩⟩ =
    .doc ⟨⟨[99], [], [], [], []⟩, { c0.conn with msgTimeoutNs := 5000000000, sampleRate := 7 }⟩
      { maxRdyCount := 2500, maxMsgTimeout := 900000, msgTimeout := 5000, tlsv1 := false, deflate := true, deflateLevel := 6,
        maxDeflateLevel := 6, snappy := false, sampleRate := 7, authRequired := false, outputBufferSize := 16384,
        outputBufferTimeout := 250 }
      ⟨false, true, 6, false⟩ := by decide
example : identifyFull conf0 nc0 c0 ⟨{ d0 with deflate := true, snappy := true }, 0, c0.info⟩ = .failed c0 := by decide
example : identifyFull conf0 nc0 c0 ⟨{ d0 with heartbeat := 999 }, 0, ⟨[1], [], [], [], []⟩⟩ =
    .badBody ⟨⟨[1], [], [], [], []⟩, c0.conn⟩ := by decide
-- partial effect: the output buffer timeout was already written when the size is rejected
example : identifyFull conf0 nc0 c0 ⟨{ d0 with outBufTimeout := 100, outBufSize := 63 }, 0, c0.info⟩ =
    .badBody ⟨c0.info, { c0.conn with obtNs := 100000000 }⟩ := by decide
example : identifyFull conf0 nc0 c0 ⟨{ d0 with featureNegotiation := false, outBufSize := -1 }, 0, c0.info⟩ =
    .ok ⟨c0.info, { c0.conn with obSize := 1, obtNs := 0 }⟩ := by decide
example : InRange conf0 d0 := by simp [InRange, HbOK, ObtOK, ObsOK, SrOK, MtOK, d0]
example : ¬ InRange conf0 { d0 with sampleRate := 100 } := by simp [InRange, SrOK, d0]
example : (negotiate conf0 { nc0 with maxDeflateLevel := 4 } ⟨{ d0 with deflate := true }, 9, c0.info⟩).deflateLevel = 4 := by decide

end Nsq.Props.C09Identify
