import Nsq.Proofs.Wire
import Nsq.Tie.WireFn
/-!
# C07 — envelope and frame integrity, stated on the TRANSLATED code

The theorems of `Nsq.Props.C07` are about the hand-written model `Nsq.Model.Wire`. Here the same
facts are stated directly on the definitions the translator re-derives from the Go source on
every run (`Nsq.Gen.CodecFn`: `Message.WriteTo`, `decodeMessage`, `protocol.SendFramedResponse`),
through the equalities of `Nsq.Tie.WireFn`. `bufferWriter` is `bytes.Buffer` (what
`SendMessage` / `writeMessageToBackend` encode into); the client-side reader `readFrame`
(go-nsq `ReadResponse` + `UnpackResponse`) is the model's, tied by correspondence.
-/
namespace Nsq.Props.C07Fn
open Nsq.Model.Wire Nsq.Model.ByteOps Nsq.Gen.CodecFn Nsq.Tie.WireFn

/-- Envelope round trip through the translated code, for EVERY int64 timestamp, uint16 attempts,
16-byte id and body: what the translated `WriteTo` leaves in an empty buffer, the translated
`decodeMessage` reads back unchanged (no error, no panic); the count returned is its length. -/
theorem translated_roundtrip (m : Msg) (hid : m.id.length = 16) :
    ∃ out, writeTo m.id m.body m.ts m.attempts bufferWriter [] = .ret (out, BitVec.ofNat 64 out.length, "") ∧
      out.length = 26 + m.body.length ∧
      decodeMessage out = .ret (some (ofMsg m), "") := by
  refine ⟨encode m, ?_, Nsq.Proofs.Wire.encode_length m hid, ?_⟩
  · simpa using writeTo_eq [] m
  · rw [decodeMessage_eq, Nsq.Proofs.Wire.decode_encode m hid]

/-- Buffers shorter than 26 bytes are rejected by the translated `decodeMessage`, never mis-parsed
and never a panic. -/
theorem translated_decode_short (b : Bytes) (h : b.length < 26) :
    decodeMessage b = .ret (none, "invalid message buffer size (%d)") := by
  rw [decodeMessage_eq, Nsq.Proofs.Wire.decode_short b h]

/-- The translated `decodeMessage` is total: every buffer gives a result, never `panic`. -/
theorem translated_decode_total (b : Bytes) : ∃ v, decodeMessage b = .ret v := by
  rw [decodeMessage_eq]; exact ⟨_, rfl⟩

/-- Conversely whatever the translated `decodeMessage` accepts is exactly what the translated
`WriteTo` writes for the result (the representation of a message is unique). -/
theorem translated_decode_sound (b : Bytes) (x : decodeMessage_Message) (e : String)
    (h : decodeMessage b = .ret (some x, e)) :
    e = "" ∧ x.ID.length = 16 ∧
    writeTo x.ID x.Body x.Timestamp x.Attempts bufferWriter [] = .ret (b, BitVec.ofNat 64 b.length, "") := by
  rw [decodeMessage_eq] at h
  cases hd : decode b with
  | none => rw [hd] at h; simp at h
  | some m =>
    rw [hd] at h
    simp only [Res.ret.injEq, Prod.mk.injEq, Option.some.injEq] at h
    obtain ⟨hx, he⟩ := h
    have hm := Nsq.Proofs.Wire.encode_decode b m hd
    subst hx
    refine ⟨he.symm, hm.2, ?_⟩
    have := writeTo_eq [] m
    simp only [List.nil_append, hm.1] at this
    exact this

/-- Frame round trip through the translated `SendFramedResponse`: the client-side reader returns
exactly the frame type and data (and the untouched rest of the stream), for every payload
within the client's int32 length. -/
theorem translated_frame_roundtrip (f : Frame) (rest : Bytes) (h : f.data.length + 4 < 2147483648) :
    ∃ out, sendFramedResponse bufferWriter [] f.ftype f.data =
        .ret (out, BitVec.ofNat 64 f.data.length + 8#64, "") ∧
      out.length = f.data.length + 8 ∧
      readFrame (out ++ rest) = some (f, rest) := by
  refine ⟨encodeFrame f, ?_, ?_, Nsq.Proofs.Wire.readFrame_encode f rest h⟩
  · simpa using sendFramedResponse_eq [] f
  · simp [encodeFrame, Nsq.Proofs.Wire.beBytes_length]; omega

/-- A message on the wire (`SendMessage`: translated `WriteTo` into a pooled buffer, then the
translated `SendFramedResponse` with frame type 2): the client reads one frame of type 2 whose
data the translated `decodeMessage` turns back into the message. -/
theorem translated_message_frame (m : Msg) (hid : m.id.length = 16) (rest : Bytes)
    (hb : m.body.length + 30 < 2147483648) :
    ∃ enc n out k, writeTo m.id m.body m.ts m.attempts bufferWriter [] = .ret (enc, n, "") ∧
      sendFramedResponse bufferWriter [] 2#32 enc = .ret (out, k, "") ∧
      readFrame (out ++ rest) = some ({ ftype := 2#32, data := enc }, rest) ∧
      decodeMessage enc = .ret (some (ofMsg m), "") := by
  obtain ⟨enc, h1, hl, h3⟩ := translated_roundtrip m hid
  obtain ⟨out, h2, _, h4⟩ := translated_frame_roundtrip { ftype := 2#32, data := enc } rest (by simp only; omega)
  exact ⟨enc, _, out, _, h1, h2, h4, h3⟩

/-! non-vacuity -/
def demo : Msg := { ts := 0x1122334455667788#64, attempts := 0x0102#16, id := List.replicate 16 97, body := [1, 2, 3] }

example : writeTo demo.id demo.body demo.ts demo.attempts bufferWriter [] =
    .ret ([0x11, 0x22, 0x33, 0x44, 0x55, 0x66, 0x77, 0x88, 1, 2] ++ List.replicate 16 97 ++ [1, 2, 3], 29#64, "") := by
  decide
example : decodeMessage ([0x11, 0x22, 0x33, 0x44, 0x55, 0x66, 0x77, 0x88, 1, 2] ++ List.replicate 16 97 ++ [1, 2, 3]) =
    .ret (some (ofMsg demo), "") := by decide
example : decodeMessage (List.replicate 25 0) = .ret (none, "invalid message buffer size (%d)") :=
  translated_decode_short _ (by decide)
example : ∃ v, decodeMessage [1, 2, 3] = .ret v := translated_decode_total _
example : sendFramedResponse bufferWriter [] 2#32 [79, 75] = .ret ([0, 0, 0, 6, 0, 0, 0, 2, 79, 75], 10#64, "") := by
  decide
example := translated_roundtrip demo (by decide)
example := translated_decode_sound _ (ofMsg demo) "" (translated_roundtrip demo (by decide)).choose_spec.2.2
example := translated_frame_roundtrip { ftype := 0#32, data := [79, 75] } [9] (by decide)
example := translated_message_frame demo (by decide) [] (by decide)

end Nsq.Props.C07Fn
